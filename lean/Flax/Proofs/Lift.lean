/-
Helper lemmas about the lifting model (association lists, grouping, scope operations, evaluation frames,
the simulation between a body run on the outer scope and on the packed inner scope).
The property theorems themselves are in Flax/Props/C05.lean and Flax/Props/C07.lean.
-/
import Flax.Model.Lift
import Flax.Props.C14

namespace Flax.Lift
open Flax.Filter

/-! ### association lists -/

theorem alookup_ainsert_same (k : String) (v : α) (l : List (String × α)) :
    alookup k (ainsert k v l) = some v := by
  induction l with
  | nil => simp [ainsert, alookup]
  | cons x r ih =>
    obtain ⟨k', v'⟩ := x
    by_cases h : k' = k
    · simp [ainsert, alookup, h]
    · simp [ainsert, alookup, h, ih]

theorem alookup_ainsert_ne {k k' : String} (h : k' ≠ k) (v : α) (l : List (String × α)) :
    alookup k' (ainsert k v l) = alookup k' l := by
  induction l with
  | nil => simp [ainsert, alookup]; intro h'; exact absurd h'.symm h
  | cons x r ih =>
    obtain ⟨k2, v2⟩ := x
    by_cases h2 : k2 = k
    · subst h2
      have : ¬ k2 = k' := fun e => h e.symm
      simp [ainsert, alookup, this]
    · by_cases h3 : k2 = k'
      · subst h3; simp [ainsert, alookup, h2]
      · simp [ainsert, alookup, h2, h3, ih]

theorem alookup_ainsert (k k' : String) (v : α) (l : List (String × α)) :
    alookup k' (ainsert k v l) = if k' = k then some v else alookup k' l := by
  by_cases h : k' = k
  · subst h; simp [alookup_ainsert_same]
  · simp [h, alookup_ainsert_ne h]

theorem alookup_none_iff (k : String) (l : List (String × α)) : alookup k l = none ↔ k ∉ keys l := by
  induction l with
  | nil => simp [alookup, keys]
  | cons x r ih =>
    obtain ⟨k', v'⟩ := x
    by_cases h : k' = k
    · simp [alookup, keys, h]
    · have h' : ¬ k = k' := fun e => h e.symm
      simp only [alookup, h, ↓reduceIte, ih, keys, List.map_cons, List.mem_cons, h', false_or]

theorem mem_of_alookup {k : String} {v : α} {l : List (String × α)} (h : alookup k l = some v) : (k, v) ∈ l := by
  induction l with
  | nil => simp [alookup] at h
  | cons x r ih =>
    obtain ⟨k', v'⟩ := x
    by_cases hk : k' = k
    · simp [alookup, hk] at h; subst h; subst hk; simp
    · simp [alookup, hk] at h; exact List.mem_cons_of_mem _ (ih h)

theorem alookup_of_mem {k : String} {v : α} {l : List (String × α)} (hn : (keys l).Nodup) (h : (k, v) ∈ l) :
    alookup k l = some v := by
  induction l with
  | nil => cases h
  | cons x r ih =>
    obtain ⟨k', v'⟩ := x
    simp only [keys, List.map_cons, List.nodup_cons] at hn
    rcases List.mem_cons.mp h with h1 | h1
    · cases h1; simp [alookup]
    · have : k' ≠ k := by
        intro e; subst e
        exact hn.1 (List.mem_map.mpr ⟨(k', v), h1, rfl⟩)
      simp [alookup, this]; exact ih hn.2 h1

theorem alookup_filter_key (p : String → Bool) (k : String) (l : List (String × α)) :
    alookup k (l.filter (fun kv => p kv.1)) = if p k then alookup k l else none := by
  induction l with
  | nil => simp [alookup]
  | cons x r ih =>
    obtain ⟨k', v'⟩ := x
    by_cases hp : p k' = true
    · by_cases hk : k' = k
      · subst hk; simp [List.filter, hp, alookup]
      · simp [List.filter, hp, alookup, hk, ih]
    · by_cases hk : k' = k
      · subst hk; simp [List.filter, hp, alookup, ih]
      · simp [List.filter, hp, alookup, hk, ih]

theorem alookup_append (k : String) (a b : List (String × α)) :
    alookup k (a ++ b) = match alookup k a with | some v => some v | none => alookup k b := by
  induction a with
  | nil => simp [alookup]
  | cons x r ih =>
    obtain ⟨k', v'⟩ := x
    by_cases hk : k' = k
    · simp [alookup, hk]
    · simp [alookup, hk, ih]

theorem keys_ainsert (k : String) (v : α) (l : List (String × α)) :
    keys (ainsert k v l) = if k ∈ keys l then keys l else keys l ++ [k] := by
  induction l with
  | nil => simp [ainsert, keys]
  | cons x r ih =>
    obtain ⟨k', v'⟩ := x
    by_cases hk : k' = k
    · subst hk; simp [ainsert, keys]
    · have hk' : ¬ k = k' := fun e => hk e.symm
      simp only [keys] at ih
      simp only [ainsert, hk, ↓reduceIte, keys, List.map_cons, ih, List.mem_cons, hk', false_or]
      split <;> simp_all

theorem nodup_keys_ainsert (k : String) (v : α) (l : List (String × α)) (h : (keys l).Nodup) :
    (keys (ainsert k v l)).Nodup := by
  rw [keys_ainsert]
  split
  · exact h
  · rename_i hk
    rw [List.nodup_append]
    refine ⟨h, by simp, ?_⟩
    intro a ha b hb
    simp at hb; subst hb
    intro e; subst e; exact hk ha

theorem mem_ainsert {k : String} {v : α} {l : List (String × α)} {x : String × α} (h : x ∈ ainsert k v l) :
    x = (k, v) ∨ x ∈ l := by
  induction l with
  | nil => simp [ainsert] at h; exact Or.inl h
  | cons y r ih =>
    obtain ⟨k', v'⟩ := y
    by_cases hk : k' = k
    · simp [ainsert, hk] at h
      rcases h with h | h
      · exact Or.inl h
      · exact Or.inr (List.mem_cons_of_mem _ h)
    · simp [ainsert, hk] at h
      rcases h with h | h
      · exact Or.inr (by rw [h]; exact List.mem_cons_self)
      · rcases ih h with h | h
        · exact Or.inl h
        · exact Or.inr (List.mem_cons_of_mem _ h)

/-! ### variables -/

theorem getVar_putVar (vs : Vars) (c n : String) (v : Int) (c' n' : String) :
    getVar (putVar vs c n v) c' n' = if c' = c ∧ n' = n then some v else getVar vs c' n' := by
  unfold putVar getVar
  cases hc : alookup c vs with
  | none =>
    by_cases h1 : c' = c
    · subst h1
      simp only [alookup_ainsert_same, hc]
      by_cases h2 : n' = n
      · simp [h2, alookup]
      · have : ¬ n = n' := fun e => h2 e.symm
        simp [h2, alookup, this]
    · simp [alookup_ainsert_ne h1, h1]
  | some coll =>
    by_cases h1 : c' = c
    · subst h1
      simp only [alookup_ainsert_same, hc, true_and, alookup_ainsert]
    · simp [alookup_ainsert_ne h1, h1]

theorem alookup_putVar_ne (vs : Vars) (c n : String) (v : Int) {c' : String} (h : c' ≠ c) :
    alookup c' (putVar vs c n v) = alookup c' vs := by
  unfold putVar
  cases alookup c vs <;> simp [alookup_ainsert_ne h]

theorem varsWF_putVar (vs : Vars) (c n : String) (v : Int) (h : VarsWF vs) : VarsWF (putVar vs c n v) := by
  unfold putVar
  cases hc : alookup c vs with
  | none =>
    refine ⟨nodup_keys_ainsert _ _ _ h.1, ?_⟩
    intro c' coll' hm
    rcases mem_ainsert hm with e | e
    · cases e; simp [keys]
    · exact h.2 c' coll' e
  | some coll =>
    refine ⟨nodup_keys_ainsert _ _ _ h.1, ?_⟩
    intro c' coll' hm
    rcases mem_ainsert hm with e | e
    · cases e
      exact nodup_keys_ainsert _ _ _ (h.2 c coll (mem_of_alookup hc))
    · exact h.2 c' coll' e

/-! ### grouping -/

theorem anyMatch_cons (f : LFilter) (fs : List LFilter) (c : String) :
    anyMatch (f :: fs) c = (inFilter f c || anyMatch fs c) := by simp [anyMatch]

theorem alookup_groupBy_flatten (fs : List LFilter) : ∀ (xs : List (String × α)) (k : String),
    alookup k (groupBy xs fs).flatten = if anyMatch fs k then alookup k xs else none := by
  induction fs with
  | nil => intro xs k; simp [groupBy, anyMatch, alookup]
  | cons f fs ih =>
    intro xs k
    simp only [groupBy, List.flatten_cons, alookup_append, anyMatch_cons]
    rw [alookup_filter_key (fun c => inFilter f c)]
    by_cases hf : inFilter f k = true
    · simp only [hf, ↓reduceIte, Bool.true_or]
      cases h : alookup k xs with
      | some v => rfl
      | none =>
        simp only
        rw [ih, alookup_filter_key (fun c => !(inFilter f c))]
        simp [hf]
    · simp only [hf, Bool.false_eq_true, ↓reduceIte, Bool.false_or]
      rw [ih, alookup_filter_key (fun c => !(inFilter f c))]
      simp [hf]

theorem mem_groupBy_flatten (fs : List LFilter) : ∀ (xs : List (String × α)) (x : String × α),
    x ∈ (groupBy xs fs).flatten ↔ (x ∈ xs ∧ anyMatch fs x.1 = true) := by
  induction fs with
  | nil => intro xs x; simp [groupBy, anyMatch]
  | cons f fs ih =>
    intro xs x
    simp only [groupBy, List.flatten_cons, List.mem_append, List.mem_filter, ih, anyMatch_cons]
    by_cases hf : inFilter f x.1 = true <;> simp [hf]

theorem sublist_keys_filter (p : String × α → Bool) (xs : List (String × α)) :
    (keys (xs.filter p)).Sublist (keys xs) := by
  unfold keys
  exact (List.filter_sublist).map _

theorem nodup_keys_groupBy_flatten (fs : List LFilter) : ∀ (xs : List (String × α)),
    (keys xs).Nodup → (keys (groupBy xs fs).flatten).Nodup := by
  induction fs with
  | nil => intro xs _; simp [groupBy, keys]
  | cons f fs ih =>
    intro xs h
    simp only [groupBy, List.flatten_cons, keys, List.map_append]
    rw [List.nodup_append]
    refine ⟨(sublist_keys_filter _ xs).nodup h, ih _ ((sublist_keys_filter _ xs).nodup h), ?_⟩
    intro a ha b hb e
    subst e
    obtain ⟨x, hx, rfl⟩ := List.mem_map.mp ha
    obtain ⟨y, hy, hxy⟩ := List.mem_map.mp hb
    have hy' := (mem_groupBy_flatten fs _ y).mp hy
    simp only [List.mem_filter] at hx hy'
    have h1 := hx.2
    have h2 := hy'.1.2
    rw [hxy] at h2
    simp [h1] at h2

theorem varsWF_groupBy_flatten (fs : List LFilter) (vs : Vars) (h : VarsWF vs) : VarsWF (groupBy vs fs).flatten := by
  refine ⟨nodup_keys_groupBy_flatten fs vs h.1, ?_⟩
  intro c coll hm
  exact h.2 c coll ((mem_groupBy_flatten fs vs (c, coll)).mp hm).1

theorem varsWF_filter (p : String × Coll → Bool) (vs : Vars) (h : VarsWF vs) : VarsWF (vs.filter p) := by
  refine ⟨(sublist_keys_filter p vs).nodup h.1, ?_⟩
  intro c coll hm
  exact h.2 c coll (List.mem_filter.mp hm).1

theorem groupBy_append_tt (fs : List LFilter) : ∀ (xs : List (String × α)),
    groupBy xs (fs ++ [LFilter.tt]) = groupBy xs fs ++ [xs.filter (fun kv => !(anyMatch fs kv.1))] := by
  induction fs with
  | nil => intro xs; simp [groupBy, anyMatch, inFilter]
  | cons f fs ih =>
    intro xs
    simp only [List.cons_append, groupBy, ih, List.filter_filter, anyMatch_cons]
    congr 2
    congr 1
    apply List.filter_congr
    intro x _
    cases inFilter f x.1 <;> simp

theorem groupBy_length (fs : List LFilter) : ∀ (xs : List (String × α)), (groupBy xs fs).length = fs.length := by
  induction fs with
  | nil => intro xs; rfl
  | cons f fs ih => intro xs; simp [groupBy, ih]

/-! ### filters of the inner scope -/

theorem inFilter_unionAll_aux (fs : List LFilter) : ∀ (acc : LFilter) (c : String),
    inFilter (fs.foldl union acc) c = (inFilter acc c || anyMatch fs c) := by
  induction fs with
  | nil => intro acc c; simp [anyMatch]
  | cons f fs ih =>
    intro acc c
    simp only [List.foldl_cons, ih, Flax.C14.in_union, anyMatch_cons, Bool.or_assoc]

theorem inFilter_unionAll (fs : List LFilter) (c : String) : inFilter (unionAll fs) c = anyMatch fs c := by
  simp [unionAll, inFilter_unionAll_aux, inFilter]

theorem inFilter_scopeFn (s : ScopeSt) (outF : List LFilter) (fz : List String) (vg : List Vars) (rg : List Rngs)
    (mf : LFilter) (ctr : Counters) (c : String) :
    inFilter (scopeFn s outF fz vg rg mf ctr).mutable c = (inFilter s.mutable c && anyMatch outF c && inFilter mf c) := by
  simp [scopeFn, Flax.C14.in_intersect, inFilter_unionAll]


/-! ### scope operations -/

theorem put_ok {s s' : ScopeSt} {c n : String} {v : Int} (h : s.put c n v = .ok s') :
    inFilter s.mutable c = true ∧ s' = { s with vars := putVar s.vars c n v } := by
  unfold ScopeSt.put at h
  split at h
  · split at h
    · cases h
    · rename_i hm _
      cases h; exact ⟨hm, rfl⟩
  · cases h

theorem put_of_mutable (s : ScopeSt) (hf : s.FrozenOk) (c n : String) (v : Int) (hm : inFilter s.mutable c = true) :
    s.put c n v = .ok { s with vars := putVar s.vars c n v } := by
  unfold ScopeSt.put
  have : c ∉ s.frozen := fun hc => by simp [hf c hc] at hm
  simp [hm, this]

theorem put_of_immutable (s : ScopeSt) (c n : String) (v : Int) (hm : inFilter s.mutable c = false) :
    s.put c n v = .error .modifyImmutable := by
  unfold ScopeSt.put; simp [hm]

theorem makeRng_ok {s s' : ScopeSt} {name : String} {k : SymKey} (h : s.makeRng name = .ok (k, s')) :
    s'.vars = s.vars ∧ s'.mutable = s.mutable ∧ s'.frozen = s.frozen ∧ s'.rngs = s.rngs := by
  unfold ScopeSt.makeRng at h
  split at h
  · cases h
  · split at h
    · cases h; exact ⟨rfl, rfl, rfl, rfl⟩
    · cases h

theorem makeRngAt_ok {s s' : ScopeSt} {path : List String} {name : String} {k : SymKey}
    (h : s.makeRngAt path name = .ok (k, s')) :
    s'.vars = s.vars ∧ s'.mutable = s.mutable ∧ s'.frozen = s.frozen ∧ s'.rngs = s.rngs := by
  unfold ScopeSt.makeRngAt at h
  split at h
  · cases h
  · split at h
    · cases h
    · split at h
      · cases h; exact ⟨rfl, rfl, rfl, rfl⟩
      · split at h
        · cases h
        · cases h; exact ⟨rfl, rfl, rfl, rfl⟩

/-! ### evaluation: what a body run leaves untouched -/

theorem wcols_sub_cols (b : Prog) : ∀ c, c ∈ wcols b → c ∈ cols b := by
  induction b with
  | seq p q ihp ihq =>
    intro c h
    simp only [wcols, cols, List.mem_append] at h ⊢
    rcases h with h | h
    · exact Or.inl (ihp c h)
    · exact Or.inr (ihq c h)
  | _ => intro c h; simp_all [wcols, cols]

theorem eval_static (env : Env) (b : Prog) : ∀ (m m' : M), eval env b m = .ok m' →
    m'.sc.mutable = m.sc.mutable ∧ m'.sc.frozen = m.sc.frozen ∧ m'.sc.rngs = m.sc.rngs := by
  induction b with
  | skip => intro m m' h; simp [eval] at h; subst h; exact ⟨rfl, rfl, rfl⟩
  | seq p q ihp ihq =>
    intro m m' h
    simp only [eval] at h
    split at h
    · cases h
    · rename_i m1 h1
      have a := ihp m m1 h1
      have b := ihq m1 m' h
      exact ⟨b.1.trans a.1, b.2.1.trans a.2.1, b.2.2.trans a.2.2⟩
  | get c n =>
    intro m m' h
    simp only [eval] at h
    split at h
    · cases h; exact ⟨rfl, rfl, rfl⟩
    · cases h
  | has c n => intro m m' h; simp only [eval] at h; cases h; exact ⟨rfl, rfl, rfl⟩
  | put c n e =>
    intro m m' h
    simp only [eval] at h
    split at h
    · cases h
    · split at h
      · cases h
      · rename_i sc hp
        cases h
        have := (put_ok hp).2
        subst this; exact ⟨rfl, rfl, rfl⟩
  | decl c n e =>
    intro m m' h
    simp only [eval] at h
    split at h
    · cases h; exact ⟨rfl, rfl, rfl⟩
    · split at h
      · split at h
        · cases h
        · split at h
          · cases h
          · rename_i sc hp
            cases h
            have := (put_ok hp).2
            subst this; exact ⟨rfl, rfl, rfl⟩
      · cases h
  | rng s =>
    intro m m' h
    simp only [eval] at h
    split at h
    · cases h
    · rename_i k sc hk
      cases h
      have := makeRng_ok hk
      exact ⟨this.2.1, this.2.2.1, this.2.2.2⟩
  | rngAt p s =>
    intro m m' h
    simp only [eval] at h
    split at h
    · cases h
    · rename_i k sc hk
      cases h
      have := makeRngAt_ok hk
      exact ⟨this.2.1, this.2.2.1, this.2.2.2⟩

/-- a collection the body does not write, or that is immutable, keeps its whole content -/
theorem eval_frame (env : Env) (b : Prog) (c0 : String) : ∀ (m m' : M), eval env b m = .ok m' →
    (c0 ∉ wcols b ∨ inFilter m.sc.mutable c0 = false) → alookup c0 m'.sc.vars = alookup c0 m.sc.vars := by
  induction b with
  | skip => intro m m' h _; simp [eval] at h; subst h; rfl
  | seq p q ihp ihq =>
    intro m m' h hc
    simp only [eval] at h
    split at h
    · cases h
    · rename_i m1 h1
      have hs := eval_static env p m m1 h1
      have a := ihp m m1 h1 (by
        rcases hc with hc | hc
        · exact Or.inl (fun x => hc (by simp [wcols, x]))
        · exact Or.inr hc)
      have b := ihq m1 m' h (by
        rcases hc with hc | hc
        · exact Or.inl (fun x => hc (by simp [wcols, x]))
        · exact Or.inr (by rw [hs.1]; exact hc))
      exact b.trans a
  | get c n =>
    intro m m' h _
    simp only [eval] at h
    split at h
    · cases h; rfl
    · cases h
  | has c n => intro m m' h _; simp only [eval] at h; cases h; rfl
  | put c n e =>
    intro m m' h hc
    simp only [eval] at h
    split at h
    · cases h
    · split at h
      · cases h
      · rename_i sc hp
        cases h
        have hp' := put_ok hp
        have hne : c0 ≠ c := by
          rcases hc with hc | hc
          · intro e; exact hc (by simp [wcols, e])
          · intro e; subst e; simp [hp'.1] at hc
        rw [hp'.2]
        exact alookup_putVar_ne _ _ _ _ hne
  | decl c n e =>
    intro m m' h hc
    simp only [eval] at h
    split at h
    · cases h; rfl
    · split at h
      · split at h
        · cases h
        · split at h
          · cases h
          · rename_i sc hp
            cases h
            have hp' := put_ok hp
            have hne : c0 ≠ c := by
              rcases hc with hc | hc
              · intro e; exact hc (by simp [wcols, e])
              · intro e; subst e; simp [hp'.1] at hc
            rw [hp'.2]
            exact alookup_putVar_ne _ _ _ _ hne
      · cases h
  | rng s =>
    intro m m' h _
    simp only [eval] at h
    split at h
    · cases h
    · rename_i k sc hk
      cases h
      simp [(makeRng_ok hk).1]
  | rngAt p s =>
    intro m m' h _
    simp only [eval] at h
    split at h
    · cases h
    · rename_i k sc hk
      cases h
      simp [(makeRngAt_ok hk).1]

/-- variables are never deleted -/
theorem eval_mono (env : Env) (b : Prog) (c0 n0 : String) : ∀ (m m' : M), eval env b m = .ok m' →
    (getVar m.sc.vars c0 n0).isSome = true → (getVar m'.sc.vars c0 n0).isSome = true := by
  induction b with
  | skip => intro m m' h; simp [eval] at h; subst h; exact id
  | seq p q ihp ihq =>
    intro m m' h hv
    simp only [eval] at h
    split at h
    · cases h
    · rename_i m1 h1
      exact ihq m1 m' h (ihp m m1 h1 hv)
  | get c n =>
    intro m m' h hv
    simp only [eval] at h
    split at h
    · cases h; exact hv
    · cases h
  | has c n => intro m m' h hv; simp only [eval] at h; cases h; exact hv
  | put c n e =>
    intro m m' h hv
    simp only [eval] at h
    split at h
    · cases h
    · split at h
      · cases h
      · rename_i sc hp
        cases h
        rw [(put_ok hp).2]
        simp only [getVar_putVar]
        split
        · rfl
        · exact hv
  | decl c n e =>
    intro m m' h hv
    simp only [eval] at h
    split at h
    · cases h; exact hv
    · split at h
      · split at h
        · cases h
        · split at h
          · cases h
          · rename_i sc hp
            cases h
            rw [(put_ok hp).2]
            simp only [M.push, getVar_putVar]
            split
            · rfl
            · exact hv
      · cases h
  | rng s =>
    intro m m' h hv
    simp only [eval] at h
    split at h
    · cases h
    · rename_i k sc hk
      cases h
      simp only [(makeRng_ok hk).1]; exact hv
  | rngAt p s =>
    intro m m' h hv
    simp only [eval] at h
    split at h
    · cases h
    · rename_i k sc hk
      cases h
      simp only [(makeRngAt_ok hk).1]; exact hv

theorem eval_wf (env : Env) (b : Prog) : ∀ (m m' : M), eval env b m = .ok m' →
    VarsWF m.sc.vars → VarsWF m'.sc.vars := by
  induction b with
  | skip => intro m m' h; simp [eval] at h; subst h; exact id
  | seq p q ihp ihq =>
    intro m m' h hv
    simp only [eval] at h
    split at h
    · cases h
    · rename_i m1 h1
      exact ihq m1 m' h (ihp m m1 h1 hv)
  | get c n =>
    intro m m' h hv
    simp only [eval] at h
    split at h
    · cases h; exact hv
    · cases h
  | has c n => intro m m' h hv; simp only [eval] at h; cases h; exact hv
  | put c n e =>
    intro m m' h hv
    simp only [eval] at h
    split at h
    · cases h
    · split at h
      · cases h
      · rename_i sc hp
        cases h
        rw [(put_ok hp).2]
        exact varsWF_putVar _ _ _ _ hv
  | decl c n e =>
    intro m m' h hv
    simp only [eval] at h
    split at h
    · cases h; exact hv
    · split at h
      · split at h
        · cases h
        · split at h
          · cases h
          · rename_i sc hp
            cases h
            rw [(put_ok hp).2]
            exact varsWF_putVar _ _ _ _ hv
      · cases h
  | rng s =>
    intro m m' h hv
    simp only [eval] at h
    split at h
    · cases h
    · rename_i k sc hk
      cases h
      simp only [(makeRng_ok hk).1]; exact hv
  | rngAt p s =>
    intro m m' h hv
    simp only [eval] at h
    split at h
    · cases h
    · rename_i k sc hk
      cases h
      simp only [(makeRngAt_ok hk).1]; exact hv


/-! ### simulation: the same body on two scopes that agree on what the body can see -/

/-- `s` (outer) and `i` (inner) agree on the collections in `D`, on the mutability of those in `W`, on the rng
streams in `R`, and share the counters -/
structure Sim (D W R : String → Prop) (s i : ScopeSt) : Prop where
  vars : ∀ c, D c → ∀ n, getVar i.vars c n = getVar s.vars c n
  mutb : ∀ c, W c → inFilter i.mutable c = inFilter s.mutable c
  ifro : i.FrozenOk
  sfro : s.FrozenOk
  rngs : ∀ r, R r → alookup r i.rngs = alookup r s.rngs
  ctr : i.counters = s.counters

def SimRes (D W R : String → Prop) : Except Err M → Except Err M → Prop
  | .ok a, .ok b => a.regs = b.regs ∧ a.keys = b.keys ∧ Sim D W R a.sc b.sc
  | .error e, .error e' => e = e'
  | _, _ => False

theorem sim_put {D W R : String → Prop} {s i : ScopeSt} (h : Sim D W R s i) (c n : String) (v : Int)
    (hD : D c) (hW : W c) :
    match s.put c n v, i.put c n v with
    | .ok s', .ok i' => Sim D W R s' i'
    | .error e, .error e' => e = e'
    | _, _ => False := by
  have hm := h.mutb c hW
  cases hs : inFilter s.mutable c with
  | false =>
    rw [put_of_immutable s c n v hs, put_of_immutable i c n v (by rw [hm, hs])]
  | true =>
    rw [put_of_mutable s h.sfro c n v hs, put_of_mutable i h.ifro c n v (by rw [hm, hs])]
    exact {
      vars := by
        intro c' hc' n'
        simp only [getVar_putVar]
        split
        · rfl
        · exact h.vars c' hc' n'
      mutb := h.mutb, ifro := h.ifro, sfro := h.sfro, rngs := h.rngs, ctr := h.ctr }

theorem sim_makeRng {D W R : String → Prop} {s i : ScopeSt} (h : Sim D W R s i) (name : String)
    (hR : R name) (hP : R "params") :
    match s.makeRng name, i.makeRng name with
    | .ok (k, s'), .ok (k', i') => k = k' ∧ Sim D W R s' i'
    | .error e, .error e' => e = e'
    | _, _ => False := by
  have h1 := h.rngs name hR
  have h2 := h.rngs "params" hP
  have hn : i.rngName name = s.rngName name := by simp [ScopeSt.rngName, h1, h2]
  unfold ScopeSt.makeRng
  rw [hn]
  cases hnm : s.rngName name with
  | none => simp
  | some nm =>
    have hnm' : nm = name ∨ nm = "params" := by
      unfold ScopeSt.rngName at hnm
      split at hnm
      · cases hnm; exact Or.inl rfl
      · split at hnm
        · cases hnm; exact Or.inr rfl
        · cases hnm
    have h3 : alookup nm i.rngs = alookup nm s.rngs := by
      rcases hnm' with e | e <;> (subst e; assumption)
    simp only [h3, h.ctr]
    cases alookup nm s.rngs with
    | none => simp
    | some r =>
      cases alookup nm s.counters with
      | none => simp
      | some k =>
        simp only [true_and]
        exact { vars := h.vars, mutb := h.mutb, ifro := h.ifro, sfro := h.sfro, rngs := h.rngs
                ctr := by simp [h.ctr] }

theorem sim_makeRngAt {D W R : String → Prop} {s i : ScopeSt} (h : Sim D W R s i) (path : List String) (name : String)
    (hR : R name) (hP : R "params") :
    match s.makeRngAt path name, i.makeRngAt path name with
    | .ok (k, s'), .ok (k', i') => k = k' ∧ Sim D W R s' i'
    | .error e, .error e' => e = e'
    | _, _ => False := by
  have h1 := h.rngs name hR
  have h2 := h.rngs "params" hP
  have hn : i.rngName name = s.rngName name := by simp [ScopeSt.rngName, h1, h2]
  unfold ScopeSt.makeRngAt
  rw [hn]
  cases hnm : s.rngName name with
  | none => simp
  | some nm =>
    have hnm' : nm = name ∨ nm = "params" := by
      unfold ScopeSt.rngName at hnm
      split at hnm
      · cases hnm; exact Or.inl rfl
      · split at hnm
        · cases hnm; exact Or.inr rfl
        · cases hnm
    have h3 : alookup nm i.rngs = alookup nm s.rngs := by
      rcases hnm' with e | e <;> (subst e; assumption)
    simp only [h3, h.ctr]
    cases alookup nm s.rngs with
    | none => simp
    | some r =>
      simp only
      cases alookup (ctrKey path nm) s.counters with
      | none =>
        simp only
        cases path.isEmpty with
        | true => simp
        | false =>
          simp only [Bool.false_eq_true, ↓reduceIte, true_and]
          exact { vars := h.vars, mutb := h.mutb, ifro := h.ifro, sfro := h.sfro, rngs := h.rngs
                  ctr := by simp [h.ctr] }
      | some k =>
        simp only [true_and]
        exact { vars := h.vars, mutb := h.mutb, ifro := h.ifro, sfro := h.sfro, rngs := h.rngs
                ctr := by simp [h.ctr] }

theorem sim_eval {D W R : String → Prop} (env : Env) (b : Prog) : ∀ (ms mi : M),
    ms.regs = mi.regs → ms.keys = mi.keys → Sim D W R ms.sc mi.sc →
    (∀ c, c ∈ cols b → D c) → (∀ c, c ∈ wcols b → W c) → (∀ r, r ∈ rngNames b → R r) →
    (rngNames b ≠ [] → R "params") →
    SimRes D W R (eval env b ms) (eval env b mi) := by
  induction b with
  | skip => intro ms mi hr hk hs _ _ _ _; simp only [eval, SimRes]; exact ⟨hr, hk, hs⟩
  | seq p q ihp ihq =>
    intro ms mi hr hk hs hD hW hR hP
    have h1 := ihp ms mi hr hk hs (fun c h => hD c (by simp [cols, h])) (fun c h => hW c (by simp [wcols, h]))
      (fun r h => hR r (by simp [rngNames, h])) (fun h => hP (by simp [rngNames, h]))
    simp only [eval]
    cases hp : eval env p ms with
    | error e =>
      cases hq : eval env p mi with
      | error e' => simp only [hp, hq, SimRes] at h1; simp only [SimRes]; exact h1
      | ok m' => simp [hp, hq, SimRes] at h1
    | ok m1 =>
      cases hq : eval env p mi with
      | error e' => simp [hp, hq, SimRes] at h1
      | ok m1' =>
        simp only [hp, hq, SimRes] at h1
        exact ihq m1 m1' h1.1 h1.2.1 h1.2.2 (fun c h => hD c (by simp [cols, h])) (fun c h => hW c (by simp [wcols, h]))
          (fun r h => hR r (by simp [rngNames, h])) (fun h => hP (by simp [rngNames, h]))
  | get c n =>
    intro ms mi hr hk hs hD _ _ _
    have hv := hs.vars c (hD c (by simp [cols])) n
    simp only [eval, hv]
    cases getVar ms.sc.vars c n with
    | none => simp [SimRes]
    | some v => simp only [SimRes, M.push, hr]; exact ⟨trivial, hk, hs⟩
  | has c n =>
    intro ms mi hr hk hs hD _ _ _
    have hv := hs.vars c (hD c (by simp [cols])) n
    simp only [eval, hv, SimRes, M.push, hr]
    exact ⟨trivial, hk, hs⟩
  | put c n e =>
    intro ms mi hr hk hs hD hW _ _
    simp only [eval, hr]
    cases evalExpr env mi.regs e with
    | none => simp [SimRes]
    | some v =>
      simp only
      have hp := sim_put hs c n v (hD c (by simp [cols])) (hW c (by simp [wcols]))
      cases h1 : ms.sc.put c n v with
      | error e1 =>
        cases h2 : mi.sc.put c n v with
        | error e2 => simp only [h1, h2] at hp; simp only [SimRes]; exact hp
        | ok i' => simp [h1, h2] at hp
      | ok s' =>
        cases h2 : mi.sc.put c n v with
        | error e2 => simp [h1, h2] at hp
        | ok i' => simp only [h1, h2] at hp; simp only [SimRes]; exact ⟨trivial, hk, hp⟩
  | decl c n e =>
    intro ms mi hr hk hs hD hW _ _
    have hv := hs.vars c (hD c (by simp [cols])) n
    have hm := hs.mutb c (hW c (by simp [wcols]))
    simp only [eval, hv, hm, hr]
    cases getVar ms.sc.vars c n with
    | some v => simp only [SimRes, M.push, hr]; exact ⟨trivial, hk, hs⟩
    | none =>
      simp only
      cases inFilter ms.sc.mutable c with
      | false => simp [SimRes]
      | true =>
        simp only [↓reduceIte]
        cases evalExpr env mi.regs e with
        | none => simp [SimRes]
        | some v =>
          simp only
          have hp := sim_put hs c n v (hD c (by simp [cols])) (hW c (by simp [wcols]))
          cases h1 : ms.sc.put c n v with
          | error e1 =>
            cases h2 : mi.sc.put c n v with
            | error e2 => simp only [h1, h2] at hp; simp only [SimRes]; exact hp
            | ok i' => simp [h1, h2] at hp
          | ok s' =>
            cases h2 : mi.sc.put c n v with
            | error e2 => simp [h1, h2] at hp
            | ok i' => simp only [h1, h2] at hp; simp only [SimRes, M.push, hr]; exact ⟨trivial, hk, hp⟩
  | rng st =>
    intro ms mi hr hk hs _ _ hR hP
    have hp := sim_makeRng hs st (hR st (by simp [rngNames])) (hP (by simp [rngNames]))
    simp only [eval]
    cases h1 : ms.sc.makeRng st with
    | error e1 =>
      cases h2 : mi.sc.makeRng st with
      | error e2 => simp only [h1, h2] at hp; simp only [SimRes]; exact hp
      | ok r2 => obtain ⟨k2, i2⟩ := r2; simp [h1, h2] at hp
    | ok r1 =>
      obtain ⟨k1, s1⟩ := r1
      cases h2 : mi.sc.makeRng st with
      | error e2 => simp [h1, h2] at hp
      | ok r2 =>
        obtain ⟨k2, i2⟩ := r2
        simp only [h1, h2] at hp
        simp only [SimRes, hk, hp.1]
        exact ⟨hr, trivial, hp.2⟩

  | rngAt pth st =>
    intro ms mi hr hk hs _ _ hR hP
    have hp := sim_makeRngAt hs pth st (hR st (by simp [rngNames])) (hP (by simp [rngNames]))
    simp only [eval]
    cases h1 : ms.sc.makeRngAt pth st with
    | error e1 =>
      cases h2 : mi.sc.makeRngAt pth st with
      | error e2 => simp only [h1, h2] at hp; simp only [SimRes]; exact hp
      | ok r2 => obtain ⟨k2, i2⟩ := r2; simp [h1, h2] at hp
    | ok r1 =>
      obtain ⟨k1, s1⟩ := r1
      cases h2 : mi.sc.makeRngAt pth st with
      | error e2 => simp [h1, h2] at hp
      | ok r2 =>
        obtain ⟨k2, i2⟩ := r2
        simp only [h1, h2] at hp
        simp only [SimRes, hk, hp.1]
        exact ⟨hr, trivial, hp.2⟩

/-! ### publish -/

theorem publishColl_spec (c : String) : ∀ (coll : Coll) (s : ScopeSt), s.FrozenOk → inFilter s.mutable c = true →
    (keys coll).Nodup →
    ∃ p, publishColl s c coll = .ok p ∧ p.mutable = s.mutable ∧ p.frozen = s.frozen ∧ p.rngs = s.rngs ∧
      p.counters = s.counters ∧
      ∀ c' n', getVar p.vars c' n' =
        if c' = c then (match alookup n' coll with | some v => some v | none => getVar s.vars c' n')
        else getVar s.vars c' n' := by
  intro coll
  induction coll with
  | nil =>
    intro s _ _ _
    refine ⟨s, rfl, rfl, rfl, rfl, rfl, ?_⟩
    intro c' n'; simp [alookup]
  | cons x rest ih =>
    obtain ⟨n, v⟩ := x
    intro s hf hm hn
    simp only [keys, List.map_cons, List.nodup_cons] at hn
    simp only [publishColl, put_of_mutable s hf c n v hm]
    obtain ⟨p, hp, h1, h2, h3, h4, h5⟩ := ih { s with vars := putVar s.vars c n v } hf hm hn.2
    refine ⟨p, hp, h1, h2, h3, h4, ?_⟩
    intro c' n'
    rw [h5]
    by_cases hc : c' = c
    · subst hc
      simp only [↓reduceIte, alookup, getVar_putVar, true_and]
      by_cases hnn : n = n'
      · subst hnn
        have : alookup n rest = none := (alookup_none_iff _ _).mpr hn.1
        simp [this]
      · have : ¬ n' = n := fun e => hnn e.symm
        simp [hnn, this]
    · simp only [hc, ↓reduceIte, getVar_putVar, false_and]

theorem publishAll_spec : ∀ (L : Vars) (s : ScopeSt), s.FrozenOk → VarsWF L →
    ∃ p, publishAll s L = .ok p ∧ p.mutable = s.mutable ∧ p.frozen = s.frozen ∧ p.rngs = s.rngs ∧
      p.counters = s.counters ∧
      ∀ c n, getVar p.vars c n =
        if inFilter s.mutable c then (match getVar L c n with | some v => some v | none => getVar s.vars c n)
        else getVar s.vars c n := by
  intro L
  induction L with
  | nil =>
    intro s _ _
    refine ⟨s, rfl, rfl, rfl, rfl, rfl, ?_⟩
    intro c n; simp [getVar, alookup]
  | cons x rest ih =>
    obtain ⟨c0, coll0⟩ := x
    intro s hf hwf
    have hn : c0 ∉ keys rest ∧ (keys rest).Nodup := by
      have := hwf.1; simpa [keys] using this
    have hwf' : VarsWF rest := ⟨hn.2, fun c coll hm => hwf.2 c coll (List.mem_cons_of_mem _ hm)⟩
    have hrest : alookup c0 rest = none := (alookup_none_iff _ _).mpr hn.1
    cases hm : inFilter s.mutable c0 with
    | false =>
      simp only [publishAll, hm, Bool.false_eq_true, ↓reduceIte]
      obtain ⟨p, hp, h1, h2, h3, h4, h5⟩ := ih s hf hwf'
      refine ⟨p, hp, h1, h2, h3, h4, ?_⟩
      intro c n
      rw [h5]
      by_cases hc : c0 = c
      · subst hc; simp [hm]
      · simp [getVar, alookup, hc]
    | true =>
      simp only [publishAll, hm, ↓reduceIte]
      obtain ⟨p1, hp1, a1, a2, a3, a4, a5⟩ :=
        publishColl_spec c0 coll0 s hf hm (hwf.2 c0 coll0 List.mem_cons_self)
      have hf1 : p1.FrozenOk := by
        intro c hc; rw [a1]; exact hf c (by rw [← a2]; exact hc)
      obtain ⟨p, hp, h1, h2, h3, h4, h5⟩ := ih p1 hf1 hwf'
      refine ⟨p, by simp [hp1, hp], h1.trans a1, h2.trans a2, h3.trans a3, h4.trans a4, ?_⟩
      intro c n
      rw [h5, a1, a5]
      by_cases hc : c0 = c
      · subst hc
        simp only [hm, ↓reduceIte, getVar, hrest, alookup]
      · have hc' : ¬ c = c0 := fun e => hc e.symm
        simp only [getVar, alookup, hc, hc', ↓reduceIte]

/-! ### repack never finds unmapped variables -/

theorem repack_ok (outF : List LFilter) (i : ScopeSt) (h : ∀ c, inFilter i.mutable c = true → anyMatch outF c = true) :
    repack outF i = .ok (groupBy (i.vars.filter (fun kv => inFilter i.mutable kv.1)) outF) := by
  unfold repack
  simp only [groupBy_append_tt, List.getLast?_append, List.getLast?_singleton, Option.some_or,
    List.dropLast_concat]
  have : (List.filter (fun kv => !(anyMatch outF kv.1)) (List.filter (fun kv => inFilter i.mutable kv.1) i.vars)) = [] := by
    rw [List.filter_filter, List.filter_eq_nil_iff]
    intro a _
    cases hm : inFilter i.mutable a.1 with
    | false => simp
    | true => simp [h a.1 hm]
  simp [this]


/-! ### the transparency of `pack` -/

/-- two variable trees hold the same variables (Python dict equality up to empty collections and order) -/
def SameVars (a b : Vars) : Prop := ∀ c n, getVar a c n = getVar b c n

/-- agreement of two runs: same outputs (values and drawn keys), same variables, counters, and static scope
data on success; the same error otherwise -/
def Agree : Except Err (Out × ScopeSt) → Except Err (Out × ScopeSt) → Prop
  | .ok (y, s), .ok (y', s') =>
      y = y' ∧ SameVars s.vars s'.vars ∧ s.counters = s'.counters ∧ s.mutable = s'.mutable ∧ s.rngs = s'.rngs ∧
        s.frozen = s'.frozen
  | .error e, .error e' => e = e'
  | _, _ => False

theorem getVar_repacked (vs : Vars) (mu : LFilter) (outF : List LFilter) (c n : String) :
    getVar (groupBy (vs.filter (fun kv => inFilter mu kv.1)) outF).flatten c n =
      if (anyMatch outF c && inFilter mu c) = true then getVar vs c n else none := by
  unfold getVar
  rw [alookup_groupBy_flatten, alookup_filter_key (fun c => inFilter mu c)]
  cases anyMatch outF c <;> cases inFilter mu c <;> simp

/-- the inner scope built by `scope_fn` from the groups of `_partial_pack` simulates the outer scope on
everything the in-filters lift -/
theorem sim_scopeFn (s : ScopeSt) (inF outF rngF : List LFilter) (mf : LFilter) (hfz : s.FrozenOk) :
    Sim (fun c => anyMatch inF c = true)
      (fun c => inFilter s.mutable c = true → anyMatch outF c = true ∧ inFilter mf c = true)
      (fun r => (alookup r s.rngs).isSome = true → anyMatch rngF r = true)
      s (scopeFn s outF (frozenNames (groupBy s.vars inF) outF) (groupBy s.vars inF) (groupBy s.rngs rngF) mf s.counters) where
  vars := by
    intro c hc n
    simp only [scopeFn, getVar, alookup_groupBy_flatten, hc, ↓reduceIte]
  mutb := by
    intro c hc
    rw [inFilter_scopeFn]
    cases hm : inFilter s.mutable c with
    | false => simp
    | true => simp [hc hm]
  ifro := by
    intro c hc
    rw [inFilter_scopeFn]
    simp only [scopeFn, frozenNames, List.mem_filter] at hc
    have : anyMatch outF c = false := by simpa using hc.2
    simp [this]
  sfro := hfz
  rngs := by
    intro r hr
    simp only [scopeFn, alookup_groupBy_flatten]
    cases h : alookup r s.rngs with
    | none => simp
    | some v => simp [hr (by simp [h])]
  ctr := rfl

theorem evalRets_congr (env : Env) (r1 r2 : List Int) (h : r1 = r2) (es : List Expr) :
    evalRets env r1 es = evalRets env r2 es := by rw [h]

theorem liftId_agree (inF outF rngF : List LFilter) (mf : LFilter) (attrs : List (String × Int)) (f : Fn)
    (args : List Int) (s : ScopeSt) (hwf : VarsWF s.vars) (hfz : s.FrozenOk)
    (hin : ∀ c, c ∈ cols f.body → anyMatch inF c = true)
    (hout : ∀ c, c ∈ wcols f.body → inFilter s.mutable c = true → anyMatch outF c = true ∧ inFilter mf c = true)
    (hrng : ∀ r, r ∈ rngDeps f.body → (alookup r s.rngs).isSome = true → anyMatch rngF r = true) :
    Agree (runFn attrs f args s) (liftId inF outF rngF mf attrs f args s) := by
  have hsim0 := sim_scopeFn s inF outF rngF mf hfz
  have hres := sim_eval ⟨args, attrs⟩ f.body ⟨[], [], s⟩
    ⟨[], [], scopeFn s outF (frozenNames (groupBy s.vars inF) outF) (groupBy s.vars inF) (groupBy s.rngs rngF) mf s.counters⟩
    rfl rfl hsim0 hin hout (fun r h => hrng r (by
      have : rngNames f.body ≠ [] := fun e => by simp [e] at h
      simp [rngDeps, this, h])) (fun hne => hrng "params" (by simp [rngDeps, hne]))
  simp only [liftId, pack, partialPack, runInner, runFn]
  cases hp : eval ⟨args, attrs⟩ f.body ⟨[], [], s⟩ with
  | error e =>
    cases hq : eval ⟨args, attrs⟩ f.body
        ⟨[], [], scopeFn s outF (frozenNames (groupBy s.vars inF) outF) (groupBy s.vars inF) (groupBy s.rngs rngF) mf s.counters⟩ with
    | error e' => simp only [hp, hq, SimRes] at hres; simp only [Agree]; exact hres
    | ok m' => simp [hp, hq, SimRes] at hres
  | ok m =>
    cases hq : eval ⟨args, attrs⟩ f.body
        ⟨[], [], scopeFn s outF (frozenNames (groupBy s.vars inF) outF) (groupBy s.vars inF) (groupBy s.rngs rngF) mf s.counters⟩ with
    | error e' => simp [hp, hq, SimRes] at hres
    | ok m' =>
      simp only [hp, hq, SimRes] at hres
      obtain ⟨hregs, hkeys, hsim⟩ := hres
      simp only [← hregs]
      cases hr : evalRets ⟨args, attrs⟩ m.regs f.ret with
      | none => simp [Agree]
      | some vs =>
        simp only
        have hst := eval_static _ _ _ _ hq
        have hst0 := eval_static _ _ _ _ hp
        simp only at hst hst0
        -- repack never fails
        have hrep := repack_ok outF m'.sc (by
          intro c hc
          rw [hst.1, inFilter_scopeFn] at hc
          simp only [Bool.and_eq_true] at hc
          exact hc.1.2)
        simp only [hrep]
        -- publish succeeds and is characterised
        have hwf' : VarsWF (groupBy (m'.sc.vars.filter (fun kv => inFilter m'.sc.mutable kv.1)) outF).flatten :=
          varsWF_groupBy_flatten _ _ (varsWF_filter _ _ (eval_wf _ _ _ _ hq (varsWF_groupBy_flatten inF s.vars hwf)))
        obtain ⟨p, hpub, p1, p2, p3, p4, p5⟩ :=
          publishAll_spec _ { s with counters := m'.sc.counters } hfz hwf'
        simp only [publish, hpub, Agree]
        refine ⟨by rw [hkeys], ?_, by rw [p4]; exact hsim.ctr.symm, by rw [p1]; exact hst0.1,
          by rw [p3]; exact hst0.2.2, by rw [p2]; exact hst0.2.1⟩
        intro c n
        rw [p5, getVar_repacked]
        simp only
        have hmu : inFilter m'.sc.mutable c = (inFilter s.mutable c && anyMatch outF c && inFilter mf c) := by
          rw [hst.1, inFilter_scopeFn]
        by_cases hD : anyMatch inF c = true
        · have hv := hsim.vars c hD n
          by_cases hP : inFilter m'.sc.mutable c = true
          · have hP' := hP
            rw [hmu] at hP'
            simp only [Bool.and_eq_true] at hP'
            simp only [hP'.1.1, hP'.1.2, hP, Bool.and_self, ↓reduceIte, hv]
            cases hg : getVar m.sc.vars c n with
            | some v => rfl
            | none =>
              simp only
              cases hs : getVar s.vars c n with
              | none => rfl
              | some v =>
                have := eval_mono _ _ c n _ _ hp (by simp [hs])
                simp [hg] at this
          · have hfr : alookup c m.sc.vars = alookup c s.vars := by
              apply eval_frame _ _ c _ _ hp
              by_cases hw : c ∈ wcols f.body
              · right
                cases hm : inFilter s.mutable c with
                | false => rfl
                | true =>
                  have := hout c hw hm
                  rw [hmu, hm, this.1, this.2] at hP
                  simp at hP
              · exact Or.inl hw
            have hg : getVar m.sc.vars c n = getVar s.vars c n := by simp [getVar, hfr]
            have hP2 : inFilter m'.sc.mutable c = false := by simpa using hP
            simp [hP2, hg]
        · have hnc : c ∉ cols f.body := fun h => hD (hin c h)
          have hnw : c ∉ wcols f.body := fun h => hnc (wcols_sub_cols _ c h)
          have hfr : alookup c m.sc.vars = alookup c s.vars := eval_frame _ _ c _ _ hp (Or.inl hnw)
          have hfi := eval_frame _ _ c _ _ hq (Or.inl hnw)
          simp only [scopeFn, alookup_groupBy_flatten, hD, Bool.false_eq_true, ↓reduceIte] at hfi
          have hg : getVar m.sc.vars c n = getVar s.vars c n := by simp [getVar, hfr]
          have hg' : getVar m'.sc.vars c n = none := by simp [getVar, hfi]
          rw [hg, hg']
          simp

end Flax.Lift
