/-
Helper lemmas for C16: NNX State conversions. Core Lean only.
-/
import Flax.Model.State
import Flax.Proofs.TraverseInv

set_option linter.unusedSectionVars false

namespace Flax.State
open Flax.Traverse

variable {α β : Type}

/-- the complete description of a nested dict: every leaf and every empty sub-dict with its path
(`flatten_mapping(keep_empty_nodes=True)`); two dicts with the same content up to order are equal as Python dicts -/
abbrev Content (s : SMap α) : List (SPath × FVal Key α) := relKvs true noLeaf s

/-- the leaves of a state with their paths, depth-first -/
abbrev leaves (s : SMap α) : Flat α := leavesKvs s

theorem leafItems_map_leafEntry (m : Flat α) : leafItems (m.map leafEntry) = m := by
  induction m with
  | nil => rfl
  | cons x rest ih =>
    simp only [leafItems, List.map_cons, List.filterMap_cons, leafEntry] at ih ⊢
    rw [ih]

theorem leafItems_perm {l1 l2 : List (SPath × FVal Key α)} (h : l1.Perm l2) : (leafItems l1).Perm (leafItems l2) :=
  h.filterMap _

theorem leafItems_append (l1 l2 : List (SPath × FVal Key α)) :
    leafItems (l1 ++ l2) = leafItems l1 ++ leafItems l2 := by
  simp [leafItems]

theorem leafItems_shift (k : Key) (l : List (SPath × FVal Key α)) :
    leafItems (l.map (fun pv => (k :: pv.1, pv.2))) = (leafItems l).map (fun pa => (k :: pa.1, pa.2)) := by
  induction l with
  | nil => rfl
  | cons x rest ih =>
    obtain ⟨p, v⟩ := x
    simp only [leafItems, List.map_cons, List.filterMap_cons] at ih ⊢
    cases v with
    | emptyNode => simpa using ih
    | val t =>
      cases t with
      | leaf a => simpa using ih
      | dict d => simpa using ih

mutual
  theorem leafItems_relT_true : ∀ (c : Tree Key α), leafItems (relT true noLeaf c) = leavesT c
    | .leaf v => by simp [relT, leavesT, leafItems]
    | .dict kvs => by
      have ih := leafItems_relKvs_true kvs
      rw [relT_dict_noLeaf]
      cases kvs with
      | nil => simp [leafItems, leavesT, leavesKvs]
      | cons x r => simpa [leavesT] using ih
  theorem leafItems_relKvs_true : ∀ (kvs : List (Key × Tree Key α)), leafItems (relKvs true noLeaf kvs) = leavesKvs kvs
    | [] => by simp [relKvs, leavesKvs, leafItems]
    | (k, c) :: rest => by
      have h1 := leafItems_relT_true c
      have h2 := leafItems_relKvs_true rest
      simp only [relKvs, noLeaf_shift, leafItems_append, leafItems_shift, h1, h2, leavesKvs]
end

theorem flatSeq_eq_leaves (s : SMap α) : leafItems (flatT false noLeaf (.dict s) []) = leaves s := by
  rw [flatT_root false noLeaf s rfl, relKvs_false_leaves, leafItems_map_leafEntry]

theorem insertFlat_perm (x : SPath × α) (l : Flat α) : (insertFlat x l).Perm (x :: l) := by
  induction l with
  | nil => simp [insertFlat]
  | cons y ys ih =>
    simp only [insertFlat]
    split
    · exact List.Perm.refl _
    · exact (List.Perm.cons y ih).trans (List.Perm.swap x y ys)

theorem sortFlat_perm (m : Flat α) : (sortFlat m).Perm m := by
  induction m with
  | nil => simp [sortFlat]
  | cons x rest ih =>
    simp only [sortFlat, List.foldr_cons] at ih ⊢
    exact (insertFlat_perm x _).trans (List.Perm.cons x ih)

/-- the flat state holds exactly the leaves (in sorted order) -/
theorem toFlat_perm (s : SMap α) : (toFlat s).Perm (leaves s) := by
  simp only [toFlat, flatSeq_eq_leaves]
  exact sortFlat_perm _

theorem prefixFree_map_leafEntry (m : Flat α) : PrefixFree (m.map leafEntry) ↔ PrefixFree m := by
  simp [PrefixFree, List.pairwise_map, leafEntry]

theorem leaves_prefixFree (s : SMap α) (hwf : WFKvs s) : PrefixFree (leaves s) := by
  have := relKvs_prefixFree false s noLeaf hwf
  rwa [relKvs_false_leaves, prefixFree_map_leafEntry] at this

theorem leaves_paths_ne_nil (s : SMap α) : ∀ e ∈ leaves s, e.1 ≠ [] := by
  intro e he
  have := relKvs_paths_ne_nil false noLeaf s (leafEntry e) (by
    rw [relKvs_false_leaves]; exact List.mem_map_of_mem he)
  simpa [leafEntry] using this

theorem PrefixFree.perm {γ : Type} {l1 l2 : List (SPath × γ)} (h : l1.Perm l2) (hp : PrefixFree l1) : PrefixFree l2 :=
  (List.Perm.pairwise_iff (fun h => Incomp.symm h) h).mp hp

theorem PrefixFree.sublist {γ : Type} {l1 l2 : List (SPath × γ)} (h : l1.Sublist l2) (hp : PrefixFree l2) :
    PrefixFree l1 :=
  List.Pairwise.sublist h hp

/-- `from_flat_state` of a prefix-free flat map succeeds and the result holds exactly the given leaves and no
empty sub-dict -/
theorem fromFlat_spec (m : Flat α) (hpf : PrefixFree m) (hne : ∀ e ∈ m, e.1 ≠ []) :
    ∃ s', fromFlat m = .ok s' ∧ (Content s').Perm (m.map leafEntry) ∧ (leaves s').Perm m := by
  have hnd : (m.map Prod.fst).Nodup := hpf.nodup_paths
  have hok : ∀ e ∈ m.map leafEntry, e.1 ≠ [] ∧ OkVal true e.2 := by
    intro e he
    simp only [List.mem_map] at he
    obtain ⟨x, hx, rfl⟩ := he
    exact ⟨hne x hx, Or.inl ⟨x.2, rfl⟩⟩
  obtain ⟨s', h1, h2⟩ := build_flat true (m.map leafEntry) []
    (by simpa [relKvs] using (prefixFree_map_leafEntry m).mpr hpf) hok
  simp only [relKvs, List.nil_append] at h2
  refine ⟨s', ?_, h2, ?_⟩
  · simp only [fromFlat, Dict.ofList_of_nodup m hnd]
    show liftE (build [] (m.map leafEntry)) = _
    rw [h1]; rfl
  · have := leafItems_perm h2
    rwa [leafItems_relKvs_true, leafItems_map_leafEntry] at this

/-! ### more on dicts: `dict(items)` keeps the last value of every key -/

section
variable {κ γ : Type} [DecidableEq κ]

/-- the value of the last item with key `k` -/
def lastVal : List (κ × γ) → κ → Option γ
  | [], _ => none
  | x :: rest, k =>
    match lastVal rest k with
    | some v => some v
    | none => if x.1 = k then some x.2 else none

theorem Dict.keys_set (d : List (κ × γ)) (k : κ) (v : γ) :
    (Dict.set d k v).map Prod.fst = if (Dict.get d k).isSome then d.map Prod.fst else d.map Prod.fst ++ [k] := by
  induction d with
  | nil => simp [Dict.set, Dict.get]
  | cons x rest ih =>
    obtain ⟨k', v'⟩ := x
    by_cases hk : k' = k
    · simp [Dict.set, Dict.get, hk]
    · simp only [Dict.set, hk, ↓reduceIte, List.map_cons, ih, Dict.get]
      split <;> simp

theorem Dict.nodup_set (d : List (κ × γ)) (k : κ) (v : γ) (h : (d.map Prod.fst).Nodup) :
    ((Dict.set d k v).map Prod.fst).Nodup := by
  rw [Dict.keys_set]
  cases hg : Dict.get d k with
  | some x => simpa using h
  | none =>
    simp only [Option.isSome_none, Bool.false_eq_true, ↓reduceIte]
    rw [List.nodup_append]
    refine ⟨h, by simp, ?_⟩
    intro a ha b hb
    simp only [List.mem_singleton] at hb
    subst hb
    simp only [List.mem_map] at ha
    obtain ⟨x, hx, rfl⟩ := ha
    exact (Dict.get_none_iff d b).mp hg x hx

theorem Dict.foldl_set_nodup (l acc : List (κ × γ)) (h : (acc.map Prod.fst).Nodup) :
    ((l.foldl (fun acc kv => Dict.set acc kv.1 kv.2) acc).map Prod.fst).Nodup := by
  induction l generalizing acc with
  | nil => simpa using h
  | cons x rest ih => exact ih _ (Dict.nodup_set acc x.1 x.2 h)

theorem Dict.ofList_nodup (l : List (κ × γ)) : ((Dict.ofList l).map Prod.fst).Nodup :=
  Dict.foldl_set_nodup l [] (by simp)

theorem Dict.get_set (d : List (κ × γ)) (k k2 : κ) (v : γ) :
    Dict.get (Dict.set d k v) k2 = if k = k2 then some v else Dict.get d k2 := by
  by_cases h : k = k2
  · subst h; simp [Dict.get_set_self]
  · simp [h, Dict.get_set_ne d k k2 v (fun e => h e.symm)]

theorem Dict.get_foldl_set (l : List (κ × γ)) : ∀ (acc : List (κ × γ)) (k : κ),
    Dict.get (l.foldl (fun acc kv => Dict.set acc kv.1 kv.2) acc) k
      = match lastVal l k with | some v => some v | none => Dict.get acc k := by
  induction l with
  | nil => intro acc k; simp [lastVal]
  | cons x rest ih =>
    intro acc k
    simp only [List.foldl_cons, ih, lastVal, Dict.get_set]
    cases lastVal rest k with
    | some v => rfl
    | none => by_cases h : x.1 = k <;> simp [h]

/-- `dict(items)[k]` is the value of the last item with key `k` -/
theorem Dict.get_ofList (l : List (κ × γ)) (k : κ) : Dict.get (Dict.ofList l) k = lastVal l k := by
  simp only [Dict.ofList, Dict.get_foldl_set, Dict.get]
  cases lastVal l k <;> rfl

theorem Dict.mem_iff_get (d : List (κ × γ)) (h : (d.map Prod.fst).Nodup) (k : κ) (v : γ) :
    (k, v) ∈ d ↔ Dict.get d k = some v := by
  induction d with
  | nil => simp [Dict.get]
  | cons x rest ih =>
    obtain ⟨k', v'⟩ := x
    simp only [List.map_cons, List.nodup_cons] at h
    by_cases hk : k' = k
    · subst hk
      simp only [List.mem_cons, Prod.mk.injEq, true_and, Dict.get, ↓reduceIte, Option.some.injEq]
      constructor
      · rintro (h1 | h1)
        · exact h1.symm
        · exact absurd (List.mem_map_of_mem (f := Prod.fst) h1) h.1
      · intro e; exact Or.inl e.symm
    · simp only [List.mem_cons, Prod.mk.injEq, Dict.get, hk, ↓reduceIte, ih h.2]
      constructor
      · rintro (⟨h1, _⟩ | h1)
        · exact absurd h1.symm hk
        · exact h1
      · intro e; exact Or.inr e

theorem lastVal_some_mem (l : List (κ × γ)) (k : κ) (v : γ) (h : lastVal l k = some v) : (k, v) ∈ l := by
  induction l with
  | nil => simp [lastVal] at h
  | cons x rest ih =>
    simp only [lastVal] at h
    cases hr : lastVal rest k with
    | some w =>
      rw [hr] at h
      simp only [Option.some.injEq] at h
      subst h
      exact List.mem_cons_of_mem _ (ih hr)
    | none =>
      rw [hr] at h
      by_cases hx : x.1 = k
      · simp only [hx, ↓reduceIte, Option.some.injEq] at h
        subst h; subst hx
        simp
      · simp [hx] at h

theorem Dict.mem_ofList (l : List (κ × γ)) (k : κ) (v : γ) : (k, v) ∈ Dict.ofList l ↔ lastVal l k = some v := by
  rw [Dict.mem_iff_get _ (Dict.ofList_nodup l), Dict.get_ofList]

end

/-! ### lists in lock-step, `mapM`, partitions by an index -/

section
variable {γ δ ε : Type}

/-- two lists of the same length related element by element -/
inductive Forall2 (R : γ → δ → Prop) : List γ → List δ → Prop where
  | nil : Forall2 R [] []
  | cons {x y xs ys} : R x y → Forall2 R xs ys → Forall2 R (x :: xs) (y :: ys)

theorem Forall2.length_eq {R : γ → δ → Prop} {l : List γ} {ys : List δ} (h : Forall2 R l ys) :
    l.length = ys.length := by
  induction h with
  | nil => rfl
  | cons _ _ ih => simp [ih]

theorem Forall2.get {R : γ → δ → Prop} {l : List γ} {ys : List δ} (h : Forall2 R l ys) :
    ∀ (i : Nat) (h1 : i < l.length) (h2 : i < ys.length), R l[i] ys[i] := by
  induction h with
  | nil => intro i h1; simp at h1
  | cons hr _ ih =>
    intro i h1 h2
    cases i with
    | zero => simpa using hr
    | succ i => simpa using ih i (by simpa using h1) (by simpa using h2)

theorem Forall2.imp {R S : γ → δ → Prop} {l : List γ} {ys : List δ} (h : Forall2 R l ys)
    (hi : ∀ x y, R x y → S x y) : Forall2 S l ys := by
  induction h with
  | nil => exact .nil
  | cons hr _ ih => exact .cons (hi _ _ hr) ih

theorem Forall2.snoc_left {R : γ → δ → Prop} {l : List γ} {b : γ} {ys : List δ} (h : Forall2 R (l ++ [b]) ys) :
    ∃ ys1 y, ys = ys1 ++ [y] ∧ Forall2 R l ys1 ∧ R b y := by
  induction l generalizing ys with
  | nil =>
    cases h with
    | cons hr ht =>
      cases ht
      exact ⟨[], _, rfl, .nil, hr⟩
  | cons x rest ih =>
    cases h with
    | cons hr ht =>
      obtain ⟨ys1, y, e, h1, h2⟩ := ih ht
      exact ⟨_ :: ys1, y, by simp [e], .cons hr h1, h2⟩

theorem Forall2.of_map_left {R : γ → δ → Prop} {ι : Type} (f : ι → γ) {l : List ι} {ys : List δ}
    (h : Forall2 R (l.map f) ys) : Forall2 (fun i y => R (f i) y) l ys := by
  induction l generalizing ys with
  | nil => cases h; exact .nil
  | cons x rest ih =>
    cases h with
    | cons hr ht => exact .cons hr (ih ht)

theorem mapM_forall2 (f : γ → Except ε δ) (R : γ → δ → Prop) : ∀ l : List γ,
    (∀ x ∈ l, ∃ y, f x = .ok y ∧ R x y) → ∃ ys, l.mapM f = .ok ys ∧ Forall2 R l ys := by
  intro l
  induction l with
  | nil => intro _; exact ⟨[], by simp [pure, Except.pure], .nil⟩
  | cons x rest ih =>
    intro h
    obtain ⟨y, hy, hr⟩ := h x (by simp)
    obtain ⟨ys, hys, hrs⟩ := ih (fun z hz => h z (by simp [hz]))
    refine ⟨y :: ys, ?_, .cons hr hrs⟩
    simp [List.mapM_cons, hy, hys, bind, Except.bind, pure, Except.pure]

theorem Forall2.flatMap_perm {R : γ → δ → Prop} {f : γ → List ε} {g : δ → List ε}
    (hR : ∀ x y, R x y → (g y).Perm (f x)) {l : List γ} {ys : List δ} (h : Forall2 R l ys) :
    (ys.flatMap g).Perm (l.flatMap f) := by
  induction h with
  | nil => simp
  | cons hr _ ih => simpa using List.Perm.append (hR _ _ hr) ih

private theorem filter_or_perm (l : List γ) (p q : γ → Bool) (h : ∀ x ∈ l, ¬ (p x = true ∧ q x = true)) :
    (l.filter p ++ l.filter q).Perm (l.filter (fun x => p x || q x)) := by
  induction l with
  | nil => simp
  | cons x rest ih =>
    have ih' := ih (fun y hy => h y (by simp [hy]))
    have hx := h x (by simp)
    cases hp : p x <;> cases hq : q x
    · simpa [List.filter_cons, hp, hq] using ih'
    · simp only [List.filter_cons, hp, hq, Bool.false_eq_true, ↓reduceIte, Bool.or_true]
      exact (List.perm_middle).trans (List.Perm.cons x ih')
    · simpa [List.filter_cons, hp, hq] using ih'
    · exact absurd ⟨hp, hq⟩ hx

/-- the buckets `0 … n-1` of a list partitioned by an index hold exactly the items of index `< n` -/
theorem buckets_perm (idx : γ → Nat) (l : List γ) : ∀ n : Nat,
    ((List.range n).flatMap (fun i => l.filter (fun e => idx e == i))).Perm (l.filter (fun e => decide (idx e < n))) := by
  intro n
  induction n with
  | zero => simp
  | succ n ih =>
    rw [List.range_succ, List.flatMap_append]
    simp only [List.flatMap_cons, List.flatMap_nil, List.append_nil]
    refine (List.Perm.append_right _ ih).trans ?_
    refine (filter_or_perm l _ _ ?_).trans ?_
    · intro x _ ⟨h1, h2⟩
      simp only [decide_eq_true_eq, beq_iff_eq] at h1 h2
      omega
    · have : (fun x => decide (idx x < n) || idx x == n) = (fun e => decide (idx e < n + 1)) := by
        funext x
        by_cases h1 : idx x < n
        · have : idx x < n + 1 := by omega
          simp [h1, this]
        · by_cases h2 : idx x = n
          · simp [h2]
          · have : ¬ idx x < n + 1 := by omega
            simp [h1, h2, this]
      rw [this]

end

/-! ### `state.update(new)`: replacing top-level children -/

theorem leavesKvs_append (l1 l2 : SMap α) : leavesKvs (l1 ++ l2) = leavesKvs l1 ++ leavesKvs l2 := by
  induction l1 with
  | nil => simp [leavesKvs]
  | cons x rest ih => obtain ⟨k, c⟩ := x; simp [leavesKvs, ih]

/-- the leaves below the top-level key `k` -/
abbrev underKey (k : Key) (c : Tree Key α) : Flat α := (leavesT c).map (fun pa => (k :: pa.1, pa.2))

theorem leavesKvs_set_some : ∀ (acc : SMap α) (k : Key) (old : Tree Key α),
    Dict.get acc k = some old → ∃ l1 l2, leavesKvs acc = l1 ++ underKey k old ++ l2 ∧
      ∀ t, leavesKvs (Dict.set acc k t) = l1 ++ underKey k t ++ l2 := by
  intro acc
  induction acc with
  | nil => intro k old h; simp [Dict.get] at h
  | cons x rest ih =>
    intro k old h
    obtain ⟨k', c⟩ := x
    by_cases hk : k' = k
    · subst hk
      simp only [Dict.get, ↓reduceIte, Option.some.injEq] at h
      subst h
      exact ⟨[], leavesKvs rest, by simp [leavesKvs], fun t => by simp [Dict.set, leavesKvs]⟩
    · simp only [Dict.get, hk, ↓reduceIte] at h
      obtain ⟨l1, l2, h1, h2⟩ := ih k old h
      refine ⟨underKey k' c ++ l1, l2, ?_, fun t => ?_⟩
      · simp [leavesKvs, h1]
      · simp [Dict.set, hk, leavesKvs, h2 t]

/-- does the path start with `k` -/
def headIs (k : Key) (e : SPath × α) : Bool := decide (e.1.head? = some k)

theorem filter_head_underKey (k k' : Key) (c : Tree Key α) :
    (underKey k' c).filter (headIs k) = if k' = k then underKey k' c else [] := by
  by_cases h : k' = k
  · subst h
    simp only [↓reduceIte, List.filter_eq_self]
    intro e he
    simp only [underKey, List.mem_map] at he
    obtain ⟨q, _, rfl⟩ := he
    simp [headIs]
  · simp only [h, ↓reduceIte, List.filter_eq_nil_iff]
    intro e he
    simp only [underKey, List.mem_map] at he
    obtain ⟨q, _, rfl⟩ := he
    simp [headIs, h]

theorem leavesKvs_filter_head (k : Key) : ∀ (d : SMap α), (d.map Prod.fst).Nodup →
    (leavesKvs d).filter (headIs k) = match Dict.get d k with
      | some c => underKey k c
      | none => [] := by
  intro d
  induction d with
  | nil => intro _; simp [leavesKvs, Dict.get]
  | cons x rest ih =>
    intro hnd
    obtain ⟨k', c⟩ := x
    simp only [List.map_cons, List.nodup_cons] at hnd
    have hf := filter_head_underKey k k' c
    simp only [underKey] at hf
    simp only [leavesKvs, List.filter_append, hf, Dict.get]
    by_cases h : k' = k
    · subst h
      have hg : Dict.get rest k' = none := by
        rw [Dict.get_none_iff]
        intro kv hkv e
        exact hnd.1 (by rw [← e]; exact List.mem_map_of_mem hkv)
      have := ih hnd.2
      rw [hg] at this
      simp [this]
    · simp [h, ih hnd.2]

/-- replacing (or adding) the child at `k` by one with the same leaves keeps the leaves -/
theorem leaves_set_perm (acc : SMap α) (hnd : (acc.map Prod.fst).Nodup) (k : Key) (c : Tree Key α)
    (h : (underKey k c).Perm ((leavesKvs acc).filter (headIs k))) :
    (leavesKvs (Dict.set acc k c)).Perm (leavesKvs acc) := by
  rw [leavesKvs_filter_head k acc hnd] at h
  cases hg : Dict.get acc k with
  | none =>
    rw [hg] at h
    have : underKey k c = [] := List.Perm.eq_nil h
    rw [Dict.set_of_get_none _ _ _ hg, leavesKvs_append]
    simp only [leavesKvs, List.append_nil]
    simp only [underKey] at this
    rw [this]; simp
  | some old =>
    rw [hg] at h
    obtain ⟨l1, l2, h1, h2⟩ := leavesKvs_set_some acc k old hg
    rw [h2 c, h1]
    exact List.Perm.append_right l2 (List.Perm.append_left l1 h)

theorem filter_head_set_ne (acc : SMap α) (hnd : (acc.map Prod.fst).Nodup) (k k' : Key) (c : Tree Key α)
    (hne : k' ≠ k) :
    (leavesKvs (Dict.set acc k' c)).filter (headIs k) = (leavesKvs acc).filter (headIs k) := by
  rw [leavesKvs_filter_head k _ (Dict.nodup_set acc k' c hnd), leavesKvs_filter_head k acc hnd,
    Dict.get_set_ne acc k' k c (fun e => hne e.symm)]

/-- `state.update(new)` keeps the leaves when every top-level child of `new` has the leaves the state already
has below that key -/
theorem leaves_update_perm : ∀ (new acc : SMap α), (acc.map Prod.fst).Nodup → (new.map Prod.fst).Nodup →
    (∀ kc ∈ new, (underKey kc.1 kc.2).Perm ((leavesKvs acc).filter (headIs kc.1))) →
    (leavesKvs (Dict.update acc new)).Perm (leavesKvs acc) := by
  intro new
  induction new with
  | nil => intro acc _ _ _; simp [Dict.update]
  | cons x rest ih =>
    intro acc hacc hnew h
    obtain ⟨k, c⟩ := x
    simp only [List.map_cons, List.nodup_cons] at hnew
    have h1 := leaves_set_perm acc hacc k c (h (k, c) (by simp))
    have h2 := ih (Dict.set acc k c) (Dict.nodup_set acc k c hacc) hnew.2 (by
      intro kc hkc
      have hne : k ≠ kc.1 := fun e => hnew.1 (by rw [e]; exact List.mem_map_of_mem hkc)
      rw [filter_head_set_ne acc hacc kc.1 k c hne]
      exact h kc (by simp [hkc]))
    simp only [Dict.update, List.foldl_cons] at h2 ⊢
    exact h2.trans h1

/-- the unflatten loop keeps top-level keys distinct -/
theorem insertPath_nodup (acc : SMap α) (p : SPath) (v : Tree Key α) (acc' : SMap α)
    (hnd : (acc.map Prod.fst).Nodup) (h : insertPath acc p v = .ok acc') : (acc'.map Prod.fst).Nodup := by
  cases p with
  | nil => simp [insertPath] at h
  | cons k rest =>
    cases rest with
    | nil =>
      simp only [insertPath, Except.ok.injEq] at h
      subst h
      exact Dict.nodup_set acc k v hnd
    | cons k2 r =>
      simp only [insertPath] at h
      split at h
      · cases hs : insertPath [] (k2 :: r) v with
        | error e => simp [hs, bind, Except.bind] at h
        | ok sub =>
          simp only [hs, bind, Except.bind, Except.ok.injEq] at h
          subst h
          exact Dict.nodup_set acc k _ hnd
      · rename_i sub _
        cases hs : insertPath sub (k2 :: r) v with
        | error e => simp [hs, bind, Except.bind] at h
        | ok sub' =>
          simp only [hs, bind, Except.bind, Except.ok.injEq] at h
          subst h
          exact Dict.nodup_set acc k _ hnd
      · simp at h

theorem build_nodup : ∀ (m : List (SPath × FVal Key α)) (acc acc' : SMap α),
    (acc.map Prod.fst).Nodup → build acc m = .ok acc' → (acc'.map Prod.fst).Nodup := by
  intro m
  induction m with
  | nil => intro acc acc' hnd h; simp only [build_nil, Except.ok.injEq] at h; subst h; exact hnd
  | cons x rest ih =>
    intro acc acc' hnd h
    obtain ⟨p, v⟩ := x
    rw [build_cons] at h
    cases hi : insertPath acc p v.toTree with
    | error e => simp [hi, bind, Except.bind] at h
    | ok a1 =>
      simp only [hi, bind, Except.bind] at h
      exact ih a1 acc' (insertPath_nodup acc p _ a1 hnd hi) h

theorem fromFlat_nodup (m : Flat α) (s' : SMap α) (h : fromFlat m = .ok s') : (s'.map Prod.fst).Nodup := by
  simp only [fromFlat] at h
  cases hb : unflattenLoop (fun p => Except.ok p) ([] : SMap α)
      ((Dict.ofList m).map (fun pa => (pa.1, FVal.val (.leaf pa.2)))) with
  | error e => simp [hb, liftE] at h
  | ok a =>
    simp only [hb, liftE, Except.ok.injEq] at h
    subst h
    exact build_nodup _ [] a (by simp) hb

end Flax.State
