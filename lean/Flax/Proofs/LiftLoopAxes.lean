import Flax.Model.LiftLoop
namespace Flax.LiftLoop

theorem normAxis_nonneg {r : Nat} {ax : Int} (h0 : 0 ≤ ax) (h1 : ax < r) : normAxis r ax = some ax.toNat := by
  simp [normAxis, h0, h1]

theorem normAxis_neg {r : Nat} {ax : Int} (h0 : -(r:Int) ≤ ax) (h1 : ax < 0) : normAxis r ax = some (ax + r).toNat := by
  have : ¬ (0 ≤ ax) := by omega
  simp [normAxis, this, h0, h1]

theorem normAxis_lt {r : Nat} {ax : Int} {n : Nat} (h : normAxis r ax = some n) : n < r := by
  unfold normAxis at h
  split at h
  · injection h with h; omega
  · split at h
    · injection h with h; omega
    · cases h

theorem normAxis_ofNat {r k : Nat} (h : k < r) : normAxis r (k : Int) = some k := by
  rw [normAxis_nonneg (by omega) (by omega)]; simp

theorem normAxis_isSome {r : Nat} {ax : Int} (h0 : -(r:Int) ≤ ax) (h1 : ax < r) : ∃ n, normAxis r ax = some n := by
  by_cases h : 0 ≤ ax
  · exact ⟨_, normAxis_nonneg h h1⟩
  · exact ⟨_, normAxis_neg h0 (by omega)⟩

theorem permute_append {β : Type} (p q : List Nat) (xs : List β) :
    permute (p ++ q) xs = (match permute p xs, permute q xs with
      | some a, some b => some (a ++ b) | _, _ => none) := by
  induction p with
  | nil => simp [permute]; cases permute q xs <;> rfl
  | cons k ks ih =>
    simp only [List.cons_append, permute, ih]
    cases xs[k]? <;> cases permute ks xs <;> cases permute q xs <;> rfl

theorem permute_range' {β : Type} (xs : List β) : ∀ (m s : Nat), s + m ≤ xs.length →
    permute (List.range' s m) xs = some ((xs.drop s).take m) := by
  intro m
  induction m with
  | zero => intro s _; simp [permute]
  | succ m ih =>
    intro s h
    have hs : s < xs.length := by omega
    simp only [List.range'_succ, permute, ih (s+1) (by omega)]
    rw [List.getElem?_eq_getElem hs]
    rw [List.drop_eq_getElem_cons hs, List.take_succ_cons]


theorem range_eraseIdx (r n : Nat) (h : n < r) :
    (List.range r).eraseIdx n = List.range' 0 n ++ List.range' (n+1) (r-n-1) := by
  apply List.ext_getElem
  · simp [List.length_eraseIdx, h]; omega
  · intro i h1 h2
    simp [List.getElem_eraseIdx, List.getElem_append]
    split <;> omega

theorem mapM_normAxis_ofNat (r : Nat) : ∀ (l : List Nat), (∀ k ∈ l, k < r) →
    (l.map (fun (k : Nat) => (k : Int))).mapM (normAxis r) = some l := by
  intro l
  induction l with
  | nil => intro _; rfl
  | cons a l ih =>
    intro h
    simp only [List.map_cons, List.mapM_cons]
    rw [normAxis_ofNat (h a (by simp)), ih (fun k hk => h k (by simp [hk]))]
    rfl

/-- the canonical to-front permutation -/
theorem toFront_canon {r : Nat} {ax : Int} {n : Nat} (hn : normAxis r ax = some n) :
    (toFrontPerm r ax >>= canonPerm r) = .ok (n :: (List.range r).eraseIdx n) := by
  have hlt := normAxis_lt hn
  simp only [toFrontPerm, hn, bind, Except.bind, canonPerm, List.mapM_cons]
  rw [mapM_normAxis_ofNat r _ (by
    intro k hk
    have := List.mem_of_mem_eraseIdx hk
    simpa using this)]
  simp only [Option.bind, pure]
  have hnd : (n :: (List.range r).eraseIdx n).Nodup := by
    rw [range_eraseIdx r n hlt]
    simp [List.nodup_cons, List.nodup_append, List.nodup_range', List.mem_range']
    refine ⟨fun x _ => by omega, fun a ha b x _ hb => by omega⟩
  have hlen : (n :: (List.range r).eraseIdx n).length = r := by
    simp [List.length_eraseIdx, hlt]; omega
  simp [hnd, hlen]


theorem intRange_ofNat (a b : Nat) : intRange (a : Int) (b : Int) = (List.range' a (b - a)).map (fun (k : Nat) => (k : Int)) := by
  unfold intRange
  have : ((b : Int) - (a : Int)).toNat = b - a := by omega
  rw [this]
  apply List.ext_getElem
  · simp
  · intro i h1 h2
    simp

/-- the canonical from-front permutation -/
theorem fromFront_canon {r : Nat} {ax : Int} {n : Nat} (hn : normAxis r ax = some n) :
    (fromFrontPerm r ax >>= canonPerm r) = .ok (List.range' 1 n ++ [0] ++ List.range' (n+1) (r-n-1)) := by
  have hlt := normAxis_lt hn
  have hpax : (if ax < 0 then (r : Int) + ax else ax) = (n : Int) := by
    unfold normAxis at hn
    split at hn
    · injection hn with hn; split <;> omega
    · split at hn
      · injection hn with hn; split <;> omega
      · cases hn
  simp only [fromFrontPerm, hpax]
  have h1 : (n : Int) < (r : Int) := by omega
  simp only [h1, if_true, bind, Except.bind, canonPerm]
  have e1 : intRange 1 ((n : Int) + 1) = (List.range' 1 n).map (fun (k : Nat) => (k : Int)) := by
    have := intRange_ofNat 1 (n+1)
    simpa using this
  have e2 : intRange ((n : Int) + 1) (r : Int) = (List.range' (n+1) (r-n-1)).map (fun (k : Nat) => (k : Int)) := by
    have := intRange_ofNat (n+1) r
    have h : r - (n+1) = r - n - 1 := by omega
    rw [h] at this
    simpa using this
  have e3 : ([0] : List Int) = ([0] : List Nat).map (fun (k : Nat) => (k : Int)) := by simp
  rw [e1, e2, e3, ← List.map_append, ← List.map_append]
  rw [mapM_normAxis_ofNat r _ (by
    intro k hk
    simp [List.mem_range'] at hk
    omega)]
  have hnd : (List.range' 1 n ++ [0] ++ List.range' (n+1) (r-n-1)).Nodup := by
    simp [List.nodup_append, List.nodup_range', List.mem_range']
    refine ⟨fun x _ => by omega, fun a x hx ha => ⟨by omega, fun b y hy hb => by omega⟩⟩
  have hlen : (List.range' 1 n ++ [0] ++ List.range' (n+1) (r-n-1)).length = r := by
    simp; omega
  simp only []
  rw [if_pos ⟨hlen, hnd⟩]


theorem take_drop_full {β : Type} (l : List β) (k m : Nat) (h : l.length ≤ k + m) :
    (l.drop k).take m = l.drop k :=
  List.take_of_length_le (by rw [List.length_drop]; omega)

theorem permute_toFront {β : Type} (xs : List β) (n : Nat) (h : n < xs.length) :
    permute (n :: (List.range xs.length).eraseIdx n) xs = some (xs[n] :: xs.eraseIdx n) := by
  rw [range_eraseIdx _ _ h]
  simp only [permute, permute_append, List.getElem?_eq_getElem h]
  rw [permute_range' xs n 0 (by omega), permute_range' xs _ (n+1) (by omega)]
  rw [take_drop_full xs (n+1) _ (by omega), List.eraseIdx_eq_take_drop_succ]
  simp

theorem insertIdx_eq_take_drop {β : Type} (a : β) : ∀ (n : Nat) (l : List β), n ≤ l.length →
    l.insertIdx n a = l.take n ++ a :: l.drop n := by
  intro n
  induction n with
  | zero => intro l _; simp
  | succ n ih =>
    intro l h
    cases l with
    | nil => simp at h
    | cons x l => simp [List.insertIdx_succ_cons, ih l (by simpa using h)]

theorem permute_fromFront {β : Type} (y0 : β) (rest : List β) (n : Nat) (h : n ≤ rest.length) :
    permute (List.range' 1 n ++ [0] ++ List.range' (n+1) ((rest.length + 1) - n - 1)) (y0 :: rest)
      = some (rest.insertIdx n y0) := by
  simp only [permute_append, permute]
  rw [permute_range' (y0 :: rest) n 1 (by simp; omega),
    permute_range' (y0 :: rest) _ (n+1) (by simp; omega)]
  simp only [List.getElem?_cons_zero, List.drop_succ_cons, List.drop_zero]
  rw [insertIdx_eq_take_drop y0 n rest h, take_drop_full rest n _ (by omega)]
  simp

/-- `transpose_to_front(ax, ·)` puts axis `ax` (normalised) first and keeps the others in order -/
theorem axesToFront_eq {β : Type} (xs : List β) (ax : Int) (n : Nat)
    (hn : normAxis xs.length ax = some n) :
    ∃ h : n < xs.length, axesToFront ax xs = .ok (xs[n] :: xs.eraseIdx n) := by
  have hlt := normAxis_lt hn
  refine ⟨hlt, ?_⟩
  unfold axesToFront
  by_cases h0 : ax = 0
  · subst h0
    have : n = 0 := by
      rw [normAxis_nonneg (by omega) (by omega)] at hn
      injection hn with hn; simpa using hn.symm
    subst this
    cases xs with
    | nil => simp at hlt
    | cons x xs => simp
  · simp only [h0, if_false]
    have := toFront_canon hn
    simp only [bind, Except.bind] at this ⊢
    cases hp : toFrontPerm xs.length ax with
    | error e => rw [hp] at this; cases this
    | ok p =>
      rw [hp] at this
      simp only at this ⊢
      rw [this]
      simp only [permute_toFront xs n hlt]

/-- `transpose_from_front(ax, ·)` moves the first axis to position `ax` (normalised) -/
theorem axesFromFront_eq {β : Type} (y0 : β) (rest : List β) (ax : Int) (n : Nat)
    (hn : normAxis (rest.length + 1) ax = some n) :
    axesFromFront ax (y0 :: rest) = .ok (rest.insertIdx n y0) := by
  have hlt := normAxis_lt hn
  unfold axesFromFront
  by_cases h0 : ax = 0
  · subst h0
    have : n = 0 := by
      rw [normAxis_nonneg (by omega) (by omega)] at hn
      injection hn with hn; simpa using hn.symm
    subst this
    simp
  · simp only [h0, if_false, List.length_cons]
    have := fromFront_canon hn
    simp only [bind, Except.bind] at this ⊢
    cases hp : fromFrontPerm (rest.length + 1) ax with
    | error e => rw [hp] at this; cases this
    | ok p =>
      rw [hp] at this
      simp only at this ⊢
      rw [this]
      simp only [permute_fromFront y0 rest n (by omega)]


theorem insertIdx_eraseIdx_self {β : Type} (xs : List β) (n : Nat) (h : n < xs.length) :
    (xs.eraseIdx n).insertIdx n xs[n] = xs := by
  apply List.ext_getElem
  · rw [List.length_insertIdx, List.length_eraseIdx]; simp only [h, if_true]; split <;> omega
  · intro i h1 h2
    rcases Nat.lt_trichotomy i n with hlt | heq | hgt
    · rw [List.getElem_insertIdx_of_lt hlt, List.getElem_eraseIdx]; simp [hlt]
    · subst heq; rw [List.getElem_insertIdx_self]
    · rw [List.getElem_insertIdx_of_gt hgt, List.getElem_eraseIdx]
      have : ¬ (i - 1 < n) := by omega
      simp only [this, dite_false]
      congr 1; omega

end Flax.LiftLoop
