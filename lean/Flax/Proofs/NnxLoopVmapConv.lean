/- C08 proofs: `nnx.vmap` — towards the converse: when the reference is defined, `to_tree` accepts and every index is
called -/
import Flax.Proofs.NnxLoopReject
import Flax.Proofs.NnxLoopCollect
import Flax.Proofs.NnxLoopScanRoute

namespace Flax.NnxLoop
open Flax.Filter Flax.LiftLoop

section conv
variable {α : Type} [Inhabited α]

theorem allPrefixes_extends : ∀ (pas : List (Prefix × Arg α)) (np npF : NodePrefixes),
    allPrefixes pas np = .ok npF → ∃ more, npF = np ++ more := by
  intro pas
  induction pas with
  | nil => intro np npF h; simp only [allPrefixes] at h; injection h with h; exact ⟨[], by simp [h]⟩
  | cons pa rest ih =>
    intro np npF h
    obtain ⟨p, arg⟩ := pa
    cases arg with
    | arr a => exact ih np npF (by simpa [allPrefixes] using h)
    | node es =>
      simp only [allPrefixes, collect_eq] at h
      cases hl : leafPrefixes p es with
      | error e => simp [hl] at h
      | ok l =>
        simp only [hl] at h
        obtain ⟨more, hm⟩ := ih _ npF h
        exact ⟨l ++ more, by rw [hm, List.append_assoc]⟩

/-- **`to_tree` does not reject consistent aliasing.**  If every occurrence of every Variable gets an axis, all
occurrences of each Variable agree, and the store holds every Variable, `to_tree` returns. -/
theorem toTree_complete (store : Store α) :
    ∀ (pas : List (Prefix × Arg α)) (np : NodePrefixes) (seen : List VarId) (npF : NodePrefixes),
      allPrefixes pas np = .ok npF → consistent npF = true →
      (∀ pa ∈ pas, ∀ es, pa.2 = .node es → ∀ e ∈ es, (store.lookup e.id).isSome) →
      ∃ pure, toTree store pas np seen = .ok pure := by
  intro pas
  induction pas with
  | nil => intro np seen npF _ _ _; exact ⟨[], rfl⟩
  | cons pa rest ih =>
    intro np seen npF h hc hst
    obtain ⟨p, arg⟩ := pa
    cases arg with
    | arr a =>
      simp only [allPrefixes] at h
      obtain ⟨r, hr⟩ := ih np seen npF h hc (fun q hq => hst q (List.mem_cons_of_mem _ hq))
      exact ⟨.arr p a :: r, by simp [toTree, hr]⟩
    | node es =>
      simp only [allPrefixes] at h
      cases hcol : collect p es np with
      | error e => simp [hcol] at h
      | ok np' =>
        simp only [hcol] at h
        obtain ⟨more, hm⟩ := allPrefixes_extends rest np' npF h
        have hc' : consistent np' = true := consistent_of_append (by rw [← hm]; exact hc)
        have hown : ∀ e ∈ ownedOf es (markOwn es seen).1, (store.lookup e.id).isSome :=
          fun e he => hst (p, .node es) (by simp) es rfl e (ownedOf_subset _ _ e he)
        have hcol' := hcol
        rw [collect_eq] at hcol'
        cases hl : leafPrefixes p es with
        | error e => simp [hl] at hcol'
        | ok l =>
          obtain ⟨_, hat⟩ := leafPrefixes_ok_at hl
          obtain ⟨sts, hsts⟩ := splitFlat_ok_of_at p
            ((ownedOf es (markOwn es seen).1).map (fun e => (e.path, e.info, (store.lookup e.id).getD default)))
            (by
              intro x hx
              obtain ⟨e, he, rfl⟩ := List.mem_map.1 hx
              obtain ⟨a, ha, _⟩ := hat e (ownedOf_subset _ _ e he)
              refine ⟨a, ?_⟩
              cases p with
              | ax a' => simpa [Prefix.at] using ha
              | sa s => simpa [Prefix.at] using ha)
          obtain ⟨r, hr⟩ := ih np' (markOwn es seen).2 npF h hc (fun q hq => hst q (List.mem_cons_of_mem _ hq))
          refine ⟨.node ⟨es, (markOwn es seen).1⟩ p sts :: r, ?_⟩
          simp only [toTree, checkAliasing, hcol, hc', if_true, flatOf_of_total _ _ hown, hsts, hr]

/-- **Slicing does not reject when the reference slices are defined.**  If, for index `i`, the reference value of every
reachable Variable (`sliceEntry`) and of every array argument (`sliceArr`) is defined, jax.vmap's per-state slicing of
the pure arguments succeeds (and then, by `vmap_call_sees_slices`, the function is called on exactly those values). -/
theorem sliceArg_complete (store : Store α) (i : Nat) :
    ∀ (pas : List (Prefix × Arg α)) (np : NodePrefixes) (seen : List VarId) (pure : List (PureArg α))
      (ins : Store α) (arrs : List (Arr α)),
      toTree store pas np seen = .ok pure →
      mapX (sliceEntry store i) (ownedAll pas seen) = .ok ins → mapX (sliceArr i) (arrArgs pas) = .ok arrs →
      ∃ sl, mapX (sliceArg i) pure = .ok sl := by
  intro pas
  induction pas with
  | nil =>
    intro np seen pure ins arrs ht _ _
    simp only [toTree] at ht
    injection ht with ht
    subst ht
    exact ⟨[], rfl⟩
  | cons pa rest ih =>
    intro np seen pure ins arrs ht hins harrs
    obtain ⟨p, arg⟩ := pa
    cases arg with
    | arr a =>
      obtain ⟨r, hr, rfl⟩ := toTree_arr_ok ht
      simp only [arrArgs] at harrs
      obtain ⟨v, vs, hv, hvs, rfl⟩ := mapX_cons_ok harrs
      obtain ⟨sl, hsl⟩ := ih np seen r ins vs hr (by simpa [ownedAll] using hins) hvs
      cases p with
      | sa s => simp [sliceArr] at hv
      | ax ax =>
        simp only [sliceArr] at hv
        exact ⟨.arr (.ax ax) v :: sl, mapX_cons_of_ok (by simp [sliceArg, hv]) hsl⟩
    | node es =>
      obtain ⟨np', flat, sts, r, hca, hfl, hsp, hr, rfl⟩ := toTree_node_ok ht
      simp only [ownedAll] at hins
      obtain ⟨i1, i2, hi1, hi2, _⟩ := mapX_append_ok hins
      rw [mapX_map] at hi1
      obtain ⟨sl, hsl⟩ := ih np' _ r i2 arrs hr hi2 (by simpa [arrArgs] using harrs)
      obtain ⟨hlen, hmem, hlt⟩ := splitFlat_spec hsp
      obtain ⟨_, hfb⟩ := flatOf_eq_map hfl
      have hst : ∃ sts', mapX (fun q => sliceState i q.1 q.2) (p.axes.zip sts) = .ok sts' := by
        apply mapX_ok_of_forall
        intro q hq
        obtain ⟨a, s⟩ := q
        obtain ⟨g, hg1, hg2⟩ := mem_zip_iff.1 hq
        simp only [sliceState, leafMap]
        apply mapX_ok_of_forall
        intro pv hpv
        obtain ⟨x, hx, he, hgx⟩ := (hmem g s hg2 pv).1 hpv
        obtain ⟨e, heo, hv, hp1, hp2⟩ := hfb x hx
        obtain ⟨y, hy, _⟩ := mapX_ok_mem hi1 e heo
        simp only [sliceEntry] at hy
        cases hat : p.at e with
        | error err => simp [hat] at hy
        | ok a' =>
          simp only [hat, hv] at hy
          have ha' : a' = a := by
            have := (prefix_at_eq_axAt p e a').1 hat
            rw [← hp1, ← hp2] at this
            simp only [axAt, hgx, hg1] at this
            exact (Option.some.inj this).symm
          subst ha'
          subst he
          cases hsv : sliceVal i a' x.2.2 with
          | error err => simp [hsv] at hy
          | ok v' => exact ⟨(x.1, v'), by simp⟩
      obtain ⟨sts', hsts'⟩ := hst
      exact ⟨.node ⟨es, (markOwn es seen).1⟩ p sts' :: sl, mapX_cons_of_ok (by simp [sliceArg, hsts']) hsl⟩

end conv

end Flax.NnxLoop
