/- C03 helper lemmas: first-match buckets are a partition; merging sorts any permutation back -/
import Flax.Proofs.GraphFlatten
namespace Flax.Graph
open Flax.Heap
open Flax.Filter (NFilter firstMatch)

/-! ### bucketing a list by a bounded key is a partition -/

theorem buckets_perm {α : Type} (k : α → Nat) (fs : List α) : ∀ n : Nat,
    ((List.range n).map (fun i => fs.filter (fun x => k x == i))).flatten.Perm (fs.filter (fun x => decide (k x < n)))
  | 0 => by simp
  | n + 1 => by
    rw [List.range_succ, List.map_append, List.flatten_append]
    simp only [List.map_cons, List.map_nil, List.flatten_cons, List.flatten_nil, List.append_nil]
    have ih := buckets_perm k fs n
    -- split the bucket `< n+1` into `< n` and `= n`
    have h1 : (fs.filter (fun x => decide (k x < n + 1))).filter (fun x => decide (k x < n)) = fs.filter (fun x => decide (k x < n)) := by
      rw [List.filter_filter]; congr 1; funext x; simp; omega
    have h2 : (fs.filter (fun x => decide (k x < n + 1))).filter (fun x => !decide (k x < n)) = fs.filter (fun x => k x == n) := by
      rw [List.filter_filter]; congr 1; funext x
      by_cases e : k x = n
      · simp [e]
      · have : (k x == n) = false := by simp [e]
        rw [this]; simp; omega
    have := List.filter_append_perm (fun x => decide (k x < n)) (fs.filter (fun x => decide (k x < n + 1)))
    rw [h1, h2] at this
    exact (List.Perm.append_right _ ih).trans this

theorem firstMatch_le' (preds : List NFilter) (p : Flax.Filter.Path) (x : Flax.Filter.VarInfo) :
    firstMatch preds p x ≤ preds.length := by
  induction preds with
  | nil => simp [firstMatch]
  | cons f fs ih => simp only [firstMatch]; split <;> simp <;> omega

theorem bucketOf_le (preds : List NFilter) (it : Path × Leaf) : bucketOf preds it ≤ preds.length :=
  firstMatch_le' preds _ _

/-- the `n + 1` buckets of `_split_state` are a partition of the flat state -/
theorem splitFlat_perm (preds : List NFilter) (fs : FlatState) : (splitFlat preds fs).flatten.Perm fs := by
  have := buckets_perm (bucketOf preds) fs (preds.length + 1)
  have hall : fs.filter (fun x => decide (bucketOf preds x < preds.length + 1)) = fs := by
    apply List.filter_eq_self.mpr
    intro x _; have := bucketOf_le preds x; simp; omega
  rw [hall] at this
  exact this

/-- membership in bucket `i` -/
theorem mem_splitFlat (preds : List NFilter) (fs : FlatState) (i : Nat) (it : Path × Leaf) :
    it ∈ (splitFlat preds fs).getD i [] ↔ (it ∈ fs ∧ bucketOf preds it = i) := by
  have hle := bucketOf_le preds it
  simp only [splitFlat]
  by_cases hi : i < preds.length + 1
  · rw [List.getD_eq_getElem?_getD, List.getElem?_map, List.getElem?_range hi]
    simp [List.mem_filter]
  · rw [List.getD_eq_getElem?_getD, List.getElem?_eq_none (by simp; omega)]
    simp; intro _; omega

/-- dropping an empty last bucket loses nothing -/
theorem take_flatten_of_last_empty (preds : List NFilter) (fs : FlatState)
    (hlast : (fs.filter (fun it => bucketOf preds it == preds.length)) = []) :
    ((splitFlat preds fs).take preds.length).flatten.Perm fs := by
  have hp := splitFlat_perm preds fs
  have hsplit : splitFlat preds fs = (splitFlat preds fs).take preds.length ++ [fs.filter (fun it => bucketOf preds it == preds.length)] := by
    simp only [splitFlat, List.range_succ, List.map_append, List.map_cons, List.map_nil]
    rw [List.take_left' (by simp)]
  rw [hsplit, hlast] at hp
  simpa using hp

/-! ### merging -/

theorem hasAdjDup_of_ssorted : ∀ (l : FlatState), SSorted Path.lt l → hasAdjDup l = false
  | [], _ => rfl
  | [_], _ => rfl
  | (p, _) :: (q, l) :: rest, hs => by
    have hs' := List.pairwise_cons.mp hs
    have hpq : Path.lt p q = true := hs'.1 (q, l) (by simp)
    have hne : p ≠ q := Path.strictTotal.ne hpq
    simp only [hasAdjDup, hne, decide_false, Bool.false_or]
    exact hasAdjDup_of_ssorted ((q, l) :: rest) hs'.2

/-- `_merge_to_flat_state` of any states whose concatenation is a permutation of a strictly sorted
flat state returns that flat state's leaves, in order -/
theorem mergeFlat_of_perm {states : List FlatState} {ls : FlatState} (hp : states.flatten.Perm ls)
    (hs : SSorted Path.lt ls) : mergeFlat states = .ok (ls.map (·.2)) := by
  have : sortPaths states.flatten = ls := sortBy_of_perm Path.strictTotal hp hs
  simp [mergeFlat, this, hasAdjDup_of_ssorted ls hs]

end Flax.Graph
