/-
Helper lemmas for the metrics part of C17: sums over concatenated streams, the sum-of-squares form of
`Σ (x - c)²`, and the pairwise-merge identities behind `Welford.update` (over core `Rat`, by `grind`'s
field normaliser; no Mathlib needed).
-/
import Flax.Model.Metrics

namespace Flax.Metrics

theorem cast0 : ((0 : Nat) : Rat) = 0 := rfl
theorem cast1 : ((1 : Nat) : Rat) = 1 := rfl

theorem sum_append (xs ys : List Rat) : sum (xs ++ ys) = sum xs + sum ys := by
  induction xs with
  | nil => simp only [List.nil_append, sum]; grind
  | cons x xs ih => simp only [List.cons_append, sum, ih]; grind

/-- `Σ x²` -/
def sumSq (xs : List Rat) : Rat := sum (xs.map (fun x => x * x))

theorem sumSq_append (xs ys : List Rat) : sumSq (xs ++ ys) = sumSq xs + sumSq ys := by
  simp [sumSq, sum_append]

theorem sqDev_eq (c : Rat) (xs : List Rat) :
    sqDev c xs = sumSq xs - 2 * c * sum xs + (xs.length : Rat) * c * c := by
  induction xs with
  | nil => simp only [sqDev, sumSq, sum, List.map_nil, List.length_nil, cast0]; grind
  | cons x xs ih =>
    simp only [sqDev, sumSq, List.map_cons, sum, List.length_cons, Rat.natCast_add] at ih ⊢
    rw [ih]
    have : ((1 : Nat) : Rat) = 1 := rfl
    rw [this]
    grind

theorem natCast_ne_zero {k : Nat} (h : 0 < k) : (k : Rat) ≠ 0 := by
  have : (0 : Rat) < (k : Rat) := by exact_mod_cast h
  grind

theorem natCast_add_ne_zero (n : Nat) {k : Nat} (h : 0 < k) : (n : Rat) + (k : Rat) ≠ 0 := by
  have h1 : (0 : Rat) < (k : Rat) := by exact_mod_cast h
  have h2 : (0 : Rat) ≤ (n : Rat) := Rat.natCast_nonneg
  grind

/-- mean of the merged stream (both parts non-empty) -/
theorem merge_mean (A1 B1 n k : Rat) (hn : n ≠ 0) (hk : k ≠ 0) (hnk : n + k ≠ 0) :
    A1 / n + (B1 / k - A1 / n) * k / (n + k) = (A1 + B1) / (n + k) := by
  grind

/-- the pairwise-merge identity `m2' = m2_a + m2_b + δ² n_a n_b / n` in sum-of-squares form -/
theorem merge_m2 (A1 A2 B1 B2 n k : Rat) (hn : n ≠ 0) (hk : k ≠ 0) (hnk : n + k ≠ 0) :
    (A2 - 2 * (A1 / n) * A1 + n * (A1 / n) * (A1 / n))
      + ((B2 - 2 * (B1 / k) * B1 + k * (B1 / k) * (B1 / k)) / k * k
          + (B1 / k - A1 / n) * (B1 / k - A1 / n) * k * n / (n + k))
      = (A2 + B2) - 2 * ((A1 + B1) / (n + k)) * (A1 + B1)
          + (n + k) * ((A1 + B1) / (n + k)) * ((A1 + B1) / (n + k)) := by
  grind

/-- first batch (`n = 0`, running mean and m2 are 0) -/
theorem merge_first (B1 B2 k : Rat) (hk : k ≠ 0) :
    (0 : Rat) + (B1 / k - 0) * k / (0 + k) = B1 / k ∧
    (0 : Rat) + ((B2 - 2 * (B1 / k) * B1 + k * (B1 / k) * (B1 / k)) / k * k
          + (B1 / k - 0) * (B1 / k - 0) * k * 0 / (0 + k))
      = B2 - 2 * (B1 / k) * B1 + k * (B1 / k) * (B1 / k) := by
  constructor <;> grind

/-- the state reached after seeing exactly the stream `xs` -/
def WInv (s : WState) (xs : List Rat) : Prop :=
  s.count = xs.length ∧ s.mean = mean xs ∧ s.m2 = sqDev (mean xs) xs

theorem winv_init : WInv WState.init [] := by
  refine ⟨rfl, ?_, ?_⟩ <;> simp only [WState.init, mean, sqDev, sum, List.map_nil] <;> grind

/-- one array batch keeps the invariant for the concatenated stream -/
theorem winv_merge (s : WState) (xs ys : List Rat) (h : WInv s xs) (hy : ys ≠ []) :
    WInv (welfordMerge s ys.length (mean ys) (var ys * (ys.length : Rat))) (xs ++ ys) := by
  obtain ⟨hc, hm, h2⟩ := h
  have hk : 0 < ys.length := List.length_pos_iff.mpr hy
  have hkq := natCast_ne_zero hk
  have hnk := natCast_add_ne_zero xs.length hk
  refine ⟨by simp [welfordMerge, hc], ?_, ?_⟩
  · simp only [welfordMerge, hm, hc, mean, sum_append, List.length_append, Rat.natCast_add]
    cases xs with
    | nil =>
      simp only [sum, List.length_nil]
      have : ((0 : Nat) : Rat) = 0 := rfl
      rw [this]
      have := (merge_first (sum ys) 0 (ys.length : Rat) hkq).1
      grind
    | cons x xs =>
      have hn : ((x :: xs).length : Rat) ≠ 0 := natCast_ne_zero (by simp)
      exact merge_mean _ _ _ _ hn hkq hnk
  · simp only [welfordMerge, hm, hc, h2, var, sqDev_eq, mean, sum_append, sumSq_append,
      List.length_append, Rat.natCast_add]
    cases xs with
    | nil =>
      simp only [sum, sumSq, List.map_nil, List.length_nil]
      have : ((0 : Nat) : Rat) = 0 := rfl
      rw [this]
      have := (merge_first (sum ys) (sum (List.map (fun x => x * x) ys)) (ys.length : Rat) hkq).2
      grind
    | cons x xs =>
      have hn : ((x :: xs).length : Rat) ≠ 0 := natCast_ne_zero (by simp)
      exact merge_m2 _ _ _ _ _ _ hn hkq hnk

/-- a Python scalar behaves as the one-element array -/
theorem welfordUpdate_scalar (s : WState) (v : Rat) :
    welfordUpdate s (.scalar v) = welfordUpdate s (.array [v]) := by
  have h1 : mean [v] = v := by simp [mean, sum]; grind
  have h2 : var [v] * ((([v] : List Rat).length : Nat) : Rat) = 0 := by
    simp only [var, sqDev, h1, sum, List.map_cons, List.map_nil, List.length_cons, List.length_nil]; grind
  simp only [welfordUpdate]
  rw [h1, h2]
  rfl

theorem winv_update (s : WState) (xs : List Rat) (b : Batch) (h : WInv s xs) (hb : b.values ≠ []) :
    ∃ s', welfordUpdate s b = some s' ∧ WInv s' (xs ++ b.values) := by
  cases b with
  | scalar v =>
    rw [welfordUpdate_scalar]
    exact ⟨_, rfl, by simpa [Batch.values] using winv_merge s xs [v] h (by simp)⟩
  | array ys =>
    cases ys with
    | nil => simp [Batch.values] at hb
    | cons y ys => exact ⟨_, rfl, by simpa [Batch.values] using winv_merge s xs (y :: ys) h (by simp)⟩

theorem winv_run (bs : List Batch) : ∀ (s : WState) (xs : List Rat), WInv s xs →
    (∀ b ∈ bs, b.values ≠ []) →
    ∃ s', welfordRun s bs = some s' ∧ WInv s' (xs ++ bs.flatMap Batch.values) := by
  induction bs with
  | nil => intro s xs h _; exact ⟨s, rfl, by simpa using h⟩
  | cons b bs ih =>
    intro s xs h hne
    obtain ⟨s1, h1, hi1⟩ := winv_update s xs b h (hne b (by simp))
    obtain ⟨s2, h2, hi2⟩ := ih s1 (xs ++ b.values) hi1 (fun b' hb' => hne b' (by simp [hb']))
    refine ⟨s2, ?_, ?_⟩
    · simp [welfordRun, h1, h2]
    · simpa [List.flatMap_cons, List.append_assoc] using hi2

/-- the invariant determines the state -/
theorem winv_unique {s t : WState} {xs : List Rat} (hs : WInv s xs) (ht : WInv t xs) : s = t := by
  obtain ⟨a1, a2, a3⟩ := hs
  obtain ⟨b1, b2, b3⟩ := ht
  cases s; cases t; simp_all

/-! ### Average -/

theorem avgUpdate_values (s : AvgState) (b : Batch) :
    avgUpdate s b = { total := s.total + sum b.values, count := s.count + b.values.length } := by
  cases b <;> simp only [avgUpdate, Batch.values, sum, List.length_cons, List.length_nil] <;> congr 1 <;> grind

theorem avgRun_values (bs : List Batch) : ∀ s : AvgState,
    avgRun s bs = { total := s.total + sum (bs.flatMap Batch.values),
                    count := s.count + (bs.flatMap Batch.values).length } := by
  induction bs with
  | nil => intro s; cases s; simp only [avgRun, List.foldl_nil, List.flatMap_nil, sum, List.length_nil]; congr 1; grind
  | cons b bs ih =>
    intro s
    have := ih (avgUpdate s b)
    simp only [avgRun, List.foldl_cons] at this ⊢
    rw [this, avgUpdate_values]
    simp only [List.flatMap_cons, sum_append, List.length_append]
    congr 1
    · grind
    · omega

/-! ### Accuracy -/

theorem indicators_eq : ∀ (ps ls : List Int), ps.length = ls.length →
    indicators ps ls = some (List.zipWith (fun p l => boolRat (decide (p = l))) ps ls) := by
  intro ps
  induction ps with
  | nil => intro ls h; cases ls with
    | nil => rfl
    | cons l ls => simp at h
  | cons p ps ih =>
    intro ls h
    cases ls with
    | nil => simp at h
    | cons l ls =>
      simp only [List.length_cons, Nat.add_right_cancel_iff] at h
      simp [indicators, ih ls h]

theorem indicators_none : ∀ (ps ls : List Int), ps.length ≠ ls.length → indicators ps ls = none := by
  intro ps
  induction ps with
  | nil => intro ls h; cases ls with
    | nil => simp at h
    | cons l ls => rfl
  | cons p ps ih =>
    intro ls h
    cases ls with
    | nil => rfl
    | cons l ls =>
      simp only [List.length_cons, ne_eq, Nat.add_right_cancel_iff] at h
      simp [indicators, ih ls h]

/-- per-example 0/1 correctness of a multi-class batch: `argmax(logits, -1) == labels` -/
def correct (rs : List (List Rat)) (ls : List Int) : List Rat :=
  List.zipWith (fun r l => boolRat (decide ((argmax r : Int) = l))) rs ls

/-- per-example 0/1 correctness of a binary batch: `(logits >= threshold) == (labels > 0)` -/
def correctBin (t : Rat) (xs : List Rat) (ls : List Int) : List Rat :=
  List.zipWith (fun x l => boolRat (decide ((if t ≤ x then (1 : Int) else 0) = (if 0 < l then (1 : Int) else 0)))) xs ls

theorem accuracyValues_rows (rs : List (List Rat)) (ls : List Int) (hlen : rs.length = ls.length)
    (hne : ∀ r ∈ rs, r ≠ []) : accuracyValues none (.rows rs) ls = .ok (correct rs ls) := by
  have h1 : (rs.any fun r => r.isEmpty) = false := by
    simp only [List.any_eq_false, List.isEmpty_iff]
    exact fun r hr => hne r hr
  simp only [accuracyValues, h1]
  rw [indicators_eq _ _ (by simpa using hlen)]
  simp [correct, List.zipWith_map_left]

theorem accuracyValues_flat (t : Rat) (xs : List Rat) (ls : List Int) (hlen : xs.length = ls.length) :
    accuracyValues (some t) (.flat xs) ls = .ok (correctBin t xs ls) := by
  simp only [accuracyValues]
  rw [indicators_eq _ _ (by simpa using hlen)]
  simp [correctBin, List.zipWith_map_left, List.zipWith_map_right]

/-- the keyword arguments of one `Accuracy.update(logits=…, labels=…)` call -/
def accKw (b : List (List Rat) × List Int) : Kwargs := [("logits", .rows b.1), ("labels", .ints b.2)]
def accKwBin (b : List Rat × List Int) : Kwargs := [("logits", .num (.array b.1)), ("labels", .ints b.2)]

theorem accuracy_update_rows (s : AvgState) (b : List (List Rat) × List Int) (hlen : b.1.length = b.2.length)
    (hne : ∀ r ∈ b.1, r ≠ []) :
    metricUpdate (.accuracy none "values" s) (accKw b) =
      .ok (.accuracy none "values" (avgUpdate s (.array (correct b.1 b.2)))) := by
  simp [metricUpdate, accKw, Kwargs.get, accuracyValues_rows b.1 b.2 hlen hne]

theorem accuracy_update_flat (t : Rat) (s : AvgState) (b : List Rat × List Int) (hlen : b.1.length = b.2.length) :
    metricUpdate (.accuracy (some t) "values" s) (accKwBin b) =
      .ok (.accuracy (some t) "values" (avgUpdate s (.array (correctBin t b.1 b.2)))) := by
  simp [metricUpdate, accKwBin, Kwargs.get, accuracyValues_flat t b.1 b.2 hlen]

theorem correct_append (r1 r2 : List (List Rat)) (l1 l2 : List Int) (h : r1.length = l1.length) :
    correct (r1 ++ r2) (l1 ++ l2) = correct r1 l1 ++ correct r2 l2 := by
  simp [correct, List.zipWith_append h]

theorem correctBin_append (t : Rat) (x1 x2 : List Rat) (l1 l2 : List Int) (h : x1.length = l1.length) :
    correctBin t (x1 ++ x2) (l1 ++ l2) = correctBin t x1 l1 ++ correctBin t x2 l2 := by
  simp [correctBin, List.zipWith_append h]

theorem length_flatMap_eq {β γ : Type} (bs : List (List β × List γ)) (h : ∀ b ∈ bs, b.1.length = b.2.length) :
    (bs.flatMap (·.1)).length = (bs.flatMap (·.2)).length := by
  induction bs with
  | nil => rfl
  | cons b bs ih =>
    simp only [List.flatMap_cons, List.length_append]
    rw [h b (by simp), ih (fun b' hb' => h b' (by simp [hb']))]

theorem accuracy_run_rows (bs : List (List (List Rat) × List Int)) : ∀ (s : AvgState),
    (∀ b ∈ bs, b.1.length = b.2.length ∧ ∀ r ∈ b.1, r ≠ []) →
    metricRun (.accuracy none "values" s) (bs.map accKw) =
      .ok (.accuracy none "values"
        { total := s.total + sum (correct (bs.flatMap (·.1)) (bs.flatMap (·.2))),
          count := s.count + (bs.flatMap (·.2)).length }) := by
  induction bs with
  | nil => intro s _; cases s; simp only [List.map_nil, metricRun, List.flatMap_nil, correct, List.zipWith_nil_left, sum, List.length_nil]; congr 3; grind
  | cons b bs ih =>
    intro s h
    obtain ⟨hl, hne⟩ := h b (by simp)
    have hrest := fun b' hb' => h b' (List.mem_cons_of_mem b hb')
    simp only [List.map_cons, metricRun, accuracy_update_rows s b hl hne]
    rw [ih _ hrest]
    simp only [List.flatMap_cons, correct_append _ _ _ _ hl, sum_append, avgUpdate, List.length_append]
    have : (correct b.1 b.2).length = b.2.length := by simp [correct, hl]
    rw [this]
    congr 3
    · grind
    · omega

theorem accuracy_run_flat (t : Rat) (bs : List (List Rat × List Int)) : ∀ (s : AvgState),
    (∀ b ∈ bs, b.1.length = b.2.length) →
    metricRun (.accuracy (some t) "values" s) (bs.map accKwBin) =
      .ok (.accuracy (some t) "values"
        { total := s.total + sum (correctBin t (bs.flatMap (·.1)) (bs.flatMap (·.2))),
          count := s.count + (bs.flatMap (·.2)).length }) := by
  induction bs with
  | nil => intro s _; cases s; simp only [List.map_nil, metricRun, List.flatMap_nil, correctBin, List.zipWith_nil_left, sum, List.length_nil]; congr 3; grind
  | cons b bs ih =>
    intro s h
    have hl := h b (by simp)
    have hrest := fun b' hb' => h b' (List.mem_cons_of_mem b hb')
    simp only [List.map_cons, metricRun, accuracy_update_flat t s b hl]
    rw [ih _ hrest]
    simp only [List.flatMap_cons, correctBin_append _ _ _ _ _ hl, sum_append, avgUpdate, List.length_append]
    have : (correctBin t b.1 b.2).length = b.2.length := by simp [correctBin, hl]
    rw [this]
    congr 3
    · grind
    · omega

/-! ### MultiMetric -/

theorem multiRun_nil (kws : List Kwargs) : multiRun [] kws = .ok [] := by
  induction kws with
  | nil => rfl
  | cons kw kws ih => simp [multiRun, multiUpdate, ih]

theorem multiRun_cons (kws : List Kwargs) : ∀ (n : String) (m : Metric) (rest r : Multi),
    multiRun ((n, m) :: rest) kws = .ok r ↔
      ∃ m' rest', r = (n, m') :: rest' ∧ metricRun m kws = .ok m' ∧ multiRun rest kws = .ok rest' := by
  induction kws with
  | nil =>
    intro n m rest r
    simp only [multiRun, metricRun, Except.ok.injEq]
    constructor
    · intro h; exact ⟨m, rest, h.symm, rfl, rfl⟩
    · rintro ⟨m', rest', rfl, rfl, rfl⟩; rfl
  | cons kw kws ih =>
    intro n m rest r
    simp only [multiRun, multiUpdate, metricRun]
    cases metricUpdate m kw with
    | error e => simp
    | ok m1 =>
      simp only
      cases multiUpdate rest kw with
      | error e => simp
      | ok rest1 => simp only; exact ih n m1 rest1 r

/-- member-by-member relation between a MultiMetric before and after a history of updates -/
def Pointwise (kws : List Kwargs) : Multi → Multi → Prop
  | [], [] => True
  | (n, m) :: ms, (n', m') :: ms' => n = n' ∧ metricRun m kws = .ok m' ∧ Pointwise kws ms ms'
  | _, _ => False

theorem multiRun_pointwise (kws : List Kwargs) : ∀ (ms ms' : Multi),
    multiRun ms kws = .ok ms' ↔ Pointwise kws ms ms' := by
  intro ms
  induction ms with
  | nil =>
    intro ms'
    rw [multiRun_nil]
    cases ms' with
    | nil => simp [Pointwise]
    | cons a b => simp [Pointwise]
  | cons a ms ih =>
    intro ms'
    obtain ⟨n, m⟩ := a
    rw [multiRun_cons]
    cases ms' with
    | nil => simp [Pointwise]
    | cons a' ms'' =>
      obtain ⟨n', m'⟩ := a'
      simp only [Pointwise, List.cons.injEq, Prod.mk.injEq]
      constructor
      · rintro ⟨m1, rest', ⟨⟨rfl, rfl⟩, rfl⟩, h2, h3⟩
        exact ⟨rfl, h2, (ih _).mp h3⟩
      · rintro ⟨rfl, h2, h3⟩
        exact ⟨m', ms'', ⟨⟨rfl, rfl⟩, rfl⟩, h2, (ih _).mpr h3⟩

/-- kind, argname and threshold of a metric: what `update` never changes and `reset` keeps -/
theorem metricUpdate_reset (m m' : Metric) (kw : Kwargs) (h : metricUpdate m kw = .ok m') :
    metricReset m' = metricReset m := by
  cases m with
  | average an s =>
    simp only [metricUpdate] at h
    cases hk : kw.get an with
    | none => simp [hk] at h
    | some a => simp only [hk, Except.ok.injEq] at h; subst h; rfl
  | welford an s =>
    simp only [metricUpdate] at h
    cases hk : kw.get an with
    | none => simp [hk] at h
    | some a => simp only [hk, Except.ok.injEq] at h; subst h; rfl
  | accuracy th an s =>
    simp only [metricUpdate] at h
    split at h
    · split at h
      · simp at h
      · split at h
        · simp at h
        · split at h
          · simp only [Except.ok.injEq] at h; subst h; rfl
          · simp at h
    · simp at h
    · simp at h

theorem metricRun_reset (kws : List Kwargs) : ∀ (m m' : Metric), metricRun m kws = .ok m' →
    metricReset m' = metricReset m := by
  induction kws with
  | nil => intro m m' h; simp only [metricRun, Except.ok.injEq] at h; subst h; rfl
  | cons kw kws ih =>
    intro m m' h
    simp only [metricRun] at h
    cases hu : metricUpdate m kw with
    | error e => simp [hu] at h
    | ok m1 =>
      simp only [hu] at h
      rw [ih m1 m' h, metricUpdate_reset m m1 kw hu]

/-! ### histories with reset -/

theorem avgRun_snoc (s : AvgState) (bs : List Batch) (b : Batch) :
    avgRun s (bs ++ [b]) = avgUpdate (avgRun s bs) b := by
  simp [avgRun, List.foldl_append]

theorem welfordRun_snoc (bs : List Batch) : ∀ (s : WState) (b : Batch),
    welfordRun s (bs ++ [b]) = (welfordRun s bs).bind (fun w => welfordUpdate w b) := by
  induction bs with
  | nil =>
    intro s b
    simp only [List.nil_append, welfordRun, Option.bind_some]
    cases h : welfordUpdate s b <;> simp
  | cons a bs ih =>
    intro s b
    simp only [List.cons_append, welfordRun]
    cases welfordUpdate s a with
    | none => rfl
    | some s' => exact ih s' b

theorem avgCalls_acc (calls : List Call) : ∀ (acc : List Batch),
    avgCalls (avgRun AvgState.init acc) calls =
      avgRun AvgState.init (calls.foldl (fun acc c => match c with | .update b => acc ++ [b] | .reset => []) acc) := by
  induction calls with
  | nil => intro acc; rfl
  | cons c calls ih =>
    intro acc
    cases c with
    | update b =>
      simp only [avgCalls, List.foldl_cons] at ih ⊢
      rw [← avgRun_snoc]
      exact ih (acc ++ [b])
    | reset =>
      simp only [avgCalls, List.foldl_cons] at ih ⊢
      exact ih []

theorem welfordCalls_acc (calls : List Call) : ∀ (acc : List Batch),
    welfordCalls (welfordRun WState.init acc) calls =
      welfordRun WState.init (calls.foldl (fun acc c => match c with | .update b => acc ++ [b] | .reset => []) acc) := by
  induction calls with
  | nil => intro acc; rfl
  | cons c calls ih =>
    intro acc
    cases c with
    | update b =>
      simp only [welfordCalls, List.foldl_cons] at ih ⊢
      rw [← welfordRun_snoc]
      exact ih (acc ++ [b])
    | reset =>
      simp only [welfordCalls, List.foldl_cons] at ih ⊢
      exact ih []

end Flax.Metrics
