/- C08 proofs: `nnx.grad` / `nnx.value_and_grad` — which leaves are differentiated, what is closed over, what the forward
pass leaves behind -/
import Flax.Proofs.NnxLoopVmap

namespace Flax.NnxLoop
open Flax.Filter Flax.LiftLoop

/-! ### `ctx.split(value, filter, ...)`: diff ⊎ nondiff -/

/-- **diff ⊎ nondiff.**  Splitting the flat state by `(filter, ...)` always succeeds; `diff` holds exactly the items the
filter matches, `nondiff` exactly the others, each with its value, in the order of the flat state. -/
theorem split_diff_nondiff {α : Type} (f : NFilter) (flat : Flat α) :
    splitStatesX [f, .everything] flat =
      .ok [(flat.filter (fun x => denote f x.1 x.2.1)).map (fun x => (x.1, x.2.2)),
           (flat.filter (fun x => !(denote f x.1 x.2.1))).map (fun x => (x.1, x.2.2))] := by
  have hfm : ∀ x : Path × VarInfo × Arr α,
      firstMatch [f, .everything] x.1 x.2.1 = if denote f x.1 x.2.1 then 0 else 1 := by
    intro x
    by_cases h : denote f x.1 x.2.1 = true <;> simp [firstMatch, h, denote]
  simp only [splitStatesX]
  have hno : (flat.any fun x => firstMatch [f, .everything] x.1 x.2.1 == [f, NFilter.everything].length) = false := by
    simp only [List.any_eq_false, beq_iff_eq]
    intro x _
    rw [hfm]
    split <;> simp
  simp only [hno]
  simp only [List.length_cons, List.length_nil, List.range_succ, List.range_zero, List.nil_append, List.cons_append,
    List.map_cons, List.map_nil, Bool.false_eq_true, if_false]
  congr 2
  · congr 1
    apply List.filter_congr
    intro x _
    rw [hfm]
    by_cases h : denote f x.1 x.2.1 = true <;> simp [h]
  · congr 2
    apply List.filter_congr
    intro x _
    rw [hfm]
    by_cases h : denote f x.1 x.2.1 = true <;> simp [h]

/-! ### substituting the original values back -/

theorem set_getElem?_self {β : Type} (l : List β) (k : Nat) (x : β) (h : l[k]? = some x) : l.set k x = l := by
  apply List.ext_getElem?
  intro i
  by_cases hik : k = i
  · subst hik
    have hk : k < l.length := (List.getElem?_eq_some_iff.1 h).1
    rw [List.getElem?_set_self hk, h]
  · rw [List.getElem?_set_ne hik]

theorem substDin_dinOf {α : Type} (pure : List (GPure α)) : ∀ (argnums : List Nat) (dins : List (DIn α)),
    dinOf pure argnums = .ok dins → substDin pure (argnums.zip dins) = pure := by
  intro argnums
  induction argnums with
  | nil => intro dins _; simp [substDin]
  | cons k ks ih =>
    intro dins h
    obtain ⟨d, ds, hd, hds, rfl⟩ := mapX_cons_ok h
    simp only [List.zip_cons_cons, substDin]
    cases hk : pure[k]? with
    | none => simp [hk] at hd
    | some g =>
      cases g with
      | node gd st =>
        simp only [hk] at hd
        injection hd with hd
        subst hd
        simp only []
        rw [set_getElem?_self pure k _ hk]
        exact ih ds hds
      | arr a =>
        simp only [hk] at hd
        injection hd with hd
        subst hd
        simp only []
        rw [set_getElem?_self pure k _ hk]
        exact ih ds hds

/-! ### what `nnx.grad` returns -/

/-- **value, aux and side effects come from one forward pass; gradients have the structure of the differentiated
leaves.**  Whenever `nnx.grad` / `nnx.value_and_grad` returns: the argument filters were built without a repeated argnum,
`to_tree` accepted the aliasing, `diff`/`nondiff` were split off, and — by the contract A-AD of `jax.value_and_grad` —
the value and the aux are those of *one* call of the function `GradFn` at the original values, the caller's Variables
are what that one call left (`gradWriteBack`), and the gradients have, position by position, the tree structure
(paths and shapes) of the differentiated leaves. -/
theorem nnxGrad_ok {α : Type} {ad : AD α} {argnums : List DiffArg} {hasAux : Bool} {body : Body α}
    {args : List (Arg α)} {store : Store α} {r : GradRes α}
    (h : nnxGrad ad argnums hasAux body args store = .ok r) :
    ∃ ifl pure nondiff dins ga,
      indexFilter argnums [] = .ok ifl ∧
      gradToTree store ((argFilters ifl args.length).zip args) [] [] = .ok (pure, nondiff) ∧
      dinOf pure (argnums.map (·.argnum)) = .ok dins ∧
      gradFn body hasAux nondiff pure = .ok (r.loss, ga) ∧
      r.aux = ga.aux ∧ gradWriteBack pure ga.argsOut store = .ok r.store ∧
      r.grads.map DIn.struct = dins.map DIn.struct := by
  simp only [nnxGrad] at h
  cases h1 : indexFilter argnums [] with
  | error e => simp [h1] at h
  | ok ifl =>
    simp only [h1] at h
    cases h2 : gradToTree store ((argFilters ifl args.length).zip args) [] [] with
    | error e => simp [h2] at h
    | ok pn =>
      obtain ⟨pure, nondiff⟩ := pn
      simp only [h2] at h
      cases h3 : dinOf pure (argnums.map (·.argnum)) with
      | error e => simp [h3] at h
      | ok dins =>
        simp only [h3] at h
        cases h4 : ad.vag (gradClosure body hasAux nondiff pure (argnums.map (·.argnum))) dins with
        | error e => simp [h4] at h
        | ok vg =>
          obtain ⟨⟨loss, ga⟩, grads⟩ := vg
          simp only [h4] at h
          cases h5 : gradWriteBack pure ga.argsOut store with
          | error e => simp [h5] at h
          | ok store' =>
            simp only [h5] at h
            injection h with h
            subst h
            have hval := ad.vag_val (gradClosure body hasAux nondiff pure (argnums.map (·.argnum))) dins
            rw [h4] at hval
            simp only [gradClosure, substDin_dinOf pure _ dins h3] at hval
            exact ⟨ifl, pure, nondiff, dins, ga, rfl, h2, h3, hval.symm, rfl, h5,
              ad.vag_struct _ _ _ _ h4⟩

/-- A-AD made explicit: two functions handed to jax that agree on every input yield the same gradients (a Lean
function of a Lean function cannot tell them apart) -/
theorem ad_extensional {α β : Type} (ad : AD α) (f g : List (DIn α) → Except Err (Arr α × β)) (x : List (DIn α))
    (hfg : ∀ y, f y = g y) : ad.vag f x = ad.vag g x := by
  have : f = g := funext hfg
  rw [this]

end Flax.NnxLoop
