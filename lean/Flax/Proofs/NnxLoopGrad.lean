/- C08 proofs: `nnx.grad` / `nnx.value_and_grad` — which leaves are differentiated, what is closed over, what the forward
pass leaves behind -/
import Flax.Proofs.NnxLoopVmap

namespace Flax.NnxLoop
open Flax.Filter Flax.LiftLoop

/-! ### `ctx.split(value, filter, ...)`: diff ⊎ nondiff -/

/-- **diff ⊎ nondiff.**  Splitting the flat state by `(filter, ...)` always succeeds; `diff` holds exactly the items the
filter matches, `nondiff` exactly the others, each with its value, in the order of the flat state. -/
theorem split_diff_nondiff {α : Type} (f : NFilter) (flat : Flat α) :
    splitStatesX [f, .everything] flat =
      .ok [(flat.filter (fun x => denote f x.1 x.2.1)).map (fun x => (x.1, x.2.2)),
           (flat.filter (fun x => !(denote f x.1 x.2.1))).map (fun x => (x.1, x.2.2))] := by
  have hfm : ∀ x : Path × VarInfo × Arr α,
      firstMatch [f, .everything] x.1 x.2.1 = if denote f x.1 x.2.1 then 0 else 1 := by
    intro x
    by_cases h : denote f x.1 x.2.1 = true <;> simp [firstMatch, h, denote]
  simp only [splitStatesX]
  have hno : (flat.any fun x => firstMatch [f, .everything] x.1 x.2.1 == [f, NFilter.everything].length) = false := by
    simp only [List.any_eq_false, beq_iff_eq]
    intro x _
    rw [hfm]
    split <;> simp
  simp only [hno]
  simp only [List.length_cons, List.length_nil, List.range_succ, List.range_zero, List.nil_append, List.cons_append,
    List.map_cons, List.map_nil, Bool.false_eq_true, if_false]
  congr 2
  · congr 1
    apply List.filter_congr
    intro x _
    rw [hfm]
    by_cases h : denote f x.1 x.2.1 = true <;> simp [h]
  · congr 2
    apply List.filter_congr
    intro x _
    rw [hfm]
    by_cases h : denote f x.1 x.2.1 = true <;> simp [h]

/-! ### substituting the original values back -/

theorem set_getElem?_self {β : Type} (l : List β) (k : Nat) (x : β) (h : l[k]? = some x) : l.set k x = l := by
  apply List.ext_getElem?
  intro i
  by_cases hik : k = i
  · subst hik
    have hk : k < l.length := (List.getElem?_eq_some_iff.1 h).1
    rw [List.getElem?_set_self hk, h]
  · rw [List.getElem?_set_ne hik]

theorem substDin_dinOf {α : Type} (pure : List (GPure α)) : ∀ (argnums : List Nat) (dins : List (DIn α)),
    dinOf pure argnums = .ok dins → substDin pure (argnums.zip dins) = pure := by
  intro argnums
  induction argnums with
  | nil => intro dins _; simp [substDin]
  | cons k ks ih =>
    intro dins h
    obtain ⟨d, ds, hd, hds, rfl⟩ := mapX_cons_ok h
    simp only [List.zip_cons_cons, substDin]
    cases hk : pure[k]? with
    | none => simp [hk] at hd
    | some g =>
      cases g with
      | node gd st =>
        simp only [hk] at hd
        injection hd with hd
        subst hd
        simp only []
        rw [set_getElem?_self pure k _ hk]
        exact ih ds hds
      | arr a =>
        simp only [hk] at hd
        injection hd with hd
        subst hd
        simp only []
        rw [set_getElem?_self pure k _ hk]
        exact ih ds hds

/-! ### what `nnx.grad` returns -/

/-- **value, aux and side effects come from one forward pass; gradients have the structure of the differentiated
leaves.**  Whenever `nnx.grad` / `nnx.value_and_grad` returns: the argument filters were built without a repeated argnum,
`to_tree` accepted the aliasing, `diff`/`nondiff` were split off, and — by the contract A-AD of `jax.value_and_grad` —
the value and the aux are those of *one* call of the function `GradFn` at the original values, the caller's Variables
are what that one call left (`gradWriteBack`), and the gradients have, position by position, the tree structure
(paths and shapes) of the differentiated leaves. -/
theorem nnxGrad_ok {α : Type} {ad : AD α} {argnums : List DiffArg} {hasAux : Bool} {body : Body α}
    {args : List (Arg α)} {store : Store α} {r : GradRes α}
    (h : nnxGrad ad argnums hasAux body args store = .ok r) :
    ∃ ifl pure nondiff dins ga,
      indexFilter argnums [] = .ok ifl ∧
      gradToTree store ((argFilters ifl args.length).zip args) [] [] = .ok (pure, nondiff) ∧
      dinOf pure (argnums.map (·.argnum)) = .ok dins ∧
      gradFn body hasAux nondiff pure = .ok (r.loss, ga) ∧
      r.aux = ga.aux ∧ gradWriteBack pure ga.argsOut store = .ok r.store ∧
      r.grads.map DIn.struct = dins.map DIn.struct := by
  simp only [nnxGrad] at h
  cases h1 : indexFilter argnums [] with
  | error e => simp [h1] at h
  | ok ifl =>
    simp only [h1] at h
    cases h2 : gradToTree store ((argFilters ifl args.length).zip args) [] [] with
    | error e => simp [h2] at h
    | ok pn =>
      obtain ⟨pure, nondiff⟩ := pn
      simp only [h2] at h
      cases h3 : dinOf pure (argnums.map (·.argnum)) with
      | error e => simp [h3] at h
      | ok dins =>
        simp only [h3] at h
        cases h4 : ad.vag (gradClosure body hasAux nondiff pure (argnums.map (·.argnum))) dins with
        | error e => simp [h4] at h
        | ok vg =>
          obtain ⟨⟨loss, ga⟩, grads⟩ := vg
          simp only [h4] at h
          cases h5 : gradWriteBack pure ga.argsOut store with
          | error e => simp [h5] at h
          | ok store' =>
            simp only [h5] at h
            injection h with h
            subst h
            have hval := ad.vag_val (gradClosure body hasAux nondiff pure (argnums.map (·.argnum))) dins
            rw [h4] at hval
            simp only [gradClosure, substDin_dinOf pure _ dins h3] at hval
            exact ⟨ifl, pure, nondiff, dins, ga, rfl, h2, h3, hval.symm, rfl, h5,
              ad.vag_struct _ _ _ _ h4⟩

/-- A-AD made explicit: two functions handed to jax that agree on every input yield the same gradients (a Lean
function of a Lean function cannot tell them apart) -/
theorem ad_extensional {α β : Type} (ad : AD α) (f g : List (DIn α) → Except Err (Arr α × β)) (x : List (DIn α))
    (hfg : ∀ y, f y = g y) : ad.vag f x = ad.vag g x := by
  have : f = g := funext hfg
  rw [this]

end Flax.NnxLoop

namespace Flax.NnxLoop
open Flax.Filter Flax.LiftLoop

/-! ### what the forward pass is run on, and what it leaves -/

/-- all first occurrences over the arguments (grad: prefixes play no role in which Variables are reachable) -/
def ownedEntries {α π : Type} : List (π × Arg α) → List VarId → List Entry
  | [], _ => []
  | (_, .arr _) :: rest, seen => ownedEntries rest seen
  | (_, .node es) :: rest, seen => ownedOf es (markOwn es seen).1 ++ ownedEntries rest (markOwn es seen).2

def WFArgsG {α π : Type} (pas : List (π × Arg α)) : Prop :=
  ∀ pa ∈ pas, ∀ es, pa.2 = .node es → (es.map (·.path)).Nodup

theorem gradToTree_arr_ok {α : Type} {store : Store α} {p : Option NFilter} {a : Arr α}
    {rest : List (Option NFilter × Arg α)} {np : GPrefixes} {seen : List VarId}
    {res : List (GPure α) × List (Option (State α))}
    (h : gradToTree store ((p, .arr a) :: rest) np seen = .ok res) :
    ∃ r, gradToTree store rest np seen = .ok r ∧ res = (.arr a :: r.1, r.2) := by
  simp only [gradToTree] at h
  cases hr : gradToTree store rest np seen with
  | error e => simp [hr] at h
  | ok r => simp only [hr] at h; injection h with h; exact ⟨r, rfl, h.symm⟩

/-- the merged state of one graph-node argument (`diff` from the jax argument, `nondiff` closed over) holds every owned
Variable's value at its path -/
theorem gradToTree_node_ok {α : Type} {store : Store α} {p : Option NFilter} {es : List Entry}
    {rest : List (Option NFilter × Arg α)} {np : GPrefixes} {seen : List VarId}
    {res : List (GPure α) × List (Option (State α))}
    (h : gradToTree store ((p, .node es) :: rest) np seen = .ok res) :
    ∃ flat r st nd, flatOf (ownedOf es (markOwn es seen).1) store = .ok flat ∧
      gradToTree store rest (np ++ es.map (fun e => (e.id, p))) (markOwn es seen).2 = .ok r ∧
      res = (.node ⟨es, (markOwn es seen).1⟩ st :: r.1, nd :: r.2) ∧
      (∀ pv, pv ∈ st ++ nd.getD [] ↔ ∃ x ∈ flat, pv = (x.1, x.2.2)) := by
  simp only [gradToTree] at h
  split at h
  · cases h
  cases h2 : flatOf (ownedOf es (markOwn es seen).1) store with
  | error e => simp [h2] at h
  | ok flat =>
    simp only [h2] at h
    cases h3 : gradToTree store rest (np ++ es.map (fun e => (e.id, p))) (markOwn es seen).2 with
    | error e => simp [h3] at h
    | ok r =>
      simp only [h3] at h
      cases p with
      | none =>
        simp only [] at h
        injection h with h
        refine ⟨flat, r, _, none, rfl, rfl, h.symm, ?_⟩
        intro pv
        simp only [Option.getD_none, List.append_nil, List.mem_map]
        constructor
        · rintro ⟨x, hx, rfl⟩; exact ⟨x, hx, rfl⟩
        · rintro ⟨x, hx, rfl⟩; exact ⟨x, hx, rfl⟩
      | some f =>
        simp only [split_diff_nondiff] at h
        injection h with h
        refine ⟨flat, r, _, some _, rfl, rfl, h.symm, ?_⟩
        intro pv
        simp only [Option.getD_some, List.mem_append, List.mem_map, List.mem_filter]
        constructor
        · rintro (⟨x, ⟨hx, _⟩, rfl⟩ | ⟨x, ⟨hx, _⟩, rfl⟩) <;> exact ⟨x, hx, rfl⟩
        · rintro ⟨x, hx, rfl⟩
          by_cases hd : denote f x.1 x.2.1 = true
          · exact Or.inl ⟨x, ⟨hx, hd⟩, rfl⟩
          · exact Or.inr ⟨x, ⟨hx, by simpa using hd⟩, rfl⟩

/-- **The forward pass is run on the caller's values.**  Whatever `argnums` / `DiffState` filters select, after
`ctx.split(value, filter, ...)`, handing `diff` to jax and closing over `nondiff`, `GradFn` merges the two again: at the
original values the traced function sees every reachable Variable, once, in first-occurrence order, with the value the
caller's object holds — selected and unselected alike.  (So the value, the aux and the side effects of
`grad_value_aux_effects_once` are those of one eager call.) -/
theorem grad_forward_sees_caller_values {α : Type} [Inhabited α] (store : Store α) :
    ∀ (pas : List (Option NFilter × Arg α)) (np : GPrefixes) (seen : List VarId)
      (res : List (GPure α) × List (Option (State α))) (inner : Store α),
      WFArgsG pas → gradToTree store pas np seen = .ok res → inner.map (·.1) = seen →
      ∃ ins, mapX (fun (e : Entry) => match store.getX e.id with
          | .ok v => Except.ok (e.id, v)
          | .error err => .error err) (ownedEntries pas seen) = .ok ins ∧
        gradMergeAll res.1 res.2 inner = .ok (inner ++ ins) := by
  intro pas
  induction pas with
  | nil =>
    intro np seen res inner _ h _
    simp only [gradToTree] at h
    injection h with h
    subst h
    exact ⟨[], rfl, by simp [gradMergeAll]⟩
  | cons pa rest ih =>
    intro np seen res inner hwf h hinv
    obtain ⟨p, arg⟩ := pa
    cases arg with
    | arr a =>
      obtain ⟨r, hr, rfl⟩ := gradToTree_arr_ok h
      obtain ⟨ins, h1, h2⟩ := ih np seen r inner (fun q hq => hwf q (List.mem_cons_of_mem _ hq)) hr hinv
      exact ⟨ins, by simpa [ownedEntries] using h1, by simpa [gradMergeAll] using h2⟩
    | node es =>
      obtain ⟨flat, r, st, nd, hfl, hr, rfl, hmem⟩ := gradToTree_node_ok h
      have hes : (es.map (·.path)).Nodup := hwf (p, .node es) (by simp) es rfl
      have hnd : (flat.map (·.1)).Nodup := by rw [flatOf_paths hfl]; exact owned_paths_nodup _ hes
      have hlk := lookup_by_membership hnd (fun x => x.2.2) (st ++ nd.getD [])
        (fun x hx => (hmem _).2 ⟨x, hx, rfl⟩) (fun kb hkb => (hmem kb).1 hkb)
      obtain ⟨hfa, _⟩ := flatOf_eq_map hfl
      let w : Entry → Arr α := fun e => (store.lookup e.id).getD default
      have hown : ∀ e ∈ ownedOf es (markOwn es seen).1,
          store.getX e.id = .ok (w e) ∧ (st ++ nd.getD []).lookup e.path = some (w e) := by
        intro e he
        obtain ⟨v, hv, hm⟩ := hfa e he
        have hw : w e = v := by simp [w, hv]
        exact ⟨by simp [Store.getX, hv, hw], by rw [hw]; exact hlk _ hm⟩
      have hmerge := mergeEntries_markOwn w (st ++ nd.getD []) es seen inner hinv (fun e he => (hown e he).2)
      have hinv' : (inner ++ (ownedOf es (markOwn es seen).1).map (fun e => (e.id, w e))).map (·.1)
          = (markOwn es seen).2 := by
        rw [markOwn_seen, List.map_append, hinv, List.map_map]; rfl
      obtain ⟨ins, h1, h2⟩ := ih _ (markOwn es seen).2 r _ (fun q hq => hwf q (List.mem_cons_of_mem _ hq)) hr hinv'
      refine ⟨(ownedOf es (markOwn es seen).1).map (fun e => (e.id, w e)) ++ ins, ?_, ?_⟩
      · simp only [ownedEntries]
        apply mapX_append_of_ok _ h1
        exact mapX_eq_map _ (fun e he => by simp only [(hown e he).1])
      · simp only [gradMergeAll, hmerge]
        rw [h2, List.append_assoc]

end Flax.NnxLoop
