/-
C09, NNX: no key is replayed along any accepted history of one stream
(call / split_rngs / vmapped draws / restore_rngs, any number of rounds).
-/
import Flax.Proofs.RngNnx

namespace Flax.Rng

/-! ### the two phases of a stream and the keys each can still hand out -/

inductive Phase where
  | top (c : Nat)
  | open (c0 : Nat) (shape : List Nat) (m : Nat)

def stateOf (tag : String) (k : SymKey) : Phase → SState
  | .top c => { cur := { tag := tag, key := .scalar k, count := .scalar c }, saved := none }
  | .open c0 shape m =>
    { cur := { tag := tag, key := .batched (.foldIn k c0) shape, count := .batched shape m },
      saved := some { stream := tag, key := .scalar k, count := .scalar (c0 + 1) } }

def laneK (k : SymKey) (c : Nat) (shape idx : List Nat) (t : Nat) : SymKey :=
  .foldIn (.split (.foldIn k c) shape idx) t

def Future (k : SymKey) : Phase → SymKey → Prop
  | .top c, x => (∃ j, c ≤ j ∧ x = .foldIn k j) ∨ (∃ c' sh i t, c ≤ c' ∧ x = laneK k c' sh i t)
  | .open c0 shape m, x =>
    (∃ j, c0 + 1 ≤ j ∧ x = .foldIn k j) ∨ (∃ c' sh i t, c0 + 1 ≤ c' ∧ x = laneK k c' sh i t) ∨
    (∃ i t, m ≤ t ∧ x = laneK k c0 shape i t)

theorem laneK_ne_foldIn (k : SymKey) (c : Nat) (shape idx : List Nat) (t j : Nat) : laneK k c shape idx t ≠ .foldIn k j := by
  intro he
  simp only [laneK, SymKey.foldIn.injEq] at he
  exact split_foldIn_ne k c shape idx he.1

theorem lanesLoop_closed (tag : String) (K : SymKey) (shape : List Nat) (c m : Nat) :
    ∀ idxs : List (List Nat),
      lanesLoop { tag := tag, key := .batched K shape, count := .batched shape c } m idxs =
        .ok (idxs.flatMap (fun idx => (List.range m).map (fun t => SymKey.foldIn (.split K shape idx) (c + t)))) := by
  intro idxs
  induction idxs with
  | nil => rfl
  | cons idx rest ih =>
    simp only [lanesLoop, Stream.lane, Stream.callN_scalar, ih, List.flatMap_cons]

theorem indices_nodup : ∀ shape : List Nat, (indices shape).Nodup := by
  intro shape
  induction shape with
  | nil => simp [indices]
  | cons n rest ih =>
    simp only [indices, List.Nodup, List.pairwise_flatMap]
    refine ⟨?_, ?_⟩
    · intro i _
      rw [List.pairwise_map]
      exact List.Pairwise.imp (fun h he => h (List.cons.inj he).2) ih
    · have hr : (List.range n).Nodup := List.nodup_range
      refine List.Pairwise.imp ?_ hr
      intro a b hab x hx y hy he
      simp only [List.mem_map] at hx hy
      obtain ⟨_, _, rfl⟩ := hx
      obtain ⟨_, _, rfl⟩ := hy
      exact hab (List.cons.inj he).1

/-- the keys of one vmapped body are pairwise different -/
theorem lane_block_nodup (K : SymKey) (shape : List Nat) (c m : Nat) :
    ((indices shape).flatMap (fun idx => (List.range m).map (fun t => SymKey.foldIn (.split K shape idx) (c + t)))).Nodup := by
  simp only [List.Nodup, List.pairwise_flatMap]
  refine ⟨?_, ?_⟩
  · intro idx _
    rw [List.pairwise_map]
    refine List.Pairwise.imp ?_ (List.nodup_range (n := m))
    intro a b hab he
    simp only [SymKey.foldIn.injEq, true_and] at he
    omega
  · refine List.Pairwise.imp ?_ (indices_nodup shape)
    intro a b hab x hx y hy he
    simp only [List.mem_map] at hx hy
    obtain ⟨_, _, rfl⟩ := hx
    obtain ⟨_, _, rfl⟩ := hy
    simp only [SymKey.foldIn.injEq, SymKey.split.injEq, true_and] at he
    exact hab he.1

/-- one step: the keys it hands out were possible before, are pairwise different, are impossible afterwards,
and the future only shrinks -/
theorem sstep_phase (tag : String) (k : SymKey) (ph : Phase) (op : SOp) (st' : SState) (ks : List SymKey)
    (h : sstep (stateOf tag k ph) op = .ok (st', ks)) :
    ∃ ph', st' = stateOf tag k ph' ∧ ks.Nodup ∧ (∀ x ∈ ks, Future k ph x ∧ ¬ Future k ph' x) ∧
      (∀ x, Future k ph' x → Future k ph x) := by
  cases ph with
  | top c =>
    cases op with
    | call =>
      simp only [sstep, stateOf, Stream.call, Except.ok.injEq, Prod.mk.injEq] at h
      obtain ⟨rfl, rfl⟩ := h
      refine ⟨.top (c + 1), rfl, by simp, ?_, ?_⟩
      · intro x hx
        simp only [List.mem_singleton] at hx
        subst hx
        refine ⟨Or.inl ⟨c, Nat.le_refl c, rfl⟩, ?_⟩
        rintro (⟨j, hj, he⟩ | ⟨c', sh, i, t, _, he⟩)
        · simp only [SymKey.foldIn.injEq, true_and] at he; omega
        · exact laneK_ne_foldIn k c' sh i t c he.symm
      · rintro x (⟨j, hj, he⟩ | ⟨c', sh, i, t, hc, he⟩)
        · exact Or.inl ⟨j, by omega, he⟩
        · exact Or.inr ⟨c', sh, i, t, by omega, he⟩
    | split shape =>
      simp only [sstep, stateOf, Stream.splitOne, Stream.call, bind, Except.bind, Bool.false_eq_true, if_false,
        Except.ok.injEq, Prod.mk.injEq] at h
      obtain ⟨rfl, rfl⟩ := h
      refine ⟨.open c shape 0, rfl, by simp, by simp, ?_⟩
      rintro x (⟨j, hj, he⟩ | ⟨c', sh, i, t, hc, he⟩ | ⟨i, t, _, he⟩)
      · exact Or.inl ⟨j, by omega, he⟩
      · exact Or.inr ⟨c', sh, i, t, by omega, he⟩
      · exact Or.inr ⟨c, shape, i, t, Nat.le_refl c, he⟩
    | lanes m => simp [sstep, stateOf] at h
    | restore => simp [sstep, stateOf] at h
  | «open» c0 shape m =>
    cases op with
    | call => simp [sstep, stateOf, Stream.call] at h
    | split sh => simp [sstep, stateOf, Stream.splitOne, Stream.call, bind, Except.bind] at h
    | lanes m' =>
      simp only [sstep, stateOf, lanesLoop_closed, Except.ok.injEq, Prod.mk.injEq] at h
      obtain ⟨rfl, rfl⟩ := h
      refine ⟨.open c0 shape (m + m'), rfl, lane_block_nodup _ shape m m', ?_, ?_⟩
      · intro x hx
        simp only [List.mem_flatMap, List.mem_map, List.mem_range] at hx
        obtain ⟨idx, _, t, ht, rfl⟩ := hx
        refine ⟨Or.inr (Or.inr ⟨idx, m + t, by omega, rfl⟩), ?_⟩
        rintro (⟨j, _, he⟩ | ⟨c', sh, i, t', hc, he⟩ | ⟨i, t', ht', he⟩)
        · exact laneK_ne_foldIn k c0 shape idx (m + t) j he
        · simp only [laneK, SymKey.foldIn.injEq, SymKey.split.injEq] at he
          omega
        · simp only [laneK, SymKey.foldIn.injEq] at he
          omega
      · rintro x (⟨j, hj, he⟩ | ⟨c', sh, i, t, hc, he⟩ | ⟨i, t, ht, he⟩)
        · exact Or.inl ⟨j, hj, he⟩
        · exact Or.inr (Or.inl ⟨c', sh, i, t, hc, he⟩)
        · exact Or.inr (Or.inr ⟨i, t, by omega, he⟩)
    | restore =>
      simp only [sstep, stateOf, Except.ok.injEq, Prod.mk.injEq] at h
      obtain ⟨rfl, rfl⟩ := h
      refine ⟨.top (c0 + 1), rfl, by simp, by simp, ?_⟩
      rintro x (⟨j, hj, he⟩ | ⟨c', sh, i, t, hc, he⟩)
      · exact Or.inl ⟨j, hj, he⟩
      · exact Or.inr (Or.inl ⟨c', sh, i, t, hc, he⟩)

theorem srun_nodup (tag : String) (k : SymKey) : ∀ (ops : List SOp) (ph : Phase) (outs : List SymKey),
    srun (stateOf tag k ph) ops = .ok outs → outs.Nodup ∧ ∀ x ∈ outs, Future k ph x := by
  intro ops
  induction ops with
  | nil =>
    intro ph outs h
    simp only [srun, Except.ok.injEq] at h
    subst h
    exact ⟨by simp, by simp⟩
  | cons op ops ih =>
    intro ph outs h
    simp only [srun] at h
    cases hs : sstep (stateOf tag k ph) op with
    | error e => simp [hs] at h
    | ok r =>
      obtain ⟨st', ks⟩ := r
      obtain ⟨ph', rfl, hnd, hks, hmono⟩ := sstep_phase tag k ph op st' ks hs
      simp only [hs] at h
      cases hr : srun (stateOf tag k ph') ops with
      | error e => simp [hr] at h
      | ok more =>
        simp only [hr, Except.ok.injEq] at h
        subst h
        obtain ⟨hnd2, hfut⟩ := ih ph' more hr
        refine ⟨?_, ?_⟩
        · rw [List.nodup_append]
          refine ⟨hnd, hnd2, ?_⟩
          intro a ha b hb hab
          subst hab
          exact (hks a ha).2 (hfut a hb)
        · intro x hx
          rcases List.mem_append.mp hx with hx | hx
          · exact (hks x hx).1
          · exact hmono x (hfut x hx)

end Flax.Rng
