/-
C09: the counter-heap model `CHeap` (dict objects + links, `replay_preserves_aliasing`, `rerun_equals_first_run`) simulates the
executable scope machine on `Store` (what the driver runs).  Abstraction: both states are read as a table of counts
`(scope path, stream) ↦ n` (`Rep` for `Store`, `HeapRep` for `CHeap`); `push` and `make_rng` commute with it, hence running a
jit-ted body on the `Store` machine and replaying its cached delta in place on the heap end in states with the same table.
-/
import Flax.Proofs.RngLinenJit
import Flax.Proofs.RngAlias

namespace Flax.Rng

/-- the heap holds the counts `c` (dict objects under root id 0 — the `bind` root — at their canonical addresses) -/
def HeapRep (h : CHeap) (c : Counts) : Prop := ∀ (π : Path) (s : String), h.read ((0 : Nat), π) s = c π s

/-- step commutation, `Scope.push`: neither side changes the table -/
theorem sim_push (B : List (String × SymKey)) (rel π : Path) (n : String) (st : Store) (h : CHeap) (c : Counts)
    (hrep : Rep B st c) (hc : Canon h) (ha : (find? ((0 : Nat), π) h.cells).isSome) (hh : HeapRep h c) :
    Rep B (push (scopeG B rel π) n st).2 c ∧ (push (scopeG B rel π) n st).1 = scopeG B (rel ++ [n]) (π ++ [n]) ∧
    HeapRep (h.pushC ((0 : Nat), π) n).1 c ∧ (h.pushC ((0 : Nat), π) n).2 = ((0 : Nat), π ++ [n]) ∧ Canon (h.pushC ((0 : Nat), π) n).1 := by
  obtain ⟨st', hp, hr, _, _⟩ := push_scopeG B rel π n st c hrep
  obtain ⟨e, c1, _, _, _, r1⟩ := pushC_spec h hc ((0 : Nat), π) ha n
  refine ⟨by rw [hp]; exact hr, by rw [hp], ?_, e, c1⟩
  intro π' s
  rw [r1]; exact hh π' s

/-- step commutation, `Scope.make_rng`: both sides bump the same entry of the table -/
theorem sim_draw (cfg : Cfg) (B : List (String × SymKey)) (rel π : Path) (s : String) (st : Store) (h : CHeap) (c : Counts)
    (hrep : Rep B st c) (hhas : (find? ((0 : Nat), π) st.dicts).isSome)
    (hc : Canon h) (ha : (find? ((0 : Nat), π) h.cells).isSome) (hh : HeapRep h c)
    (s' : String) (k : SymKey) (he : effOf cfg B s = some (s', k)) :
    ∃ st', makeRng cfg (scopeG B rel π) s st = .ok (keyAt cfg.sep k rel (c π s' + 1), st') ∧ Rep B st' (bump c π s') ∧
      HeapRep (h.applyAt ((0 : Nat), π) [] s' (· + 1)) (bump c π s') := by
  obtain ⟨st', h1, h2, _⟩ := (makeRng_scopeG cfg B rel π s st c hrep hhas).2 s' k he
  refine ⟨st', h1, h2, ?_⟩
  obtain ⟨_, _, _, r⟩ := applyAt_spec h hc ((0 : Nat), π) ha [] s' (· + 1)
  intro π' t
  rw [r]
  simp only [List.append_nil, bump, Prod.mk.injEq, true_and]
  by_cases hp : π' = π ∧ t = s'
  · obtain ⟨rfl, rfl⟩ := hp
    simp [hh π' t]
  · simp [hp, hh π' t]

/-- the draws of a jit-free body as the heap model sees them: (child path relative to the scope, stream after fallback) -/
def bodyOf (cfg : Cfg) (B : List (String × SymKey)) : Prog → List (Path × String)
  | .done => []
  | .draw s rest =>
    match effOf cfg B s with
    | some (s', _) => ([], s') :: bodyOf cfg B rest
    | none => bodyOf cfg B rest
  | .sub n body rest => (bodyOf cfg B body).map (fun d => (n :: d.1, d.2)) ++ bodyOf cfg B rest
  | .jit body rest => bodyOf cfg B body ++ bodyOf cfg B rest

theorem hits_append (a b : CRef) (t : String) (x y : List (Path × String)) :
    hits a b t (x ++ y) = hits a b t x + hits a b t y := by
  simp [hits, List.filter_append]

theorem hits_map_cons (r : Nat) (π : Path) (n : String) (b : CRef) (t : String) (x : List (Path × String)) :
    hits (r, π) b t (x.map (fun d => (n :: d.1, d.2))) = hits (r, π ++ [n]) b t x := by
  induction x with
  | nil => rfl
  | cons d rest ih =>
    simp only [hits, List.map_cons, List.filter_cons] at ih ⊢
    have : ((r, π ++ n :: d.1) : CRef) = (r, π ++ [n] ++ d.1) := by simp
    simp only [this]
    split <;> simp_all

/-- the table after running a jit-free body on the reference semantics: old table plus the body's hits -/
theorem specProg_counts (cfg : Cfg) : ∀ (p : Prog), p.jitFree → ∀ (B : List (String × SymKey)) (rel π : Path) (c : Counts)
    (ks : List SymKey) (c' : Counts), specProg cfg p B rel π c = .ok (ks, c') →
    ∀ π' s, c' π' s = c π' s + hits ((0 : Nat), π) ((0 : Nat), π') s (bodyOf cfg B p) := by
  intro p
  induction p with
  | done =>
    intro _ B rel π c ks c' h π' s
    simp only [specProg, Except.ok.injEq, Prod.mk.injEq] at h
    obtain ⟨_, rfl⟩ := h
    simp [bodyOf, hits]
  | draw st rest ih =>
    intro hjf B rel π c ks c' h π' s
    simp only [specProg] at h
    cases he : effOf cfg B st with
    | none => simp [he] at h
    | some sk =>
      obtain ⟨s', k⟩ := sk
      simp only [he] at h
      cases hr : specProg cfg rest B rel π (bump c π s') with
      | error e => simp [hr] at h
      | ok r =>
        obtain ⟨ks1, c1⟩ := r
        simp only [hr, Except.ok.injEq, Prod.mk.injEq] at h
        obtain ⟨_, rfl⟩ := h
        rw [ih hjf B rel π _ ks1 c1 hr π' s]
        simp only [bodyOf, he, hits, List.filter_cons, List.append_nil, bump, Prod.mk.injEq, true_and]
        by_cases hp : π' = π ∧ s = s'
        · obtain ⟨rfl, rfl⟩ := hp
          simp; omega
        · have : ¬ (π = π' ∧ s' = s) := fun hh => hp ⟨hh.1.symm, hh.2.symm⟩
          simp [hp, this]
  | sub n body rest ihb ihr =>
    intro hjf B rel π c ks c' h π' s
    simp only [specProg] at h
    cases hb : specProg cfg body B (rel ++ [n]) (π ++ [n]) c with
    | error e => simp [hb] at h
    | ok r =>
      obtain ⟨k1, c1⟩ := r
      simp only [hb] at h
      cases hr : specProg cfg rest B rel π c1 with
      | error e => simp [hr] at h
      | ok r2 =>
        obtain ⟨k2, c2⟩ := r2
        simp only [hr, Except.ok.injEq, Prod.mk.injEq] at h
        obtain ⟨_, rfl⟩ := h
        rw [ihr hjf.2 B rel π c1 k2 c2 hr π' s, ihb hjf.1 B _ _ c k1 c1 hb π' s]
        simp only [bodyOf, hits_append, hits_map_cons]
        omega
  | jit body rest _ _ => intro hjf; exact hjf.elim

/-- **Simulation of a jit-ted call.**  `Store` side: the machine the driver runs executes the (jit-free) body at scope `π` — the
traced call.  Heap side: the same body run on dict objects, or — on a cache hit — its cached delta replayed in place
(`_restore_rng_counters` / `set_from_dict`).  If the two states represent the same table before, they represent the same table
afterwards, in both cases; and on the heap every scope that was bound before is still aliased with its parent's entry.  So
`replay_preserves_aliasing` / `rerun_equals_first_run` speak about the counts of the executable model. -/
theorem store_run_simulated_by_heap_replay (cfg : Cfg) (B : List (String × SymKey)) (hnd : (B.map (·.1)).Nodup)
    (rel π : Path) (st : Store) (c : Counts) (hrep : Rep B st c) (hhas : (find? ((0 : Nat), π) st.dicts).isSome)
    (h : CHeap) (hc : Canon h) (ha : (find? ((0 : Nat), π) h.cells).isSome) (hh : HeapRep h c)
    (p : Prog) (hjf : p.jitFree) (ks : List SymKey) (st' : Store)
    (hrun : runProg cfg p (scopeG B rel π) st = .ok (ks, st')) :
    ∃ c', Rep B st' c' ∧
      HeapRep (h.runBody ((0 : Nat), π) (bodyOf cfg B p)) c' ∧
      HeapRep (h.hitCall ((0 : Nat), π) (deltaOf (bodyOf cfg B p))) c' ∧
      (∀ q b, h.walk ((0 : Nat), π) q = some b → (h.hitCall ((0 : Nat), π) (deltaOf (bodyOf cfg B p))).walk ((0 : Nat), π) q = some b) := by
  obtain ⟨h1, h2⟩ := runProg_specProg cfg p B hnd rel π st c hrep hhas
  cases hs : specProg cfg p B rel π c with
  | error e => rw [h1 e hs] at hrun; cases hrun
  | ok r =>
    obtain ⟨ks', c'⟩ := r
    obtain ⟨st'', hrun', hrep', _⟩ := h2 ks' c' hs
    rw [hrun'] at hrun
    simp only [Except.ok.injEq, Prod.mk.injEq] at hrun
    obtain ⟨_, rfl⟩ := hrun
    have hcnt := specProg_counts cfg p hjf B rel π c ks' c' hs
    obtain ⟨_, _, _, rr⟩ := runBody_spec ((0 : Nat), π) (bodyOf cfg B p) h hc ha
    obtain ⟨_, _, lh, rh⟩ := hitCall_spec h hc ((0 : Nat), π) ha (bodyOf cfg B p)
    refine ⟨c', hrep', ?_, ?_, ?_⟩
    · intro π' s; rw [rr, hh π' s, hcnt π' s]
    · intro π' s; rw [rh, hh π' s, hcnt π' s]
    · intro q b hw; exact walk_mono _ _ lh q _ b hw

end Flax.Rng
