/-
A module body run at path `π' ++ ρ` of a store behaves like the same body run at `ρ` of the store
re-rooted at `π'`.  Used by C02 (`submodule_compositional`).
-/
import Flax.Proofs.ObsSim

namespace Flax.PathSim
open Flax.Filter (LFilter inFilter)
open Flax.Scope Flax.ModuleTree Flax.ScopeLemmas
open Flax.ObsSim (any_upsert_key hasCol_put)

/-! ### prefixes under a common prefix -/

theorem isPrefixOf_append_left (π' u w : Path) : (π' ++ u).isPrefixOf (π' ++ w) = u.isPrefixOf w := by
  induction π' with
  | nil => rfl
  | cons a rest ih => simp [List.isPrefixOf, ih]

theorem properPrefix_shift (π' : Path) (a b : String) (u w : Path) :
    properPrefix (a :: (π' ++ u)) (b :: (π' ++ w)) = properPrefix (a :: u) (b :: w) := by
  unfold properPrefix
  simp only [List.isPrefixOf, isPrefixOf_append_left]
  congr 1
  simp

/-! ### the relation -/

/-- `t` is the subtree of `s` at module path `π'`, re-rooted -/
structure Reroot (π' : Path) (s t : Store) : Prop where
  rngs_eq : t.rngs = s.rngs
  mut_eq : t.mutable = s.mutable
  vars_eq : ∀ c rest, lookupP (c :: rest) t.vars = lookupP (c :: (π' ++ rest)) s.vars
  /-- the standalone tree has no collection the parent's lacks … -/
  hascol_le : ∀ c, hasCol t c = true → hasCol s c = true
  /-- … and has every collection in which the submodule holds a variable (`scope.variables()` keeps exactly those) -/
  hascol_ge : ∀ c rest v, lookupP (c :: (π' ++ rest)) s.vars = some v → hasCol t c = true
  conflict_le : ∀ c rest, conflict t.vars (c :: rest) = true → conflict s.vars (c :: (π' ++ rest)) = true

variable {π' : Path}

theorem Reroot.getVar_eq {s t : Store} (h : Reroot π' s t) (ρ : Path) (c n : String) :
    getVar t ρ c n = getVar s (π' ++ ρ) c n := by
  unfold getVar fullPath
  rw [h.vars_eq, List.append_assoc]

theorem Reroot.hasVar_eq {s t : Store} (h : Reroot π' s t) (ρ : Path) (c n : String) :
    hasVar t ρ c n = hasVar s (π' ++ ρ) c n := by unfold hasVar; rw [h.getVar_eq]

theorem Reroot.isMutable_eq {s t : Store} (h : Reroot π' s t) (c : String) : isMutable t c = isMutable s c := by
  unfold isMutable; rw [h.mut_eq]

theorem Reroot.bump {s t : Store} (h : Reroot π' s t) :
    Reroot π' { s with inits := s.inits + 1 } { t with inits := t.inits + 1 } :=
  ⟨h.rngs_eq, h.mut_eq, h.vars_eq, h.hascol_le, h.hascol_ge, h.conflict_le⟩

theorem putVar_reroot {s t s1 : Store} (hrel : Reroot π' s t) {ρ : Path} {col n : String} {v : Val}
    (h : putVar (π' ++ ρ) col n v s = (.ok (), s1)) :
    ∃ t1, putVar ρ col n v t = (.ok (), t1) ∧ Reroot π' s1 t1 := by
  unfold putVar at h ⊢
  rw [hrel.isMutable_eq]
  by_cases hm : isMutable s col = true
  · simp only [hm, Bool.not_true, Bool.false_eq_true, if_false] at h ⊢
    by_cases hcs : conflict s.vars (fullPath col (π' ++ ρ) n) = true
    · simp [hcs] at h
    · simp only [hcs, Bool.false_eq_true, if_false, Prod.mk.injEq, Except.ok.injEq, true_and] at h
      have hct : conflict t.vars (fullPath col ρ n) = false := by
        cases hh : conflict t.vars (fullPath col ρ n) with
        | false => rfl
        | true =>
          have := hrel.conflict_le col (ρ ++ [n]) hh
          rw [← List.append_assoc] at this
          exact absurd this hcs
      simp only [hct, Bool.false_eq_true, if_false]
      refine ⟨_, rfl, ?_⟩
      rw [← h]
      refine ⟨hrel.rngs_eq, hrel.mut_eq, ?_, ?_, ?_, ?_⟩
      · intro c rest
        simp only
        by_cases hq : (c :: rest) = fullPath col ρ n
        · have hq' : (c :: (π' ++ rest)) = fullPath col (π' ++ ρ) n := by
            unfold fullPath at hq ⊢
            injection hq with h1 h2
            rw [h1, h2, List.append_assoc]
          rw [hq, hq', lookupP_upsert_self, lookupP_upsert_self]
        · have hq' : (c :: (π' ++ rest)) ≠ fullPath col (π' ++ ρ) n := by
            intro heq
            apply hq
            unfold fullPath at heq ⊢
            injection heq with h1 h2
            rw [List.append_assoc] at h2
            rw [h1, List.append_cancel_left h2]
          rw [lookupP_upsert_ne _ _ _ _ hq, lookupP_upsert_ne _ _ _ _ hq']
          exact hrel.vars_eq c rest
      · intro c hc
        rw [hasCol_put] at hc ⊢
        simp only [Bool.or_eq_true] at hc ⊢
        rcases hc with hc | hc
        · exact Or.inl (hrel.hascol_le c hc)
        · exact Or.inr hc
      · intro c rest v hv
        rw [hasCol_put]
        simp only [Bool.or_eq_true, decide_eq_true_eq]
        simp only at hv
        by_cases hq' : (c :: (π' ++ rest)) = fullPath col (π' ++ ρ) n
        · right
          unfold fullPath at hq'
          injection hq' with h1 _
          exact h1.symm
        · rw [lookupP_upsert_ne _ _ _ _ hq'] at hv
          exact Or.inl (hrel.hascol_ge c rest v hv)
      · intro c rest
        unfold conflict
        rw [any_upsert_key (fun k => properPrefix k (c :: rest) || properPrefix (c :: rest) k),
            any_upsert_key (fun k => properPrefix k (c :: (π' ++ rest)) || properPrefix (c :: (π' ++ rest)) k)]
        intro hh
        simp only [Bool.or_eq_true] at hh ⊢
        rcases hh with hh | hh
        · left
          have := hrel.conflict_le c rest (by unfold conflict; exact hh)
          unfold conflict at this; exact this
        · right
          unfold fullPath at hh ⊢
          rw [List.append_assoc, properPrefix_shift, properPrefix_shift]
          exact hh
  · simp [hm] at h

/-! ### operations -/

theorem scopeParam_reroot {s t s1 : Store} (hrel : Reroot π' s t) {ρ : Path} {n : String} {shape : List Nat}
    {init : Int} {r r1 : Res} {v : Val} (h : scopeParam (π' ++ ρ) n shape init r s = (.ok (v, r1), s1)) :
    ∃ t1, scopeParam ρ n shape init r t = (.ok (v, r1), t1) ∧ Reroot π' s1 t1 := by
  unfold scopeParam at h ⊢
  cases hr : reserve r n (some "params") with
  | error e => simp [hr] at h
  | ok r2 =>
    simp only [hr] at h ⊢
    rw [hrel.getVar_eq, hrel.isMutable_eq]
    cases hg : getVar s (π' ++ ρ) "params" n with
    | some v0 =>
      simp only [hg] at h ⊢
      cases hl : v0.leafShapes with
      | nil =>
        simp only [hl] at h ⊢
        simp only [Prod.mk.injEq, Except.ok.injEq] at h
        obtain ⟨⟨rfl, rfl⟩, rfl⟩ := h
        exact ⟨t, rfl, hrel⟩
      | cons sh rest =>
        simp only [hl] at h ⊢
        by_cases hsh : sh = shape
        · simp only [hsh, if_true] at h ⊢
          simp only [Prod.mk.injEq, Except.ok.injEq] at h
          obtain ⟨⟨rfl, rfl⟩, rfl⟩ := h
          exact ⟨t, rfl, hrel⟩
        · simp [hsh] at h
    | none =>
      simp only [hg] at h ⊢
      by_cases hm : isMutable s "params" = true
      · simp only [hm, Bool.not_true, Bool.false_eq_true, if_false] at h ⊢
        by_cases hrng : "params" ∈ s.rngs
        · have hrng' : "params" ∈ t.rngs := by rw [hrel.rngs_eq]; exact hrng
          simp only [hrng, hrng', decide_true, Bool.not_true, Bool.false_eq_true, if_false] at h ⊢
          cases hp : putVar (π' ++ ρ) "params" n (Val.full shape init) { s with inits := s.inits + 1 } with
          | mk res s2 =>
            rw [hp] at h
            cases res with
            | error e => simp at h
            | ok u =>
              simp only [Prod.mk.injEq, Except.ok.injEq] at h
              obtain ⟨⟨rfl, rfl⟩, rfl⟩ := h
              obtain ⟨t1, e1, hr1⟩ := putVar_reroot hrel.bump hp
              exact ⟨t1, by rw [e1], hr1⟩
        · simp [hrng] at h
      · simp only [hm, Bool.not_false, if_true] at h
        split at h <;> simp at h

theorem scopeVariable_reroot {s t s1 : Store} (hrel : Reroot π' s t) {ρ : Path} {col n : String} {iv : Val}
    {r r1 : Res} (h : scopeVariable (π' ++ ρ) col n iv r s = (.ok r1, s1)) :
    ∃ t1, scopeVariable ρ col n iv r t = (.ok r1, t1) ∧ Reroot π' s1 t1 := by
  unfold scopeVariable at h ⊢
  cases hr : reserve r n (some col) with
  | error e => simp [hr] at h
  | ok r2 =>
    simp only [hr] at h ⊢
    rw [hrel.hasVar_eq, hrel.isMutable_eq]
    by_cases hv : hasVar s (π' ++ ρ) col n = true
    · simp only [hv, if_true] at h ⊢
      simp only [Prod.mk.injEq, Except.ok.injEq] at h
      obtain ⟨rfl, rfl⟩ := h
      exact ⟨t, rfl, hrel⟩
    · simp only [hv, Bool.false_eq_true, if_false] at h ⊢
      by_cases hm : isMutable s col = true
      · simp only [hm, Bool.not_true, Bool.false_eq_true, if_false] at h ⊢
        cases hp : putVar (π' ++ ρ) col n iv s with
        | mk res s2 =>
          rw [hp] at h
          cases res with
          | error e => simp at h
          | ok u =>
            simp only [Prod.mk.injEq, Except.ok.injEq] at h
            obtain ⟨rfl, rfl⟩ := h
            obtain ⟨t1, e1, hr1⟩ := putVar_reroot hrel hp
            exact ⟨t1, by rw [e1], hr1⟩
      · simp only [hm, Bool.not_false, if_true] at h
        split at h <;> simp at h

theorem moduleSow_reroot {s t s1 : Store} (hrel : Reroot π' s t) {ρ : Path} {col n : String} {e : Int}
    {r r1 : Res} (h : moduleSow (π' ++ ρ) col n e r s = (.ok r1, s1)) :
    ∃ t1, moduleSow ρ col n e r t = (.ok r1, t1) ∧ Reroot π' s1 t1 := by
  unfold moduleSow at h ⊢
  rw [hrel.getVar_eq, hrel.isMutable_eq]
  by_cases hm : isMutable s col = true
  · simp only [hm, Bool.not_true, Bool.false_eq_true, if_false] at h ⊢
    cases hg : getVar s (π' ++ ρ) col n with
    | some v0 =>
      cases v0 with
      | tensor sh d => simp [hg] at h
      | tup xs =>
        simp only [hg] at h ⊢
        cases hp : putVar (π' ++ ρ) col n (.tup (xs ++ [([], [e])])) s with
        | mk res s2 =>
          rw [hp] at h
          cases res with
          | error err => simp at h
          | ok u =>
            simp only [Prod.mk.injEq, Except.ok.injEq] at h
            obtain ⟨rfl, rfl⟩ := h
            obtain ⟨t1, e1, hr1⟩ := putVar_reroot hrel hp
            exact ⟨t1, by rw [e1], hr1⟩
    | none =>
      simp only [hg] at h ⊢
      cases hr : reserve r n (some col) with
      | error err => simp [hr] at h
      | ok r2 =>
        simp only [hr] at h ⊢
        cases hp : putVar (π' ++ ρ) col n (.tup [([], [e])]) s with
        | mk res s2 =>
          rw [hp] at h
          cases res with
          | error err => simp at h
          | ok u =>
            simp only [Prod.mk.injEq, Except.ok.injEq] at h
            obtain ⟨rfl, rfl⟩ := h
            obtain ⟨t1, e1, hr1⟩ := putVar_reroot hrel hp
            exact ⟨t1, by rw [e1], hr1⟩
  · simp only [hm, Bool.not_false, if_true] at h ⊢
    simp only [Prod.mk.injEq, Except.ok.injEq] at h
    obtain ⟨rfl, rfl⟩ := h
    exact ⟨t, rfl, hrel⟩

theorem modulePerturb_reroot {s t s1 : Store} (hrel : Reroot π' s t) {ρ : Path} {col n : String} {e y : Int}
    {r r1 : Res} (h : modulePerturb (π' ++ ρ) col n e r s = (.ok (y, r1), s1)) :
    ∃ t1, modulePerturb ρ col n e r t = (.ok (y, r1), t1) ∧ Reroot π' s1 t1 := by
  unfold modulePerturb at h ⊢
  rw [hrel.hasVar_eq, hrel.isMutable_eq]
  have second : ∀ (s2 t2 : Store) (q : Res), Reroot π' s2 t2 →
      (if hasCol s2 col then
        match getVar s2 (π' ++ ρ) col n with
        | some (.tensor _ d) => ((.ok (e * (d.length : Int) + sumInt d, q) : Except Err (Int × Res)), s2)
        | some (.tup _) => (.error .unsupported, s2)
        | none => (.error .perturbMissing, s2)
       else (.ok (e, q), s2)) = (.ok (y, r1), s1) →
      ∃ t1, (if hasCol t2 col then
        match getVar t2 ρ col n with
        | some (.tensor _ d) => ((.ok (e * (d.length : Int) + sumInt d, q) : Except Err (Int × Res)), t2)
        | some (.tup _) => (.error .unsupported, t2)
        | none => (.error .perturbMissing, t2)
       else (.ok (e, q), t2)) = (.ok (y, r1), t1) ∧ Reroot π' s1 t1 := by
    intro s2 t2 q hs2 hh
    rw [hs2.getVar_eq]
    by_cases hc : hasCol s2 col = true
    · simp only [hc, if_true] at hh
      cases hg : getVar s2 (π' ++ ρ) col n with
      | none => simp [hg] at hh
      | some v0 =>
        have hct : hasCol t2 col = true := by
          unfold getVar fullPath at hg
          rw [List.append_assoc] at hg
          exact hs2.hascol_ge col _ v0 hg
        simp only [hct, if_true]
        cases v0 with
        | tup xs => simp [hg] at hh
        | tensor sh d =>
          simp only [hg] at hh ⊢
          simp only [Prod.mk.injEq, Except.ok.injEq] at hh
          obtain ⟨⟨rfl, rfl⟩, rfl⟩ := hh
          exact ⟨t2, rfl, hs2⟩
    · have hct : hasCol t2 col = false := by
        cases hh2 : hasCol t2 col with
        | false => rfl
        | true => exact absurd (hs2.hascol_le col hh2) hc
      simp only [hc, hct, Bool.false_eq_true, if_false] at hh ⊢
      simp only [Prod.mk.injEq, Except.ok.injEq] at hh
      obtain ⟨⟨rfl, rfl⟩, rfl⟩ := hh
      exact ⟨t2, rfl, hs2⟩
  by_cases hcond : (isMutable s col && !hasVar s (π' ++ ρ) col n) = true
  · simp only [hcond, if_true] at h ⊢
    cases hr : reserve r n (some col) with
    | error err => simp [hr] at h
    | ok r2 =>
      simp only [hr] at h ⊢
      cases hp : putVar (π' ++ ρ) col n (.tensor [] [0]) s with
      | mk res s2 =>
        rw [hp] at h
        cases res with
        | error err => simp at h
        | ok u =>
          obtain ⟨t1, e1, hr1⟩ := putVar_reroot hrel hp
          rw [e1]
          simp only at h ⊢
          exact second s2 t1 r2 hr1 h
  · simp only [hcond, Bool.false_eq_true, if_false] at h ⊢
    exact second s t r hrel h

theorem finishCall_reroot {cfg : Cfg} {s t s1 : Store} (hrel : Reroot π' s t) {ρ : Path} {l l1 : Local}
    (h : finishCall cfg (π' ++ ρ) l s = (.ok l1, s1)) :
    ∃ t1, finishCall cfg ρ l t = (.ok l1, t1) ∧ Reroot π' s1 t1 := by
  unfold finishCall at h ⊢
  by_cases hc : cfg.capture = true
  · simp only [hc, if_true] at h ⊢
    cases hsow : moduleSow (π' ++ ρ) "intermediates" "__call__" l.out l.res s with
    | mk res s2 =>
      rw [hsow] at h
      cases res with
      | error e => simp at h
      | ok r2 =>
        simp only [Prod.mk.injEq, Except.ok.injEq] at h
        obtain ⟨rfl, rfl⟩ := h
        obtain ⟨t1, e1, hr1⟩ := moduleSow_reroot hrel hsow
        exact ⟨t1, by rw [e1], hr1⟩
  · simp only [hc, Bool.false_eq_true, if_false] at h ⊢
    simp only [Prod.mk.injEq, Except.ok.injEq] at h
    obtain ⟨rfl, rfl⟩ := h
    exact ⟨t, rfl, hrel⟩

/-! ### programs -/

theorem eval_reroot (cfg : Cfg) (π' : Path) : ∀ (fuel : Nat) (p : SProg) (ρ : Path) (x : Int) (l l1 : Local)
    (s t s1 : Store), Reroot π' s t → eval cfg fuel p (π' ++ ρ) x l s = (.ok l1, s1) →
    ∃ t1, eval cfg fuel p ρ x l t = (.ok l1, t1) ∧ Reroot π' s1 t1 := by
  intro fuel
  induction fuel with
  | zero => intro p ρ x l l1 s t s1 _ h; simp [eval] at h
  | succ fuel ih =>
    intro p ρ x l l1 s t s1 hrel h
    cases p with
    | skip =>
      simp only [eval, Prod.mk.injEq, Except.ok.injEq] at h
      obtain ⟨rfl, rfl⟩ := h
      exact ⟨t, by simp [eval], hrel⟩
    | seq a b =>
      simp only [eval] at h
      cases ha : eval cfg fuel a (π' ++ ρ) x l s with
      | mk res s2 =>
        rw [ha] at h
        cases res with
        | error e => simp at h
        | ok l2 =>
          obtain ⟨t2, e1, hr2⟩ := ih a ρ x l l2 s t s2 hrel ha
          obtain ⟨t3, e2, hr3⟩ := ih b ρ x l2 l1 s2 t2 s1 hr2 h
          exact ⟨t3, by simp only [eval, e1]; exact e2, hr3⟩
    | bind e =>
      simp only [eval] at h
      cases he : evalE x l.env e with
      | error err => simp [he] at h
      | ok v =>
        simp only [he, Prod.mk.injEq, Except.ok.injEq] at h
        obtain ⟨rfl, rfl⟩ := h
        exact ⟨t, by simp [eval, he], hrel⟩
    | ret e =>
      simp only [eval] at h
      cases he : evalE x l.env e with
      | error err => simp [he] at h
      | ok v =>
        simp only [he, Prod.mk.injEq, Except.ok.injEq] at h
        obtain ⟨rfl, rfl⟩ := h
        exact ⟨t, by simp [eval, he], hrel⟩
    | param n shape init =>
      simp only [eval] at h
      cases hp : scopeParam (π' ++ ρ) n (resolveDims shape) init l.res s with
      | mk res s2 =>
        rw [hp] at h
        cases res with
        | error e => simp at h
        | ok vr =>
          obtain ⟨v, r⟩ := vr
          simp only [Prod.mk.injEq, Except.ok.injEq] at h
          obtain ⟨rfl, rfl⟩ := h
          obtain ⟨t1, e1, hr1⟩ := scopeParam_reroot hrel hp
          exact ⟨t1, by simp [eval, e1], hr1⟩
    | var col n shape init =>
      simp only [eval] at h
      cases he : evalE x l.env init with
      | error err => simp [he] at h
      | ok iv =>
        simp only [he] at h
        cases hp : scopeVariable (π' ++ ρ) col n (Val.full shape iv) l.res s with
        | mk res s2 =>
          rw [hp] at h
          cases res with
          | error e => simp at h
          | ok r =>
            simp only at h
            obtain ⟨t1, e1, hr1⟩ := scopeVariable_reroot hrel hp
            cases hg : getVar s2 (π' ++ ρ) col n with
            | none => simp [hg] at h
            | some v =>
              simp only [hg, Prod.mk.injEq, Except.ok.injEq] at h
              obtain ⟨rfl, rfl⟩ := h
              exact ⟨t1, by simp [eval, he, e1, hr1.getVar_eq, hg], hr1⟩
    | get col n =>
      simp only [eval] at h
      cases hg : getVar s (π' ++ ρ) col n with
      | none =>
        simp only [hg, Prod.mk.injEq, Except.ok.injEq] at h
        obtain ⟨rfl, rfl⟩ := h
        exact ⟨t, by simp [eval, hrel.getVar_eq, hg], hrel⟩
      | some v =>
        simp only [hg, Prod.mk.injEq, Except.ok.injEq] at h
        obtain ⟨rfl, rfl⟩ := h
        exact ⟨t, by simp [eval, hrel.getVar_eq, hg], hrel⟩
    | put col rel n e =>
      simp only [eval] at h
      cases he : evalE x l.env e with
      | error err => simp [he] at h
      | ok v =>
        simp only [he] at h
        cases hp : putVar (π' ++ ρ ++ rel) col n (.tensor [] [v]) s with
        | mk res s2 =>
          rw [hp] at h
          cases res with
          | error e => simp at h
          | ok u =>
            simp only [Prod.mk.injEq, Except.ok.injEq] at h
            obtain ⟨rfl, rfl⟩ := h
            rw [List.append_assoc] at hp
            obtain ⟨t1, e1, hr1⟩ := putVar_reroot hrel hp
            exact ⟨t1, by simp [eval, he, e1], hr1⟩
    | sow col n e =>
      simp only [eval] at h
      cases he : evalE x l.env e with
      | error err => simp [he] at h
      | ok v =>
        simp only [he] at h
        cases hp : moduleSow (π' ++ ρ) col n v l.res s with
        | mk res s2 =>
          rw [hp] at h
          cases res with
          | error e => simp at h
          | ok r =>
            simp only [Prod.mk.injEq, Except.ok.injEq] at h
            obtain ⟨rfl, rfl⟩ := h
            obtain ⟨t1, e1, hr1⟩ := moduleSow_reroot hrel hp
            exact ⟨t1, by simp [eval, he, e1], hr1⟩
    | perturb col n e =>
      simp only [eval] at h
      cases he : evalE x l.env e with
      | error err => simp [he] at h
      | ok v =>
        simp only [he] at h
        cases hp : modulePerturb (π' ++ ρ) col n v l.res s with
        | mk res s2 =>
          rw [hp] at h
          cases res with
          | error e => simp at h
          | ok yr =>
            obtain ⟨y, r⟩ := yr
            simp only [Prod.mk.injEq, Except.ok.injEq] at h
            obtain ⟨rfl, rfl⟩ := h
            obtain ⟨t1, e1, hr1⟩ := modulePerturb_reroot hrel hp
            exact ⟨t1, by simp [eval, he, e1], hr1⟩
    | child cls name body =>
      simp only [eval] at h
      cases hn : childName cfg cls name l with
      | none => simp [hn] at h
      | some nc =>
        obtain ⟨nm, cs⟩ := nc
        simp only [hn] at h
        cases hr : reserve l.res nm none with
        | error e => simp [hr] at h
        | ok r =>
          simp only [hr, Prod.mk.injEq, Except.ok.injEq] at h
          obtain ⟨rfl, rfl⟩ := h
          exact ⟨t, by simp [eval, hn, hr], hrel⟩
    | call slot a w =>
      simp only [eval] at h
      cases hk : l.kids[slot]? with
      | none => simp [hk] at h
      | some k =>
        simp only [hk] at h
        cases he : evalE x l.env a with
        | error err => simp [he] at h
        | ok av =>
          simp only [he] at h
          cases hb : eval cfg fuel (bindArg w k.body) (π' ++ ρ ++ [k.name]) av {} s with
          | mk res s2 =>
            rw [hb] at h
            cases res with
            | error e => simp at h
            | ok lk =>
              simp only at h
              rw [List.append_assoc] at hb
              obtain ⟨t2, e1, hr2⟩ := ih (bindArg w k.body) (ρ ++ [k.name]) av {} lk s t s2 hrel hb
              cases hf : finishCall cfg (π' ++ ρ ++ [k.name]) lk s2 with
              | mk res2 s3 =>
                rw [hf] at h
                cases res2 with
                | error e => simp at h
                | ok lk2 =>
                  simp only [Prod.mk.injEq, Except.ok.injEq] at h
                  obtain ⟨rfl, rfl⟩ := h
                  rw [List.append_assoc] at hf
                  obtain ⟨t3, e2, hr3⟩ := finishCall_reroot hr2 hf
                  exact ⟨t3, by simp [eval, hk, he, e1, e2], hr3⟩

    | nested body m V a =>
      simp only [eval] at h ⊢
      cases he : evalE x l.env a with
      | error err => simp [he] at h
      | ok av =>
        simp only [he] at h ⊢
        by_cases hbs : badStructure V = true
        · simp [hbs] at h
        · simp only [hbs, Bool.false_eq_true, if_false] at h ⊢
          cases hb : eval (nestedCfg cfg) fuel body [] av {} (Scope.bind m V ["params"]) with
          | mk res si =>
            rw [hb] at h
            cases res with
            | error e => simp at h
            | ok li =>
              simp only [Prod.mk.injEq, Except.ok.injEq] at h
              obtain ⟨rfl, rfl⟩ := h
              exact ⟨t, rfl, hrel⟩

/-! ### the variables a user extracts for a submodule -/

theorem strip_eq_some_iff (π' : Path) (q : Path) (c : String) (rest : Path) :
    strip π' q = some (c :: rest) ↔ q = c :: (π' ++ rest) := by
  cases q with
  | nil => simp [strip]
  | cons a r =>
    unfold strip
    simp only
    constructor
    · intro h
      split at h
      · rename_i hp
        simp only [Option.some.injEq, List.cons.injEq] at h
        obtain ⟨rfl, rfl⟩ := h
        rw [List.isPrefixOf_iff_prefix] at hp
        obtain ⟨u, rfl⟩ := hp
        simp
      · simp at h
    · intro h
      injection h with h1 h2
      subst h1 h2
      have : π'.isPrefixOf (π' ++ rest) = true := by
        rw [List.isPrefixOf_iff_prefix]; exact List.prefix_append _ _
      simp [this]

theorem strip_some_shape (π' : Path) (q k : Path) (h : strip π' q = some k) :
    ∃ c rest, k = c :: rest ∧ q = c :: (π' ++ rest) := by
  cases k with
  | nil =>
    cases q with
    | nil => simp [strip] at h
    | cons a r => unfold strip at h; simp only at h; split at h <;> simp at h
  | cons c rest => exact ⟨c, rest, rfl, (strip_eq_some_iff π' q c rest).mp h⟩

theorem lookupP_restrict (π' : Path) (c : String) (rest : Path) (l : List (Path × Val)) :
    lookupP (c :: rest) (l.filterMap (fun kv => (strip π' kv.1).map (fun k => (k, kv.2))))
      = lookupP (c :: (π' ++ rest)) l := by
  induction l with
  | nil => rfl
  | cons kv tl ih =>
    obtain ⟨k, v⟩ := kv
    simp only [List.filterMap_cons]
    cases hs : strip π' k with
    | none =>
      simp only [Option.map_none]
      have hne : k ≠ c :: (π' ++ rest) := by
        intro heq
        rw [(strip_eq_some_iff π' k c rest).mpr heq] at hs
        exact absurd hs (by simp)
      simp only [lookupP, hne, if_false]
      exact ih
    | some k' =>
      simp only [Option.map_some]
      by_cases hk : k' = c :: rest
      · subst hk
        have := (strip_eq_some_iff π' k c rest).mp hs
        simp [lookupP, this]
      · have hne : k ≠ c :: (π' ++ rest) := by
          intro heq
          rw [(strip_eq_some_iff π' k c rest).mpr heq] at hs
          injection hs with hs
          exact hk hs.symm
        simp only [lookupP, hk, hne, if_false]
        exact ih

/-- every leaf of a variable dict sits in one of its collections (true of every dict-of-dicts) -/
def HeadsIn (V : Vars) : Prop := ∀ kv ∈ V.vars, ∀ c r, kv.1 = c :: r → c ∈ V.cols

theorem mem_of_lookupP {q : Path} {v : Val} : ∀ {l : List (Path × Val)}, lookupP q l = some v → (q, v) ∈ l := by
  intro l
  induction l with
  | nil => intro h; simp [lookupP] at h
  | cons kv rest ih =>
    obtain ⟨k, w⟩ := kv
    intro h
    by_cases hk : k = q
    · subst hk
      simp only [lookupP, if_true, Option.some.injEq] at h
      subst h
      exact List.mem_cons_self
    · simp only [lookupP, hk, if_false] at h
      exact List.mem_cons_of_mem _ (ih h)

theorem hasCol_bind (m : LFilter) (V : Vars) (rngs : List String) (c : String) (hc : c ∈ V.cols) :
    hasCol (Scope.bind m V rngs) c = true := by
  unfold hasCol Scope.bind
  simp only [List.any_map, List.any_eq_true]
  exact ⟨c, hc, by simp⟩

theorem reroot_bind (π' : Path) (m : LFilter) (V : Vars) (hV : HeadsIn V) (rngs : List String) :
    Reroot π' (Scope.bind m V rngs) (Scope.bind m (restrict π' V) rngs) := by
  refine ⟨rfl, rfl, ?_, fun _ h => h, ?_, ?_⟩
  · intro c rest
    exact lookupP_restrict π' c rest V.vars
  · intro c rest v hv
    -- the collection of an existing variable is a collection of `V` (well-formed variable dicts); `restrict`
    -- keeps every collection, so nothing to show beyond that
    exact hasCol_bind m (restrict π' V) rngs c (hV _ (mem_of_lookupP hv) c _ rfl)
  · intro c rest h
    simp only [Scope.bind, restrict, conflict] at h ⊢
    rw [List.any_eq_true] at h ⊢
    obtain ⟨kv', hmem, hp⟩ := h
    rw [List.mem_filterMap] at hmem
    obtain ⟨kv, hkv, hmap⟩ := hmem
    cases hs : strip π' kv.1 with
    | none => rw [hs] at hmap; simp at hmap
    | some k' =>
      rw [hs] at hmap
      simp only [Option.map_some, Option.some.injEq] at hmap
      subst hmap
      obtain ⟨c0, r0, hk', hq⟩ := strip_some_shape π' kv.1 k' hs
      refine ⟨kv, hkv, ?_⟩
      simp only at hp
      rw [hq, properPrefix_shift, properPrefix_shift, ← hk']
      exact hp


theorem conflict_restrict (π' : Path) (l : List (Path × Val)) (c : String) (rest : Path)
    (h : conflict (l.filterMap (fun kv => (strip π' kv.1).map (fun k => (k, kv.2)))) (c :: rest) = true) :
    conflict l (c :: (π' ++ rest)) = true := by
  simp only [conflict] at h ⊢
  rw [List.any_eq_true] at h ⊢
  obtain ⟨kv', hmem, hp⟩ := h
  rw [List.mem_filterMap] at hmem
  obtain ⟨kv, hkv, hmap⟩ := hmem
  cases hs : strip π' kv.1 with
  | none => rw [hs] at hmap; simp at hmap
  | some k' =>
    rw [hs] at hmap
    simp only [Option.map_some, Option.some.injEq] at hmap
    subst hmap
    obtain ⟨c0, r0, hk', hq⟩ := strip_some_shape π' kv.1 k' hs
    refine ⟨kv, hkv, ?_⟩
    simp only at hp
    rw [hq, properPrefix_shift, properPrefix_shift, ← hk']
    exact hp

/-- every leaf of the store sits in a collection the root scope knows -/
def StoreHeadsIn (s : Store) : Prop := ∀ kv ∈ s.vars, ∀ c r, kv.1 = c :: r → hasCol s c = true

theorem storeHeadsIn_bind (m : LFilter) (V : Vars) (hV : HeadsIn V) (rngs : List String) :
    StoreHeadsIn (Scope.bind m V rngs) := fun kv hkv c r hc => hasCol_bind m V rngs c (hV kv hkv c r hc)

/-- the variables `scope.variables()` returns for the scope at `π'` (what `unbind` hands out), bound as a root
scope with the same filter and RNG streams, are the re-rooted subtree -/
theorem reroot_scopeVariables (π' : Path) (s : Store) (hs : StoreHeadsIn s) :
    Reroot π' s (Scope.bind s.mutable (scopeVariables π' s) s.rngs) := by
  refine ⟨rfl, rfl, ?_, ?_, ?_, ?_⟩
  · intro c rest
    exact lookupP_restrict π' c rest s.vars
  · intro c hc
    unfold hasCol Scope.bind scopeVariables restrict at hc
    simp only [List.any_map, List.any_eq_true] at hc
    obtain ⟨c', hc', heq⟩ := hc
    simp only [Function.comp, decide_eq_true_eq] at heq
    subst heq
    have hmem : c' ∈ s.cols.map (·.1) := by
      split at hc'
      · exact hc'
      · exact (List.mem_filter.mp hc').1
    unfold hasCol
    rw [List.any_eq_true]
    obtain ⟨e, he, hee⟩ := List.mem_map.mp hmem
    exact ⟨e, he, by simp [hee]⟩
  · intro c rest v hv
    have hmem := mem_of_lookupP hv
    have hcs : hasCol s c = true := hs _ hmem c _ rfl
    have hcm : c ∈ s.cols.map (·.1) := by
      unfold hasCol at hcs
      rw [List.any_eq_true] at hcs
      obtain ⟨e, he, hee⟩ := hcs
      exact List.mem_map.mpr ⟨e, he, by simpa using hee⟩
    apply hasCol_bind
    unfold scopeVariables restrict
    simp only
    split
    · exact hcm
    · rw [List.mem_filter]
      refine ⟨hcm, ?_⟩
      rw [List.any_eq_true]
      refine ⟨(c :: rest, v), ?_, by simp⟩
      rw [List.mem_filterMap]
      exact ⟨(c :: (π' ++ rest), v), hmem, by simp [(strip_eq_some_iff π' (c :: (π' ++ rest)) c rest).mpr rfl]⟩
  · intro c rest h
    exact conflict_restrict π' s.vars c rest h

end Flax.PathSim
