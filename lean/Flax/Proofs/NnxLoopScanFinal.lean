/- C08 proofs: `nnx.scan` — after the loop: `_scan_merge_out` writes back, per Variable, the stack by index / the final
carry / the original broadcast value; results are stacked by index -/
import Flax.Proofs.NnxLoopScanCollect
import Flax.Proofs.NnxLoopVmapOut

namespace Flax.NnxLoop
open Flax.Filter Flax.LiftLoop

section fin
variable {α : Type} [Inhabited α]

/-- `stackFront` (stack along 0, then `moveaxis(x, 0, k)`) is `jnp.stack` along `k` (C06) -/
theorem stackFront_ok_stackAt {k : Int} {sh : List Nat} {ls : List (Arr α)} {v : Arr α}
    (h : liftL (stackFront k sh ls) = .ok v) : liftL (stackAt k sh ls) = .ok v := by
  have h1 : opt (stackFront k sh ls) = some v := by rw [liftL_ok.1 h]; rfl
  rw [stackFront_opt] at h1
  rw [opt_eq_some.1 h1]; rfl

/-- rows of per-argument parts when the head argument is not a graph node -/
theorem parts_rows_skip {x : SPure α} {r : List (SPure α)} (hx : ∀ st : Store α, scanSplitArgOut st x = .ok none) :
    ∀ {sts : List (Store α)} {partsRows : List (List (Option (List (State α) × List (State α))))},
    mapX (fun st => mapX (scanSplitArgOut st) (x :: r)) sts = .ok partsRows →
    ∃ rows', mapX (fun st => mapX (scanSplitArgOut st) r) sts = .ok rows' ∧
      partsRows.map (fun parts => (parts.filterMap id).map (·.1)) =
        rows'.map (fun parts => (parts.filterMap id).map (·.1)) := by
  intro sts
  induction sts with
  | nil => intro pr h; simp [mapX] at h; subst h; exact ⟨[], rfl, rfl⟩
  | cons st sts ih =>
    intro pr h
    obtain ⟨y, ys, hy, hys, rfl⟩ := mapX_cons_ok h
    obtain ⟨h0, ht, hh, hr, rfl⟩ := mapX_cons_ok hy
    rw [hx st] at hh
    injection hh with hh
    subst hh
    obtain ⟨rows', e1, e2⟩ := ih hys
    exact ⟨ht :: rows', mapX_cons_of_ok hr e1, by simp [e2]⟩

/-- rows of per-argument parts when the head argument is a graph node: the per-iteration flat states, their splits,
and the vectorised routes `ScanFn` emitted -/
theorem parts_rows_node {g : GraphDef} {p : Prefix} {vec0 : List (State α)} {r : List (SPure α)} :
    ∀ {sts : List (Store α)} {partsRows : List (List (Option (List (State α) × List (State α))))},
    mapX (fun st => mapX (scanSplitArgOut st) (.node g p vec0 :: r)) sts = .ok partsRows →
    ∃ flats rowsSts vecHeads rows', mapX (flatOf g.owned) sts = .ok flats ∧
      mapX (splitFlat p) flats = .ok rowsSts ∧
      All2 (fun row vr => ∃ c b, routeStates false (p.axes.zip row) = .ok (vr, c, b)) rowsSts vecHeads ∧
      mapX (fun st => mapX (scanSplitArgOut st) r) sts = .ok rows' ∧
      column 0 (partsRows.map (fun parts => (parts.filterMap id).map (·.1))) = .ok vecHeads ∧
      (partsRows.map (fun parts => (parts.filterMap id).map (·.1))).map (·.drop 1) =
        rows'.map (fun parts => (parts.filterMap id).map (·.1)) := by
  intro sts
  induction sts with
  | nil =>
    intro pr h; simp [mapX] at h; subst h
    exact ⟨[], [], [], [], rfl, rfl, All2.nil, rfl, rfl, rfl⟩
  | cons st sts ih =>
    intro pr h
    obtain ⟨y, ys, hy, hys, rfl⟩ := mapX_cons_ok h
    obtain ⟨h0, ht, hh, hr, rfl⟩ := mapX_cons_ok hy
    obtain ⟨flat, stsI, vec', car', bc', hfl, hsp, hrt, rfl⟩ := scanSplitArgOut_node_ok hh
    obtain ⟨flats, rowsSts, vecHeads, rows', e1, e2, e3, e4, e5, e6⟩ := ih hys
    refine ⟨flat :: flats, stsI :: rowsSts, vec' :: vecHeads, ht :: rows', mapX_cons_of_ok hfl e1,
      mapX_cons_of_ok hsp e2, All2.cons ⟨car', bc', hrt⟩ e3, mapX_cons_of_ok hr e4, ?_, ?_⟩
    · simp only [column, List.map_cons, List.filterMap_cons, id] at e5 ⊢
      exact mapX_cons_of_ok (by simp [pickX]) e5
    · simp only [List.map_cons, List.filterMap_cons, id, List.drop_succ_cons, List.drop_zero]
      rw [← e6]

/-- the per-iteration values of a Variable, read from the flat states or from the stores -/
theorem valAt_flats_eq_getX {owned : List Entry} (hnd : (owned.map (·.path)).Nodup) {e : Entry} (he : e ∈ owned) :
    ∀ {sts : List (Store α)} {flats : List (Flat α)}, mapX (flatOf owned) sts = .ok flats →
    mapX (fun (st : Store α) => st.getX e.id) sts = mapX (fun fl => valAt fl e.path) flats := by
  intro sts flats h
  apply mapX_pointwise _ _ (by have := mapX_length h; omega)
  intro i h1 h2
  have hfi := mapX_ok_getElem h i h1 h2
  obtain ⟨hfa, _⟩ := flatOf_eq_map hfi
  obtain ⟨vi, hvi, hmi⟩ := hfa e he
  have hndi : ((flats[i]).map (·.1)).Nodup := by rw [flatOf_paths hfi]; exact hnd
  have := valAt_of_mem hndi hmi
  simp only [] at this
  rw [this, Store.getX, hvi]

/-- **What `_scan_merge_out` writes back.**  `r0 :: rrest` are the values the iterations left (index order), `fin` the
values the last processed iteration left, `store0` the original values.  `scanWriteBack` applied to the vectorised states
`ScanFn` emitted, the final carry deque and the unchanged broadcast deque sets every reachable Variable, once, in
first-occurrence order, to `scanFinalEntry`: axis `k` — `jnp.stack` by index of its per-iteration values along `k`;
`Carry` — what the last iteration left; `None` — its original value. -/
theorem scan_write_back (store0 : Store α) :
    ∀ (pas : List (Prefix × Arg α)) (np : NodePrefixes) (seen : List VarId) (si : ScanIn α),
      WFArgs pas → scanSplitIn store0 pas np seen = .ok si →
      ∀ (r0 : Store α) (rrest : List (Store α)) (fin : Store α)
        (partsRows : List (List (Option (List (State α) × List (State α)))))
        (partsF : List (Option (List (State α) × List (State α)))),
        mapX (fun st => mapX (scanSplitArgOut st) si.pure) (r0 :: rrest) = .ok partsRows →
        mapX (scanSplitArgOut fin) si.pure = .ok partsF →
        ∀ store store', scanWriteBack (partsRows.map (fun parts => (parts.filterMap id).map (·.1))) si.pure
            ((partsF.filterMap id).map (·.2)) si.bcastDeque store = .ok store' →
        ∃ vals, mapX (scanFinalEntry store0 fin (r0 :: rrest)) (ownedAll pas seen) = .ok vals ∧
          store' = writeAll vals store := by
  intro pas
  induction pas with
  | nil =>
    intro np seen si _ hs r0 rrest fin partsRows partsF _ _ store store' hwb
    simp only [scanSplitIn] at hs
    injection hs with hs
    subst hs
    simp only [scanWriteBack] at hwb
    injection hwb with hwb
    exact ⟨[], rfl, by simp [writeAll, hwb]⟩
  | cons pa rest ih =>
    intro np seen si hwf hs r0 rrest fin partsRows partsF hrows hF store store' hwb
    obtain ⟨p, arg⟩ := pa
    cases arg with
    | arr a =>
      obtain ⟨ax, r, rfl, hr, hsi⟩ := scanSplitIn_arr_ok hs
      -- whatever the kind of array argument: it contributes nothing to the states
      have skip : ∀ (x : SPure α), (∀ st : Store α, scanSplitArgOut st x = .ok none) →
          (∀ rows cd bd st', scanWriteBack rows (x :: r.pure) cd bd st' = scanWriteBack rows r.pure cd bd st') →
          si.pure = x :: r.pure → si.bcastDeque = r.bcastDeque →
          ∃ vals, mapX (scanFinalEntry store0 fin (r0 :: rrest)) (ownedAll ((Prefix.ax ax, Arg.arr a) :: rest) seen)
            = .ok vals ∧ store' = writeAll vals store := by
        intro x hx hsk hp hb
        rw [hp] at hrows hF hwb
        rw [hb] at hwb
        obtain ⟨rows', e1, e2⟩ := parts_rows_skip hx hrows
        obtain ⟨yF, ysF, hyF, hysF, rfl⟩ := mapX_cons_ok hF
        rw [hx fin] at hyF
        injection hyF with hyF
        subst hyF
        rw [hsk, e2] at hwb
        simpa [ownedAll] using ih np seen r (WFArgs_tail hwf) hr r0 rrest fin rows' ysF e1 hysF store store'
          (by simpa using hwb)
      cases ax with
      | carry =>
        simp only [] at hsi
        exact skip (.arrCarry a) (fun _ => rfl) (fun rows cd bd st' => by cases cd <;> cases bd <;> rfl)
          (by rw [hsi]) (by rw [hsi])
      | bcast =>
        simp only [] at hsi
        exact skip .hole (fun _ => rfl) (fun rows cd bd st' => by cases cd <;> cases bd <;> rfl)
          (by rw [hsi]) (by rw [hsi])
      | axis k =>
        simp only [] at hsi
        obtain ⟨a', _, hsi⟩ := hsi
        exact skip (.arrX k a') (fun _ => rfl) (fun rows cd bd st' => by cases cd <;> cases bd <;> rfl)
          (by rw [hsi]) (by rw [hsi])
    | node es =>
      obtain ⟨np', flatS, stsS, vecS, carS, bcS, r, hca, hflS, hspS, hrtS, hr, rfl⟩ := scanSplitIn_node_ok hs
      simp only [] at hrows hF hwb
      obtain ⟨flats, rowsSts, vecHeads, rows', e1, e2, e3, e4, e5, e6⟩ := parts_rows_node hrows
      obtain ⟨yF, ysF, hyF, hysF, rfl⟩ := mapX_cons_ok hF
      obtain ⟨flatF, stsF, vecF, carF, bcF, hflF, hspF, hrtF, rfl⟩ := scanSplitArgOut_node_ok hyF
      simp only [List.filterMap_cons, id, List.map_cons, scanWriteBack, e5, e6] at hwb
      cases hcv : scanCollectVec p.axes vecHeads with
      | error e => simp [hcv] at hwb
      | ok V =>
        simp only [hcv] at hwb
        cases hun : unrouteStates p.axes V carF bcS with
        | error e => simp [hun] at hwb
        | ok sts =>
          simp only [hun] at hwb
          cases hus : updateStore (GraphDef.owned ⟨es, (markOwn es seen).1⟩) sts.flatten store with
          | error e => simp [hus] at hwb
          | ok store1 =>
            simp only [hus] at hwb
            simp only [GraphDef.owned] at e1 hflF hus
            obtain ⟨n0, frest, hn0, hfrest, rfl⟩ := mapX_cons_ok e1
            have hes : (es.map (·.path)).Nodup := hwf (p, .node es) (by simp) es rfl
            have hndO := owned_paths_nodup (markOwn es seen).1 hes
            have hnd : (n0.map (·.1)).Nodup := by rw [flatOf_paths hn0]; exact hndO
            have hkeys : ∀ fl ∈ n0 :: frest, fl.map (fun x => (x.1, x.2.1)) = n0.map (fun x => (x.1, x.2.1)) := by
              intro fl hfl
              obtain ⟨st, _, hst⟩ := mapX_ok_mem_rev e1 fl hfl
              rw [flatOf_infos hst, flatOf_infos hn0]
            have hkF : flatF.map (fun x => (x.1, x.2.1)) = n0.map (fun x => (x.1, x.2.1)) := by
              rw [flatOf_infos hflF, flatOf_infos hn0]
            have hkS : flatS.map (fun x => (x.1, x.2.1)) = n0.map (fun x => (x.1, x.2.1)) := by
              rw [flatOf_infos hflS, flatOf_infos hn0]
            obtain ⟨vecS', hrtS'⟩ := routeStates_car_indep hrtS
            have hlk := scan_final_lookup hnd hkeys hkF hkS e2 hspF hspS e3 ⟨vecF, bcF, hrtF⟩ ⟨vecS', carS, hrtS'⟩
              hcv hun
            obtain ⟨hfa, _⟩ := flatOf_eq_map hn0
            obtain ⟨hfaF, _⟩ := flatOf_eq_map hflF
            obtain ⟨hfaS, _⟩ := flatOf_eq_map hflS
            have hndF : (flatF.map (·.1)).Nodup := by rw [flatOf_paths hflF]; exact hndO
            have hndS : (flatS.map (·.1)).Nodup := by rw [flatOf_paths hflS]; exact hndO
            let w : Entry → Arr α := fun e =>
              match scanFinalEntry store0 fin (r0 :: rrest) (e, p) with
              | .ok iv => iv.2
              | .error _ => default
            have hown : ∀ e ∈ ownedOf es (markOwn es seen).1,
                scanFinalEntry store0 fin (r0 :: rrest) (e, p) = .ok (e.id, w e) ∧
                sts.flatten.lookup e.path = some (w e) := by
              intro e he
              obtain ⟨v0, _, hm⟩ := hfa e he
              obtain ⟨a, ha, hcase⟩ := hlk _ hm
              have hat : p.at e = .ok a := (prefix_at_eq_axAt p e a).2 ha
              have key : ∃ v, scanFinalEntry store0 fin (r0 :: rrest) (e, p) = .ok (e.id, v) ∧
                  sts.flatten.lookup e.path = some v := by
                cases a with
                | axis k =>
                  simp only [] at hcase
                  obtain ⟨vs, v, hvs, hv, hl⟩ := hcase
                  have hvals : mapX (fun (st : Store α) => st.getX e.id) (r0 :: rrest) = .ok vs := by
                    rw [valAt_flats_eq_getX hndO he e1]; exact hvs
                  have hv0 : vs = v0 :: vs.tail := by
                    obtain ⟨a0, at', h0, _, rfl⟩ := mapX_cons_ok hvs
                    have := valAt_of_mem hnd hm
                    simp only [] at this
                    rw [this] at h0
                    injection h0 with h0
                    rw [h0]; rfl
                  have hcv' : collectVal (.axis k) vs = .ok v := by
                    rw [hv0]; simp only [collectVal]; rw [← hv0]
                    exact stackFront_ok_stackAt hv
                  exact ⟨v, by simp only [scanFinalEntry, hat, bindX, hvals, hcv'], hl⟩
                | carry =>
                  simp only [] at hcase
                  obtain ⟨v, hv, hl⟩ := hcase
                  obtain ⟨vF, hvF, hmF⟩ := hfaF e he
                  have := valAt_of_mem hndF hmF
                  simp only [] at this
                  rw [this] at hv
                  injection hv with hv
                  subst hv
                  exact ⟨vF, by simp only [scanFinalEntry, hat, bindX, Store.getX, hvF], hl⟩
                | bcast =>
                  simp only [] at hcase
                  obtain ⟨v, hv, hl⟩ := hcase
                  obtain ⟨vS, hvS, hmS⟩ := hfaS e he
                  have := valAt_of_mem hndS hmS
                  simp only [] at this
                  rw [this] at hv
                  injection hv with hv
                  subst hv
                  exact ⟨vS, by simp only [scanFinalEntry, hat, bindX, Store.getX, hvS], hl⟩
              obtain ⟨v, hse, hl⟩ := key
              have hw : w e = v := by simp only [w, hse]
              exact ⟨by rw [hw]; exact hse, by rw [hw]; exact hl⟩
            have hupd := updateStore_eq w sts.flatten (ownedOf es (markOwn es seen).1) store
              (fun e he => (hown e he).2)
            rw [hupd] at hus
            injection hus with hus
            obtain ⟨vals, hv1, hv2⟩ := ih np' (markOwn es seen).2 r (WFArgs_tail hwf) hr r0 rrest fin rows' ysF e4 hysF
              store1 store' hwb
            refine ⟨(ownedOf es (markOwn es seen).1).map (fun e => (e.id, w e)) ++ vals, ?_, ?_⟩
            · simp only [ownedAll]
              apply mapX_append_of_ok _ hv1
              rw [mapX_map]
              exact mapX_eq_map _ (fun e he => (hown e he).1)
            · rw [writeAll_append, hv2, ← hus, foldl_set_eq_writeAll]

end fin

end Flax.NnxLoop
