/- helper lemmas for C12 (index arithmetic of row-major tensors) -/
import Flax.Model.Layers
import Mathlib.Tactic.Ring
import Mathlib.Tactic.Linarith

namespace Flax.Layers

theorem inBounds_length : ∀ {shape idx : List Nat}, inBounds shape idx = true → idx.length = shape.length
  | [], [], _ => rfl
  | [], _ :: _, h => by simp [inBounds] at h
  | _ :: _, [], h => by simp [inBounds] at h
  | _ :: ds, _ :: is, h => by
    simp [inBounds] at h
    simp [inBounds_length h.2]

theorem ravel_lt : ∀ {shape idx : List Nat}, inBounds shape idx = true → ravel shape idx < prod shape
  | [], [], _ => by simp [ravel, prod]
  | [], _ :: _, h => by simp [inBounds] at h
  | _ :: _, [], h => by simp [inBounds] at h
  | d :: ds, i :: is, h => by
    simp [inBounds] at h
    have h2 := ravel_lt h.2
    simp only [ravel, prod]
    calc i * prod ds + ravel ds is < i * prod ds + prod ds := by omega
      _ = (i + 1) * prod ds := by ring
      _ ≤ d * prod ds := Nat.mul_le_mul_right _ h.1

theorem unravel_ravel : ∀ {shape idx : List Nat}, inBounds shape idx = true → unravel shape (ravel shape idx) = idx
  | [], [], _ => rfl
  | [], _ :: _, h => by simp [inBounds] at h
  | _ :: _, [], h => by simp [inBounds] at h
  | d :: ds, i :: is, h => by
    simp [inBounds] at h
    have h2 := ravel_lt h.2
    have hpos : 0 < prod ds := by omega
    simp only [ravel, unravel]
    have e1 : (i * prod ds + ravel ds is) / prod ds = i := by
      rw [Nat.add_comm, Nat.add_mul_div_right _ _ hpos, Nat.div_eq_of_lt h2]; simp
    have e2 : (i * prod ds + ravel ds is) % prod ds = ravel ds is := by
      rw [Nat.add_comm, Nat.add_mul_mod_self_right, Nat.mod_eq_of_lt h2]
    rw [e1, e2, unravel_ravel h.2]

theorem indices_length (shape : List Nat) : (indices shape).length = prod shape := by
  simp [indices]

/-- the executable tensor built from an index function returns that function at every in-bounds index -/
theorem get_ofFn {R : Type} [Zero R] (shape : List Nat) (f : List Nat → R) {idx : List Nat}
    (h : inBounds shape idx = true) : (Tensor.ofFn shape f).get idx = f idx := by
  have hl := ravel_lt h
  simp only [Tensor.get, Tensor.getD, Tensor.ofFn, Array.getD_eq_getD_getElem?]
  simp [indices, hl, unravel_ravel h]

theorem getD_ofFn {α : Type} (shape : List Nat) (f : List Nat → α) (d : α) {idx : List Nat}
    (h : inBounds shape idx = true) : (Tensor.ofFn shape f).getD idx d = f idx := by
  have hl := ravel_lt h
  simp only [Tensor.getD, Tensor.ofFn, Array.getD_eq_getD_getElem?]
  simp [indices, hl, unravel_ravel h]

theorem prod_append (a b : List Nat) : prod (a ++ b) = prod a * prod b := by
  induction a with
  | nil => simp [prod]
  | cons d ds ih => simp [prod, ih, Nat.mul_assoc]

/-- offsets of concatenated indices: the leading block is scaled by the size of the trailing shape -/
theorem ravel_append : ∀ (bs b rs r : List Nat), b.length = bs.length →
    ravel (bs ++ rs) (b ++ r) = ravel bs b * prod rs + ravel rs r
  | [], [], rs, r, _ => by simp [ravel]
  | [], _ :: _, _, _, h => by simp at h
  | _ :: _, [], _, _, h => by simp at h
  | d :: ds, i :: is, rs, r, h => by
    simp at h
    simp only [List.cons_append, ravel, ravel_append ds is rs r h, prod_append]
    ring

theorem inBounds_append : ∀ (bs b rs r : List Nat), inBounds bs b = true → inBounds rs r = true →
    inBounds (bs ++ rs) (b ++ r) = true
  | [], [], _, _, _, h => by simpa using h
  | [], _ :: _, _, _, h, _ => by simp [inBounds] at h
  | _ :: _, [], _, _, h, _ => by simp [inBounds] at h
  | d :: ds, i :: is, rs, r, h, h2 => by
    simp [inBounds] at h
    simp [inBounds, h.1, inBounds_append ds is rs r h.2 h2]

theorem wrap_shift (n : Nat) (hn : 0 < n) (A : Int) (r : Nat) :
    ((A % n).toNat + r) % n = ((A + r) % n).toNat := by
  have h1 : 0 ≤ A % n := Int.emod_nonneg _ (by omega)
  have h2 : 0 ≤ (A + r) % n := Int.emod_nonneg _ (by omega)
  apply Int.ofNat_inj.mp
  rw [Int.toNat_of_nonneg h2]
  push_cast
  rw [Int.toNat_of_nonneg h1, Int.emod_add_emod]

theorem sumOver_congr {R α : Type} [Zero R] [Add R] (xs : List α) (f g : α → R) (h : ∀ a ∈ xs, f a = g a) :
    sumOver xs f = sumOver xs g := by
  simp only [sumOver]
  congr 1
  exact List.map_congr_left h

theorem scatterIdx_length (n : Nat) (assign : List (Nat × Nat)) (rest : List Nat) :
    (scatterIdx n assign rest).length = n := by simp [scatterIdx]

theorem scatterIdx_getElem (n : Nat) (assign : List (Nat × Nat)) (rest : List Nat) (p : Nat) (hp : p < n) :
    (scatterIdx n assign rest)[p]'(by simp [scatterIdx, hp]) = scatterAt assign rest p := by
  simp only [scatterIdx, List.getElem_map, List.getElem_range]

theorem scatter_last (r c : Nat) (lead : List Nat) (h : lead.length + 1 = r) :
    scatterIdx r [(r - 1, c)] lead = lead ++ [c] := by
  apply List.ext_getElem
  · simp [scatterIdx_length, h]
  · intro p h1 h2
    rw [scatterIdx_length] at h1
    rw [scatterIdx_getElem r _ _ p h1]
    simp only [scatterAt]
    by_cases hp : p = r - 1
    · subst hp
      have : lead.length = r - 1 := by omega
      simp [List.find?, this]
    · have hne : ¬ (r - 1 = p) := fun e => hp e.symm
      have hlt : p < lead.length := by omega
      have hf : (List.range p).filter (fun j => (List.find? (fun q => decide (q.1 = j)) [(r - 1, c)]).isNone) = List.range p := by
        apply List.filter_eq_self.mpr
        intro j hj
        have := List.mem_range.mp hj
        have : ¬ (r - 1 = j) := by omega
        simp [List.find?, this]
      simp only [hf, List.length_range]
      simp [List.find?, hne, hlt, List.getElem_append_left hlt]

theorem scatter_kernel (c f : Nat) : scatterIdx 2 [(0, c)] [f] = [c, f] := by
  simp [scatterIdx, scatterAt, List.range_succ, List.find?]

theorem find_zip_nodup : ∀ (keys vals : List Nat), keys.Nodup → keys.length = vals.length →
    ∀ (j : Nat) (hj : j < keys.length) (hj' : j < vals.length),
    (keys.zip vals).find? (fun q => q.1 = keys[j]) = some (keys[j], vals[j])
  | [], _, _, _, j, hj, _ => by simp at hj
  | _ :: _, [], _, h, _, _, _ => by simp at h
  | k :: ks, v :: vs, hn, hl, 0, _, _ => by simp [List.find?]
  | k :: ks, v :: vs, hn, hl, j + 1, hj, hj' => by
    have hnd := List.nodup_cons.mp hn
    have hne : ¬ (k = ks[j]'(by simpa using hj)) := by
      intro e; exact hnd.1 (e ▸ List.getElem_mem _)
    simp only [List.zip_cons_cons, List.getElem_cons_succ, List.find?, hne, decide_false]
    exact find_zip_nodup ks vs hnd.2 (by simpa using hl) j (by simpa using hj) (by simpa using hj')

theorem find_zip_isNone (keys vals : List Nat) (hl : keys.length = vals.length) (p : Nat) :
    ((keys.zip vals).find? (fun q => q.1 = p)).isNone = !(keys.contains p) := by
  by_cases hp : p ∈ keys
  · obtain ⟨j, hj, rfl⟩ := List.getElem_of_mem hp
    have hmem : (keys[j], vals[j]'(by omega)) ∈ keys.zip vals := by
      have : (keys.zip vals)[j]'(by simp; omega) = (keys[j], vals[j]'(by omega)) := by simp
      rw [← this]; exact List.getElem_mem _
    have : (keys.zip vals).find? (fun q => decide (q.1 = keys[j])) ≠ none := by
      intro e
      have := List.find?_eq_none.mp e _ hmem
      simp at this
    cases hf : (keys.zip vals).find? (fun q => decide (q.1 = keys[j])) with
    | none => exact absurd hf this
    | some q => simp [hp]
  · have : (keys.zip vals).find? (fun q => decide (q.1 = p)) = none := by
      apply List.find?_eq_none.mpr
      intro q hq
      have := (List.of_mem_zip hq).1
      simp; intro e; exact hp (e ▸ this)
    simp [this, hp]

theorem filter_range_rank (P : Nat → Bool) : ∀ (n t : Nat) (ht : t < ((List.range n).filter P).length),
    ((List.range (((List.range n).filter P)[t])).filter P).length = t
  | 0, t, ht => by simp at ht
  | n + 1, t, ht => by
    have e : (List.range (n + 1)).filter P = (List.range n).filter P ++ (if P n then [n] else []) := by
      simp [List.range_succ, List.filter_append, List.filter_cons]
    by_cases hlt : t < ((List.range n).filter P).length
    · have : ((List.range (n + 1)).filter P)[t] = ((List.range n).filter P)[t] := by
        simp only [e]; exact List.getElem_append_left hlt
      rw [this]; exact filter_range_rank P n t hlt
    · have hP : P n = true := by
        by_contra hP
        simp [e, hP] at ht; omega
      have hlen : ((List.range (n + 1)).filter P).length = ((List.range n).filter P).length + 1 := by
        simp [e, hP]
      have ht' : t = ((List.range n).filter P).length := by omega
      have : ((List.range (n + 1)).filter P)[t] = n := by
        simp only [e, hP, if_true]
        rw [List.getElem_append_right (by omega)]
        simp [ht']
      rw [this, ← ht']

/-- the unassigned positions, in increasing order, receive `rest` -/
theorem scatterIdx_free (n : Nat) (assign : List (Nat × Nat)) (rest : List Nat)
    (hl : rest.length = ((List.range n).filter (fun j => (assign.find? (fun q => q.1 = j)).isNone)).length) :
    ((List.range n).filter (fun j => (assign.find? (fun q => q.1 = j)).isNone)).map (scatterAt assign rest) = rest := by
  apply List.ext_getElem
  · simp [hl]
  · intro t h1 h2
    simp only [List.length_map] at h1
    simp only [List.getElem_map]
    have hmem := List.getElem_mem h1
    have hfree := (List.mem_filter.mp hmem).2
    have hrank := filter_range_rank (fun j => (assign.find? (fun q => q.1 = j)).isNone) n t h1
    simp only [scatterAt]
    cases hf : assign.find? (fun q => decide (q.1 = ((List.range n).filter (fun j => (assign.find? (fun q => q.1 = j)).isNone))[t])) with
    | some q => simp [hf] at hfree
    | none =>
      simp only [hrank]
      simp [h2]


theorem indices_singleton (n : Nat) : indices [n] = (List.range n).map (fun i => [i]) := by
  simp [indices, unravel, prod]

theorem filter_last (r : Nat) (hr : 1 ≤ r) :
    (List.range r).filter (fun a => !([r - 1].contains a) && !(([] : List Nat).contains a)) = List.range (r - 1) := by
  obtain ⟨m, rfl⟩ : ∃ m, r = m + 1 := ⟨r - 1, by omega⟩
  simp only [Nat.add_sub_cancel, List.range_succ, List.filter_append]
  have : (List.range m).filter (fun a => !([m].contains a) && !(([] : List Nat).contains a)) = List.range m := by
    apply List.filter_eq_self.mpr
    intro a ha
    have : a ≠ m := by have := List.mem_range.mp ha; omega
    simp [this]
  rw [this]; simp

section
variable {R : Type} [Zero R] [Add R] [Mul R]

omit [Mul R] in
theorem sumOver_map (α β : Type) (xs : List α) (g : α → β) (f : β → R) : sumOver (xs.map g) f = sumOver xs (fun a => f (g a)) := by
  simp [sumOver, List.map_map, Function.comp_def]

theorem dotGeneral_last_get (x k : Tensor R) (lead : List Nat) (f : Nat)
    (hr : 1 ≤ x.rank) (hk : k.rank = 2) (hl : lead.length + 1 = x.rank)
    (hb : inBounds ((List.range (x.rank - 1)).map (nth x.shape ·) ++ [nth k.shape 1]) (lead ++ [f]) = true) :
    (dotGeneral x k [x.rank - 1] [0] [] []).get (lead ++ [f]) =
      sumOver (List.range (nth x.shape (x.rank - 1))) (fun j => x.get (lead ++ [j]) * k.get [j, f]) := by
  have hfl := filter_last x.rank hr
  have hkf : (List.range k.rank).filter (fun a => !([0].contains a) && !(([] : List Nat).contains a)) = [1] := by
    rw [hk]; decide
  simp only [dotGeneral, hfl, hkf, List.map_nil, List.nil_append, List.length_nil, List.map_cons]
  rw [get_ofFn _ _ (by simpa using hb)]
  have hll : lead.length = x.rank - 1 := by omega
  simp only [List.take_zero, List.drop_zero, List.length_map, List.length_range, Nat.zero_add,
    List.nil_append, ← hll, List.take_left', List.drop_left', indices_singleton, sumOver_map, List.zip_cons_cons,
    List.zip_nil_right]
  apply sumOver_congr
  intro j _
  rw [hll, scatter_last x.rank j lead hl, hk, scatter_kernel]
end

theorem mem_insertSorted (a b : Nat) (l : List Nat) : b ∈ insertSorted a l ↔ b = a ∨ b ∈ l := by
  induction l with
  | nil => simp [insertSorted]
  | cons c cs ih =>
    simp only [insertSorted]
    split
    · simp
    · simp [ih]; tauto

theorem mem_sortNat (a : Nat) (xs : List Nat) : a ∈ sortNat xs ↔ a ∈ xs := by
  induction xs with
  | nil => simp [sortNat]
  | cons c cs ih =>
    have : sortNat (c :: cs) = insertSorted c (sortNat cs) := rfl
    rw [this, mem_insertSorted, ih]; simp

theorem length_insertSorted (a : Nat) (l : List Nat) : (insertSorted a l).length = l.length + 1 := by
  induction l with
  | nil => simp [insertSorted]
  | cons c cs ih =>
    simp only [insertSorted]
    split <;> simp [ih]

theorem length_sortNat (xs : List Nat) : (sortNat xs).length = xs.length := by
  induction xs with
  | nil => simp [sortNat]
  | cons c cs ih =>
    have : sortNat (c :: cs) = insertSorted c (sortNat cs) := rfl
    rw [this, length_insertSorted, ih]; simp

theorem insertSorted_sorted (a : Nat) (l : List Nat) (h : l.Pairwise (· ≤ ·)) : (insertSorted a l).Pairwise (· ≤ ·) := by
  induction l with
  | nil => simp [insertSorted]
  | cons c cs ih =>
    simp only [insertSorted]
    have hc := List.pairwise_cons.mp h
    split
    · rename_i hle
      refine List.pairwise_cons.mpr ⟨?_, h⟩
      intro b hb
      rcases List.mem_cons.mp hb with rfl | hb
      · exact hle
      · exact Nat.le_trans hle (hc.1 b hb)
    · rename_i hnle
      refine List.pairwise_cons.mpr ⟨?_, ih hc.2⟩
      intro b hb
      rcases (mem_insertSorted a b cs).mp hb with rfl | hb
      · omega
      · exact hc.1 b hb

theorem sortNat_sorted (xs : List Nat) : (sortNat xs).Pairwise (· ≤ ·) := by
  induction xs with
  | nil => simp [sortNat]
  | cons c cs ih =>
    have : sortNat (c :: cs) = insertSorted c (sortNat cs) := rfl
    rw [this]; exact insertSorted_sorted c _ ih

theorem mem_dedupSorted (a : Nat) (l : List Nat) : a ∈ dedupSorted l ↔ a ∈ l := by
  fun_induction dedupSorted l with
  | case1 y rest ih => simp [ih]
  | case2 x y rest hne ih => simp [ih]
  | case3 xs h => rfl

theorem dedupSorted_strict (l : List Nat) (h : l.Pairwise (· ≤ ·)) : (dedupSorted l).Pairwise (· < ·) := by
  fun_induction dedupSorted l with
  | case1 y rest ih => exact ih (List.pairwise_cons.mp h).2
  | case2 x y rest hne ih =>
    have hc := List.pairwise_cons.mp h
    refine List.pairwise_cons.mpr ⟨?_, ih hc.2⟩
    intro b hb
    have hb' := (mem_dedupSorted b _).mp hb
    have hxy := hc.1 y (by simp)
    rcases List.mem_cons.mp hb' with rfl | hb''
    · omega
    · have := (List.pairwise_cons.mp hc.2).1 b hb''
      omega
  | case3 xs hx =>
    match xs, hx with
    | [], _ => simp
    | [a], _ => simp
    | a :: b :: r, hx => exact absurd rfl (fun e => hx a b r e)

section
variable {R : Type} [Zero R] [Add R] [Mul R]

/-- `dotGeneral` at output position `b ++ lf ++ rf` (batch, lhs-free, rhs-free coordinates) -/
theorem dotGeneral_get (lhs rhs : Tensor R) (lc rc lb rb : List Nat) (b lf rf : List Nat)
    (hbl : b.length = lb.length)
    (hlf : lf.length = ((List.range lhs.rank).filter (fun a => !(lc.contains a) && !(lb.contains a))).length)
    (hb : inBounds (dotGeneral lhs rhs lc rc lb rb).shape (b ++ lf ++ rf) = true) :
    (dotGeneral lhs rhs lc rc lb rb).get (b ++ lf ++ rf) =
      sumOver (indices (lc.map (nth lhs.shape ·))) (fun c =>
        lhs.get (scatterIdx lhs.rank (lb.zip b ++ lc.zip c) lf) * rhs.get (scatterIdx rhs.rank (rb.zip b ++ rc.zip c) rf)) := by
  simp only [dotGeneral, Tensor.ofFn] at hb
  simp only [dotGeneral]
  rw [get_ofFn _ _ hb]
  have e1 : (b ++ lf ++ rf).take lb.length = b := by
    rw [List.append_assoc, ← hbl, List.take_left']
    rfl
  have e2 : ((b ++ lf ++ rf).drop lb.length).take
      (((List.range lhs.rank).filter (fun a => !(lc.contains a) && !(lb.contains a))).map (nth lhs.shape ·)).length = lf := by
    rw [List.append_assoc, ← hbl, List.drop_left', List.length_map, ← hlf, List.take_left']
    rfl; rfl
  have e3 : (b ++ lf ++ rf).drop (lb.length +
      (((List.range lhs.rank).filter (fun a => !(lc.contains a) && !(lb.contains a))).map (nth lhs.shape ·)).length) = rf := by
    rw [List.length_map, ← hbl, ← hlf, ← List.length_append, List.drop_left']
    rfl
  simp only [e1, e2, e3]
end

theorem filter_ge_range (m : Nat) : ∀ p : Nat,
    ((List.range p).filter (fun j => !((List.range m).contains j))).length = p - m
  | 0 => by simp
  | p + 1 => by
    rw [List.range_succ, List.filter_append, List.length_append, filter_ge_range m p]
    by_cases h : p < m
    · have : List.filter (fun j => !((List.range m).contains j)) [p] = [] := by simp [h]
      rw [this]; simp; omega
    · have : List.filter (fun j => !((List.range m).contains j)) [p] = [p] := by simp [h]
      rw [this]; simp; omega

theorem scatter_prefix (m : Nat) (vs f : List Nat) (hv : vs.length = m) :
    scatterIdx (m + f.length) ((List.range m).zip vs) f = vs ++ f := by
  apply List.ext_getElem
  · simp [scatterIdx_length, hv]
  · intro p h1 h2
    rw [scatterIdx_length] at h1
    rw [scatterIdx_getElem _ _ _ p h1]
    have hfree : (fun j => (((List.range m).zip vs).find? (fun q => decide (q.1 = j))).isNone)
        = (fun j => !((List.range m).contains j)) := by
      funext j; exact find_zip_isNone (List.range m) vs (by simp [hv]) j
    by_cases hp : p < m
    · have := find_zip_nodup (List.range m) vs List.nodup_range (by simp [hv]) p (by simpa using hp) (by omega)
      simp only [List.getElem_range] at this
      simp only [scatterAt, this]
      rw [List.getElem_append_left (by omega)]
    · have hn : ((List.range m).zip vs).find? (fun q => decide (q.1 = p)) = none := by
        have := find_zip_isNone (List.range m) vs (by simp [hv]) p
        have hc : (List.range m).contains p = false := by simp [hp]
        rw [hc] at this
        simpa using this
      simp only [scatterAt, hn, hfree, filter_ge_range]
      rw [List.getElem_append_right (by omega)]
      have : p - m < f.length := by omega
      simp [List.getD, this, hv]

theorem length_unravel : ∀ (shape : List Nat) (n : Nat), (unravel shape n).length = shape.length
  | [], _ => rfl
  | _ :: ds, n => by simp [unravel, length_unravel ds]

theorem mem_indices_length {shape c : List Nat} (h : c ∈ indices shape) : c.length = shape.length := by
  simp only [indices, List.mem_map] at h
  obtain ⟨i, _, rfl⟩ := h
  exact length_unravel _ _

theorem zip_range_add (nb na : Nat) (b c : List Nat) (hb : b.length = nb) :
    (List.range nb).zip b ++ ((List.range na).map (· + nb)).zip c = (List.range (nb + na)).zip (b ++ c) := by
  have : List.range (nb + na) = List.range nb ++ (List.range na).map (· + nb) := by
    rw [List.range_add]
    congr 1
    apply List.map_congr_left
    intro a _; omega
  rw [this, List.zip_append (by simp [hb])]

section
variable {R : Type} [Zero R] [Add R] [Mul R]

theorem denseGeneralCore_get_nobias (axis batchDims : List Int) (x k : Tensor R) (nb : Nat) (bidx r f : List Nat)
    (hbd : normalizeAxes x.rank batchDims = List.range nb) (hbl : bidx.length = nb)
    (hr : r.length = ((List.range x.rank).filter
            (fun a => !((normalizeAxes x.rank axis).contains a) && !((List.range nb).contains a))).length)
    (hkr : k.rank = nb + (normalizeAxes x.rank axis).length + f.length)
    (hb : inBounds (denseGeneralCore axis batchDims x k none).shape (bidx ++ r ++ f) = true) :
    (denseGeneralCore axis batchDims x k none).get (bidx ++ r ++ f) =
      sumOver (indices ((normalizeAxes x.rank axis).map (nth x.shape ·))) (fun a =>
        x.get (scatterIdx x.rank ((List.range nb).zip bidx ++ (normalizeAxes x.rank axis).zip a) r) * k.get (bidx ++ a ++ f)) := by
  simp only [denseGeneralCore, hbd, List.length_range] at hb ⊢
  rw [dotGeneral_get _ _ _ _ _ _ bidx r f (by simp [hbl]) hr hb]
  apply sumOver_congr
  intro a ha
  have hal : a.length = (normalizeAxes x.rank axis).length := by
    have := mem_indices_length ha; simpa using this
  rw [zip_range_add nb _ bidx a hbl]
  have hk2 : k.rank = (nb + (normalizeAxes x.rank axis).length) + f.length := hkr
  rw [hk2, scatter_prefix _ (bidx ++ a) f (by simp [hbl, hal])]
end

theorem filter_split_prefix (P : Nat → Bool) (nb : Nat) (hP : ∀ a, a < nb → P a = true) : ∀ d : Nat,
    (List.range (nb + d)).filter P = List.range nb ++ (List.range (nb + d)).filter (fun a => P a && !((List.range nb).contains a))
  | 0 => by
    have h1 : (List.range nb).filter P = List.range nb :=
      List.filter_eq_self.mpr (fun a ha => hP a (List.mem_range.mp ha))
    have h2 : (List.range nb).filter (fun a => P a && !((List.range nb).contains a)) = [] := by
      apply List.filter_eq_nil_iff.mpr
      intro a ha; simp [List.mem_range.mp ha]
    simp only [Nat.add_zero, h1, h2, List.append_nil]
  | d + 1 => by
    have hc : (List.range nb).contains (nb + d) = false := by simp
    rw [← Nat.add_assoc, List.range_succ, List.filter_append, List.filter_append, filter_split_prefix P nb hP d,
      List.append_assoc]
    congr 2
    simp [List.filter_cons, hc]

theorem bcast_inBounds : ∀ (shape idx : List Nat), inBounds shape idx = true →
    List.zipWith (fun i d => if d = 1 then 0 else i) idx shape = idx
  | [], [], _ => rfl
  | [], _ :: _, h => by simp [inBounds] at h
  | _ :: _, [], h => by simp [inBounds] at h
  | d :: ds, i :: is, h => by
    simp [inBounds] at h
    simp only [List.zipWith_cons_cons, bcast_inBounds ds is h.2]
    by_cases hd : d = 1
    · have : i = 0 := by omega
      simp [hd, this]
    · simp [hd]

theorem bcast_ones (r : List Nat) : List.zipWith (fun i d => if d = 1 then 0 else i) r (List.replicate r.length 1)
    = List.replicate r.length 0 := by
  induction r with
  | nil => rfl
  | cons a as ih => simp [List.replicate_succ, ih]

theorem prod_ones (n : Nat) : prod (List.replicate n 1) = 1 := by
  induction n with
  | zero => rfl
  | succ n ih => simp [List.replicate_succ, prod, ih]

theorem ravel_ones_zeros (n : Nat) : ravel (List.replicate n 1) (List.replicate n 0) = 0 := by
  induction n with
  | zero => rfl
  | succ n ih => simp [List.replicate_succ, ravel, ih]

/-- inserting broadcast axes of size 1 (index 0) in the middle does not move the offset -/
theorem ravel_ones_middle (bs b fs f : List Nat) (n : Nat) (hb : b.length = bs.length) :
    ravel (bs ++ List.replicate n 1 ++ fs) (b ++ List.replicate n 0 ++ f) = ravel (bs ++ fs) (b ++ f) := by
  rw [ravel_append (bs ++ List.replicate n 1) (b ++ List.replicate n 0) fs f (by simp [hb]),
    ravel_append bs b (List.replicate n 1) (List.replicate n 0) hb, ravel_append bs b fs f hb,
    prod_ones, ravel_ones_zeros]
  simp

section
variable {R : Type} [Zero R] [Add R] [Mul R]

theorem expanded_shape (ax : List Nat) (sh : List Nat) (nb n : Nat) (hnb : nb ≤ n) (hge : ∀ a ∈ ax, nb ≤ a) (r : List Nat)
    (hr : r.length = ((List.range n).filter (fun a => !(ax.contains a) && !((List.range nb).contains a))).length) :
    ((List.range n).filter (fun a => !(ax.contains a))).map (fun a => if (List.range nb).contains a then nth sh a else 1)
      = (List.range nb).map (nth sh ·) ++ List.replicate r.length 1 := by
  obtain ⟨d, rfl⟩ : ∃ d, n = nb + d := ⟨n - nb, by omega⟩
  have hP : ∀ a, a < nb → (!(ax.contains a)) = true := by
    intro a ha
    have : a ∉ ax := fun h => by have := hge a h; omega
    simp [this]
  rw [filter_split_prefix (fun a => !(ax.contains a)) nb hP d, List.map_append]
  congr 1
  · apply List.map_congr_left
    intro a ha
    simp [List.mem_range.mp ha]
  · rw [hr]
    apply List.eq_replicate_iff.mpr
    refine ⟨by simp, ?_⟩
    intro v hv
    obtain ⟨a, ha, rfl⟩ := List.mem_map.mp hv
    have := (List.mem_filter.mp ha).2
    simp at this
    simp [this.2]

theorem denseGeneralCore_get_bias (axis batchDims : List Int) (x k b : Tensor R) (nb : Nat) (bidx r f feats : List Nat)
    (hbd : normalizeAxes x.rank batchDims = List.range nb) (hbl : bidx.length = nb)
    (hr : r.length = ((List.range x.rank).filter
            (fun a => !((normalizeAxes x.rank axis).contains a) && !((List.range nb).contains a))).length)
    (hkr : k.rank = nb + (normalizeAxes x.rank axis).length + f.length)
    (hnb : nb ≤ x.rank) (hge : ∀ a ∈ normalizeAxes x.rank axis, nb ≤ a)
    (hfeats : k.shape.drop (nb + (normalizeAxes x.rank axis).length) = feats)
    (hbs : b.shape = (List.range nb).map (nth x.shape ·) ++ feats)
    (hbi : inBounds ((List.range nb).map (nth x.shape ·)) bidx = true) (hfi : inBounds feats f = true)
    (hb : inBounds (denseGeneralCore axis batchDims x k (some b)).shape (bidx ++ r ++ f) = true) :
    (denseGeneralCore axis batchDims x k (some b)).get (bidx ++ r ++ f) =
      sumOver (indices ((normalizeAxes x.rank axis).map (nth x.shape ·))) (fun a =>
        x.get (scatterIdx x.rank ((List.range nb).zip bidx ++ (normalizeAxes x.rank axis).zip a) r) * k.get (bidx ++ a ++ f))
      + b.get (bidx ++ f) := by
  have hb0 : inBounds (denseGeneralCore axis batchDims x k none).shape (bidx ++ r ++ f) = true := hb
  have hout := denseGeneralCore_get_nobias axis batchDims x k nb bidx r f hbd hbl hr hkr hb0
  have hexp := expanded_shape (normalizeAxes x.rank axis) x.shape nb x.rank hnb hge r hr
  have hfl : f.length = feats.length := inBounds_length hfi
  have hbil : bidx.length = ((List.range nb).map (nth x.shape ·)).length := inBounds_length hbi
  simp only [denseGeneralCore, hbd, List.length_range, hfeats, hexp] at hb hout ⊢
  simp only [Tensor.ofFn] at hb
  rw [get_ofFn _ _ hb, hout]
  congr 1
  simp only [Tensor.reshape, Tensor.get, Tensor.getD]
  rw [List.zipWith_append (by simp [hbil]), List.zipWith_append (by simp [hbil]),
    bcast_inBounds _ _ hbi, bcast_inBounds _ _ hfi, bcast_ones, ravel_ones_middle _ _ _ _ _ hbil, hbs]
end

theorem repeat_last_axis {α : Type} (t : Tensor α) (keep : List Nat) (g gs : Nat) (d : α)
    (ht : t.shape = keep ++ [g]) (kidx : List Nat) (ch : Nat) (hk : inBounds keep kidx = true) (hch : ch < g * gs) :
    (repeatAxis t keep.length gs d).getD (kidx ++ [ch]) d = t.getD (kidx ++ [ch / gs]) d := by
  have hl := inBounds_length hk
  have hb : inBounds ((keep ++ [g]).set keep.length (nth (keep ++ [g]) keep.length * gs)) (kidx ++ [ch]) = true := by
    have : (keep ++ [g]).set keep.length (nth (keep ++ [g]) keep.length * gs) = keep ++ [g * gs] := by
      simp [nth, List.set_append_right]
    rw [this]
    exact inBounds_append keep kidx [g * gs] [ch] hk (by simp [inBounds, hch])
  simp only [repeatAxis, ht]
  rw [getD_ofFn _ _ _ hb]
  simp [nth, ← hl, List.set_append_right]

theorem ravel_filter (S I : Nat → Nat) (keep : Nat → Bool) : ∀ L : List Nat,
    (∀ a ∈ L, keep a = false → S a = 1 ∧ I a = 0) →
    ravel (L.map S) (L.map I) = ravel ((L.filter keep).map S) ((L.filter keep).map I) ∧
      prod (L.map S) = prod ((L.filter keep).map S)
  | [], _ => by simp
  | a :: L, h => by
    have ih := ravel_filter S I keep L (fun b hb => h b (List.mem_cons_of_mem _ hb))
    by_cases hk : keep a = true
    · simp [List.filter_cons, hk, ravel, prod, ih.1, ih.2]
    · have hk' : keep a = false := by simpa using hk
      have := h a (List.mem_cons_self) hk'
      simp [List.filter_cons, hk', ravel, prod, this.1, this.2, ih.1, ih.2]

theorem inBounds_map (S I : Nat → Nat) : ∀ L : List Nat, (∀ a ∈ L, I a < S a) → inBounds (L.map S) (L.map I) = true
  | [], _ => rfl
  | a :: L, h => by
    simp [inBounds, h a (List.mem_cons_self), inBounds_map S I L (fun b hb => h b (List.mem_cons_of_mem _ hb))]

theorem inBounds_nth : ∀ (shape idx : List Nat), inBounds shape idx = true → ∀ a, a < shape.length → nth idx a 0 < nth shape a
  | [], [], _, a, ha => by simp at ha
  | [], _ :: _, h, _, _ => by simp [inBounds] at h
  | _ :: _, [], h, _, _ => by simp [inBounds] at h
  | d :: ds, i :: is, h, 0, _ => by simp [inBounds] at h; simp [nth, h.1]
  | d :: ds, i :: is, h, a + 1, ha => by
    simp [inBounds] at h
    have := inBounds_nth ds is h.2 a (by simpa using ha)
    simpa [nth] using this

theorem eq_map_range_nth (l : List Nat) (d : Nat) : l = (List.range l.length).map (fun a => nth l a d) := by
  apply List.ext_getElem
  · simp
  · intro i h1 h2
    simp [nth, List.getD, h1]

theorem mem_indices_inBounds : ∀ (shape : List Nat) (n : Nat), n < prod shape → inBounds shape (unravel shape n) = true
  | [], _, _ => rfl
  | d :: ds, n, h => by
    simp only [prod] at h
    have hpos : 0 < prod ds := by
      rcases Nat.eq_zero_or_pos (prod ds) with h0 | h0
      · rw [h0] at h; simp at h
      · exact h0
    have h1 : n / prod ds < d := (Nat.div_lt_iff_lt_mul hpos).mpr h
    have h2 := mem_indices_inBounds ds (n % prod ds) (Nat.mod_lt _ hpos)
    simp [unravel, inBounds, h1, h2]

/-- the repeated statistics, read through the `statsShape` view at the broadcast index of `idx` -/
theorem groupnorm_view_get {α : Type} (sh redLead : List Nat) (n G gs : Nat) (T : Tensor α) (d : α) (idx : List Nat)
    (hn : sh.length = n) (hn1 : 1 ≤ n) (hlast : ∀ a ∈ redLead, a < n - 1)
    (hT : T.shape = ((List.range (n - 1)).filter (fun a => !(redLead.contains a))).map (nth sh ·) ++ [G])
    (hc : G * gs = nth sh (n - 1)) (hidx : inBounds sh idx = true) :
    ((repeatAxis T ((List.range (n - 1)).filter (fun a => !(redLead.contains a))).length gs d).reshape
        ((List.range n).map (fun a => if redLead.contains a then 1 else nth sh a))).getD
      (List.zipWith (fun i d => if d = 1 then 0 else i) idx ((List.range n).map (fun a => if redLead.contains a then 1 else nth sh a))) d
    = T.getD (((List.range (n - 1)).filter (fun a => !(redLead.contains a))).map (fun a => nth idx a 0) ++ [nth idx (n - 1) 0 / gs]) d := by
  set keepAx := (List.range (n - 1)).filter (fun a => !(redLead.contains a)) with hkeep
  have hil : idx.length = n := by rw [inBounds_length hidx, hn]
  have hlt : ∀ a, a < n → nth idx a 0 < nth sh a := fun a ha => inBounds_nth sh idx hidx a (by omega)
  -- the broadcast index as a map over positions
  let sS : Nat → Nat := fun a => if redLead.contains a then 1 else nth sh a
  let I : Nat → Nat := fun a => if sS a = 1 then 0 else nth idx a 0
  have hbc : List.zipWith (fun i d => if d = 1 then 0 else i) idx ((List.range n).map sS) = (List.range n).map I := by
    conv_lhs => rw [eq_map_range_nth idx 0, hil]
    rw [List.zipWith_map]
    simp [List.zipWith_self, I]
  -- drop the size-1 axes
  have hrf := ravel_filter sS I (fun a => !(redLead.contains a)) (List.range n) (by
    intro a _ hk
    have hm : a ∈ redLead := by simpa using hk
    simp [sS, I, hm])
  have hK : (List.range n).filter (fun a => !(redLead.contains a)) = keepAx ++ [n - 1] := by
    obtain ⟨m, rfl⟩ : ∃ m, n = m + 1 := ⟨n - 1, by omega⟩
    have hm : m ∉ redLead := fun h => by have := hlast m h; omega
    simp [List.range_succ, List.filter_append, hkeep, hm]
  have hmem_keep : ∀ a ∈ keepAx ++ [n - 1], redLead.contains a = false ∧ a < n := by
    intro a ha
    rw [← hK] at ha
    have := List.mem_filter.mp ha
    exact ⟨by simpa using this.2, List.mem_range.mp this.1⟩
  have hS : (keepAx ++ [n - 1]).map sS = keepAx.map (nth sh ·) ++ [nth sh (n - 1)] := by
    rw [← List.map_singleton (f := fun a => nth sh a), ← List.map_append]
    apply List.map_congr_left
    intro a ha
    have hm : a ∉ redLead := by simpa using (hmem_keep a ha).1
    simp [sS, hm]
  have hI : (keepAx ++ [n - 1]).map I = keepAx.map (fun a => nth idx a 0) ++ [nth idx (n - 1) 0] := by
    rw [← List.map_singleton (f := fun a => nth idx a 0), ← List.map_append]
    apply List.map_congr_left
    intro a ha
    have h1 := hmem_keep a ha
    have h2 := hlt a h1.2
    have hm : a ∉ redLead := by simpa using h1.1
    simp only [I, sS, h1.1]
    by_cases h : nth sh a = 1
    · simp [h]; omega
    · simp [h]
  have hravel : ravel ((List.range n).map sS) ((List.range n).map I)
      = ravel (keepAx.map (nth sh ·) ++ [nth sh (n - 1)]) (keepAx.map (fun a => nth idx a 0) ++ [nth idx (n - 1) 0]) := by
    rw [hrf.1, hK, hS, hI]
  -- shape of the repeated tensor
  have hrep : (repeatAxis T keepAx.length gs d).shape = keepAx.map (nth sh ·) ++ [nth sh (n - 1)] := by
    simp [repeatAxis, Tensor.ofFn, hT, nth, List.set_append_right, hc]
  have hkb : inBounds (keepAx.map (nth sh ·)) (keepAx.map (fun a => nth idx a 0)) = true := by
    apply inBounds_map
    intro a ha
    exact hlt a (hmem_keep a (List.mem_append_left _ ha)).2
  have hch : nth idx (n - 1) 0 < G * gs := by rw [hc]; exact hlt (n - 1) (by omega)
  have := repeat_last_axis T (keepAx.map (nth sh ·)) G gs d hT (keepAx.map (fun a => nth idx a 0)) (nth idx (n - 1) 0) hkb hch
  rw [hbc]
  simp only [List.length_map] at this
  rw [← this]
  simp only [Tensor.reshape, Tensor.getD, hrep]
  exact congrArg (fun o => (repeatAxis T keepAx.length gs d).data.getD o d) hravel

theorem groupNormCore_formula (x : Tensor Int) (numGroups : Nat) (red : List Nat) (useFast : Bool)
    (mask scale bias : Option (Tensor Int))
    (hn : 1 ≤ x.rank) (hlast : ∀ a ∈ red.dropLast, a < x.rank - 1)
    (hG : numGroups * (nth x.shape (x.rank - 1) / numGroups) = nth x.shape (x.rank - 1)) :
    groupNormCore x numGroups red useFast mask scale bias
        ((List.range (x.rank - 1)).filter (fun a => !(red.dropLast.contains a))).length =
      (indices x.shape).map (fun idx =>
        ⟨groupStatsAt x (nth x.shape (x.rank - 1) / numGroups) red.dropLast
            ((List.range (x.rank - 1)).filter (fun a => !(red.dropLast.contains a))) useFast mask
            (((List.range (x.rank - 1)).filter (fun a => !(red.dropLast.contains a))).map (fun a => nth idx a 0)
              ++ [nth idx (x.rank - 1) 0 / (nth x.shape (x.rank - 1) / numGroups)]),
         featureParam x.shape [x.rank - 1] scale 1 idx, featureParam x.shape [x.rank - 1] bias 0 idx⟩) := by
  simp only [groupNormCore]
  apply List.map_congr_left
  intro idx hidx
  have hib : inBounds x.shape idx = true := by
    simp only [indices, List.mem_map, List.mem_range] at hidx
    obtain ⟨i, hi, rfl⟩ := hidx
    exact mem_indices_inBounds _ _ hi
  congr 1
  set keepAx := (List.range (x.rank - 1)).filter (fun a => !(red.dropLast.contains a)) with hkeep
  set gs := nth x.shape (x.rank - 1) / numGroups with hgs
  have hview := groupnorm_view_get x.shape red.dropLast x.rank numGroups gs
    (Tensor.ofFn (keepAx.map (nth x.shape ·) ++ [numGroups]) (groupStatsAt x gs red.dropLast keepAx useFast mask))
    none idx rfl hn hlast rfl hG hib
  rw [hview]
  have hlt : ∀ a, a < x.rank → nth idx a 0 < nth x.shape a := fun a ha => inBounds_nth x.shape idx hib a ha
  have hkb : inBounds (keepAx.map (nth x.shape ·)) (keepAx.map (fun a => nth idx a 0)) = true := by
    apply inBounds_map
    intro a ha
    have := List.mem_range.mp (List.mem_filter.mp ha).1
    exact hlt a (by omega)
  have hch : nth idx (x.rank - 1) 0 < numGroups * gs := by rw [hG]; exact hlt _ (by omega)
  have hgpos : 0 < gs := by
    rcases Nat.eq_zero_or_pos gs with h0 | h0
    · rw [h0] at hch; simp at hch
    · exact h0
  have hq : nth idx (x.rank - 1) 0 / gs < numGroups := (Nat.div_lt_iff_lt_mul hgpos).mpr hch
  exact getD_ofFn _ _ _ (inBounds_append _ _ [numGroups] [_] hkb (by simp [inBounds, hq]))

theorem pairwise_dropLast_lt (l : List Nat) (m : Nat) (hp : l.Pairwise (· < ·)) (hl : l.getLast? = some m) :
    ∀ a ∈ l.dropLast, a < m := by
  intro a ha
  have e : l = l.dropLast ++ [m] := by
    obtain ⟨ys, rfl⟩ := List.getLast?_eq_some_iff.mp hl
    simp
  rw [e] at hp
  exact (List.pairwise_append.mp hp).2.2 a ha m (by simp)

theorem foldl_count {α : Type} (l : List (Option α)) (n : Nat) :
    l.foldl (fun acc s => acc + onesAt s) n = n + (l.filterMap id).length := by
  induction l generalizing n with
  | nil => simp
  | cons a as ih =>
    rw [List.foldl_cons, ih]
    cases a with
    | none => simp [onesAt]
    | some v => simp [onesAt]; omega

theorem extCombine_none_right (isMax : Bool) (a : Option Int) : extCombine isMax a none = a := by
  cases a <;> rfl

theorem extFold_filter {β : Type} (isMax : Bool) (g : β → Int) (l : List (Option β)) (acc : Option Int) :
    l.foldl (fun acc s => extCombine isMax acc (s.map g)) acc
      = (l.filterMap id).foldl (fun acc v => extCombine isMax acc (some (g v))) acc := by
  induction l generalizing acc with
  | nil => rfl
  | cons a as ih =>
    cases a with
    | none => simp [extCombine_none_right, ih]
    | some v => simp [ih]

theorem extFold_some {β : Type} (isMax : Bool) (g : β → Int) (l : List β) (u : Int) :
    l.foldl (fun acc v => extCombine isMax acc (some (g v))) (some u)
      = some (l.foldl (fun a b => if isMax then max a (g b) else min a (g b)) u) := by
  induction l generalizing u with
  | nil => rfl
  | cons a as ih =>
    have e : extCombine isMax (some u) (some (g a)) = some (if isMax then max u (g a) else min u (g a)) := rfl
    simp only [List.foldl_cons, e, ih]

theorem poolGeomGen_ok (orig : Bool) (shape window strides : List Nat) (pad : PoolPad) (r : Bool × List Nat × PoolGeom)
    (h : poolGeomGen orig shape window strides pad = .ok r) : r = poolGeomCore orig shape window strides pad := by
  simp only [poolGeomGen, bind, Except.bind, pure, Except.pure, throw, throwThe, MonadExceptOf.throw] at h
  repeat' split at h
  all_goals first | (cases h; rfl) | (exact absurd h (by simp)) | (injection h with h; exact h.symm)

end Flax.Layers
