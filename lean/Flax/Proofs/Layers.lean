/- helper lemmas for C12 (index arithmetic of row-major tensors) -/
import Flax.Model.Layers
import Mathlib.Tactic.Ring
import Mathlib.Tactic.Linarith

namespace Flax.Layers

theorem inBounds_length : ∀ {shape idx : List Nat}, inBounds shape idx = true → idx.length = shape.length
  | [], [], _ => rfl
  | [], _ :: _, h => by simp [inBounds] at h
  | _ :: _, [], h => by simp [inBounds] at h
  | _ :: ds, _ :: is, h => by
    simp [inBounds] at h
    simp [inBounds_length h.2]

theorem ravel_lt : ∀ {shape idx : List Nat}, inBounds shape idx = true → ravel shape idx < prod shape
  | [], [], _ => by simp [ravel, prod]
  | [], _ :: _, h => by simp [inBounds] at h
  | _ :: _, [], h => by simp [inBounds] at h
  | d :: ds, i :: is, h => by
    simp [inBounds] at h
    have h2 := ravel_lt h.2
    simp only [ravel, prod]
    calc i * prod ds + ravel ds is < i * prod ds + prod ds := by omega
      _ = (i + 1) * prod ds := by ring
      _ ≤ d * prod ds := Nat.mul_le_mul_right _ h.1

theorem unravel_ravel : ∀ {shape idx : List Nat}, inBounds shape idx = true → unravel shape (ravel shape idx) = idx
  | [], [], _ => rfl
  | [], _ :: _, h => by simp [inBounds] at h
  | _ :: _, [], h => by simp [inBounds] at h
  | d :: ds, i :: is, h => by
    simp [inBounds] at h
    have h2 := ravel_lt h.2
    have hpos : 0 < prod ds := by omega
    simp only [ravel, unravel]
    have e1 : (i * prod ds + ravel ds is) / prod ds = i := by
      rw [Nat.add_comm, Nat.add_mul_div_right _ _ hpos, Nat.div_eq_of_lt h2]; simp
    have e2 : (i * prod ds + ravel ds is) % prod ds = ravel ds is := by
      rw [Nat.add_comm, Nat.add_mul_mod_self_right, Nat.mod_eq_of_lt h2]
    rw [e1, e2, unravel_ravel h.2]

theorem indices_length (shape : List Nat) : (indices shape).length = prod shape := by
  simp [indices]

/-- the executable tensor built from an index function returns that function at every in-bounds index -/
theorem get_ofFn {R : Type} [Zero R] (shape : List Nat) (f : List Nat → R) {idx : List Nat}
    (h : inBounds shape idx = true) : (Tensor.ofFn shape f).get idx = f idx := by
  have hl := ravel_lt h
  simp only [Tensor.get, Tensor.getD, Tensor.ofFn, Array.getD_eq_getD_getElem?]
  simp [indices, hl, unravel_ravel h]

theorem getD_ofFn {α : Type} (shape : List Nat) (f : List Nat → α) (d : α) {idx : List Nat}
    (h : inBounds shape idx = true) : (Tensor.ofFn shape f).getD idx d = f idx := by
  have hl := ravel_lt h
  simp only [Tensor.getD, Tensor.ofFn, Array.getD_eq_getD_getElem?]
  simp [indices, hl, unravel_ravel h]

theorem prod_append (a b : List Nat) : prod (a ++ b) = prod a * prod b := by
  induction a with
  | nil => simp [prod]
  | cons d ds ih => simp [prod, ih, Nat.mul_assoc]

/-- offsets of concatenated indices: the leading block is scaled by the size of the trailing shape -/
theorem ravel_append : ∀ (bs b rs r : List Nat), b.length = bs.length →
    ravel (bs ++ rs) (b ++ r) = ravel bs b * prod rs + ravel rs r
  | [], [], rs, r, _ => by simp [ravel]
  | [], _ :: _, _, _, h => by simp at h
  | _ :: _, [], _, _, h => by simp at h
  | d :: ds, i :: is, rs, r, h => by
    simp at h
    simp only [List.cons_append, ravel, ravel_append ds is rs r h, prod_append]
    ring

theorem inBounds_append : ∀ (bs b rs r : List Nat), inBounds bs b = true → inBounds rs r = true →
    inBounds (bs ++ rs) (b ++ r) = true
  | [], [], _, _, _, h => by simpa using h
  | [], _ :: _, _, _, h, _ => by simp [inBounds] at h
  | _ :: _, [], _, _, h, _ => by simp [inBounds] at h
  | d :: ds, i :: is, rs, r, h, h2 => by
    simp [inBounds] at h
    simp [inBounds, h.1, inBounds_append ds is rs r h.2 h2]

theorem wrap_shift (n : Nat) (hn : 0 < n) (A : Int) (r : Nat) :
    ((A % n).toNat + r) % n = ((A + r) % n).toNat := by
  have h1 : 0 ≤ A % n := Int.emod_nonneg _ (by omega)
  have h2 : 0 ≤ (A + r) % n := Int.emod_nonneg _ (by omega)
  apply Int.ofNat_inj.mp
  rw [Int.toNat_of_nonneg h2]
  push_cast
  rw [Int.toNat_of_nonneg h1, Int.emod_add_emod]

theorem sumOver_congr {R α : Type} [Zero R] [Add R] (xs : List α) (f g : α → R) (h : ∀ a ∈ xs, f a = g a) :
    sumOver xs f = sumOver xs g := by
  simp only [sumOver]
  congr 1
  exact List.map_congr_left h

--SCATTER--

theorem indices_singleton (n : Nat) : indices [n] = (List.range n).map (fun i => [i]) := by
  simp [indices, unravel, prod]

theorem filter_last (r : Nat) (hr : 1 ≤ r) :
    (List.range r).filter (fun a => !([r - 1].contains a) && !(([] : List Nat).contains a)) = List.range (r - 1) := by
  obtain ⟨m, rfl⟩ : ∃ m, r = m + 1 := ⟨r - 1, by omega⟩
  simp only [Nat.add_sub_cancel, List.range_succ, List.filter_append]
  have : (List.range m).filter (fun a => !([m].contains a) && !(([] : List Nat).contains a)) = List.range m := by
    apply List.filter_eq_self.mpr
    intro a ha
    have : a ≠ m := by have := List.mem_range.mp ha; omega
    simp [this]
  rw [this]; simp

section
variable {R : Type} [Zero R] [Add R] [Mul R]

omit [Mul R] in
theorem sumOver_map (α β : Type) (xs : List α) (g : α → β) (f : β → R) : sumOver (xs.map g) f = sumOver xs (fun a => f (g a)) := by
  simp [sumOver, List.map_map, Function.comp_def]

theorem dotGeneral_last_get (x k : Tensor R) (lead : List Nat) (f : Nat)
    (hr : 1 ≤ x.rank) (hk : k.rank = 2) (hl : lead.length + 1 = x.rank)
    (hb : inBounds ((List.range (x.rank - 1)).map (nth x.shape ·) ++ [nth k.shape 1]) (lead ++ [f]) = true) :
    (dotGeneral x k [x.rank - 1] [0] [] []).get (lead ++ [f]) =
      sumOver (List.range (nth x.shape (x.rank - 1))) (fun j => x.get (lead ++ [j]) * k.get [j, f]) := by
  have hfl := filter_last x.rank hr
  have hkf : (List.range k.rank).filter (fun a => !([0].contains a) && !(([] : List Nat).contains a)) = [1] := by
    rw [hk]; decide
  simp only [dotGeneral, hfl, hkf, List.map_nil, List.nil_append, List.length_nil, List.map_cons]
  rw [get_ofFn _ _ (by simpa using hb)]
  have hll : lead.length = x.rank - 1 := by omega
  simp only [List.take_zero, List.drop_zero, List.length_map, List.length_range, Nat.zero_add,
    List.nil_append, ← hll, List.take_left', List.drop_left', indices_singleton, sumOver_map, List.zip_cons_cons,
    List.zip_nil_right]
  apply sumOver_congr
  intro j _
  rw [hll, scatter_last x.rank j lead hl, hk, scatter_kernel]
end

theorem mem_insertSorted (a b : Nat) (l : List Nat) : b ∈ insertSorted a l ↔ b = a ∨ b ∈ l := by
  induction l with
  | nil => simp [insertSorted]
  | cons c cs ih =>
    simp only [insertSorted]
    split
    · simp
    · simp [ih]; tauto

theorem mem_sortNat (a : Nat) (xs : List Nat) : a ∈ sortNat xs ↔ a ∈ xs := by
  induction xs with
  | nil => simp [sortNat]
  | cons c cs ih =>
    have : sortNat (c :: cs) = insertSorted c (sortNat cs) := rfl
    rw [this, mem_insertSorted, ih]; simp

theorem length_insertSorted (a : Nat) (l : List Nat) : (insertSorted a l).length = l.length + 1 := by
  induction l with
  | nil => simp [insertSorted]
  | cons c cs ih =>
    simp only [insertSorted]
    split <;> simp [ih]

theorem length_sortNat (xs : List Nat) : (sortNat xs).length = xs.length := by
  induction xs with
  | nil => simp [sortNat]
  | cons c cs ih =>
    have : sortNat (c :: cs) = insertSorted c (sortNat cs) := rfl
    rw [this, length_insertSorted, ih]; simp

theorem insertSorted_sorted (a : Nat) (l : List Nat) (h : l.Pairwise (· ≤ ·)) : (insertSorted a l).Pairwise (· ≤ ·) := by
  induction l with
  | nil => simp [insertSorted]
  | cons c cs ih =>
    simp only [insertSorted]
    have hc := List.pairwise_cons.mp h
    split
    · rename_i hle
      refine List.pairwise_cons.mpr ⟨?_, h⟩
      intro b hb
      rcases List.mem_cons.mp hb with rfl | hb
      · exact hle
      · exact Nat.le_trans hle (hc.1 b hb)
    · rename_i hnle
      refine List.pairwise_cons.mpr ⟨?_, ih hc.2⟩
      intro b hb
      rcases (mem_insertSorted a b cs).mp hb with rfl | hb
      · omega
      · exact hc.1 b hb

theorem sortNat_sorted (xs : List Nat) : (sortNat xs).Pairwise (· ≤ ·) := by
  induction xs with
  | nil => simp [sortNat]
  | cons c cs ih =>
    have : sortNat (c :: cs) = insertSorted c (sortNat cs) := rfl
    rw [this]; exact insertSorted_sorted c _ ih

theorem mem_dedupSorted (a : Nat) (l : List Nat) : a ∈ dedupSorted l ↔ a ∈ l := by
  fun_induction dedupSorted l with
  | case1 y rest ih => simp [ih]
  | case2 x y rest hne ih => simp [ih]
  | case3 xs h => rfl

theorem dedupSorted_strict (l : List Nat) (h : l.Pairwise (· ≤ ·)) : (dedupSorted l).Pairwise (· < ·) := by
  fun_induction dedupSorted l with
  | case1 y rest ih => exact ih (List.pairwise_cons.mp h).2
  | case2 x y rest hne ih =>
    have hc := List.pairwise_cons.mp h
    refine List.pairwise_cons.mpr ⟨?_, ih hc.2⟩
    intro b hb
    have hb' := (mem_dedupSorted b _).mp hb
    have hxy := hc.1 y (by simp)
    rcases List.mem_cons.mp hb' with rfl | hb''
    · omega
    · have := (List.pairwise_cons.mp hc.2).1 b hb''
      omega
  | case3 xs hx =>
    match xs, hx with
    | [], _ => simp
    | [a], _ => simp
    | a :: b :: r, hx => exact absurd rfl (fun e => hx a b r e)

end Flax.Layers
