/- helper lemmas about the array model of Flax.Model.LiftLoop (C06) -/
import Flax.Model.LiftLoop
import Flax.Proofs.LiftLoopAxes

set_option linter.unusedSectionVars false

namespace Flax.LiftLoop

/-- `idx` is a multi-index into an array of shape `sh` -/
def Valid : Ix → List Nat → Prop
  | [], [] => True
  | i :: is, d :: ds => i < d ∧ Valid is ds
  | _, _ => False

theorem mem_allIdx : ∀ (sh : List Nat) (idx : Ix), idx ∈ allIdx sh ↔ Valid idx sh := by
  intro sh
  induction sh with
  | nil => intro idx; cases idx <;> simp [allIdx, Valid]
  | cons d ds ih =>
    intro idx
    cases idx with
    | nil => simp [allIdx, Valid]
    | cons i is => simp [allIdx, Valid, ih]

theorem valid_length : ∀ {idx sh}, Valid idx sh → idx.length = sh.length := by
  intro idx
  induction idx with
  | nil => intro sh h; cases sh <;> simp_all [Valid]
  | cons i is ih =>
    intro sh h
    cases sh with
    | nil => simp [Valid] at h
    | cons d ds => simp [Valid] at h; simp [ih h.2]

theorem valid_iff : ∀ (idx sh : List Nat), Valid idx sh ↔
    (idx.length = sh.length ∧ ∀ k (h1 : k < idx.length) (h2 : k < sh.length), idx[k] < sh[k]) := by
  intro idx
  induction idx with
  | nil => intro sh; cases sh <;> simp [Valid]
  | cons i is ih =>
    intro sh
    cases sh with
    | nil => simp [Valid]
    | cons d ds =>
      simp only [Valid, ih, List.length_cons]
      constructor
      · rintro ⟨h0, hl, h⟩
        refine ⟨by omega, ?_⟩
        intro k h1 h2
        cases k with
        | zero => simpa using h0
        | succ k => simpa using h k (by omega) (by omega)
      · rintro ⟨hl, h⟩
        refine ⟨by simpa using h 0 (by omega) (by omega), by omega, ?_⟩
        intro k h1 h2
        have := h (k+1) (by omega) (by omega)
        simpa using this

theorem lookup_map_self {α : Type} (f : Ix → α) (k : Ix) : ∀ (l : List Ix),
    (l.map (fun i => (i, f i))).lookup k = if k ∈ l then some (f k) else none := by
  intro l
  induction l with
  | nil => simp
  | cons a l ih =>
    simp only [List.map_cons, List.lookup_cons, ih, List.mem_cons]
    by_cases h : k = a
    · subst h; simp
    · have : (k == a) = false := by simpa using h
      simp [this, h]

theorem valid_insertIdx : ∀ (n : Nat) (j sh : List Nat) (i : Nat) (h : n < sh.length),
    Valid j (sh.eraseIdx n) → i < sh[n] → Valid (j.insertIdx n i) sh := by
  intro n
  induction n with
  | zero =>
    intro j sh i h hv hi
    cases sh with
    | nil => simp at h
    | cons d ds => simp at hv hi ⊢; exact ⟨hi, hv⟩
  | succ n ih =>
    intro j sh i h hv hi
    cases sh with
    | nil => simp at h
    | cons d ds =>
      cases j with
      | nil => simp [Valid] at hv
      | cons j0 js =>
        simp [Valid] at hv hi ⊢
        exact ⟨hv.1, ih js ds i (by simpa using h) hv.2 hi⟩

theorem valid_eraseIdx : ∀ (n : Nat) (idx sh : List Nat), Valid idx sh →
    Valid (idx.eraseIdx n) (sh.eraseIdx n) := by
  intro n
  induction n with
  | zero =>
    intro idx sh hv
    cases idx <;> cases sh <;> simp_all [Valid]
  | succ n ih =>
    intro idx sh hv
    cases idx <;> cases sh <;> simp_all [Valid]

theorem valid_insertIdx' : ∀ (n : Nat) (j sh : List Nat) (i m : Nat), n ≤ sh.length →
    Valid j sh → i < m → Valid (j.insertIdx n i) (sh.insertIdx n m) := by
  intro n
  induction n with
  | zero => intro j sh i m _ hv hi; simp [Valid]; exact ⟨hi, hv⟩
  | succ n ih =>
    intro j sh i m h hv hi
    cases sh with
    | nil => simp at h
    | cons d ds =>
      cases j with
      | nil => simp [Valid] at hv
      | cons j0 js =>
        simp [Valid] at hv ⊢
        exact ⟨hv.1, ih js ds i m (by simpa using h) hv.2 hi⟩

theorem valid_getElem {idx sh : List Nat} (h : Valid idx sh) (k : Nat) (h2 : k < sh.length) :
    idx.getD k 0 < sh[k] := by
  have := (valid_iff idx sh).1 h
  have hk : k < idx.length := by omega
  rw [List.getD_eq_getElem?_getD, List.getElem?_eq_getElem hk]
  exact this.2 k hk h2

theorem idxOf_range' (a : Nat) : ∀ (m s : Nat), s ≤ a → a < s + m → (List.range' s m).idxOf a = a - s := by
  intro m
  induction m with
  | zero => intro s h1 h2; omega
  | succ m ih =>
    intro s h1 h2
    simp only [List.range'_succ, List.idxOf_cons]
    by_cases h : s = a
    · subst h; simp
    · have : (s == a) = false := by simpa using h
      simp only [this, cond_false]
      rw [ih (s+1) (by omega) (by omega)]
      omega

/-- index bookkeeping of `jnp.transpose` with the to-front permutation -/
theorem scatter_toFront (r n : Nat) (hn : n < r) (i0 : Nat) (rest : List Nat) (hr : rest.length + 1 = r) :
    (List.range (n :: (List.range r).eraseIdx n).length).map
      (fun a => (i0 :: rest).getD ((n :: (List.range r).eraseIdx n).idxOf a) 0) = rest.insertIdx n i0 := by
  have hlen : (n :: (List.range r).eraseIdx n).length = r := by
    simp [List.length_eraseIdx, hn]; omega
  rw [hlen]
  apply List.ext_getElem
  · simp only [List.length_map, List.length_range, List.length_insertIdx]; split <;> omega
  · intro a h1 h2
    have ha : a < r := by simpa using h1
    simp only [List.getElem_map, List.getElem_range]
    rw [range_eraseIdx r n hn, List.idxOf_cons]
    by_cases h : n = a
    · subst h
      simp [List.getElem_insertIdx_self]
    · have : (n == a) = false := by simpa using h
      simp only [this, cond_false, List.idxOf_append, List.mem_range']
      by_cases hlt : a < n
      · have hm : (∃ i, i < n ∧ a = 0 + 1 * i) := ⟨a, hlt, by omega⟩
        rw [if_pos hm, idxOf_range' a n 0 (by omega) (by omega)]
        rw [List.getElem_insertIdx_of_lt hlt]
        simp [List.getD_eq_getElem?_getD]
        rw [List.getElem?_eq_getElem (by omega)]; simp
      · have hm : ¬ (∃ i, i < n ∧ a = 0 + 1 * i) := by rintro ⟨i, hi, he⟩; omega
        rw [if_neg hm, idxOf_range' a _ (n+1) (by omega) (by omega)]
        rw [List.getElem_insertIdx_of_gt (by omega)]
        simp [List.getD_eq_getElem?_getD]
        have e : a - (n + 1) + n = a - 1 := by omega
        rw [e, List.getElem?_eq_getElem (by omega)]; simp

/-- index bookkeeping of `jnp.transpose` with the from-front permutation -/
theorem scatter_fromFront (r n : Nat) (hn : n < r) (j : List Nat) (hr : j.length = r) :
    (List.range (List.range' 1 n ++ [0] ++ List.range' (n+1) (r-n-1)).length).map
      (fun a => j.getD ((List.range' 1 n ++ [0] ++ List.range' (n+1) (r-n-1)).idxOf a) 0)
      = j.getD n 0 :: j.eraseIdx n := by
  have hlen : (List.range' 1 n ++ [0] ++ List.range' (n+1) (r-n-1)).length = r := by
    simp; omega
  rw [hlen]
  apply List.ext_getElem
  · simp [List.length_eraseIdx, hr, hn]; omega
  · intro a h1 h2
    have ha : a < r := by simpa using h1
    simp only [List.getElem_map, List.getElem_range]
    rw [List.append_assoc, List.idxOf_append]
    simp only [List.mem_range']
    cases a with
    | zero =>
      have hm : ¬ (∃ i, i < n ∧ 0 = 1 + 1 * i) := by rintro ⟨i, hi, he⟩; omega
      rw [if_neg hm]
      simp
    | succ a =>
      by_cases hlt : a < n
      · have hm : (∃ i, i < n ∧ a + 1 = 1 + 1 * i) := ⟨a, hlt, by omega⟩
        rw [if_pos hm, idxOf_range' (a+1) n 1 (by omega) (by omega)]
        simp [List.getD_eq_getElem?_getD, List.getElem_eraseIdx, hlt]
        rw [List.getElem?_eq_getElem (by omega)]; simp
      · have hm : ¬ (∃ i, i < n ∧ a + 1 = 1 + 1 * i) := by rintro ⟨i, hi, he⟩; omega
        rw [if_neg hm, List.idxOf_append]
        have hm2 : ¬ (a + 1 ∈ [0]) := by simp
        rw [if_neg hm2, idxOf_range' (a+1) _ (n+1) (by omega) (by omega)]
        simp [List.getD_eq_getElem?_getD, List.getElem_eraseIdx, hlt]
        have e : a - n + 1 + n = a + 1 := by omega
        rw [e, List.getElem?_eq_getElem (by omega)]; simp

theorem map_getD_of_permute {β : Type} (d : β) (xs : List β) : ∀ (q : List Nat) (ys : List β),
    permute q xs = some ys → q.map (fun k => xs.getD k d) = ys := by
  intro q
  induction q with
  | nil => intro ys h; simp [permute] at h; simp [h]
  | cons k ks ih =>
    intro ys h
    simp only [permute] at h
    cases hk : xs[k]? with
    | none => simp [hk] at h
    | some x =>
      cases hp : permute ks xs with
      | none => simp [hk, hp] at h
      | some r =>
        simp [hk, hp] at h
        subst h
        rw [List.map_cons, ih r hp, List.getD_eq_getElem?_getD, hk]
        rfl

namespace Arr
variable {α : Type} [Inhabited α]

theorem getD_ofFn {sh : List Nat} {idx : Ix} (f : Ix → α) (h : Valid idx sh) :
    (ofFn sh f).getD idx = f idx := by
  simp [getD, ofFn, lookup_map_self, (mem_allIdx sh idx).2 h]

theorem ofFn_congr {sh : List Nat} {f g : Ix → α} (h : ∀ idx, Valid idx sh → f idx = g idx) :
    ofFn sh f = ofFn sh g := by
  simp only [ofFn, Arr.mk.injEq, true_and]
  apply List.map_congr_left
  intro i hi
  rw [h i ((mem_allIdx sh i).1 hi)]

@[simp] theorem shape_ofFn (sh : List Nat) (f : Ix → α) : (ofFn sh f).shape = sh := rfl

theorem wf_ofFn [DecidableEq α] (sh : List Nat) (f : Ix → α) : WF (ofFn sh f) = true := by
  simp only [WF, shape_ofFn]
  exact decide_eq_true (ofFn_congr (fun idx h => (getD_ofFn f h).symm))

theorem eq_ofFn_of_wf [DecidableEq α] {A : Arr α} (h : WF A = true) : A = ofFn A.shape A.getD := by
  simpa [WF] using h


/-- the canonical permutation used by `toFront` and the resulting array -/
theorem toFront_eq (A : Arr α) (ax : Int) (n : Nat) (hn : normAxis A.rank ax = some n) (h0 : ax ≠ 0) :
    toFront ax A = .ok (transpose (n :: (List.range A.rank).eraseIdx n) A) := by
  have := toFront_canon hn
  simp only [toFront, h0, if_false]
  simp only [bind, Except.bind] at this ⊢
  cases hp : toFrontPerm A.rank ax with
  | error e => rw [hp] at this; cases this
  | ok p => rw [hp] at this; simp only at this ⊢; rw [this]

theorem fromFront_eq (A : Arr α) (ax : Int) (n : Nat) (hn : normAxis A.rank ax = some n) (h0 : ax ≠ 0) :
    fromFront ax A = .ok (transpose (List.range' 1 n ++ [0] ++ List.range' (n+1) (A.rank-n-1)) A) := by
  have := fromFront_canon hn
  simp only [fromFront, h0, if_false]
  simp only [bind, Except.bind] at this ⊢
  cases hp : fromFrontPerm A.rank ax with
  | error e => rw [hp] at this; cases this
  | ok p => rw [hp] at this; simp only at this ⊢; rw [this]

/-- **slice `i` of the to-front transposed array along axis 0 is slice `i` of the original along the
declared axis** (what `lax.scan` sees in iteration `i`) -/
theorem take_toFront (A : Arr α) (ax : Int) (n : Nat) (hn : normAxis A.rank ax = some n) :
    ∃ A', toFront ax A = .ok A' ∧ ∀ i, take A' 0 i = take A n i := by
  have hlt : n < A.shape.length := normAxis_lt hn
  by_cases h0 : ax = 0
  · subst h0
    have : n = 0 := by
      rw [normAxis_nonneg (by omega) (by unfold rank at *; omega)] at hn
      injection hn with hn; simpa using hn.symm
    subst this
    exact ⟨A, by simp [toFront], fun _ => rfl⟩
  · refine ⟨_, toFront_eq A ax n hn h0, ?_⟩
    intro i
    have hshape : (n :: (List.range A.rank).eraseIdx n).map (fun k => A.shape.getD k 0)
        = A.shape[n] :: A.shape.eraseIdx n :=
      map_getD_of_permute 0 A.shape _ _ (permute_toFront A.shape n hlt)
    simp only [take, transpose, shape_ofFn, hshape, List.getElem?_cons_zero,
      List.getElem?_eq_getElem hlt, List.eraseIdx_cons_zero]
    split
    · rename_i hi
      congr 1
      apply ofFn_congr
      intro j hj
      have hv : Valid (j.insertIdx 0 i) (A.shape[n] :: A.shape.eraseIdx n) := by
        simp [Valid]; exact ⟨hi, hj⟩
      rw [getD_ofFn _ hv]
      have hjl : j.length + 1 = A.rank := by
        have := valid_length hj
        simp [List.length_eraseIdx, hlt] at this
        unfold rank; omega
      have := scatter_toFront A.rank n hlt i j hjl
      simp only [List.insertIdx_zero]
      rw [this]
    · rfl

/-- **stacking per-iteration results along axis 0 and transposing from the front is stacking along the
declared axis** -/
theorem fromFront_stack (sh : List Nat) (ys : List (Arr α)) (ax : Int) (n : Nat)
    (hn : normAxis (sh.length + 1) ax = some n) (S : Arr α) (hS : stack sh 0 ys = .ok S) :
    fromFront ax S = stack sh n ys := by
  have hlt : n < sh.length + 1 := normAxis_lt hn
  simp only [stack, Nat.zero_le, true_and] at hS
  split at hS
  · rename_i hall
    injection hS with hS
    rw [List.insertIdx_zero] at hS
    have hs : S.shape = ys.length :: sh := by rw [← hS]; rfl
    have hrank : S.rank = sh.length + 1 := by simp [rank, hs]
    by_cases h0 : ax = 0
    · subst h0
      have : n = 0 := by
        rw [normAxis_nonneg (by omega) (by omega)] at hn
        injection hn with hn; simpa using hn.symm
      subst this
      simp only [fromFront, if_true, stack, Nat.zero_le, hall, and_self, List.insertIdx_zero, hS]
    · rw [fromFront_eq S ax n (by rw [hrank]; exact hn) h0]
      have hle : n ≤ sh.length := by omega
      simp only [stack, hle, hall, and_self, if_true]
      congr 1
      have hshape : (List.range' 1 n ++ [0] ++ List.range' (n+1) (S.rank-n-1)).map (fun k => S.shape.getD k 0)
          = sh.insertIdx n ys.length := by
        have hp := permute_fromFront ys.length sh n hle
        rw [hs, hrank]
        exact map_getD_of_permute 0 _ _ _ hp
      simp only [transpose, hshape]
      apply ofFn_congr
      intro j hj
      have hjl : j.length = S.rank := by
        have := valid_length hj
        simp [List.length_insertIdx, hle] at this
        omega
      rw [scatter_fromFront S.rank n (by omega) j hjl]
      have hv : Valid (j.getD n 0 :: j.eraseIdx n) (ys.length :: sh) := by
        refine ⟨?_, ?_⟩
        · have := valid_getElem hj n (by simp [List.length_insertIdx, hle]; omega)
          simpa [List.getElem_insertIdx_self] using this
        · have := valid_eraseIdx n _ _ hj
          simpa [List.eraseIdx_insertIdx_self] using this
      rw [← hS, getD_ofFn _ hv]
      simp
  · cases hS

/-- **slice `i` of a stack along axis `n` is the `i`-th stacked array** -/
theorem take_stack [DecidableEq α] (sh : List Nat) (n : Nat) (ys : List (Arr α)) (S : Arr α)
    (hS : stack sh n ys = .ok S) (hwf : ∀ y ∈ ys, WF y = true) (i : Nat) (hi : i < ys.length) :
    take S n i = .ok ys[i] := by
  simp only [stack] at hS
  split at hS
  · rename_i hc
    obtain ⟨hle, hall⟩ := hc
    injection hS with hS
    have hs : S.shape = sh.insertIdx n ys.length := by rw [← hS]; rfl
    have hn : n < (sh.insertIdx n ys.length).length := by simp [List.length_insertIdx, hle]; omega
    have hyi : ys[i].shape = sh := by
      have := List.all_eq_true.1 hall ys[i] (List.getElem_mem hi)
      simpa using this
    simp only [take, hs, List.getElem?_eq_getElem hn, List.getElem_insertIdx_self, hi, if_true,
      List.eraseIdx_insertIdx_self]
    congr 1
    rw [eq_ofFn_of_wf (hwf ys[i] (List.getElem_mem hi)), hyi]
    apply ofFn_congr
    intro j hj
    have hv : Valid (j.insertIdx n i) (sh.insertIdx n ys.length) := valid_insertIdx' n j sh i _ hle hj hi
    rw [← hS, getD_ofFn _ hv]
    have hjl : n ≤ j.length := by have := valid_length hj; omega
    have h1 : (j.insertIdx n i).getD n 0 = i := by
      rw [List.getD_eq_getElem?_getD, List.getElem?_eq_getElem (by simp [List.length_insertIdx, hjl]; omega)]
      simp [List.getElem_insertIdx_self]
    rw [h1, List.eraseIdx_insertIdx_self, List.getD_eq_getElem?_getD, List.getElem?_eq_getElem hi]
    simp
  · cases hS

end Arr
end Flax.LiftLoop
