/-
C09: no key is handed out twice in a run, for every module program including (nested) `nn.jit`-ted methods.
Every draw — a user draw or one of the draws `fork_rngs` makes — consumes a *ticket* (scope path, stream after fallback,
count); tickets are unique because counters only grow, and with the separator a key determines its ticket.
-/
import Flax.Proofs.RngLinenJit

namespace Flax.Rng

def NamesOK (l : List String) : Prop := ∀ n ∈ l, (0 : UInt8) ∉ strBytes n

/-- with the separator, `keyAt` is injective in (base, names, count) for NUL-free names and counts 1..255 -/
theorem keyAt_inj_sep (b b' : SymKey) (rel rel' : Path) (j j' : Nat) (hr : NamesOK rel) (hr' : NamesOK rel')
    (hj : 1 ≤ j ∧ j < 256) (hj' : 1 ≤ j' ∧ j' < 256) (h : keyAt true b rel j = keyAt true b' rel' j') :
    b = b' ∧ rel = rel' ∧ j = j' := by
  simp only [keyAt, SymKey.foldStatic.injEq] at h
  obtain ⟨hb, henc⟩ := h
  rw [encodeSuffix_true, encodeSuffix_true, map_datumBytes_suffixOf, map_datumBytes_suffixOf] at henc
  have hnb : ∀ j, 1 ≤ j ∧ j < 256 → (0 : UInt8) ∉ natBytes j := by
    intro j hj hm
    rw [natBytes_small j hj.1 hj.2] at hm
    simp only [List.mem_singleton] at hm
    have := congrArg UInt8.toNat hm
    simp [UInt8.toNat_ofNat'] at this
    omega
  have hc := joinZ_injective _ _ ?_ ?_ henc
  · obtain ⟨e1, e2⟩ := append_single_inj hc
    exact ⟨hb, map_strBytes_injective e1, natBytes_injective e2⟩
  · intro x hx
    simp only [List.mem_append, List.mem_map, List.mem_singleton] at hx
    rcases hx with ⟨n, hn, rfl⟩ | rfl
    · exact hr n hn
    · exact hnb j hj
  · intro x hx
    simp only [List.mem_append, List.mem_map, List.mem_singleton] at hx
    rcases hx with ⟨n, hn, rfl⟩ | rfl
    · exact hr' n hn
    · exact hnb j' hj'

/-- `Base k0 π0 b`: `b` is a base key installed at scope path `π0` that descends from the user seed `k0` through
zero or more `fork_rngs` -/
inductive Base : SymKey → Path → SymKey → Prop where
  | root (i : Nat) : Base (.seed i) [] (.seed i)
  | fork (k0 : SymKey) (π0 : Path) (b : SymKey) (rel : Path) (j : Nat) (π : Path) (x : SymKey) :
      Base k0 π0 b → NamesOK rel → 1 ≤ j → j < 256 → π = π0 ++ rel → x = keyAt true b rel j → Base k0 π x

theorem Base.functional {k0 k0' : SymKey} {π π' : Path} {x : SymKey} (h : Base k0 π x) (h' : Base k0' π' x) :
    k0 = k0' ∧ π = π' := by
  induction h generalizing k0' π' with
  | root i =>
    cases h' with
    | root => exact ⟨rfl, rfl⟩
    | fork k0'' π0' b' rel' j' _ _ hb' hr' h1' h2' hπ' hx' => simp [keyAt] at hx'
  | fork k0 π0 b rel j π x hb hr h1 h2 hπ hx ih =>
    cases h' with
    | root i => simp [keyAt] at hx
    | fork k0'' π0' b' rel' j' _ _ hb' hr' h1' h2' hπ' hx' =>
      rw [hx] at hx'
      obtain ⟨e1, e2, _⟩ := keyAt_inj_sep b b' rel rel' j j' hr hr' ⟨h1, h2⟩ ⟨h1', h2'⟩ hx'
      subst e1; subst e2
      obtain ⟨e3, e4⟩ := ih hb'
      subst e3; subst e4
      exact ⟨rfl, by rw [hπ, hπ']⟩

abbrev Ticket := Path × String × Nat

/-- key `x` was produced for ticket `t` = (scope path, stream after fallback, count) -/
def Tk (seeds : List (String × SymKey)) (x : SymKey) (t : Ticket) : Prop :=
  ∃ k0 π0 rel b, find? t.2.1 seeds = some k0 ∧ Base k0 π0 b ∧ t.1 = π0 ++ rel ∧ x = keyAt true b rel t.2.2 ∧
    NamesOK rel ∧ 1 ≤ t.2.2 ∧ t.2.2 < 256

/-- with the separator a key determines its ticket -/
theorem Tk.functional (seeds : List (String × SymKey)) (hvals : (seeds.map (·.2)).Nodup) {x : SymKey} {t t' : Ticket}
    (h : Tk seeds x t) (h' : Tk seeds x t') : t = t' := by
  obtain ⟨k0, π0, rel, b, hs, hb, hπ, hx, hr, h1, h2⟩ := h
  obtain ⟨k0', π0', rel', b', hs', hb', hπ', hx', hr', h1', h2'⟩ := h'
  rw [hx] at hx'
  obtain ⟨e1, e2, e3⟩ := keyAt_inj_sep b b' rel rel' _ _ hr hr' ⟨h1, h2⟩ ⟨h1', h2'⟩ hx'
  subst e1; subst e2
  obtain ⟨e4, e5⟩ := hb.functional hb'
  subst e4; subst e5
  have hst := find?_inj_of_nodup_vals seeds hvals _ _ _ hs hs'
  obtain ⟨π, s, j⟩ := t
  obtain ⟨π', s', j'⟩ := t'
  simp only at hπ hπ' hst e3
  rw [hπ, hπ', hst, e3]

theorem nodup_keys_of_tickets (seeds : List (String × SymKey)) (hvals : (seeds.map (·.2)).Nodup) :
    ∀ kts : List (SymKey × Ticket), (∀ p ∈ kts, Tk seeds p.1 p.2) → (kts.map (·.2)).Nodup → (kts.map (·.1)).Nodup := by
  intro kts
  induction kts with
  | nil => intro _ _; simp
  | cons a l ih =>
    intro htk hnd
    simp only [List.map_cons, List.nodup_cons] at hnd ⊢
    refine ⟨?_, ih (fun p hp => htk p (List.mem_cons_of_mem _ hp)) hnd.2⟩
    intro hm
    obtain ⟨q, hq, hqe⟩ := List.mem_map.mp hm
    have h1 := htk a (by simp)
    have h2 := htk q (List.mem_cons_of_mem _ hq)
    rw [hqe] at h2
    have := Tk.functional seeds hvals h2 h1
    exact hnd.1 (by rw [← this]; exact List.mem_map_of_mem hq)

/-- every base of `B` descends from the seed of its stream and was installed at path `π0` -/
def GoodB (seeds B : List (String × SymKey)) (π0 : Path) : Prop :=
  ∀ s b, find? s B = some b → ∃ k0, find? s seeds = some k0 ∧ Base k0 π0 b

def Prog.names : Prog → List String
  | .done => []
  | .draw _ rest => rest.names
  | .sub n body rest => n :: (body.names ++ rest.names)
  | .jit body rest => body.names ++ rest.names

/-- an upper bound on the tickets any one counter can issue: draws plus jit-ted calls -/
def Prog.size : Prog → Nat
  | .done => 0
  | .draw _ rest => 1 + rest.size
  | .sub _ body rest => body.size + rest.size
  | .jit body rest => 1 + body.size + rest.size

theorem bumpAll_le (c : Counts) (π : Path) (ns : List String) (π' : Path) (s : String) :
    c π' s ≤ bumpAll c π ns π' s ∧ bumpAll c π ns π' s ≤ c π' s + 1 := by
  unfold bumpAll; split <;> omega

theorem bump_le (c : Counts) (π : Path) (t : String) (π' : Path) (s : String) :
    c π' s ≤ bump c π t π' s ∧ bump c π t π' s ≤ c π' s + 1 := by
  unfold bump; split <;> omega

theorem specProg_bounds (cfg : Cfg) : ∀ (p : Prog) (B : List (String × SymKey)) (rel π : Path) (c : Counts)
    (ks : List SymKey) (c' : Counts), specProg cfg p B rel π c = .ok (ks, c') →
    ∀ π' s, c π' s ≤ c' π' s ∧ c' π' s ≤ c π' s + p.size := by
  intro p
  induction p with
  | done =>
    intro B rel π c ks c' h π' s
    simp only [specProg, Except.ok.injEq, Prod.mk.injEq] at h
    obtain ⟨_, rfl⟩ := h
    simp [Prog.size]
  | draw st rest ih =>
    intro B rel π c ks c' h π' s
    simp only [specProg] at h
    cases he : effOf cfg B st with
    | none => simp [he] at h
    | some sk =>
      obtain ⟨s', k⟩ := sk
      simp only [he] at h
      cases hr : specProg cfg rest B rel π (bump c π s') with
      | error e => simp [hr] at h
      | ok r =>
        obtain ⟨ks1, c1⟩ := r
        simp only [hr, Except.ok.injEq, Prod.mk.injEq] at h
        obtain ⟨_, rfl⟩ := h
        have h1 := ih B rel π _ ks1 c1 hr π' s
        have h2 := bump_le c π s' π' s
        simp only [Prog.size]; omega
  | sub n body rest ihb ihr =>
    intro B rel π c ks c' h π' s
    simp only [specProg] at h
    cases hb : specProg cfg body B (rel ++ [n]) (π ++ [n]) c with
    | error e => simp [hb] at h
    | ok r =>
      obtain ⟨k1, c1⟩ := r
      simp only [hb] at h
      cases hr : specProg cfg rest B rel π c1 with
      | error e => simp [hr] at h
      | ok r2 =>
        obtain ⟨k2, c2⟩ := r2
        simp only [hr, Except.ok.injEq, Prod.mk.injEq] at h
        obtain ⟨_, rfl⟩ := h
        have h1 := ihb B _ _ c k1 c1 hb π' s
        have h2 := ihr B _ _ c1 k2 c2 hr π' s
        simp only [Prog.size]; omega
  | jit body rest ihb ihr =>
    intro B rel π c ks c' h π' s
    simp only [specProg] at h
    cases hb : specProg cfg body (forkBases cfg.sep B rel π c) [] π (bumpAll c π (B.map (·.1))) with
    | error e => simp [hb] at h
    | ok r =>
      obtain ⟨k1, c1⟩ := r
      simp only [hb] at h
      cases hr : specProg cfg rest B rel π c1 with
      | error e => simp [hr] at h
      | ok r2 =>
        obtain ⟨k2, c2⟩ := r2
        simp only [hr, Except.ok.injEq, Prod.mk.injEq] at h
        obtain ⟨_, rfl⟩ := h
        have h0 := bumpAll_le c π (B.map (·.1)) π' s
        have h1 := ihb _ _ _ _ k1 c1 hb π' s
        have h2 := ihr B _ _ c1 k2 c2 hr π' s
        simp only [Prog.size]; omega

theorem find?_mem_names (B : List (String × SymKey)) (s : String) (b : SymKey) (h : find? s B = some b) :
    s ∈ B.map (·.1) := by
  induction B with
  | nil => simp at h
  | cons a l ih =>
    obtain ⟨n, k⟩ := a
    by_cases hn : n = s
    · simp [hn]
    · simp only [find?_cons, hn, if_false] at h
      simp [ih h]

/-- the stream after fallback, from the stream names alone -/
def effN (cfg : Cfg) (names : List String) (s : String) : Option String :=
  if s ∈ names then some s else if cfg.fallback ∈ names then some cfg.fallback else none

theorem find?_isSome_iff_mem (B : List (String × SymKey)) (s : String) : (find? s B).isSome = true ↔ s ∈ B.map (·.1) := by
  constructor
  · intro h
    obtain ⟨b, hb⟩ := Option.isSome_iff_exists.mp h
    exact find?_mem_names B s b hb
  · exact find?_isSome_of_mem_names B s

theorem effOf_effN (cfg : Cfg) (B : List (String × SymKey)) (s : String) :
    (effOf cfg B s).map (·.1) = effN cfg (B.map (·.1)) s := by
  unfold effOf effN
  cases h1 : find? s B with
  | some k =>
    have : s ∈ B.map (·.1) := (find?_isSome_iff_mem B s).mp (by simp [h1])
    simp [this]
  | none =>
    have hs : ¬ s ∈ B.map (·.1) := fun hm => by
      have := (find?_isSome_iff_mem B s).mpr hm
      simp [h1] at this
    cases h2 : find? cfg.fallback B with
    | some k =>
      have : cfg.fallback ∈ B.map (·.1) := (find?_isSome_iff_mem B _).mp (by simp [h2])
      simp only [hs, if_false, this, if_true, Option.map]
    | none =>
      have hf : ¬ cfg.fallback ∈ B.map (·.1) := fun hm => by
        have := (find?_isSome_iff_mem B _).mpr hm
        simp [h2] at this
      simp only [hs, hf, if_false, Option.map]

/-- the counters after a program, from the stream names alone (mirrors `specProg`) -/
def specCnt (cfg : Cfg) : Prog → List String → Path → Counts → Counts
  | .done, _, _, c => c
  | .draw s rest, names, π, c =>
    match effN cfg names s with
    | some s' => specCnt cfg rest names π (bump c π s')
    | none => c
  | .sub n body rest, names, π, c => specCnt cfg rest names π (specCnt cfg body names (π ++ [n]) c)
  | .jit body rest, names, π, c => specCnt cfg rest names π (specCnt cfg body names π (bumpAll c π names))

/-- the tickets of the keys a program hands out, in order (mirrors `specProg`) -/
def specTk (cfg : Cfg) : Prog → List String → Path → Counts → List Ticket
  | .done, _, _, _ => []
  | .draw s rest, names, π, c =>
    match effN cfg names s with
    | some s' => (π, s', c π s' + 1) :: specTk cfg rest names π (bump c π s')
    | none => []
  | .sub n body rest, names, π, c =>
    specTk cfg body names (π ++ [n]) c ++ specTk cfg rest names π (specCnt cfg body names (π ++ [n]) c)
  | .jit body rest, names, π, c =>
    specTk cfg body names π (bumpAll c π names) ++ specTk cfg rest names π (specCnt cfg body names π (bumpAll c π names))

theorem specProg_cnt (cfg : Cfg) : ∀ (p : Prog) (B : List (String × SymKey)) (rel π : Path) (c : Counts)
    (ks : List SymKey) (c' : Counts), specProg cfg p B rel π c = .ok (ks, c') → c' = specCnt cfg p (B.map (·.1)) π c := by
  intro p
  induction p with
  | done =>
    intro B rel π c ks c' h
    simp only [specProg, Except.ok.injEq, Prod.mk.injEq] at h
    exact h.2.symm
  | draw st rest ih =>
    intro B rel π c ks c' h
    simp only [specProg] at h
    have hn := effOf_effN cfg B st
    cases he : effOf cfg B st with
    | none => simp [he] at h
    | some sk =>
      obtain ⟨s', k⟩ := sk
      simp only [he] at h hn
      cases hr : specProg cfg rest B rel π (bump c π s') with
      | error e => simp [hr] at h
      | ok r =>
        obtain ⟨ks1, c1⟩ := r
        simp only [hr, Except.ok.injEq, Prod.mk.injEq] at h
        obtain ⟨_, rfl⟩ := h
        simp only [specCnt, ← hn, Option.map]
        exact ih B rel π _ ks1 c1 hr
  | sub n body rest ihb ihr =>
    intro B rel π c ks c' h
    simp only [specProg] at h
    cases hb : specProg cfg body B (rel ++ [n]) (π ++ [n]) c with
    | error e => simp [hb] at h
    | ok r =>
      obtain ⟨k1, c1⟩ := r
      simp only [hb] at h
      cases hr : specProg cfg rest B rel π c1 with
      | error e => simp [hr] at h
      | ok r2 =>
        obtain ⟨k2, c2⟩ := r2
        simp only [hr, Except.ok.injEq, Prod.mk.injEq] at h
        obtain ⟨_, rfl⟩ := h
        simp only [specCnt]
        rw [← ihb B _ _ c k1 c1 hb]
        exact ihr B rel π c1 k2 c2 hr
  | jit body rest ihb ihr =>
    intro B rel π c ks c' h
    simp only [specProg] at h
    cases hb : specProg cfg body (forkBases cfg.sep B rel π c) [] π (bumpAll c π (B.map (·.1))) with
    | error e => simp [hb] at h
    | ok r =>
      obtain ⟨k1, c1⟩ := r
      simp only [hb] at h
      cases hr : specProg cfg rest B rel π c1 with
      | error e => simp [hr] at h
      | ok r2 =>
        obtain ⟨k2, c2⟩ := r2
        simp only [hr, Except.ok.injEq, Prod.mk.injEq] at h
        obtain ⟨_, rfl⟩ := h
        simp only [specCnt]
        have := ihb _ _ _ _ k1 c1 hb
        rw [forkBases_names] at this
        rw [← this]
        exact ihr B rel π c1 k2 c2 hr

/-- the tickets of a run: each key with its ticket, tickets pairwise different and issued within (c, c'], and they are `specTk` -/
theorem specProg_tickets (cfg : Cfg) (hsep : cfg.sep = true) (seeds : List (String × SymKey)) :
    ∀ (p : Prog) (B : List (String × SymKey)) (rel π0 π : Path) (c : Counts) (ks : List SymKey) (c' : Counts),
      π = π0 ++ rel → specProg cfg p B rel π c = .ok (ks, c') → GoodB seeds B π0 → NamesOK rel → NamesOK p.names →
      (∀ π' s, c' π' s < 256) →
      ∃ kts : List (SymKey × Ticket), kts.map (·.1) = ks ∧ (∀ q ∈ kts, Tk seeds q.1 q.2) ∧ (kts.map (·.2)).Nodup ∧
        (∀ t ∈ kts.map (·.2), c t.1 t.2.1 < t.2.2 ∧ t.2.2 ≤ c' t.1 t.2.1) ∧
        kts.map (·.2) = specTk cfg p (B.map (·.1)) π c := by
  intro p
  induction p with
  | done =>
    intro B rel π0 π c ks c' _ h _ _ _ _
    simp only [specProg, Except.ok.injEq, Prod.mk.injEq] at h
    obtain ⟨rfl, rfl⟩ := h
    exact ⟨[], rfl, by simp, by simp, by simp, rfl⟩
  | draw st rest ih =>
    intro B rel π0 π c ks c' hπ h hgood hrel hnames hb
    simp only [specProg] at h
    cases he : effOf cfg B st with
    | none => simp [he] at h
    | some sk =>
      obtain ⟨s', k⟩ := sk
      simp only [he] at h
      cases hr : specProg cfg rest B rel π (bump c π s') with
      | error e => simp [hr] at h
      | ok r =>
        obtain ⟨ks1, c1⟩ := r
        simp only [hr, Except.ok.injEq, Prod.mk.injEq] at h
        obtain ⟨rfl, rfl⟩ := h
        obtain ⟨kts, hk1, hk2, hk3, hk4, hk5⟩ := ih B rel π0 π _ ks1 c1 hπ hr hgood hrel hnames hb
        obtain ⟨k0, hk0, hbase⟩ := hgood s' k (effOf_find cfg B st s' k he)
        have hmono := (specProg_bounds cfg rest B rel π _ ks1 c1 hr π s').1
        have hbump : bump c π s' π s' = c π s' + 1 := by simp [bump]
        have hlt := hb π s'
        refine ⟨(keyAt cfg.sep k rel (c π s' + 1), (π, s', c π s' + 1)) :: kts, by simp [hk1], ?_, ?_, ?_, ?_⟩
        · intro q hq
          rcases List.mem_cons.mp hq with rfl | hq
          · exact ⟨k0, π0, rel, k, hk0, hbase, hπ, by rw [hsep], hrel, by show 1 ≤ c π s' + 1; omega, by show c π s' + 1 < 256; omega⟩
          · exact hk2 q hq
        · simp only [List.map_cons, List.nodup_cons]
          refine ⟨?_, hk3⟩
          intro hm
          have := (hk4 _ hm).1
          simp only at this
          omega
        · intro t ht
          simp only [List.map_cons, List.mem_cons] at ht
          rcases ht with rfl | ht
          · simp only; omega
          · have h1 := hk4 t ht
            have h2 := bump_le c π s' t.1 t.2.1
            omega
        · have hn := effOf_effN cfg B st
          rw [he] at hn
          simp only [Option.map] at hn
          simp only [List.map_cons, specTk, ← hn, hk5]
  | sub n body rest ihb ihr =>
    intro B rel π0 π c ks c' hπ h hgood hrel hnames hb
    simp only [specProg] at h
    cases hbd : specProg cfg body B (rel ++ [n]) (π ++ [n]) c with
    | error e => simp [hbd] at h
    | ok r =>
      obtain ⟨k1, c1⟩ := r
      simp only [hbd] at h
      cases hr : specProg cfg rest B rel π c1 with
      | error e => simp [hr] at h
      | ok r2 =>
        obtain ⟨k2, c2⟩ := r2
        simp only [hr, Except.ok.injEq, Prod.mk.injEq] at h
        obtain ⟨rfl, rfl⟩ := h
        have hmono2 := specProg_bounds cfg rest B rel π c1 k2 c2 hr
        have hrel' : NamesOK (rel ++ [n]) := by
          intro m hm
          rcases List.mem_append.mp hm with hm | hm
          · exact hrel m hm
          · simp only [List.mem_singleton] at hm
            subst hm
            exact hnames m (by simp [Prog.names])
        obtain ⟨kt1, ha1, ha2, ha3, ha4, ha5⟩ := ihb B (rel ++ [n]) π0 (π ++ [n]) c k1 c1 (by rw [hπ, List.append_assoc]) hbd hgood hrel'
          (fun m hm => hnames m (by simp [Prog.names, hm])) (fun π' s => Nat.lt_of_le_of_lt (hmono2 π' s).1 (hb π' s))
        obtain ⟨kt2, hb1, hb2, hb3, hb4, hb5⟩ := ihr B rel π0 π c1 k2 c2 hπ hr hgood hrel
          (fun m hm => hnames m (by simp [Prog.names, hm])) hb
        have hmono1 := specProg_bounds cfg body B (rel ++ [n]) (π ++ [n]) c k1 c1 hbd
        refine ⟨kt1 ++ kt2, by simp [ha1, hb1], ?_, ?_, ?_, ?_⟩
        · intro q hq
          rcases List.mem_append.mp hq with hq | hq
          · exact ha2 q hq
          · exact hb2 q hq
        · rw [List.map_append, List.nodup_append]
          refine ⟨ha3, hb3, ?_⟩
          intro a ha b hbm hab
          subst hab
          have h1 := (ha4 a ha).2
          have h2 := (hb4 a hbm).1
          omega
        · intro t ht
          rw [List.map_append] at ht
          rcases List.mem_append.mp ht with ht | ht
          · have h1 := ha4 t ht
            have h2 := (hmono2 t.1 t.2.1).1
            omega
          · have h1 := hb4 t ht
            have h2 := (hmono1 t.1 t.2.1).1
            omega
        · rw [List.map_append, ha5, hb5, specProg_cnt cfg body B _ _ c k1 c1 hbd]
          simp only [specTk]
  | jit body rest ihb ihr =>
    intro B rel π0 π c ks c' hπ h hgood hrel hnames hb
    simp only [specProg] at h
    cases hbd : specProg cfg body (forkBases cfg.sep B rel π c) [] π (bumpAll c π (B.map (·.1))) with
    | error e => simp [hbd] at h
    | ok r =>
      obtain ⟨k1, c1⟩ := r
      simp only [hbd] at h
      cases hr : specProg cfg rest B rel π c1 with
      | error e => simp [hr] at h
      | ok r2 =>
        obtain ⟨k2, c2⟩ := r2
        simp only [hr, Except.ok.injEq, Prod.mk.injEq] at h
        obtain ⟨rfl, rfl⟩ := h
        have hmono2 := specProg_bounds cfg rest B rel π c1 k2 c2 hr
        have hmono1 := specProg_bounds cfg body _ [] π _ k1 c1 hbd
        have hgood' : GoodB seeds (forkBases cfg.sep B rel π c) π := by
          intro s b' hf
          rw [find?_forkBases] at hf
          cases hfb : find? s B with
          | none => simp [hfb] at hf
          | some b =>
            simp only [hfb, Option.map, Option.some.injEq] at hf
            obtain ⟨k0, hk0, hbase⟩ := hgood s b hfb
            refine ⟨k0, hk0, Base.fork k0 π0 b rel (c π s + 1) π b' hbase hrel (by omega) ?_ hπ (by rw [← hf, hsep])⟩
            have hmem := find?_mem_names B s b hfb
            have h1 : bumpAll c π (B.map (·.1)) π s = c π s + 1 := by simp [bumpAll, hmem]
            have h2 := (hmono1 π s).1
            have h3 := (hmono2 π s).1
            have h4 := hb π s
            omega
        obtain ⟨kt1, ha1, ha2, ha3, ha4, ha5⟩ := ihb _ [] π π _ k1 c1 (by simp) hbd hgood' (by intro m hm; simp at hm)
          (fun m hm => hnames m (by simp [Prog.names, hm])) (fun π' s => Nat.lt_of_le_of_lt (hmono2 π' s).1 (hb π' s))
        obtain ⟨kt2, hb1, hb2, hb3, hb4, hb5⟩ := ihr B rel π0 π c1 k2 c2 hπ hr hgood hrel
          (fun m hm => hnames m (by simp [Prog.names, hm])) hb
        refine ⟨kt1 ++ kt2, by simp [ha1, hb1], ?_, ?_, ?_, ?_⟩
        · intro q hq
          rcases List.mem_append.mp hq with hq | hq
          · exact ha2 q hq
          · exact hb2 q hq
        · rw [List.map_append, List.nodup_append]
          refine ⟨ha3, hb3, ?_⟩
          intro a ha b hbm hab
          subst hab
          have h1 := (ha4 a ha).2
          have h2 := (hb4 a hbm).1
          omega
        · intro t ht
          rw [List.map_append] at ht
          rcases List.mem_append.mp ht with ht | ht
          · have h1 := ha4 t ht
            have h2 := (hmono2 t.1 t.2.1).1
            have h3 := (bumpAll_le c π (B.map (·.1)) t.1 t.2.1).1
            omega
          · have h1 := hb4 t ht
            have h2 := (hmono1 t.1 t.2.1).1
            have h3 := (bumpAll_le c π (B.map (·.1)) t.1 t.2.1).1
            omega
        · have hc1 := specProg_cnt cfg body _ _ _ _ k1 c1 hbd
          rw [forkBases_names] at hc1 ha5
          rw [List.map_append, ha5, hb5, hc1]
          simp only [specTk]

/-- **no reuse, `nn.jit` included** (reference semantics) -/
theorem specProg_nodup (cfg : Cfg) (hsep : cfg.sep = true) (seeds : List (String × SymKey))
    (hatoms : ∀ s k, find? s seeds = some k → ∃ i, k = .seed i) (hvals : (seeds.map (·.2)).Nodup)
    (p : Prog) (hnames : NamesOK p.names) (hsize : p.size < 256) (ks : List SymKey) (c' : Counts)
    (h : specProg cfg p seeds [] [] (fun _ _ => 0) = .ok (ks, c')) : ks.Nodup := by
  have hb : ∀ π' s, c' π' s < 256 := by
    intro π' s
    have := (specProg_bounds cfg p seeds [] [] _ ks c' h π' s).2
    omega
  have hgood : GoodB seeds seeds [] := by
    intro s b hf
    obtain ⟨i, rfl⟩ := hatoms s b hf
    exact ⟨_, hf, Base.root i⟩
  obtain ⟨kts, h1, h2, h3, _⟩ := specProg_tickets cfg hsep seeds p seeds [] [] [] _ ks c' rfl h hgood
    (by intro m hm; simp at hm) hnames hb
  rw [← h1]
  exact nodup_keys_of_tickets seeds hvals kts h2 h3

end Flax.Rng
