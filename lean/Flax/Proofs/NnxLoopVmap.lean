/- C08 proofs: `nnx.vmap` — what every index sees, what is written back -/
import Flax.Proofs.NnxLoopSpec
import Flax.Proofs.NnxLoopCollect

namespace Flax.NnxLoop
open Flax.Filter Flax.LiftLoop

/-! ### inversion of `toTree` -/

theorem toTree_arr_ok {α : Type} {store : Store α} {p : Prefix} {a : Arr α} {rest : List (Prefix × Arg α)}
    {np : NodePrefixes} {seen : List VarId} {pure : List (PureArg α)}
    (h : toTree store ((p, .arr a) :: rest) np seen = .ok pure) :
    ∃ r, toTree store rest np seen = .ok r ∧ pure = .arr p a :: r := by
  simp only [toTree] at h
  cases hr : toTree store rest np seen with
  | error e => rw [hr] at h; cases h
  | ok r => rw [hr] at h; injection h with h; exact ⟨r, rfl, h.symm⟩

theorem toTree_node_ok {α : Type} {store : Store α} {p : Prefix} {es : List Entry} {rest : List (Prefix × Arg α)}
    {np : NodePrefixes} {seen : List VarId} {pure : List (PureArg α)}
    (h : toTree store ((p, .node es) :: rest) np seen = .ok pure) :
    ∃ np' flat sts r, checkAliasing p es np = .ok np' ∧
      flatOf (ownedOf es (markOwn es seen).1) store = .ok flat ∧ splitFlat p flat = .ok sts ∧
      toTree store rest np' (markOwn es seen).2 = .ok r ∧
      pure = .node ⟨es, (markOwn es seen).1⟩ p sts :: r := by
  simp only [toTree] at h
  cases h1 : checkAliasing p es np with
  | error e => simp [h1] at h
  | ok np' =>
    simp only [h1] at h
    cases h2 : flatOf (ownedOf es (markOwn es seen).1) store with
    | error e => simp [h2] at h
    | ok flat =>
      simp only [h2] at h
      cases h3 : splitFlat p flat with
      | error e => simp [h3] at h
      | ok sts =>
        simp only [h3] at h
        cases h4 : toTree store rest np' (markOwn es seen).2 with
        | error e => simp [h4] at h
        | ok r =>
          simp only [h4] at h
          injection h with h
          exact ⟨np', flat, sts, r, rfl, rfl, h3, h4, h.symm⟩

theorem WFArgs_tail {α : Type} {pa : Prefix × Arg α} {rest : List (Prefix × Arg α)} (h : WFArgs (pa :: rest)) :
    WFArgs rest := fun q hq => h q (List.mem_cons_of_mem _ hq)

theorem owned_paths_nodup {es : List Entry} (own : List Bool) (h : (es.map (·.path)).Nodup) :
    ((ownedOf es own).map (·.path)).Nodup :=
  ((ownedOf_sublist es own).map _).nodup h

/-- the flat state of the owned occurrences, as a map over them -/
theorem flatOf_eq_map {α : Type} {owned : List Entry} {st : Store α} {flat : Flat α}
    (h : flatOf owned st = .ok flat) :
    (∀ e ∈ owned, ∃ v, st.lookup e.id = some v ∧ (e.path, e.info, v) ∈ flat) ∧
    (∀ x ∈ flat, ∃ e ∈ owned, st.lookup e.id = some x.2.2 ∧ x.1 = e.path ∧ x.2.1 = e.info) := by
  constructor
  · intro e he
    obtain ⟨y, hy, hm⟩ := mapX_ok_mem h e he
    cases hv : st.lookup e.id with
    | none => simp [hv] at hy
    | some v => simp only [hv] at hy; injection hy with hy; exact ⟨v, rfl, hy ▸ hm⟩
  · intro x hx
    obtain ⟨e, he, hf⟩ := mapX_ok_mem_rev h x hx
    cases hv : st.lookup e.id with
    | none => simp [hv] at hf
    | some v =>
      simp only [hv] at hf
      injection hf with hf
      subst hf
      exact ⟨e, he, hv, rfl, rfl⟩

theorem mapX_append_of_ok {β γ : Type} {f : β → Except Err γ} : ∀ {l1 l2 : List β} {r1 r2 : List γ},
    mapX f l1 = .ok r1 → mapX f l2 = .ok r2 → mapX f (l1 ++ l2) = .ok (r1 ++ r2) := by
  intro l1
  induction l1 with
  | nil => intro l2 r1 r2 h1 h2; simp [mapX] at h1; subst h1; simpa using h2
  | cons x xs ih =>
    intro l2 r1 r2 h1 h2
    obtain ⟨y, ys, hx, hr, rfl⟩ := mapX_cons_ok h1
    exact mapX_cons_of_ok hx (ih hr h2)

/-! ### V1: what index `i` is called on -/

/-- **Every index is called on the per-Variable slices.**  After `to_tree` (aliasing check, split by first matching
filter under a shared `ref_index`), per-state slicing by jax.vmap and the inner `from_tree` (merge by path under a
shared `index_ref`), the traced function at index `i` sees — for every Variable reachable from the arguments, once, in
first-occurrence order — `take(value, i, axis)` if its prefix gives it an axis and the value itself if `None`; and the
array arguments sliced likewise. -/
theorem vmap_call_sees_slices {α : Type} [Inhabited α] (store : Store α) (i : Nat) :
    ∀ (pas : List (Prefix × Arg α)) (np : NodePrefixes) (seen : List VarId) (pure sl : List (PureArg α))
      (inner : Store α),
      WFArgs pas → toTree store pas np seen = .ok pure → mapX (sliceArg i) pure = .ok sl →
      inner.map (·.1) = seen →
      ∃ ins, mapX (sliceEntry store i) (ownedAll pas seen) = .ok ins ∧
        mergeAll sl inner = .ok (inner ++ ins) ∧
        mapX (sliceArr i) (arrArgs pas) = .ok (arraysOf sl) := by
  intro pas
  induction pas with
  | nil =>
    intro np seen pure sl inner _ ht hsl _
    simp only [toTree] at ht
    injection ht with ht
    subst ht
    simp only [mapX] at hsl
    injection hsl with hsl
    subst hsl
    exact ⟨[], rfl, by simp [mergeAll], rfl⟩
  | cons pa rest ih =>
    intro np seen pure sl inner hwf ht hsl hinv
    obtain ⟨p, arg⟩ := pa
    cases arg with
    | arr a =>
      obtain ⟨r, hr, rfl⟩ := toTree_arr_ok ht
      obtain ⟨y, ys, hy, hys, rfl⟩ := mapX_cons_ok hsl
      obtain ⟨ins, h1, h2, h3⟩ := ih np seen r ys inner (WFArgs_tail hwf) hr hys hinv
      cases p with
      | sa s => simp [sliceArg] at hy
      | ax ax =>
        simp only [sliceArg] at hy
        cases hv : sliceVal i ax a with
        | error e => rw [hv] at hy; cases hy
        | ok v' =>
          rw [hv] at hy
          injection hy with hy
          subst hy
          refine ⟨ins, by simpa [ownedAll] using h1, by simpa [mergeAll] using h2, ?_⟩
          simp only [arrArgs, arraysOf]
          exact mapX_cons_of_ok (by simp [sliceArr, hv]) h3
    | node es =>
      obtain ⟨np', flat, sts, r, hca, hfl, hsp, hr, rfl⟩ := toTree_node_ok ht
      obtain ⟨y, ys, hy, hys, rfl⟩ := mapX_cons_ok hsl
      simp only [sliceArg] at hy
      cases hst : mapX (fun q => sliceState i q.1 q.2) (p.axes.zip sts) with
      | error e => rw [hst] at hy; cases hy
      | ok sts' =>
        rw [hst] at hy
        injection hy with hy
        subst hy
        have hes : (es.map (·.path)).Nodup := hwf (p, .node es) (by simp) es rfl
        have hnd : (flat.map (·.1)).Nodup := by
          rw [flatOf_paths hfl]; exact owned_paths_nodup _ hes
        have hlk := leafwise_lookup hsp hnd (sliceVal i) (sts' := sts') hst
        obtain ⟨hfa, _⟩ := flatOf_eq_map hfl
        -- the value every owned occurrence is seen with
        let w : Entry → Arr α := fun e =>
          match sliceEntry store i (e, p) with
          | .ok iv => iv.2
          | .error _ => default
        have hown : ∀ e ∈ ownedOf es (markOwn es seen).1,
            sliceEntry store i (e, p) = .ok (e.id, w e) ∧ sts'.flatten.lookup e.path = some (w e) := by
          intro e he
          obtain ⟨v, hv, hm⟩ := hfa e he
          obtain ⟨a, v', ha, hv', hl⟩ := hlk _ hm
          have hat : p.at e = .ok a := (prefix_at_eq_axAt p e a).2 ha
          have hse : sliceEntry store i (e, p) = .ok (e.id, v') := by
            simp only [sliceEntry, hat, hv]
            simp only [] at hv'
            rw [hv']
          have hw : w e = v' := by simp only [w, hse]
          exact ⟨by rw [hw]; exact hse, by rw [hw]; exact hl⟩
        have hmerge := mergeEntries_markOwn w sts'.flatten es seen inner hinv (fun e he => (hown e he).2)
        have hinv' : (inner ++ (ownedOf es (markOwn es seen).1).map (fun e => (e.id, w e))).map (·.1)
            = (markOwn es seen).2 := by
          rw [markOwn_seen, List.map_append, hinv, List.map_map]; rfl
        obtain ⟨ins, h1, h2, h3⟩ := ih np' (markOwn es seen).2 r ys _ (WFArgs_tail hwf) hr hys hinv'
        refine ⟨(ownedOf es (markOwn es seen).1).map (fun e => (e.id, w e)) ++ ins, ?_, ?_, ?_⟩
        · simp only [ownedAll]
          apply mapX_append_of_ok _ h1
          rw [mapX_map]
          exact mapX_eq_map _ (fun e he => (hown e he).1)
        · simp only [mergeAll, hmerge]
          rw [h2, List.append_assoc]
        · simpa [arrArgs, arraysOf] using h3

/-! ### V2: what is written back -/

/-- a traversal whose steps are a composition: the intermediate results exist -/
theorem mapX_comp_ok {β γ δ : Type} {F : β → Except Err γ} {G : γ → Except Err δ} : ∀ {l : List β} {r : List δ},
    mapX (fun x => bindX (F x) G) l = .ok r → ∃ m, mapX F l = .ok m ∧ mapX G m = .ok r := by
  intro l
  induction l with
  | nil => intro r h; simp [mapX] at h; subst h; exact ⟨[], rfl, rfl⟩
  | cons x xs ih =>
    intro r h
    obtain ⟨y, ys, hx, hr, rfl⟩ := mapX_cons_ok h
    obtain ⟨m, hm1, hm2⟩ := ih hr
    cases hF : F x with
    | error e => simp [hF, bindX] at hx
    | ok z =>
      simp only [hF, bindX] at hx
      exact ⟨z :: m, mapX_cons_of_ok hF hm1, mapX_cons_of_ok hx hm2⟩

theorem splitArgOut_node {α : Type} (st : Store α) (g : GraphDef) (p : Prefix) (sts : List (State α)) :
    splitArgOut st (.node g p sts) = bindX (flatOf g.owned st) (splitFlat p) := by
  simp only [splitArgOut, bindX]
  cases flatOf g.owned st <;> rfl

/-- rows of per-argument results: head column and remaining columns -/
theorem rows_cons {σ β γ : Type} {F : σ → β → Except Err γ} {x : β} {r : List β} : ∀ {sts : List σ}
    {rows : List (List γ)}, mapX (fun st => mapX (F st) (x :: r)) sts = .ok rows →
    ∃ heads rows', mapX (fun st => F st x) sts = .ok heads ∧ mapX (fun st => mapX (F st) r) sts = .ok rows' ∧
      column 0 rows = .ok heads ∧ rows.map (·.drop 1) = rows' := by
  intro sts
  induction sts with
  | nil => intro rows h; simp [mapX] at h; subst h; exact ⟨[], [], rfl, rfl, rfl, rfl⟩
  | cons st sts ih =>
    intro rows h
    obtain ⟨y, ys, hy, hys, rfl⟩ := mapX_cons_ok h
    obtain ⟨h0, ht, hh, hr, rfl⟩ := mapX_cons_ok hy
    obtain ⟨heads, rows', e1, e2, e3, e4⟩ := ih hys
    refine ⟨h0 :: heads, ht :: rows', mapX_cons_of_ok hh e1, mapX_cons_of_ok hr e2, ?_, ?_⟩
    · simp only [column] at e3 ⊢
      exact mapX_cons_of_ok (by simp [pickX]) e3
    · subst e4; simp

theorem writeAll_append {α : Type} (v1 v2 : List (VarId × Arr α)) (store : Store α) :
    writeAll (v1 ++ v2) store = writeAll v2 (writeAll v1 store) := by
  simp [writeAll, List.foldl_append]

theorem foldl_set_eq_writeAll {α : Type} (w : Entry → Arr α) (owned : List Entry) (store : Store α) :
    owned.foldl (fun s e => s.set e.id (w e)) store = writeAll (owned.map (fun e => (e.id, w e))) store := by
  simp [writeAll, List.foldl_map]

/-- **Every Variable ends with its per-index values put together along its axis.**  `rows` are the states every index
returned for the arguments (inner `to_tree` of the objects after the call, `afters[i]` being the values the traced
function left at index `i`); `vmapWriteBack` stacks them state by state and writes them into the caller's Variables.
The result is: every reachable Variable, once, in first-occurrence order, is set to `collectVal axis [values over the
indices]` — the stack along its axis, or the shared value for `None`. -/
theorem vmap_write_back {α : Type} [Inhabited α] (store0 : Store α) :
    ∀ (pas : List (Prefix × Arg α)) (np : NodePrefixes) (seen : List VarId) (pure : List (PureArg α)),
      WFArgs pas → toTree store0 pas np seen = .ok pure →
      ∀ (a0 : Store α) (arest : List (Store α)) (rows : List (List (List (State α)))),
        mapX (fun st => mapX (splitArgOut st) pure) (a0 :: arest) = .ok rows →
        ∀ store store', vmapWriteBack rows pure store = .ok store' →
        ∃ vals, mapX (collectEntry (a0 :: arest)) (ownedAll pas seen) = .ok vals ∧ store' = writeAll vals store := by
  intro pas
  induction pas with
  | nil =>
    intro np seen pure _ ht a0 arest rows _ store store' hwb
    simp only [toTree] at ht
    injection ht with ht
    subst ht
    simp only [vmapWriteBack] at hwb
    injection hwb with hwb
    exact ⟨[], rfl, by simp [writeAll, hwb]⟩
  | cons pa rest ih =>
    intro np seen pure hwf ht a0 arest rows hrows store store' hwb
    obtain ⟨p, arg⟩ := pa
    cases arg with
    | arr a =>
      obtain ⟨r, hr, rfl⟩ := toTree_arr_ok ht
      obtain ⟨heads, rows', _, e2, _, e4⟩ := rows_cons hrows
      simp only [vmapWriteBack, e4] at hwb
      simpa [ownedAll] using ih np seen r (WFArgs_tail hwf) hr a0 arest rows' e2 store store' hwb
    | node es =>
      obtain ⟨np', flat, sts, r, hca, hfl, hsp, hr, rfl⟩ := toTree_node_ok ht
      obtain ⟨heads, rows', e1, e2, e3, e4⟩ := rows_cons hrows
      simp only [vmapWriteBack, e3, e4] at hwb
      cases hcs : vmapCollectStates p.axes heads with
      | error e => simp [hcs] at hwb
      | ok cs =>
        simp only [hcs] at hwb
        cases hus : updateStore (GraphDef.owned ⟨es, (markOwn es seen).1⟩) cs.flatten store with
        | error e => simp [hus] at hwb
        | ok store1 =>
          simp only [hus] at hwb
          -- the per-index flat states of this node
          simp only [splitArgOut_node, GraphDef.owned] at e1
          obtain ⟨flats, hflats, hheads⟩ := mapX_comp_ok e1
          obtain ⟨n0, frest, hn0, hfrest, rfl⟩ := mapX_cons_ok hflats
          have hes : (es.map (·.path)).Nodup := hwf (p, .node es) (by simp) es rfl
          have hnd : (n0.map (·.1)).Nodup := by rw [flatOf_paths hn0]; exact owned_paths_nodup _ hes
          have hkeys : ∀ fl ∈ n0 :: frest, fl.map (fun x => (x.1, x.2.1)) = n0.map (fun x => (x.1, x.2.1)) := by
            intro fl hfl
            obtain ⟨st, _, hst⟩ := mapX_ok_mem_rev hflats fl hfl
            rw [flatOf_infos hst, flatOf_infos hn0]
          have hlk := vmap_collect_lookup hnd hkeys hheads hcs
          obtain ⟨hfa, _⟩ := flatOf_eq_map hn0
          -- per owned occurrence: the collected value
          let w : Entry → Arr α := fun e =>
            match collectEntry (a0 :: arest) (e, p) with
            | .ok iv => iv.2
            | .error _ => default
          have hown : ∀ e ∈ ownedOf es (markOwn es seen).1,
              collectEntry (a0 :: arest) (e, p) = .ok (e.id, w e) ∧ cs.flatten.lookup e.path = some (w e) := by
            intro e he
            obtain ⟨v0, _, hm⟩ := hfa e he
            obtain ⟨a, vs, v, ha, hvs, hv, hl⟩ := hlk _ hm
            have hat : p.at e = .ok a := (prefix_at_eq_axAt p e a).2 ha
            -- the per-index values, read from the stores the calls left
            have hvals : mapX (fun (st : Store α) => st.getX e.id) (a0 :: arest) = .ok vs := by
              rw [← hvs]
              apply mapX_pointwise _ _ (by have := mapX_length hflats; omega)
              intro i h1 h2
              have hfi := mapX_ok_getElem hflats i h1 h2
              obtain ⟨hfa', _⟩ := flatOf_eq_map hfi
              obtain ⟨vi, hvi, hmi⟩ := hfa' e he
              have hndi : (((n0 :: frest)[i]).map (·.1)).Nodup := by
                rw [flatOf_paths hfi]; exact owned_paths_nodup _ hes
              have := valAt_of_mem hndi hmi
              simp only [] at this
              rw [this, Store.getX, hvi]
            have hce : collectEntry (a0 :: arest) (e, p) = .ok (e.id, v) := by
              simp only [collectEntry, hat, hvals, hv]
            have hw : w e = v := by simp only [w, hce]
            exact ⟨by rw [hw]; exact hce, by rw [hw]; exact hl⟩
          have hupd := updateStore_eq w cs.flatten (ownedOf es (markOwn es seen).1) store
            (fun e he => (hown e he).2)
          simp only [GraphDef.owned] at hus
          rw [hupd] at hus
          injection hus with hus
          obtain ⟨vals, hv1, hv2⟩ := ih np' (markOwn es seen).2 r (WFArgs_tail hwf) hr a0 arest rows' e2 store1 store' hwb
          refine ⟨(ownedOf es (markOwn es seen).1).map (fun e => (e.id, w e)) ++ vals, ?_, ?_⟩
          · simp only [ownedAll]
            apply mapX_append_of_ok _ hv1
            rw [mapX_map]
            exact mapX_eq_map _ (fun e he => (hown e he).1)
          · rw [writeAll_append, hv2, ← hus, foldl_set_eq_writeAll]

end Flax.NnxLoop
