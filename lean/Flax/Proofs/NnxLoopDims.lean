/- C08 proofs: `nnx.vmap` — the number of indices is the common size of every mapped leaf along its axis -/
import Flax.Proofs.NnxLoopVmap
import Flax.Proofs.LiftLoopScan

namespace Flax.NnxLoop
open Flax.Filter Flax.LiftLoop

section dims
variable {α : Type}

theorem vmapDims_cons {x : PureArg α} {r : List (PureArg α)} {dims : List Nat} (h : vmapDims (x :: r) = .ok dims) :
    ∃ dx dr, argDims x = .ok dx ∧ vmapDims r = .ok dr ∧ dims = dx ++ dr := by
  simp only [vmapDims] at h
  cases hm : mapX argDims (x :: r) with
  | error e => simp [hm] at h
  | ok ds =>
    simp only [hm] at h
    injection h with h
    obtain ⟨dx, dr, h1, h2, rfl⟩ := mapX_cons_ok hm
    exact ⟨dx, dr.flatten, h1, by simp [vmapDims, h2], by simp [← h]⟩

/-- **every mapped Variable contributes its size along its axis to jax.vmap's size check** -/
theorem vmapDims_mem (store : Store α) : ∀ (pas : List (Prefix × Arg α)) (np : NodePrefixes) (seen : List VarId)
    (pure : List (PureArg α)) (dims : List Nat), toTree store pas np seen = .ok pure → vmapDims pure = .ok dims →
    (∀ ep ∈ ownedAll pas seen, ∀ k, ep.2.at ep.1 = .ok (.axis k) →
      ∃ v d, store.lookup ep.1.id = some v ∧ dimAt k v = .ok d ∧ d ∈ dims) ∧
    (∀ pa ∈ arrArgs pas, ∀ k, pa.1 = .ax (.axis k) → ∃ d, dimAt k pa.2 = .ok d ∧ d ∈ dims) := by
  intro pas
  induction pas with
  | nil => intro np seen pure dims _ _; exact ⟨by simp [ownedAll], by simp [arrArgs]⟩
  | cons pa rest ih =>
    intro np seen pure dims ht hd
    obtain ⟨p, arg⟩ := pa
    cases arg with
    | arr a =>
      obtain ⟨r, hr, rfl⟩ := toTree_arr_ok ht
      obtain ⟨dx, dr, hx, hdr, rfl⟩ := vmapDims_cons hd
      obtain ⟨ih1, ih2⟩ := ih np seen r dr hr hdr
      refine ⟨?_, ?_⟩
      · intro ep hep k hk
        obtain ⟨v, d, h1, h2, h3⟩ := ih1 ep (by simpa [ownedAll] using hep) k hk
        exact ⟨v, d, h1, h2, List.mem_append_right _ h3⟩
      · intro pa hpa k hk
        simp only [arrArgs, List.mem_cons] at hpa
        rcases hpa with hpa | hpa
        · subst hpa
          simp only [] at hk
          subst hk
          simp only [argDims] at hx
          cases hda : liftL (dimAt k a) with
          | error e => simp [hda] at hx
          | ok d =>
            simp only [hda] at hx
            injection hx with hx
            exact ⟨d, liftL_ok.1 hda, by simp [← hx]⟩
        · obtain ⟨d, h1, h2⟩ := ih2 pa hpa k hk
          exact ⟨d, h1, List.mem_append_right _ h2⟩
    | node es =>
      obtain ⟨np', flat, sts, r, hca, hfl, hsp, hr, rfl⟩ := toTree_node_ok ht
      obtain ⟨dx, dr, hx, hdr, rfl⟩ := vmapDims_cons hd
      obtain ⟨ih1, ih2⟩ := ih np' _ r dr hr hdr
      refine ⟨?_, ?_⟩
      · intro ep hep k hk
        simp only [ownedAll, List.mem_append, List.mem_map] at hep
        rcases hep with ⟨e, he, rfl⟩ | hep
        · simp only [] at hk ⊢
          obtain ⟨hfa, _⟩ := flatOf_eq_map hfl
          obtain ⟨v, hv, hm⟩ := hfa e he
          obtain ⟨hlen, hmem, hlt⟩ := splitFlat_spec hsp
          have hg := hlt _ hm
          simp only [] at hg
          have hga : groupIdx p e.path e.info < p.axes.length := by omega
          have hax : p.axes[groupIdx p e.path e.info] = .axis k := by
            have := (prefix_at_eq_axAt p e (.axis k)).1 hk
            simp only [axAt, List.getElem?_eq_getElem hga] at this
            exact Option.some.inj this
          simp only [argDims, statesDims] at hx
          cases hm2 : mapX (fun q => stateDims q.1 q.2) (p.axes.zip sts) with
          | error e' => simp [hm2] at hx
          | ok ds =>
            simp only [hm2] at hx
            injection hx with hx
            obtain ⟨_, hst⟩ := mapX_zip_states (F := fun a s => stateDims a s) hm2 hlen
            obtain ⟨dg, hdg, hF⟩ := hst _ _ _ (List.getElem?_eq_getElem hga) (List.getElem?_eq_getElem hg)
            rw [hax] at hF
            simp only [stateDims] at hF
            have hin : (e.path, v) ∈ sts[groupIdx p e.path e.info] :=
              (hmem _ _ (List.getElem?_eq_getElem hg) _).2 ⟨_, hm, rfl, rfl⟩
            obtain ⟨d, hd1, hd2⟩ := mapX_ok_mem hF _ hin
            refine ⟨v, d, hv, liftL_ok.1 hd1, List.mem_append_left _ ?_⟩
            rw [← hx]
            exact List.mem_flatten.2 ⟨dg, List.mem_of_getElem? hdg, hd2⟩
        · obtain ⟨v, d, h1, h2, h3⟩ := ih1 ep hep k hk
          exact ⟨v, d, h1, h2, List.mem_append_right _ h3⟩
      · intro pa hpa k hk
        obtain ⟨d, h1, h2⟩ := ih2 pa (by simpa [arrArgs] using hpa) k hk
        exact ⟨d, h1, List.mem_append_right _ h2⟩

/-- … so, when jax.vmap's check passes with `n`, every mapped Variable and every mapped array argument has size `n`
along its axis, and an explicit `axis_size` is `n` -/
theorem vmap_sizes_eq_n (store : Store α) (pas : List (Prefix × Arg α)) (pure : List (PureArg α)) (dims : List Nat)
    (axisSize : Option Nat) (n : Nat) (ht : toTree store pas [] [] = .ok pure) (hd : vmapDims pure = .ok dims)
    (hn : jaxLength axisSize dims = .ok n) :
    (∀ ep ∈ ownedAll pas [], ∀ k, ep.2.at ep.1 = .ok (.axis k) →
      ∃ v, store.lookup ep.1.id = some v ∧ dimAt k v = .ok n) ∧
    (∀ pa ∈ arrArgs pas, ∀ k, pa.1 = .ax (.axis k) → dimAt k pa.2 = .ok n) ∧
    (∀ m, axisSize = some m → m = n) := by
  obtain ⟨h1, h2⟩ := vmapDims_mem store pas [] [] pure dims ht hd
  have hall := jaxLength_all hn
  refine ⟨?_, ?_, ?_⟩
  · intro ep hep k hk
    obtain ⟨v, d, e1, e2, e3⟩ := h1 ep hep k hk
    exact ⟨v, e1, by rw [← hall d e3]; exact e2⟩
  · intro pa hpa k hk
    obtain ⟨d, e1, e2⟩ := h2 pa hpa k hk
    rw [← hall d e2]; exact e1
  · intro m hm
    subst hm
    simp only [jaxLength] at hn
    split at hn
    · injection hn
    · cases hn

end dims

end Flax.NnxLoop
