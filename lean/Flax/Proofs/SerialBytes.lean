/-
`from_bytes ∘ to_bytes`: the ext-type encoding of leaves and the state dict ↔ msgpack value
conversion are inverse, and the whole pipeline round-trips (`Flax/Model/Serial.lean`).
-/
import Flax.Proofs.SerialChunk
import Flax.Proofs.Msgpack

namespace Flax.Serial
open Flax.Msgpack

/-! ### UTF-8 -/

theorem fromUTF8_toUTF8 (s : String) : String.fromUTF8? s.toUTF8 = some s := by
  have h : s.toUTF8.IsValidUTF8 := s.isValidUTF8
  simp only [String.fromUTF8?, h, ↓reduceDIte, Option.some.injEq]
  rfl

/-- `s.encode('utf-8').decode('utf-8') == s` -/
theorem fromUtf8_utf8 (s : String) : fromUtf8 (utf8 s) = some s := by
  simp only [fromUtf8, utf8, List.map_map]
  have : (UInt8.ofNat ∘ UInt8.toNat) = id := by
    funext x; simp
  rw [this, List.map_id, Array.toArray_toList]
  exact fromUTF8_toUTF8 s

/-! ### what fits the wire format -/

/-- an array whose msgpack encoding respects the format's limits -/
def NdArray.packable (a : NdArray) : Prop :=
  a.shape.length < 2 ^ 32 ∧ (∀ d ∈ a.shape, d < 2 ^ 64) ∧ (utf8 a.dtype).length < 2 ^ 32 ∧
  a.data.length < 2 ^ 32 ∧ (ndToBytes a).length < 2 ^ 32

def Leaf.packable : Leaf → Prop
  | .none => True
  | .bool _ => True
  | .int i => -(2 ^ 63 : Int) ≤ i ∧ i < (2 ^ 64 : Int)
  | .float bits => bits < 2 ^ 64
  | .complex re im => re < 2 ^ 64 ∧ im < 2 ^ 64
  | .str s => (utf8 s).length < 2 ^ 32
  | .bytes b => b.length < 2 ^ 32
  | .ndarray a => a.packable
  | .npscalar dtype data => NdArray.packable { dtype := dtype, shape := [], data := data }

mutual
  /-- a state dict msgpack can carry: leaves within the format's limits, fewer than `2^32` entries
  per dict, keys distinct and shorter than `2^32` bytes -/
  def STree.packable : STree → Prop
    | .leaf v => v.packable
    | .dict kvs => kvs.length < 2 ^ 32 ∧ (keys kvs).Nodup ∧ packableKvs kvs
  def packableKvs : List (String × STree) → Prop
    | [] => True
    | (k, v) :: r => (utf8 k).length < 2 ^ 32 ∧ v.packable ∧ packableKvs r
end

/-! ### leaves -/

theorem wf_dims : ∀ (shape : List Nat), (∀ d ∈ shape, d < 2 ^ 64) →
    WFList (shape.map (fun (d : Nat) => MVal.int (d : Int)))
  | [], _ => by simp [WFList]
  | d :: r, h => by
    have hd := h d (by simp)
    simp only [List.map_cons, WFList, MVal.WF]
    refine ⟨⟨by omega, by omega⟩, wf_dims r (fun x hx => h x (by simp [hx]))⟩

theorem allSome_dims : ∀ (shape : List Nat),
    allSome asNatM (shape.map (fun (d : Nat) => MVal.int (d : Int))) = some shape
  | [] => rfl
  | d :: r => by simp [allSome, asNatM, allSome_dims r]

theorem ndFromBytes_ndToBytes (a : NdArray) (h : a.packable) : ndFromBytes (ndToBytes a) = some a := by
  obtain ⟨h1, h2, h3, h4, _⟩ := h
  have hwf : (MVal.arr [.arr (a.shape.map (fun (d : Nat) => MVal.int (d : Int))), .str (utf8 a.dtype), .bin a.data]).WF := by
    simp only [MVal.WF, WFList, List.length_cons, List.length_nil, List.length_map]
    exact ⟨by omega, ⟨h1, wf_dims a.shape h2⟩, h3, h4, trivial⟩
  simp only [ndFromBytes, ndToBytes, unpack_pack _ hwf, allSome_dims, asRaw, fromUtf8_utf8]

theorem extToLeaf_leafToM (v : Leaf) (h : v.packable) :
    (match leafToM v with
      | .ext code data => extToLeaf code data
      | _ => none) = (match v with
      | .complex _ _ => some v
      | .ndarray _ => some v
      | .npscalar _ _ => some v
      | _ => none) := by
  cases v with
  | complex re im =>
    simp only [Leaf.packable] at h
    have hwf : (MVal.arr [.f64 re, .f64 im]).WF := by
      simp only [MVal.WF, WFList, List.length_cons, List.length_nil]
      exact ⟨by omega, h.1, h.2, trivial⟩
    simp [leafToM, extToLeaf, unpack_pack _ hwf]
  | ndarray a =>
    simp only [Leaf.packable] at h
    simp [leafToM, extToLeaf, ndFromBytes_ndToBytes a h]
  | npscalar dtype data =>
    simp only [Leaf.packable] at h
    simp [leafToM, extToLeaf, ndFromBytes_ndToBytes _ h]
  | _ => simp [leafToM]

theorem ofM_leafToM (v : Leaf) (h : v.packable) : ofM (leafToM v) = some (.leaf v) := by
  cases v with
  | none => simp [leafToM, ofM]
  | bool b => simp [leafToM, ofM]
  | int i => simp [leafToM, ofM]
  | float b => simp [leafToM, ofM]
  | str s => simp [leafToM, ofM, fromUtf8_utf8]
  | bytes b => simp [leafToM, ofM]
  | complex re im =>
    have := extToLeaf_leafToM (.complex re im) h
    simp only [leafToM] at this
    simp [leafToM, ofM, this]
  | ndarray a =>
    have := extToLeaf_leafToM (.ndarray a) h
    simp only [leafToM] at this
    simp [leafToM, ofM, this]
  | npscalar d b =>
    have := extToLeaf_leafToM (.npscalar d b) h
    simp only [leafToM] at this
    simp [leafToM, ofM, this]

theorem wf_leafToM (v : Leaf) (h : v.packable) : (leafToM v).WF := by
  cases v with
  | none => simp [leafToM, MVal.WF]
  | bool b => simp [leafToM, MVal.WF]
  | int i => simpa [leafToM, MVal.WF, Leaf.packable] using h
  | float b => simpa [leafToM, MVal.WF, Leaf.packable] using h
  | str s => simpa [leafToM, MVal.WF, Leaf.packable] using h
  | bytes b => simpa [leafToM, MVal.WF, Leaf.packable] using h
  | complex re im =>
    simp only [leafToM, MVal.WF]
    refine ⟨by omega, ?_⟩
    simp [pack, packList, arrHdr, length_be]
  | ndarray a =>
    simp only [Leaf.packable] at h
    simp only [leafToM, MVal.WF]
    exact ⟨by omega, h.2.2.2.2⟩
  | npscalar d b =>
    simp only [Leaf.packable] at h
    simp only [leafToM, MVal.WF]
    exact ⟨by omega, h.2.2.2.2⟩

/-! ### dicts -/

theorem dictSet_append_new {α} : ∀ (acc : List (String × α)) (k : String) (v : α), k ∉ keys acc →
    dictSet acc k v = acc ++ [(k, v)]
  | [], _, _, _ => rfl
  | (k0, v0) :: r, k, v, h => by
    simp only [keys, List.map_cons, List.mem_cons, not_or] at h
    have hne : ¬ k0 = k := fun e => h.1 e.symm
    simp only [dictSet, hne, ↓reduceIte, List.cons_append, List.cons.injEq, true_and]
    exact dictSet_append_new r k v (by simpa [keys] using h.2)

theorem mkDict_go {α} : ∀ (pairs acc : List (String × α)), (keys (acc ++ pairs)).Nodup →
    pairs.foldl (fun acc kv => dictSet acc kv.1 kv.2) acc = acc ++ pairs
  | [], acc, _ => by simp
  | (k, v) :: r, acc, h => by
    have hk : k ∉ keys acc := by
      simp only [keys, List.map_append, List.map_cons] at h
      have := (List.nodup_append.mp h).2.2
      intro hm
      exact this k (by simpa [keys] using hm) k (by simp) rfl
    simp only [List.foldl_cons, dictSet_append_new acc k v hk]
    rw [mkDict_go r (acc ++ [(k, v)]) (by simpa using h)]
    simp

/-- filling a Python dict pair by pair with distinct keys keeps the pairs as they are -/
theorem mkDict_nodup {α} (pairs : List (String × α)) (h : (keys pairs).Nodup) : mkDict pairs = pairs := by
  have := mkDict_go pairs [] (by simpa using h)
  simpa [mkDict] using this

theorem length_toMKvs : ∀ (kvs : List (String × STree)), (toMKvs kvs).length = kvs.length
  | [] => rfl
  | (k, v) :: r => by simp [toMKvs, length_toMKvs r]

mutual
  theorem ofM_toM : ∀ (s : STree), s.packable → ofM (toM s) = some s ∧ (toM s).WF
    | .leaf v, h => by
      simp only [STree.packable] at h
      exact ⟨by simpa [toM] using ofM_leafToM v h, by simpa [toM] using wf_leafToM v h⟩
    | .dict kvs, h => by
      simp only [STree.packable] at h
      have := ofMKvs_toMKvs kvs h.2.2
      refine ⟨?_, ?_⟩
      · simp [toM, ofM, this.1, mkDict_nodup kvs h.2.1]
      · simp only [toM, MVal.WF, length_toMKvs]
        exact ⟨h.1, this.2⟩
  theorem ofMKvs_toMKvs : ∀ (kvs : List (String × STree)), packableKvs kvs →
      ofMKvs (toMKvs kvs) = some kvs ∧ WFPairs (toMKvs kvs)
    | [], _ => by simp [toMKvs, ofMKvs, WFPairs]
    | (k, v) :: r, h => by
      simp only [packableKvs] at h
      have h1 := ofM_toM v h.2.1
      have h2 := ofMKvs_toMKvs r h.2.2
      refine ⟨by simp [toMKvs, ofMKvs, fromUtf8_utf8, h1.1, h2.1], ?_⟩
      simp only [toMKvs, WFPairs, MVal.WF]
      exact ⟨h.1, h1.2, h2.2⟩
end

/-! ### the pipelines -/

/-- `msgpack_restore(msgpack_serialize(state))` gives the state back, for every threshold -/
theorem restore_serialize (T : Nat) (isz : String → Nat) (s : STree)
    (hnm : s.noMarker = true) (hok : s.arraysOk isz) (hp : (chunkLeaves T isz s).packable) :
    msgpackRestore (msgpackSerialize T isz s) = .ok s := by
  have h1 := ofM_toM _ hp
  simp [msgpackRestore, msgpackSerialize, unpack_pack _ h1.2, h1.1, unchunk_chunk_tree T isz s hnm hok]


/-! ### hypotheses on the pytree rather than on its state dict -/

mutual
  /-- no dict key / field name of the pytree is the reserved key `__msgpack_chunked_array__` -/
  def Tree.noMarker : Tree → Bool
    | .leaf _ => true
    | .dict kvs => !decide (marker ∈ keys kvs) && tnmFields kvs
    | .fdict kvs => !decide (marker ∈ keys kvs) && tnmFields kvs
    | .list xs => tnmList xs
    | .tuple xs => tnmList xs
    | .named _ fs => !decide (marker ∈ keys fs) && tnmFields fs
    | .struct _ fs _ => !decide (marker ∈ keys fs) && tnmFields fs
  def tnmFields : List (String × Tree) → Bool
    | [] => true
    | (_, v) :: r => v.noMarker && tnmFields r
  def tnmList : List Tree → Bool
    | [] => true
    | x :: r => x.noMarker && tnmList r
end

mutual
  /-- every array leaf of the pytree satisfies NumPy's invariant -/
  def Tree.arraysOk (isz : String → Nat) : Tree → Prop
    | .leaf (.ndarray a) => a.ok isz
    | .leaf _ => True
    | .dict kvs => taokFields isz kvs
    | .fdict kvs => taokFields isz kvs
    | .list xs => taokList isz xs
    | .tuple xs => taokList isz xs
    | .named _ fs => taokFields isz fs
    | .struct _ fs _ => taokFields isz fs
  def taokFields (isz : String → Nat) : List (String × Tree) → Prop
    | [] => True
    | (_, v) :: r => v.arraysOk isz ∧ taokFields isz r
  def taokList (isz : String → Nat) : List Tree → Prop
    | [] => True
    | x :: r => x.arraysOk isz ∧ taokList isz r
end

/-- a decimal index is never the reserved key -/
theorem idx_ne_marker (i : Nat) : idx i ≠ marker := by
  intro h
  have h1 : (idx i).isNat = true := Nat.isNat_repr i
  rw [h] at h1
  have h2 := (String.isNat_iff.mp h1).2.2.2.1
  exact h2 (by decide)

theorem marker_notin_toSDList : ∀ (xs : List Tree) (i : Nat), marker ∉ keys (toSDList i xs)
  | [], _ => by simp [toSDList, keys]
  | x :: r, i => by
    have := marker_notin_toSDList r (i + 1)
    simp only [keys] at this
    simp only [toSDList, keys, List.map_cons, List.mem_cons, not_or]
    exact ⟨fun e => idx_ne_marker i e.symm, this⟩

mutual
  theorem noMarker_toStateDict : ∀ (t : Tree), t.noMarker = true → (toStateDict t).noMarker = true
    | .leaf v, _ => by simp [toStateDict, STree.noMarker]
    | .dict kvs, h => by
      simp only [Tree.noMarker, Bool.and_eq_true] at h
      simp [toStateDict, STree.noMarker, keys_toSDFields, h.1, noMarker_fields kvs h.2]
    | .fdict kvs, h => by
      simp only [Tree.noMarker, Bool.and_eq_true] at h
      simp [toStateDict, STree.noMarker, keys_toSDFields, h.1, noMarker_fields kvs h.2]
    | .list xs, h => by
      simp only [Tree.noMarker] at h
      simp [toStateDict, STree.noMarker, marker_notin_toSDList xs 0, noMarker_list xs 0 h]
    | .tuple xs, h => by
      simp only [Tree.noMarker] at h
      simp [toStateDict, STree.noMarker, marker_notin_toSDList xs 0, noMarker_list xs 0 h]
    | .named _ fs, h => by
      simp only [Tree.noMarker, Bool.and_eq_true] at h
      simp [toStateDict, STree.noMarker, keys_toSDFields, h.1, noMarker_fields fs h.2]
    | .struct _ fs _, h => by
      simp only [Tree.noMarker, Bool.and_eq_true] at h
      simp [toStateDict, STree.noMarker, keys_toSDFields, h.1, noMarker_fields fs h.2]
  theorem noMarker_fields : ∀ (kvs : List (String × Tree)), tnmFields kvs = true → nmKvs (toSDFields kvs) = true
    | [], _ => by simp [toSDFields, nmKvs]
    | (k, v) :: r, h => by
      simp only [tnmFields, Bool.and_eq_true] at h
      simp [toSDFields, nmKvs, noMarker_toStateDict v h.1, noMarker_fields r h.2]
  theorem noMarker_list : ∀ (xs : List Tree) (i : Nat), tnmList xs = true → nmKvs (toSDList i xs) = true
    | [], _, _ => by simp [toSDList, nmKvs]
    | x :: r, i, h => by
      simp only [tnmList, Bool.and_eq_true] at h
      simp [toSDList, nmKvs, noMarker_toStateDict x h.1, noMarker_list r (i + 1) h.2]
end

mutual
  theorem arraysOk_toStateDict (isz : String → Nat) : ∀ (t : Tree), t.arraysOk isz → (toStateDict t).arraysOk isz
    | .leaf v, h => by
      cases v <;> simpa [toStateDict, STree.arraysOk, Tree.arraysOk] using h
    | .dict kvs, h => by
      simp only [Tree.arraysOk] at h
      simpa [toStateDict, STree.arraysOk] using arraysOk_fields isz kvs h
    | .fdict kvs, h => by
      simp only [Tree.arraysOk] at h
      simpa [toStateDict, STree.arraysOk] using arraysOk_fields isz kvs h
    | .list xs, h => by
      simp only [Tree.arraysOk] at h
      simpa [toStateDict, STree.arraysOk] using arraysOk_list isz xs 0 h
    | .tuple xs, h => by
      simp only [Tree.arraysOk] at h
      simpa [toStateDict, STree.arraysOk] using arraysOk_list isz xs 0 h
    | .named _ fs, h => by
      simp only [Tree.arraysOk] at h
      simpa [toStateDict, STree.arraysOk] using arraysOk_fields isz fs h
    | .struct _ fs _, h => by
      simp only [Tree.arraysOk] at h
      simpa [toStateDict, STree.arraysOk] using arraysOk_fields isz fs h
  theorem arraysOk_fields (isz : String → Nat) : ∀ (kvs : List (String × Tree)), taokFields isz kvs →
      aokKvs isz (toSDFields kvs)
    | [], _ => by simp [toSDFields, aokKvs]
    | (k, v) :: r, h => by
      simp only [taokFields] at h
      simp only [toSDFields, aokKvs]
      exact ⟨arraysOk_toStateDict isz v h.1, arraysOk_fields isz r h.2⟩
  theorem arraysOk_list (isz : String → Nat) : ∀ (xs : List Tree) (i : Nat), taokList isz xs →
      aokKvs isz (toSDList i xs)
    | [], _, _ => by simp [toSDList, aokKvs]
    | x :: r, i, h => by
      simp only [taokList] at h
      simp only [toSDList, aokKvs]
      exact ⟨arraysOk_toStateDict isz x h.1, arraysOk_list isz r (i + 1) h.2⟩
end

/-! ### the pre-2022 namedtuple encoding -/

theorem keys_zip_take (names : List String) (vals : List STree) (i : Nat) (hlen : names.length = vals.length) :
    keys ((names.zip vals).take i) = names.take i := by
  simp only [keys]
  rw [List.map_take, List.map_fst_zip (by omega)]

theorem legacyLoop_spec (names : List String) (vals : List STree) (hlen : names.length = vals.length)
    (hnd : names.Nodup) : ∀ (n i : Nat), i + n = names.length →
    legacyLoop (.dict (enumL 0 (names.map (fun nm => STree.leaf (.str nm))))) (.dict (enumL 0 vals)) n i
      ((names.zip vals).take i) = .ok (names.zip vals)
  | 0, i, h => by
    simp only [legacyLoop]
    rw [List.take_of_length_le (by simp [List.length_zip]; omega)]
  | n + 1, i, h => by
    have hi : i < names.length := by omega
    have hi' : i < vals.length := by omega
    have h1 : lookup (idx i) (enumL 0 (names.map (fun nm => STree.leaf (.str nm)))) = some (.leaf (.str names[i])) := by
      have := lookup_enumL (names.map (fun nm => STree.leaf (.str nm))) 0 i
      simp only [Nat.zero_add] at this
      rw [this]; simp [hi]
    have h2 : lookup (idx i) (enumL 0 vals) = some vals[i] := by
      have := lookup_enumL vals 0 i
      simp only [Nat.zero_add] at this
      rw [this]; simp [hi']
    simp only [legacyLoop, getItem, h1, h2]
    have hnew : names[i] ∉ keys ((names.zip vals).take i) := by
      rw [keys_zip_take names vals i hlen]
      intro hm
      obtain ⟨j, hj, hje⟩ := List.getElem_of_mem hm
      simp only [List.length_take] at hj
      rw [List.getElem_take] at hje
      have := (List.getElem_inj hnd).mp hje
      omega
    rw [dictSet_append_new _ _ _ hnew]
    have : (names.zip vals).take i ++ [(names[i], vals[i])] = (names.zip vals).take (i + 1) := by
      rw [List.take_add_one]
      congr 1
      have : (names.zip vals)[i]? = some (names[i], vals[i]) := by
        rw [List.getElem?_zip_eq_some]; simp [hi, hi']
      rw [this]; rfl
    rw [this]
    exact legacyLoop_spec names vals hlen hnd n (i + 1) (by omega)

end Flax.Serial
