/- C03 helper lemmas: `pop` with arbitrary filters in DFS order — first matching encounter, later references removed -/
import Flax.Proofs.GraphPopAny
import Flax.Proofs.GraphPopFirst
set_option linter.unusedSimpArgs false
set_option linter.unusedVariables false
namespace Flax.Graph
open Flax.Heap
open Flax.Filter (NFilter)

/-! ### `pop` with arbitrary filters, in DFS order

`enc` (the encounters of the DFS of `flatten`, GraphFirst.lean) is also the order in which `_graph_pop`
meets references.  An encounter `(b, q)` *matches* when `b` is a Variable and some predicate holds for
`(q, b)`.  The theorems below say: a Variable is popped iff it has a matching encounter; it is returned
under the path of its FIRST matching encounter; and the attribute of every encounter at or after that one
is removed. -/

section PopOrder
variable (preds : List NFilter) (h0 : Heap) (root0 : PVal)

/-- some predicate matches the Variable `e.1` at the path `e.2` -/
def encMatches (e : Addr × Path) : Bool :=
  match h0[e.1]? with
  | some (.var ty val md) => decide (bucketOf preds (e.2, Leaf.vstate ty val md) < preds.length)
  | _ => false

def encPred (b : Addr) (e : Addr × Path) : Bool := decide (e.1 = b) && encMatches preds h0 e

/-- `b` has a matching encounter in `E` -/
def popped (E : Log) (b : Addr) : Bool := E.any (encPred preds h0 b)

/-- the path of the first matching encounter of `b` -/
def firstM (E : Log) (b : Addr) : Option Path := (E.find? (encPred preds h0 b)).map (·.2)

/-- the node `a` has no attribute `k` (any more) -/
def KeyGone (hp : Heap) (a : Addr) (k : Key) : Prop :=
  ∀ cls live, hp[a]? = some (.node cls live) → ∀ kv ∈ live, kv.1 ≠ k

variable {preds h0 root0}

theorem popped_append (E X : Log) (b : Addr) : popped preds h0 (E ++ X) b = (popped preds h0 E b || popped preds h0 X b) := by
  simp [popped, List.any_append]

theorem firstM_append (E X : Log) (b : Addr) :
    firstM preds h0 (E ++ X) b = (firstM preds h0 E b).or (firstM preds h0 X b) := by
  simp only [firstM, List.find?_append]
  cases List.find? (encPred preds h0 b) E <;> simp

theorem firstM_none_iff (E : Log) (b : Addr) : firstM preds h0 E b = Option.none ↔ popped preds h0 E b = false := by
  simp [firstM, popped, List.find?_eq_none, List.any_eq_false]

theorem firstM_stable {E : Log} {b : Addr} {q : Path} (X : Log) (h : firstM preds h0 E b = some q) :
    firstM preds h0 (E ++ X) b = some q := by
  rw [firstM_append, h]; rfl

theorem firstM_some_of_popped {E : Log} {b : Addr} (h : popped preds h0 E b = true) : ∃ q, firstM preds h0 E b = some q := by
  cases hf : firstM preds h0 E b with
  | none => rw [(firstM_none_iff E b).mp hf] at h; cases h
  | some q => exact ⟨q, rfl⟩

theorem KeyGone.mono {hp hp' : Heap} {a : Addr} {k : Key} (s : PShape hp hp') (g : KeyGone hp a k) : KeyGone hp' a k := by
  intro cls live' hg kv hkv
  have hlt : a < hp.length := by rw [s.len]; exact (List.getElem?_eq_some_iff.mp hg).1
  cases ho : hp[a]? with
  | none => rw [List.getElem?_eq_getElem hlt] at ho; cases ho
  | some o =>
    cases o with
    | var ty val md => have := (s.var a ty val md).mp ho; rw [hg] at this; cases this
    | node c live =>
      obtain ⟨l2, hl2, hsub⟩ := s.node a c live ho
      rw [hg] at hl2; cases hl2
      exact g _ live ho kv (hsub kv hkv)

theorem keyGone_erase (hp : Heap) (a : Addr) (k : Key) : KeyGone (eraseAttr hp a k) a k := by
  intro cls live hg kv hkv
  cases ho : hp[a]? with
  | none => simp only [eraseAttr, ho] at hg; cases hg
  | some o =>
    cases o with
    | var ty val md => simp only [eraseAttr, ho] at hg; cases hg
    | node c l =>
      rw [eraseAttr_self k ho] at hg; cases hg
      exact (mem_eraseKV.mp hkv).2

theorem snoc_decomp {α : Type} {E E1 E2 : List α} {e x : α} (h : E ++ [e] = E1 ++ x :: E2) :
    (E2 = [] ∧ E1 = E ∧ x = e) ∨ ∃ E2', E2 = E2' ++ [e] ∧ E = E1 ++ x :: E2' := by
  rcases List.append_eq_append_iff.mp h with ⟨as, h1, h2⟩ | ⟨bs, h1, h2⟩
  · cases as with
    | nil => simp at h2; obtain ⟨rfl, rfl⟩ := h2; exact Or.inl ⟨rfl, by simpa using h1, rfl⟩
    | cons y ys => simp at h2
  · cases bs with
    | nil => simp at h2; obtain ⟨rfl, rfl⟩ := h2; exact Or.inl ⟨rfl, by simpa using h1.symm, rfl⟩
    | cons y ys =>
      simp at h2
      exact Or.inr ⟨ys, h2.2, by rw [h1, h2.1]⟩

/-- the order invariant: what the run has done so far, in terms of the encounters `E` seen so far -/
structure Ord (preds : List NFilter) (h0 : Heap) (root0 : PVal) (E : Log) (st : PopSt) : Prop where
  shape0 : PShape h0 st.heap
  len : st.out.length = preds.length
  vis : ∀ (b : Nat) ty val md, h0[b]? = some (.var ty val md) → (b ∈ st.visited ↔ popped preds h0 E b = true)
  outF : ∀ i it, it ∈ st.out.getD i [] → ∃ (b : Nat), firstM preds h0 E b = some it.1
  outC : ∀ (b : Nat), popped preds h0 E b = true → ∃ i it, it ∈ st.out.getD i [] ∧ firstM preds h0 E b = some it.1
  rem : ∀ E1 e E2, E = E1 ++ e :: E2 → popped preds h0 (E1 ++ [e]) e.1 = true →
    ∃ (a : Nat), ∃ k q', e.2 = q' ++ [k] ∧ resolve h0 root0 q' = some (.ref a) ∧ KeyGone st.heap a k

/-- an encounter that does not match changes nothing -/
theorem Ord.snoc_nomatch {E : Log} {st : PopSt} (o : Ord preds h0 root0 E st) (e : Addr × Path)
    (hm : encMatches preds h0 e = false) (hnp : popped preds h0 E e.1 = false) : Ord preds h0 root0 (E ++ [e]) st := by
  have hp : ∀ b, popped preds h0 (E ++ [e]) b = popped preds h0 E b := by
    intro b; rw [popped_append]; simp [popped, encPred, hm]
  have hf : ∀ b, firstM preds h0 (E ++ [e]) b = firstM preds h0 E b := by
    intro b; rw [firstM_append]
    have : firstM preds h0 [e] b = Option.none := by simp [firstM, encPred, hm]
    rw [this]; cases firstM preds h0 E b <;> rfl
  refine ⟨o.shape0, o.len, ?_, ?_, ?_, ?_⟩
  · intro b ty val md hb; rw [hp]; exact o.vis b ty val md hb
  · intro i it hit; obtain ⟨b, hb⟩ := o.outF i it hit; exact ⟨b, by rw [hf]; exact hb⟩
  · intro b hb; rw [hp] at hb; obtain ⟨i, it, h1, h2⟩ := o.outC b hb; exact ⟨i, it, h1, by rw [hf]; exact h2⟩
  · intro E1 x E2 hd hpx
    rcases snoc_decomp hd with ⟨_, rfl, rfl⟩ | ⟨E2', _, hE⟩
    · rw [hp] at hpx
      rw [hnp] at hpx; cases hpx
    · exact o.rem E1 x E2' hE hpx

theorem popped_of_node {E : Log} {a : Addr} (hn : ∀ ty val md, h0[a]? ≠ some (.var ty val md)) :
    popped preds h0 E a = false := by
  simp only [popped, List.any_eq_false]
  intro e _
  simp only [encPred, Bool.and_eq_true, decide_eq_true_eq, not_and]
  intro he
  simp only [encMatches]
  rw [he]
  cases ho : h0[a]? with
  | none => simp
  | some o =>
    cases o with
    | node _ _ => simp
    | var ty val md => exact absurd ho (hn ty val md)

theorem encMatches_of_node {e : Addr × Path} (hn : ∀ ty val md, h0[e.1]? ≠ some (.var ty val md)) :
    encMatches preds h0 e = false := by
  unfold encMatches
  split
  · next ty val md ho => exact absurd ho (hn ty val md)
  · rfl

/-- registering a graph node in `id_to_index` -/
theorem Ord.reg_node {E : Log} {st : PopSt} (o : Ord preds h0 root0 E st) {a : Nat}
    (hn : ∀ ty val md, h0[a]? ≠ some (.var ty val md)) :
    Ord preds h0 root0 E { st with visited := st.visited ++ [a] } := by
  refine ⟨o.shape0, o.len, ?_, o.outF, o.outC, o.rem⟩
  intro b ty val md hb
  have : b ≠ a := fun e => hn ty val md (e ▸ hb)
  simp only [List.mem_append, List.mem_singleton, this, or_false]
  exact o.vis b ty val md hb

/-- an encounter of the Variable `b` at `q' ++ [k]` in the attribute loop of node `a`, at which the
reference is removed: either `b` was popped before, or it is popped now (`push = true`) -/
theorem Ord.erase_step {E : Log} {st : PopSt} (o : Ord preds h0 root0 E st) {a b : Nat} {k : Key} {q' : Path}
    {ty : VType} {val : Data} {md : Meta} (hb0 : h0[b]? = some (.var ty val md))
    (hres : resolve h0 root0 q' = some (.ref a)) (st1 : PopSt) (hheap : st1.heap = eraseAttr st.heap a k)
    (hcase : (b ∈ st.visited ∧ st1.visited = st.visited ∧ st1.out = st.out) ∨
      (b ∉ st.visited ∧ bucketOf preds (q' ++ [k], Leaf.vstate ty val md) < preds.length ∧
        st1.visited = st.visited ++ [b] ∧
        st1.out = pushOut st.out (bucketOf preds (q' ++ [k], Leaf.vstate ty val md)) (q' ++ [k], Leaf.vstate ty val md))) :
    Ord preds h0 root0 (E ++ [(b, q' ++ [k])]) st1 := by
  have hsh : PShape st.heap st1.heap := by rw [hheap]; exact eraseAttr_shape _ _ _
  have hm : encMatches preds h0 (b, q' ++ [k]) = decide (bucketOf preds (q' ++ [k], Leaf.vstate ty val md) < preds.length) := by
    simp [encMatches, hb0]
  have hpE : ∀ b', popped preds h0 (E ++ [(b, q' ++ [k])]) b' =
      (popped preds h0 E b' || (decide (b = b') && encMatches preds h0 (b, q' ++ [k]))) := by
    intro b'; rw [popped_append]; simp [popped, encPred]
  -- in both cases `b` counts as popped after this encounter
  have hpb : popped preds h0 (E ++ [(b, q' ++ [k])]) b = true := by
    rw [hpE]
    rcases hcase with ⟨hv, _, _⟩ | ⟨_, hlt, _, _⟩
    · rw [(o.vis b ty val md hb0).mp hv]; rfl
    · simp [hm, hlt]
  have hrem : ∀ E1 e E2, E ++ [(b, q' ++ [k])] = E1 ++ e :: E2 → popped preds h0 (E1 ++ [e]) e.1 = true →
      ∃ (a : Nat), ∃ k q', e.2 = q' ++ [k] ∧ resolve h0 root0 q' = some (.ref a) ∧ KeyGone st1.heap a k := by
    intro E1 x E2 hd hpx
    rcases snoc_decomp hd with ⟨_, rfl, rfl⟩ | ⟨E2', _, hE⟩
    · exact ⟨a, k, q', rfl, hres, by rw [hheap]; exact keyGone_erase _ _ _⟩
    · obtain ⟨a', k', q'', e1, e2, e3⟩ := o.rem E1 x E2' hE hpx
      exact ⟨a', k', q'', e1, e2, e3.mono hsh⟩
  rcases hcase with ⟨hv, hvis, hout⟩ | ⟨hnv, hlt, hvis, hout⟩
  · -- already popped: only the heap changes
    have hpopE : popped preds h0 E b = true := (o.vis b ty val md hb0).mp hv
    have hp : ∀ b', popped preds h0 (E ++ [(b, q' ++ [k])]) b' = popped preds h0 E b' := by
      intro b'; rw [hpE]
      by_cases e : b = b'
      · subst e; simp [hpopE]
      · simp [e]
    have hf : ∀ b' q, firstM preds h0 E b' = some q → firstM preds h0 (E ++ [(b, q' ++ [k])]) b' = some q :=
      fun b' q h => firstM_stable _ h
    refine ⟨o.shape0.trans hsh, by rw [hout]; exact o.len, ?_, ?_, ?_, hrem⟩
    · intro b' ty' val' md' hb'; rw [hvis, hp]; exact o.vis b' ty' val' md' hb'
    · intro i it hit; rw [hout] at hit; obtain ⟨b', hb'⟩ := o.outF i it hit; exact ⟨b', hf b' _ hb'⟩
    · intro b' hb'; rw [hp] at hb'; obtain ⟨i, it, h1, h2⟩ := o.outC b' hb'
      exact ⟨i, it, by rw [hout]; exact h1, hf b' _ h2⟩
  · -- popped now
    have hnpE : popped preds h0 E b = false := by
      cases hx : popped preds h0 E b with
      | false => rfl
      | true => exact absurd ((o.vis b ty val md hb0).mpr hx) hnv
    have hi : bucketOf preds (q' ++ [k], Leaf.vstate ty val md) < st.out.length := by rw [o.len]; exact hlt
    have hmemb : ∀ j it, it ∈ st1.out.getD j [] ↔
        (it ∈ st.out.getD j [] ∨ (j = bucketOf preds (q' ++ [k], Leaf.vstate ty val md) ∧ it = (q' ++ [k], Leaf.vstate ty val md))) := by
      intro j it
      rw [hout, pushOut_getD]
      by_cases e : j = bucketOf preds (q' ++ [k], Leaf.vstate ty val md)
      · subst e; simp [hi]
      · simp [e]
    have hfb : firstM preds h0 (E ++ [(b, q' ++ [k])]) b = some (q' ++ [k]) := by
      rw [firstM_append, (firstM_none_iff E b).mpr hnpE]
      simp [firstM, encPred, hm, hlt]
    refine ⟨o.shape0.trans hsh, by rw [hout, pushOut_length]; exact o.len, ?_, ?_, ?_, hrem⟩
    · intro b' ty' val' md' hb'
      rw [hvis, hpE]
      by_cases e : b = b'
      · subst e; simp [hm, hlt]
      · have : b' ≠ b := fun x => e x.symm
        simp only [List.mem_append, List.mem_singleton, this, or_false, e, decide_false, Bool.false_and, Bool.or_false]
        exact o.vis b' ty' val' md' hb'
    · intro i it hit
      rcases (hmemb i it).mp hit with h1 | ⟨_, rfl⟩
      · obtain ⟨b', hb'⟩ := o.outF i it h1; exact ⟨b', firstM_stable _ hb'⟩
      · exact ⟨b, hfb⟩
    · intro b' hb'
      by_cases e : b = b'
      · subst e
        exact ⟨_, _, (hmemb _ _).mpr (Or.inr ⟨rfl, rfl⟩), hfb⟩
      · rw [hpE] at hb'
        simp only [e, decide_false, Bool.false_and, Bool.or_false] at hb'
        obtain ⟨i, it, h1, h2⟩ := o.outC b' hb'
        exact ⟨i, it, (hmemb i it).mpr (Or.inl h1), firstM_stable _ h2⟩

theorem traceVal_var' {fuel : Nat} {h : Heap} {p : Path} {b : Addr} {idx : RefIndex} {enc reg : Log} {idx1 : RefIndex}
    {ty val md} (ht : traceVal fuel h p (.ref b) idx = .ok (enc, reg, idx1)) (hg : h[b]? = some (.var ty val md)) :
    enc = [(b, p)] ∧ ((b ∈ idx ∧ idx1 = idx) ∨ (b ∉ idx ∧ idx1 = idx ++ [b])) := by
  cases fuel with
  | zero => simp [traceVal] at ht
  | succ f =>
    simp only [traceVal] at ht
    split at ht
    · next i hi => simp at ht; obtain ⟨rfl, _, rfl⟩ := ht; exact ⟨rfl, Or.inl ⟨indexOf?_mem hi, rfl⟩⟩
    · next hn =>
      simp only [hg] at ht
      simp at ht
      obtain ⟨rfl, _, rfl⟩ := ht
      exact ⟨rfl, Or.inr ⟨indexOf?_none.mp hn, rfl⟩⟩

abbrev Lock0 (h0 : Heap) (idx : RefIndex) (st : PopSt) : Prop := Lock ([] : List NFilter) h0 idx st

theorem sel_nil (h : Heap) (b : Addr) : ¬ sel ([] : List NFilter) h b := by
  rintro ⟨_, _, _, _, hlt⟩; simp at hlt

theorem node_not_var {hp : Heap} {a : Nat} (hn : isNodeAt hp a) : ∀ ty val md, hp[a]? ≠ some (.var ty val md) := by
  obtain ⟨c, l, hg⟩ := hn
  intro ty val md hv; rw [hg] at hv; cases hv

theorem ord_pop (hw0 : Heap.wf h0 = true) : ∀ fuel : Nat,
    (∀ path v st st' idx enc reg idx' E, Lock0 h0 idx st → Ord preds h0 root0 E st → v.wf = true →
      resolve h0 root0 path = some v →
      popNode true preds fuel path v st = .ok st' → traceVal fuel h0 path v idx = .ok (enc, reg, idx') →
      Lock0 h0 idx' st' ∧ Ord preds h0 root0 (E ++ enc) st' ∧ ∀ x, x ∈ st.visited → x ∈ st'.visited) ∧
    (∀ path owner items st st' idx enc reg idx' E, Lock0 h0 idx st → Ord preds h0 root0 E st →
      (∀ kv ∈ items, kv.2.wf = true ∧ resolve h0 root0 (path ++ [kv.1]) = some kv.2) →
      (∀ a, owner = some a → a ∈ st.visited ∧ resolve h0 root0 path = some (.ref a)) →
      popItems true preds fuel path owner items st = .ok st' → traceItems fuel h0 path items idx = .ok (enc, reg, idx') →
      Lock0 h0 idx' st' ∧ Ord preds h0 root0 (E ++ enc) st' ∧ ∀ x, x ∈ st.visited → x ∈ st'.visited) := by
  intro fuel
  induction fuel with
  | zero =>
    constructor
    · intro path v st st' idx enc reg idx' E _ _ _ _ h; simp [popNode] at h
    · intro path owner items st st' idx enc reg idx' E _ _ _ _ h; simp [popItems] at h
  | succ fuel ih =>
    constructor
    · intro path v st st' idx enc reg idx' E l o hwf hres hp ht
      cases v with
      | static s => simp [popNode] at hp
      | array d => simp [popNode] at hp
      | none =>
        simp [popNode] at hp; simp [traceVal] at ht
        obtain ⟨rfl, _, rfl⟩ := ht; subst hp
        exact ⟨l, by simpa using o, fun _ h => h⟩
      | seq t xs =>
        simp only [popNode] at hp; simp only [traceVal] at ht
        simp only [PVal.wf] at hwf
        refine ih.2 path Option.none _ st st' idx enc reg idx' E l o ?_ (fun a ha => by cases ha) hp ht
        intro kv hkv
        refine ⟨wfList_mem xs hwf _ (enumFrom_mem_snd 0 xs kv hkv), ?_⟩
        rw [resolve_snoc, hres]
        simp only [Option.bind, step]
        exact lookupKV_of_mem (enumFrom_keysNodup 0 xs) hkv
      | dict kvs =>
        simp only [popNode] at hp; simp only [traceVal] at ht
        simp only [PVal.wf, Bool.and_eq_true, decide_eq_true_eq] at hwf
        refine ih.2 path Option.none _ st st' idx enc reg idx' E l o ?_ (fun a ha => by cases ha) hp ht
        intro kv hkv
        have hm := mem_sortKV.mp hkv
        refine ⟨wfKVs_mem kvs hwf.2 kv hm, ?_⟩
        rw [resolve_snoc, hres]
        simp only [Option.bind, step]
        exact lookupKV_of_mem hwf.1 hm
      | ref a =>
        simp only [popNode] at hp
        split at hp
        · cases hp
        · cases hp
        · next cls live hget =>
          have hnode : isNodeAt st.heap a := ⟨cls, live, hget⟩
          have hn0 : ∀ ty val md, h0[a]? ≠ some (.var ty val md) := by
            rcases l.same a with e | ⟨_, _, hn0⟩
            · rw [← e]; exact node_not_var hnode
            · exact node_not_var hn0
          split at hp
          · next hvis =>
            simp at hp; subst hp
            have hin : a ∈ idx := (l.nodes a hnode).mpr hvis
            obtain ⟨i, hi⟩ := indexOf?_of_mem hin
            simp [traceVal, hi] at ht
            obtain ⟨rfl, _, rfl⟩ := ht
            exact ⟨l, o.snoc_nomatch (a, path) (encMatches_of_node hn0) (popped_of_node hn0), fun _ h => h⟩
          · next hnvis =>
            have hnin : a ∉ idx := fun hc => hnvis ((l.nodes a hnode).mp hc)
            have hg0 := l.node_h0 hget hnvis
            simp only [traceVal, indexOf?_none.mpr hnin, hg0] at ht
            split at ht
            · cases ht
            · next enc1 reg1 idx1 ht1 =>
              simp at ht; obtain ⟨rfl, _, rfl⟩ := ht
              have l1 : Lock0 h0 (idx ++ [a]) { st with visited := st.visited ++ [a] } := by
                refine ⟨?_, ?_, ?_, ?_⟩
                · intro x hx
                  simp only [List.mem_append, List.mem_singleton]
                  rw [l.nodes x hx]
                · intro b ty val md hg hb
                  simp only [List.mem_append, List.mem_singleton] at hb ⊢
                  rcases hb with h1 | h1
                  · exact Or.inl (l.varsIn b ty val md hg h1)
                  · exact Or.inr h1
                · intro b hs; exact absurd hs (sel_nil h0 b)
                · intro x
                  rcases l.same x with e | ⟨hv, hn, hn0'⟩
                  · exact Or.inl e
                  · exact Or.inr ⟨List.mem_append_left _ hv, hn, hn0'⟩
              have o1 := (o.snoc_nomatch (a, path) (encMatches_of_node hn0) (popped_of_node hn0)).reg_node (a := a) hn0
              have hwn := heap_wf_node hw0 hg0
              obtain ⟨l', o', hs'⟩ := ih.2 path (some a) _ _ st' _ enc1 reg1 idx1 _ l1 o1
                (by
                  intro kv hkv
                  have hm := mem_sortKV.mp hkv
                  refine ⟨hwn.2 kv hm, ?_⟩
                  rw [resolve_snoc, hres]
                  simp only [Option.bind, step, hg0]
                  exact lookupKV_of_mem hwn.1 hm)
                (fun a' ha' => by cases ha'; exact ⟨by simp, hres⟩) hp ht1
              refine ⟨l', ?_, fun x hx => hs' x (List.mem_append_left _ hx)⟩
              simpa using o'
    · intro path owner items st st' idx enc reg idx' E l o hit ho hp ht
      cases items with
      | nil =>
        simp [popItems] at hp; simp [traceItems] at ht
        obtain ⟨rfl, _, rfl⟩ := ht; subst hp
        exact ⟨l, by simpa using o, fun _ h => h⟩
      | cons kv rest =>
        obtain ⟨k, v⟩ := kv
        rw [popItems_cons] at hp
        simp only [traceItems] at ht
        split at hp
        · cases hp
        · next st1 hitem =>
          split at ht
          · cases ht
          · next enc1 reg1 idx1 ht1 =>
            split at ht
            · cases ht
            · next enc2 reg2 idx2 ht2 =>
              simp at ht; obtain ⟨rfl, _, rfl⟩ := ht
              have hkv := hit (k, v) (by simp)
              have step1 : Lock0 h0 idx1 st1 ∧ Ord preds h0 root0 (E ++ enc1) st1 ∧ (∀ x, x ∈ st.visited → x ∈ st1.visited) := by
                cases v with
                | static s =>
                  simp [popItem] at hitem; subst hitem
                  cases fuel with
                  | zero => simp [traceVal] at ht1
                  | succ f => simp [traceVal] at ht1; obtain ⟨rfl, _, rfl⟩ := ht1; exact ⟨l, by simpa using o, fun _ h => h⟩
                | array d =>
                  simp [popItem] at hitem; subst hitem
                  cases fuel with
                  | zero => simp [traceVal] at ht1
                  | succ f => simp [traceVal] at ht1; obtain ⟨rfl, _, rfl⟩ := ht1; exact ⟨l, by simpa using o, fun _ h => h⟩
                | none =>
                  simp only [popItem] at hitem
                  exact ih.1 _ _ st st1 idx enc1 reg1 idx1 E l o hkv.1 hkv.2 hitem ht1
                | seq t xs =>
                  simp only [popItem] at hitem
                  exact ih.1 _ _ st st1 idx enc1 reg1 idx1 E l o hkv.1 hkv.2 hitem ht1
                | dict kvs =>
                  simp only [popItem] at hitem
                  exact ih.1 _ _ st st1 idx enc1 reg1 idx1 E l o hkv.1 hkv.2 hitem ht1
                | ref b =>
                  simp only [popItem] at hitem
                  split at hitem
                  · cases hitem
                  · exact ih.1 _ _ st st1 idx enc1 reg1 idx1 E l o hkv.1 hkv.2 hitem ht1
                  · next ty val md hget =>
                    have hb0 := l.var_h0 hget
                    have hnotnode : ∀ (x : Nat), isNodeAt st.heap x → x ≠ b := by
                      rintro x ⟨c, at', hx⟩ e; subst e; rw [hget] at hx; cases hx
                    obtain ⟨henc, htv⟩ := traceVal_var' ht1 hb0
                    subst henc
                    -- the lock after this encounter, whatever the DFS registered
                    have lockAfter : ∀ (hp' : Heap) (vis' : List Addr) (out' : List FlatState),
                        (hp' = st.heap ∨ ∃ a, a ∈ st.visited ∧ hp' = eraseAttr st.heap a k) →
                        (vis' = st.visited ∨ vis' = st.visited ++ [b]) →
                        Lock0 h0 idx1 { heap := hp', visited := vis', out := out' } := by
                      intro hp' vis' out' hheap hvis'
                      have hsub : ∀ x, x ∈ st.visited → x ∈ vis' := by
                        intro x hx; rcases hvis' with e | e <;> rw [e]
                        · exact hx
                        · exact List.mem_append_left _ hx
                      have hnodes : ∀ (x : Nat), isNodeAt st.heap x → (x ∈ idx1 ↔ x ∈ vis') := by
                        intro x hx
                        have hxb := hnotnode x hx
                        have h1 : x ∈ idx1 ↔ x ∈ idx := by
                          rcases htv with ⟨_, e⟩ | ⟨_, e⟩ <;> rw [e]
                          simp [hxb]
                        have h2 : x ∈ vis' ↔ x ∈ st.visited := by
                          rcases hvis' with e | e <;> rw [e]
                          simp [hxb]
                        rw [h1, h2]; exact l.nodes x hx
                      have hvars : ∀ (b' : Nat) ty' val' md', st.heap[b']? = some (.var ty' val' md') → b' ∈ vis' → b' ∈ idx1 := by
                        intro b' ty' val' md' hg hb'
                        have hidx : ∀ x, x ∈ idx → x ∈ idx1 := by
                          intro x hx; rcases htv with ⟨_, e⟩ | ⟨_, e⟩ <;> rw [e]
                          · exact hx
                          · exact List.mem_append_left _ hx
                        rcases hvis' with e | e
                        · rw [e] at hb'; exact hidx b' (l.varsIn b' ty' val' md' hg hb')
                        · rw [e] at hb'
                          rcases List.mem_append.mp hb' with h1 | h1
                          · exact hidx b' (l.varsIn b' ty' val' md' hg h1)
                          · simp at h1; subst h1
                            rcases htv with ⟨hin, e'⟩ | ⟨_, e'⟩ <;> rw [e']
                            · exact hin
                            · simp
                      rcases hheap with e | ⟨a, ha, e⟩
                      · subst e
                        exact ⟨hnodes, hvars, fun b' hs => absurd hs (sel_nil h0 b'), fun x => by
                          rcases l.same x with e1 | ⟨hv, hn, hn0⟩
                          · exact Or.inl e1
                          · exact Or.inr ⟨hsub x hv, hn, hn0⟩⟩
                      · subst e
                        exact l.erase (preds := []) k ha vis' out' idx1 hnodes hvars (fun b' hs => absurd hs (sel_nil h0 b')) hsub
                    split at hitem
                    · next hvis =>
                      cases owner with
                      | none => cases hitem
                      | some a =>
                        simp at hitem; subst hitem
                        obtain ⟨hav, hra⟩ := ho a rfl
                        exact ⟨lockAfter _ _ _ (Or.inr ⟨a, hav, rfl⟩) (Or.inl rfl),
                          o.erase_step hb0 hra _ rfl (Or.inl ⟨hvis, rfl, rfl⟩), fun _ h => h⟩
                    · next hnvis =>
                      split at hitem
                      · next hlt =>
                        cases owner with
                        | none => cases hitem
                        | some a =>
                          simp at hitem; subst hitem
                          obtain ⟨hav, hra⟩ := ho a rfl
                          exact ⟨lockAfter _ _ _ (Or.inr ⟨a, hav, rfl⟩) (Or.inr rfl),
                            o.erase_step hb0 hra _ rfl (Or.inr ⟨hnvis, hlt, rfl, rfl⟩),
                            fun x hx => List.mem_append_left _ hx⟩
                      · next hnlt =>
                        simp at hitem; subst hitem
                        have hm : encMatches preds h0 (b, path ++ [k]) = false := by
                          simp [encMatches, hb0, hnlt]
                        have hnp : popped preds h0 E b = false := by
                          cases hx : popped preds h0 E b with
                          | false => rfl
                          | true => exact absurd ((o.vis b ty val md hb0).mpr hx) hnvis
                        exact ⟨lockAfter _ _ _ (Or.inl rfl) (Or.inl rfl), o.snoc_nomatch _ hm hnp, fun _ h => h⟩
              obtain ⟨l1, o1, hsub⟩ := step1
              obtain ⟨l2, o2, hsub2⟩ := ih.2 path owner rest st1 st' idx1 enc2 reg2 idx2 (E ++ enc1) l1 o1
                (fun kv' hkv' => hit kv' (by simp [hkv']))
                (fun a ha => ⟨hsub a (ho a ha).1, (ho a ha).2⟩) hp ht2
              exact ⟨l2, by simpa [List.append_assoc] using o2, fun x hx => hsub2 x (hsub x hx)⟩

/-- a path that resolves after attributes were removed resolved to the same value before -/
theorem resolve_shrink {hp : Heap} (hw0 : Heap.wf h0 = true) (s0 : PShape h0 hp) :
    ∀ (q : Path) (r v : PVal), resolve hp r q = some v → resolve h0 r q = some v
  | [], r, v, h => h
  | k :: q, r, v, h => by
    simp only [resolve] at h ⊢
    split at h
    · next u hstep =>
      have hs0 : step h0 r k = some u := by
        cases r with
        | ref a =>
          simp only [step] at hstep ⊢
          split at hstep
          · next cls live hg =>
            obtain ⟨attrs0, hg0, hsub⟩ := node_h0' s0 hg
            simp only [hg0]
            exact lookupKV_of_mem (heap_wf_node hw0 hg0).1 (hsub _ (lookupKV_mem hstep))
          · cases hstep
        | seq t xs => simpa [step] using hstep
        | dict kvs => simpa [step] using hstep
        | static s => simp [step] at hstep
        | array d => simp [step] at hstep
        | none => simp [step] at hstep
      simp only [hs0]
      exact resolve_shrink hw0 s0 q u v h
    · cases h

theorem firstM_mem {E : Log} {b : Addr} {q : Path} (h : firstM preds h0 E b = some q) : (b, q) ∈ E := by
  simp only [firstM, Option.map_eq_some_iff] at h
  obtain ⟨e, he, rfl⟩ := h
  have hm := List.mem_of_find?_eq_some he
  have hp := List.find?_some he
  simp only [encPred, Bool.and_eq_true, decide_eq_true_eq] at hp
  rw [← hp.1]; exact hm

/-- `pop` with arbitrary filters, in terms of the DFS encounters `enc` -/
structure PopOrdered (preds : List NFilter) (h : Heap) (root : PVal) (h' : Heap) (outs : List FlatState) (enc : Log) : Prop where
  /-- every returned entry sits at the FIRST matching encounter of its Variable -/
  returned : ∀ i it, it ∈ outs.getD i [] → ∃ (b : Nat), firstM preds h enc b = some it.1 ∧ resolve h root it.1 = some (.ref b)
  /-- every Variable that has a matching encounter is returned (at its first matching encounter) -/
  complete : ∀ (b : Nat), popped preds h enc b = true → ∃ i it, it ∈ outs.getD i [] ∧ firstM preds h enc b = some it.1
  /-- the reference of every encounter at or after a matching encounter of the same Variable is removed -/
  removed : ∀ E1 e E2, enc = E1 ++ e :: E2 → popped preds h (E1 ++ [e]) e.1 = true →
    resolve h' root e.2 ≠ some (.ref e.1)

theorem pop_ordered_aux (h : Heap) (root : PVal) (hw : Heap.wf h = true) (hrw : root.wf = true)
    (h' : Heap) (outs : List FlatState) (hp : pop true h root preds = .ok (h', outs))
    (gd : GDef) (ls : FlatState) (idx : RefIndex) (hf : flatten h root = .ok (gd, ls, idx)) :
    ∃ enc reg, trace h root = .ok (enc, reg, idx) ∧ (∀ e ∈ enc, resolve h root e.2 = some (.ref e.1)) ∧
      PopOrdered preds h root h' outs enc := by
  obtain ⟨enc, reg, ht, _, hres, _, _⟩ := flatten_first h root hw hrw gd ls idx hf
  refine ⟨enc, reg, ht, hres, ?_⟩
  unfold pop at hp
  split at hp
  · cases hp
  · split at hp
    · cases hp
    · next st' hrun =>
      simp at hp; obtain ⟨rfl, rfl⟩ := hp
      unfold trace at ht
      split at ht
      · have l0 : Lock0 h [] { heap := h, visited := [], out := List.map (fun _ => []) preds } :=
          ⟨(fun a _ => by simp), (fun b _ _ _ _ hb => by cases hb), (fun b _ hb => by cases hb), fun a => Or.inl rfl⟩
        have o0 : Ord preds h root [] { heap := h, visited := [], out := List.map (fun _ => []) preds } := by
          refine ⟨PShape.refl h, by simp, ?_, ?_, ?_, ?_⟩
          · intro b ty val md _; simp [popped]
          · intro i it hit; simp only [getD_map_nil] at hit; cases hit
          · intro b hb; simp [popped] at hb
          · intro E1 e E2 hd; cases E1 <;> simp at hd
        obtain ⟨_, o, _⟩ := (ord_pop (preds := preds) (h0 := h) (root0 := root) hw _).1 [] root _ st' [] enc reg idx []
          l0 o0 hrw rfl hrun ht
        simp only [List.nil_append] at o
        refine ⟨?_, o.outC, ?_⟩
        · intro i it hit
          obtain ⟨b, hb⟩ := o.outF i it hit
          exact ⟨b, hb, hres (b, it.1) (firstM_mem hb)⟩
        · intro E1 e E2 hd hpe hr
          obtain ⟨a, k, q', e1, e2, e3⟩ := o.rem E1 e E2 hd hpe
          rw [e1, resolve_snoc] at hr
          cases hu : resolve st'.heap root q' with
          | none => rw [hu] at hr; cases hr
          | some u =>
            rw [hu] at hr
            have := resolve_shrink hw o.shape0 q' root u hu
            rw [e2] at this; cases this
            simp only [Option.bind, step] at hr
            split at hr
            · next cls live hg => exact e3 cls live hg _ (lookupKV_mem hr) rfl
            · cases hr
      · cases ht

end PopOrder
end Flax.Graph
