/-
The msgpack round trip: `unpack (pack v) = some v` for every well-formed value
(`Flax/Model/Msgpack.lean`).
-/
import Flax.Model.Msgpack

namespace Flax.Msgpack

/-! ### well-formed values: what the wire format can carry -/

mutual
  /-- ints in `[-2^63, 2^64)`, doubles as 64 bit patterns, lengths below `2^32`, ext codes 0..127 -/
  def MVal.WF : MVal → Prop
    | .nil => True
    | .bool _ => True
    | .int i => -(2 ^ 63 : Int) ≤ i ∧ i < (2 ^ 64 : Int)
    | .f64 bits => bits < 2 ^ 64
    | .str s => s.length < 2 ^ 32
    | .bin b => b.length < 2 ^ 32
    | .arr xs => xs.length < 2 ^ 32 ∧ WFList xs
    | .map kvs => kvs.length < 2 ^ 32 ∧ WFPairs kvs
    | .ext code data => code < 128 ∧ data.length < 2 ^ 32
  def WFList : List MVal → Prop
    | [] => True
    | x :: r => x.WF ∧ WFList r
  def WFPairs : List (MVal × MVal) → Prop
    | [] => True
    | (k, v) :: r => k.WF ∧ v.WF ∧ WFPairs r
end

mutual
  /-- nesting depth -/
  def MVal.depth : MVal → Nat
    | .arr xs => 1 + depthList xs
    | .map kvs => 1 + depthPairs kvs
    | _ => 1
  def depthList : List MVal → Nat
    | [] => 0
    | x :: r => max x.depth (depthList r)
  def depthPairs : List (MVal × MVal) → Nat
    | [] => 0
    | (k, v) :: r => max k.depth (max v.depth (depthPairs r))
end

/-! ### big-endian fields -/

theorem length_be : ∀ (k n : Nat), (be k n).length = k
  | 0, _ => rfl
  | k + 1, n => by simp [be, length_be k n]

theorem foldl_be (n : Nat) : ∀ (k acc : Nat),
    (be k n).foldl (fun acc b => acc * 256 + b) acc = acc * 256 ^ k + n % 256 ^ k
  | 0, acc => by simp [be, Nat.mod_one]
  | k + 1, acc => by
    simp only [be, List.foldl_cons]
    rw [foldl_be n k]
    have h := Nat.mod_mul (a := 256 ^ k) (b := 256) (x := n)
    rw [Nat.pow_succ, h, Nat.add_mul, Nat.mul_assoc, Nat.mul_comm 256 (256 ^ k),
      Nat.mul_comm (n / 256 ^ k % 256)]
    omega

theorem fromBe_be (k n : Nat) (h : n < 256 ^ k) : fromBe (be k n) = n := by
  simp only [fromBe, foldl_be]
  rw [Nat.mod_eq_of_lt h]
  omega

theorem takeN_append : ∀ (k : Nat) (h r : Bytes), h.length = k → takeN k (h ++ r) = some (h, r)
  | 0, h, r, hl => by
    have : h = [] := List.eq_nil_of_length_eq_zero hl
    simp [takeN, this]
  | k + 1, h, r, hl => by
    simp only [takeN]
    have hd : (h ++ r).drop k = (h.drop k) ++ r := by
      rw [List.drop_append_of_le_length (by omega)]
    have hne : h.drop k ≠ [] := by
      intro e
      have := congrArg List.length e
      simp at this
      omega
    rw [hd]
    cases hk : h.drop k with
    | nil => exact absurd hk hne
    | cons a t =>
      have ht : t = [] := by
        have := congrArg List.length hk
        simp at this
        apply List.eq_nil_of_length_eq_zero
        omega
      subst ht
      simp only [List.cons_append, List.nil_append]
      rw [List.take_append_of_le_length (by omega), List.take_of_length_le (by omega)]

theorem readBe_be (k n : Nat) (r : Bytes) (h : n < 256 ^ k) : readBe k (be k n ++ r) = some (n, r) := by
  simp [readBe, takeN_append k (be k n) r (length_be k n), fromBe_be k n h]

/-! ### one lemma per tag range -/

theorem unpackF_posfix (fuel b : Nat) (rest : Bytes) (h : b < 0x80) :
    unpackF (fuel + 1) (b :: rest) = some (.int b, rest) := by
  simp only [unpackF]
  rw [if_pos h]

theorem unpackF_negfix (fuel b : Nat) (rest : Bytes) (h1 : 0xe0 ≤ b) (h2 : b < 0x100) :
    unpackF (fuel + 1) (b :: rest) = some (.int (toSigned 1 b), rest) := by
  simp only [unpackF]
  repeat (first | rw [if_neg (by omega)] | rw [if_pos (by omega)])

theorem unpackF_fixmap (fuel n : Nat) (rest : Bytes) (h : n < 16) :
    unpackF (fuel + 1) ((0x80 + n) :: rest) = readMap (unpackF fuel) n rest := by
  simp only [unpackF]
  rw [if_neg (by omega), if_pos (by omega), show 0x80 + n - 0x80 = n by omega]

theorem unpackF_fixarr (fuel n : Nat) (rest : Bytes) (h : n < 16) :
    unpackF (fuel + 1) ((0x90 + n) :: rest) = readArr (unpackF fuel) n rest := by
  simp only [unpackF]
  rw [if_neg (by omega), if_neg (by omega), if_pos (by omega), show 0x90 + n - 0x90 = n by omega]

theorem unpackF_fixstr (fuel n : Nat) (rest : Bytes) (h : n < 32) :
    unpackF (fuel + 1) ((0xa0 + n) :: rest) = readStr n rest := by
  simp only [unpackF]
  rw [if_neg (by omega), if_neg (by omega), if_neg (by omega), if_pos (by omega),
    show 0xa0 + n - 0xa0 = n by omega]

/-! ### integers -/

theorem toSigned_aux (P Q : Nat) (i : Int) (hQ : Q = 2 * P) (h1 : -(P : Int) ≤ i) (h2 : i < 0) :
    (if (i + (Q : Int)).toNat < P then ((i + (Q : Int)).toNat : Int) else ((i + (Q : Int)).toNat : Int) - (Q : Int)) = i ∧
    (i + (Q : Int)).toNat < Q := by
  subst hQ
  constructor
  · split <;> omega
  · omega

theorem toSigned_ofSigned (k : Nat) (hk : 1 ≤ k) (i : Int) (h1 : -(2 ^ (8 * k - 1) : Nat) ≤ i) (h2 : i < 0) :
    toSigned k (ofSigned k i) = i ∧ ofSigned k i < 256 ^ k := by
  have hp : (2 : Nat) ^ (8 * k) = 2 * 2 ^ (8 * k - 1) := by
    rw [← Nat.pow_succ']; congr 1; omega
  have h256 : (256 : Nat) ^ k = 2 ^ (8 * k) := by
    rw [show (256 : Nat) = 2 ^ 8 by rfl, ← Nat.pow_mul]
  have := toSigned_aux (2 ^ (8 * k - 1)) (2 ^ (8 * k)) i hp h1 h2
  rw [h256]
  exact this

theorem unpack_packInt (fuel : Nat) (i : Int) (rest : Bytes)
    (h1 : -(2 ^ 63 : Int) ≤ i) (h2 : i < (2 ^ 64 : Int)) :
    unpackF (fuel + 1) (packInt i ++ rest) = some (.int i, rest) := by
  simp only [packInt]
  split
  · next hpos =>
    have hi : (i.toNat : Int) = i := Int.toNat_of_nonneg hpos
    split
    · next h => simp [unpackF_posfix fuel _ rest h, hi]
    · split
      · next h => simp [unpackF, readUInt, readBe_be 1 i.toNat rest (by omega), hi]
      · split
        · next h => simp [unpackF, readUInt, readBe_be 2 i.toNat rest (by omega), hi]
        · split
          · next h => simp [unpackF, readUInt, readBe_be 4 i.toNat rest (by omega), hi]
          · have : i.toNat < 256 ^ 8 := by omega
            simp [unpackF, readUInt, readBe_be 8 i.toNat rest this, hi]
  · next hneg =>
    have hneg' : i < 0 := by omega
    split
    · next h =>
      have := toSigned_ofSigned 1 (by omega) i (by simp; omega) hneg'
      have hb : 0xe0 ≤ ofSigned 1 i ∧ ofSigned 1 i < 0x100 := by
        simp only [ofSigned]; omega
      simp [unpackF_negfix fuel _ rest hb.1 hb.2, this.1]
    · split
      · next h =>
        have := toSigned_ofSigned 1 (by omega) i (by simp; omega) hneg'
        simp [unpackF, readSInt, readBe_be 1 _ rest this.2, this.1]
      · split
        · next h =>
          have := toSigned_ofSigned 2 (by omega) i (by simp; omega) hneg'
          simp [unpackF, readSInt, readBe_be 2 _ rest this.2, this.1]
        · split
          · next h =>
            have := toSigned_ofSigned 4 (by omega) i (by simp; omega) hneg'
            simp [unpackF, readSInt, readBe_be 4 _ rest this.2, this.1]
          · have := toSigned_ofSigned 8 (by omega) i (by simp; omega) hneg'
            simp [unpackF, readSInt, readBe_be 8 _ rest this.2, this.1]


/-! ### headers -/

theorem hdr_str (fuel n : Nat) (body : Bytes) (h : n < 2 ^ 32) :
    unpackF (fuel + 1) (strHdr n ++ body) = readStr n body := by
  simp only [strHdr]
  split
  · next h1 => simpa using unpackF_fixstr fuel n body h1
  · split
    · next h2 => simp [unpackF, withLen, readBe_be 1 n body (by omega)]
    · split
      · next h3 => simp [unpackF, withLen, readBe_be 2 n body (by omega)]
      · simp [unpackF, withLen, readBe_be 4 n body (by omega)]

theorem hdr_bin (fuel n : Nat) (body : Bytes) (h : n < 2 ^ 32) :
    unpackF (fuel + 1) (binHdr n ++ body) = readBin n body := by
  simp only [binHdr]
  split
  · next h2 => simp [unpackF, withLen, readBe_be 1 n body (by omega)]
  · split
    · next h3 => simp [unpackF, withLen, readBe_be 2 n body (by omega)]
    · simp [unpackF, withLen, readBe_be 4 n body (by omega)]

theorem hdr_arr (fuel n : Nat) (body : Bytes) (h : n < 2 ^ 32) :
    unpackF (fuel + 1) (arrHdr n ++ body) = readArr (unpackF fuel) n body := by
  simp only [arrHdr]
  split
  · next h1 => simpa using unpackF_fixarr fuel n body h1
  · split
    · next h3 => simp [unpackF, withLen, readBe_be 2 n body (by omega)]
    · simp [unpackF, withLen, readBe_be 4 n body (by omega)]

theorem hdr_map (fuel n : Nat) (body : Bytes) (h : n < 2 ^ 32) :
    unpackF (fuel + 1) (mapHdr n ++ body) = readMap (unpackF fuel) n body := by
  simp only [mapHdr]
  split
  · next h1 => simpa using unpackF_fixmap fuel n body h1
  · split
    · next h3 => simp [unpackF, withLen, readBe_be 2 n body (by omega)]
    · simp [unpackF, withLen, readBe_be 4 n body (by omega)]

theorem hdr_ext (fuel code n : Nat) (body : Bytes) (h : n < 2 ^ 32) :
    unpackF (fuel + 1) (extHdr code n ++ body) = readExt n (code :: body) := by
  simp only [extHdr]
  split
  · next h1 => subst h1; simp [unpackF]
  · split
    · next h1 => subst h1; simp [unpackF]
    · split
      · next h1 => subst h1; simp [unpackF]
      · split
        · next h1 => subst h1; simp [unpackF]
        · split
          · next h1 => subst h1; simp [unpackF]
          · split
            · next h2 => simp [unpackF, withLen, readBe_be 1 n (code :: body) (by omega)]
            · split
              · next h3 => simp [unpackF, withLen, readBe_be 2 n (code :: body) (by omega)]
              · simp [unpackF, withLen, readBe_be 4 n (code :: body) (by omega)]

/-! ### the round trip -/

mutual
  theorem rt_val : ∀ (v : MVal) (fuel : Nat) (rest : Bytes), v.WF → v.depth ≤ fuel →
      unpackF fuel (pack v ++ rest) = some (v, rest)
    | .nil, fuel, rest, _, hd => by
      cases fuel with
      | zero => simp [MVal.depth] at hd
      | succ f => simp [pack, unpackF]
    | .bool b, fuel, rest, _, hd => by
      cases fuel with
      | zero => simp [MVal.depth] at hd
      | succ f => cases b <;> simp [pack, unpackF]
    | .int i, fuel, rest, hw, hd => by
      cases fuel with
      | zero => simp [MVal.depth] at hd
      | succ f =>
        simp only [MVal.WF] at hw
        simpa [pack] using unpack_packInt f i rest hw.1 hw.2
    | .f64 bits, fuel, rest, hw, hd => by
      cases fuel with
      | zero => simp [MVal.depth] at hd
      | succ f =>
        simp only [MVal.WF] at hw
        simp [pack, unpackF, readBe_be 8 bits rest (by omega)]
    | .str s, fuel, rest, hw, hd => by
      cases fuel with
      | zero => simp [MVal.depth] at hd
      | succ f =>
        simp only [MVal.WF] at hw
        simp only [pack, List.append_assoc]
        rw [hdr_str f s.length (s ++ rest) hw]
        simp [readStr, takeN_append s.length s rest rfl]
    | .bin b, fuel, rest, hw, hd => by
      cases fuel with
      | zero => simp [MVal.depth] at hd
      | succ f =>
        simp only [MVal.WF] at hw
        simp only [pack, List.append_assoc]
        rw [hdr_bin f b.length (b ++ rest) hw]
        simp [readBin, takeN_append b.length b rest rfl]
    | .ext code data, fuel, rest, hw, hd => by
      cases fuel with
      | zero => simp [MVal.depth] at hd
      | succ f =>
        simp only [MVal.WF] at hw
        simp only [pack, List.append_assoc]
        rw [hdr_ext f code data.length (data ++ rest) hw.2]
        simp [readExt, hw.1, takeN_append data.length data rest rfl]
    | .arr xs, fuel, rest, hw, hd => by
      cases fuel with
      | zero => simp [MVal.depth] at hd
      | succ f =>
        simp only [MVal.WF] at hw
        simp only [MVal.depth] at hd
        simp only [pack, List.append_assoc]
        rw [hdr_arr f xs.length (packList xs ++ rest) hw.1]
        simp [readArr, rt_list xs f rest hw.2 (by omega)]
    | .map kvs, fuel, rest, hw, hd => by
      cases fuel with
      | zero => simp [MVal.depth] at hd
      | succ f =>
        simp only [MVal.WF] at hw
        simp only [MVal.depth] at hd
        simp only [pack, List.append_assoc]
        rw [hdr_map f kvs.length (packPairs kvs ++ rest) hw.1]
        simp [readMap, rt_pairs kvs f rest hw.2 (by omega)]
  theorem rt_list : ∀ (xs : List MVal) (fuel : Nat) (rest : Bytes), WFList xs → depthList xs ≤ fuel →
      unpackMany (unpackF fuel) xs.length (packList xs ++ rest) = some (xs, rest)
    | [], _, _, _, _ => by simp [packList, unpackMany]
    | x :: r, fuel, rest, hw, hd => by
      simp only [WFList] at hw
      simp only [depthList] at hd
      have h1 := rt_val x fuel (packList r ++ rest) hw.1 (by omega)
      have h2 := rt_list r fuel rest hw.2 (by omega)
      simp [packList, unpackMany, List.append_assoc, h1, h2]
  theorem rt_pairs : ∀ (kvs : List (MVal × MVal)) (fuel : Nat) (rest : Bytes), WFPairs kvs →
      depthPairs kvs ≤ fuel →
      unpackPairs (unpackF fuel) kvs.length (packPairs kvs ++ rest) = some (kvs, rest)
    | [], _, _, _, _ => by simp [packPairs, unpackPairs]
    | (k, v) :: r, fuel, rest, hw, hd => by
      simp only [WFPairs] at hw
      simp only [depthPairs] at hd
      have h1 := rt_val k fuel (pack v ++ (packPairs r ++ rest)) hw.1 (by omega)
      have h2 := rt_val v fuel (packPairs r ++ rest) hw.2.1 (by omega)
      have h3 := rt_pairs r fuel rest hw.2.2 (by omega)
      simp [packPairs, unpackPairs, List.append_assoc, h1, h2, h3]
end


/-! ### enough fuel: every level of nesting costs at least one byte -/

theorem one_le_length_packInt (i : Int) : 1 ≤ (packInt i).length := by
  simp only [packInt]
  repeat' split
  all_goals simp

theorem one_le_arrHdr (n : Nat) : 1 ≤ (arrHdr n).length := by
  simp only [arrHdr]; repeat' split
  all_goals simp

theorem one_le_mapHdr (n : Nat) : 1 ≤ (mapHdr n).length := by
  simp only [mapHdr]; repeat' split
  all_goals simp

theorem one_le_strHdr (n : Nat) : 1 ≤ (strHdr n).length := by
  simp only [strHdr]; repeat' split
  all_goals simp

theorem one_le_binHdr (n : Nat) : 1 ≤ (binHdr n).length := by
  simp only [binHdr]; repeat' split
  all_goals simp

theorem one_le_extHdr (c n : Nat) : 1 ≤ (extHdr c n).length := by
  simp only [extHdr]; repeat' split
  all_goals simp

mutual
  theorem depth_le_val : ∀ (v : MVal), v.depth ≤ (pack v).length
    | .nil => by simp [MVal.depth, pack]
    | .bool b => by cases b <;> simp [MVal.depth, pack]
    | .int i => by simpa [MVal.depth, pack] using one_le_length_packInt i
    | .f64 _ => by simp [MVal.depth, pack]
    | .str s => by have := one_le_strHdr s.length; simp [MVal.depth, pack]; omega
    | .bin b => by have := one_le_binHdr b.length; simp [MVal.depth, pack]; omega
    | .ext c d => by have := one_le_extHdr c d.length; simp [MVal.depth, pack]; omega
    | .arr xs => by
      have := one_le_arrHdr xs.length
      have := depth_le_list xs
      simp [MVal.depth, pack]; omega
    | .map kvs => by
      have := one_le_mapHdr kvs.length
      have := depth_le_pairs kvs
      simp [MVal.depth, pack]; omega
  theorem depth_le_list : ∀ (xs : List MVal), depthList xs ≤ (packList xs).length
    | [] => by simp [depthList]
    | x :: r => by
      have := depth_le_val x
      have := depth_le_list r
      simp [depthList, packList]; omega
  theorem depth_le_pairs : ∀ (kvs : List (MVal × MVal)), depthPairs kvs ≤ (packPairs kvs).length
    | [] => by simp [depthPairs]
    | (k, v) :: r => by
      have := depth_le_val k
      have := depth_le_val v
      have := depth_le_pairs r
      simp [depthPairs, packPairs]; omega
end

/-- `msgpack.unpackb(msgpack.packb(v)) == v` for every value the wire format can carry -/
theorem unpack_pack (v : MVal) (h : v.WF) : unpack (pack v) = some v := by
  have := rt_val v ((pack v).length + 1) [] h (by have := depth_le_val v; omega)
  simp only [List.append_nil] at this
  simp [unpack, this]


/-! ### the packer emits bytes -/

def IsBytes (bs : Bytes) : Prop := ∀ b ∈ bs, b < 256

mutual
  /-- payloads are byte strings, ext codes fit a byte -/
  def MVal.payloadOK : MVal → Prop
    | .str s => IsBytes s
    | .bin b => IsBytes b
    | .ext code data => code < 256 ∧ IsBytes data
    | .arr xs => payloadOKList xs
    | .map kvs => payloadOKPairs kvs
    | _ => True
  def payloadOKList : List MVal → Prop
    | [] => True
    | x :: r => x.payloadOK ∧ payloadOKList r
  def payloadOKPairs : List (MVal × MVal) → Prop
    | [] => True
    | (k, v) :: r => k.payloadOK ∧ v.payloadOK ∧ payloadOKPairs r
end

theorem isBytes_append {a b : Bytes} (ha : IsBytes a) (hb : IsBytes b) : IsBytes (a ++ b) := by
  intro x hx
  simp only [List.mem_append] at hx
  rcases hx with hx | hx
  · exact ha x hx
  · exact hb x hx

theorem isBytes_cons {a : Nat} {b : Bytes} (ha : a < 256) (hb : IsBytes b) : IsBytes (a :: b) := by
  intro x hx
  simp only [List.mem_cons] at hx
  rcases hx with hx | hx
  · omega
  · exact hb x hx

theorem isBytes_nil : IsBytes [] := by intro x hx; cases hx

theorem isBytes_be : ∀ (k n : Nat), IsBytes (be k n)
  | 0, _ => isBytes_nil
  | k + 1, n => isBytes_cons (Nat.mod_lt _ (by omega)) (isBytes_be k n)

theorem isBytes_single {a : Nat} (ha : a < 256) : IsBytes [a] := isBytes_cons ha isBytes_nil

theorem isBytes_packInt (i : Int) : IsBytes (packInt i) := by
  simp only [packInt]
  split
  · split
    · next h => exact isBytes_single (by omega)
    · split
      · exact isBytes_cons (by omega) (isBytes_be _ _)
      · split
        · exact isBytes_cons (by omega) (isBytes_be _ _)
        · split
          · exact isBytes_cons (by omega) (isBytes_be _ _)
          · exact isBytes_cons (by omega) (isBytes_be _ _)
  · split
    · next h1 h2 => exact isBytes_single (by simp only [ofSigned]; omega)
    · split
      · exact isBytes_cons (by omega) (isBytes_be _ _)
      · split
        · exact isBytes_cons (by omega) (isBytes_be _ _)
        · split
          · exact isBytes_cons (by omega) (isBytes_be _ _)
          · exact isBytes_cons (by omega) (isBytes_be _ _)

theorem isBytes_strHdr (n : Nat) : IsBytes (strHdr n) := by
  simp only [strHdr]
  repeat' split
  all_goals first
    | exact isBytes_cons (by omega) (isBytes_be _ _)
    | exact isBytes_cons (by omega) isBytes_nil

theorem isBytes_binHdr (n : Nat) : IsBytes (binHdr n) := by
  simp only [binHdr]
  repeat' split
  all_goals exact isBytes_cons (by omega) (isBytes_be _ _)

theorem isBytes_arrHdr (n : Nat) : IsBytes (arrHdr n) := by
  simp only [arrHdr]
  repeat' split
  all_goals first
    | exact isBytes_cons (by omega) (isBytes_be _ _)
    | exact isBytes_cons (by omega) isBytes_nil

theorem isBytes_mapHdr (n : Nat) : IsBytes (mapHdr n) := by
  simp only [mapHdr]
  repeat' split
  all_goals first
    | exact isBytes_cons (by omega) (isBytes_be _ _)
    | exact isBytes_cons (by omega) isBytes_nil

theorem isBytes_extHdr (code n : Nat) (h : code < 256) : IsBytes (extHdr code n) := by
  simp only [extHdr]
  repeat' split
  all_goals first
    | exact isBytes_cons (by omega) (isBytes_cons h isBytes_nil)
    | exact isBytes_cons (by omega) (isBytes_append (isBytes_be _ _) (isBytes_cons h isBytes_nil))

mutual
  /-- every number the packer emits is a byte, provided the payloads it is given are bytes -/
  theorem pack_bytes_lt : ∀ (v : MVal), v.payloadOK → IsBytes (pack v)
    | .nil, _ => by simp only [pack]; exact isBytes_cons (by omega) isBytes_nil
    | .bool b, _ => by cases b <;> (simp only [pack]; exact isBytes_cons (by omega) isBytes_nil)
    | .int i, _ => by simpa [pack] using isBytes_packInt i
    | .f64 bits, _ => by simp only [pack]; exact isBytes_cons (by omega) (isBytes_be _ _)
    | .str s, h => by simp only [pack]; exact isBytes_append (isBytes_strHdr _) h
    | .bin b, h => by simp only [pack]; exact isBytes_append (isBytes_binHdr _) h
    | .ext c d, h => by simp only [pack]; exact isBytes_append (isBytes_extHdr c _ h.1) h.2
    | .arr xs, h => by
      simp only [pack]; exact isBytes_append (isBytes_arrHdr _) (packList_bytes_lt xs h)
    | .map kvs, h => by
      simp only [pack]; exact isBytes_append (isBytes_mapHdr _) (packPairs_bytes_lt kvs h)
  theorem packList_bytes_lt : ∀ (xs : List MVal), payloadOKList xs → IsBytes (packList xs)
    | [], _ => isBytes_nil
    | x :: r, h => by
      simp only [packList]
      exact isBytes_append (pack_bytes_lt x h.1) (packList_bytes_lt r h.2)
  theorem packPairs_bytes_lt : ∀ (kvs : List (MVal × MVal)), payloadOKPairs kvs → IsBytes (packPairs kvs)
    | [], _ => isBytes_nil
    | (k, v) :: r, h => by
      simp only [packPairs]
      exact isBytes_append (pack_bytes_lt k h.1)
        (isBytes_append (pack_bytes_lt v h.2.1) (packPairs_bytes_lt r h.2.2))
end

end Flax.Msgpack
