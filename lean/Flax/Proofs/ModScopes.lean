/-
Lemmas about the multi-scope model (Flax/Model/ModScopes.lean): `get_module_scopes` and `set_module_scopes` walk the
module in lock-step; dict flattening order; `_dedup_scopes` entries reconstruct their scopes.
-/
import Flax.Model.ModScopes

namespace Flax.ModScopes

/-! ### sorted dict keys -/

theorem insertKey_perm (x : String × α) : ∀ l : List (String × α), (insertKey x l).Perm (x :: l) := by
  intro l
  induction l with
  | nil => exact List.Perm.refl _
  | cons y ys ih =>
    simp only [insertKey]
    split
    · exact List.Perm.refl _
    · exact (List.Perm.cons y ih).trans (List.Perm.swap x y ys)

theorem sortKeys_perm : ∀ l : List (String × α), (sortKeys l).Perm l := by
  intro l
  induction l with
  | nil => exact List.Perm.refl _
  | cons x xs ih => exact (insertKey_perm x (sortKeys xs)).trans (List.Perm.cons x ih)

theorem mem_sortKeys {l : List (String × α)} {x : String × α} : x ∈ sortKeys l ↔ x ∈ l :=
  (sortKeys_perm l).mem_iff

theorem insertKey_sorted (x : String × α) : ∀ l : List (String × α),
    l.Pairwise (fun a b => a.1 ≤ b.1) → (insertKey x l).Pairwise (fun a b => a.1 ≤ b.1) := by
  intro l
  induction l with
  | nil => intro _; simp [insertKey]
  | cons y ys ih =>
    intro h
    simp only [insertKey]
    rw [List.pairwise_cons] at h
    split
    · rename_i hxy
      rw [List.pairwise_cons]
      refine ⟨?_, List.pairwise_cons.mpr h⟩
      intro z hz
      rcases List.mem_cons.mp hz with e | e
      · subst e; exact hxy
      · exact String.le_trans hxy (h.1 z e)
    · rename_i hxy
      have hyx : y.1 ≤ x.1 := by
        rcases String.le_total x.1 y.1 with h1 | h1
        · exact absurd h1 hxy
        · exact h1
      rw [List.pairwise_cons]
      refine ⟨?_, ih h.2⟩
      intro z hz
      have := (insertKey_perm x ys).mem_iff.mp hz
      rcases List.mem_cons.mp this with e | e
      · subst e; exact hyx
      · exact h.1 z e

theorem sortKeys_sorted : ∀ l : List (String × α), (sortKeys l).Pairwise (fun a b => a.1 ≤ b.1) := by
  intro l
  induction l with
  | nil => simp [sortKeys]
  | cons x xs ih => exact insertKey_sorted x _ ih

/-! ### lock-step of the two traversals -/

/-- scopes handed out position by position -/
def annot (S : List Nat) : Nat → List Owner → List (Owner × Option Nat)
  | _, [] => []
  | i, o :: os => (o, S[i]?) :: annot S (i + 1) os

theorem annot_append (S : List Nat) : ∀ (a : List Owner) (i : Nat) (b : List Owner),
    annot S i (a ++ b) = annot S i a ++ annot S (i + a.length) b := by
  intro a
  induction a with
  | nil => intro i b; simp [annot]
  | cons o os ih =>
    intro i b
    simp only [List.cons_append, annot, ih, List.length_cons]
    have : i + 1 + os.length = i + (os.length + 1) := by omega
    rw [this]

structure Rel (S : List Nat) (g : GSt) (s : SSt) : Prop where
  memo : s.memo = g.seen
  idx : s.idx = g.out.length
  asg : s.asg = annot S 0 g.out

theorem rel_push (S : List Nat) {g : GSt} {s : SSt} (h : Rel S g s) (o : Owner) (seen : List Nat) :
    Rel S { seen := seen, out := g.out ++ [o] } { memo := seen, idx := s.idx + 1, asg := s.asg ++ [(o, S[s.idx]?)] } where
  memo := rfl
  idx := by simp [h.idx]
  asg := by simp [h.asg, annot_append, annot, h.idx]

theorem rel_foldl (ord : List (String × Node) → List (String × Node)) (S : List Nat) (f : Nat)
    (ih : ∀ n g s, Rel S g s → Rel S (getNode ord f n g) (setNode ord S f n s)) :
    ∀ (xs : List Node) (g : GSt) (s : SSt), Rel S g s →
      Rel S (xs.foldl (fun st x => getNode ord f x st) g) (xs.foldl (fun st x => setNode ord S f x st) s) := by
  intro xs
  induction xs with
  | nil => intro g s h; exact h
  | cons x r ihr => intro g s h; exact ihr _ _ (ih x g s h)

theorem rel_node (ord : List (String × Node) → List (String × Node)) (S : List Nat) :
    ∀ (f : Nat) (n : Node) (g : GSt) (s : SSt), Rel S g s → Rel S (getNode ord f n g) (setNode ord S f n s) := by
  intro f
  induction f with
  | zero => intro n g s h; simpa [getNode, setNode] using h
  | succ f ih =>
    intro n g s h
    cases n with
    | mod id scope fields =>
      cases scope with
      | none => simpa [getNode, setNode] using h
      | some sc =>
        simp only [getNode, setNode, h.memo]
        by_cases hm : id ∈ g.seen
        · simpa [hm] using h
        · simp only [hm, ↓reduceIte]
          have h1 := rel_foldl ord S f ih ((ord fields).map (·.2)) g s h
          have := rel_push S h1 (.m id sc) (id :: (List.foldl (fun st x => getNode ord f x st) g ((ord fields).map (·.2))).seen)
          rw [h1.memo]
          exact this
    | var scope =>
      cases scope with
      | none => simpa [getNode, setNode] using h
      | some sc =>
        simp only [getNode, setNode]
        have := rel_push S h (.v sc) g.seen
        rw [← h.memo] at this ⊢
        exact this
    | dict kvs => simp only [getNode, setNode]; exact rel_foldl ord S f ih _ g s h
    | seq xs => simp only [getNode, setNode]; exact rel_foldl ord S f ih _ g s h
    | other => simpa [getNode, setNode] using h

theorem annot_map (fn : Owner → Nat) : ∀ (os : List Owner) (pre : List Nat),
    annot (pre ++ os.map fn) pre.length os = os.map (fun o => (o, some (fn o))) := by
  intro os
  induction os with
  | nil => intro pre; simp [annot]
  | cons o r ih =>
    intro pre
    simp only [annot, List.map_cons]
    have h1 : (pre ++ fn o :: r.map fn)[pre.length]? = some (fn o) := by simp
    rw [h1]
    have := ih (pre ++ [fn o])
    simp only [List.append_assoc, List.singleton_append, List.length_append, List.length_cons, List.length_nil] at this
    rw [this]

/-! ### `_dedup_scopes` -/

theorem maxParent_recon (set : List Path) (leaf : Path) :
    (maxParent set leaf).1 ++ (maxParent set leaf).2 = leaf := by
  unfold maxParent
  have : ∀ (ks : List Nat) (best : Path × List String), best.1 ++ best.2 = leaf →
      ((ks.foldl (fun best k =>
        if leaf.take (leaf.length - (k + 1)) ∈ set then (leaf.take (leaf.length - (k + 1)), leaf.drop (leaf.length - (k + 1)))
        else best) best).1 ++
       (ks.foldl (fun best k =>
        if leaf.take (leaf.length - (k + 1)) ∈ set then (leaf.take (leaf.length - (k + 1)), leaf.drop (leaf.length - (k + 1)))
        else best) best).2) = leaf := by
    intro ks
    induction ks with
    | nil => intro best h; exact h
    | cons k r ih =>
      intro best h
      simp only [List.foldl_cons]
      apply ih
      split
      · exact List.take_append_drop _ _
      · exact h
  exact this _ _ (by simp)

theorem dedupLoop_recon : ∀ (todo set : List Path) (acc : List (Path × List String)),
    (dedupLoop todo set acc).2.map (fun rp => rp.1 ++ rp.2) = acc.map (fun rp => rp.1 ++ rp.2) ++ todo := by
  intro todo
  induction todo with
  | nil => intro set acc; simp [dedupLoop]
  | cons leaf rest ih =>
    intro set acc
    simp only [dedupLoop]
    rw [ih]
    simp [maxParent_recon]

/-- the assignment made by `set_module_scopes` when it is handed the (replaced) scopes `get_module_scopes` collected -/
theorem setAssign_getOwners (ord : List (String × Node) → List (String × Node)) (m : Node) (ρ : Nat → Nat) :
    setAssign ord m ((getOwners ord m).map (fun o => ρ o.scope)) =
      ((getOwners ord m).map (fun o => (o, some (ρ o.scope))), true) := by
  have h := rel_node ord ((getOwners ord m).map (fun o => ρ o.scope)) (m.depth + 1) m ⟨[], []⟩ ⟨[], 0, []⟩
    ⟨rfl, rfl, rfl⟩
  have ha := annot_map (fun o => ρ o.scope) (getOwners ord m) []
  simp only [List.nil_append, List.length_nil] at ha
  have h1 := h.asg
  have h2 := h.idx
  apply Prod.ext
  · simp only [setAssign]
    rw [h1]
    simpa [getOwners] using ha
  · simp only [setAssign, decide_eq_true_eq]
    rw [h2]
    simp [getOwners]

end Flax.ModScopes
