/-
Helper lemmas about `Flax.Model.Scope` / `Flax.Model.ModuleTree` shared by the C01 and C02 property files:
association-list algebra, the frame relation between the store before and after an operation, and its
preservation by every operation and by `eval`.
-/
import Flax.Model.ModuleTree

namespace Flax.ScopeLemmas
open Flax.Filter (LFilter inFilter)
open Flax.Scope Flax.ModuleTree

/-! ### association lists -/

theorem lookupP_upsert_self (q : Path) (v : Val) (l : List (Path × Val)) :
    lookupP q (upsert q v l) = some v := by
  induction l with
  | nil => simp [upsert, lookupP]
  | cons kv rest ih =>
    obtain ⟨k, w⟩ := kv
    by_cases h : k = q
    · simp [upsert, lookupP, h]
    · simp [upsert, lookupP, h, ih]

theorem lookupP_upsert_ne (q q' : Path) (v : Val) (l : List (Path × Val)) (h : q' ≠ q) :
    lookupP q' (upsert q v l) = lookupP q' l := by
  induction l with
  | nil => simp [upsert, lookupP, h.symm]
  | cons kv rest ih =>
    obtain ⟨k, w⟩ := kv
    by_cases hk : k = q
    · subst hk
      simp [upsert, lookupP, h.symm]
    · by_cases hk' : k = q'
      · subst hk'
        simp [upsert, lookupP, h]
      · simp [upsert, lookupP, hk, hk', ih]


theorem lookupP_filter_key (P : Path → Bool) (q : Path) (hq : P q = true) (l : List (Path × Val)) :
    lookupP q (l.filter (fun kv => P kv.1)) = lookupP q l := by
  induction l with
  | nil => rfl
  | cons kv rest ih =>
    obtain ⟨k, v⟩ := kv
    by_cases hk : k = q
    · subst hk
      simp [List.filter, hq, lookupP]
    · by_cases hp : P k = true
      · simp [List.filter, hp, lookupP, hk, ih]
      · simp [List.filter, hp, lookupP, hk, ih]

theorem lookupP_filter_key_none (P : Path → Bool) (q : Path) (hq : P q = false) (l : List (Path × Val)) :
    lookupP q (l.filter (fun kv => P kv.1)) = none := by
  induction l with
  | nil => rfl
  | cons kv rest ih =>
    obtain ⟨k, v⟩ := kv
    by_cases hk : k = q
    · subst hk; simp [List.filter, hq, ih]
    · by_cases hp : P k = true
      · simp [List.filter, hp, lookupP, hk, ih]
      · simp [List.filter, hp, ih]

/-- does the path lie in a collection selected by `m` -/
def headMutable (m : LFilter) (q : Path) : Bool :=
  match q with
  | c :: _ => inFilter m c
  | [] => false

theorem mutableVariables_vars (s : Store) :
    (mutableVariables s).vars = s.vars.filter (fun kv => headMutable s.mutable kv.1) := rfl

/-! ### binding the argument width is invisible to the syntactic predicates -/

theorem sowCols_bindW (w : Nat) : ∀ p : SProg, sowCols (bindW w p) = sowCols p
  | .seq a b => by simp [bindW, sowCols, sowCols_bindW w a, sowCols_bindW w b]
  | .param _ _ _ => rfl
  | .skip => rfl | .bind _ => rfl | .ret _ => rfl | .var _ _ _ _ => rfl | .get _ _ => rfl
  | .put _ _ _ _ => rfl | .sow _ _ _ => rfl | .perturb _ _ _ => rfl | .child _ _ _ => rfl | .call _ _ _ => rfl
  | .nested _ _ _ _ => rfl

theorem otherCols_bindW (w : Nat) : ∀ p : SProg, otherCols (bindW w p) = otherCols p
  | .seq a b => by simp [bindW, otherCols, otherCols_bindW w a, otherCols_bindW w b]
  | .param _ _ _ => rfl
  | .skip => rfl | .bind _ => rfl | .ret _ => rfl | .var _ _ _ _ => rfl | .get _ _ => rfl
  | .put _ _ _ _ => rfl | .sow _ _ _ => rfl | .perturb _ _ _ => rfl | .child _ _ _ => rfl | .call _ _ _ => rfl
  | .nested _ _ _ _ => rfl

theorem eraseSow_bindW (w : Nat) : ∀ p : SProg, eraseSow (bindW w p) = bindW w (eraseSow p)
  | .seq a b => by simp [bindW, eraseSow, eraseSow_bindW w a, eraseSow_bindW w b]
  | .param _ _ _ => rfl
  | .skip => rfl | .bind _ => rfl | .ret _ => rfl | .var _ _ _ _ => rfl | .get _ _ => rfl
  | .put _ _ _ _ => rfl | .sow _ _ _ => rfl | .perturb _ _ _ => rfl | .child _ _ _ => rfl | .call _ _ _ => rfl
  | .nested _ _ _ _ => rfl

theorem declOnly_bindW (w : Nat) : ∀ p : SProg, declOnly (bindW w p) = declOnly p
  | .seq a b => by simp [bindW, declOnly, declOnly_bindW w a, declOnly_bindW w b]
  | .param _ _ _ => rfl
  | .skip => rfl | .bind _ => rfl | .ret _ => rfl | .var _ _ _ _ => rfl | .get _ _ => rfl
  | .put _ _ _ _ => rfl | .sow _ _ _ => rfl | .perturb _ _ _ => rfl | .child _ _ _ => rfl | .call _ _ _ => rfl
  | .nested _ _ _ _ => rfl

theorem sowCols_bindArg (w : Option Nat) (p : SProg) : sowCols (bindArg w p) = sowCols p := by
  cases w <;> simp [bindArg, sowCols_bindW]

theorem otherCols_bindArg (w : Option Nat) (p : SProg) : otherCols (bindArg w p) = otherCols p := by
  cases w <;> simp [bindArg, otherCols_bindW]

theorem eraseSow_bindArg (w : Option Nat) (p : SProg) : eraseSow (bindArg w p) = bindArg w (eraseSow p) := by
  cases w <;> simp [bindArg, eraseSow_bindW]

theorem declOnly_bindArg (w : Option Nat) (p : SProg) : declOnly (bindArg w p) = declOnly p := by
  cases w <;> simp [bindArg, declOnly_bindW]

/-! ### the frame relation -/

/-- every collection selected by `mutable` is owned by the scope (a fresh copy or created by it) -/
def OwnedInv (s : Store) : Prop := ∀ c ∈ s.cols, inFilter s.mutable c.1 = true → c.2 = true

/-- what any sequence of scope operations may change between `s` and `s'` -/
structure Frame (s s' : Store) : Prop where
  mutable_eq : s'.mutable = s.mutable
  rngs_eq : s'.rngs = s.rngs
  imm : ∀ c rest, inFilter s.mutable c = false → lookupP (c :: rest) s'.vars = lookupP (c :: rest) s.vars
  cols_old : ∀ c, c ∈ s.cols → c ∈ s'.cols
  cols_new : ∀ c, c ∈ s'.cols → c ∈ s.cols ∨ (inFilter s.mutable c.1 = true ∧ c.2 = true)
  dirty : OwnedInv s → s'.dirty = s.dirty
  inits_imm : inFilter s.mutable "params" = false → s'.inits = s.inits
  inits_le : s.inits ≤ s'.inits

theorem Frame.refl (s : Store) : Frame s s :=
  ⟨rfl, rfl, fun _ _ _ => rfl, fun _ h => h, fun _ h => Or.inl h, fun _ => rfl, fun _ => rfl, Nat.le_refl _⟩

theorem Frame.owned {s s' : Store} (f : Frame s s') (h : OwnedInv s) : OwnedInv s' := by
  intro c hc hm
  rcases f.cols_new c hc with h1 | h1
  · exact h c h1 (by rw [← f.mutable_eq]; exact hm)
  · exact h1.2

theorem Frame.trans {s s' s'' : Store} (f : Frame s s') (g : Frame s' s'') : Frame s s'' where
  mutable_eq := by rw [g.mutable_eq, f.mutable_eq]
  rngs_eq := by rw [g.rngs_eq, f.rngs_eq]
  imm := by
    intro c rest h
    rw [g.imm c rest (by rw [f.mutable_eq]; exact h), f.imm c rest h]
  cols_old := fun c h => g.cols_old c (f.cols_old c h)
  cols_new := by
    intro c h
    rcases g.cols_new c h with h1 | h1
    · exact f.cols_new c h1
    · right; rw [← f.mutable_eq]; exact h1
  dirty := by
    intro h
    rw [g.dirty (f.owned h), f.dirty h]
  inits_imm := by
    intro h
    rw [g.inits_imm (by rw [f.mutable_eq]; exact h), f.inits_imm h]
  inits_le := Nat.le_trans f.inits_le g.inits_le

theorem borrowed_false_of_owned {s : Store} (h : OwnedInv s) {col : String}
    (hm : inFilter s.mutable col = true) : borrowed s col = false := by
  unfold borrowed
  rw [Bool.eq_false_iff]
  intro hb
  rw [List.any_eq_true] at hb
  obtain ⟨c, hc, hcc⟩ := hb
  simp only [Bool.and_eq_true, decide_eq_true_eq, Bool.not_eq_true'] at hcc
  have := h c hc (by rw [hcc.1]; exact hm)
  rw [this] at hcc
  exact absurd hcc.2 (by simp)

theorem putVar_frame (π : Path) (col n : String) (v : Val) (s : Store) :
    Frame s (putVar π col n v s).2 := by
  unfold putVar
  by_cases hm : isMutable s col = true
  · simp only [hm, Bool.not_true, Bool.false_eq_true, if_false]
    by_cases hc : conflict s.vars (fullPath col π n) = true
    · simp only [hc, if_true]; exact Frame.refl s
    · simp only [hc, Bool.false_eq_true, if_false]
      unfold isMutable at hm
      refine ⟨rfl, rfl, ?_, ?_, ?_, ?_, fun _ => rfl, Nat.le_refl _⟩
      · intro c rest h
        apply lookupP_upsert_ne
        intro heq
        unfold fullPath at heq
        have : c = col := by injection heq
        rw [this, hm] at h
        exact absurd h (by simp)
      · intro c h
        by_cases hh : hasCol s col = true
        · simp only [hh, if_true]; exact h
        · simp only [hh, Bool.false_eq_true, if_false]; exact List.mem_append_left _ h
      · intro c h
        by_cases hh : hasCol s col = true
        · simp only [hh, if_true] at h; exact Or.inl h
        · simp only [hh, Bool.false_eq_true, if_false] at h
          rcases List.mem_append.mp h with h1 | h1
          · exact Or.inl h1
          · right
            simp only [List.mem_singleton] at h1
            subst h1
            exact ⟨hm, rfl⟩
      · intro ho
        simp [borrowed_false_of_owned ho hm]
  · simp only [hm, Bool.not_false, if_true]; exact Frame.refl s


theorem frame_bump_inits (s : Store) (hm : inFilter s.mutable "params" = true) :
    Frame s { s with inits := s.inits + 1 } :=
  ⟨rfl, rfl, fun _ _ _ => rfl, fun _ h => h, fun _ h => Or.inl h, fun _ => rfl,
    (by intro h; rw [hm] at h; exact absurd h (by simp)), Nat.le_succ _⟩

theorem scopeParam_frame (π : Path) (n : String) (shape : List Nat) (init : Int) (r : Res) (s : Store) :
    Frame s (scopeParam π n shape init r s).2 := by
  unfold scopeParam
  split
  · exact Frame.refl s
  · split
    · split
      · exact Frame.refl s
      · split <;> exact Frame.refl s
    · split
      · split <;> exact Frame.refl s
      · rename_i hm
        split
        · exact Frame.refl s
        · have hm' : inFilter s.mutable "params" = true := by
            unfold isMutable at hm; simpa using hm
          have f2 := putVar_frame π "params" n (Val.full shape init) { s with inits := s.inits + 1 }
          split
          · rename_i heq; rw [heq] at f2; exact (frame_bump_inits s hm').trans f2
          · rename_i heq; rw [heq] at f2; exact (frame_bump_inits s hm').trans f2

theorem scopeVariable_frame (π : Path) (col n : String) (iv : Val) (r : Res) (s : Store) :
    Frame s (scopeVariable π col n iv r s).2 := by
  unfold scopeVariable
  split
  · exact Frame.refl s
  · split
    · exact Frame.refl s
    · split
      · split <;> exact Frame.refl s
      · have f2 := putVar_frame π col n iv s
        split
        · rename_i heq; rw [heq] at f2; exact f2
        · rename_i heq; rw [heq] at f2; exact f2

theorem moduleSow_frame (π : Path) (col n : String) (e : Int) (r : Res) (s : Store) :
    Frame s (moduleSow π col n e r s).2 := by
  unfold moduleSow
  split
  · exact Frame.refl s
  · split
    · rename_i xs _
      have f2 := putVar_frame π col n (.tup (xs ++ [([], [e])])) s
      split
      · rename_i heq; rw [heq] at f2; exact f2
      · rename_i heq; rw [heq] at f2; exact f2
    · exact Frame.refl s
    · split
      · exact Frame.refl s
      · have f2 := putVar_frame π col n (.tup [([], [e])]) s
        split
        · rename_i heq; rw [heq] at f2; exact f2
        · rename_i heq; rw [heq] at f2; exact f2

theorem modulePerturb_frame (π : Path) (col n : String) (e : Int) (r : Res) (s : Store) :
    Frame s (modulePerturb π col n e r s).2 := by
  unfold modulePerturb
  have key : ∀ (st : Except Err Res × Store), Frame s st.2 →
      Frame s (match st with
        | (.error err, s') => ((.error err : Except Err (Int × Res)), s')
        | (.ok r', s') =>
          if hasCol s' col then
            match getVar s' π col n with
            | some (.tensor _ d) => (.ok (e * (d.length : Int) + sumInt d, r'), s')
            | some (.tup _) => (.error .unsupported, s')
            | none => (.error .perturbMissing, s')
          else (.ok (e, r'), s')).2 := by
    intro st hst
    obtain ⟨res, s'⟩ := st
    cases res with
    | error err => exact hst
    | ok r' =>
      simp only
      split
      · split <;> exact hst
      · exact hst
  apply key
  split
  · split
    · exact Frame.refl s
    · have f2 := putVar_frame π col n (.tensor [] [0]) s
      split
      · rename_i heq; rw [heq] at f2; exact f2
      · rename_i heq; rw [heq] at f2; exact f2
  · exact Frame.refl s

theorem finishCall_frame (cfg : Cfg) (π : Path) (l : Local) (s : Store) :
    Frame s (finishCall cfg π l s).2 := by
  unfold finishCall
  split
  · have f2 := moduleSow_frame π "intermediates" "__call__" l.out l.res s
    split
    · rename_i heq; rw [heq] at f2; exact f2
    · rename_i heq; rw [heq] at f2; exact f2
  · exact Frame.refl s

theorem eval_frame (cfg : Cfg) : ∀ (fuel : Nat) (p : SProg) (π : Path) (x : Int) (l : Local) (s : Store),
    Frame s (eval cfg fuel p π x l s).2 := by
  intro fuel
  induction fuel with
  | zero => intro p π x l s; simp only [eval]; exact Frame.refl s
  | succ fuel ih =>
    intro p π x l s
    cases p with
    | skip => simp only [eval]; exact Frame.refl s
    | seq a b =>
      simp only [eval]
      have f1 := ih a π x l s
      split
      · rename_i l1 s1 heq
        rw [heq] at f1
        exact f1.trans (ih b π x l1 s1)
      · rename_i heq; rw [heq] at f1; exact f1
    | bind e => simp only [eval]; split <;> exact Frame.refl s
    | ret e => simp only [eval]; split <;> exact Frame.refl s
    | param n shape init =>
      simp only [eval]
      have f1 := scopeParam_frame π n (resolveDims shape) init l.res s
      split
      · rename_i heq; rw [heq] at f1; exact f1
      · rename_i heq; rw [heq] at f1; exact f1
    | var col n shape init =>
      simp only [eval]
      split
      · exact Frame.refl s
      · rename_i iv _
        have f1 := scopeVariable_frame π col n (Val.full shape iv) l.res s
        split
        · rename_i heq; rw [heq] at f1; exact f1
        · rename_i heq; rw [heq] at f1
          split <;> exact f1
    | get col n => simp only [eval]; split <;> exact Frame.refl s
    | put col rel n e =>
      simp only [eval]
      split
      · exact Frame.refl s
      · rename_i v _
        have f1 := putVar_frame (π ++ rel) col n (.tensor [] [v]) s
        split
        · rename_i heq; rw [heq] at f1; exact f1
        · rename_i heq; rw [heq] at f1; exact f1
    | sow col n e =>
      simp only [eval]
      split
      · exact Frame.refl s
      · rename_i v _
        have f1 := moduleSow_frame π col n v l.res s
        split
        · rename_i heq; rw [heq] at f1; exact f1
        · rename_i heq; rw [heq] at f1; exact f1
    | perturb col n e =>
      simp only [eval]
      split
      · exact Frame.refl s
      · rename_i v _
        have f1 := modulePerturb_frame π col n v l.res s
        split
        · rename_i heq; rw [heq] at f1; exact f1
        · rename_i heq; rw [heq] at f1; exact f1
    | child cls name body =>
      simp only [eval]
      split
      · exact Frame.refl s
      · split <;> exact Frame.refl s
    | call slot a w =>
      simp only [eval]
      split
      · exact Frame.refl s
      · rename_i k _
        split
        · exact Frame.refl s
        · rename_i av _
          have f1 := ih (bindArg w k.body) (π ++ [k.name]) av {} s
          split
          · rename_i heq; rw [heq] at f1; exact f1
          · rename_i lk s1 heq
            rw [heq] at f1
            have f2 := finishCall_frame cfg (π ++ [k.name]) lk s1
            split
            · rename_i heq2; rw [heq2] at f2; exact f1.trans f2
            · rename_i heq2; rw [heq2] at f2; exact f1.trans f2

    | nested body m V a =>
      simp only [eval]
      split
      · exact Frame.refl s
      · split
        · exact Frame.refl s
        · split <;> exact Frame.refl s

theorem runTop_frame (cfg : Cfg) (fuel : Nat) (p : SProg) (x : Int) (s : Store) :
    Frame s (runTop cfg fuel p x s).2 := by
  unfold runTop
  have f1 := eval_frame cfg fuel p [] x {} s
  split
  · rename_i heq; rw [heq] at f1; exact f1
  · rename_i l s1 heq
    rw [heq] at f1
    have f2 := finishCall_frame cfg [] l s1
    split
    · rename_i heq2; rw [heq2] at f2; exact f1.trans f2
    · rename_i heq2; rw [heq2] at f2; exact f1.trans f2


/-! ### the same induction for any relation closed under the store steps

Every change of the store made by `eval` at scope path `π` is a `put_variable` at `π` or at a
descendant of `π`, or a bump of the ghost initialisation counter.  `StepRel` packages what a relation
must satisfy for the induction over programs to go through once and for all. -/

structure StepRel (R : Path → Store → Store → Prop) : Prop where
  refl : ∀ π s, R π s s
  trans : ∀ π s s' s'', R π s s' → R π s' s'' → R π s s''
  put : ∀ π col n v s, R π s (putVar π col n v s).2
  bump : ∀ π s, inFilter s.mutable "params" = true → R π s { s with inits := s.inits + 1 }
  child : ∀ π nm s s', R (π ++ [nm]) s s' → R π s s'

section
variable {R : Path → Store → Store → Prop}

theorem StepRel.descend (hR : StepRel R) : ∀ (π rel : Path) (s s' : Store), R (π ++ rel) s s' → R π s s' := by
  intro π rel
  induction rel generalizing π with
  | nil => intro s s' h; simpa using h
  | cons a rest ih =>
    intro s s' h
    apply hR.child π a
    apply ih (π ++ [a])
    simpa using h

theorem scopeParam_rel (hR : StepRel R) (π : Path) (n : String) (shape : List Nat) (init : Int) (r : Res) (s : Store) :
    R π s (scopeParam π n shape init r s).2 := by
  unfold scopeParam
  split
  · exact hR.refl π s
  · split
    · split
      · exact hR.refl π s
      · split <;> exact hR.refl π s
    · split
      · split <;> exact hR.refl π s
      · rename_i hm
        split
        · exact hR.refl π s
        · have hm' : inFilter s.mutable "params" = true := by
            unfold isMutable at hm; simpa using hm
          have f2 := hR.put π "params" n (Val.full shape init) { s with inits := s.inits + 1 }
          split
          · rename_i heq; rw [heq] at f2; exact hR.trans _ _ _ _ (hR.bump π s hm') f2
          · rename_i heq; rw [heq] at f2; exact hR.trans _ _ _ _ (hR.bump π s hm') f2

theorem scopeVariable_rel (hR : StepRel R) (π : Path) (col n : String) (iv : Val) (r : Res) (s : Store) :
    R π s (scopeVariable π col n iv r s).2 := by
  unfold scopeVariable
  split
  · exact hR.refl π s
  · split
    · exact hR.refl π s
    · split
      · split <;> exact hR.refl π s
      · have f2 := hR.put π col n iv s
        split
        · rename_i heq; rw [heq] at f2; exact f2
        · rename_i heq; rw [heq] at f2; exact f2

theorem moduleSow_rel (hR : StepRel R) (π : Path) (col n : String) (e : Int) (r : Res) (s : Store) :
    R π s (moduleSow π col n e r s).2 := by
  unfold moduleSow
  split
  · exact hR.refl π s
  · split
    · rename_i xs _
      have f2 := hR.put π col n (.tup (xs ++ [([], [e])])) s
      split
      · rename_i heq; rw [heq] at f2; exact f2
      · rename_i heq; rw [heq] at f2; exact f2
    · exact hR.refl π s
    · split
      · exact hR.refl π s
      · have f2 := hR.put π col n (.tup [([], [e])]) s
        split
        · rename_i heq; rw [heq] at f2; exact f2
        · rename_i heq; rw [heq] at f2; exact f2

theorem modulePerturb_rel (hR : StepRel R) (π : Path) (col n : String) (e : Int) (r : Res) (s : Store) :
    R π s (modulePerturb π col n e r s).2 := by
  unfold modulePerturb
  have key : ∀ (st : Except Err Res × Store), R π s st.2 →
      R π s (match st with
        | (.error err, s') => ((.error err : Except Err (Int × Res)), s')
        | (.ok r', s') =>
          if hasCol s' col then
            match getVar s' π col n with
            | some (.tensor _ d) => (.ok (e * (d.length : Int) + sumInt d, r'), s')
            | some (.tup _) => (.error .unsupported, s')
            | none => (.error .perturbMissing, s')
          else (.ok (e, r'), s')).2 := by
    intro st hst
    obtain ⟨res, s'⟩ := st
    cases res with
    | error err => exact hst
    | ok r' =>
      simp only
      split
      · split <;> exact hst
      · exact hst
  apply key
  split
  · split
    · exact hR.refl π s
    · have f2 := hR.put π col n (.tensor [] [0]) s
      split
      · rename_i heq; rw [heq] at f2; exact f2
      · rename_i heq; rw [heq] at f2; exact f2
  · exact hR.refl π s

theorem finishCall_rel (hR : StepRel R) (cfg : Cfg) (π : Path) (l : Local) (s : Store) :
    R π s (finishCall cfg π l s).2 := by
  unfold finishCall
  split
  · have f2 := moduleSow_rel hR π "intermediates" "__call__" l.out l.res s
    split
    · rename_i heq; rw [heq] at f2; exact f2
    · rename_i heq; rw [heq] at f2; exact f2
  · exact hR.refl π s

theorem eval_rel (hR : StepRel R) (cfg : Cfg) : ∀ (fuel : Nat) (p : SProg) (π : Path) (x : Int) (l : Local) (s : Store),
    R π s (eval cfg fuel p π x l s).2 := by
  intro fuel
  induction fuel with
  | zero => intro p π x l s; simp only [eval]; exact hR.refl π s
  | succ fuel ih =>
    intro p π x l s
    cases p with
    | skip => simp only [eval]; exact hR.refl π s
    | seq a b =>
      simp only [eval]
      have f1 := ih a π x l s
      split
      · rename_i l1 s1 heq
        rw [heq] at f1
        exact hR.trans _ _ _ _ f1 (ih b π x l1 s1)
      · rename_i heq; rw [heq] at f1; exact f1
    | bind e => simp only [eval]; split <;> exact hR.refl π s
    | ret e => simp only [eval]; split <;> exact hR.refl π s
    | param n shape init =>
      simp only [eval]
      have f1 := scopeParam_rel hR π n (resolveDims shape) init l.res s
      split
      · rename_i heq; rw [heq] at f1; exact f1
      · rename_i heq; rw [heq] at f1; exact f1
    | var col n shape init =>
      simp only [eval]
      split
      · exact hR.refl π s
      · rename_i iv _
        have f1 := scopeVariable_rel hR π col n (Val.full shape iv) l.res s
        split
        · rename_i heq; rw [heq] at f1; exact f1
        · rename_i heq; rw [heq] at f1
          split <;> exact f1
    | get col n => simp only [eval]; split <;> exact hR.refl π s
    | put col rel n e =>
      simp only [eval]
      split
      · exact hR.refl π s
      · rename_i v _
        have f1 := hR.descend π rel _ _ (hR.put (π ++ rel) col n (.tensor [] [v]) s)
        split
        · rename_i heq; rw [heq] at f1; exact f1
        · rename_i heq; rw [heq] at f1; exact f1
    | sow col n e =>
      simp only [eval]
      split
      · exact hR.refl π s
      · rename_i v _
        have f1 := moduleSow_rel hR π col n v l.res s
        split
        · rename_i heq; rw [heq] at f1; exact f1
        · rename_i heq; rw [heq] at f1; exact f1
    | perturb col n e =>
      simp only [eval]
      split
      · exact hR.refl π s
      · rename_i v _
        have f1 := modulePerturb_rel hR π col n v l.res s
        split
        · rename_i heq; rw [heq] at f1; exact f1
        · rename_i heq; rw [heq] at f1; exact f1
    | child cls name body =>
      simp only [eval]
      split
      · exact hR.refl π s
      · split <;> exact hR.refl π s
    | call slot a w =>
      simp only [eval]
      split
      · exact hR.refl π s
      · rename_i k _
        split
        · exact hR.refl π s
        · rename_i av _
          have f1 := ih (bindArg w k.body) (π ++ [k.name]) av {} s
          split
          · rename_i heq; rw [heq] at f1; exact hR.child _ _ _ _ f1
          · rename_i lk s1 heq
            rw [heq] at f1
            have f2 := finishCall_rel hR cfg (π ++ [k.name]) lk s1
            split
            · rename_i heq2; rw [heq2] at f2; exact hR.child _ _ _ _ (hR.trans _ _ _ _ f1 f2)
            · rename_i heq2; rw [heq2] at f2; exact hR.child _ _ _ _ (hR.trans _ _ _ _ f1 f2)

    | nested body m V a =>
      simp only [eval]
      split
      · exact hR.refl π s
      · split
        · exact hR.refl π s
        · split <;> exact hR.refl π s

theorem runTop_rel (hR : StepRel R) (cfg : Cfg) (fuel : Nat) (p : SProg) (x : Int) (s : Store) :
    R [] s (runTop cfg fuel p x s).2 := by
  unfold runTop
  have f1 := eval_rel hR cfg fuel p [] x {} s
  split
  · rename_i heq; rw [heq] at f1; exact f1
  · rename_i l s1 heq
    rw [heq] at f1
    have f2 := finishCall_rel hR cfg [] l s1
    split
    · rename_i heq2; rw [heq2] at f2; exact hR.trans _ _ _ _ f1 f2
    · rename_i heq2; rw [heq2] at f2; exact hR.trans _ _ _ _ f1 f2


end

/-! ### reservations only grow within one execution of a body -/

theorem reserve_mono {r r1 : Res} {n : String} {c : Option String} (h : reserve r n c = .ok r1) :
    r1 = (n, c) :: r := by
  unfold reserve at h
  split at h
  · exact absurd h (by simp)
  · injection h with h; exact h.symm

theorem scopeParam_res {π : Path} {n : String} {shape : List Nat} {init : Int} {r r1 : Res} {s s1 : Store}
    {v : Val} (h : scopeParam π n shape init r s = (.ok (v, r1), s1)) : r1 = (n, some "params") :: r := by
  unfold scopeParam at h
  cases hr : reserve r n (some "params") with
  | error e => simp [hr] at h
  | ok r2 =>
    have := reserve_mono hr
    simp only [hr] at h
    split at h
    · split at h
      · simp only [Prod.mk.injEq, Except.ok.injEq] at h; rw [← h.1.2]; exact this
      · split at h
        · simp only [Prod.mk.injEq, Except.ok.injEq] at h; rw [← h.1.2]; exact this
        · simp at h
    · split at h
      · split at h <;> simp at h
      · split at h
        · simp at h
        · split at h
          · simp only [Prod.mk.injEq, Except.ok.injEq] at h; rw [← h.1.2]; exact this
          · simp at h

theorem scopeVariable_res {π : Path} {col n : String} {iv : Val} {r r1 : Res} {s s1 : Store}
    (h : scopeVariable π col n iv r s = (.ok r1, s1)) : r1 = (n, some col) :: r := by
  unfold scopeVariable at h
  cases hr : reserve r n (some col) with
  | error e => simp [hr] at h
  | ok r2 =>
    have := reserve_mono hr
    simp only [hr] at h
    split at h
    · simp only [Prod.mk.injEq, Except.ok.injEq] at h; rw [← h.1]; exact this
    · split at h
      · split at h <;> simp at h
      · split at h
        · simp only [Prod.mk.injEq, Except.ok.injEq] at h; rw [← h.1]; exact this
        · simp at h

theorem moduleSow_res {π : Path} {col n : String} {e : Int} {r r1 : Res} {s s1 : Store}
    (h : moduleSow π col n e r s = (.ok r1, s1)) : ∀ x ∈ r, x ∈ r1 := by
  unfold moduleSow at h
  split at h
  · simp only [Prod.mk.injEq, Except.ok.injEq] at h; rw [← h.1]; exact fun _ hx => hx
  · split at h
    · split at h
      · simp only [Prod.mk.injEq, Except.ok.injEq] at h; rw [← h.1]; exact fun _ hx => hx
      · simp at h
    · simp at h
    · split at h
      · simp at h
      · rename_i r2 hr
        split at h
        · simp only [Prod.mk.injEq, Except.ok.injEq] at h
          rw [← h.1, reserve_mono hr]
          exact fun _ hx => List.mem_cons_of_mem _ hx
        · simp at h

theorem modulePerturb_res {π : Path} {col n : String} {e y : Int} {r r1 : Res} {s s1 : Store}
    (h : modulePerturb π col n e r s = (.ok (y, r1), s1)) : ∀ x ∈ r, x ∈ r1 := by
  unfold modulePerturb at h
  have key : ∀ (st : Except Err Res × Store), (∀ q, st.1 = .ok q → ∀ x ∈ r, x ∈ q) →
      (match st with
        | (.error err, s') => ((.error err : Except Err (Int × Res)), s')
        | (.ok r', s') =>
          if hasCol s' col then
            match getVar s' π col n with
            | some (.tensor _ d) => (.ok (e * (d.length : Int) + sumInt d, r'), s')
            | some (.tup _) => (.error .unsupported, s')
            | none => (.error .perturbMissing, s')
          else (.ok (e, r'), s')) = (.ok (y, r1), s1) → ∀ x ∈ r, x ∈ r1 := by
    intro st hst hh
    obtain ⟨res, s'⟩ := st
    cases res with
    | error err => simp at hh
    | ok r' =>
      have hr' := hst r' rfl
      simp only at hh
      split at hh
      · split at hh
        · simp only [Prod.mk.injEq, Except.ok.injEq] at hh; rw [← hh.1.2]; exact hr'
        · simp at hh
        · simp at hh
      · simp only [Prod.mk.injEq, Except.ok.injEq] at hh; rw [← hh.1.2]; exact hr'
  apply key _ _ h
  intro q hq
  split at hq
  · split at hq
    · simp at hq
    · rename_i r2 hr
      split at hq
      · simp only [Except.ok.injEq] at hq
        rw [← hq, reserve_mono hr]
        exact fun _ hx => List.mem_cons_of_mem _ hx
      · simp at hq
  · simp only [Except.ok.injEq] at hq; rw [← hq]; exact fun _ hx => hx

/-- within one execution of a body the reservations only grow (they are reset between calls) -/
theorem eval_res_mono (cfg : Cfg) : ∀ (fuel : Nat) (p : SProg) (π : Path) (x : Int) (l l1 : Local) (s s1 : Store),
    eval cfg fuel p π x l s = (.ok l1, s1) → ∀ e ∈ l.res, e ∈ l1.res := by
  intro fuel
  induction fuel with
  | zero => intro p π x l l1 s s1 h; simp [eval] at h
  | succ fuel ih =>
    intro p π x l l1 s s1 h
    cases p with
    | skip =>
      simp only [eval, Prod.mk.injEq, Except.ok.injEq] at h
      rw [← h.1]; exact fun _ hx => hx
    | seq a b =>
      simp only [eval] at h
      cases ha : eval cfg fuel a π x l s with
      | mk res s2 =>
        rw [ha] at h
        cases res with
        | error e => simp at h
        | ok l2 =>
          intro e he
          exact ih b π x l2 l1 s2 s1 h e (ih a π x l l2 s s2 ha e he)
    | bind e =>
      simp only [eval] at h
      split at h
      · simp only [Prod.mk.injEq, Except.ok.injEq] at h; rw [← h.1]; exact fun _ hx => hx
      · simp at h
    | ret e =>
      simp only [eval] at h
      split at h
      · simp only [Prod.mk.injEq, Except.ok.injEq] at h; rw [← h.1]; exact fun _ hx => hx
      · simp at h
    | param n shape init =>
      simp only [eval] at h
      split at h
      · rename_i v r s2 heq
        simp only [Prod.mk.injEq, Except.ok.injEq] at h
        rw [← h.1]
        simp only [scopeParam_res heq]
        exact fun _ hx => List.mem_cons_of_mem _ hx
      · simp at h
    | var col n shape init =>
      simp only [eval] at h
      split at h
      · simp at h
      · split at h
        · simp at h
        · rename_i r s2 heq
          split at h
          · simp only [Prod.mk.injEq, Except.ok.injEq] at h
            rw [← h.1]
            simp only [scopeVariable_res heq]
            exact fun _ hx => List.mem_cons_of_mem _ hx
          · simp at h
    | get col n =>
      simp only [eval] at h
      split at h <;>
        (simp only [Prod.mk.injEq, Except.ok.injEq] at h; rw [← h.1]; exact fun _ hx => hx)
    | put col rel n e =>
      simp only [eval] at h
      split at h
      · simp at h
      · split at h
        · simp only [Prod.mk.injEq, Except.ok.injEq] at h; rw [← h.1]; exact fun _ hx => hx
        · simp at h
    | sow col n e =>
      simp only [eval] at h
      split at h
      · simp at h
      · split at h
        · rename_i heq
          simp only [Prod.mk.injEq, Except.ok.injEq] at h
          rw [← h.1]
          exact moduleSow_res heq
        · simp at h
    | perturb col n e =>
      simp only [eval] at h
      split at h
      · simp at h
      · split at h
        · rename_i heq
          simp only [Prod.mk.injEq, Except.ok.injEq] at h
          rw [← h.1]
          exact modulePerturb_res heq
        · simp at h
    | child cls name body =>
      simp only [eval] at h
      split at h
      · simp at h
      · split at h
        · simp at h
        · rename_i r hr
          simp only [Prod.mk.injEq, Except.ok.injEq] at h
          rw [← h.1]
          simp only [reserve_mono hr]
          exact fun _ hx => List.mem_cons_of_mem _ hx
    | call slot a w =>
      simp only [eval] at h
      split at h
      · simp at h
      · split at h
        · simp at h
        · split at h
          · simp at h
          · split at h
            · simp at h
            · simp only [Prod.mk.injEq, Except.ok.injEq] at h
              rw [← h.1]; exact fun _ hx => hx


    | nested body m V a =>
      simp only [eval] at h
      split at h
      · simp at h
      · split at h
        · simp at h
        · split at h
          · simp at h
          · simp only [Prod.mk.injEq, Except.ok.injEq] at h
            rw [← h.1]; exact fun _ hx => hx

/-! ### fuel: a run that did not run out of fuel is unchanged by more fuel -/

theorem eval_fuel_mono : ∀ (fuel : Nat) (cfg : Cfg) (p : SProg) (π : Path) (x : Int) (l : Local) (s : Store),
    (eval cfg fuel p π x l s).1 ≠ .error .fuel → eval cfg (fuel + 1) p π x l s = eval cfg fuel p π x l s := by
  intro fuel
  induction fuel with
  | zero => intro cfg p π x l s h; simp [eval] at h
  | succ fuel ih =>
    intro cfg p π x l s h
    cases p with
    | seq a b =>
      simp only [eval] at h
      rw [eval, eval]
      simp only
      cases ha : eval cfg fuel a π x l s with
      | mk res s1 =>
        rw [ha] at h
        have hane : (eval cfg fuel a π x l s).1 ≠ .error .fuel := by
          rw [ha]
          cases res with
          | error e => simpa using h
          | ok l1 => simp
        rw [ih cfg a π x l s hane, ha]
        cases res with
        | error e => rfl
        | ok l1 =>
          simp only at h ⊢
          exact ih cfg b π x l1 s1 h
    | call slot a w =>
      simp only [eval] at h
      rw [eval, eval]
      simp only
      cases hk : l.kids[slot]? with
      | none => rfl
      | some k =>
        simp only [hk] at h ⊢
        cases he : evalE x l.env a with
        | error err => rfl
        | ok av =>
          simp only [he] at h ⊢
          cases hb : eval cfg fuel (bindArg w k.body) (π ++ [k.name]) av {} s with
          | mk res s1 =>
            rw [hb] at h
            have hbne : (eval cfg fuel (bindArg w k.body) (π ++ [k.name]) av {} s).1 ≠ .error .fuel := by
              rw [hb]
              cases res with
              | error e => simpa using h
              | ok l1 => simp
            rw [ih cfg (bindArg w k.body) (π ++ [k.name]) av {} s hbne, hb]
    | skip => rw [eval, eval]
    | bind e => rw [eval, eval]
    | ret e => rw [eval, eval]
    | param n shape init => rw [eval, eval]
    | var col n shape init => rw [eval, eval]
    | get col n => rw [eval, eval]
    | put col rel n e => rw [eval, eval]
    | sow col n e => rw [eval, eval]
    | perturb col n e => rw [eval, eval]
    | child cls name body => rw [eval, eval]

    | nested body m V a =>
      simp only [eval] at h
      rw [eval, eval]
      simp only
      cases he : evalE x l.env a with
      | error err => rfl
      | ok av =>
        simp only [he] at h ⊢
        by_cases hbs : badStructure V = true
        · simp [hbs]
        · simp only [hbs, Bool.false_eq_true, if_false] at h ⊢
          cases hb : eval (nestedCfg cfg) fuel body [] av {} (Scope.bind m V ["params"]) with
          | mk res s1 =>
            rw [hb] at h
            have hbne : (eval (nestedCfg cfg) fuel body [] av {} (Scope.bind m V ["params"])).1 ≠ .error .fuel := by
              rw [hb]
              cases res with
              | error e => simpa using h
              | ok l1 => simp
            rw [ih (nestedCfg cfg) body [] av {} (Scope.bind m V ["params"]) hbne, hb]

/-! ### no variable is ever dropped -/

def KeysKept (_ : Path) (s s' : Store) : Prop :=
  ∀ q, (lookupP q s.vars).isSome = true → (lookupP q s'.vars).isSome = true

theorem keyskept_step : StepRel KeysKept where
  refl := fun _ _ _ h => h
  trans := fun _ _ _ _ h1 h2 q hq => h2 q (h1 q hq)
  put := by
    intro π col n v s q hq
    unfold putVar
    split
    · exact hq
    · split
      · exact hq
      · by_cases heq : q = fullPath col π n
        · subst heq; simp [lookupP_upsert_self]
        · simp only; rw [lookupP_upsert_ne _ _ _ _ heq]; exact hq
  bump := fun _ _ _ _ h => h
  child := fun _ _ _ _ h => h

end Flax.ScopeLemmas
