/-
Re-running a declaration-only program on (any extension of) the store it produced is a no-op with
the same results.  Used by C02 (`init_apply_agree`).
-/
import Flax.Proofs.ScopeLemmas

namespace Flax.Stable
open Flax.Filter (LFilter inFilter)
open Flax.Scope Flax.ModuleTree Flax.ScopeLemmas

/-- `t` holds every variable of `s`, with the same value -/
def Ext (s t : Store) : Prop := ∀ q v, lookupP q s.vars = some v → lookupP q t.vars = some v

theorem Ext.refl (s : Store) : Ext s s := fun _ _ h => h
theorem Ext.trans {s t u : Store} (h1 : Ext s t) (h2 : Ext t u) : Ext s u := fun q v h => h2 q v (h1 q v h)

theorem putVar_ok_vars {π : Path} {col n : String} {v : Val} {s s1 : Store}
    (h : putVar π col n v s = (.ok (), s1)) : s1.vars = upsert (fullPath col π n) v s.vars := by
  unfold putVar at h
  split at h
  · simp at h
  · split at h
    · simp at h
    · simp only [Prod.mk.injEq, Except.ok.injEq, true_and] at h
      rw [← h]

theorem putVar_grows {π : Path} {col n : String} {v : Val} {s s1 : Store}
    (habs : lookupP (fullPath col π n) s.vars = none) (h : putVar π col n v s = (.ok (), s1)) : Ext s s1 := by
  intro q w hq
  rw [putVar_ok_vars h]
  by_cases heq : q = fullPath col π n
  · rw [heq, habs] at hq; exact absurd hq (by simp)
  · rw [lookupP_upsert_ne _ _ _ _ heq]; exact hq

theorem putVar_stored {π : Path} {col n : String} {v : Val} {s s1 : Store}
    (h : putVar π col n v s = (.ok (), s1)) : lookupP (fullPath col π n) s1.vars = some v := by
  rw [putVar_ok_vars h]; exact lookupP_upsert_self _ _ _

/-! ### parameters -/

theorem scopeParam_grows {π : Path} {n : String} {shape : List Nat} {init : Int} {r r1 : Res} {s s1 : Store}
    {v : Val} (h : scopeParam π n shape init r s = (.ok (v, r1), s1)) : Ext s s1 := by
  unfold scopeParam at h
  split at h
  · simp at h
  · split at h
    · split at h
      · simp only [Prod.mk.injEq, Except.ok.injEq] at h; rw [← h.2]; exact Ext.refl s
      · split at h
        · simp only [Prod.mk.injEq, Except.ok.injEq] at h; rw [← h.2]; exact Ext.refl s
        · simp at h
    · rename_i habs
      split at h
      · split at h <;> simp at h
      · split at h
        · simp at h
        · split at h
          · rename_i s' heq
            simp only [Prod.mk.injEq, Except.ok.injEq] at h
            rw [← h.2]
            exact putVar_grows (s := { s with inits := s.inits + 1 }) habs heq
          · simp at h

theorem scopeParam_stable {π : Path} {n : String} {shape : List Nat} {init : Int} {r r1 : Res} {s s1 t : Store}
    {v : Val} (h : scopeParam π n shape init r s = (.ok (v, r1), s1)) (ht : Ext s1 t) :
    scopeParam π n shape init r t = (.ok (v, r1), t) := by
  unfold scopeParam at h ⊢
  cases hr : reserve r n (some "params") with
  | error e => simp [hr] at h
  | ok r2 =>
    simp only [hr] at h ⊢
    cases hg : getVar s π "params" n with
    | some v0 =>
      simp only [hg] at h
      have hs1 : s1 = s ∧ v = v0 ∧ r1 = r2 ∧ (match v0.leafShapes with
          | [] => True
          | sh :: _ => sh = shape) := by
        split at h
        · rename_i hl
          simp only [Prod.mk.injEq, Except.ok.injEq] at h
          exact ⟨h.2.symm, h.1.1.symm, h.1.2.symm, by rw [hl]; trivial⟩
        · rename_i sh rest hl
          split at h
          · rename_i hsh
            simp only [Prod.mk.injEq, Except.ok.injEq] at h
            exact ⟨h.2.symm, h.1.1.symm, h.1.2.symm, by rw [hl]; exact hsh⟩
          · simp at h
      obtain ⟨rfl, rfl, rfl, hshape⟩ := hs1
      have hgt : getVar t π "params" n = some v := ht _ _ hg
      simp only [hgt]
      split
      · rfl
      · rename_i sh rest hl
        rw [hl] at hshape
        simp only at hshape
        simp [hshape]
    | none =>
      simp only [hg] at h
      split at h
      · split at h <;> simp at h
      · split at h
        · simp at h
        · split at h
          · rename_i s' heq
            simp only [Prod.mk.injEq, Except.ok.injEq] at h
            obtain ⟨⟨rfl, rfl⟩, rfl⟩ := h
            have hgt : getVar t π "params" n = some (Val.full shape init) := ht _ _ (putVar_stored heq)
            simp [hgt, Val.full, Val.leafShapes]
          · simp at h

/-! ### declared variables -/

theorem scopeVariable_grows {π : Path} {col n : String} {iv : Val} {r r1 : Res} {s s1 : Store}
    (h : scopeVariable π col n iv r s = (.ok r1, s1)) : Ext s s1 := by
  unfold scopeVariable at h
  split at h
  · simp at h
  · split at h
    · simp only [Prod.mk.injEq, Except.ok.injEq] at h; rw [← h.2]; exact Ext.refl s
    · rename_i hv
      split at h
      · split at h <;> simp at h
      · split at h
        · rename_i s' heq
          simp only [Prod.mk.injEq, Except.ok.injEq] at h
          rw [← h.2]
          apply putVar_grows _ heq
          unfold hasVar getVar at hv
          cases hl : lookupP (fullPath col π n) s.vars with
          | none => rfl
          | some w => rw [hl] at hv; exact absurd hv (by simp)
        · simp at h

theorem scopeVariable_present {π : Path} {col n : String} {iv : Val} {r r1 : Res} {s s1 : Store}
    (h : scopeVariable π col n iv r s = (.ok r1, s1)) : hasVar s1 π col n = true := by
  unfold scopeVariable at h
  split at h
  · simp at h
  · split at h
    · rename_i hv
      simp only [Prod.mk.injEq, Except.ok.injEq] at h; rw [← h.2]; exact hv
    · split at h
      · split at h <;> simp at h
      · split at h
        · rename_i s' heq
          simp only [Prod.mk.injEq, Except.ok.injEq] at h
          rw [← h.2]
          unfold hasVar getVar
          rw [putVar_stored heq]; rfl
        · simp at h

theorem scopeVariable_stable {π : Path} {col n : String} {iv : Val} {r r1 : Res} {s s1 t : Store}
    (h : scopeVariable π col n iv r s = (.ok r1, s1)) (ht : Ext s1 t) :
    scopeVariable π col n iv r t = (.ok r1, t) := by
  have hpres := scopeVariable_present h
  have hr1 := scopeVariable_res h
  have hvt : hasVar t π col n = true := by
    unfold hasVar getVar at hpres ⊢
    cases hl : lookupP (fullPath col π n) s1.vars with
    | none => rw [hl] at hpres; exact absurd hpres (by simp)
    | some w => rw [ht _ _ hl]; rfl
  unfold scopeVariable at h ⊢
  cases hr : reserve r n (some col) with
  | error e => simp [hr] at h
  | ok r2 =>
    simp only [hvt, if_true]
    rw [hr1, reserve_mono hr]

/-! ### programs -/

def NilKept (_ : Path) (s s' : Store) : Prop := lookupP [] s'.vars = lookupP [] s.vars

theorem nilkept_step : StepRel NilKept where
  refl := fun _ _ => rfl
  trans := fun _ _ _ _ h1 h2 => by unfold NilKept at *; rw [h2, h1]
  put := by
    intro π col n v s
    unfold NilKept putVar
    split
    · rfl
    · split
      · rfl
      · apply lookupP_upsert_ne
        intro h; unfold fullPath at h; exact absurd h (by simp)
  bump := fun _ _ _ => rfl
  child := fun _ _ _ _ h => h

theorem finishCall_quiet {cfg : Cfg} (hcap : cfg.capture = false) (π : Path) (l : Local) (s : Store) :
    finishCall cfg π l s = (.ok l, s) := by simp [finishCall, hcap]

def KidsOk (l : Local) : Prop := ∀ k ∈ l.kids, declOnly k.body = true

/-- A declaration-only program (run without `capture_intermediates`) only adds variables, and
running it again from any store that extends the one it produced changes nothing and yields the
same locals. -/
theorem eval_stable (cfg : Cfg) (hcap : cfg.capture = false) :
    ∀ (fuel : Nat) (p : SProg) (π : Path) (x : Int) (l l1 : Local) (s s1 : Store),
      declOnly p = true → KidsOk l → eval cfg fuel p π x l s = (.ok l1, s1) →
      Ext s s1 ∧ KidsOk l1 ∧ ∀ t, Ext s1 t → eval cfg fuel p π x l t = (.ok l1, t) := by
  intro fuel
  induction fuel with
  | zero => intro p π x l l1 s s1 _ _ h; simp [eval] at h
  | succ fuel ih =>
    intro p π x l l1 s s1 hp hk h
    cases p with
    | skip =>
      simp only [eval, Prod.mk.injEq, Except.ok.injEq] at h
      obtain ⟨rfl, rfl⟩ := h
      exact ⟨Ext.refl s, hk, fun t _ => by simp [eval]⟩
    | seq a b =>
      simp only [declOnly, Bool.and_eq_true] at hp
      simp only [eval] at h
      cases ha : eval cfg fuel a π x l s with
      | mk res s2 =>
        rw [ha] at h
        cases res with
        | error e => simp at h
        | ok l2 =>
          obtain ⟨g1, k1, st1⟩ := ih a π x l l2 s s2 hp.1 hk ha
          obtain ⟨g2, k2, st2⟩ := ih b π x l2 l1 s2 s1 hp.2 k1 h
          refine ⟨g1.trans g2, k2, ?_⟩
          intro t ht
          simp only [eval, st1 t (g2.trans ht)]
          exact st2 t ht
    | bind e =>
      simp only [eval] at h
      cases he : evalE x l.env e with
      | error err => simp [he] at h
      | ok v =>
        simp only [he, Prod.mk.injEq, Except.ok.injEq] at h
        obtain ⟨rfl, rfl⟩ := h
        exact ⟨Ext.refl s, hk, fun t _ => by simp [eval, he]⟩
    | ret e =>
      simp only [eval] at h
      cases he : evalE x l.env e with
      | error err => simp [he] at h
      | ok v =>
        simp only [he, Prod.mk.injEq, Except.ok.injEq] at h
        obtain ⟨rfl, rfl⟩ := h
        exact ⟨Ext.refl s, hk, fun t _ => by simp [eval, he]⟩
    | param n shape init =>
      simp only [eval] at h
      cases hp1 : scopeParam π n (resolveDims shape) init l.res s with
      | mk res s2 =>
        rw [hp1] at h
        cases res with
        | error e => simp at h
        | ok vr =>
          obtain ⟨v, r⟩ := vr
          simp only [Prod.mk.injEq, Except.ok.injEq] at h
          obtain ⟨rfl, rfl⟩ := h
          exact ⟨scopeParam_grows hp1, hk, fun t ht => by simp [eval, scopeParam_stable hp1 ht]⟩
    | var col n shape init =>
      simp only [eval] at h
      cases he : evalE x l.env init with
      | error err => simp [he] at h
      | ok iv =>
        simp only [he] at h
        cases hp1 : scopeVariable π col n (Val.full shape iv) l.res s with
        | mk res s2 =>
          rw [hp1] at h
          cases res with
          | error e => simp at h
          | ok r =>
            simp only at h
            cases hg : getVar s2 π col n with
            | none => simp [hg] at h
            | some v =>
              simp only [hg, Prod.mk.injEq, Except.ok.injEq] at h
              obtain ⟨rfl, rfl⟩ := h
              refine ⟨scopeVariable_grows hp1, hk, ?_⟩
              intro t ht
              have hgt : getVar t π col n = some v := ht _ _ hg
              simp [eval, he, scopeVariable_stable hp1 ht, hgt]
    | get col n => simp [declOnly] at hp
    | put col rel n e => simp [declOnly] at hp
    | sow col n e => simp [declOnly] at hp
    | perturb col n e => simp [declOnly] at hp
    | nested body m V a => simp [declOnly] at hp
    | child cls name body =>
      simp only [declOnly] at hp
      simp only [eval] at h
      cases hn : childName cfg cls name l with
      | none => simp [hn] at h
      | some nc =>
        obtain ⟨nm, cs⟩ := nc
        simp only [hn] at h
        cases hr : reserve l.res nm none with
        | error e => simp [hr] at h
        | ok r =>
          simp only [hr, Prod.mk.injEq, Except.ok.injEq] at h
          obtain ⟨rfl, rfl⟩ := h
          refine ⟨Ext.refl s, ?_, fun t _ => by simp [eval, hn, hr]⟩
          intro k hkk
          rcases List.mem_append.mp hkk with h1 | h1
          · exact hk k h1
          · simp only [List.mem_singleton] at h1; subst h1; exact hp
    | call slot a w =>
      simp only [eval] at h
      cases hkid : l.kids[slot]? with
      | none => simp [hkid] at h
      | some k =>
        simp only [hkid] at h
        have hkb : declOnly (bindArg w k.body) = true := by
          rw [declOnly_bindArg]; exact hk k (List.mem_of_getElem? hkid)
        cases he : evalE x l.env a with
        | error err => simp [he] at h
        | ok av =>
          simp only [he] at h
          cases hb : eval cfg fuel (bindArg w k.body) (π ++ [k.name]) av {} s with
          | mk res s2 =>
            rw [hb] at h
            cases res with
            | error e => simp at h
            | ok lk =>
              simp only [finishCall_quiet hcap, Prod.mk.injEq, Except.ok.injEq] at h
              obtain ⟨rfl, rfl⟩ := h
              obtain ⟨g1, _, st1⟩ := ih (bindArg w k.body) (π ++ [k.name]) av {} lk s s2 hkb
                (fun _ hh => absurd hh (by simp)) hb
              refine ⟨g1, hk, ?_⟩
              intro t ht
              simp [eval, hkid, he, st1 t ht, finishCall_quiet hcap]

/-! ### init, then apply -/

theorem effMutable_quiet {cfg : Cfg} (hcap : cfg.capture = false) (m : LFilter) : effMutable cfg m = m := by
  simp [effMutable, hcap]

theorem init_apply_agree_aux (cfg : Cfg) (hcap : cfg.capture = false) (fuel : Nat) (p : SProg)
    (hp : declOnly p = true) (m : LFilter) (rngs : List String) (x y : Int) (V : Vars)
    (hinit : (ModuleTree.init cfg fuel p m rngs x).result = .ok (y, V))
    (hbs : badStructure V = false) (m2 : LFilter) (rngs2 : List String) :
    (ModuleTree.apply cfg fuel p m2 V rngs2 x).result = .ok (y, mutableVariables (Scope.bind m2 V rngs2)) ∧
    (ModuleTree.apply cfg fuel p m2 V rngs2 x).final = Scope.bind m2 V rngs2 := by
  unfold ModuleTree.init Scope.init Scope.apply at hinit
  rw [effMutable_quiet hcap] at hinit
  have hbe : badStructure Vars.empty = false := rfl
  simp only [hbe, Bool.false_eq_true, if_false] at hinit
  unfold runTop at hinit
  cases hev : eval cfg fuel p [] x {} (Scope.bind m Vars.empty rngs) with
  | mk res s1 =>
    rw [hev] at hinit
    cases res with
    | error e => simp at hinit
    | ok l1 =>
      simp only [finishCall_quiet hcap, Except.ok.injEq, Prod.mk.injEq] at hinit
      obtain ⟨rfl, rfl⟩ := hinit
      obtain ⟨_, _, st⟩ := eval_stable cfg hcap fuel p [] x {} l1 _ s1 hp (fun _ hh => absurd hh (by simp)) hev
      -- the variables init returned contain everything the final store held
      have fr := eval_frame cfg fuel p [] x {} (Scope.bind m Vars.empty rngs)
      rw [hev] at fr
      have hnil := eval_rel nilkept_step cfg fuel p [] x {} (Scope.bind m Vars.empty rngs)
      rw [hev] at hnil
      have hext : Ext s1 (Scope.bind m2 (mutableVariables s1) rngs2) := by
        intro q v hq
        show lookupP q (mutableVariables s1).vars = some v
        cases q with
        | nil =>
          have : lookupP [] s1.vars = none := hnil
          rw [this] at hq; exact absurd hq (by simp)
        | cons c rest =>
          by_cases hmc : inFilter s1.mutable c = true
          · rw [mutableVariables_vars, lookupP_filter_key (headMutable s1.mutable) _ (by exact hmc)]
            exact hq
          · have hm : s1.mutable = m := fr.mutable_eq
            have : lookupP (c :: rest) s1.vars = none := by
              rw [fr.imm c rest (by simpa [Scope.bind, ← hm] using hmc)]; rfl
            rw [this] at hq; exact absurd hq (by simp)
      have hrun := st _ hext
      unfold ModuleTree.apply Scope.apply
      rw [effMutable_quiet hcap]
      simp only [hbs, Bool.false_eq_true, if_false, runTop, hrun, finishCall_quiet hcap]
      refine ⟨?_, ?_⟩ <;> first | rfl | trivial

end Flax.Stable
