/-
Helper lemmas for C18: attributes → variables → attributes, and the merge of `mutable` updates into
the ToNNX wrapper.
-/
import Flax.Proofs.BridgeBack

namespace Flax.Bridge
variable {α β γ : Type}

/-- what the theorems ask of an attribute tree of Variables: distinct keys, every Variable is one
`to_nnx_var` can produce, and its type has a name in the registry -/
structure AttrsOk (r : Reg) (A : Forest (NVar α)) : Prop where
  wf : WFF A
  canon : ∀ q v, leafAtF A q = some v → v.Canon
  named : ∀ q v, leafAtF A q = some v → ∃ n, r.nameOf v.vtype = some n

theorem LBox.okIn_of_ok (r : Reg) (c : String) (t : VType) (x : LBox α) (h : x.Ok t)
    (ht : r.typeOf c = some t) : x.OkIn r c := by
  cases x with
  | nnxMeta vt a md => obtain ⟨rfl, h2, h3⟩ := h; exact ⟨ht, h2, h3⟩
  | box cls a fields => exact h
  | plain a => trivial
  | partitioned a n m => trivial
  | logical a n m ru => trivial

/-- the Linen variables built from such attributes satisfy `VarsOk`, and every collection that occurs
is registered -/
theorem varsOk_of_attrs (r : Reg) (hi : r.Inj) (A : Forest (NVar α)) (hA : AttrsOk r A)
    (V : Forest (LBox α)) (hwV : WFF V) (hnV : NoEmptyF V)
    (hleaf : ∀ p x, leafAtF V p = some x ↔
        ∃ c q v, p = c :: q ∧ leafAtF A q = some v ∧ r.nameOf v.vtype = some c ∧ toLinenVar v = .ok x) :
    VarsOk r V ∧ ∀ ct ∈ V, (r.typeOf ct.1).isSome := by
  have hcol : ∀ ct ∈ V, ∃ f, ct.2 = .node f ∧ f ≠ [] ∧ NoEmptyF f := by
    intro ct hct
    obtain ⟨c, t⟩ := ct
    have hne := NoEmpty_of_mem V hnV (c, t) hct
    cases t with
    | leaf x =>
      have : leafAtF V [c] = some x := by
        rw [leafAtF_cons, dget_of_mem V hwV c _ hct]; rfl
      obtain ⟨c', q, v, hp, hl, _⟩ := (hleaf [c] x).mp this
      simp only [List.cons.injEq] at hp
      rw [← hp.2] at hl; simp at hl
    | node f => simp only [Tree.NoEmpty] at hne; exact ⟨f, rfl, hne.1, hne.2⟩
  have hsrc : ∀ ct ∈ V, ∀ f, ct.2 = .node f → ∀ q x, leafAtF f q = some x →
      ∃ v, leafAtF A q = some v ∧ r.nameOf v.vtype = some ct.1 ∧ toLinenVar v = .ok x := by
    intro ct hct f hf q x hl
    have : leafAtF V (ct.1 :: q) = some x := by
      rw [leafAtF_cons, dget_of_mem V hwV ct.1 ct.2 hct, hf]; exact hl
    obtain ⟨c', q', v, hp, hl', hn, hx⟩ := (hleaf _ x).mp this
    simp only [List.cons.injEq] at hp
    obtain ⟨rfl, rfl⟩ := hp
    exact ⟨v, hl', hn, hx⟩
  refine ⟨⟨hwV, ?_, ?_, ?_⟩, ?_⟩
  · intro ct hct
    obtain ⟨f, hf, _, hn⟩ := hcol ct hct
    exact ⟨f, hf, hn⟩
  · intro ct hct pb hpb
    obtain ⟨f, hf, _, _⟩ := hcol ct hct
    have hwf : WFF f := by
      have := WF_of_mem V hwV ct hct; rw [hf] at this; simpa [Tree.WF] using this
    rw [hf] at hpb
    obtain ⟨v, hl, hn, hx⟩ := hsrc ct hct f hf pb.1 pb.2 (flattenF_sound f pb.1 pb.2 hpb hwf)
    obtain ⟨x', hx', hok, _⟩ := var_roundtrip_aux v (hA.canon _ v hl)
    rw [hx] at hx'; cases hx'
    exact LBox.okIn_of_ok r ct.1 v.vtype pb.2 hok (Reg.typeOf_of_nameOf r hi ct.1 _ hn)
  · intro ct hct ct' hct' hne f f' hf hf' q q' h1 h2 hp
    cases hq : leafAtF f q with
    | none => exact h1 hq
    | some x =>
      cases hq' : leafAtF f' q' with
      | none => exact h2 hq'
      | some x' =>
        obtain ⟨v, hl, hn, _⟩ := hsrc ct hct f hf q x hq
        obtain ⟨v', hl', hn', _⟩ := hsrc ct' hct' f' hf' q' x' hq'
        have : q = q' := by
          rcases hp with hp | hp
          · exact leafAtF_prefix_eq A q q' (by simp [hl]) (by simp [hl']) hp
          · exact (leafAtF_prefix_eq A q' q (by simp [hl']) (by simp [hl]) hp).symm
        subst this
        rw [hl] at hl'; cases hl'
        rw [hn] at hn'; exact hne (Option.some.inj hn')
  · intro ct hct
    obtain ⟨f, hf, hne, hn⟩ := hcol ct hct
    obtain ⟨q, x, hq⟩ := exists_leaf _ f (Nat.le_refl _) hne hn
    obtain ⟨v, _, hnm, _⟩ := hsrc ct hct f hf q x hq
    rw [Reg.typeOf_of_nameOf r hi ct.1 _ hnm]; rfl

/-- **attributes → variables → attributes** -/
theorem attrs_vars_attrs (r : Reg) (hi : r.Inj) (hb : r.Bounded) (A : Forest (NVar α)) (hA : AttrsOk r A) :
    ∃ V A', nnxAttrsToLinenVars r A = .ok V ∧ linenVarsToNnxAttrs r V = .ok (r, A') ∧
      VarsOk r V ∧ NoEmptyF V ∧ WFF A' ∧ Equiv A' A ∧
      (∀ c q x, leafAtF V (c :: q) = some x →
        ∃ v, leafAtF A q = some v ∧ r.nameOf v.vtype = some c ∧ v.value = x.value) := by
  have hconv : ∀ q v, leafAtF A q = some v → ∃ n x, r.nameOf v.vtype = some n ∧ toLinenVar v = .ok x ∧
      x.Ok v.vtype ∧ toNnxVarWith v.vtype x = .ok v := by
    intro q v hl
    obtain ⟨n, hn⟩ := hA.named q v hl
    obtain ⟨x, hx, hok, hback⟩ := var_roundtrip_aux v (hA.canon q v hl)
    exact ⟨n, x, hn, hx, hok, hback⟩
  obtain ⟨V, hV, hwV, hnV, hleafV⟩ := nnxAttrsToLinenVars_spec r A hA.wf (by
    intro q v hl
    obtain ⟨n, x, hn, hx, _⟩ := hconv q v hl
    exact ⟨n, x, hn, hx⟩)
  obtain ⟨hVok, hreg⟩ := varsOk_of_attrs r hi A hA V hwV hnV hleafV
  obtain ⟨r', A', hfwd, _, _, _, hsame, hwA', _, _, hleafA'⟩ := linenVarsToNnxAttrs_spec r hi hb V hVok
  have hr : r' = r := hsame hreg
  subst hr
  refine ⟨V, A', hV, hfwd, hVok, hnV, hwA', ?_, ?_⟩
  · intro q
    cases hq : leafAtF A q with
    | some v =>
      obtain ⟨n, x, hn, hx, _, hback⟩ := hconv q v hq
      exact (hleafA' q v).mpr ⟨n, x, v.vtype,
        (hleafV _ x).mpr ⟨n, q, v, rfl, hq, hn, hx⟩, Reg.typeOf_of_nameOf r' hi n _ hn, hback⟩
    | none =>
      cases hq' : leafAtF A' q with
      | none => rfl
      | some v' =>
        obtain ⟨c, x, t, hl, _, _⟩ := (hleafA' q v').mp hq'
        obtain ⟨c', q', v, hp, hl', _⟩ := (hleafV _ x).mp hl
        simp only [List.cons.injEq] at hp
        rw [← hp.2, hq] at hl'; cases hl'
  · intro c q x hl
    obtain ⟨c', q', v, hp, hl', hn, hx⟩ := (hleafV _ x).mp hl
    simp only [List.cons.injEq] at hp
    obtain ⟨rfl, rfl⟩ := hp
    refine ⟨v, hl', hn, ?_⟩
    obtain ⟨x', hx', hok, hback⟩ := var_roundtrip_aux v (hA.canon _ v hl')
    rw [hx] at hx'; cases hx'
    obtain ⟨v', hv', _, h2, _⟩ := box_roundtrip_aux v.vtype x hok
    rw [hback] at hv'; cases hv'
    exact h2

/-! ## merging `mutable` updates into the wrapper -/

theorem absorbAttr_spec : StepOk (absorbAttr (β := β)) := by
  intro attrs name value ha hv hc hk
  cases value with
  | leaf b =>
    -- same as addAttr on a leaf
    have := addAttr_spec attrs name (.leaf b) ha hv hc hk
    have he : absorbAttr attrs name (.leaf b) = addAttr attrs name (.leaf b) := by
      unfold absorbAttr addAttr
      cases dget attrs name <;> rfl
    rw [he]; exact this
  | node sub =>
    cases hd : dget attrs name with
    | none =>
      have hsw : WFF sub := by simpa [Tree.WF] using hv
      refine ⟨dset attrs name (.node sub), by simp [absorbAttr, hd],
        WFF_dset _ _ _ ha (by simpa [Tree.WF] using hsw),
        fun hna hvn => NoEmptyF_dset _ _ _ hna hvn, ?_, ?_⟩
      · intro k hk'; rw [dget_dset]; simp [hk']
      · intro k' p
        rw [leafAtF_dset]
        by_cases hk' : k' = name
        · simp [hk', leafAtF_cons, hd]
        · simp [hk']
    | some t =>
      cases t with
      | leaf b => exact absurd hd (hk sub rfl b)
      | node orig =>
        -- same as addAttr when a dict is there already
        have := addAttr_spec attrs name (.node sub) ha hv hc hk
        have he : absorbAttr attrs name (.node sub) = addAttr attrs name (.node sub) := by
          simp [absorbAttr, addAttr, hd]
        rw [he]; exact this

end Flax.Bridge
