/-
C04 helper lemmas (8): structure does not depend on data.  `erase` forgets every payload (Variable values, array
attributes, array registers, leaves).  `unflatten`, the statements of the DSL and `flatten` commute with it, so the
output GRAPHDEFS of the traced function (and whether it fails) are a function of the input graphdefs alone.
That is what makes re-using a cached trace sound.
-/
import Flax.Proofs.NnxJit

namespace Flax.Nnx
open Flax.Heap Flax.Graph

/-! ### erasure -/

mutual
  def ePV : PVal → PVal
    | .array _ => .array 0
    | .seq t xs => .seq t (ePVs xs)
    | .dict kvs => .dict (ePKVs kvs)
    | .static s => .static s
    | .ref a => .ref a
    | .none => .none
  def ePVs : List PVal → List PVal
    | [] => []
    | x :: xs => ePV x :: ePVs xs
  def ePKVs : List (Key × PVal) → List (Key × PVal)
    | [] => []
    | (k, v) :: rest => (k, ePV v) :: ePKVs rest
end

def eObj : Obj → Obj
  | .node cls attrs => .node cls (ePKVs attrs)
  | .var ty _ md => .var ty 0 md

def eHeap (h : Heap) : Heap := h.map eObj

def eLeaf : Leaf → Leaf
  | .vstate ty _ md => .vstate ty 0 md
  | .arr _ => .arr 0

def eFS (fs : FlatState) : FlatState := fs.map (fun it => (it.1, eLeaf it.2))

theorem ePVs_eq_map : ∀ (xs : List PVal), ePVs xs = xs.map ePV
  | [] => rfl
  | x :: xs => by simp [ePVs, ePVs_eq_map xs]

theorem ePKVs_eq_map : ∀ (l : List (Key × PVal)), ePKVs l = l.map (fun kv => (kv.1, ePV kv.2))
  | [] => rfl
  | (k, v) :: rest => by simp [ePKVs, ePKVs_eq_map rest]

theorem eHeap_get (h : Heap) (a : Nat) : (eHeap h)[a]? = (h[a]?).map eObj := by simp [eHeap]

theorem eHeap_length (h : Heap) : (eHeap h).length = h.length := by simp [eHeap]

theorem eHeap_write (h : Heap) (a : Nat) (o : Obj) : eHeap (write h a o) = write (eHeap h) a (eObj o) := by
  simp [eHeap, write, List.map_set]

theorem eHeap_append (h : Heap) (o : Obj) : eHeap (h ++ [o]) = eHeap h ++ [eObj o] := by simp [eHeap]

theorem lookupKV_ePKVs (k : Key) : ∀ (l : List (Key × PVal)), lookupKV k (ePKVs l) = (lookupKV k l).map ePV
  | [] => rfl
  | (k0, v0) :: rest => by
    simp only [ePKVs, lookupKV]
    by_cases e : k0 = k
    · simp [e]
    · simp only [e, if_false]; exact lookupKV_ePKVs k rest

theorem setKV_ePKVs (k : Key) (v : PVal) : ∀ (l : List (Key × PVal)), ePKVs (setKV k v l) = setKV k (ePV v) (ePKVs l)
  | [] => rfl
  | (k0, v0) :: rest => by
    simp only [setKV, ePKVs]
    by_cases e : k0 = k
    · simp [e, ePKVs]
    · simp [e, ePKVs, setKV_ePKVs k v rest]

theorem putKV_ePKVs (k : Key) (v : PVal) (l : List (Key × PVal)) : ePKVs (putKV k v l) = putKV k (ePV v) (ePKVs l) := by
  unfold putKV
  rw [lookupKV_ePKVs]
  cases hl : lookupKV k l with
  | none => simp [ePKVs_eq_map]
  | some w => simp [setKV_ePKVs]

theorem eraseKV_ePKVs (k : Key) (l : List (Key × PVal)) : ePKVs (eraseKV k l) = eraseKV k (ePKVs l) := by
  simp [eraseKV, ePKVs_eq_map, List.filter_map, Function.comp_def]

theorem insertBy_ePKVs (k : Key) (v : PVal) : ∀ (l : List (Key × PVal)),
    ePKVs (insertBy Key.lt k v l) = insertBy Key.lt k (ePV v) (ePKVs l)
  | [] => rfl
  | (k', v') :: rest => by
    simp only [insertBy, ePKVs]
    split
    · simp [ePKVs, insertBy_ePKVs k v rest]
    · simp [ePKVs]

theorem sortKV_ePKVs : ∀ (l : List (Key × PVal)), sortKV (ePKVs l) = ePKVs (sortKV l)
  | [] => rfl
  | (k, v) :: rest => by
    show insertBy Key.lt k (ePV v) (sortBy Key.lt (ePKVs rest)) = ePKVs (insertBy Key.lt k v (sortBy Key.lt rest))
    rw [insertBy_ePKVs, show sortBy Key.lt (ePKVs rest) = sortKV (ePKVs rest) from rfl, sortKV_ePKVs rest]
    rfl

theorem enumFrom_ePVs : ∀ (n : Nat) (xs : List PVal), enumFrom n (ePVs xs) = ePKVs (enumFrom n xs)
  | _, [] => rfl
  | n, x :: xs => by simp [enumFrom, ePVs, ePKVs, enumFrom_ePVs (n + 1) xs]

theorem typeName_eHeap (h : Heap) (a : Addr) : typeName (eHeap h) a = typeName h a := by
  unfold typeName
  rw [eHeap_get]
  cases h[a]? with
  | none => rfl
  | some o => cases o <;> rfl

/-! ### flatten commutes with erasure -/

def eFlat : Except Graph.Err (GDef × FlatState × RefIndex) → Except Graph.Err (GDef × FlatState × RefIndex)
  | .ok (gd, ls, idx) => .ok (gd, eFS ls, idx)
  | .error e => .error e

def eFlatI : Except Graph.Err (List (Key × GDef) × FlatState × RefIndex) → Except Graph.Err (List (Key × GDef) × FlatState × RefIndex)
  | .ok (gs, ls, idx) => .ok (gs, eFS ls, idx)
  | .error e => .error e

theorem eFS_append (a b : FlatState) : eFS (a ++ b) = eFS a ++ eFS b := by simp [eFS]

theorem flatten_erase (h : Heap) : ∀ fuel : Nat,
    (∀ path v idx, flattenVal fuel (eHeap h) path (ePV v) idx = eFlat (flattenVal fuel h path v idx)) ∧
    (∀ path items idx, flattenItems fuel (eHeap h) path (ePKVs items) idx = eFlatI (flattenItems fuel h path items idx)) := by
  intro fuel
  induction fuel with
  | zero => exact ⟨fun _ _ _ => rfl, fun _ _ _ => rfl⟩
  | succ fuel ih =>
    constructor
    · intro path v idx
      cases v with
      | static s => simp [flattenVal, ePV, eFlat, eFS]
      | array d => simp [flattenVal, ePV, eFlat, eFS, eLeaf]
      | none => simp [flattenVal, ePV, eFlat, eFS]
      | seq t xs =>
        simp only [flattenVal, ePV, enumFrom_ePVs, ih.2]
        cases flattenItems fuel h path (enumFrom 0 xs) idx with
        | error e => rfl
        | ok r => obtain ⟨as, ls, idx'⟩ := r; rfl
      | dict kvs =>
        simp only [flattenVal, ePV, sortKV_ePKVs, ih.2]
        cases flattenItems fuel h path (sortKV kvs) idx with
        | error e => rfl
        | ok r => obtain ⟨as, ls, idx'⟩ := r; rfl
      | ref a =>
        simp only [flattenVal, ePV, typeName_eHeap, eHeap_get]
        cases indexOf? a idx with
        | some i => simp [eFlat, eFS]
        | none =>
          simp only
          cases h[a]? with
          | none => rfl
          | some o =>
            cases o with
            | var ty val md => simp [eObj, eFlat, eFS, eLeaf]
            | node cls attrs =>
              simp only [Option.map_some, eObj, sortKV_ePKVs, ih.2]
              cases flattenItems fuel h path (sortKV attrs) (idx ++ [a]) with
              | error e => rfl
              | ok r => obtain ⟨as, ls, idx'⟩ := r; rfl
    · intro path items idx
      cases items with
      | nil => simp [flattenItems, ePKVs, eFlatI, eFS]
      | cons kv rest =>
        obtain ⟨k, v⟩ := kv
        simp only [flattenItems, ePKVs, ih.1]
        cases flattenVal fuel h (path ++ [k]) v idx with
        | error e => rfl
        | ok r =>
          obtain ⟨g, ls1, idx1⟩ := r
          simp only [eFlat, ih.2]
          cases flattenItems fuel h path rest idx1 with
          | error e => rfl
          | ok r2 => obtain ⟨gs, ls2, idx2⟩ := r2; simp [eFlatI, eFS_append]

theorem valSize_ePV : ∀ (v : PVal), valSize (ePV v) = valSize v := by
  intro v
  exact (PVal.rec (motive_1 := fun v => valSize (ePV v) = valSize v)
    (motive_2 := fun l => valsSize (ePVs l) = valsSize l)
    (motive_3 := fun l => kvsSize (ePKVs l) = kvsSize l)
    (motive_4 := fun p => valSize (ePV p.2) = valSize p.2)
    (fun s => rfl) (fun d => rfl) (fun a => rfl)
    (fun t xs ih => by simp [ePV, valSize, ih])
    (fun kvs ih => by simp [ePV, valSize, ih])
    rfl
    rfl
    (fun hd tl ih1 ih2 => by simp [ePVs, valsSize, ih1, ih2])
    rfl
    (fun hd tl ih1 ih2 => by obtain ⟨k, v⟩ := hd; simp only at ih1; simp [ePKVs, kvsSize, ih1, ih2])
    (fun k v ih => ih) v)

theorem kvsSize_ePKVs : ∀ (l : List (Key × PVal)), kvsSize (ePKVs l) = kvsSize l
  | [] => rfl
  | (k, v) :: rest => by simp [ePKVs, kvsSize, valSize_ePV, kvsSize_ePKVs rest]

theorem heapSize_eHeap (h : Heap) : heapSize (eHeap h) = heapSize h := by
  unfold heapSize eHeap
  rw [List.map_map]
  congr 1
  apply List.map_congr_left
  intro o _
  cases o <;> simp [eObj, objSize, kvsSize_ePKVs]

theorem fuelFor_erase (h : Heap) (v : PVal) : fuelFor (eHeap h) (ePV v) = fuelFor h v := by
  simp [fuelFor, heapSize_eHeap, valSize_ePV]

/-- the result of `to_tree` with payloads erased -/
def eRoots : Except Err (List GDef × List FlatState × RefIndex) → Except Err (List GDef × List FlatState × RefIndex)
  | .ok (gds, fss, idx) => .ok (gds, fss.map eFS, idx)
  | .error e => .error e

theorem flattenRoots_erase (h : Heap) : ∀ (vs : List PVal) (idx : RefIndex),
    flattenRoots (eHeap h) (vs.map ePV) idx = eRoots (flattenRoots h vs idx)
  | [], idx => rfl
  | v :: vs, idx => by
    simp only [List.map_cons, flattenRoots, fuelFor_erase, (flatten_erase h _).1]
    cases flattenVal (fuelFor h v) h [] v idx with
    | error e => rfl
    | ok r =>
      obtain ⟨gd, ls, idx1⟩ := r
      simp only [eFlat, flattenRoots_erase h vs idx1]
      cases flattenRoots h vs idx1 with
      | error e => rfl
      | ok r2 => obtain ⟨gds, lss, idx2⟩ := r2; rfl


/-! ### unflatten (no re-use) commutes with erasure -/

def eUn : Except Err (PVal × List Leaf × Heap × IndexRef) → Except Err (PVal × List Leaf × Heap × IndexRef)
  | .ok (v, ls, H, ir) => .ok (ePV v, ls.map eLeaf, eHeap H, ir)
  | .error e => .error e

def eUnA : Except Err (List (Key × PVal) × List Leaf × Heap × IndexRef) → Except Err (List (Key × PVal) × List Leaf × Heap × IndexRef)
  | .ok (vs, ls, H, ir) => .ok (ePKVs vs, ls.map eLeaf, eHeap H, ir)
  | .error e => .error e

theorem makeVar_eLeaf (ty : VType) (md : Meta) (l : Leaf) : makeVar ty md (eLeaf l) = eObj (makeVar ty md l) := by
  cases l <;> rfl

theorem map_snd_ePKVs : ∀ (l : List (Key × PVal)), (ePKVs l).map (·.2) = ePVs (l.map (·.2))
  | [] => rfl
  | (k, v) :: rest => by simp [ePKVs, ePVs, map_snd_ePKVs rest]

abbrev noReuse : Nat → Option Addr := fun _ => Option.none

theorem bind_noReuse (o : Option Nat) : o.bind noReuse = Option.none := by cases o <;> rfl

mutual
  theorem unflatten_erase : ∀ (gd : ODef) (ls : List Leaf) (H : Heap) (ir : IndexRef),
      unflattenO noReuse gd (ls.map eLeaf) (eHeap H) ir = eUn (unflattenO noReuse gd ls H ir)
    | .ref ty i, ls, H, ir => by
      simp only [unflattenO]
      cases irLookup i ir <;> simp [eUn, ePV]
    | .var ty i outer md, ls, H, ir => by
      cases ls with
      | nil => simp [unflattenO, eUn]
      | cons l ls' =>
        simp only [List.map_cons, unflattenO, bind_noReuse]
        simp [eUn, ePV, eHeap_length, eHeap_append, makeVar_eLeaf]
    | .static s, ls, H, ir => by simp [unflattenO, eUn, ePV]
    | .array, ls, H, ir => by
      cases ls with
      | nil => simp [unflattenO, eUn]
      | cons l ls' =>
        cases l with
        | arr d => simp [unflattenO, eUn, ePV, eLeaf]
        | vstate ty v md => simp [unflattenO, eUn, eLeaf]
    | .node (.obj cls) idx outer attrs, ls, H, ir => by
      cases idx with
      | none => simp [unflattenO, eUn]
      | some i =>
        simp only [unflattenO, bind_noReuse]
        split
        · simp [eUn]
        · have ih := unflattenAttrs_erase attrs ls (H ++ [Obj.node cls []]) ((i, H.length) :: ir)
          simp only [eHeap_append, eObj, ePKVs] at ih
          simp only [eHeap_length, ih]
          cases unflattenAttrsO noReuse attrs ls (H ++ [Obj.node cls []]) ((i, H.length) :: ir) with
          | error e => rfl
          | ok r =>
            obtain ⟨children, ls', H', ir'⟩ := r
            simp [eUnA, eUn, ePV, eHeap_write, eObj]
    | .node (.seq t) idx outer attrs, ls, H, ir => by
      simp only [unflattenO, unflattenAttrs_erase attrs ls H ir]
      cases unflattenAttrsO noReuse attrs ls H ir with
      | error e => rfl
      | ok r => obtain ⟨children, ls', H', ir'⟩ := r; simp [eUnA, eUn, ePV, map_snd_ePKVs]
    | .node .dict idx outer attrs, ls, H, ir => by
      simp only [unflattenO, unflattenAttrs_erase attrs ls H ir]
      cases unflattenAttrsO noReuse attrs ls H ir with
      | error e => rfl
      | ok r => obtain ⟨children, ls', H', ir'⟩ := r; simp [eUnA, eUn, ePV]
    | .node .none idx outer attrs, ls, H, ir => by
      simp only [unflattenO, unflattenAttrs_erase attrs ls H ir]
      cases unflattenAttrsO noReuse attrs ls H ir with
      | error e => rfl
      | ok r => obtain ⟨children, ls', H', ir'⟩ := r; simp [eUnA, eUn, ePV]
  theorem unflattenAttrs_erase : ∀ (attrs : List (Key × ODef)) (ls : List Leaf) (H : Heap) (ir : IndexRef),
      unflattenAttrsO noReuse attrs (ls.map eLeaf) (eHeap H) ir = eUnA (unflattenAttrsO noReuse attrs ls H ir)
    | [], ls, H, ir => by simp [unflattenAttrsO, eUnA, ePKVs]
    | (k, g) :: rest, ls, H, ir => by
      simp only [unflattenAttrsO, unflatten_erase g ls H ir]
      cases unflattenO noReuse g ls H ir with
      | error e => rfl
      | ok r =>
        obtain ⟨v, ls1, H1, ir1⟩ := r
        simp only [eUn, unflattenAttrs_erase rest ls1 H1 ir1]
        cases unflattenAttrsO noReuse rest ls1 H1 ir1 with
        | error e => rfl
        | ok r2 => obtain ⟨vs, ls2, H2, ir2⟩ := r2; simp [eUnA, ePKVs]
end

def eUR : Except Err (List PVal × Heap × IndexRef) → Except Err (List PVal × Heap × IndexRef)
  | .ok (vs, H, ir) => .ok (vs.map ePV, eHeap H, ir)
  | .error e => .error e

theorem unflattenRoots_erase : ∀ (gds : List ODef) (lss : List (List Leaf)) (H : Heap) (ir : IndexRef),
    unflattenRootsO noReuse gds (lss.map (fun ls => ls.map eLeaf)) (eHeap H) ir = eUR (unflattenRootsO noReuse gds lss H ir)
  | [], [], H, ir => by simp [unflattenRootsO, eUR]
  | [], _ :: _, H, ir => by simp [unflattenRootsO, eUR]
  | _ :: _, [], H, ir => by simp [unflattenRootsO, eUR]
  | gd :: gds, ls :: lss, H, ir => by
    simp only [List.map_cons, unflattenRootsO, unflatten_erase gd ls H ir]
    cases unflattenO noReuse gd ls H ir with
    | error e => rfl
    | ok r =>
      obtain ⟨v, rest, H1, ir1⟩ := r
      cases rest with
      | cons l rest' => simp [eUn, eUR]
      | nil =>
        simp only [eUn, List.map_nil, unflattenRoots_erase gds lss H1 ir1]
        cases unflattenRootsO noReuse gds lss H1 ir1 with
        | error e => rfl
        | ok r2 => obtain ⟨vs, H2, ir2⟩ := r2; simp [eUR]

/-! ### the DSL commutes with erasure -/

def eSt : Except Err (Heap × List PVal) → Except Err (Heap × List PVal)
  | .ok (h, env) => .ok (eHeap h, env.map ePV)
  | .error e => .error e

def okOnly : Except Err Int → Except Err Unit
  | .ok _ => .ok ()
  | .error e => .error e

theorem env_get (env : List PVal) (r : Nat) : (env.map ePV)[r]? = (env[r]?).map ePV := by simp

theorem eval_erase (env : List PVal) : ∀ (e : DExpr), okOnly (e.eval (env.map ePV)) = okOnly (e.eval env)
  | .const c => rfl
  | .reg r => by
    simp only [DExpr.eval, env_get]
    cases env[r]? with
    | none => rfl
    | some v => cases v <;> rfl
  | .add a b => by
    have ha := eval_erase env a
    have hb := eval_erase env b
    simp only [DExpr.eval]
    cases h1 : a.eval (env.map ePV) <;> cases h2 : a.eval env <;> cases h3 : b.eval (env.map ePV) <;> cases h4 : b.eval env <;>
      simp_all [okOnly]
  | .mul a b => by
    have ha := eval_erase env a
    have hb := eval_erase env b
    simp only [DExpr.eval]
    cases h1 : a.eval (env.map ePV) <;> cases h2 : a.eval env <;> cases h3 : b.eval (env.map ePV) <;> cases h4 : b.eval env <;>
      simp_all [okOnly]
  | .lt a b => by
    have ha := eval_erase env a
    have hb := eval_erase env b
    simp only [DExpr.eval]
    cases h1 : a.eval (env.map ePV) <;> cases h2 : a.eval env <;> cases h3 : b.eval (env.map ePV) <;> cases h4 : b.eval env <;>
      simp_all [okOnly]

theorem eval_cases (env : List PVal) (e : DExpr) :
    (∃ d d', e.eval (env.map ePV) = .ok d ∧ e.eval env = .ok d') ∨ (∃ er, e.eval (env.map ePV) = .error er ∧ e.eval env = .error er) := by
  have := eval_erase env e
  cases h1 : e.eval (env.map ePV) <;> cases h2 : e.eval env <;> simp_all [okOnly]

mutual
  theorem ePV_idem : ∀ (v : PVal), ePV (ePV v) = ePV v
    | .array _ => rfl
    | .static _ => rfl
    | .ref _ => rfl
    | .none => rfl
    | .seq t xs => by simp only [ePV, ePVs_idem xs]
    | .dict kvs => by simp only [ePV, ePKVs_idem kvs]
  theorem ePVs_idem : ∀ (xs : List PVal), ePVs (ePVs xs) = ePVs xs
    | [] => rfl
    | x :: xs => by simp only [ePVs, ePV_idem x, ePVs_idem xs]
  theorem ePKVs_idem : ∀ (l : List (Key × PVal)), ePKVs (ePKVs l) = ePKVs l
    | [] => rfl
    | (k, v) :: rest => by simp only [ePKVs, ePV_idem v, ePKVs_idem rest]
end

theorem ePV_comp : ePV ∘ ePV = ePV := funext ePV_idem

theorem eObj_idem (o : Obj) : eObj (eObj o) = eObj o := by cases o <;> simp [eObj, ePKVs_idem]

theorem eHeap_idem (h : Heap) : eHeap (eHeap h) = eHeap h := by
  unfold eHeap
  rw [List.map_map]
  apply List.map_congr_left
  intro o _
  exact eObj_idem o

theorem eEnv_idem (env : List PVal) : (env.map ePV).map ePV = env.map ePV := by
  rw [List.map_map, ePV_comp]

theorem runOp_erase (h : Heap) (env : List PVal) (op : Op) :
    eSt (runOp (eHeap h) (env.map ePV) op) = eSt (runOp h env op) := by
  cases op with
  | getAttr r k =>
    simp only [runOp, env_get]
    cases env[r]? with
    | none => rfl
    | some v =>
      cases v with
      | ref a =>
        simp only [Option.map_some, ePV, eHeap_get]
        cases h[a]? with
        | none => rfl
        | some o =>
          cases o with
          | var ty v md => rfl
          | node cls attrs =>
            simp only [Option.map_some, eObj, lookupKV_ePKVs]
            cases lookupKV k attrs with
            | none => rfl
            | some w => simp [eSt, eHeap_idem, ePV_idem]
      | _ => rfl
  | readVar r =>
    simp only [runOp, env_get]
    cases env[r]? with
    | none => rfl
    | some v =>
      cases v with
      | ref a =>
        simp only [Option.map_some, ePV, eHeap_get]
        cases h[a]? with
        | none => rfl
        | some o =>
          cases o with
          | var ty v md => simp [eObj, eSt, ePV, eHeap_idem, ePV_idem]
          | node cls attrs => rfl
      | _ => rfl
  | setVar r e =>
    simp only [runOp, env_get]
    cases env[r]? with
    | none => rfl
    | some v =>
      cases v with
      | ref a =>
        simp only [Option.map_some, ePV, eHeap_get]
        cases h[a]? with
        | none => rfl
        | some o =>
          cases o with
          | node cls attrs => rfl
          | var ty v md =>
            simp only [Option.map_some, eObj]
            rcases eval_cases env e with ⟨d, d', h1, h2⟩ | ⟨er, h1, h2⟩
            · simp [h1, h2, eSt, eHeap_write, eObj, eHeap_idem, ePV_idem]
            · simp [h1, h2, eSt]
      | _ => rfl
  | setAttr r k src =>
    simp only [runOp, env_get]
    cases env[r]? with
    | none => cases env[src]? <;> rfl
    | some v =>
      cases env[src]? with
      | none => cases v <;> rfl
      | some w =>
        cases v with
        | ref a =>
          simp only [Option.map_some, ePV, eHeap_get]
          cases h[a]? with
          | none => rfl
          | some o =>
            cases o with
            | var ty v md => rfl
            | node cls attrs =>
              simp [eObj, eSt, eHeap_write, putKV_ePKVs, eHeap_idem, ePKVs_idem, ePV_idem]
        | _ => rfl
  | delAttr r k =>
    simp only [runOp, env_get]
    cases env[r]? with
    | none => rfl
    | some v =>
      cases v with
      | ref a =>
        simp only [Option.map_some, ePV, eHeap_get]
        cases h[a]? with
        | none => rfl
        | some o =>
          cases o with
          | var ty v md => rfl
          | node cls attrs =>
            simp only [Option.map_some, eObj, lookupKV_ePKVs]
            cases lookupKV k attrs with
            | none => rfl
            | some w => simp [eSt, eHeap_write, eObj, eraseKV_ePKVs, eHeap_idem, ePKVs_idem, ePV_idem]
      | _ => rfl
  | newNode cls => simp [runOp, eSt, eHeap_append, eObj, ePKVs, ePV, eHeap_length, eHeap_idem, ePV_idem]
  | newVar ty e md =>
    simp only [runOp]
    rcases eval_cases env e with ⟨d, d', h1, h2⟩ | ⟨er, h1, h2⟩
    · simp [h1, h2, eSt, eHeap_append, eObj, ePV, eHeap_length, eHeap_idem, ePV_idem]
    · simp [h1, h2, eSt]
  | litStatic s => simp [runOp, eSt, ePV, eHeap_idem, ePV_idem]
  | litNone => simp [runOp, eSt, ePV, eHeap_idem, ePV_idem]
  | data e =>
    simp only [runOp]
    rcases eval_cases env e with ⟨d, d', h1, h2⟩ | ⟨er, h1, h2⟩
    · simp [h1, h2, eSt, ePV, eHeap_idem, ePV_idem]
    · simp [h1, h2, eSt]

/-- **a body cannot tell payloads apart**: states with equal erasure run to states with equal erasure (or fail alike) -/
theorem runOps_erase : ∀ (ops : List Op) (h h' : Heap) (env env' : List PVal), eHeap h = eHeap h' → env.map ePV = env'.map ePV →
    eSt (runOps ops h env) = eSt (runOps ops h' env')
  | [], h, h', env, env', e1, e2 => by simp [runOps, eSt, e1, e2]
  | op :: rest, h, h', env, env', e1, e2 => by
    simp only [runOps]
    have s1 := runOp_erase h env op
    have s2 := runOp_erase h' env' op
    rw [e1, e2] at s1
    have s := s1.symm.trans s2
    cases r1 : runOp h env op with
    | error er =>
      cases r2 : runOp h' env' op with
      | error er' => rw [r1, r2] at s; simpa [eSt] using s
      | ok p => rw [r1, r2] at s; obtain ⟨a, b⟩ := p; simp [eSt] at s
    | ok p =>
      obtain ⟨h1, env1⟩ := p
      cases r2 : runOp h' env' op with
      | error er' => rw [r1, r2] at s; simp [eSt] at s
      | ok p' =>
        obtain ⟨h1', env1'⟩ := p'
        rw [r1, r2] at s
        simp only [eSt, Except.ok.injEq, Prod.mk.injEq] at s
        exact runOps_erase rest h1 h1' env1 env1' s.1 s.2

def eFn : Except Err (List PVal × Heap) → Except Err (List PVal × Heap)
  | .ok (rets, h) => .ok (rets.map ePV, eHeap h)
  | .error e => .error e

theorem getRegs_erase (env env' : List PVal) (he : env.map ePV = env'.map ePV) : ∀ (rs : List Nat),
    (getRegs env rs).map (List.map ePV) = (getRegs env' rs).map (List.map ePV)
  | [] => rfl
  | r :: rs => by
    have ih := getRegs_erase env env' he rs
    have hr : (env[r]?).map ePV = (env'[r]?).map ePV := by rw [← env_get, ← env_get, he]
    simp only [getRegs]
    cases h1 : env[r]? <;> cases h2 : env'[r]? <;> simp [h1, h2] at hr
    · rfl
    · cases g1 : getRegs env rs <;> cases g2 : getRegs env' rs <;> simp [g1, g2, Except.map] at ih ⊢
      · exact ih
      · exact ⟨hr, ih⟩

theorem runFn_erase (f : Fn) (h h' : Heap) (args args' : List PVal) (e1 : eHeap h = eHeap h') (e2 : args.map ePV = args'.map ePV) :
    eFn (runFn f h args) = eFn (runFn f h' args') := by
  unfold runFn
  have s := runOps_erase f.body h h' args args' e1 e2
  cases r1 : runOps f.body h args with
  | error er =>
    cases r2 : runOps f.body h' args' with
    | error er' => rw [r1, r2] at s; simpa [eSt, eFn] using s
    | ok p => rw [r1, r2] at s; obtain ⟨a, b⟩ := p; simp [eSt] at s
  | ok p =>
    obtain ⟨h1, env1⟩ := p
    cases r2 : runOps f.body h' args' with
    | error er' => rw [r1, r2] at s; simp [eSt] at s
    | ok p' =>
      obtain ⟨h1', env1'⟩ := p'
      rw [r1, r2] at s
      simp only [eSt, Except.ok.injEq, Prod.mk.injEq] at s
      have g := getRegs_erase env1 env1' s.2 f.ret
      simp only
      cases g1 : getRegs env1 f.ret <;> cases g2 : getRegs env1' f.ret <;> simp [g1, g2, Except.map] at g ⊢
      · simpa [eFn] using g
      · simp [eFn, g, s.1]

end Flax.Nnx
