/-
Helper lemmas for property C09 (random keys): association lists, the byte encodings of
`_fold_in_static`, splitting of NUL-separated byte strings.  Core Lean only.
-/
import Flax.Model.Rng

namespace Flax.Rng

/-! ## association lists -/

section alist
variable {κ ν : Type} [DecidableEq κ]

@[simp] theorem find?_nil (k : κ) : find? k ([] : List (κ × ν)) = none := rfl

theorem find?_cons (k k' : κ) (v : ν) (xs : List (κ × ν)) :
    find? k ((k', v) :: xs) = if k' = k then some v else find? k xs := rfl

theorem find?_set_self (k : κ) (v : ν) (l : List (κ × ν)) : find? k (set k v l) = some v := by
  induction l with
  | nil => simp [set, find?_cons]
  | cons a l ih =>
    obtain ⟨k', v'⟩ := a
    by_cases h : k' = k
    · simp [set, h, find?_cons]
    · simp [set, h, find?_cons, ih]

theorem find?_set_ne (k k' : κ) (v : ν) (l : List (κ × ν)) (h : k' ≠ k) :
    find? k' (set k v l) = find? k' l := by
  induction l with
  | nil => simp [set, find?_cons, Ne.symm h]
  | cons a l ih =>
    obtain ⟨k'', v''⟩ := a
    by_cases h2 : k'' = k
    · subst h2
      simp [set, find?_cons, Ne.symm h]
    · simp [set, h2, find?_cons, ih]

theorem find?_append_new (k : κ) (v : ν) (l : List (κ × ν)) (h : find? k l = none) :
    find? k (l ++ [(k, v)]) = some v := by
  induction l with
  | nil => simp [find?_cons]
  | cons a l ih =>
    obtain ⟨k', v'⟩ := a
    by_cases h2 : k' = k
    · simp [find?_cons, h2] at h
    · simp [find?_cons, h2] at h ⊢
      exact ih h

theorem find?_append_ne (k k' : κ) (v : ν) (l : List (κ × ν)) (h : k' ≠ k) :
    find? k' (l ++ [(k, v)]) = find? k' l := by
  induction l with
  | nil => simp [find?_cons, Ne.symm h]
  | cons a l ih =>
    obtain ⟨k'', v''⟩ := a
    by_cases h2 : k'' = k'
    · simp [find?_cons, h2]
    · simp [find?_cons, h2, ih]

theorem find?_map_val {μ : Type} (f : ν → μ) (k : κ) (l : List (κ × ν)) :
    find? k (l.map (fun kv => (kv.1, f kv.2))) = (find? k l).map f := by
  induction l with
  | nil => rfl
  | cons a l ih =>
    obtain ⟨k', v'⟩ := a
    by_cases h : k' = k
    · simp [find?_cons, h]
    · simp [find?_cons, h, ih]

theorem find?_some_mem (k : κ) (v : ν) (l : List (κ × ν)) (h : find? k l = some v) : v ∈ l.map (·.2) := by
  induction l with
  | nil => simp at h
  | cons a l ih =>
    obtain ⟨k', v'⟩ := a
    by_cases h2 : k' = k
    · simp [find?_cons, h2] at h
      simp [h]
    · simp [find?_cons, h2] at h
      simp [ih h]

/-- different keys of an association list with pairwise different values have different values -/
theorem find?_inj_of_nodup_vals (l : List (κ × ν)) (hn : (l.map (·.2)).Nodup) (s t : κ) (v : ν)
    (hs : find? s l = some v) (ht : find? t l = some v) : s = t := by
  induction l with
  | nil => simp at hs
  | cons a l ih =>
    obtain ⟨k', v'⟩ := a
    simp only [List.map_cons, List.nodup_cons] at hn
    by_cases h1 : k' = s
    · by_cases h2 : k' = t
      · rw [← h1, ← h2]
      · simp [find?_cons, h1] at hs
        simp [find?_cons, h2] at ht
        subst hs
        exact absurd (find?_some_mem t v' l ht) hn.1
    · by_cases h2 : k' = t
      · simp [find?_cons, h1] at hs
        simp [find?_cons, h2] at ht
        subst ht
        exact absurd (find?_some_mem s v' l hs) hn.1
      · simp [find?_cons, h1] at hs
        simp [find?_cons, h2] at ht
        exact ih hn.2 hs ht

end alist

/-! ## bytes of naturals -/

def bytesNat (bs : List UInt8) : Nat := bs.foldl (fun a b => a * 256 + b.toNat) 0

theorem bytesNat_append_single (bs : List UInt8) (b : UInt8) :
    bytesNat (bs ++ [b]) = bytesNat bs * 256 + b.toNat := by
  simp [bytesNat, List.foldl_append]

theorem bytesNat_natBytesAux (fuel : Nat) : ∀ n, n ≤ fuel → bytesNat (natBytesAux fuel n) = n := by
  induction fuel with
  | zero => intro n h; have : n = 0 := by omega
            subst this; rfl
  | succ f ih =>
    intro n h
    unfold natBytesAux
    by_cases h0 : n = 0
    · simp [h0, bytesNat]
    · simp only [h0, if_false]
      rw [bytesNat_append_single, ih (n / 256) (by omega)]
      have : (UInt8.ofNat (n % 256)).toNat = n % 256 := by
        simp [UInt8.toNat_ofNat']
      rw [this]
      omega

theorem bytesNat_natBytes (n : Nat) : bytesNat (natBytes n) = n :=
  bytesNat_natBytesAux n n (Nat.le_refl n)

theorem natBytes_injective {a b : Nat} (h : natBytes a = natBytes b) : a = b := by
  have := congrArg bytesNat h
  simpa [bytesNat_natBytes] using this

theorem strBytes_injective {s t : String} (h : strBytes s = strBytes t) : s = t := by
  unfold strBytes at h
  apply String.toByteArray_inj.mp
  have h2 : s.toUTF8.data = t.toUTF8.data := Array.toList_inj.mp h
  cases hs : s.toUTF8
  cases ht : t.toUTF8
  simp_all [String.toUTF8]

/-! ## the preimage encoding -/

theorem encodeSuffix_append (sep : Bool) (a b : List Datum) :
    encodeSuffix sep (a ++ b) = encodeSuffix sep a ++ encodeSuffix sep b := by
  induction a with
  | nil => rfl
  | cons d ds ih => simp [encodeSuffix, ih, List.append_assoc]

/-- NUL-separated join: `joinZ [x, y] = 0 :: x ++ 0 :: y` -/
def joinZ : List (List UInt8) → List UInt8
  | [] => []
  | x :: xs => (0 :: x) ++ joinZ xs

theorem encodeSuffix_true (ds : List Datum) : encodeSuffix true ds = joinZ (ds.map datumBytes) := by
  induction ds with
  | nil => rfl
  | cons d ds ih => simp [encodeSuffix, joinZ, ih]

def concatB : List (List UInt8) → List UInt8
  | [] => []
  | x :: xs => x ++ concatB xs

theorem encodeSuffix_false (ds : List Datum) : encodeSuffix false ds = concatB (ds.map datumBytes) := by
  induction ds with
  | nil => rfl
  | cons d ds ih => simp [encodeSuffix, concatB, ih]

/-- a NUL-free chunk followed by "nothing or a NUL" is determined by the whole -/
theorem chunk_split (x y r1 r2 : List UInt8) (hx : (0 : UInt8) ∉ x) (hy : (0 : UInt8) ∉ y)
    (h1 : r1 = [] ∨ ∃ t, r1 = 0 :: t) (h2 : r2 = [] ∨ ∃ t, r2 = 0 :: t)
    (h : x ++ r1 = y ++ r2) : x = y ∧ r1 = r2 := by
  induction x generalizing y with
  | nil =>
    cases y with
    | nil => simpa using h
    | cons b y' =>
      exfalso
      simp only [List.nil_append] at h
      rcases h1 with h1 | ⟨t, h1⟩
      · subst h1; simp at h
      · subst h1
        simp only [List.cons_append, List.cons.injEq] at h
        exact hy (by rw [← h.1]; simp)
  | cons a x' ih =>
    cases y with
    | nil =>
      exfalso
      simp only [List.nil_append] at h
      rcases h2 with h2 | ⟨t, h2⟩
      · subst h2; simp at h
      · subst h2
        simp only [List.cons_append, List.cons.injEq] at h
        exact hx (by rw [h.1]; simp)
    | cons b y' =>
      simp only [List.cons_append, List.cons.injEq] at h
      have hx' : (0 : UInt8) ∉ x' := fun hm => hx (List.mem_cons_of_mem _ hm)
      have hy' : (0 : UInt8) ∉ y' := fun hm => hy (List.mem_cons_of_mem _ hm)
      obtain ⟨e1, e2⟩ := ih y' hx' hy' h.2
      exact ⟨by rw [h.1, e1], e2⟩

theorem joinZ_head (xs : List (List UInt8)) : joinZ xs = [] ∨ ∃ t, joinZ xs = 0 :: t := by
  cases xs with
  | nil => exact Or.inl rfl
  | cons x xs => exact Or.inr ⟨x ++ joinZ xs, rfl⟩

/-- with the separator, the list of NUL-free chunks can be read back from the preimage -/
theorem joinZ_injective (xs ys : List (List UInt8)) (hx : ∀ x ∈ xs, (0 : UInt8) ∉ x)
    (hy : ∀ y ∈ ys, (0 : UInt8) ∉ y) (h : joinZ xs = joinZ ys) : xs = ys := by
  induction xs generalizing ys with
  | nil =>
    cases ys with
    | nil => rfl
    | cons y ys => simp [joinZ] at h
  | cons x xs ih =>
    cases ys with
    | nil => simp [joinZ] at h
    | cons y ys =>
      simp only [joinZ, List.cons_append, List.cons.injEq, true_and] at h
      obtain ⟨e1, e2⟩ := chunk_split x y (joinZ xs) (joinZ ys) (hx x (by simp)) (hy y (by simp))
        (joinZ_head xs) (joinZ_head ys) h
      rw [e1, ih ys (fun x hm => hx x (List.mem_cons_of_mem _ hm)) (fun y hm => hy y (List.mem_cons_of_mem _ hm)) e2]

/-- the suffix `make_rng` folds in: the scope path, then the call count -/
def suffixOf (π : List String) (j : Nat) : List Datum := π.map Datum.str ++ [Datum.int j]

theorem suffixOf_ne_nil (π : List String) (j : Nat) : suffixOf π j ≠ [] := by
  simp [suffixOf]

theorem map_datumBytes_suffixOf (π : List String) (j : Nat) :
    (suffixOf π j).map datumBytes = π.map strBytes ++ [natBytes j] := by
  simp [suffixOf, datumBytes, Function.comp_def]

theorem map_strBytes_injective {π₁ π₂ : List String} (h : π₁.map strBytes = π₂.map strBytes) : π₁ = π₂ := by
  induction π₁ generalizing π₂ with
  | nil => cases π₂ with
    | nil => rfl
    | cons b t => simp at h
  | cons a s ih => cases π₂ with
    | nil => simp at h
    | cons b t =>
      simp only [List.map_cons, List.cons.injEq] at h
      rw [strBytes_injective h.1, ih h.2]

theorem append_single_inj {α : Type} {a b : List α} {x y : α} (h : a ++ [x] = b ++ [y]) : a = b ∧ x = y := by
  have h1 := congrArg List.reverse h
  simp only [List.reverse_append, List.reverse_cons, List.reverse_nil, List.nil_append,
    List.singleton_append, List.cons.injEq] at h1
  exact ⟨List.reverse_inj.mp h1.2, h1.1⟩

end Flax.Rng
