/- C06 helper lemmas: insertion-ordered dicts (`dset`, `dupdate`, `mergeGroups`), `putVar`, `publish` -/
import Flax.Proofs.LiftLoopGroup

set_option linter.unusedSimpArgs false
set_option linter.unusedSectionVars false

namespace Flax.LiftLoop
open Flax.Filter

/-! ### dset / dget -/

theorem dget_dset_self {β : Type} : ∀ (d : List (String × β)) (k : String) (v : β), dget (dset d k v) k = some v := by
  intro d
  induction d with
  | nil => intro k v; simp [dset, dget, List.lookup_cons]
  | cons p ps ih =>
    intro k v
    obtain ⟨k', v'⟩ := p
    simp only [dset]
    by_cases h : k' = k
    · subst h; simp [dget, List.lookup_cons]
    · have : (k == k') = false := by simpa using (fun e => h e.symm)
      simp only [h, if_false, dget, List.lookup_cons, this]
      exact ih k v

theorem dget_dset_ne {β : Type} : ∀ (d : List (String × β)) (k k2 : String) (v : β), k2 ≠ k →
    dget (dset d k v) k2 = dget d k2 := by
  intro d
  induction d with
  | nil =>
    intro k k2 v h
    have : (k2 == k) = false := by simpa using h
    simp [dset, dget, List.lookup_cons, this]
  | cons p ps ih =>
    intro k k2 v h
    obtain ⟨k', v'⟩ := p
    simp only [dset]
    by_cases h' : k' = k
    · subst h'
      have : (k2 == k') = false := by simpa using h
      simp [dget, List.lookup_cons, this]
    · simp only [h', if_false, dget, List.lookup_cons]
      cases hk : (k2 == k')
      · exact ih k k2 v h
      · rfl

theorem keys_dset_of_mem {β : Type} : ∀ (d : List (String × β)) (k : String) (v : β), k ∈ d.map (·.1) →
    (dset d k v).map (·.1) = d.map (·.1) := by
  intro d
  induction d with
  | nil => intro k v h; cases h
  | cons p ps ih =>
    intro k v h
    obtain ⟨k', v'⟩ := p
    simp only [dset]
    by_cases h' : k' = k
    · simp [h']
    · simp only [h', if_false, List.map_cons]
      simp only [List.map_cons, List.mem_cons] at h
      rcases h with h | h
      · exact absurd h.symm h'
      · rw [ih k v h]

theorem dset_of_not_mem {β : Type} : ∀ (d : List (String × β)) (k : String) (v : β), k ∉ d.map (·.1) →
    dset d k v = d ++ [(k, v)] := by
  intro d
  induction d with
  | nil => intro k v _; rfl
  | cons p ps ih =>
    intro k v h
    obtain ⟨k', v'⟩ := p
    simp only [List.map_cons, List.mem_cons, not_or] at h
    have h' : ¬ k' = k := fun e => h.1 e.symm
    simp only [dset, h', if_false, List.cons_append, ih k v h.2]

/-- `d.update(e)` for a dict `e` whose keys are new and distinct is concatenation -/
theorem dupdate_disjoint {β : Type} : ∀ (e d : List (String × β)), (e.map (·.1)).Nodup →
    (∀ k ∈ e.map (·.1), k ∉ d.map (·.1)) → dupdate d e = d ++ e := by
  intro e
  induction e with
  | nil => intro d _ _; simp [dupdate]
  | cons p ps ih =>
    intro d hnd hdis
    obtain ⟨k, v⟩ := p
    simp only [List.map_cons, List.nodup_cons] at hnd
    have hk : k ∉ d.map (·.1) := hdis k (by simp)
    simp only [dupdate, List.foldl_cons]
    rw [dset_of_not_mem d k v hk]
    have := ih (d ++ [(k, v)]) hnd.2 (by
      intro k' hk'
      simp only [List.map_append, List.map_cons, List.map_nil, List.mem_append, List.mem_singleton, not_or]
      refine ⟨hdis k' (by simp [hk']), ?_⟩
      intro e; subst e; exact hnd.1 hk')
    simp only [dupdate] at this
    rw [this]; simp

/-! ### putVar / publish -/

/-- the value of variable `name` of collection `col` -/
def getVar {α : Type} (vars : Vars α) (col name : String) : Option (Arr α) := (dget vars col).bind (fun c => dget c name)

theorem getVar_putVar_self {α : Type} (vars : Vars α) (col name : String) (v : Arr α) :
    getVar (putVar vars col name v) col name = some v := by
  simp [getVar, putVar, dget_dset_self]

theorem getVar_putVar_ne {α : Type} (vars : Vars α) (col name c n : String) (v : Arr α)
    (h : ¬ (col = c ∧ name = n)) : getVar (putVar vars col name v) c n = getVar vars c n := by
  unfold getVar putVar
  by_cases hc : c = col
  · subst hc
    have hn : n ≠ name := fun e => h ⟨rfl, e.symm⟩
    rw [dget_dset_self]
    simp only [Option.bind_some]
    rw [dget_dset_ne _ _ _ _ hn]
    cases dget vars c <;> simp [dget]
  · rw [dget_dset_ne _ _ _ _ hc]

/-- the writes `publish_results_fn` performs, in order: one per variable of every MUTABLE collection of every
out group — a read-only collection contributes nothing and does not affect its siblings -/
def publishWrites {α : Type} (scopeMut : LFilter) (groups : List (Vars α)) : List (String × String × Arr α) :=
  groups.flatMap (fun g => g.flatMap (fun cc =>
    if inFilter scopeMut cc.1 then cc.2.map (fun nv => (cc.1, nv.1, nv.2)) else []))

theorem foldl_flatMap' {β γ σ : Type} (f : β → List γ) (g : σ → γ → σ) : ∀ (l : List β) (s : σ),
    (l.flatMap f).foldl g s = l.foldl (fun acc x => (f x).foldl g acc) s := by
  intro l
  induction l with
  | nil => intro s; rfl
  | cons x xs ih => intro s; simp [List.flatMap_cons, List.foldl_append, ih]

theorem publish_eq_writes {α : Type} (m : LFilter) (outer : Vars α) (groups : List (Vars α)) :
    publish m outer groups = (publishWrites m groups).foldl (fun o w => putVar o w.1 w.2.1 w.2.2) outer := by
  unfold publish publishWrites
  rw [foldl_flatMap']
  congr 1
  funext o g
  rw [foldl_flatMap']
  congr 1
  funext o' cc
  by_cases h : inFilter m cc.1 = true
  · simp only [h, if_true, List.foldl_map]
  · simp [h]

theorem foldl_put_preserve {α : Type} (c n : String) : ∀ (ws : List (String × String × Arr α)) (o : Vars α),
    (∀ w ∈ ws, ¬ (w.1 = c ∧ w.2.1 = n)) →
    getVar (ws.foldl (fun o w => putVar o w.1 w.2.1 w.2.2) o) c n = getVar o c n := by
  intro ws
  induction ws with
  | nil => intro o _; rfl
  | cons w ws ih =>
    intro o h
    simp only [List.foldl_cons]
    rw [ih _ (fun w' hw' => h w' (by simp [hw']))]
    exact getVar_putVar_ne o w.1 w.2.1 c n w.2.2 (h w (by simp))


/-! ### merging groups and regrouping them by the same filters -/

theorem foldl_dupdate_flatten {β : Type} : ∀ (gs : List (List (String × β))) (d : List (String × β)),
    ((d ++ gs.flatten).map (·.1)).Nodup → gs.foldl dupdate d = d ++ gs.flatten := by
  intro gs
  induction gs with
  | nil => intro d _; simp
  | cons g gs ih =>
    intro d h
    simp only [List.flatten_cons, List.foldl_cons] at h ⊢
    have hnd : ((d ++ g) ++ gs.flatten).map (·.1) = (d ++ (g ++ gs.flatten)).map (·.1) := by simp
    have h1 : (g.map (·.1)).Nodup := by
      simp only [List.map_append] at h
      exact ((List.nodup_append.1 h).2.1 |> List.nodup_append.1).1
    have h2 : ∀ k ∈ g.map (·.1), k ∉ d.map (·.1) := by
      intro k hk hd
      simp only [List.map_append] at h
      exact (List.nodup_append.1 h).2.2 k hd k (List.mem_append_left _ hk) rfl
    rw [dupdate_disjoint g d h1 h2, ih (d ++ g) (by rw [hnd]; exact h)]
    simp

/-- `scope_fn` on groups with distinct keys: the merged inner scope is the concatenation of the groups -/
theorem mergeGroups_flatten {β : Type} (gs : List (List (String × β))) (h : (gs.flatten.map (·.1)).Nodup) :
    mergeGroups gs = gs.flatten := by
  unfold mergeGroups
  have := foldl_dupdate_flatten gs [] (by simpa using h)
  simpa using this

theorem filter_flatten_role {β : Type} (fs : List LFilter) : ∀ (gs : List (List (String × β))) (off : Nat),
    (∀ j (hj : j < gs.length), ∀ kv ∈ gs[j], firstIdx fs kv.1 = some (off + j)) → ∀ g,
    roleGroup gs.flatten fs g = if off ≤ g then gs.getD (g - off) [] else [] := by
  intro gs
  induction gs with
  | nil => intro off _ g; simp [roleGroup]
  | cons x xs ih =>
    intro off h g
    simp only [List.flatten_cons, roleGroup, List.filter_append]
    have hx : ∀ kv ∈ x, firstIdx fs kv.1 = some off := by
      intro kv hkv; simpa using h 0 (by simp) kv hkv
    have hxs := ih (off + 1) (by
      intro j hj kv hkv
      have := h (j + 1) (by simpa using hj) kv (by simpa using hkv)
      rw [this]; congr 1; omega) g
    simp only [roleGroup] at hxs
    rw [hxs]
    by_cases hg : g = off
    · subst hg
      have : x.filter (fun kv => decide (firstIdx fs kv.1 = some g)) = x := by
        apply List.filter_eq_self.2; intro kv hkv; simp [hx kv hkv]
      rw [this]
      have hlt : ¬ (g + 1 ≤ g) := by omega
      simp [hlt]
    · have : x.filter (fun kv => decide (firstIdx fs kv.1 = some g)) = [] := by
        apply List.filter_eq_nil_iff.2; intro kv hkv
        simp only [hx kv hkv, decide_eq_true_eq]
        intro e; injection e with e; exact hg e.symm
      rw [this]
      by_cases hle : off ≤ g
      · have h1 : off + 1 ≤ g := by omega
        have h2 : g - off = (g - (off + 1)) + 1 := by omega
        simp [hle, h1, h2]
      · have h1 : ¬ (off + 1 ≤ g) := by omega
        simp [hle, h1]

/-- **merging the groups into the inner scope and regrouping by the same filters gives the groups back**
(`scope_fn` followed by `group_collections` of the next level), when every key of group `g` has `g` as its
first matching filter and keys are distinct -/
theorem regroup_after_merge {β : Type} (fs : List LFilter) (gs : List (List (String × β)))
    (hrole : ∀ j (hj : j < gs.length), ∀ kv ∈ gs[j], firstIdx fs kv.1 = some j)
    (hnd : (gs.flatten.map (·.1)).Nodup) (g : Nat) :
    roleGroup (mergeGroups gs) fs g = gs.getD g [] := by
  rw [mergeGroups_flatten gs hnd]
  have := filter_flatten_role fs gs 0 (by simpa using hrole) g
  simpa using this


/-! ### writing a same-structure group back in place -/

theorem foldl_dset_head {β : Type} : ∀ (e : List (String × β)) (p : String × β) (rest : List (String × β)),
    (∀ kv ∈ e, kv.1 ≠ p.1) →
    e.foldl (fun acc kv => dset acc kv.1 kv.2) (p :: rest) = p :: e.foldl (fun acc kv => dset acc kv.1 kv.2) rest := by
  intro e
  induction e with
  | nil => intro p rest _; rfl
  | cons kv e ih =>
    intro p rest h
    have hne : ¬ p.1 = kv.1 := fun eq => h kv (by simp) eq.symm
    simp only [List.foldl_cons]
    have : dset (p :: rest) kv.1 kv.2 = p :: dset rest kv.1 kv.2 := by
      obtain ⟨k, v⟩ := p
      simp only [dset]
      simp only at hne
      simp [hne]
    rw [this, ih p _ (fun kv' hkv' => h kv' (by simp [hkv']))]

/-- overwriting a dict with new values for exactly its keys, in its key order, gives the new dict -/
theorem foldl_dset_same_keys {β : Type} : ∀ (d e : List (String × β)), d.map (·.1) = e.map (·.1) →
    (e.map (·.1)).Nodup → e.foldl (fun acc kv => dset acc kv.1 kv.2) d = e := by
  intro d
  induction d with
  | nil => intro e h _; cases e with
    | nil => rfl
    | cons x xs => simp at h
  | cons p ps ih =>
    intro e h hnd
    cases e with
    | nil => simp at h
    | cons q qs =>
      obtain ⟨k, v⟩ := p
      obtain ⟨k', v'⟩ := q
      simp only [List.map_cons, List.cons.injEq] at h
      obtain ⟨hk, hrest⟩ := h
      subst hk
      simp only [List.map_cons, List.nodup_cons] at hnd
      simp only [List.foldl_cons, dset, if_true]
      rw [foldl_dset_head qs (k, v') ps (by
        intro kv hkv e'
        have e'' : kv.1 = k := e'
        exact hnd.1 (by rw [← e'']; exact List.mem_map_of_mem hkv))]
      rw [ih qs hrest hnd.2]

theorem dset_dset {β : Type} : ∀ (d : List (String × β)) (k : String) (x y : β),
    dset (dset d k x) k y = dset d k y := by
  intro d
  induction d with
  | nil => intro k x y; simp [dset]
  | cons p ps ih =>
    intro k x y
    obtain ⟨k', v'⟩ := p
    simp only [dset]
    by_cases h : k' = k
    · simp [h, dset]
    · simp [h, dset, ih]

/-- all the `put_variable` calls for one collection amount to one update of that collection -/
theorem foldl_putVar_col {α : Type} (col : String) : ∀ (vs : List (String × Arr α)) (o : Vars α), vs ≠ [] →
    vs.foldl (fun o nv => putVar o col nv.1 nv.2) o =
      dset o col (vs.foldl (fun acc nv => dset acc nv.1 nv.2) ((dget o col).getD [])) := by
  intro vs
  induction vs with
  | nil => intro o h; exact absurd rfl h
  | cons nv vs ih =>
    intro o _
    simp only [List.foldl_cons]
    cases vs with
    | nil => simp [putVar]
    | cons nv2 vs2 =>
      rw [ih (putVar o col nv.1 nv.2) (by simp)]
      simp only [putVar, dget_dset_self, Option.getD_some, dset_dset]

/-- **publishing a same-structure group writes it back in place**: if the out group has exactly the
collections of the scope, with exactly their variable names, in the same order, and all of them are mutable,
then after `publish_results_fn` the scope IS the group (so filtering the mutable collections and regrouping
them at the next level up gives the group back) -/
theorem publish_same_structure {α : Type} (m : LFilter) : ∀ (V G : Vars α),
    V.map (fun cc => (cc.1, cc.2.map (·.1))) = G.map (fun cc => (cc.1, cc.2.map (·.1))) →
    (G.map (·.1)).Nodup → (∀ cc ∈ G, (cc.2.map (·.1)).Nodup) → (∀ cc ∈ G, inFilter m cc.1 = true) →
    G.foldl (fun o cc => if inFilter m cc.1 then cc.2.foldl (fun o nv => putVar o cc.1 nv.1 nv.2) o else o) V = G := by
  intro V
  induction V with
  | nil =>
    intro G h _ _ _
    cases G with
    | nil => rfl
    | cons x xs => simp at h
  | cons p ps ih =>
    intro G h hnd hvn hm
    cases G with
    | nil => simp at h
    | cons q qs =>
      obtain ⟨c, old⟩ := p
      obtain ⟨c', new⟩ := q
      simp only [List.map_cons, List.cons.injEq, Prod.mk.injEq] at h
      obtain ⟨⟨hc, hnames⟩, hrest⟩ := h
      subst hc
      simp only [List.map_cons, List.nodup_cons] at hnd
      have hmq : inFilter m c = true := hm (c, new) (by simp)
      simp only [List.foldl_cons, hmq, if_true]
      -- first: the head collection
      have hhead : new.foldl (fun o nv => putVar o c nv.1 nv.2) ((c, old) :: ps) = (c, new) :: ps := by
        cases hn : new with
        | nil =>
          subst hn
          have : old = [] := by simpa using hnames
          simp [this]
        | cons nv nvs =>
          rw [← hn, foldl_putVar_col c new _ (by rw [hn]; simp)]
          simp only [dget, List.lookup_cons, beq_self_eq_true, Option.getD_some, dset, if_true]
          rw [foldl_dset_same_keys old new hnames (hvn (c, new) (by simp))]
      rw [hhead]
      -- then: the other collections never touch the head
      have htail : ∀ (qs' : Vars α) (o : Vars α), (∀ cc ∈ qs', cc.1 ≠ c) →
          qs'.foldl (fun o cc => if inFilter m cc.1 then cc.2.foldl (fun o nv => putVar o cc.1 nv.1 nv.2) o else o)
            ((c, new) :: o) =
          (c, new) :: qs'.foldl (fun o cc => if inFilter m cc.1 then cc.2.foldl (fun o nv => putVar o cc.1 nv.1 nv.2) o else o) o := by
        intro qs'
        induction qs' with
        | nil => intro o _; rfl
        | cons cc rest ih2 =>
          intro o hne
          simp only [List.foldl_cons]
          have hcc : cc.1 ≠ c := hne cc (by simp)
          have hstep : (if inFilter m cc.1 then cc.2.foldl (fun o nv => putVar o cc.1 nv.1 nv.2) ((c, new) :: o) else (c, new) :: o)
              = (c, new) :: (if inFilter m cc.1 then cc.2.foldl (fun o nv => putVar o cc.1 nv.1 nv.2) o else o) := by
            by_cases hmm : inFilter m cc.1 = true
            · simp only [hmm, if_true]
              have : ∀ (vs : List (String × Arr α)) (o : Vars α),
                  vs.foldl (fun o nv => putVar o cc.1 nv.1 nv.2) ((c, new) :: o) =
                  (c, new) :: vs.foldl (fun o nv => putVar o cc.1 nv.1 nv.2) o := by
                intro vs
                induction vs with
                | nil => intro o; rfl
                | cons nv vs ih3 =>
                  intro o
                  simp only [List.foldl_cons]
                  have hb : (cc.1 == c) = false := by simpa using hcc
                  have : putVar ((c, new) :: o) cc.1 nv.1 nv.2 = (c, new) :: putVar o cc.1 nv.1 nv.2 := by
                    simp only [putVar, dget, List.lookup_cons, hb, dset]
                    have hne' : ¬ c = cc.1 := fun e => hcc e.symm
                    simp [hne']
                  rw [this, ih3]
              exact this cc.2 o
            · simp [hmm]
          rw [hstep, ih2 _ (fun cc' hcc' => hne cc' (by simp [hcc']))]
      rw [htail qs ps (by
        intro cc hcc e
        exact hnd.1 (by rw [← e]; exact List.mem_map_of_mem hcc))]
      rw [ih qs hrest hnd.2 (fun cc hcc => hvn cc (by simp [hcc])) (fun cc hcc => hm cc (by simp [hcc]))]


/-! ### re-adding the broadcast input collections that the body's output lacks (lift.py:1019-1022) -/

theorem dget_append_single {β : Type} (acc : List (String × β)) (x : String × β) (k : String) (h : k ≠ x.1) :
    (dget (acc ++ [x]) k).isNone = (dget acc k).isNone := by
  unfold dget
  induction acc with
  | nil =>
    obtain ⟨kx, vx⟩ := x
    have : (k == kx) = false := by simpa using h
    simp [List.lookup_cons, this]
  | cons p ps ih =>
    obtain ⟨kp, vp⟩ := p
    simp only [List.cons_append, List.lookup_cons]
    cases (k == kp) <;> simp [ih]

theorem reinject_eq {α : Type} : ∀ (bIn acc : Vars α), (bIn.map (·.1)).Nodup →
    bIn.foldl (fun acc cc => if (dget acc cc.1).isSome then acc else acc ++ [cc]) acc =
      acc ++ bIn.filter (fun cc => (dget acc cc.1).isNone) := by
  intro bIn
  induction bIn with
  | nil => intro acc _; simp
  | cons x xs ih =>
    intro acc hnd
    simp only [List.map_cons, List.nodup_cons] at hnd
    simp only [List.foldl_cons, List.filter_cons]
    cases hx : dget acc x.1 with
    | some v =>
      simp only [Option.isSome_some, if_true, Option.isNone_some, Bool.false_eq_true, if_false]
      exact ih acc hnd.2
    | none =>
      simp only [Option.isSome_none, Bool.false_eq_true, if_false, Option.isNone_none, if_true]
      rw [ih (acc ++ [x]) hnd.2]
      have : xs.filter (fun cc => (dget (acc ++ [x]) cc.1).isNone) = xs.filter (fun cc => (dget acc cc.1).isNone) := by
        apply List.filter_congr
        intro cc hcc
        apply dget_append_single
        intro e
        exact hnd.1 (by rw [← e]; exact List.mem_map_of_mem hcc)
      rw [this]; simp

end Flax.LiftLoop
