/- helper lemmas for C08: `StateAxes.map_prefix`, `check_consistent_aliasing`, first-match splitting -/
import Flax.Proofs.NnxLoopBase

namespace Flax.NnxLoop
open Flax.Filter Flax.LiftLoop

/-! ### map_prefix = first match -/

theorem mapPrefix_eq (sa : StateAxes) (p : Path) (x : VarInfo) :
    mapPrefix sa p x =
      match sa[firstMatch (sa.map (·.1)) p x]? with
      | some fa => .ok fa.2
      | none => .error .noAxisFound := by
  induction sa with
  | nil => simp [mapPrefix, firstMatch]
  | cons fa rest ih =>
    obtain ⟨f, a⟩ := fa
    by_cases h : denote f p x = true
    · simp [mapPrefix, firstMatch, h]
    · simp [mapPrefix, firstMatch, h, ih]

theorem firstMatch_le' (preds : List NFilter) (p : Path) (x : VarInfo) : firstMatch preds p x ≤ preds.length := by
  induction preds with
  | nil => simp [firstMatch]
  | cons f fs ih => simp only [firstMatch]; split <;> simp <;> omega

theorem mapPrefix_ok_lt {sa : StateAxes} {p : Path} {x : VarInfo} {a : Ax} (h : mapPrefix sa p x = .ok a) :
    firstMatch (sa.map (·.1)) p x < sa.length ∧ (sa.map (·.2))[firstMatch (sa.map (·.1)) p x]? = some a := by
  rw [mapPrefix_eq] at h
  cases hs : sa[firstMatch (sa.map (·.1)) p x]? with
  | none => rw [hs] at h; cases h
  | some fa =>
    rw [hs] at h
    injection h with h
    have hlt := (List.getElem?_eq_some_iff.1 hs).1
    refine ⟨hlt, ?_⟩
    rw [List.getElem?_map, hs, ← h]; rfl

theorem mapPrefix_error {sa : StateAxes} {p : Path} {x : VarInfo} {e : Err} (h : mapPrefix sa p x = .error e) :
    e = .noAxisFound ∧ firstMatch (sa.map (·.1)) p x = sa.length := by
  rw [mapPrefix_eq] at h
  cases hs : sa[firstMatch (sa.map (·.1)) p x]? with
  | some fa => rw [hs] at h; cases h
  | none =>
    rw [hs] at h
    injection h with h
    have := List.getElem?_eq_none_iff.1 hs
    have h2 := firstMatch_le' (sa.map (·.1)) p x
    simp at h2
    exact ⟨h.symm, by omega⟩

/-! ### consistent -/

theorem consistent_iff (np : NodePrefixes) :
    consistent np = true ↔ ∀ x ∈ np, ∀ y ∈ np, x.1 = y.1 → x.2 = y.2 := by
  simp only [consistent, List.all_eq_true, Bool.or_eq_true, Bool.not_eq_true', decide_eq_false_iff_not,
    decide_eq_true_eq]
  constructor
  · intro h x hx y hy hxy
    rcases h x hx y hy with h1 | h1
    · exact absurd hxy h1
    · exact h1
  · intro h x hx y hy
    by_cases hxy : x.1 = y.1
    · exact Or.inr (h x hx y hy hxy)
    · exact Or.inl hxy

theorem consistent_of_append {a b : NodePrefixes} (h : consistent (a ++ b) = true) : consistent a = true := by
  rw [consistent_iff] at h ⊢
  intro x hx y hy
  exact h x (List.mem_append_left _ hx) y (List.mem_append_left _ hy)

/-- the `(Variable, prefix)` pairs one leaf contributes -/
def leafPrefixes (p : Prefix) (es : List Entry) : Except Err NodePrefixes :=
  mapX (fun e => match p.at e with
    | .ok a => .ok (e.id, a)
    | .error err => .error err) es

theorem collect_eq (p : Prefix) : ∀ (es : List Entry) (np : NodePrefixes),
    collect p es np = match leafPrefixes p es with
      | .ok l => .ok (np ++ l)
      | .error e => .error e := by
  intro es
  induction es with
  | nil => intro np; simp [collect, leafPrefixes, mapX]
  | cons e es ih =>
    intro np
    simp only [collect, leafPrefixes, mapX]
    cases hp : p.at e with
    | error err => rfl
    | ok a =>
      simp only [ih]
      simp only [leafPrefixes]
      cases mapX (fun e => match p.at e with
        | .ok a => Except.ok (e.id, a)
        | .error err => .error err) es with
      | error err => rfl
      | ok l => simp

theorem leafPrefixes_ok_at {p : Prefix} {es : List Entry} {l : NodePrefixes} (h : leafPrefixes p es = .ok l) :
    l.length = es.length ∧ ∀ e ∈ es, ∃ a, p.at e = .ok a ∧ (e.id, a) ∈ l := by
  refine ⟨mapX_length h, ?_⟩
  intro e he
  obtain ⟨y, hy, hm⟩ := mapX_ok_mem h e he
  cases hp : p.at e with
  | error err => simp [hp] at hy
  | ok a =>
    simp only [hp] at hy
    injection hy with hy
    exact ⟨a, rfl, hy ▸ hm⟩

/-- every pair a leaf contributes is `(e.id, prefix.at e)` for one of its occurrences -/
theorem leafPrefixes_mem {p : Prefix} {es : List Entry} {l : NodePrefixes} (h : leafPrefixes p es = .ok l) :
    ∀ x ∈ l, ∃ e ∈ es, p.at e = .ok x.2 ∧ e.id = x.1 := by
  intro x hx
  obtain ⟨e, he, hf⟩ := mapX_ok_mem_rev h x hx
  cases hp : p.at e with
  | error err => simp [hp] at hf
  | ok a =>
    simp only [hp] at hf
    injection hf with hf
    subst hf
    exact ⟨e, he, hp, rfl⟩

theorem checkAliasing_ok {p : Prefix} {es : List Entry} {np np' : NodePrefixes}
    (h : checkAliasing p es np = .ok np') :
    ∃ l, leafPrefixes p es = .ok l ∧ np' = np ++ l ∧ consistent np' = true := by
  simp only [checkAliasing, collect_eq] at h
  cases hl : leafPrefixes p es with
  | error e => simp [hl] at h
  | ok l =>
    simp only [hl] at h
    by_cases hc : consistent (np ++ l) = true
    · simp only [hc, if_true] at h
      injection h with h
      exact ⟨l, rfl, h.symm, h ▸ hc⟩
    · simp [hc] at h

/-! ### splitting the flat state -/

theorem flatOf_ok_iff {α : Type} {owned : List Entry} {st : Store α} {flat : Flat α}
    (h : flatOf owned st = .ok flat) :
    flat.length = owned.length ∧
    ∀ i (h1 : i < owned.length) (h2 : i < flat.length),
      ∃ v, st.lookup owned[i].id = some v ∧ flat[i] = (owned[i].path, owned[i].info, v) := by
  refine ⟨mapX_length h, ?_⟩
  intro i h1 h2
  have := mapX_ok_getElem h i h1 h2
  cases hv : st.lookup owned[i].id with
  | none => simp [hv] at this
  | some v =>
    simp only [hv] at this
    injection this with this
    exact ⟨v, rfl, this.symm⟩

theorem flatOf_of_total {α : Type} [Inhabited α] (owned : List Entry) (st : Store α)
    (h : ∀ e ∈ owned, (st.lookup e.id).isSome) :
    flatOf owned st = .ok (owned.map (fun e => (e.path, e.info, (st.lookup e.id).getD default))) := by
  apply mapX_eq_map
  intro e he
  have := h e he
  cases hv : st.lookup e.id with
  | none => simp [hv] at this
  | some v => simp

theorem flatOf_paths {α : Type} {owned : List Entry} {st : Store α} {flat : Flat α}
    (h : flatOf owned st = .ok flat) : flat.map (·.1) = owned.map (·.path) := by
  have := mapX_ok_eq_map (g := fun e => (e.path, e.info, (match st.lookup e.id with | some v => v | none => ⟨[], []⟩))) h
    (by
      intro e _ y hy
      cases hv : st.lookup e.id with
      | none => simp [hv] at hy
      | some v => simp only [hv] at hy; injection hy with hy; simp [← hy])
  rw [this, List.map_map]
  rfl

theorem flatOf_infos {α : Type} {owned : List Entry} {st : Store α} {flat : Flat α}
    (h : flatOf owned st = .ok flat) : flat.map (fun x => (x.1, x.2.1)) = owned.map (fun e => (e.path, e.info)) := by
  have := mapX_ok_eq_map (g := fun e => (e.path, e.info, (match st.lookup e.id with | some v => v | none => ⟨[], []⟩))) h
    (by
      intro e _ y hy
      cases hv : st.lookup e.id with
      | none => simp [hv] at hy
      | some v => simp only [hv] at hy; injection hy with hy; simp [← hy])
  rw [this, List.map_map]
  rfl

end Flax.NnxLoop
