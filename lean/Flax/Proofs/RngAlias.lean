/-
C09: counter dictionaries are shared by reference; the replay of counter increments on a jit cache hit
(`set_from_dict`, in place) keeps every already-bound child scope aliased with its parent's entry, so a cache hit is
indistinguishable from running the body.
-/
import Flax.Proofs.Rng

namespace Flax.Rng

/-- the heap is a tree with canonical addresses: what `Scope.push` and `set_from_dict` maintain -/
structure Canon (h : CHeap) : Prop where
  link : ∀ (a : CRef) (n : String) (b : CRef), find? (a, n) h.links = some b → b = (a.1, a.2 ++ [n])
  target : ∀ (a : CRef) (n : String) (b : CRef), find? (a, n) h.links = some b → (find? b h.cells).isSome
  nolink : ∀ (a : CRef) (n : String), find? (a, n) h.links = none → find? ((a.1, a.2 ++ [n]) : CRef) h.cells = none
  closed : ∀ (r : Nat) (q : List String) (m : String),
    (find? ((r, q ++ [m]) : CRef) h.cells).isSome → (find? ((r, q) : CRef) h.cells).isSome

def LinksMono (h h' : CHeap) : Prop := ∀ k v, find? k h.links = some v → find? k h'.links = some v
def CellsMono (h h' : CHeap) : Prop := ∀ c : CRef, (find? c h.cells).isSome → (find? c h'.cells).isSome
def ReadEq (h h' : CHeap) : Prop := ∀ (b : CRef) (s : String), h'.read b s = h.read b s

theorem canon_init : Canon CHeap.init := by
  refine ⟨by intro a n b h; simp [CHeap.init] at h, by intro a n b h; simp [CHeap.init] at h, ?_, ?_⟩
  · intro a n _
    simp only [CHeap.init, find?_cons, find?_nil]
    have : ¬ (((0 : Nat), ([] : List String)) = ((a.1, a.2 ++ [n]) : CRef)) := by
      intro e; have := (Prod.mk.inj e).2; simp at this
    simp [this]
  · intro r q m h
    simp only [CHeap.init, find?_cons, find?_nil] at h
    have : ¬ (((0 : Nat), ([] : List String)) = ((r, q ++ [m]) : CRef)) := by
      intro e; have := (Prod.mk.inj e).2; simp at this
    simp [this] at h

theorem pushC_spec (h : CHeap) (hc : Canon h) (a : CRef) (ha : (find? a h.cells).isSome) (n : String) :
    (h.pushC a n).2 = (a.1, a.2 ++ [n]) ∧ Canon (h.pushC a n).1 ∧ (find? (h.pushC a n).2 (h.pushC a n).1.cells).isSome ∧
      LinksMono h (h.pushC a n).1 ∧ CellsMono h (h.pushC a n).1 ∧ ReadEq h (h.pushC a n).1 := by
  unfold CHeap.pushC
  cases hl : find? (a, n) h.links with
  | some b =>
    exact ⟨hc.link a n b hl, hc, hc.target a n b hl, fun _ _ h => h, fun _ h => h, fun _ _ => rfl⟩
  | none =>
    have hcell := hc.nolink a n hl
    simp only []
    refine ⟨trivial, ?_, by simp [find?_append_new _ _ _ hcell], ?_, ?_, ?_⟩
    · refine ⟨?_, ?_, ?_, ?_⟩
      · intro a' n' b' hf
        by_cases he : (a', n') = (a, n)
        · rw [he, find?_append_new _ _ _ hl] at hf
          obtain ⟨rfl, rfl⟩ := Prod.mk.inj he
          simpa using hf.symm
        · rw [find?_append_ne _ _ _ _ he] at hf
          exact hc.link a' n' b' hf
      · intro a' n' b' hf
        by_cases he : (a', n') = (a, n)
        · rw [he, find?_append_new _ _ _ hl] at hf
          have : b' = (a.1, a.2 ++ [n]) := by simpa using hf.symm
          subst this
          simp [find?_append_new _ _ _ hcell]
        · rw [find?_append_ne _ _ _ _ he] at hf
          have := hc.target a' n' b' hf
          by_cases hb : b' = (a.1, a.2 ++ [n])
          · subst hb; simp [find?_append_new _ _ _ hcell]
          · simpa [find?_append_ne _ _ _ _ hb] using this
      · intro a' n' hf
        have he : (a', n') ≠ (a, n) := by
          intro he
          rw [he, find?_append_new _ _ _ hl] at hf
          cases hf
        rw [find?_append_ne _ _ _ _ he] at hf
        have hne : ((a'.1, a'.2 ++ [n']) : CRef) ≠ (a.1, a.2 ++ [n]) := by
          intro e
          obtain ⟨e1, e2⟩ := Prod.mk.inj e
          obtain ⟨e3, e4⟩ := append_single_inj e2
          exact he (by
            obtain ⟨a1, a2⟩ := a
            obtain ⟨a1', a2'⟩ := a'
            simp only at e1 e3
            rw [e1, e3, e4])
        rw [find?_append_ne _ _ _ _ hne]
        exact hc.nolink a' n' hf
      · intro r q m hf
        by_cases hb : ((r, q ++ [m]) : CRef) = (a.1, a.2 ++ [n])
        · obtain ⟨e1, e2⟩ := Prod.mk.inj hb
          obtain ⟨e3, _⟩ := append_single_inj e2
          have : ((r, q) : CRef) = a := by rw [e1, e3]
          rw [this]
          have hab : a ≠ (a.1, a.2 ++ [n]) := by
            intro e
            have := congrArg (fun c : CRef => c.2.length) e
            simp at this
          simpa [find?_append_ne _ _ _ _ hab] using ha
        · rw [find?_append_ne _ _ _ _ hb] at hf
          have := hc.closed r q m hf
          by_cases hq : ((r, q) : CRef) = (a.1, a.2 ++ [n])
          · rw [hq]; simp [find?_append_new _ _ _ hcell]
          · simpa [find?_append_ne _ _ _ _ hq] using this
    · intro k v hf
      by_cases he : k = (a, n)
      · rw [he, hl] at hf; cases hf
      · simpa [find?_append_ne _ _ _ _ he] using hf
    · intro c hcs
      by_cases he : c = (a.1, a.2 ++ [n])
      · rw [he]; simp [find?_append_new _ _ _ hcell]
      · simpa [find?_append_ne _ _ _ _ he] using hcs
    · intro b s
      unfold CHeap.read
      simp only []
      by_cases he : b = (a.1, a.2 ++ [n])
      · rw [he, find?_append_new _ _ _ hcell, hcell]; rfl
      · rw [find?_append_ne _ _ _ _ he]

theorem ensure_spec : ∀ (p : List String) (h : CHeap), Canon h → ∀ (a : CRef), (find? a h.cells).isSome →
    (h.ensure a p).2 = (a.1, a.2 ++ p) ∧ Canon (h.ensure a p).1 ∧ (find? (h.ensure a p).2 (h.ensure a p).1.cells).isSome ∧
      LinksMono h (h.ensure a p).1 ∧ CellsMono h (h.ensure a p).1 ∧ ReadEq h (h.ensure a p).1 := by
  intro p
  induction p with
  | nil =>
    intro h hc a ha
    exact ⟨by simp [CHeap.ensure], hc, ha, fun _ _ h => h, fun _ h => h, fun _ _ => rfl⟩
  | cons n rest ih =>
    intro h hc a ha
    obtain ⟨e1, c1, x1, l1, m1, r1⟩ := pushC_spec h hc a ha n
    obtain ⟨e2, c2, x2, l2, m2, r2⟩ := ih (h.pushC a n).1 c1 (h.pushC a n).2 x1
    simp only [CHeap.ensure]
    refine ⟨by rw [e2, e1]; simp, c2, x2, fun k v hk => l2 k v (l1 k v hk), fun c hcs => m2 c (m1 c hcs), ?_⟩
    intro b s
    rw [r2 b s, r1 b s]

theorem read_modify (h : CHeap) (b : CRef) (s : String) (f : Nat → Nat) (b' : CRef) (t : String) :
    (h.modify b s f).read b' t = if b' = b ∧ t = s then f (h.read b s) else h.read b' t := by
  unfold CHeap.modify CHeap.read
  simp only []
  by_cases hb : b' = b
  · subst hb
    rw [find?_set_self]
    by_cases ht : t = s
    · subst ht; simp [find?_set_self]
    · simp only [ht, and_false, if_false, find?_set_ne _ _ _ _ ht]
      cases find? b' h.cells <;> rfl
  · simp only [hb, false_and, if_false, find?_set_ne _ _ _ _ hb]

theorem modify_cells_isSome (h : CHeap) (b : CRef) (hb : (find? b h.cells).isSome) (s : String) (f : Nat → Nat) (c : CRef) :
    (find? c (h.modify b s f).cells).isSome = (find? c h.cells).isSome := by
  unfold CHeap.modify
  simp only []
  by_cases hc : c = b
  · subst hc; simp [find?_set_self, hb]
  · rw [find?_set_ne _ _ _ _ hc]

theorem modify_canon (h : CHeap) (hc : Canon h) (b : CRef) (hb : (find? b h.cells).isSome) (s : String) (f : Nat → Nat) :
    Canon (h.modify b s f) := by
  have hs := modify_cells_isSome h b hb s f
  refine ⟨hc.link, ?_, ?_, ?_⟩
  · intro a n b' hf
    rw [hs]; exact hc.target a n b' hf
  · intro a n hf
    have := hc.nolink a n hf
    have h2 := hs (a.1, a.2 ++ [n])
    rw [this] at h2
    cases hx : find? ((a.1, a.2 ++ [n]) : CRef) (h.modify b s f).cells with
    | none => rfl
    | some d => rw [hx] at h2; simp at h2
  · intro r q m hf
    rw [hs] at hf ⊢
    exact hc.closed r q m hf

/-- one in-place write through the nested keys `p` from dict `a` -/
theorem applyAt_spec (h : CHeap) (hc : Canon h) (a : CRef) (ha : (find? a h.cells).isSome) (p : List String) (s : String)
    (f : Nat → Nat) :
    Canon (h.applyAt a p s f) ∧ (find? a (h.applyAt a p s f).cells).isSome ∧ LinksMono h (h.applyAt a p s f) ∧
      ∀ (b : CRef) (t : String), (h.applyAt a p s f).read b t =
        if b = (a.1, a.2 ++ p) ∧ t = s then f (h.read b t) else h.read b t := by
  obtain ⟨e, c1, x1, l1, m1, r1⟩ := ensure_spec p h hc a ha
  unfold CHeap.applyAt
  simp only []
  refine ⟨modify_canon _ c1 _ x1 s f, ?_, l1, ?_⟩
  · rw [modify_cells_isSome _ _ x1]; exact m1 a ha
  · intro b t
    rw [read_modify, e]
    by_cases hb : b = (a.1, a.2 ++ p) ∧ t = s
    · obtain ⟨rfl, rfl⟩ := hb
      rw [if_pos ⟨rfl, rfl⟩, if_pos ⟨rfl, rfl⟩, r1]
    · simp only [hb, if_false]
      exact r1 b t

/-- how often the body draws from (dict `b`, stream `t`) -/
def hits (a : CRef) (b : CRef) (t : String) (body : List (List String × String)) : Nat :=
  (body.filter (fun d => decide (((a.1, a.2 ++ d.1) : CRef) = b ∧ d.2 = t))).length

theorem runBody_spec (a : CRef) : ∀ (body : List (List String × String)) (h : CHeap), Canon h → (find? a h.cells).isSome →
    Canon (h.runBody a body) ∧ (find? a (h.runBody a body).cells).isSome ∧ LinksMono h (h.runBody a body) ∧
      ∀ b t, (h.runBody a body).read b t = h.read b t + hits a b t body := by
  intro body
  induction body with
  | nil => intro h hc ha; exact ⟨hc, ha, fun _ _ h => h, by intro b t; simp [CHeap.runBody, hits]⟩
  | cons d rest ih =>
    intro h hc ha
    obtain ⟨p, s⟩ := d
    obtain ⟨c1, x1, l1, r1⟩ := applyAt_spec h hc a ha p s (· + 1)
    obtain ⟨c2, x2, l2, r2⟩ := ih _ c1 x1
    simp only [CHeap.runBody]
    refine ⟨c2, x2, fun k v hk => l2 k v (l1 k v hk), ?_⟩
    intro b t
    rw [r2 b t, r1 b t]
    simp only [hits, List.filter_cons]
    by_cases hb : b = (a.1, a.2 ++ p) ∧ t = s
    · obtain ⟨rfl, rfl⟩ := hb
      simp; omega
    · have : ¬ (((a.1, a.2 ++ p) : CRef) = b ∧ s = t) := fun hh => hb ⟨hh.1.symm, hh.2.symm⟩
      simp [hb, this]

theorem setFromDict_spec (a : CRef) : ∀ (ups : List (List String × String × Nat)) (h : CHeap), Canon h →
    (find? a h.cells).isSome → (ups.map (fun x => (x.1, x.2.1))).Nodup →
    Canon (h.setFromDict a ups) ∧ (find? a (h.setFromDict a ups).cells).isSome ∧ LinksMono h (h.setFromDict a ups) ∧
      (∀ x ∈ ups, (h.setFromDict a ups).read (a.1, a.2 ++ x.1) x.2.1 = x.2.2) ∧
      (∀ b t, (∀ x ∈ ups, ¬ (b = (a.1, a.2 ++ x.1) ∧ t = x.2.1)) → (h.setFromDict a ups).read b t = h.read b t) := by
  intro ups
  induction ups with
  | nil =>
    intro h hc ha _
    exact ⟨hc, ha, fun _ _ h => h, by intro x hx; simp at hx, by intro b t _; rfl⟩
  | cons u rest ih =>
    intro h hc ha hnd
    obtain ⟨p, s, v⟩ := u
    simp only [List.map_cons, List.nodup_cons] at hnd
    obtain ⟨c1, x1, l1, r1⟩ := applyAt_spec h hc a ha p s (fun _ => v)
    obtain ⟨c2, x2, l2, w2, u2⟩ := ih _ c1 x1 hnd.2
    simp only [CHeap.setFromDict]
    refine ⟨c2, x2, fun k v hk => l2 k v (l1 k v hk), ?_, ?_⟩
    · intro x hx
      rcases List.mem_cons.mp hx with rfl | hx
      · rw [u2]
        · rw [r1]; simp
        · intro y hy hh
          obtain ⟨e1, e2⟩ := hh
          have e3 : p = y.1 := List.append_cancel_left (Prod.mk.inj e1).2
          apply hnd.1
          simp only [List.mem_map]
          exact ⟨y, hy, by simp [← e3, ← e2]⟩
      · exact w2 x hx
    · intro b t hno
      rw [u2 b t (fun x hx => hno x (List.mem_cons_of_mem _ hx)), r1]
      have := hno (p, s, v) (by simp)
      simp only at this
      simp [this]

/-- under `Canon`, reading through the nested keys is reading the canonical cell -/
theorem absent_deep (h : CHeap) (hc : Canon h) (r : Nat) : ∀ (more q : List String),
    find? ((r, q) : CRef) h.cells = none → find? ((r, q ++ more) : CRef) h.cells = none := by
  intro more
  induction more with
  | nil => intro q hq; simpa using hq
  | cons m rest ih =>
    intro q hq
    have h1 : find? ((r, q ++ [m]) : CRef) h.cells = none := by
      cases hx : find? ((r, q ++ [m]) : CRef) h.cells with
      | none => rfl
      | some d =>
        have := hc.closed r q m (by simp [hx])
        rw [hq] at this; simp at this
    have := ih (q ++ [m]) h1
    simpa [List.append_assoc] using this

theorem readVia_canon (h : CHeap) (hc : Canon h) : ∀ (p : List String) (a : CRef) (s : String),
    h.readVia a p s = h.read (a.1, a.2 ++ p) s := by
  intro p
  induction p with
  | nil => intro a s; simp [CHeap.readVia, CHeap.walk]
  | cons n rest ih =>
    intro a s
    unfold CHeap.readVia
    simp only [CHeap.walk]
    cases hl : find? (a, n) h.links with
    | some b =>
      have hb := hc.link a n b hl
      have := ih b s
      unfold CHeap.readVia at this
      simp only [] at this ⊢
      rw [this, hb]
      simp [List.append_assoc]
    | none =>
      have h0 := hc.nolink a n hl
      have h1 := absent_deep h hc a.1 rest (a.2 ++ [n]) h0
      simp only [CHeap.read]
      have : a.2 ++ n :: rest = a.2 ++ [n] ++ rest := by simp
      rw [this, h1]

theorem mem_dedupKeys (l : List (List String × String)) (x : List String × String) : x ∈ dedupKeys l ↔ x ∈ l := by
  induction l with
  | nil => simp [dedupKeys]
  | cons y ys ih =>
    unfold dedupKeys
    by_cases h : y ∈ ys
    · simp only [h, if_true, ih, List.mem_cons]
      constructor
      · intro hx; exact Or.inr hx
      · rintro (rfl | hx)
        · exact h
        · exact hx
    · simp only [h, if_false, List.mem_cons, ih]

theorem nodup_dedupKeys (l : List (List String × String)) : (dedupKeys l).Nodup := by
  induction l with
  | nil => simp [dedupKeys]
  | cons y ys ih =>
    unfold dedupKeys
    by_cases h : y ∈ ys
    · simp [h, ih]
    · simp only [h, if_false, List.nodup_cons]
      exact ⟨fun hm => h ((mem_dedupKeys ys y).mp hm), ih⟩

theorem hits_eq_count (a : CRef) (p : List String) (s : String) (body : List (List String × String)) :
    hits a (a.1, a.2 ++ p) s body = (body.filter (fun d => decide (d = (p, s)))).length := by
  unfold hits
  congr 1
  apply List.filter_congr
  intro d _
  obtain ⟨p', s'⟩ := d
  simp only [Prod.mk.injEq, decide_eq_decide]
  constructor
  · rintro ⟨e1, e2⟩
    exact ⟨List.append_cancel_left e1.2, e2⟩
  · rintro ⟨rfl, rfl⟩
    simp

theorem hits_zero_of_not_mem (a b : CRef) (t : String) (body : List (List String × String))
    (h : ∀ d ∈ body, ¬ (b = (a.1, a.2 ++ d.1) ∧ t = d.2)) : hits a b t body = 0 := by
  unfold hits
  rw [List.length_eq_zero_iff, List.filter_eq_nil_iff]
  intro d hd
  simp only [decide_eq_true_eq]
  intro hh
  exact h d hd ⟨hh.1.symm, hh.2.symm⟩

/-- **A cache hit is indistinguishable from running the body** (in-place replay): every counter, read through any
reference, has the value the traced body would have left; no link is redirected. -/
theorem hitCall_spec (h : CHeap) (hc : Canon h) (a : CRef) (ha : (find? a h.cells).isSome)
    (body : List (List String × String)) :
    Canon (h.hitCall a (deltaOf body)) ∧ (find? a (h.hitCall a (deltaOf body)).cells).isSome ∧
      LinksMono h (h.hitCall a (deltaOf body)) ∧
      ∀ b t, (h.hitCall a (deltaOf body)).read b t = h.read b t + hits a b t body := by
  unfold CHeap.hitCall
  have hkeys : ((deltaOf body).map (fun x => (x.1, x.2.1, h.readVia a x.1 x.2.1 + x.2.2))).map (fun x => (x.1, x.2.1))
      = dedupKeys body := by
    simp [deltaOf, List.map_map, Function.comp_def]
  obtain ⟨c1, x1, l1, w1, u1⟩ := setFromDict_spec a _ h hc ha (by rw [hkeys]; exact nodup_dedupKeys body)
  refine ⟨c1, x1, l1, ?_⟩
  intro b t
  by_cases hex : ∃ d ∈ body, b = (a.1, a.2 ++ d.1) ∧ t = d.2
  · obtain ⟨d, hd, rfl, rfl⟩ := hex
    have hmem : (d.1, d.2, h.readVia a d.1 d.2 + (body.filter (fun d' => decide (d' = d))).length) ∈
        (deltaOf body).map (fun x => (x.1, x.2.1, h.readVia a x.1 x.2.1 + x.2.2)) := by
      simp only [deltaOf, List.map_map, List.mem_map, Function.comp]
      exact ⟨d, (mem_dedupKeys body d).mpr hd, rfl⟩
    have := w1 _ hmem
    simp only at this
    rw [this, readVia_canon h hc, hits_eq_count]
  · have hno : ∀ d ∈ body, ¬ (b = (a.1, a.2 ++ d.1) ∧ t = d.2) := fun d hd hh => hex ⟨d, hd, hh⟩
    rw [hits_zero_of_not_mem a b t body hno, Nat.add_zero]
    apply u1
    intro x hx
    simp only [deltaOf, List.map_map, List.mem_map, Function.comp] at hx
    obtain ⟨k, hk, rfl⟩ := hx
    exact hno k ((mem_dedupKeys body k).mp hk)

/-- `n` calls of a jit-ted function on the same counters: the first traces (runs the body), later ones hit the cache -/
def jitCalls (a : CRef) (body : List (List String × String)) : Nat → CHeap → CHeap
  | 0, h => h
  | n + 1, h => (jitCalls a body n h).hitCall a (deltaOf body)

def runCalls (a : CRef) (body : List (List String × String)) : Nat → CHeap → CHeap
  | 0, h => h
  | n + 1, h => (runCalls a body n h).runBody a body

theorem jitCalls_spec (a : CRef) (body : List (List String × String)) : ∀ (n : Nat) (h : CHeap), Canon h →
    (find? a h.cells).isSome →
    Canon (jitCalls a body n h) ∧ (find? a (jitCalls a body n h).cells).isSome ∧ LinksMono h (jitCalls a body n h) ∧
      ∀ b t, (jitCalls a body n h).read b t = h.read b t + n * hits a b t body := by
  intro n
  induction n with
  | zero => intro h hc ha; exact ⟨hc, ha, fun _ _ h => h, by intro b t; simp [jitCalls]⟩
  | succ n ih =>
    intro h hc ha
    obtain ⟨c1, x1, l1, r1⟩ := ih h hc ha
    obtain ⟨c2, x2, l2, r2⟩ := hitCall_spec _ c1 a x1 body
    refine ⟨c2, x2, fun k v hk => l2 k v (l1 k v hk), ?_⟩
    intro b t
    simp only [jitCalls]
    rw [r2, r1, Nat.add_mul]; omega

theorem runCalls_spec (a : CRef) (body : List (List String × String)) : ∀ (n : Nat) (h : CHeap), Canon h →
    (find? a h.cells).isSome →
    Canon (runCalls a body n h) ∧ (find? a (runCalls a body n h).cells).isSome ∧ LinksMono h (runCalls a body n h) ∧
      ∀ b t, (runCalls a body n h).read b t = h.read b t + n * hits a b t body := by
  intro n
  induction n with
  | zero => intro h hc ha; exact ⟨hc, ha, fun _ _ h => h, by intro b t; simp [runCalls]⟩
  | succ n ih =>
    intro h hc ha
    obtain ⟨c1, x1, l1, r1⟩ := ih h hc ha
    obtain ⟨c2, x2, l2, r2⟩ := runBody_spec a body _ c1 x1
    refine ⟨c2, x2, fun k v hk => l2 k v (l1 k v hk), ?_⟩
    intro b t
    simp only [runCalls]
    rw [r2, r1, Nat.add_mul]; omega

theorem walk_mono (h h' : CHeap) (hl : LinksMono h h') : ∀ (p : List String) (a b : CRef),
    h.walk a p = some b → h'.walk a p = some b := by
  intro p
  induction p with
  | nil => intro a b hw; simpa [CHeap.walk] using hw
  | cons n rest ih =>
    intro a b hw
    simp only [CHeap.walk] at hw ⊢
    cases hf : find? (a, n) h.links with
    | none => simp [hf] at hw
    | some c =>
      rw [hf] at hw
      rw [hl _ _ hf]
      exact ih c b hw

end Flax.Rng
