/- C06 helper lemmas: collecting the per-iteration outputs only depends on the stacking primitive's
   success/result -/
import Flax.Model.LiftLoop
import Flax.Proofs.LiftLoopMonad

set_option linter.unusedSimpArgs false
set_option linter.unusedSectionVars false

namespace Flax.LiftLoop
variable {α : Type}

abbrev Stk (α : Type) := List Nat → List (Arr α) → Except Err (Arr α)

theorem opt_mapE_congr {β γ : Type} {f g : β → Except Err γ} (l : List β)
    (h : ∀ x ∈ l, opt (f x) = opt (g x)) : opt (mapE f l) = opt (mapE g l) := by
  rw [opt_mapE, opt_mapE]
  exact mapO_congr l h

theorem stackList_opt (s1 s2 : Stk α) (h : ∀ sh ls, opt (s1 sh ls) = opt (s2 sh ls)) (k : Nat)
    (outs : List (List (Arr α))) : opt (stackList s1 k outs) = opt (stackList s2 k outs) := by
  unfold stackList
  cases outs with
  | nil => rfl
  | cons o0 rest =>
    simp only [opt_bind]
    congr 1
    funext a0
    congr 1
    funext ls
    exact h _ _

theorem stackCols_opt (s1 s2 : Stk α) (h : ∀ sh ls, opt (s1 sh ls) = opt (s2 sh ls))
    (cs : List (Col α)) : opt (stackCols s1 cs) = opt (stackCols s2 cs) := by
  unfold stackCols
  cases cs with
  | nil => rfl
  | cons c0 rest =>
    simp only []
    split
    · apply opt_mapE_congr
      intro nv _
      simp only [opt_bind]
      congr 1
      funext ls
      rw [h]
    · rfl

theorem stackVars_opt (s1 s2 : Stk α) (h : ∀ sh ls, opt (s1 sh ls) = opt (s2 sh ls))
    (vs : List (Vars α)) : opt (stackVars s1 vs) = opt (stackVars s2 vs) := by
  unfold stackVars
  cases vs with
  | nil => rfl
  | cons v0 rest =>
    simp only []
    split
    · apply opt_mapE_congr
      intro cc _
      simp only [opt_bind]
      congr 1
      funext cs
      rw [stackCols_opt s1 s2 h]
    · rfl

theorem collectOuts_opt (k1 k2 : Int → Stk α) (h : ∀ ax sh ls, opt (k1 ax sh ls) = opt (k2 ax sh ls))
    (oy : List (Option Int)) (ov : List Int) (consts : List (Arr α))
    (outs : List (List (Arr α) × List (Vars α))) :
    opt (collectOuts k1 oy ov consts outs) = opt (collectOuts k2 oy ov consts outs) := by
  unfold collectOuts
  simp only [opt_bind]
  have e1 : opt (mapE (collectY k1 consts outs) ((List.range oy.length).zip oy)) =
      opt (mapE (collectY k2 consts outs) ((List.range oy.length).zip oy)) := by
    apply opt_mapE_congr
    intro p _
    unfold collectY
    cases p.2 with
    | none => rfl
    | some ax => exact stackList_opt _ _ (h ax) _ _
  have e2 : opt (mapE (collectV k1 outs) ((List.range ov.length).zip ov)) =
      opt (mapE (collectV k2 outs) ((List.range ov.length).zip ov)) := by
    apply opt_mapE_congr
    intro p _
    exact stackVars_opt _ _ (h p.2) _
  rw [e1, e2]

end Flax.LiftLoop
