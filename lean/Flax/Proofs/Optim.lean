/-
Helper lemmas for the optimizer part of C17: `nnx.state` / `nnx.update` select-and-write-back algebra,
`optax.apply_updates` keeps the structure of `params`, wrap/unwrap of optimizer-state leaves, and the
one-step simulation of `nnx.Optimizer.update` by the hand-written loop.
-/
import Flax.Model.Optim

namespace Flax.Optim
open Flax.Filter (VarInfo Path)

/-- the pytree structure of a State: paths with VariableState type/metadata -/
def keysOf (st : NState α) : List (Path × VarInfo) := st.map (fun e => (e.1, e.2.info))

/-- the part of the model graph that `Optimizer.update` must never change: paths and metadata of
every Variable, and the values of the Variables not selected by `wrt` -/
def paths (m : Model α) : List Path := m.map (·.path)

theorem applyUpdatesN_keys [Add α] : ∀ (ps us r : NState α), applyUpdatesN ps us = .ok r → keysOf r = keysOf ps := by
  intro ps
  induction ps with
  | nil =>
    intro us r h
    cases us with
    | nil => simp [applyUpdatesN] at h; subst h; rfl
    | cons u us => simp [applyUpdatesN] at h
  | cons p ps ih =>
    intro us r h
    obtain ⟨pp, pv⟩ := p
    cases us with
    | nil => simp [applyUpdatesN] at h
    | cons u us =>
      obtain ⟨up, uv⟩ := u
      simp only [applyUpdatesN] at h
      split at h
      · cases hr : applyUpdatesN ps us with
        | error e => simp [hr] at h
        | ok r' =>
          simp [hr] at h
          subst h
          have := ih us r' hr
          simp [keysOf] at this ⊢
          exact this
      · simp at h

theorem keysOf_stateOf (sel : Path → VarInfo → Bool) (m : Model α) :
    keysOf (stateOf sel m) = (m.filter (fun v => sel v.path v.info)).map (fun v => (v.path, v.info)) := by
  simp [keysOf, stateOf, List.map_map, Function.comp_def]

theorem lookupN_none_of_not_mem (st : NState α) (p : Path) (h : p ∉ st.map (·.1)) : lookupN st p = none := by
  simp only [lookupN, Option.map_eq_none_iff, List.find?_eq_none]
  intro e he
  simp only [decide_eq_true_eq]
  intro heq
  exact h (by simpa using ⟨e.2, by rw [← heq]; exact he⟩)

theorem lookupN_cons_ne (e : Path × VState α) (st : NState α) (p : Path) (h : e.1 ≠ p) :
    lookupN (e :: st) p = lookupN st p := by
  simp [lookupN, h]

theorem lookupN_cons_eq (e : Path × VState α) (st : NState α) : lookupN (e :: st) e.1 = some e.2 := by
  simp [lookupN]

/-- the write-back function of `nnx.update` on one Variable -/
def writeVar (st : NState α) (v : Var α) : Var α :=
  match lookupN st v.path with
  | some vs => { v with value := vs.value, info := { v.info with tag := vs.info.tag } }
  | none => v

theorem updateModel_eq (m : Model α) (st : NState α)
    (h : ∀ e ∈ st, e.1 ∈ paths m) : updateModel m st = .ok (m.map (writeVar st)) := by
  unfold updateModel
  rw [if_pos]
  · rfl
  · simp only [List.all_eq_true, List.any_eq_true, decide_eq_true_eq]
    intro e he
    have := h e he
    simp only [paths, List.mem_map] at this
    obtain ⟨v, hv, hp⟩ := this
    exact ⟨v, hv, hp⟩

theorem map_writeVar_congr (m : Model α) (st st' : NState α)
    (h : ∀ v ∈ m, lookupN st v.path = lookupN st' v.path) : m.map (writeVar st) = m.map (writeVar st') := by
  apply List.map_congr_left
  intro v hv
  simp [writeVar, h v hv]

/-- select ∘ write-back: writing a State with the structure of `nnx.state(model, wrt)` back into a
model with pairwise distinct paths, then selecting again, returns that State; Variables outside the
selection are untouched, paths and metadata of all Variables are kept. -/
theorem select_writeback (sel : Path → VarInfo → Bool) : ∀ (m : Model α) (st : NState α),
    (paths m).Nodup → keysOf st = keysOf (stateOf sel m) →
    stateOf sel (m.map (writeVar st)) = st ∧
    (m.map (writeVar st)).map (fun v => (v.path, v.info)) = m.map (fun v => (v.path, v.info)) ∧
    (∀ v ∈ m, sel v.path v.info = false → writeVar st v = v) := by
  intro m
  induction m with
  | nil =>
    intro st _ hk
    have : st = [] := by simpa [keysOf, stateOf] using hk
    subst this
    simp [stateOf]
  | cons v m ih =>
    intro st hnd hk
    have hnd' : (paths m).Nodup := (List.nodup_cons.mp hnd).2
    have hv : v.path ∉ paths m := (List.nodup_cons.mp hnd).1
    by_cases hs : sel v.path v.info = true
    · -- v is selected: st = (v.path, vs) :: st'
      have hk' : keysOf st = (v.path, v.info) :: keysOf (stateOf sel m) := by
        rw [hk]; simp [keysOf, stateOf, hs]
      cases st with
      | nil => simp [keysOf] at hk'
      | cons e st' =>
        obtain ⟨ep, ev⟩ := e
        simp only [keysOf, List.map_cons, List.cons.injEq, Prod.mk.injEq] at hk'
        obtain ⟨⟨hp, hi⟩, hk''⟩ := hk'
        subst hp
        have hrest : ∀ w ∈ m, lookupN ((v.path, ev) :: st') w.path = lookupN st' w.path := by
          intro w hw
          apply lookupN_cons_ne
          intro heq
          apply hv
          simp only [paths, List.mem_map]
          exact ⟨w, hw, heq.symm⟩
        have hcong := map_writeVar_congr m _ _ hrest
        obtain ⟨i1, i2, i3⟩ := ih st' hnd' hk''
        have hwv : writeVar ((v.path, ev) :: st') v = { v with value := ev.value, info := { v.info with tag := ev.info.tag } } := by
          simp [writeVar, lookupN]
        have hinfo : ({ v.info with tag := ev.info.tag } : VarInfo) = v.info := by
          rw [hi]
        refine ⟨?_, ?_, ?_⟩
        · simp only [List.map_cons, hcong, hwv, hinfo]
          simp only [stateOf, List.filter_cons, hs, if_true, List.map_cons]
          simp only [stateOf] at i1
          rw [i1]
          cases ev
          simp_all
        · simp only [List.map_cons, hcong, hwv, hinfo, i2]
        · intro w hw hsel
          simp only [List.mem_cons] at hw
          rcases hw with rfl | hw
          · simp [hs] at hsel
          · have := i3 w hw hsel
            simp only [writeVar] at this ⊢
            rw [hrest w hw]
            exact this
    · -- v is not selected: its path is not a key of st
      have hs' : sel v.path v.info = false := by simpa using hs
      have hk' : keysOf st = keysOf (stateOf sel m) := by
        rw [hk]; simp [keysOf, stateOf, hs']
      obtain ⟨i1, i2, i3⟩ := ih st hnd' hk'
      have hnot : v.path ∉ st.map (·.1) := by
        have : st.map (·.1) = (keysOf st).map (·.1) := by simp [keysOf, List.map_map, Function.comp_def]
        rw [this, hk', keysOf_stateOf]
        simp only [List.map_map, List.mem_map, List.mem_filter, Function.comp_def]
        rintro ⟨w, ⟨hw, _⟩, hp⟩
        apply hv
        simp only [paths, List.mem_map]
        exact ⟨w, hw, hp⟩
      have hwv : writeVar st v = v := by simp [writeVar, lookupN_none_of_not_mem st v.path hnot]
      refine ⟨?_, ?_, ?_⟩
      · simp only [List.map_cons, hwv]
        simp only [stateOf, List.filter_cons, hs', Bool.false_eq_true, if_false]
        exact i1
      · simp only [List.map_cons, hwv, i2]
      · intro w hw hsel
        simp only [List.mem_cons] at hw
        rcases hw with rfl | hw
        · exact hwv
        · exact i3 w hw hsel

/-! ### optimizer-state leaves -/

theorem unwrap_wrap (l : OptLeaf α) : unwrapLeaf (wrapLeaf l) = l := by cases l <;> rfl
theorem wrap_unwrap (x : OptVar α) : wrapLeaf (unwrapLeaf x) = x := by cases x <;> rfl

theorem shape_unwrap (x : OptVar α) : (unwrapLeaf x).shape = x.shape := by cases x <;> rfl

/-- `_update_opt_state` with an update of the same shape succeeds, and afterwards the stored
Variables unwrap to exactly that update -/
theorem updateOptLeaves_ok : ∀ (cur : List (OptVar α)) (new : List (OptLeaf α)),
    cur.map OptVar.shape = new.map OptLeaf.shape →
    ∃ cur', updateOptLeaves cur new = (cur', none) ∧ cur'.map unwrapLeaf = new ∧
      cur'.map OptVar.shape = cur.map OptVar.shape := by
  intro cur
  induction cur with
  | nil =>
    intro new h
    cases new with
    | nil => exact ⟨[], by simp [updateOptLeaves], rfl, rfl⟩
    | cons u us => simp at h
  | cons x xs ih =>
    intro new h
    cases new with
    | nil => simp at h
    | cons u us =>
      simp only [List.map_cons, List.cons.injEq] at h
      obtain ⟨hx, hxs⟩ := h
      obtain ⟨r, hr, hr1, hr2⟩ := ih us hxs
      cases x with
      | optVariable s v =>
        cases u with
        | vstate i w =>
          simp only [OptVar.shape, OptLeaf.shape, Option.some.injEq] at hx
          subst hx
          exact ⟨.optVariable s w :: r, by simp [updateOptLeaves, updateOptLeaf, hr], by simp [unwrapLeaf, hr1],
            by simp [OptVar.shape, hr2]⟩
        | arr w => simp [OptVar.shape, OptLeaf.shape] at hx
      | optArray v =>
        cases u with
        | vstate i w => simp [OptVar.shape, OptLeaf.shape] at hx
        | arr w =>
          exact ⟨.optArray w :: r, by simp [updateOptLeaves, updateOptLeaf, hr], by simp [unwrapLeaf, hr1],
            by simp [OptVar.shape, hr2]⟩

theorem updateOptState_ok (cur : List (OptVar α)) (new : List (OptLeaf α))
    (h : cur.map OptVar.shape = new.map OptLeaf.shape) :
    ∃ cur', updateOptState cur new = (cur', none) ∧ cur'.map unwrapLeaf = new ∧
      cur'.map OptVar.shape = cur.map OptVar.shape := by
  have hl : cur.length = new.length := by simpa using congrArg List.length h
  simp only [updateOptState, hl, if_true]
  exact updateOptLeaves_ok cur new h

/-- A-OPTAX, structural part: a transformation returns a state with the structure of the state it
was given (same leaf kinds, same VariableState type/metadata) -/
def ShapePreserving (tx : NTx α) : Prop :=
  ∀ g s p u s', tx.update g s p = .ok (u, s') → s'.map OptLeaf.shape = s.map OptLeaf.shape

/-- what one successful `Optimizer.update` leaves untouched -/
structure Frame {α : Type} (sel : Path → VarInfo → Bool) (o o' : Optimizer α) : Prop where
  keys : o'.model.map (fun (v : Var α) => (v.path, v.info)) = o.model.map (fun (v : Var α) => (v.path, v.info))
  unselected : ∀ (i : Nat) (v : Var α), o.model[i]? = some v → sel v.path v.info = false → o'.model[i]? = some v
  optShape : o'.optState.map OptVar.shape = o.optState.map OptVar.shape

theorem Frame.refl (sel : Path → VarInfo → Bool) (o : Optimizer α) : Frame sel o o :=
  ⟨rfl, fun _ _ h _ => h, rfl⟩

theorem Frame.trans {sel : Path → VarInfo → Bool} {a b c : Optimizer α} (h1 : Frame sel a b) (h2 : Frame sel b c) :
    Frame sel a c :=
  ⟨h2.keys.trans h1.keys, fun i v hv hs => h2.unselected i v (h1.unselected i v hv hs) hs,
   h2.optShape.trans h1.optShape⟩

theorem Frame.paths_eq {sel : Path → VarInfo → Bool} {a b : Optimizer α} (h : Frame sel a b) :
    Optim.paths b.model = Optim.paths a.model := by
  have := congrArg (List.map Prod.fst) h.keys
  simpa [Optim.paths, List.map_map, Function.comp_def] using this

/-- one step of `Optimizer.update` is one step of the hand-written loop on the abstraction -/
theorem update_simulates [Add α] (w : Width) (tx : NTx α) (sel : Path → VarInfo → Bool) (htx : ShapePreserving tx)
    (o : Optimizer α) (hwf : (paths o.model).Nodup) (g : NState α) (m : Manual (NState α) (List (OptLeaf α)))
    (hm : manualStep w tx applyUpdatesN (o.abs sel) g = .ok m) :
    ∃ o', o.update w tx sel g = (o', none) ∧ o'.abs sel = m ∧ Frame sel o o' := by
  simp only [manualStep, Optimizer.abs] at hm
  cases hu : tx.update g (o.optState.map unwrapLeaf) (stateOf sel o.model) with
  | error e => simp [hu] at hm
  | ok us =>
    obtain ⟨u, s'⟩ := us
    simp only [hu] at hm
    cases ha : applyUpdatesN (stateOf sel o.model) u with
    | error e => simp [ha] at hm
    | ok np =>
      simp only [ha, Except.ok.injEq] at hm
      have hk := applyUpdatesN_keys _ _ _ ha
      have hin : ∀ e ∈ np, e.1 ∈ paths o.model := by
        intro e he
        have h1 : (e.1, e.2.info) ∈ keysOf np := by simp only [keysOf, List.mem_map]; exact ⟨e, he, rfl⟩
        rw [hk, keysOf_stateOf] at h1
        simp only [List.mem_map, List.mem_filter] at h1
        obtain ⟨v, ⟨hv, _⟩, hp⟩ := h1
        simp only [paths, List.mem_map]
        exact ⟨v, hv, by simpa using congrArg Prod.fst hp⟩
      have hum := updateModel_eq o.model np hin
      obtain ⟨w1, w2, w3⟩ := select_writeback sel o.model np hwf hk
      have hshape : o.optState.map OptVar.shape = s'.map OptLeaf.shape := by
        have := htx _ _ _ _ _ hu
        rw [this]
        simp [List.map_map, Function.comp_def, shape_unwrap]
      obtain ⟨os, hos, hos1, hos2⟩ := updateOptState_ok o.optState s' hshape
      refine ⟨{ step := incStep w o.step, model := o.model.map (writeVar np), optState := os }, ?_, ?_, ?_⟩
      · simp only [Optimizer.update, hu, ha, hum, hos]
      · subst hm
        simp [Optimizer.abs, w1, hos1]
      · refine ⟨w2, ?_, hos2⟩
        intro i v hv hs
        simp only [List.getElem?_map, hv, Option.map_some]
        rw [w3 v (List.mem_of_getElem? hv) hs]

/-- an exception in `tx.update` / `optax.apply_updates` is raised before anything was mutated -/
theorem update_error_atomic [Add α] (w : Width) (tx : NTx α) (sel : Path → VarInfo → Bool) (o : Optimizer α) (g : NState α)
    (e : Err) (hm : manualStep w tx applyUpdatesN (o.abs sel) g = .error e) :
    o.update w tx sel g = (o, some e) := by
  simp only [manualStep, Optimizer.abs] at hm
  cases hu : tx.update g (o.optState.map unwrapLeaf) (stateOf sel o.model) with
  | error e' =>
    simp only [hu, Except.error.injEq] at hm
    simp [Optimizer.update, hu, hm]
  | ok us =>
    obtain ⟨u, s'⟩ := us
    simp only [hu] at hm
    cases ha : applyUpdatesN (stateOf sel o.model) u with
    | error e' =>
      simp only [ha, Except.error.injEq] at hm
      simp [Optimizer.update, hu, ha, hm]
    | ok np => simp [ha] at hm

/-- the part of the frame that holds for *every* transformation, well behaved or not, and whether
or not the call raises -/
structure ModelFrame {α : Type} (sel : Path → VarInfo → Bool) (m m' : Model α) : Prop where
  keys : m'.map (fun (v : Var α) => (v.path, v.info)) = m.map (fun (v : Var α) => (v.path, v.info))
  unselected : ∀ (i : Nat) (v : Var α), m[i]? = some v → sel v.path v.info = false → m'[i]? = some v

theorem ModelFrame.refl (sel : Path → VarInfo → Bool) (m : Model α) : ModelFrame sel m m :=
  ⟨rfl, fun _ _ h _ => h⟩

theorem ModelFrame.trans {sel : Path → VarInfo → Bool} {a b c : Model α} (h1 : ModelFrame sel a b)
    (h2 : ModelFrame sel b c) : ModelFrame sel a c :=
  ⟨h2.keys.trans h1.keys, fun i v hv hs => h2.unselected i v (h1.unselected i v hv hs) hs⟩

theorem ModelFrame.paths_eq {sel : Path → VarInfo → Bool} {a b : Model α} (h : ModelFrame sel a b) :
    Optim.paths b = Optim.paths a := by
  have := congrArg (List.map Prod.fst) h.keys
  simpa [Optim.paths, List.map_map, Function.comp_def] using this

theorem update_model_frame [Add α] (w : Width) (tx : NTx α) (sel : Path → VarInfo → Bool) (o : Optimizer α)
    (hwf : (paths o.model).Nodup) (g : NState α) : ModelFrame sel o.model (o.update w tx sel g).1.model := by
  simp only [Optimizer.update]
  cases hu : tx.update g (o.optState.map unwrapLeaf) (stateOf sel o.model) with
  | error e => exact ModelFrame.refl sel _
  | ok us =>
    obtain ⟨u, s'⟩ := us
    simp only
    cases ha : applyUpdatesN (stateOf sel o.model) u with
    | error e => exact ModelFrame.refl sel _
    | ok np =>
      have hk := applyUpdatesN_keys _ _ _ ha
      have hin : ∀ e ∈ np, e.1 ∈ paths o.model := by
        intro e he
        have h1 : (e.1, e.2.info) ∈ keysOf np := by simp only [keysOf, List.mem_map]; exact ⟨e, he, rfl⟩
        rw [hk, keysOf_stateOf] at h1
        simp only [List.mem_map, List.mem_filter] at h1
        obtain ⟨v, ⟨hv, _⟩, hp⟩ := h1
        simp only [paths, List.mem_map]
        exact ⟨v, hv, by simpa using congrArg Prod.fst hp⟩
      have hum := updateModel_eq o.model np hin
      obtain ⟨_, w2, w3⟩ := select_writeback sel o.model np hwf hk
      simp only [hum]
      refine ⟨w2, ?_⟩
      intro i v hv hs
      simp only [List.getElem?_map, hv, Option.map_some]
      rw [w3 v (List.mem_of_getElem? hv) hs]

theorem run_model_frame [Add α] (w : Width) (tx : NTx α) (sel : Path → VarInfo → Bool) (gs : List (NState α)) :
    ∀ (o : Optimizer α), (paths o.model).Nodup → ModelFrame sel o.model (o.run w tx sel gs).1.model := by
  induction gs with
  | nil => intro o _; exact ModelFrame.refl sel _
  | cons g gs ih =>
    intro o hwf
    have h1 := update_model_frame w tx sel o hwf g
    simp only [Optimizer.run]
    cases hr : o.update w tx sel g with
    | mk o' e =>
      rw [hr] at h1
      cases e with
      | some e => exact h1
      | none =>
        simp only
        have hwf' : (paths o'.model).Nodup := by rw [h1.paths_eq]; exact hwf
        exact h1.trans (ih o' hwf')

end Flax.Optim
