/- C08 proofs: `nnx.scan` — what `_scan_merge_out` rebuilds for one graph node: per Variable, the stack by index of what
the iterations left (axis), what the last iteration left (carry), the original value (broadcast) -/
import Flax.Proofs.NnxLoopScanPos
import Flax.Proofs.NnxLoopCollect

namespace Flax.NnxLoop
open Flax.Filter Flax.LiftLoop

section sc
variable {α : Type} [Inhabited α]

/-- the column of group `g` when every row has that group -/
theorem column_getD {β : Type} (g : Nat) (d : β) (rows : List (List β)) (h : ∀ row ∈ rows, g < row.length) :
    column g rows = .ok (rows.map (fun row => row.getD g d)) := by
  simp only [column]
  apply mapX_eq_map
  intro row hr
  have := h row hr
  simp [pickX, List.getElem?_eq_getElem this, List.getD_eq_getElem?_getD]

/-- **stacking the states of one group over the iterations**, leaf by leaf: the collected state holds, for every item
of the group, `stk shape [its values over the iterations]` at its path, and nothing else -/
theorem stackStates_bucket {p : Prefix} {n0 : Flat α} {rest : List (Flat α)} {rows : List (List (State α))}
    (hnd : (n0.map (·.1)).Nodup)
    (hkeys : ∀ fl ∈ n0 :: rest, fl.map (fun x => (x.1, x.2.1)) = n0.map (fun x => (x.1, x.2.1)))
    (hrows : mapX (splitFlat p) (n0 :: rest) = .ok rows) {g : Nat} {col : List (State α)}
    (hcol : column g rows = .ok col) (stk : List Nat → List (Arr α) → Except LErr (Arr α)) {c : State α}
    (hc : stackStates stk col = .ok c) :
    (∀ y ∈ n0, groupIdx p y.1 y.2.1 = g → ∃ vs v, mapX (fun fl => valAt fl y.1) (n0 :: rest) = .ok vs ∧
      liftL (stk y.2.2.shape vs) = .ok v ∧ (y.1, v) ∈ c) ∧
    (∀ kb ∈ c, ∃ y ∈ n0, groupIdx p y.1 y.2.1 = g ∧ kb.1 = y.1 ∧ ∃ vs,
      mapX (fun fl => valAt fl y.1) (n0 :: rest) = .ok vs ∧ liftL (stk y.2.2.shape vs) = .ok kb.2) := by
  obtain ⟨row0, rowsR, hrow0, _, rfl⟩ := mapX_cons_ok hrows
  obtain ⟨hlen0, hmem0, hlt0⟩ := splitFlat_spec hrow0
  obtain ⟨hcoll, hcole⟩ := column_ok hcol
  have hcne : 0 < col.length := by rw [hcoll]; simp
  have hg0 : g < row0.length := by
    have := hcole 0 (by simp) hcne
    simp only [List.getElem_cons_zero] at this
    exact (List.getElem?_eq_some_iff.1 this).1
  have hc0 : col = row0[g] :: col.tail := by
    cases col with
    | nil => simp at hcne
    | cons s0 t =>
      have := hcole 0 (by simp) (by simp)
      simp only [List.getElem_cons_zero, List.getElem?_eq_getElem hg0, Option.some.injEq] at this
      rw [this]; rfl
  have hs0mem : ∀ pv ∈ row0[g], ∃ z ∈ n0, pv = (z.1, z.2.2) ∧ groupIdx p z.1 z.2.1 = g :=
    fun pv hpv => (hmem0 _ _ (List.getElem?_eq_getElem hg0) pv).1 hpv
  have hc' := hc
  rw [hc0] at hc'
  simp only [stackStates] at hc'
  rw [← hc0] at hc'
  -- the function applied to the leaf of an item of the group
  have hF : ∀ z ∈ n0, groupIdx p z.1 z.2.1 = g → ∀ r,
      (match mapX (fun (s : State α) => match s.lookup (z.1, z.2.2).1 with
          | some a => Except.ok a
          | none => .error (.lax .stackMismatch)) col with
        | .error e => Except.error e
        | .ok ls =>
          match liftL (stk (z.1, z.2.2).2.shape ls) with
          | .error e => .error e
          | .ok a => .ok ((z.1, z.2.2).1, a)) = .ok r →
      ∃ vs v, mapX (fun fl => valAt fl z.1) (n0 :: rest) = .ok vs ∧ liftL (stk z.2.2.shape vs) = .ok v ∧
        r = (z.1, v) := by
    intro z hz hgz r hr
    obtain ⟨hcv, vs, hvs⟩ := column_values hnd hkeys hrows hz (hgz ▸ hcol)
    simp only [] at hr
    generalize hm : mapX _ col = m at hr
    have hm' : m = .ok vs := hm.symm.trans (hcv.trans hvs)
    subst hm'
    simp only [] at hr
    cases hst : liftL (stk z.2.2.shape vs) with
    | error e => rw [hst] at hr; cases hr
    | ok v => rw [hst] at hr; injection hr with hr; exact ⟨vs, v, hvs, hst, hr.symm⟩
  constructor
  · intro y hy hgy
    have hin0 : (y.1, y.2.2) ∈ row0[g] := (hmem0 _ _ (List.getElem?_eq_getElem hg0) _).2 ⟨y, hy, rfl, hgy⟩
    obtain ⟨r, hr, hrm⟩ := mapX_ok_mem hc' _ hin0
    obtain ⟨vs, v, h1, h2, h3⟩ := hF y hy hgy r hr
    exact ⟨vs, v, h1, h2, h3 ▸ hrm⟩
  · intro kb hkb
    obtain ⟨pv, hpv, hf⟩ := mapX_ok_mem_rev hc' kb hkb
    obtain ⟨z, hz, he, hgz⟩ := hs0mem pv hpv
    subst he
    obtain ⟨vs, v, h1, h2, h3⟩ := hF z hz hgz kb hf
    exact ⟨z, hz, hgz, by rw [h3], vs, h1, by rw [h3]; exact h2⟩

theorem all2_mono_mem {κ ρ : Type} {R S : κ → ρ → Prop} {cs : List κ} {rs : List ρ}
    (hRS : ∀ c ∈ cs, ∀ r, R c r → S c r) (h : All2 R cs rs) : All2 S cs rs := by
  induction h with
  | nil => exact All2.nil
  | cons h1 _ ih =>
    exact All2.cons (hRS _ (by simp) _ h1) (ih (fun c hc r hr => hRS c (by simp [hc]) r hr))

/-- positional form of a list of related rows -/
theorem all2_map_eq {κ ρ : Type} {f : κ → ρ} {cs : List κ} {rs : List ρ} (h : All2 (fun c r => r = f c) cs rs) :
    rs = cs.map f := by
  induction h with
  | nil => rfl
  | cons h1 _ ih => rw [List.map_cons, ← ih, h1]

/-- an item with the keys of `n0` found in another flat state with the same keys -/
theorem item_of_keys {fl n0 : Flat α} (hnd : (n0.map (·.1)).Nodup)
    (hk : fl.map (fun x => (x.1, x.2.1)) = n0.map (fun x => (x.1, x.2.1))) {x : Path × VarInfo × Arr α} (hx : x ∈ n0)
    {z : Path × VarInfo × Arr α} (hz : z ∈ fl) (hp : z.1 = x.1) : z.2.1 = x.2.1 := by
  obtain ⟨y, hy, hy1, hy2⟩ := mem_of_keys (fl := n0) (fl0 := fl) hk.symm hz
  have : y.2 = x.2 := nodup_keys_unique (l := n0) hnd (by rw [Prod.eta]; exact hy) (by rw [hy1, hp, Prod.eta]; exact hx)
  rw [← hy2, this]

/-- **what `_scan_merge_out` rebuilds for one graph node.**  `rows` are the states of the per-iteration values (index
order), `stsF` / `stsS` those of the values the last iteration left / of the original values; `vecRows`, `carF`, `bcS`
their vectorised / carry / broadcast routes.  Stack the vectorised states (`popleft` once per integer axis), re-insert
carry and broadcast states by walking `prefix.axes`, concatenate: the path of a Variable leads to — axis `k`: the stack
(along 0, then `moveaxis(x, 0, k)`) of its per-iteration values; `Carry`: the value the last iteration left; `None`: its
original value. -/
theorem scan_final_lookup {p : Prefix} {n0 : Flat α} {rest : List (Flat α)} {flatF flatS : Flat α}
    (hnd : (n0.map (·.1)).Nodup)
    (hkeys : ∀ fl ∈ n0 :: rest, fl.map (fun x => (x.1, x.2.1)) = n0.map (fun x => (x.1, x.2.1)))
    (hkF : flatF.map (fun x => (x.1, x.2.1)) = n0.map (fun x => (x.1, x.2.1)))
    (hkS : flatS.map (fun x => (x.1, x.2.1)) = n0.map (fun x => (x.1, x.2.1)))
    {rows : List (List (State α))} {stsF stsS : List (State α)}
    (hrows : mapX (splitFlat p) (n0 :: rest) = .ok rows) (hsF : splitFlat p flatF = .ok stsF)
    (hsS : splitFlat p flatS = .ok stsS)
    {vecRows : List (List (State α))}
    (hvr : All2 (fun row vr => ∃ c b, routeStates false (p.axes.zip row) = .ok (vr, c, b)) rows vecRows)
    {carF bcS : List (State α)} (hcF : ∃ v b, routeStates false (p.axes.zip stsF) = .ok (v, carF, b))
    (hbS : ∃ v c, routeStates false (p.axes.zip stsS) = .ok (v, c, bcS))
    {V sts : List (State α)} (hV : scanCollectVec p.axes vecRows = .ok V)
    (hU : unrouteStates p.axes V carF bcS = .ok sts) :
    ∀ x ∈ n0, ∃ a, axAt p x.1 x.2.1 = some a ∧
      match a with
      | .axis k => ∃ vs v, mapX (fun fl => valAt fl x.1) (n0 :: rest) = .ok vs ∧
          liftL (stackFront k x.2.2.shape vs) = .ok v ∧ sts.flatten.lookup x.1 = some v
      | .carry => ∃ v, valAt flatF x.1 = .ok v ∧ sts.flatten.lookup x.1 = some v
      | .bcast => ∃ v, valAt flatS x.1 = .ok v ∧ sts.flatten.lookup x.1 = some v := by
  have hm : ∀ row ∈ rows, row.length = p.axes.length := by
    intro row hr
    obtain ⟨fl, _, hfl⟩ := mapX_ok_mem_rev hrows row hr
    exact (splitFlat_spec hfl).1
  obtain ⟨hlF, hmemF, hltF⟩ := splitFlat_spec hsF
  obtain ⟨hlS, hmemS, hltS⟩ := splitFlat_spec hsS
  -- positional forms
  have hvec : vecRows = rows.map (fun row => (axisGK p.axes 0).map (fun gk => row.getD gk.1 [])) := by
    apply all2_map_eq
    refine all2_mono_mem ?_ hvr
    intro row hrow vr ⟨c, b, hrt⟩
    have hl := hm row hrow
    have hfun : row = (List.range' 0 p.axes.length).map (fun g => row.getD g []) := by
      rw [← hl]; exact list_eq_map_getD row []
    have := routeStates_false_eq p.axes 0 (fun g => row.getD g ([] : State α))
    rw [← hfun, hrt] at this
    injection this with this
    injection this with h1 _
    rw [h1, ← axisGK_fst, List.map_map]
    rfl
  obtain ⟨vF, bF, hrF⟩ := hcF
  obtain ⟨vS, cS, hrS⟩ := hbS
  have hcar : carF = (kindIdx isCarryB p.axes 0).map (fun g => stsF.getD g []) := by
    have hfun : stsF = (List.range' 0 p.axes.length).map (fun g => stsF.getD g []) := by
      rw [← hlF]; exact list_eq_map_getD stsF []
    have := routeStates_false_eq p.axes 0 (fun g => stsF.getD g ([] : State α))
    rw [← hfun, hrF] at this
    injection this with this
    injection this with _ h2
    injection h2 with h2 _
  have hbc : bcS = (kindIdx isBcastB p.axes 0).map (fun g => stsS.getD g []) := by
    have hfun : stsS = (List.range' 0 p.axes.length).map (fun g => stsS.getD g []) := by
      rw [← hlS]; exact list_eq_map_getD stsS []
    have := routeStates_false_eq p.axes 0 (fun g => stsS.getD g ([] : State α))
    rw [← hfun, hrS] at this
    injection this with this
    injection this with _ h2
    injection h2 with _ h3
  simp only [scanCollectVec, hvec] at hV
  rw [← axisGK_snd p.axes 0, scanCollectVecK_eq rows (fun row g => row.getD g []) (axisGK p.axes 0)] at hV
  let kOf : Nat → Int := fun g => match p.axes[g]? with
    | some (.axis k) => k
    | _ => 0
  let Wf : Nat → State α := fun g =>
    match stackStates (stackFront (kOf g)) (rows.map (fun row => row.getD g [])) with
    | .ok w => w
    | .error _ => []
  -- the stacked state of an integer-axis group
  have hW : ∀ g k, p.axes[g]? = some (.axis k) →
      stackStates (stackFront k) (rows.map (fun row => row.getD g [])) = .ok (Wf g) := by
    intro g k hgk
    have hmemGK : (g, k) ∈ axisGK p.axes 0 := (axisGK_mem p.axes 0 g k).2 ⟨g, by omega, hgk⟩
    obtain ⟨y, hy, _⟩ := mapX_ok_mem hV _ hmemGK
    have hk : kOf g = k := by simp only [kOf, hgk]
    simp only [] at hy
    simp only [Wf, hk, hy]
  have hVeq : V = (kindIdx isAxisB p.axes 0).map Wf := by
    rw [← axisGK_fst, List.map_map]
    apply mapX_ok_eq_map hV
    intro gk hgk y hy
    obtain ⟨j, hj1, hj2⟩ := (axisGK_mem p.axes 0 gk.1 gk.2).1 (by rw [Prod.eta]; exact hgk)
    have hj : j = gk.1 := by omega
    subst hj
    have := hW _ _ hj2
    rw [hy] at this
    injection this with this
  rw [hVeq, hcar, hbc, unrouteStates_eq] at hU
  injection hU with hU
  have hmemU : ∀ pv, pv ∈ sts.flatten ↔ ∃ j a, p.axes[j]? = some a ∧
      pv ∈ selKind a Wf (fun g => stsF.getD g []) (fun g => stsS.getD g []) (0 + j) := by
    intro pv; rw [← hU]; exact unrouted_mem p.axes 0 Wf _ _ pv
  -- the rows all have every group
  have hcolg : ∀ g, g < p.axes.length → column g rows = .ok (rows.map (fun row => row.getD g [])) :=
    fun g hg => column_getD g [] rows (fun row hr => by rw [hm row hr]; exact hg)
  -- every pair of the rebuilt states belongs to an item of its group
  have hK : ∀ pv j a', p.axes[j]? = some a' →
      pv ∈ selKind a' Wf (fun g => stsF.getD g []) (fun g => stsS.getD g []) (0 + j) →
      ∃ y ∈ n0, y.1 = pv.1 ∧ groupIdx p y.1 y.2.1 = j := by
    intro pv j a' hj hpv
    have hjl : j < p.axes.length := (List.getElem?_eq_some_iff.1 hj).1
    rw [Nat.zero_add] at hpv
    cases a' with
    | axis k =>
      simp only [selKind] at hpv
      obtain ⟨_, hb⟩ := stackStates_bucket hnd hkeys hrows (hcolg j hjl) (stackFront k) (hW j k hj)
      obtain ⟨y, hy, hgy, hk1, _⟩ := hb pv hpv
      exact ⟨y, hy, hk1.symm, hgy⟩
    | carry =>
      simp only [selKind] at hpv
      have hjF : j < stsF.length := by omega
      rw [List.getD_eq_getElem?_getD, List.getElem?_eq_getElem hjF, Option.getD_some] at hpv
      obtain ⟨z, hz, he, hgz⟩ := (hmemF _ _ (List.getElem?_eq_getElem hjF) pv).1 hpv
      obtain ⟨y, hy, hy1, hy2⟩ := mem_of_keys (fl := n0) (fl0 := flatF) hkF.symm hz
      exact ⟨y, hy, by rw [hy1, he], by rw [hy1, hy2]; exact hgz⟩
    | bcast =>
      simp only [selKind] at hpv
      have hjS : j < stsS.length := by omega
      rw [List.getD_eq_getElem?_getD, List.getElem?_eq_getElem hjS, Option.getD_some] at hpv
      obtain ⟨z, hz, he, hgz⟩ := (hmemS _ _ (List.getElem?_eq_getElem hjS) pv).1 hpv
      obtain ⟨y, hy, hy1, hy2⟩ := mem_of_keys (fl := n0) (fl0 := flatS) hkS.symm hz
      exact ⟨y, hy, by rw [hy1, he], by rw [hy1, hy2]; exact hgz⟩
  intro x hx
  have hsame : ∀ y ∈ n0, y.1 = x.1 → y = x := by
    intro y hy hyx
    have : y.2 = x.2 := nodup_keys_unique (l := n0) hnd (by rw [Prod.eta]; exact hy) (by rw [hyx, Prod.eta]; exact hx)
    exact Prod.ext hyx this
  -- the group of x
  obtain ⟨row0, rowsR, hrow0, _, hrowsEq⟩ := mapX_cons_ok hrows
  have hg : groupIdx p x.1 x.2.1 < p.axes.length := by
    have := (splitFlat_spec hrow0).2.2 x hx
    rw [(splitFlat_spec hrow0).1] at this
    exact this
  have hax : axAt p x.1 x.2.1 = some p.axes[groupIdx p x.1 x.2.1] := by
    simp [axAt, List.getElem?_eq_getElem hg]
  -- a pair with x's path sits in x's group, under x's axis
  have hgrp : ∀ v' , (x.1, v') ∈ sts.flatten →
      (x.1, v') ∈ selKind p.axes[groupIdx p x.1 x.2.1] Wf (fun g => stsF.getD g []) (fun g => stsS.getD g [])
        (groupIdx p x.1 x.2.1) := by
    intro v' hv'
    obtain ⟨j, a', hj, hpv⟩ := (hmemU _).1 hv'
    obtain ⟨y, hy, hy1, hgy⟩ := hK _ j a' hj hpv
    have := hsame y hy hy1
    subst this
    subst hgy
    rw [List.getElem?_eq_getElem hg] at hj
    injection hj with hj
    rw [hj, ← Nat.zero_add (groupIdx p y.1 y.2.1)]
    exact hpv
  refine ⟨_, hax, ?_⟩
  cases ha : p.axes[groupIdx p x.1 x.2.1] with
  | axis k =>
    simp only []
    have hgk : p.axes[groupIdx p x.1 x.2.1]? = some (.axis k) := by rw [List.getElem?_eq_getElem hg, ha]
    obtain ⟨hba, hbb⟩ := stackStates_bucket hnd hkeys hrows (hcolg _ hg) (stackFront k) (hW _ k hgk)
    obtain ⟨vs, v, hvs, hv, hvm⟩ := hba x hx rfl
    refine ⟨vs, v, hvs, hv, ?_⟩
    apply lookup_of_mem_unique ((hmemU _).2 ⟨_, _, hgk, by rw [Nat.zero_add]; exact hvm⟩)
    intro v' hv'
    have := hgrp v' hv'
    rw [ha] at this
    simp only [selKind] at this
    obtain ⟨y, hy, _, hk1, vs', hvs', hv''⟩ := hbb _ this
    have := hsame y hy hk1.symm
    subst this
    rw [hvs] at hvs'
    injection hvs' with hvs'
    subst hvs'
    simp only [] at hv''
    rw [hv] at hv''
    injection hv'' with hv''
    exact hv''.symm
  | carry =>
    simp only []
    have hgk : p.axes[groupIdx p x.1 x.2.1]? = some .carry := by rw [List.getElem?_eq_getElem hg, ha]
    obtain ⟨z, hz, hz1, hz2⟩ := mem_of_keys (fl := flatF) (fl0 := n0) hkF hx
    have hndF : (flatF.map (·.1)).Nodup := by rw [keys_paths hkF]; exact hnd
    have hgF : groupIdx p x.1 x.2.1 < stsF.length := by omega
    have hin : (x.1, z.2.2) ∈ stsF[groupIdx p x.1 x.2.1] :=
      (hmemF _ _ (List.getElem?_eq_getElem hgF) _).2 ⟨z, hz, by rw [hz1], by rw [hz1, hz2]⟩
    refine ⟨z.2.2, by rw [← hz1]; exact valAt_of_mem hndF hz, ?_⟩
    apply lookup_of_mem_unique ((hmemU _).2 ⟨_, _, hgk, by
      rw [Nat.zero_add]; simp only [selKind]
      rw [List.getD_eq_getElem?_getD, List.getElem?_eq_getElem hgF, Option.getD_some]; exact hin⟩)
    intro v' hv'
    have := hgrp v' hv'
    rw [ha] at this
    simp only [selKind] at this
    rw [List.getD_eq_getElem?_getD, List.getElem?_eq_getElem hgF, Option.getD_some] at this
    obtain ⟨z', hz', he, _⟩ := (hmemF _ _ (List.getElem?_eq_getElem hgF) _).1 this
    injection he with he1 he2
    have : z'.2 = z.2 := nodup_keys_unique (l := flatF) hndF (by rw [Prod.eta]; exact hz')
      (by rw [← he1, ← hz1, Prod.eta]; exact hz)
    rw [he2, this]
  | bcast =>
    simp only []
    have hgk : p.axes[groupIdx p x.1 x.2.1]? = some .bcast := by rw [List.getElem?_eq_getElem hg, ha]
    obtain ⟨z, hz, hz1, hz2⟩ := mem_of_keys (fl := flatS) (fl0 := n0) hkS hx
    have hndS : (flatS.map (·.1)).Nodup := by rw [keys_paths hkS]; exact hnd
    have hgS : groupIdx p x.1 x.2.1 < stsS.length := by omega
    have hin : (x.1, z.2.2) ∈ stsS[groupIdx p x.1 x.2.1] :=
      (hmemS _ _ (List.getElem?_eq_getElem hgS) _).2 ⟨z, hz, by rw [hz1], by rw [hz1, hz2]⟩
    refine ⟨z.2.2, by rw [← hz1]; exact valAt_of_mem hndS hz, ?_⟩
    apply lookup_of_mem_unique ((hmemU _).2 ⟨_, _, hgk, by
      rw [Nat.zero_add]; simp only [selKind]
      rw [List.getD_eq_getElem?_getD, List.getElem?_eq_getElem hgS, Option.getD_some]; exact hin⟩)
    intro v' hv'
    have := hgrp v' hv'
    rw [ha] at this
    simp only [selKind] at this
    rw [List.getD_eq_getElem?_getD, List.getElem?_eq_getElem hgS, Option.getD_some] at this
    obtain ⟨z', hz', he, _⟩ := (hmemS _ _ (List.getElem?_eq_getElem hgS) _).1 this
    injection he with he1 he2
    have : z'.2 = z.2 := nodup_keys_unique (l := flatS) hndS (by rw [Prod.eta]; exact hz')
      (by rw [← he1, ← hz1, Prod.eta]; exact hz)
    rw [he2, this]

end sc

end Flax.NnxLoop
