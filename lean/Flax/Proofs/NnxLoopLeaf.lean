/- helper lemmas for C08: leaf-wise operations on the states of a split commute with looking a Variable up by its path -/
import Flax.Proofs.NnxLoopMerge

namespace Flax.NnxLoop
open Flax.Filter Flax.LiftLoop

/-! ### leafMap -/

theorem leafMap_ok_mem {α β : Type} {t : Arr α → Except Err (Arr β)} {s : State α} {s' : State β}
    (h : leafMap t s = .ok s') : ∀ pv ∈ s, ∃ v', t pv.2 = .ok v' ∧ (pv.1, v') ∈ s' := by
  intro pv hpv
  obtain ⟨y, hy, hm⟩ := mapX_ok_mem h pv hpv
  cases ht : t pv.2 with
  | error e => simp [ht] at hy
  | ok v =>
    simp only [ht] at hy
    injection hy with hy
    exact ⟨v, rfl, hy ▸ hm⟩

theorem leafMap_ok_mem_rev {α β : Type} {t : Arr α → Except Err (Arr β)} {s : State α} {s' : State β}
    (h : leafMap t s = .ok s') : ∀ kv ∈ s', ∃ pv ∈ s, t pv.2 = .ok kv.2 ∧ kv.1 = pv.1 := by
  intro kv hkv
  obtain ⟨pv, hpv, hf⟩ := mapX_ok_mem_rev h kv hkv
  cases ht : t pv.2 with
  | error e => simp [ht] at hf
  | ok v =>
    simp only [ht] at hf
    injection hf with hf
    subst hf
    exact ⟨pv, hpv, ht, rfl⟩

theorem leafMap_keys {α β : Type} {t : Arr α → Except Err (Arr β)} {s : State α} {s' : State β}
    (h : leafMap t s = .ok s') : s'.map (·.1) = s.map (·.1) := by
  have := mapX_ok_eq_map (g := fun (pv : Path × Arr α) => (pv.1, match t pv.2 with | .ok v => v | .error _ => ⟨[], []⟩)) h
    (by
      intro pv _ y hy
      cases ht : t pv.2 with
      | error e => simp [ht] at hy
      | ok v => simp only [ht] at hy; injection hy with hy; simp [← hy])
  rw [this, List.map_map]
  rfl

theorem leafMap_id {α : Type} (s : State α) : leafMap (fun v => Except.ok v) s = .ok s := by
  have := mapX_eq_map (f := fun (pv : Path × Arr α) => match (Except.ok pv.2 : Except Err (Arr α)) with
      | .ok v => Except.ok (pv.1, v)
      | .error e => .error e) (g := fun pv => pv) s (by intro x _; rfl)
  simpa [leafMap] using this

/-! ### zipped traversal of axes and states -/

theorem zip_getElem?_some {β γ : Type} {l1 : List β} {l2 : List γ} {g : Nat} {b : β} {c : γ}
    (h1 : l1[g]? = some b) (h2 : l2[g]? = some c) : (l1.zip l2)[g]? = some (b, c) :=
  List.getElem?_zip_eq_some.2 ⟨h1, h2⟩

/-- a successful state-by-state traversal: state `g` of the result is the image of state `g` under `F axes[g]` -/
theorem mapX_zip_states {β γ : Type} {F : Ax → β → Except Err γ} {axes : List Ax} {sts : List β} {sts' : List γ}
    (h : mapX (fun q => F q.1 q.2) (axes.zip sts) = .ok sts') (hlen : sts.length = axes.length) :
    sts'.length = sts.length ∧
    ∀ (g : Nat) (a : Ax) (s : β), axes[g]? = some a → sts[g]? = some s → ∃ s', sts'[g]? = some s' ∧ F a s = .ok s' := by
  have hl := mapX_length h
  simp only [List.length_zip, hlen, Nat.min_self] at hl
  refine ⟨by omega, ?_⟩
  intro g a s ha hs
  have hg : g < (axes.zip sts).length := by
    have := (List.getElem?_eq_some_iff.1 ha).1
    simp [List.length_zip, hlen]; exact this
  have hg' : g < sts'.length := by
    have := (List.getElem?_eq_some_iff.1 ha).1; omega
  have := mapX_ok_getElem h g hg hg'
  have hz : (axes.zip sts)[g] = (a, s) := by
    have := zip_getElem?_some ha hs
    rw [List.getElem?_eq_getElem hg] at this
    exact Option.some.inj this
  rw [hz] at this
  exact ⟨sts'[g], List.getElem?_eq_getElem hg', this⟩

/-! ### core lemma 1: a leaf-wise operation per state, then lookup by path -/

/-- Split a flat state with distinct paths by a prefix, apply to every state the leaf-wise operation its axis selects,
concatenate: the path of a flat item now leads to the image of its value under the operation of *its* axis. -/
theorem leafwise_lookup {α β : Type} {p : Prefix} {flat : Flat α} {sts : List (State α)}
    (hs : splitFlat p flat = .ok sts) (hnd : (flat.map (·.1)).Nodup)
    (t : Ax → Arr α → Except Err (Arr β)) {sts' : List (State β)}
    (ht : mapX (fun q => leafMap (t q.1) q.2) (p.axes.zip sts) = .ok sts') :
    ∀ x ∈ flat, ∃ a v', axAt p x.1 x.2.1 = some a ∧ t a x.2.2 = .ok v' ∧ sts'.flatten.lookup x.1 = some v' := by
  obtain ⟨hlen, hmem, hlt⟩ := splitFlat_spec hs
  obtain ⟨hlen', hst⟩ := mapX_zip_states (F := fun a s => leafMap (t a) s) ht hlen
  -- the value every item ends with
  let w : Path × VarInfo × Arr α → Arr β := fun x =>
    match axAt p x.1 x.2.1 with
    | some a => (match t a x.2.2 with | .ok v => v | .error _ => ⟨[], []⟩)
    | none => ⟨[], []⟩
  have key : ∀ x ∈ flat, ∃ a v', axAt p x.1 x.2.1 = some a ∧ t a x.2.2 = .ok v' ∧ w x = v' ∧
      (x.1, v') ∈ sts'.flatten := by
    intro x hx
    have hg := hlt x hx
    have hga : groupIdx p x.1 x.2.1 < p.axes.length := by omega
    obtain ⟨s', hs', hF⟩ := hst _ _ _ (List.getElem?_eq_getElem hga) (List.getElem?_eq_getElem hg)
    have hin : (x.1, x.2.2) ∈ sts[groupIdx p x.1 x.2.1] :=
      (hmem _ _ (List.getElem?_eq_getElem hg) _).2 ⟨x, hx, rfl, rfl⟩
    obtain ⟨v', hv', hm⟩ := leafMap_ok_mem hF _ hin
    refine ⟨_, v', List.getElem?_eq_getElem hga, hv', ?_, mem_flatten_states.2 ⟨_, _, hs', hm⟩⟩
    simp only [w, axAt, List.getElem?_eq_getElem hga]
    simp only [] at hv'
    rw [hv']
  have hlook := lookup_by_membership hnd w sts'.flatten
    (by
      intro x hx
      obtain ⟨a, v', _, _, hw, hm⟩ := key x hx
      rw [hw]; exact hm)
    (by
      intro kb hkb
      obtain ⟨g, s', hs', hb⟩ := mem_flatten_states.1 hkb
      have hg' : g < sts'.length := (List.getElem?_eq_some_iff.1 hs').1
      have hg : g < sts.length := by omega
      have hga : g < p.axes.length := by omega
      obtain ⟨s'', hs'', hF⟩ := hst _ _ _ (List.getElem?_eq_getElem hga) (List.getElem?_eq_getElem hg)
      rw [hs'] at hs''
      injection hs'' with hs''
      subst hs''
      obtain ⟨pv, hpv, htv, hk⟩ := leafMap_ok_mem_rev hF kb hb
      obtain ⟨x, hx, he, hgx⟩ := (hmem _ _ (List.getElem?_eq_getElem hg) pv).1 hpv
      refine ⟨x, hx, ?_⟩
      subst he
      apply Prod.ext
      · exact hk
      · simp only [w, axAt, hgx, List.getElem?_eq_getElem hga]
        simp only [] at htv
        rw [htv])
  intro x hx
  obtain ⟨a, v', ha, hv', hw, _⟩ := key x hx
  exact ⟨a, v', ha, hv', by rw [hlook x hx, hw]⟩

end Flax.NnxLoop
