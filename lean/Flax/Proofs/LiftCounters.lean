/-
The rng-counter replay on a jit cache hit (`_restore_rng_counters`, `set_from_dict`) over the counter heap of
Flax/Model/Lift.lean: helper development for `Flax.C05.counter_delta_restore`.
-/
import Flax.Proofs.Lift

namespace Flax.Lift

/-! ### leaf-level dict update -/

theorem alookup_mergeInto (u : List (String × α)) : ∀ (base : List (String × α)), (keys u).Nodup → ∀ k,
    alookup k (mergeInto base u) = match alookup k u with | some v => some v | none => alookup k base := by
  induction u with
  | nil => intro base _ k; simp [mergeInto, alookup]
  | cons x rest ih =>
    obtain ⟨k0, v0⟩ := x
    intro base hn k
    simp only [keys, List.map_cons, List.nodup_cons] at hn
    have := ih (ainsert k0 v0 base) hn.2 k
    simp only [mergeInto, List.foldl_cons] at this ⊢
    rw [this]
    by_cases hk : k0 = k
    · subst hk
      have : alookup k0 rest = none := (alookup_none_iff _ _).mpr hn.1
      simp [alookup, this, alookup_ainsert_same]
    · have hk' : k ≠ k0 := fun e => hk e.symm
      simp [alookup, hk, alookup_ainsert_ne hk']

/-! ### `CountsHolder` arithmetic: `(new - old) + old = new`, key by key -/

theorem cntAdd_cntSub (new old : Cnt) : cntAdd (cntSub new old) old = new := by
  simp only [cntAdd, cntSub, List.map_map]
  conv => rhs; rw [← List.map_id new]
  apply List.map_congr_left
  intro x _
  simp only [Function.comp_apply, id]
  ext <;> simp <;> omega

theorem sub_add_cancel (new old : CVal) : (new.sub old).add old = new := by
  cases new with
  | mk r ks =>
    simp only [CVal.add, CVal.sub, cntAdd_cntSub, List.map_map, CVal.mk.injEq, true_and]
    conv => rhs; rw [← List.map_id ks]
    apply List.map_congr_left
    intro x _
    simp [cntAdd_cntSub]

/-! ### `set_from_dict` writes into the existing child dicts -/

/-- distinct child tokens, distinct valid addresses -/
structure CHeap.WF (h : CHeap) : Prop where
  kn : (keys h.kids).Nodup
  an : (h.kids.map (·.2)).Nodup
  ab : ∀ ka, ka ∈ h.kids → ka.2 < h.objs.length

theorem obj_append_lt (h : CHeap) (u : Cnt) (a : Nat) (ha : a < h.objs.length) (ks : List (String × Nat)) :
    ({ h with kids := ks, objs := h.objs ++ [u] } : CHeap).obj a = h.obj a := by
  simp [CHeap.obj, List.getElem?_append_left ha]

theorem addr_of_kid {h : CHeap} (hw : h.WF) {kid : String} {a : Nat} (hk : alookup kid h.kids = some a) :
    a < h.objs.length := hw.ab (kid, a) (mem_of_alookup hk)

theorem addr_inj {h : CHeap} (hw : h.WF) {k1 k2 : String} {a : Nat} (h1 : alookup k1 h.kids = some a)
    (h2 : alookup k2 h.kids = some a) : k1 = k2 := by
  have m1 := mem_of_alookup h1
  have m2 := mem_of_alookup h2
  -- two entries with the same address are the same entry
  have hinj : ∀ (l : List (String × Nat)), (l.map (·.2)).Nodup → ∀ x y, x ∈ l → y ∈ l → x.2 = y.2 → x = y := by
    intro l
    induction l with
    | nil => intro _ x y hx; cases hx
    | cons z zs ih =>
      intro hn x y hx hy hxy
      simp only [List.map_cons, List.nodup_cons] at hn
      rcases List.mem_cons.mp hx with ex | ex <;> rcases List.mem_cons.mp hy with ey | ey
      · rw [ex, ey]
      · subst ex; exact absurd (List.mem_map.mpr ⟨y, ey, hxy.symm⟩) hn.1
      · subst ey; exact absurd (List.mem_map.mpr ⟨x, ex, hxy⟩) hn.1
      · exact ih hn.2 x y ex ey hxy
  have := hinj h.kids hw.an (k1, a) (k2, a) m1 m2 rfl
  exact (Prod.mk.inj this).1

theorem setKid_spec (h : CHeap) (hw : h.WF) (kid : String) (u : Cnt) :
    (setKid h kid u).WF ∧ (setKid h kid u).root = h.root ∧
    (∀ k a, alookup k h.kids = some a → alookup k (setKid h kid u).kids = some a ∧
      (setKid h kid u).obj a = if k = kid then mergeInto (h.obj a) u else h.obj a) ∧
    (alookup kid h.kids = none → ∃ a, alookup kid (setKid h kid u).kids = some a ∧ (setKid h kid u).obj a = u) := by
  unfold setKid
  cases hk : alookup kid h.kids with
  | none =>
    simp only
    refine ⟨⟨?_, ?_, ?_⟩, trivial, ?_, ?_⟩
    · simp only [keys, List.map_append, List.map_cons, List.map_nil]
      rw [List.nodup_append]
      refine ⟨hw.kn, by simp, ?_⟩
      intro x hx y hy e
      simp at hy; subst hy; subst e
      exact ((alookup_none_iff _ _).mp hk) hx
    · simp only [List.map_append, List.map_cons, List.map_nil]
      rw [List.nodup_append]
      refine ⟨hw.an, by simp, ?_⟩
      intro x hx y hy e
      simp at hy; subst hy; subst e
      obtain ⟨ka, hka, hke⟩ := List.mem_map.mp hx
      have := hw.ab ka hka
      omega
    · intro ka hka
      simp only [List.length_append, List.length_cons, List.length_nil]
      rcases List.mem_append.mp hka with h1 | h1
      · have := hw.ab ka h1; omega
      · simp at h1; subst h1; simp
    · intro k a hka
      have hne : k ≠ kid := fun e => by subst e; simp [hk] at hka
      refine ⟨by simp [alookup_append, hka], ?_⟩
      rw [obj_append_lt h u a (addr_of_kid hw hka)]
      simp [hne]
    · intro _
      refine ⟨h.objs.length, by simp [alookup_append, hk, alookup], ?_⟩
      simp [CHeap.obj]
  | some a0 =>
    simp only
    have ha0 := addr_of_kid hw hk
    refine ⟨⟨hw.kn, hw.an, by intro ka hka; simpa using hw.ab ka hka⟩, trivial, ?_, by intro h'; cases h'⟩
    intro k a hka
    refine ⟨hka, ?_⟩
    by_cases hke : k = kid
    · subst hke
      have : a = a0 := by rw [hk] at hka; exact (Option.some.inj hka).symm
      subst this
      simp [CHeap.obj, ha0]
    · have hne : a0 ≠ a := fun e => hke (addr_inj hw (e ▸ hka) hk)
      simp [CHeap.obj, List.getElem?_set_ne hne, hke]

/-- the fold over the nested keys of `updates` -/
theorem setKids_spec : ∀ (L : List (String × Cnt)) (h : CHeap), h.WF → (keys L).Nodup →
    (L.foldl (fun h kc => setKid h kc.1 kc.2) h).WF ∧ (L.foldl (fun h kc => setKid h kc.1 kc.2) h).root = h.root ∧
    (∀ k a, alookup k h.kids = some a →
      alookup k (L.foldl (fun h kc => setKid h kc.1 kc.2) h).kids = some a ∧
      (L.foldl (fun h kc => setKid h kc.1 kc.2) h).obj a =
        match alookup k L with | some u => mergeInto (h.obj a) u | none => h.obj a) ∧
    (∀ k u, alookup k h.kids = none → alookup k L = some u →
      ∃ a, alookup k (L.foldl (fun h kc => setKid h kc.1 kc.2) h).kids = some a ∧
        (L.foldl (fun h kc => setKid h kc.1 kc.2) h).obj a = u) := by
  intro L
  induction L with
  | nil => intro h hw _; exact ⟨hw, rfl, by intro k a hk; simp [hk, alookup], by intro k u _ hu; simp [alookup] at hu⟩
  | cons x rest ih =>
    obtain ⟨k0, u0⟩ := x
    intro h hw hn
    simp only [keys, List.map_cons, List.nodup_cons] at hn
    obtain ⟨w1, r1, e1, n1⟩ := setKid_spec h hw k0 u0
    obtain ⟨w2, r2, e2, n2⟩ := ih (setKid h k0 u0) w1 hn.2
    have hrest : alookup k0 rest = none := (alookup_none_iff _ _).mpr hn.1
    simp only [List.foldl_cons]
    refine ⟨w2, r2.trans r1, ?_, ?_⟩
    · intro k a hka
      obtain ⟨a1, o1⟩ := e1 k a hka
      obtain ⟨a2, o2⟩ := e2 k a a1
      refine ⟨a2, ?_⟩
      rw [o2, o1]
      by_cases hk : k0 = k
      · subst hk; simp [alookup, hrest]
      · have hk' : ¬ k = k0 := fun e => hk e.symm
        simp [alookup, hk, hk']
    · intro k u hkn hu
      by_cases hk : k0 = k
      · subst hk
        simp only [alookup, ↓reduceIte, Option.some.injEq] at hu
        subst hu
        obtain ⟨a, ha, ho⟩ := n1 hkn
        obtain ⟨a2, o2⟩ := e2 k0 a ha
        exact ⟨a, a2, by rw [o2, hrest]; exact ho⟩
      · simp only [alookup, hk, ↓reduceIte] at hu
        have hk' : k ≠ k0 := fun e => hk e.symm
        have hkn1 : alookup k (setKid h k0 u0).kids = none := by
          unfold setKid
          cases h0 : alookup k0 h.kids with
          | none => simp [alookup_append, hkn, alookup, hk]
          | some a0 => simpa using hkn
        exact n2 k u hkn1 hu

end Flax.Lift
