/-
Value-level refinement for the in-place passes (`Flax/Model/SerialHeap.lean`): run on a state dict
that was just built out of fresh dict objects, a pass leaves behind a heap whose read-back is the
pure function `mapLeaves step` of the state dict — for the chunking pass, `Serial.chunkLeaves`.

Representation invariants:
* `RepT g v s lo hi` — `v` represents `s` in heap `g` exactly the way `allocSTree` lays it out:
  post-order, the dict objects of `s` occupy the addresses `[lo, hi)`, a dict sits right after its
  entries. Sibling sub-trees therefore occupy disjoint consecutive intervals below their parent.
* `RepO P g v s` — `v` represents `s` in `g` using only addresses that satisfy `P` (no layout).
-/
import Flax.Proofs.SerialHeap

namespace Flax.SerialHeap
open Flax.Serial

/-! ### the pure effect of a pass -/

mutual
  /-- what a pass does to the value: every leaf `step` selects is replaced by what `step` gives
  (which is not visited again) -/
  def mapLeaves (step : Leaf → Option STree) : STree → STree
    | .leaf v =>
      match step v with
      | none => .leaf v
      | some s => s
    | .dict kvs => .dict (mapKvs step kvs)
  def mapKvs (step : Leaf → Option STree) : List (String × STree) → List (String × STree)
    | [] => []
    | (k, v) :: r => (k, mapLeaves step v) :: mapKvs step r
end

mutual
  theorem mapLeaves_chunkStep (T : Nat) (isz : String → Nat) : ∀ (s : STree),
      mapLeaves (chunkStep T isz) s = chunkLeaves T isz s
    | .leaf v => by
      cases v with
      | ndarray a =>
        simp only [mapLeaves, chunkStep, chunkLeaves]
        split <;> simp_all
      | _ => simp [mapLeaves, chunkStep, chunkLeaves]
    | .dict kvs => by simp [mapLeaves, chunkLeaves, mapKvs_chunkStep T isz kvs]
  theorem mapKvs_chunkStep (T : Nat) (isz : String → Nat) : ∀ (kvs : List (String × STree)),
      mapKvs (chunkStep T isz) kvs = chunkKvs T isz kvs
    | [] => rfl
    | (k, v) :: r => by simp [mapKvs, chunkKvs, mapLeaves_chunkStep T isz v, mapKvs_chunkStep T isz r]
end

mutual
  def sdepth : STree → Nat
    | .leaf _ => 0
    | .dict kvs => 1 + sdepthKvs kvs
  def sdepthKvs : List (String × STree) → Nat
    | [] => 0
    | (_, v) :: r => max (sdepth v) (sdepthKvs r)
end

/-! ### representations -/

mutual
  def RepT (g : Heap) : HVal → STree → Nat → Nat → Prop
    | v, .leaf y, lo, hi => v = .leaf y ∧ lo = hi
    | v, .dict kvs, lo, hi => ∃ a obj, v = .ref a ∧ a + 1 = hi ∧ g[a]? = some obj ∧ RepK g obj kvs lo a
  def RepK (g : Heap) : DictObj → List (String × STree) → Nat → Nat → Prop
    | obj, [], lo, hi => obj = [] ∧ lo = hi
    | obj, (k, s) :: r, lo, hi => ∃ v o mid, obj = (k, v) :: o ∧ RepT g v s lo mid ∧ RepK g o r mid hi
end

mutual
  def RepO (P : Nat → Prop) (g : Heap) : HVal → STree → Prop
    | v, .leaf y => v = .leaf y
    | v, .dict kvs => ∃ a obj, v = .ref a ∧ P a ∧ g[a]? = some obj ∧ RepOK P g obj kvs
  def RepOK (P : Nat → Prop) (g : Heap) : DictObj → List (String × STree) → Prop
    | obj, [] => obj = []
    | obj, (k, s) :: r => ∃ v o, obj = (k, v) :: o ∧ RepO P g v s ∧ RepOK P g o r
end

mutual
  theorem RepT.le (g : Heap) : ∀ (s : STree) (v : HVal) (lo hi : Nat), RepT g v s lo hi → lo ≤ hi
    | .leaf y, v, lo, hi, h => by simp only [RepT] at h; omega
    | .dict kvs, v, lo, hi, h => by
      simp only [RepT] at h
      obtain ⟨a, obj, _, h2, _, h4⟩ := h
      have := RepK.le g kvs obj lo a h4
      omega
  theorem RepK.le (g : Heap) : ∀ (kvs : List (String × STree)) (obj : DictObj) (lo hi : Nat),
      RepK g obj kvs lo hi → lo ≤ hi
    | [], obj, lo, hi, h => by simp only [RepK] at h; omega
    | (k, s) :: r, obj, lo, hi, h => by
      simp only [RepK] at h
      obtain ⟨v, o, mid, _, h2, h3⟩ := h
      have := RepT.le g s v lo mid h2
      have := RepK.le g r o mid hi h3
      omega
end

mutual
  theorem RepT.frame (g g' : Heap) : ∀ (s : STree) (v : HVal) (lo hi : Nat),
      (∀ x, lo ≤ x → x < hi → g'[x]? = g[x]?) → RepT g v s lo hi → RepT g' v s lo hi
    | .leaf y, v, lo, hi, _, h => by simpa only [RepT] using h
    | .dict kvs, v, lo, hi, hf, h => by
      simp only [RepT] at h ⊢
      obtain ⟨a, obj, h1, h2, h3, h4⟩ := h
      have hle := RepK.le g kvs obj lo a h4
      refine ⟨a, obj, h1, h2, by rw [hf a (by omega) (by omega)]; exact h3, ?_⟩
      exact RepK.frame g g' kvs obj lo a (fun x h1 h2 => hf x h1 (by omega)) h4
  theorem RepK.frame (g g' : Heap) : ∀ (kvs : List (String × STree)) (obj : DictObj) (lo hi : Nat),
      (∀ x, lo ≤ x → x < hi → g'[x]? = g[x]?) → RepK g obj kvs lo hi → RepK g' obj kvs lo hi
    | [], obj, lo, hi, _, h => by simpa only [RepK] using h
    | (k, s) :: r, obj, lo, hi, hf, h => by
      simp only [RepK] at h ⊢
      obtain ⟨v, o, mid, h1, h2, h3⟩ := h
      have l1 := RepT.le g s v lo mid h2
      have l2 := RepK.le g r o mid hi h3
      exact ⟨v, o, mid, h1, RepT.frame g g' s v lo mid (fun x a b => hf x a (by omega)) h2,
        RepK.frame g g' r o mid hi (fun x a b => hf x (by omega) b) h3⟩
end

mutual
  theorem RepO.frame (P Q : Nat → Prop) (g g' : Heap) (hpq : ∀ x, P x → Q x)
      (hf : ∀ x, P x → g'[x]? = g[x]?) : ∀ (s : STree) (v : HVal), RepO P g v s → RepO Q g' v s
    | .leaf y, v, h => by simpa only [RepO] using h
    | .dict kvs, v, h => by
      simp only [RepO] at h ⊢
      obtain ⟨a, obj, h1, h2, h3, h4⟩ := h
      exact ⟨a, obj, h1, hpq a h2, by rw [hf a h2]; exact h3, RepOK.frame P Q g g' hpq hf kvs obj h4⟩
  theorem RepOK.frame (P Q : Nat → Prop) (g g' : Heap) (hpq : ∀ x, P x → Q x)
      (hf : ∀ x, P x → g'[x]? = g[x]?) : ∀ (kvs : List (String × STree)) (obj : DictObj),
      RepOK P g obj kvs → RepOK Q g' obj kvs
    | [], obj, h => by simpa only [RepOK] using h
    | (k, s) :: r, obj, h => by
      simp only [RepOK] at h ⊢
      obtain ⟨v, o, h1, h2, h3⟩ := h
      exact ⟨v, o, h1, RepO.frame P Q g g' hpq hf s v h2, RepOK.frame P Q g g' hpq hf r o h3⟩
end

mutual
  theorem RepT.toRepO (g : Heap) : ∀ (s : STree) (v : HVal) (lo hi : Nat), RepT g v s lo hi →
      RepO (fun x => lo ≤ x ∧ x < hi) g v s
    | .leaf y, v, lo, hi, h => by simp only [RepT] at h; simp only [RepO]; exact h.1
    | .dict kvs, v, lo, hi, h => by
      simp only [RepT] at h
      simp only [RepO]
      obtain ⟨a, obj, h1, h2, h3, h4⟩ := h
      have hle := RepK.le g kvs obj lo a h4
      refine ⟨a, obj, h1, ⟨by omega, by omega⟩, h3, ?_⟩
      exact RepOK.frame _ _ g g (fun x hx => ⟨hx.1, by omega⟩) (fun _ _ => rfl) kvs obj
        (RepK.toRepOK g kvs obj lo a h4)
  theorem RepK.toRepOK (g : Heap) : ∀ (kvs : List (String × STree)) (obj : DictObj) (lo hi : Nat),
      RepK g obj kvs lo hi → RepOK (fun x => lo ≤ x ∧ x < hi) g obj kvs
    | [], obj, lo, hi, h => by simp only [RepK] at h; simp only [RepOK]; exact h.1
    | (k, s) :: r, obj, lo, hi, h => by
      simp only [RepK] at h
      simp only [RepOK]
      obtain ⟨v, o, mid, h1, h2, h3⟩ := h
      have l1 := RepT.le g s v lo mid h2
      have l2 := RepK.le g r o mid hi h3
      exact ⟨v, o, h1,
        RepO.frame _ _ g g (fun x hx => ⟨hx.1, by omega⟩) (fun _ _ => rfl) s v (RepT.toRepO g s v lo mid h2),
        RepOK.frame _ _ g g (fun x hx => ⟨by omega, hx.2⟩) (fun _ _ => rfl) r o (RepK.toRepOK g r o mid hi h3)⟩
end

theorem keys_of_RepK (g : Heap) : ∀ (kvs : List (String × STree)) (obj : DictObj) (lo hi : Nat),
    RepK g obj kvs lo hi → keys obj = keys kvs
  | [], obj, lo, hi, h => by simp only [RepK] at h; simp [h.1, keys]
  | (k, s) :: r, obj, lo, hi, h => by
    simp only [RepK] at h
    obtain ⟨v, o, mid, h1, _, h3⟩ := h
    have := keys_of_RepK g r o mid hi h3
    simp only [keys] at this
    simp [h1, keys, this]

/-! ### reading back -/

mutual
  theorem readBack_of_RepO (P : Nat → Prop) (g : Heap) : ∀ (s : STree) (v : HVal) (fuel : Nat),
      sdepth s < fuel → RepO P g v s → readBack fuel g v = some s
    | .leaf y, v, fuel, hd, h => by
      simp only [RepO] at h
      cases fuel with
      | zero => omega
      | succ f => simp [h, readBack]
    | .dict kvs, v, fuel, hd, h => by
      simp only [RepO] at h
      obtain ⟨a, obj, h1, _, h3, h4⟩ := h
      cases fuel with
      | zero => omega
      | succ f =>
        simp only [sdepth] at hd
        simp [h1, readBack, h3, readBackGo_of_RepOK P g kvs obj f (by omega) h4]
  theorem readBackGo_of_RepOK (P : Nat → Prop) (g : Heap) : ∀ (kvs : List (String × STree)) (obj : DictObj)
      (fuel : Nat), sdepthKvs kvs < fuel → RepOK P g obj kvs →
      readBack.go (readBack fuel g) obj = some kvs
    | [], obj, fuel, _, h => by simp only [RepOK] at h; simp [h, readBack.go]
    | (k, s) :: r, obj, fuel, hd, h => by
      simp only [RepOK] at h
      obtain ⟨v, o, h1, h2, h3⟩ := h
      simp only [sdepthKvs] at hd
      have e1 := readBack_of_RepO P g s v fuel (by omega) h2
      have e2 := readBackGo_of_RepOK P g r o fuel (by omega) h3
      simp [h1, readBack.go, e1, e2]
end

/-! ### a fresh allocation is laid out as `RepT` -/

mutual
  theorem allocSTree_RepT : ∀ (s : STree) (h : Heap),
      RepT (allocSTree h s).1 (allocSTree h s).2 s h.length (allocSTree h s).1.length
    | .leaf v, h => by simp [allocSTree, RepT]
    | .dict kvs, h => by
      have ih := allocKvs_RepK kvs h
      obtain ⟨⟨ext, hext⟩, _, _⟩ := allocKvs_spec kvs h h.length (Nat.le_refl _) (closed_base h)
      simp only [allocSTree, alloc, RepT]
      refine ⟨(allocKvs h kvs).1.length, (allocKvs h kvs).2, rfl, by simp, by simp, ?_⟩
      exact RepK.frame _ _ kvs _ _ _ (fun x _ hx => List.getElem?_append_left hx) ih
  theorem allocKvs_RepK : ∀ (kvs : List (String × STree)) (h : Heap),
      RepK (allocKvs h kvs).1 (allocKvs h kvs).2 kvs h.length (allocKvs h kvs).1.length
    | [], h => by simp [allocKvs, RepK]
    | (k, s) :: r, h => by
      have i1 := allocSTree_RepT s h
      have i2 := allocKvs_RepK r (allocSTree h s).1
      obtain ⟨⟨e2, he2⟩, _, _⟩ := allocKvs_spec r (allocSTree h s).1 (allocSTree h s).1.length
        (Nat.le_refl _) (closed_base _)
      simp only [allocKvs, RepK]
      refine ⟨(allocSTree h s).2, (allocKvs (allocSTree h s).1 r).2, (allocSTree h s).1.length, rfl, ?_, i2⟩
      exact RepT.frame _ _ s _ _ _ (fun x _ hx => by rw [he2]; exact List.getElem?_append_left hx) i1
end


/-! ### small facts used by the loop -/

theorem lookup_append_of_notin {α} : ∀ (d : List (String × α)) (k : String) (v : α) (o : List (String × α)),
    k ∉ keys d → lookup k (d ++ (k, v) :: o) = some v
  | [], k, v, o, _ => by simp [lookup]
  | (k0, v0) :: d, k, v, o, h => by
    simp only [keys, List.map_cons, List.mem_cons, not_or] at h
    have : ¬ k0 = k := fun e => h.1 e.symm
    simp only [List.cons_append, lookup, this, ↓reduceIte]
    exact lookup_append_of_notin d k v o (by simpa [keys] using h.2)

theorem dictSet_append_of_notin {α} : ∀ (d : List (String × α)) (k : String) (v nv : α) (o : List (String × α)),
    k ∉ keys d → dictSet (d ++ (k, v) :: o) k nv = d ++ (k, nv) :: o
  | [], k, v, nv, o, _ => by simp [dictSet]
  | (k0, v0) :: d, k, v, nv, o, h => by
    simp only [keys, List.map_cons, List.mem_cons, not_or] at h
    have : ¬ k0 = k := fun e => h.1 e.symm
    simp only [List.cons_append, dictSet, this, ↓reduceIte, List.cons.injEq, true_and]
    exact dictSet_append_of_notin d k v nv o (by simpa [keys] using h.2)

theorem RepOK.snoc (P : Nat → Prop) (g : Heap) (k : String) (v : HVal) (s : STree) (hv : RepO P g v s) :
    ∀ (ds : List (String × STree)) (d : DictObj), RepOK P g d ds → RepOK P g (d ++ [(k, v)]) (ds ++ [(k, s)])
  | [], d, h => by
    simp only [RepOK] at h
    subst h
    simp only [List.nil_append, RepOK]
    exact ⟨v, [], rfl, hv, rfl⟩
  | (k0, s0) :: r, d, h => by
    simp only [RepOK] at h
    obtain ⟨v0, o, h1, h2, h3⟩ := h
    subst h1
    simp only [List.cons_append, RepOK]
    exact ⟨v0, o ++ [(k, v)], rfl, h2, RepOK.snoc P g k v s hv r o h3⟩

theorem setItem_at (h : Heap) (a : Nat) (k : String) (v : HVal) (obj : DictObj) (hg : h[a]? = some obj) :
    (setItem h a k v)[a]? = some (dictSet obj k v) ∧ (setItem h a k v).length = h.length ∧
    ∀ x, x ≠ a → (setItem h a k v)[x]? = h[x]? := by
  have hlt : a < h.length := by
    by_cases hl : a < h.length
    · exact hl
    · rw [List.getElem?_eq_none (by omega)] at hg; cases hg
  simp only [setItem, hg]
  refine ⟨by simp [List.getElem?_set, hlt], by simp, ?_⟩
  intro x hx
  rw [List.getElem?_set]
  have : ¬ a = x := fun e => hx e.symm
  simp [this]

theorem inPlace_val_ref (step : Leaf → Option STree) (fuel : Nat) (g : Heap) (c : Nat) :
    (inPlace step fuel g (.ref c)).val = .ref c := by
  cases fuel with
  | zero => simp [inPlace]
  | succ f =>
    simp only [inPlace]
    cases g[c]? <;> simp

/-! ### the pass refines `mapLeaves` -/

mutual
  theorem inPlace_refines (step : Leaf → Option STree) : ∀ (s : STree) (fuel : Nat) (g : Heap) (v : HVal)
      (lo hi : Nat), sdepth s < fuel → s.wf = true → RepT g v s lo hi → hi ≤ g.length →
      RepO (fun x => (lo ≤ x ∧ x < hi) ∨ (g.length ≤ x ∧ x < (inPlace step fuel g v).heap.length))
        (inPlace step fuel g v).heap (inPlace step fuel g v).val (mapLeaves step s) ∧
      g.length ≤ (inPlace step fuel g v).heap.length ∧
      ∀ x, x < g.length → ¬(lo ≤ x ∧ x < hi) → (inPlace step fuel g v).heap[x]? = g[x]?
    | .leaf y, fuel, g, v, lo, hi, hd, _, hr, _ => by
      simp only [RepT] at hr
      obtain ⟨rfl, rfl⟩ := hr
      cases fuel with
      | zero => omega
      | succ f =>
        simp only [inPlace, mapLeaves]
        cases hst : step y with
        | none => simp [RepO]
        | some s' =>
          simp only
          obtain ⟨⟨ext, hext⟩, _, _⟩ := allocSTree_spec s' g g.length (Nat.le_refl _) (closed_base g)
          have hrep := RepT.toRepO _ s' _ _ _ (allocSTree_RepT s' g)
          refine ⟨RepO.frame _ _ _ _ (fun x hx => Or.inr hx) (fun _ _ => rfl) s' _ hrep,
            by rw [hext]; simp, ?_⟩
          intro x hx _
          rw [hext]; exact List.getElem?_append_left hx
    | .dict kvs, fuel, g, v, lo, hi, hd, hw, hr, hhi => by
      simp only [RepT] at hr
      obtain ⟨a, obj, rfl, rfl, hget, hk⟩ := hr
      simp only [STree.wf, Bool.and_eq_true, decide_eq_true_eq] at hw
      simp only [sdepth] at hd
      cases fuel with
      | zero => omega
      | succ f =>
        have hle := RepK.le g kvs obj lo a hk
        have hkeys := keys_of_RepK g kvs obj lo a hk
        have := loop_refines step kvs f a lo g.length lo g [] obj [] [] (by omega) hw.2 hw.1
          (by intro k _ hm; simp [keys] at hm) (by omega) (Nat.le_refl _) (Nat.le_refl _) (by simpa using hget) hk
          (by simp [RepOK])
        obtain ⟨fin, h1, h2, h3, h4⟩ := this
        simp only [inPlace, hget, hkeys, mapLeaves, RepO]
        simp only [List.nil_append] at h2
        refine ⟨⟨a, fin, rfl, Or.inl ⟨hle, by omega⟩, h1, ?_⟩, h3, ?_⟩
        · exact RepOK.frame _ _ _ _ (fun x hx => hx.elim (fun h => Or.inl ⟨h.1, by omega⟩) Or.inr)
            (fun _ _ => rfl) _ _ h2
        · intro x hx hnot
          exact h4 x hx hnot
  theorem loop_refines (step : Leaf → Option STree) : ∀ (kvs : List (String × STree)) (f a lo G mid : Nat)
      (gc : Heap) (doneObj todoObj : DictObj) (doneS : List (String × STree)) (w : List Nat),
      sdepthKvs kvs < f → swfKvs kvs = true → (keys kvs).Nodup → (∀ k, k ∈ keys kvs → k ∉ keys doneObj) →
      a < G → G ≤ gc.length → lo ≤ mid →
      gc[a]? = some (doneObj ++ todoObj) → RepK gc todoObj kvs mid a →
      RepOK (fun x => (lo ≤ x ∧ x < mid) ∨ (G ≤ x ∧ x < gc.length)) gc doneObj doneS →
      ∃ fin, (passEntries step (inPlace step f) a (keys kvs) gc w).1[a]? = some fin ∧
        RepOK (fun x => (lo ≤ x ∧ x < a) ∨
            (G ≤ x ∧ x < (passEntries step (inPlace step f) a (keys kvs) gc w).1.length))
          (passEntries step (inPlace step f) a (keys kvs) gc w).1 fin (doneS ++ mapKvs step kvs) ∧
        gc.length ≤ (passEntries step (inPlace step f) a (keys kvs) gc w).1.length ∧
        ∀ x, x < gc.length → ¬(mid ≤ x ∧ x < a + 1) →
          (passEntries step (inPlace step f) a (keys kvs) gc w).1[x]? = gc[x]?
    | [], f, a, lo, G, mid, gc, doneObj, todoObj, doneS, w, _, _, _, _, haG, hG, hlo, hget, hk, hdone => by
      simp only [RepK] at hk
      obtain ⟨rfl, rfl⟩ := hk
      simp only [keys, List.map_nil, passEntries, mapKvs, List.append_nil] at hget ⊢
      exact ⟨doneObj, hget, hdone, Nat.le_refl _, by simp⟩
    | (k, s) :: r, f, a, lo, G, mid, gc, doneObj, todoObj, doneS, w, hd, hw, hnd, hdisj, haG, hG, hlo, hget,
        hk, hdone => by
      simp only [RepK] at hk
      obtain ⟨v, o', mid', rfl, hv, hrest⟩ := hk
      simp only [sdepthKvs] at hd
      simp only [swfKvs, Bool.and_eq_true] at hw
      rw [keys_cons, List.nodup_cons] at hnd
      have hkd : k ∉ keys doneObj := hdisj k (by simp [keys])
      have hlook : lookup k (doneObj ++ (k, v) :: o') = some v := lookup_append_of_notin doneObj k v o' hkd
      have hmm := RepT.le gc s v mid mid' hv
      have hma := RepK.le gc r o' mid' a hrest
      have hdisj' : ∀ (nv : HVal) k', k' ∈ keys r → k' ∉ keys (doneObj ++ [(k, nv)]) := by
        intro nv k' hk' hm
        simp only [keys, List.map_append, List.map_cons, List.map_nil, List.mem_append, List.mem_singleton] at hm
        rcases hm with hm | hm
        · exact hdisj k' (by simp [keys_cons, hk']) (by simpa [keys] using hm)
        · subst hm; exact hnd.1 hk'
      simp only [keys_cons, passEntries, hget, hlook]
      cases s with
      | leaf y =>
        simp only [RepT] at hv
        obtain ⟨rfl, rfl⟩ := hv
        simp only
        cases hst : step y with
        | none =>
          simp only
          have hdone' : RepOK (fun x => (lo ≤ x ∧ x < mid) ∨ (G ≤ x ∧ x < gc.length)) gc
              (doneObj ++ [(k, .leaf y)]) (doneS ++ [(k, .leaf y)]) :=
            RepOK.snoc _ gc k _ _ (by simp [RepO]) doneS doneObj hdone
          have ih := loop_refines step r f a lo G mid gc (doneObj ++ [(k, .leaf y)]) o'
            (doneS ++ [(k, .leaf y)]) w (by omega) hw.2 hnd.2 (hdisj' _) haG hG hlo
            (by simpa using hget) hrest hdone'
          obtain ⟨fin, h1, h2, h3, h4⟩ := ih
          refine ⟨fin, h1, ?_, h3, h4⟩
          simpa [mapKvs, mapLeaves, hst] using h2
        | some s' =>
          simp only
          obtain ⟨⟨ext, hext⟩, _, _⟩ := allocSTree_spec s' gc gc.length (Nat.le_refl _) (closed_base gc)
          have hlen1 : gc.length ≤ (allocSTree gc s').1.length := by rw [hext]; simp
          have hsame1 : ∀ x, x < gc.length → (allocSTree gc s').1[x]? = gc[x]? := by
            intro x hx; rw [hext]; exact List.getElem?_append_left hx
          have hgeta : (allocSTree gc s').1[a]? = some (doneObj ++ (k, .leaf y) :: o') := by
            rw [hsame1 a (by omega)]; exact hget
          obtain ⟨hs1, hs2, hs3⟩ := setItem_at (allocSTree gc s').1 a k (allocSTree gc s').2 _ hgeta
          rw [dictSet_append_of_notin doneObj k _ _ o' hkd] at hs1
          -- everything below `gc.length` except `a` is as in `gc`
          have hsame : ∀ x, x < gc.length → x ≠ a →
              (setItem (allocSTree gc s').1 a k (allocSTree gc s').2)[x]? = gc[x]? := by
            intro x hx hxa; rw [hs3 x hxa, hsame1 x hx]
          have hnew : RepO (fun x => (lo ≤ x ∧ x < mid) ∨
                (G ≤ x ∧ x < (setItem (allocSTree gc s').1 a k (allocSTree gc s').2).length))
              (setItem (allocSTree gc s').1 a k (allocSTree gc s').2) (allocSTree gc s').2 s' := by
            apply RepO.frame _ _ (allocSTree gc s').1 _ _ _ s' _ (RepT.toRepO _ s' _ _ _ (allocSTree_RepT s' gc))
            · intro x hx; exact Or.inr ⟨by omega, by rw [hs2]; exact hx.2⟩
            · intro x hx; exact hs3 x (by omega)
          have hdone1 : RepOK (fun x => (lo ≤ x ∧ x < mid) ∨
                (G ≤ x ∧ x < (setItem (allocSTree gc s').1 a k (allocSTree gc s').2).length))
              (setItem (allocSTree gc s').1 a k (allocSTree gc s').2) doneObj doneS := by
            apply RepOK.frame _ _ gc _ _ _ doneS doneObj hdone
            · intro x hx
              rcases hx with hx | hx
              · exact Or.inl hx
              · exact Or.inr ⟨hx.1, by rw [hs2]; omega⟩
            · intro x hx
              rcases hx with hx | hx
              · exact hsame x (by omega) (by omega)
              · exact hsame x hx.2 (by omega)
          have hrest1 : RepK (setItem (allocSTree gc s').1 a k (allocSTree gc s').2) o' r mid a :=
            RepK.frame gc _ r o' mid a (fun x _ hx => hsame x (by omega) (by omega)) hrest
          have ih := loop_refines step r f a lo G mid (setItem (allocSTree gc s').1 a k (allocSTree gc s').2)
            (doneObj ++ [(k, (allocSTree gc s').2)]) o' (doneS ++ [(k, s')]) (w ++ [a]) (by omega) hw.2 hnd.2
            (hdisj' _) haG (by rw [hs2]; omega) hlo (by simpa using hs1) hrest1
            (RepOK.snoc _ _ k _ _ hnew doneS doneObj hdone1)
          obtain ⟨fin, h1, h2, h3, h4⟩ := ih
          refine ⟨fin, h1, ?_, by rw [hs2] at h3; omega, ?_⟩
          · simpa [mapKvs, mapLeaves, hst] using h2
          · intro x hx hnot
            rw [h4 x (by rw [hs2]; omega) hnot]
            exact hsame x hx (by omega)
      | dict kvs' =>
        have hv' := hv
        simp only [RepT] at hv'
        obtain ⟨c, objc, rfl, hc1, _, _⟩ := hv'
        simp only
        have hM := inPlace_refines step (.dict kvs') f gc (.ref c) mid mid' (by omega) hw.1 hv (by omega)
        obtain ⟨m1, m2, m3⟩ := hM
        rw [inPlace_val_ref] at m1
        have hgeta : (inPlace step f gc (.ref c)).heap[a]? = some (doneObj ++ (k, .ref c) :: o') := by
          rw [m3 a (by omega) (by omega)]; exact hget
        have hdone1 : RepOK (fun x => (lo ≤ x ∧ x < mid') ∨
              (G ≤ x ∧ x < (inPlace step f gc (.ref c)).heap.length))
            (inPlace step f gc (.ref c)).heap doneObj doneS := by
          apply RepOK.frame _ _ gc _ _ _ doneS doneObj hdone
          · intro x hx
            rcases hx with hx | hx
            · exact Or.inl ⟨hx.1, by omega⟩
            · exact Or.inr ⟨hx.1, by omega⟩
          · intro x hx
            rcases hx with hx | hx
            · exact m3 x (by omega) (by omega)
            · exact m3 x hx.2 (by omega)
        have hnew : RepO (fun x => (lo ≤ x ∧ x < mid') ∨
              (G ≤ x ∧ x < (inPlace step f gc (.ref c)).heap.length))
            (inPlace step f gc (.ref c)).heap (.ref c) (mapLeaves step (.dict kvs')) := by
          apply RepO.frame _ _ _ _ _ (fun _ _ => rfl) _ _ m1
          intro x hx
          rcases hx with hx | hx
          · exact Or.inl ⟨by omega, hx.2⟩
          · exact Or.inr ⟨by omega, hx.2⟩
        have hrest1 : RepK (inPlace step f gc (.ref c)).heap o' r mid' a :=
          RepK.frame gc _ r o' mid' a (fun x hx1 hx2 => m3 x (by omega) (by omega)) hrest
        have ih := loop_refines step r f a lo G mid' (inPlace step f gc (.ref c)).heap
          (doneObj ++ [(k, .ref c)]) o' (doneS ++ [(k, mapLeaves step (.dict kvs'))])
          (w ++ (inPlace step f gc (.ref c)).writes) (by omega) hw.2 hnd.2 (hdisj' _) haG (by omega) (by omega)
          (by simpa using hgeta) hrest1 (RepOK.snoc _ _ k _ _ hnew doneS doneObj hdone1)
        obtain ⟨fin, h1, h2, h3, h4⟩ := ih
        refine ⟨fin, h1, ?_, by omega, ?_⟩
        · simpa [mapKvs] using h2
        · intro x hx hnot
          rw [h4 x (by omega) (by omega)]
          exact m3 x hx (by omega)
end

/-- **the in-place pass computes `mapLeaves step`**: run on a state dict `s` that has just been built
out of fresh dict objects (by `to_state_dict`, or by the copy `msgpack_serialize` makes), with any
`fuel` above the nesting depth, the heap it leaves behind reads back as `mapLeaves step s`. -/
theorem inPlace_fresh (step : Leaf → Option STree) (h : Heap) (s : STree) (fuel : Nat)
    (hw : s.wf = true) (hf : sdepth s < fuel) (rfuel : Nat) (hr : sdepth (mapLeaves step s) < rfuel) :
    readBack rfuel (inPlace step fuel (allocSTree h s).1 (allocSTree h s).2).heap
      (inPlace step fuel (allocSTree h s).1 (allocSTree h s).2).val = some (mapLeaves step s) := by
  have := inPlace_refines step s fuel (allocSTree h s).1 (allocSTree h s).2 h.length
    (allocSTree h s).1.length hf hw (allocSTree_RepT s h) (Nat.le_refl _)
  exact readBack_of_RepO _ _ _ _ rfuel hr this.1


/-! ### a pass that only swaps leaves for leaves keeps the layout (`_np_convert_in_place`) -/

/-- `step` never introduces a dict -/
def LeafOnly (step : Leaf → Option STree) : Prop := ∀ v s, step v = some s → ∃ y, s = .leaf y

theorem RepK.snoc (g : Heap) (k : String) (v : HVal) (s : STree) :
    ∀ (ds : List (String × STree)) (d : DictObj) (lo mid mid' : Nat), RepK g d ds lo mid →
      RepT g v s mid mid' → RepK g (d ++ [(k, v)]) (ds ++ [(k, s)]) lo mid'
  | [], d, lo, mid, mid', h, hv => by
    simp only [RepK] at h
    obtain ⟨rfl, rfl⟩ := h
    simp only [List.nil_append, RepK]
    exact ⟨v, [], mid', rfl, hv, rfl, rfl⟩
  | (k0, s0) :: r, d, lo, mid, mid', h, hv => by
    simp only [RepK] at h
    obtain ⟨v0, o, m0, h1, h2, h3⟩ := h
    subst h1
    simp only [List.cons_append, RepK]
    exact ⟨v0, o ++ [(k, v)], m0, rfl, h2, RepK.snoc g k v s r o m0 mid mid' h3 hv⟩

mutual
  theorem inPlace_leafOnly (step : Leaf → Option STree) (hstep : LeafOnly step) : ∀ (s : STree) (fuel : Nat)
      (g : Heap) (v : HVal) (lo hi : Nat), sdepth s < fuel → s.wf = true → RepT g v s lo hi → hi ≤ g.length →
      RepT (inPlace step fuel g v).heap (inPlace step fuel g v).val (mapLeaves step s) lo hi ∧
      (inPlace step fuel g v).heap.length = g.length ∧
      ∀ x, x < g.length → ¬(lo ≤ x ∧ x < hi) → (inPlace step fuel g v).heap[x]? = g[x]?
    | .leaf y, fuel, g, v, lo, hi, hd, _, hr, _ => by
      simp only [RepT] at hr
      obtain ⟨rfl, rfl⟩ := hr
      cases fuel with
      | zero => omega
      | succ f =>
        simp only [inPlace, mapLeaves]
        cases hst : step y with
        | none => simp [RepT]
        | some s' =>
          obtain ⟨z, rfl⟩ := hstep y s' hst
          simp [allocSTree, RepT]
    | .dict kvs, fuel, g, v, lo, hi, hd, hw, hr, hhi => by
      simp only [RepT] at hr
      obtain ⟨a, obj, rfl, rfl, hget, hk⟩ := hr
      simp only [STree.wf, Bool.and_eq_true, decide_eq_true_eq] at hw
      simp only [sdepth] at hd
      cases fuel with
      | zero => omega
      | succ f =>
        have hkeys := keys_of_RepK g kvs obj lo a hk
        have := loop_leafOnly step hstep kvs f a lo lo g [] obj [] [] (by omega) hw.2 hw.1
          (by intro k _ hm; simp [keys] at hm) (by omega) (Nat.le_refl _) (by simpa using hget) hk
          (by simp [RepK])
        obtain ⟨fin, h1, h2, h3, h4⟩ := this
        simp only [inPlace, hget, hkeys, mapLeaves, RepT]
        simp only [List.nil_append] at h2
        exact ⟨⟨a, fin, rfl, rfl, h1, h2⟩, h3, fun x hx hnot => h4 x hx hnot⟩
  theorem loop_leafOnly (step : Leaf → Option STree) (hstep : LeafOnly step) :
      ∀ (kvs : List (String × STree)) (f a lo mid : Nat)
      (gc : Heap) (doneObj todoObj : DictObj) (doneS : List (String × STree)) (w : List Nat),
      sdepthKvs kvs < f → swfKvs kvs = true → (keys kvs).Nodup → (∀ k, k ∈ keys kvs → k ∉ keys doneObj) →
      a < gc.length → lo ≤ mid →
      gc[a]? = some (doneObj ++ todoObj) → RepK gc todoObj kvs mid a → RepK gc doneObj doneS lo mid →
      ∃ fin, (passEntries step (inPlace step f) a (keys kvs) gc w).1[a]? = some fin ∧
        RepK (passEntries step (inPlace step f) a (keys kvs) gc w).1 fin (doneS ++ mapKvs step kvs) lo a ∧
        (passEntries step (inPlace step f) a (keys kvs) gc w).1.length = gc.length ∧
        ∀ x, x < gc.length → ¬(mid ≤ x ∧ x < a + 1) →
          (passEntries step (inPlace step f) a (keys kvs) gc w).1[x]? = gc[x]?
    | [], f, a, lo, mid, gc, doneObj, todoObj, doneS, w, _, _, _, _, ha, hlo, hget, hk, hdone => by
      simp only [RepK] at hk
      obtain ⟨rfl, rfl⟩ := hk
      simp only [keys, List.map_nil, passEntries, mapKvs, List.append_nil] at hget ⊢
      exact ⟨doneObj, hget, hdone, by simp⟩
    | (k, s) :: r, f, a, lo, mid, gc, doneObj, todoObj, doneS, w, hd, hw, hnd, hdisj, ha, hlo, hget, hk, hdone => by
      simp only [RepK] at hk
      obtain ⟨v, o', mid', rfl, hv, hrest⟩ := hk
      simp only [sdepthKvs] at hd
      simp only [swfKvs, Bool.and_eq_true] at hw
      rw [keys_cons, List.nodup_cons] at hnd
      have hkd : k ∉ keys doneObj := hdisj k (by simp [keys])
      have hlook : lookup k (doneObj ++ (k, v) :: o') = some v := lookup_append_of_notin doneObj k v o' hkd
      have hmm := RepT.le gc s v mid mid' hv
      have hma := RepK.le gc r o' mid' a hrest
      have hlm := RepK.le gc doneS doneObj lo mid hdone
      have hdisj' : ∀ (nv : HVal) k', k' ∈ keys r → k' ∉ keys (doneObj ++ [(k, nv)]) := by
        intro nv k' hk' hm
        simp only [keys, List.map_append, List.map_cons, List.map_nil, List.mem_append, List.mem_singleton] at hm
        rcases hm with hm | hm
        · exact hdisj k' (by simp [keys_cons, hk']) (by simpa [keys] using hm)
        · subst hm; exact hnd.1 hk'
      simp only [keys_cons, passEntries, hget, hlook]
      cases s with
      | leaf y =>
        simp only [RepT] at hv
        obtain ⟨rfl, rfl⟩ := hv
        simp only
        cases hst : step y with
        | none =>
          simp only
          have hdone' := RepK.snoc gc k (.leaf y) (.leaf y) doneS doneObj lo mid mid hdone (by simp [RepT])
          have ih := loop_leafOnly step hstep r f a lo mid gc (doneObj ++ [(k, .leaf y)]) o'
            (doneS ++ [(k, .leaf y)]) w (by omega) hw.2 hnd.2 (hdisj' _) ha hlo (by simpa using hget) hrest hdone'
          obtain ⟨fin, h1, h2, h3, h4⟩ := ih
          refine ⟨fin, h1, ?_, h3, h4⟩
          simpa [mapKvs, mapLeaves, hst] using h2
        | some s' =>
          obtain ⟨z, rfl⟩ := hstep y s' hst
          simp only [allocSTree]
          obtain ⟨hs1, hs2, hs3⟩ := setItem_at gc a k (.leaf z) _ hget
          rw [dictSet_append_of_notin doneObj k _ _ o' hkd] at hs1
          have hdone1 : RepK (setItem gc a k (.leaf z)) doneObj doneS lo mid :=
            RepK.frame gc _ doneS doneObj lo mid (fun x _ hx => hs3 x (by omega)) hdone
          have hrest1 : RepK (setItem gc a k (.leaf z)) o' r mid a :=
            RepK.frame gc _ r o' mid a (fun x _ hx => hs3 x (by omega)) hrest
          have ih := loop_leafOnly step hstep r f a lo mid (setItem gc a k (.leaf z))
            (doneObj ++ [(k, .leaf z)]) o' (doneS ++ [(k, .leaf z)]) (w ++ [a]) (by omega) hw.2 hnd.2
            (hdisj' _) (by rw [hs2]; exact ha) hlo (by simpa using hs1) hrest1
            (RepK.snoc _ k (.leaf z) (.leaf z) doneS doneObj lo mid mid hdone1 (by simp [RepT]))
          obtain ⟨fin, h1, h2, h3, h4⟩ := ih
          refine ⟨fin, h1, ?_, by rw [h3, hs2], ?_⟩
          · simpa [mapKvs, mapLeaves, hst] using h2
          · intro x hx hnot
            rw [h4 x (by rw [hs2]; exact hx) hnot]
            exact hs3 x (by omega)
      | dict kvs' =>
        have hv' := hv
        simp only [RepT] at hv'
        obtain ⟨c, objc, rfl, hc1, _, _⟩ := hv'
        simp only
        have hM := inPlace_leafOnly step hstep (.dict kvs') f gc (.ref c) mid mid' (by omega) hw.1 hv (by omega)
        obtain ⟨m1, m2, m3⟩ := hM
        rw [inPlace_val_ref] at m1
        have hgeta : (inPlace step f gc (.ref c)).heap[a]? = some (doneObj ++ (k, .ref c) :: o') := by
          rw [m3 a ha (by omega)]; exact hget
        have hdone1 : RepK (inPlace step f gc (.ref c)).heap doneObj doneS lo mid :=
          RepK.frame gc _ doneS doneObj lo mid (fun x _ hx => m3 x (by omega) (by omega)) hdone
        have hrest1 : RepK (inPlace step f gc (.ref c)).heap o' r mid' a :=
          RepK.frame gc _ r o' mid' a (fun x hx1 hx2 => m3 x (by omega) (by omega)) hrest
        have ih := loop_leafOnly step hstep r f a lo mid' (inPlace step f gc (.ref c)).heap
          (doneObj ++ [(k, .ref c)]) o' (doneS ++ [(k, mapLeaves step (.dict kvs'))])
          (w ++ (inPlace step f gc (.ref c)).writes) (by omega) hw.2 hnd.2 (hdisj' _) (by rw [m2]; exact ha)
          (by omega) (by simpa using hgeta) hrest1
          (RepK.snoc _ k (.ref c) _ doneS doneObj lo mid mid' hdone1 m1)
        obtain ⟨fin, h1, h2, h3, h4⟩ := ih
        refine ⟨fin, h1, ?_, by rw [h3, m2], ?_⟩
        · simpa [mapKvs] using h2
        · intro x hx hnot
          rw [h4 x (by rw [m2]; exact hx) (by omega)]
          exact m3 x hx (by omega)
end

/-! ### the two passes of `msgpack_serialize`, one after the other -/

theorem leafOnly_npStep (isJax : Leaf → Bool) (toNp : Leaf → Leaf) : LeafOnly (npStep isJax toNp) := by
  intro v s h
  simp only [npStep] at h
  split at h
  · exact ⟨toNp v, (Option.some.inj h).symm⟩
  · cases h

mutual
  theorem wf_mapLeaves_leafOnly (step : Leaf → Option STree) (hstep : LeafOnly step) : ∀ (s : STree),
      s.wf = true → (mapLeaves step s).wf = true ∧ sdepth (mapLeaves step s) = sdepth s
    | .leaf y, _ => by
      simp only [mapLeaves]
      cases hst : step y with
      | none => simp [STree.wf, sdepth]
      | some s' => obtain ⟨z, rfl⟩ := hstep y s' hst; simp [STree.wf, sdepth]
    | .dict kvs, h => by
      simp only [STree.wf, Bool.and_eq_true, decide_eq_true_eq] at h
      have := wf_mapKvs_leafOnly step hstep kvs h.2
      simp only [mapLeaves, STree.wf, sdepth, Bool.and_eq_true, decide_eq_true_eq, this.2.1, this.2.2]
      exact ⟨⟨h.1, this.1⟩, trivial⟩
  theorem wf_mapKvs_leafOnly (step : Leaf → Option STree) (hstep : LeafOnly step) :
      ∀ (kvs : List (String × STree)), swfKvs kvs = true →
      swfKvs (mapKvs step kvs) = true ∧ keys (mapKvs step kvs) = keys kvs ∧
        sdepthKvs (mapKvs step kvs) = sdepthKvs kvs
    | [], _ => by simp [mapKvs, swfKvs, sdepthKvs]
    | (k, v) :: r, h => by
      simp only [swfKvs, Bool.and_eq_true] at h
      have h1 := wf_mapLeaves_leafOnly step hstep v h.1
      have h2 := wf_mapKvs_leafOnly step hstep r h.2
      simp only [mapKvs, swfKvs, keys_cons, sdepthKvs, Bool.and_eq_true, h1.1, h1.2, h2.1, h2.2.1, h2.2.2]
      exact ⟨⟨trivial, trivial⟩, trivial, trivial⟩
end

/-- **both passes of `msgpack_serialize`, run on a freshly built state dict, compute the pure
pipeline**: conversion of the JAX leaves, then `chunkLeaves`. -/
theorem passes_fresh (isJax : Leaf → Bool) (toNp : Leaf → Leaf) (T : Nat) (isz : String → Nat)
    (h : Heap) (s : STree) (fuel : Nat) (hw : s.wf = true) (hf : sdepth s < fuel)
    (rfuel : Nat) (hr : sdepth (chunkLeaves T isz (mapLeaves (npStep isJax toNp) s)) < rfuel) :
    readBack rfuel (passes isJax toNp T isz fuel (allocSTree h s).1 (allocSTree h s).2).heap
      (passes isJax toNp T isz fuel (allocSTree h s).1 (allocSTree h s).2).val
      = some (chunkLeaves T isz (mapLeaves (npStep isJax toNp) s)) := by
  have hl := leafOnly_npStep isJax toNp
  obtain ⟨a1, a2, _⟩ := inPlace_leafOnly _ hl s fuel (allocSTree h s).1 (allocSTree h s).2 h.length
    (allocSTree h s).1.length hf hw (allocSTree_RepT s h) (Nat.le_refl _)
  have hw' := wf_mapLeaves_leafOnly _ hl s hw
  have b := inPlace_refines (chunkStep T isz) (mapLeaves (npStep isJax toNp) s) fuel _ _ h.length
    (allocSTree h s).1.length (by rw [hw'.2]; exact hf) hw'.1 a1 (by rw [a2]; exact Nat.le_refl _)
  simp only [passes]
  rw [← mapLeaves_chunkStep] at hr ⊢
  exact readBack_of_RepO _ _ _ _ rfuel hr b.1


mutual
  theorem mapLeaves_id (step : Leaf → Option STree) (hnone : ∀ v, step v = none) : ∀ (s : STree),
      mapLeaves step s = s
    | .leaf y => by simp [mapLeaves, hnone y]
    | .dict kvs => by simp [mapLeaves, mapKvs_id step hnone kvs]
  theorem mapKvs_id (step : Leaf → Option STree) (hnone : ∀ v, step v = none) :
      ∀ (kvs : List (String × STree)), mapKvs step kvs = kvs
    | [] => rfl
    | (k, v) :: r => by simp [mapKvs, mapLeaves_id step hnone v, mapKvs_id step hnone r]
end

theorem swfKvs_of_forall : ∀ (xs : List STree) (i : Nat), (∀ x ∈ xs, x.wf = true) → swfKvs (enumL i xs) = true
  | [], _, _ => by simp [enumL, swfKvs]
  | x :: r, i, hx => by
    simp only [enumL, swfKvs, Bool.and_eq_true]
    exact ⟨hx x (by simp), swfKvs_of_forall r (i + 1) (fun y hy => hx y (by simp [hy]))⟩

theorem mem_keys_toSDList : ∀ (xs : List Tree) (i : Nat) (k : String),
    k ∈ keys (toSDList i xs) → ∃ j, k = idx (i + j)
  | [], _, _, h => by simp [toSDList, keys] at h
  | x :: r, i, k, h => by
    simp only [toSDList, keys_cons, List.mem_cons] at h
    rcases h with h | h
    · exact ⟨0, by simpa using h⟩
    · obtain ⟨j, hk⟩ := mem_keys_toSDList r (i + 1) k h
      exact ⟨j + 1, by rw [hk]; congr 1; omega⟩

theorem nodup_keys_toSDList : ∀ (xs : List Tree) (i : Nat), (keys (toSDList i xs)).Nodup
  | [], _ => by simp [toSDList, keys]
  | x :: r, i => by
    rw [toSDList, keys_cons, List.nodup_cons]
    refine ⟨?_, nodup_keys_toSDList r (i + 1)⟩
    intro hm
    obtain ⟨j, hk⟩ := mem_keys_toSDList r (i + 1) (idx i) hm
    have := idx_inj hk
    omega

mutual
  /-- the state dict of a tree with distinct keys has distinct keys -/
  theorem wf_toStateDict : ∀ (t : Tree), t.wf = true → (toStateDict t).wf = true
    | .leaf v, _ => by simp [toStateDict, STree.wf]
    | .dict kvs, h => by
      simp only [Tree.wf, Bool.and_eq_true, decide_eq_true_eq] at h
      simp [toStateDict, STree.wf, keys_toSDFields, h.1, wf_toSDFields kvs h.2]
    | .fdict kvs, h => by
      simp only [Tree.wf, Bool.and_eq_true, decide_eq_true_eq] at h
      simp [toStateDict, STree.wf, keys_toSDFields, h.1, wf_toSDFields kvs h.2]
    | .named _ kvs, h => by
      simp only [Tree.wf, Bool.and_eq_true, decide_eq_true_eq] at h
      simp [toStateDict, STree.wf, keys_toSDFields, h.1, wf_toSDFields kvs h.2]
    | .struct _ kvs _, h => by
      simp only [Tree.wf, Bool.and_eq_true, decide_eq_true_eq] at h
      simp [toStateDict, STree.wf, keys_toSDFields, h.1, wf_toSDFields kvs h.2]
    | .list xs, h => by
      simp only [Tree.wf] at h
      simp [toStateDict, STree.wf, nodup_keys_toSDList xs 0, wf_toSDList xs 0 h]
    | .tuple xs, h => by
      simp only [Tree.wf] at h
      simp [toStateDict, STree.wf, nodup_keys_toSDList xs 0, wf_toSDList xs 0 h]
  theorem wf_toSDFields : ∀ (kvs : List (String × Tree)), wfFields kvs = true → swfKvs (toSDFields kvs) = true
    | [], _ => by simp [toSDFields, swfKvs]
    | (k, v) :: r, h => by
      simp only [wfFields, Bool.and_eq_true] at h
      simp [toSDFields, swfKvs, wf_toStateDict v h.1, wf_toSDFields r h.2]
  theorem wf_toSDList : ∀ (xs : List Tree) (i : Nat), wfList xs = true → swfKvs (toSDList i xs) = true
    | [], _, _ => by simp [toSDList, swfKvs]
    | x :: r, i, h => by
      simp only [wfList, Bool.and_eq_true] at h
      simp [toSDList, swfKvs, wf_toStateDict x h.1, wf_toSDList r (i + 1) h.2]
end

end Flax.SerialHeap
