/- C08 proofs: `nnx.vmap` — the converse: when the per-index reference is defined (and sizes / verdict are right), the
model of `nnx.vmap` does not reject -/
import Flax.Proofs.NnxLoopVmapConv
import Flax.Proofs.NnxLoopVmapTop
import Flax.Proofs.NnxLoopDims
import Flax.Proofs.NnxLoopScanCollect
import Flax.Proofs.NnxLoopScanFinal

namespace Flax.NnxLoop
open Flax.Filter Flax.LiftLoop

section comp
variable {α : Type} [Inhabited α]

/-! ### `to_tree`, with the store only asked for the Variables it reads -/

theorem toTree_complete' (store : Store α) :
    ∀ (pas : List (Prefix × Arg α)) (np : NodePrefixes) (seen : List VarId) (npF : NodePrefixes),
      allPrefixes pas np = .ok npF → consistent npF = true →
      (∀ ep ∈ ownedAll pas seen, (store.lookup ep.1.id).isSome) →
      ∃ pure, toTree store pas np seen = .ok pure := by
  intro pas
  induction pas with
  | nil => intro np seen npF _ _ _; exact ⟨[], rfl⟩
  | cons pa rest ih =>
    intro np seen npF h hc hst
    obtain ⟨p, arg⟩ := pa
    cases arg with
    | arr a =>
      simp only [allPrefixes] at h
      obtain ⟨r, hr⟩ := ih np seen npF h hc (by simpa [ownedAll] using hst)
      exact ⟨.arr p a :: r, by simp [toTree, hr]⟩
    | node es =>
      simp only [allPrefixes] at h
      cases hcol : collect p es np with
      | error e => simp [hcol] at h
      | ok np' =>
        simp only [hcol] at h
        obtain ⟨more, hm⟩ := allPrefixes_extends rest np' npF h
        have hc' : consistent np' = true := consistent_of_append (by rw [← hm]; exact hc)
        have hown : ∀ e ∈ ownedOf es (markOwn es seen).1, (store.lookup e.id).isSome :=
          fun e he => hst (e, p) (by simp only [ownedAll]; exact List.mem_append_left _ (List.mem_map.2 ⟨e, he, rfl⟩))
        have hcol' := hcol
        rw [collect_eq] at hcol'
        cases hl : leafPrefixes p es with
        | error e => simp [hl] at hcol'
        | ok l =>
          obtain ⟨_, hat⟩ := leafPrefixes_ok_at hl
          obtain ⟨sts, hsts⟩ := splitFlat_ok_of_at p
            ((ownedOf es (markOwn es seen).1).map (fun e => (e.path, e.info, (store.lookup e.id).getD default)))
            (by
              intro x hx
              obtain ⟨e, he, rfl⟩ := List.mem_map.1 hx
              obtain ⟨a, ha, _⟩ := hat e (ownedOf_subset _ _ e he)
              refine ⟨a, ?_⟩
              cases p with
              | ax a' => simpa [Prefix.at] using ha
              | sa s => simpa [Prefix.at] using ha)
          obtain ⟨r, hr⟩ := ih np' (markOwn es seen).2 npF h hc
            (fun ep hep => hst ep (by simp only [ownedAll]; exact List.mem_append_right _ hep))
          refine ⟨.node ⟨es, (markOwn es seen).1⟩ p sts :: r, ?_⟩
          simp only [toTree, checkAliasing, hcol, hc', if_true, flatOf_of_total _ _ hown, hsts, hr]

/-- the prefix gives every owned occurrence an axis once `to_tree` went through -/
theorem toTree_owned_at (store : Store α) :
    ∀ (pas : List (Prefix × Arg α)) (np : NodePrefixes) (seen : List VarId) (pure : List (PureArg α)),
      toTree store pas np seen = .ok pure → ∀ ep ∈ ownedAll pas seen, ∃ a, ep.2.at ep.1 = .ok a := by
  intro pas
  induction pas with
  | nil => intro np seen pure _ ep hep; simp [ownedAll] at hep
  | cons pa rest ih =>
    intro np seen pure ht ep hep
    obtain ⟨p, arg⟩ := pa
    cases arg with
    | arr a =>
      obtain ⟨r, hr, _⟩ := toTree_arr_ok ht
      exact ih np seen r hr ep (by simpa [ownedAll] using hep)
    | node es =>
      obtain ⟨np', flat, sts, r, hca, _, _, hr, _⟩ := toTree_node_ok ht
      simp only [ownedAll, List.mem_append, List.mem_map] at hep
      rcases hep with ⟨e, he, rfl⟩ | hep
      · obtain ⟨l, hl, _, _⟩ := checkAliasing_ok hca
        obtain ⟨_, hat⟩ := leafPrefixes_ok_at hl
        obtain ⟨a, ha, _⟩ := hat e (ownedOf_subset _ _ e he)
        exact ⟨a, ha⟩
      · exact ih np' _ r hr ep hep

/-! ### the inner `to_tree` of the arguments after a call -/

/-- **`to_tree` of the arguments after the call does not reject** when the call left a value in every Variable -/
theorem splitArgOut_complete (store st : Store α) :
    ∀ (pas : List (Prefix × Arg α)) (np : NodePrefixes) (seen : List VarId) (pure : List (PureArg α)),
      toTree store pas np seen = .ok pure → (∀ ep ∈ ownedAll pas seen, (st.lookup ep.1.id).isSome) →
      ∃ r, mapX (splitArgOut st) pure = .ok r := by
  intro pas
  induction pas with
  | nil =>
    intro np seen pure ht _
    simp only [toTree] at ht; injection ht with ht; subst ht
    exact ⟨[], rfl⟩
  | cons pa rest ih =>
    intro np seen pure ht hst
    obtain ⟨p, arg⟩ := pa
    cases arg with
    | arr a =>
      obtain ⟨r, hr, rfl⟩ := toTree_arr_ok ht
      obtain ⟨r', hr'⟩ := ih np seen r hr (by simpa [ownedAll] using hst)
      exact ⟨[] :: r', mapX_cons_of_ok rfl hr'⟩
    | node es =>
      obtain ⟨np', flat, sts, r, hca, hfl, hsp, hr, rfl⟩ := toTree_node_ok ht
      obtain ⟨r', hr'⟩ := ih np' _ r hr
        (fun ep hep => hst ep (by simp only [ownedAll]; exact List.mem_append_right _ hep))
      have hown : ∀ e ∈ ownedOf es (markOwn es seen).1, (st.lookup e.id).isSome :=
        fun e he => hst (e, p) (by simp only [ownedAll]; exact List.mem_append_left _ (List.mem_map.2 ⟨e, he, rfl⟩))
      obtain ⟨l, hl, _, _⟩ := checkAliasing_ok hca
      obtain ⟨_, hat⟩ := leafPrefixes_ok_at hl
      obtain ⟨sts', hsts'⟩ := splitFlat_ok_of_at p
        ((ownedOf es (markOwn es seen).1).map (fun e => (e.path, e.info, (st.lookup e.id).getD default)))
        (by
          intro x hx
          obtain ⟨e, he, rfl⟩ := List.mem_map.1 hx
          obtain ⟨a, ha, _⟩ := hat e (ownedOf_subset _ _ e he)
          refine ⟨a, ?_⟩
          cases p with
          | ax a' => simpa [Prefix.at] using ha
          | sa s => simpa [Prefix.at] using ha)
      refine ⟨sts' :: r', mapX_cons_of_ok ?_ hr'⟩
      simp only [splitArgOut, GraphDef.owned, flatOf_of_total _ _ hown, hsts']

/-! ### sizes -/

theorem no_carry_axes {p : Prefix} (h : p.hasCarry = false) : ∀ a ∈ p.axes, a ≠ .carry := by
  intro a ha hc
  subst hc
  cases p with
  | ax a' =>
    simp only [Prefix.axes, List.mem_singleton] at ha
    subst ha
    simp [Prefix.hasCarry] at h
  | sa s =>
    simp only [Prefix.axes, List.mem_map] at ha
    obtain ⟨fa, hfa, he⟩ := ha
    simp only [Prefix.hasCarry, List.any_eq_false, decide_eq_true_eq] at h
    exact h fa hfa he

/-- a Variable or array argument is mapped -/
def HasMapped (pas : List (Prefix × Arg α)) (seen : List VarId) : Prop :=
  (∃ ep ∈ ownedAll pas seen, ∃ k, ep.2.at ep.1 = .ok (.axis k)) ∨ (∃ pa ∈ arrArgs pas, ∃ k, pa.1 = .ax (.axis k))

/-- **jax.vmap's size computation does not reject, and finds `n`**, when every mapped leaf has size `n` along its axis -/
theorem vmapDims_complete (store : Store α) (n : Nat) :
    ∀ (pas : List (Prefix × Arg α)) (np : NodePrefixes) (seen : List VarId) (pure : List (PureArg α)),
      toTree store pas np seen = .ok pure → (∀ pa ∈ pas, pa.1.hasCarry = false) →
      (∀ ep ∈ ownedAll pas seen, ∀ k, ep.2.at ep.1 = .ok (.axis k) →
        ∃ v, store.lookup ep.1.id = some v ∧ dimAt k v = .ok n) →
      (∀ pa ∈ arrArgs pas, (∃ k, pa.1 = .ax (.axis k) ∧ dimAt k pa.2 = .ok n) ∨ pa.1 = .ax .bcast) →
      ∃ dims, vmapDims pure = .ok dims ∧ ∀ d ∈ dims, d = n := by
  intro pas
  induction pas with
  | nil =>
    intro np seen pure ht _ _ _
    simp only [toTree] at ht; injection ht with ht; subst ht
    exact ⟨[], rfl, by simp⟩
  | cons pa rest ih =>
    intro np seen pure ht hnc hsz harr
    obtain ⟨p, arg⟩ := pa
    cases arg with
    | arr a =>
      obtain ⟨r, hr, rfl⟩ := toTree_arr_ok ht
      obtain ⟨dr, hdr, hall⟩ := ih np seen r hr (fun q hq => hnc q (List.mem_cons_of_mem _ hq))
        (by simpa [ownedAll] using hsz) (fun q hq => harr q (by simp [arrArgs, hq]))
      have hx : ∃ dx, argDims (.arr p a) = .ok dx ∧ ∀ d ∈ dx, d = n := by
        rcases harr (p, a) (by simp [arrArgs]) with ⟨k, hk, hd⟩ | hb
        · simp only [] at hk hd
          subst hk
          exact ⟨[n], by simp [argDims, hd, liftL], by simp⟩
        · simp only [] at hb
          subst hb
          exact ⟨[], rfl, by simp⟩
      obtain ⟨dx, hdx, hdxn⟩ := hx
      simp only [vmapDims] at hdr ⊢
      cases hm : mapX argDims r with
      | error e => simp [hm] at hdr
      | ok ds =>
        simp only [hm] at hdr
        injection hdr with hdr
        refine ⟨dx ++ dr, by simp [mapX, hdx, hm, hdr], ?_⟩
        intro d hd
        rcases List.mem_append.1 hd with h | h
        · exact hdxn d h
        · exact hall d h
    | node es =>
      obtain ⟨np', flat, sts, r, hca, hfl, hsp, hr, rfl⟩ := toTree_node_ok ht
      obtain ⟨dr, hdr, hall⟩ := ih np' _ r hr (fun q hq => hnc q (List.mem_cons_of_mem _ hq))
        (fun ep hep k hk => hsz ep (by simp only [ownedAll]; exact List.mem_append_right _ hep) k hk)
        (by simpa [arrArgs] using harr)
      obtain ⟨hlen, hmem, hlt⟩ := splitFlat_spec hsp
      obtain ⟨_, hfb⟩ := flatOf_eq_map hfl
      have hpc := no_carry_axes (hnc (p, .node es) (by simp))
      -- every state's sizes
      have hst : ∀ q ∈ p.axes.zip sts, ∃ ds, stateDims q.1 q.2 = .ok ds ∧ ∀ d ∈ ds, d = n := by
        intro q hq
        obtain ⟨a, s⟩ := q
        obtain ⟨g, hg1, hg2⟩ := mem_zip_iff.1 hq
        cases a with
        | carry => exact absurd rfl (hpc _ (List.mem_of_getElem? hg1))
        | bcast => exact ⟨[], rfl, by simp⟩
        | axis k =>
          have hleaf : ∀ pv ∈ s, liftL (dimAt k pv.2) = .ok n := by
            intro pv hpv
            obtain ⟨x, hx, he, hgx⟩ := (hmem g s hg2 pv).1 hpv
            obtain ⟨e, heo, hv, hp1, hp2⟩ := hfb x hx
            have hat : p.at e = .ok (.axis k) := by
              rw [prefix_at_eq_axAt, ← hp1, ← hp2]; simp only [axAt, hgx, hg1]
            obtain ⟨v, hv', hd⟩ := hsz (e, p)
              (by simp only [ownedAll]; exact List.mem_append_left _ (List.mem_map.2 ⟨e, heo, rfl⟩)) k hat
            simp only [] at hv'
            rw [hv] at hv'
            injection hv' with hv'
            subst he
            simp only []
            rw [hv', hd]; rfl
          refine ⟨s.map (fun _ => n), ?_, by intro d hd; obtain ⟨_, _, he⟩ := List.mem_map.1 hd; exact he.symm⟩
          simp only [stateDims]
          exact mapX_eq_map _ hleaf
      obtain ⟨dss, hdss⟩ := mapX_ok_of_forall (f := fun q => stateDims q.1 q.2) (p.axes.zip sts)
        (fun q hq => by obtain ⟨ds, h1, _⟩ := hst q hq; exact ⟨ds, h1⟩)
      have hdssn : ∀ d ∈ dss.flatten, d = n := by
        intro d hd
        obtain ⟨ds, hds, hdm⟩ := List.mem_flatten.1 hd
        obtain ⟨q, hq, hqe⟩ := mapX_ok_mem_rev hdss ds hds
        obtain ⟨ds', h1, h2⟩ := hst q hq
        rw [hqe] at h1
        injection h1 with h1
        exact h2 d (h1 ▸ hdm)
      simp only [vmapDims] at hdr ⊢
      cases hm : mapX argDims r with
      | error e => simp [hm] at hdr
      | ok ds =>
        simp only [hm] at hdr
        injection hdr with hdr
        have hxa : argDims (PureArg.node ⟨es, (markOwn es seen).1⟩ p sts) = .ok dss.flatten := by
          simp only [argDims, statesDims, hdss]
        refine ⟨dss.flatten ++ dr, by rw [mapX_cons_of_ok hxa hm]; simp [hdr], ?_⟩
        intro d hd
        rcases List.mem_append.1 hd with h | h
        · exact hdssn d h
        · exact hall d h

/-- every size jax.vmap looks at belongs to a mapped Variable or array argument -/
theorem vmapDims_nonempty_mapped (store : Store α) :
    ∀ (pas : List (Prefix × Arg α)) (np : NodePrefixes) (seen : List VarId) (pure : List (PureArg α)) (dims : List Nat),
      toTree store pas np seen = .ok pure → vmapDims pure = .ok dims → dims ≠ [] → HasMapped pas seen := by
  intro pas
  induction pas with
  | nil =>
    intro np seen pure dims ht hd hne
    simp only [toTree] at ht; injection ht with ht; subst ht
    simp [vmapDims, mapX] at hd
    first | exact absurd hd hne | exact absurd hd.symm hne
  | cons pa rest ih =>
    intro np seen pure dims ht hd hne
    obtain ⟨p, arg⟩ := pa
    cases arg with
    | arr a =>
      obtain ⟨r, hr, rfl⟩ := toTree_arr_ok ht
      obtain ⟨dx, dr, hx, hdr, rfl⟩ := vmapDims_cons hd
      by_cases hdx : dx = []
      · subst hdx
        rcases ih np seen r dr hr hdr (by simpa using hne) with ⟨ep, hep, k, hk⟩ | ⟨pa, hpa, k, hk⟩
        · exact Or.inl ⟨ep, by simpa [ownedAll] using hep, k, hk⟩
        · exact Or.inr ⟨pa, by simp [arrArgs, hpa], k, hk⟩
      · right
        cases p with
        | sa s => simp [argDims] at hx
        | ax ax =>
          cases ax with
          | carry => simp [argDims] at hx
          | bcast => simp only [argDims] at hx; injection hx with hx; first | exact absurd hx hdx | exact absurd hx.symm hdx
          | axis k => exact ⟨(.ax (.axis k), a), by simp [arrArgs], k, rfl⟩
    | node es =>
      obtain ⟨np', flat, sts, r, hca, hfl, hsp, hr, rfl⟩ := toTree_node_ok ht
      obtain ⟨dx, dr, hx, hdr, rfl⟩ := vmapDims_cons hd
      by_cases hdx : dx = []
      · subst hdx
        rcases ih np' _ r dr hr hdr (by simpa using hne) with ⟨ep, hep, k, hk⟩ | ⟨pa, hpa, k, hk⟩
        · exact Or.inl ⟨ep, by simp only [ownedAll]; exact List.mem_append_right _ hep, k, hk⟩
        · exact Or.inr ⟨pa, by simpa [arrArgs] using hpa, k, hk⟩
      · left
        obtain ⟨hlen, hmem, hlt⟩ := splitFlat_spec hsp
        obtain ⟨_, hfb⟩ := flatOf_eq_map hfl
        simp only [argDims, statesDims] at hx
        cases hm : mapX (fun q => stateDims q.1 q.2) (p.axes.zip sts) with
        | error e => simp [hm] at hx
        | ok dss =>
          simp only [hm] at hx
          injection hx with hx
          -- some state contributed a size
          have : ∃ ds ∈ dss, ds ≠ [] := by
            apply Classical.byContradiction
            intro hno
            apply hdx
            rw [← hx, List.flatten_eq_nil_iff]
            intro l hl
            exact Classical.byContradiction (fun h => hno ⟨l, hl, h⟩)
          obtain ⟨ds, hds, hdne⟩ := this
          obtain ⟨q, hq, hqe⟩ := mapX_ok_mem_rev hm ds hds
          obtain ⟨a, s⟩ := q
          obtain ⟨g, hg1, hg2⟩ := mem_zip_iff.1 hq
          cases a with
          | carry => simp [stateDims] at hqe
          | bcast => simp only [stateDims] at hqe; injection hqe with hqe; first | exact absurd hqe hdne | exact absurd hqe.symm hdne
          | axis k =>
            simp only [stateDims] at hqe
            cases s with
            | nil => simp [mapX] at hqe; first | exact absurd hqe hdne | exact absurd hqe.symm hdne
            | cons pv s' =>
              obtain ⟨x, hx', he, hgx⟩ := (hmem g (pv :: s') hg2 pv).1 (by simp)
              obtain ⟨e, heo, hv, hp1, hp2⟩ := hfb x hx'
              have hat : p.at e = .ok (.axis k) := by
                rw [prefix_at_eq_axAt, ← hp1, ← hp2]; simp only [axAt, hgx, hg1]
              exact ⟨(e, p), by simp only [ownedAll]; exact List.mem_append_left _ (List.mem_map.2 ⟨e, heo, rfl⟩),
                k, hat⟩

/-! ### putting the per-index states together -/

/-- **stacking the per-index states does not reject** when, Variable by Variable, the per-index values can be put
together (`collectVal`: `jnp.stack` accepts them) -/
theorem vmapCollectStates_complete {p : Prefix} (hpc : ∀ a ∈ p.axes, a ≠ .carry) {n0 : Flat α} {rest : List (Flat α)}
    (hnd : (n0.map (·.1)).Nodup)
    (hkeys : ∀ fl ∈ n0 :: rest, fl.map (fun x => (x.1, x.2.1)) = n0.map (fun x => (x.1, x.2.1)))
    {rows : List (List (State α))} (hrows : mapX (splitFlat p) (n0 :: rest) = .ok rows)
    (hitem : ∀ x ∈ n0, ∃ a vs v, axAt p x.1 x.2.1 = some a ∧
      mapX (fun fl => valAt fl x.1) (n0 :: rest) = .ok vs ∧ collectVal a vs = .ok v) :
    ∃ cs, vmapCollectStates p.axes rows = .ok cs := by
  have hm : ∀ row ∈ rows, row.length = p.axes.length := by
    intro row hr
    obtain ⟨fl, _, hfl⟩ := mapX_ok_mem_rev hrows row hr
    exact (splitFlat_spec hfl).1
  obtain ⟨row0, rowsR, hrow0, _, hre⟩ := mapX_cons_ok hrows
  obtain ⟨hlen0, hmem0, hlt0⟩ := splitFlat_spec hrow0
  simp only [vmapCollectStates]
  apply mapX_ok_of_forall
  intro q hq
  obtain ⟨g, a⟩ := q
  obtain ⟨j, hj1, hj2⟩ := mem_zip_iff.1 hq
  have hjl : j < p.axes.length := (List.getElem?_eq_some_iff.1 hj2).1
  have hgj : g = j := by
    rw [List.getElem?_range hjl] at hj1; exact (Option.some.inj hj1).symm
  subst hgj
  have hcol := column_getD g ([] : State α) rows (fun row hr => by rw [hm row hr]; exact hjl)
  simp only [hcol]
  have hg0 : g < row0.length := by omega
  have hhead : rows.map (fun row => row.getD g []) = row0[g] :: (rowsR.map (fun row => row.getD g [])) := by
    rw [hre]; simp [List.getD_eq_getElem?_getD, List.getElem?_eq_getElem hg0]
  cases a with
  | carry => exact absurd rfl (hpc _ (List.mem_of_getElem? hj2))
  | bcast => rw [hhead]; exact ⟨_, rfl⟩
  | axis k =>
    simp only [vmapCollectState]
    rw [hhead]
    simp only [stackStates]
    rw [← hhead]
    apply mapX_ok_of_forall
    intro pv hpv
    obtain ⟨y, hy, he, hgy⟩ := (hmem0 g _ (List.getElem?_eq_getElem hg0) pv).1 hpv
    subst he
    obtain ⟨hcv, vs, hvs⟩ := column_values hnd hkeys hrows hy (by rw [hgy]; exact hcol)
    obtain ⟨a', vs', v, ha', hvs', hv⟩ := hitem y hy
    rw [hvs] at hvs'
    injection hvs' with hvs'
    subst hvs'
    have haa : a' = .axis k := by
      simp only [axAt, hgy, hj2] at ha'
      exact (Option.some.inj ha').symm
    subst haa
    have hv0 : vs = y.2.2 :: vs.tail := by
      obtain ⟨a0, at', h0, _, rfl⟩ := mapX_cons_ok hvs
      rw [valAt_of_mem hnd hy] at h0
      injection h0 with h0
      rw [h0]; rfl
    have hst : liftL (stackAt k y.2.2.shape vs) = .ok v := by
      rw [hv0] at hv; simp only [collectVal] at hv; rw [← hv0] at hv; exact hv
    simp only []
    generalize hmm : mapX _ (rows.map (fun row => row.getD g [])) = m
    have hm' : m = .ok vs := hmm.symm.trans (hcv.trans hvs)
    subst hm'
    simp only [hst]
    exact ⟨_, rfl⟩

/-- per owned occurrence: from the reference's collected value to the item-level statement about the flat states -/
theorem collectEntry_item {p : Prefix} {owned : List Entry} (hndO : (owned.map (·.path)).Nodup)
    {sts : List (Store α)} {flats : List (Flat α)} (hflats : mapX (flatOf owned) sts = .ok flats)
    {vals : List (VarId × Arr α)} (hvals : mapX (collectEntry sts) (owned.map (fun e => (e, p))) = .ok vals)
    {n0 : Flat α} (hn0 : ∃ st, flatOf owned st = .ok n0) :
    ∀ x ∈ n0, ∃ a vs v, axAt p x.1 x.2.1 = some a ∧ mapX (fun fl => valAt fl x.1) flats = .ok vs ∧
      collectVal a vs = .ok v := by
  intro x hx
  obtain ⟨st, hst⟩ := hn0
  obtain ⟨_, hfb⟩ := flatOf_eq_map hst
  obtain ⟨e, he, _, hp1, hp2⟩ := hfb x hx
  rw [mapX_map] at hvals
  obtain ⟨y, hy, _⟩ := mapX_ok_mem hvals e he
  simp only [collectEntry] at hy
  cases hat : p.at e with
  | error err => simp [hat] at hy
  | ok a =>
    simp only [hat] at hy
    cases hg : mapX (fun (st : Store α) => st.getX e.id) sts with
    | error err => simp [hg] at hy
    | ok vs =>
      simp only [hg] at hy
      cases hc : collectVal a vs with
      | error err => simp [hc] at hy
      | ok v =>
        refine ⟨a, vs, v, ?_, ?_, hc⟩
        · rw [hp1, hp2]; exact (prefix_at_eq_axAt p e a).1 hat
        · rw [hp1, ← valAt_flats_eq_getX hndO he hflats]; exact hg

/-- **the write-back does not reject** when the reference's per-Variable collected values are defined -/
theorem vmapWriteBack_complete (store0 : Store α) :
    ∀ (pas : List (Prefix × Arg α)) (np : NodePrefixes) (seen : List VarId) (pure : List (PureArg α)),
      WFArgs pas → toTree store0 pas np seen = .ok pure → (∀ pa ∈ pas, pa.1.hasCarry = false) →
      ∀ (a0 : Store α) (arest : List (Store α)) (rows : List (List (List (State α)))) (vals : List (VarId × Arr α)),
        mapX (fun st => mapX (splitArgOut st) pure) (a0 :: arest) = .ok rows →
        mapX (collectEntry (a0 :: arest)) (ownedAll pas seen) = .ok vals →
        ∀ store, ∃ store', vmapWriteBack rows pure store = .ok store' := by
  intro pas
  induction pas with
  | nil =>
    intro np seen pure _ ht _ a0 arest rows vals _ _ store
    simp only [toTree] at ht; injection ht with ht; subst ht
    exact ⟨store, rfl⟩
  | cons pa rest ih =>
    intro np seen pure hwf ht hnc a0 arest rows vals hrows hvals store
    obtain ⟨p, arg⟩ := pa
    cases arg with
    | arr a =>
      obtain ⟨r, hr, rfl⟩ := toTree_arr_ok ht
      obtain ⟨heads, rows', _, e2, _, e4⟩ := rows_cons hrows
      simp only [vmapWriteBack, e4]
      exact ih np seen r (WFArgs_tail hwf) hr (fun q hq => hnc q (List.mem_cons_of_mem _ hq)) a0 arest rows' vals e2
        (by simpa [ownedAll] using hvals) store
    | node es =>
      obtain ⟨np', flat, sts, r, hca, hfl, hsp, hr, rfl⟩ := toTree_node_ok ht
      obtain ⟨heads, rows', e1, e2, e3, e4⟩ := rows_cons hrows
      simp only [ownedAll] at hvals
      obtain ⟨v1, v2, hv1, hv2, _⟩ := mapX_append_ok hvals
      simp only [splitArgOut_node, GraphDef.owned] at e1
      obtain ⟨flats, hflats, hheads⟩ := mapX_comp_ok e1
      obtain ⟨n0, frest, hn0, hfrest, rfl⟩ := mapX_cons_ok hflats
      have hes : (es.map (·.path)).Nodup := hwf (p, .node es) (by simp) es rfl
      have hndO := owned_paths_nodup (markOwn es seen).1 hes
      have hnd : (n0.map (·.1)).Nodup := by rw [flatOf_paths hn0]; exact hndO
      have hkeys : ∀ fl ∈ n0 :: frest, fl.map (fun x => (x.1, x.2.1)) = n0.map (fun x => (x.1, x.2.1)) := by
        intro fl hfl
        obtain ⟨st, _, hst⟩ := mapX_ok_mem_rev hflats fl hfl
        rw [flatOf_infos hst, flatOf_infos hn0]
      have hitem := collectEntry_item (p := p) hndO hflats hv1 ⟨a0, hn0⟩
      have hpc := no_carry_axes (hnc (p, .node es) (by simp))
      obtain ⟨cs, hcs⟩ := vmapCollectStates_complete hpc hnd hkeys hheads hitem
      have hlk := vmap_collect_lookup hnd hkeys hheads hcs
      obtain ⟨hfa, _⟩ := flatOf_eq_map hn0
      let w : Entry → Arr α := fun e => (cs.flatten.lookup e.path).getD default
      have hupd := updateStore_eq w cs.flatten (ownedOf es (markOwn es seen).1) store (by
        intro e he
        obtain ⟨v0, _, hm⟩ := hfa e he
        obtain ⟨a, vs, v, _, _, _, hl⟩ := hlk _ hm
        simp only [] at hl
        simp [w, hl])
      obtain ⟨store', hs'⟩ := ih np' _ r (WFArgs_tail hwf) hr (fun q hq => hnc q (List.mem_cons_of_mem _ hq)) a0 arest
        rows' v2 e2 hv2 ((ownedOf es (markOwn es seen).1).foldl (fun s e => s.set e.id (w e)) store)
      refine ⟨store', ?_⟩
      simp only [vmapWriteBack, e3, hcs, GraphDef.owned, hupd, e4]
      exact hs'

end comp

end Flax.NnxLoop
