/-
C04 helper lemmas (3): programs of the mutation DSL cannot tell isomorphic heaps apart.
Running a body on the caller's heap and on the heap of the traced function (related by an injective address
map `φ`) fails alike or succeeds alike, with related registers and heaps; the map is extended by the objects the
program creates.  Also: a program never changes the kind (class / Variable type and metadata) of an object.
-/
import Flax.Proofs.NnxRel

namespace Flax.Nnx
open Flax.Heap Flax.Graph

/-! ### association-list lemmas for `setattr` / `delattr` -/

theorem lookupKV_setKV (k k' : Key) (v : PVal) : ∀ (A : List (Key × PVal)),
    lookupKV k (setKV k' v A) = if k' = k ∧ (lookupKV k' A).isSome then some v else lookupKV k A
  | [] => by simp [setKV, lookupKV]
  | (k0, v0) :: rest => by
    simp only [setKV, lookupKV]
    by_cases e0 : k0 = k'
    · subst e0
      by_cases e1 : k0 = k
      · simp [lookupKV, e1]
      · simp [lookupKV, e1]
    · simp only [e0, if_false, lookupKV, lookupKV_setKV k k' v rest]
      by_cases e1 : k0 = k
      · subst e1
        have : ¬ (k' = k0) := fun e => e0 e.symm
        simp [this]
      · simp [e1]

theorem lookupKV_append (k : Key) : ∀ (A B : List (Key × PVal)),
    lookupKV k (A ++ B) = match lookupKV k A with | some v => some v | Option.none => lookupKV k B
  | [], B => by simp [lookupKV]
  | (k0, v0) :: rest, B => by
    simp only [List.cons_append, lookupKV]
    by_cases e : k0 = k
    · simp [e]
    · simp only [e, if_false]; exact lookupKV_append k rest B

theorem lookupKV_putKV (k k' : Key) (v : PVal) (A : List (Key × PVal)) :
    lookupKV k (putKV k' v A) = if k' = k then some v else lookupKV k A := by
  unfold putKV
  by_cases hs : (lookupKV k' A).isSome
  · simp only [hs, if_true, lookupKV_setKV]
    by_cases e : k' = k <;> simp [e]
  · simp only [hs, Bool.false_eq_true, if_false, lookupKV_append, lookupKV]
    by_cases e : k' = k
    · subst e
      have : lookupKV k' A = Option.none := by simpa using hs
      simp [this]
    · simp only [e, if_false]
      cases lookupKV k A <;> rfl

theorem lookupKV_eraseKV (k k' : Key) : ∀ (A : List (Key × PVal)),
    lookupKV k (eraseKV k' A) = if k' = k then Option.none else lookupKV k A
  | [] => by simp [eraseKV, lookupKV]
  | (k0, v0) :: rest => by
    have ih := lookupKV_eraseKV k k' rest
    simp only [eraseKV] at ih ⊢
    simp only [List.filter_cons]
    by_cases e0 : k0 = k'
    · subst e0
      simp only [decide_true, Bool.not_true, Bool.false_eq_true, if_false, ih, lookupKV]
      by_cases e1 : k0 = k <;> simp [e1]
    · simp only [e0, decide_false, Bool.not_false, if_true, lookupKV, ih]
      by_cases e1 : k0 = k
      · subst e1
        have : ¬ (k' = k0) := fun e => e0 e.symm
        simp [this]
      · simp [e1]

theorem attrsSim_put {φ : Addr → Option Addr} {A A' : List (Key × PVal)} (h : AttrsSim φ A A') (k : Key)
    {v v' : PVal} (hv : ValRel φ v v') : AttrsSim φ (putKV k v A) (putKV k v' A') := by
  intro k0
  rw [lookupKV_putKV, lookupKV_putKV]
  by_cases e : k = k0
  · simp only [e, if_true]; exact Or.inr ⟨v, v', rfl, rfl, hv⟩
  · simp only [e, if_false]; exact h k0

theorem attrsSim_erase {φ : Addr → Option Addr} {A A' : List (Key × PVal)} (h : AttrsSim φ A A') (k : Key) :
    AttrsSim φ (eraseKV k A) (eraseKV k A') := by
  intro k0
  rw [lookupKV_eraseKV, lookupKV_eraseKV]
  by_cases e : k = k0
  · simp only [e, if_true]; exact Or.inl ⟨rfl, rfl⟩
  · simp only [e, if_false]; exact h k0

/-! ### registers -/

theorem valsRel_get {φ : Addr → Option Addr} : ∀ {xs ys : List PVal}, ValsRel φ xs ys → ∀ (r : Nat),
    (xs[r]? = Option.none ∧ ys[r]? = Option.none) ∨ ∃ v w, xs[r]? = some v ∧ ys[r]? = some w ∧ ValRel φ v w
  | _, _, .nil, r => Or.inl ⟨by simp, by simp⟩
  | _, _, .cons (x := x) (y := y) hv ht, r => by
    cases r with
    | zero => exact Or.inr ⟨x, y, by simp, by simp, hv⟩
    | succ r => simpa using valsRel_get ht r

theorem valsRel_append {φ : Addr → Option Addr} : ∀ {xs ys xs' ys' : List PVal}, ValsRel φ xs ys → ValsRel φ xs' ys' →
    ValsRel φ (xs ++ xs') (ys ++ ys')
  | _, _, _, _, .nil, h2 => by simpa using h2
  | _, _, _, _, .cons hv ht, h2 => by simpa using ValsRel.cons hv (valsRel_append ht h2)

theorem valsRel_length {φ : Addr → Option Addr} : ∀ {xs ys : List PVal}, ValsRel φ xs ys → xs.length = ys.length
  | _, _, .nil => rfl
  | _, _, .cons _ ht => by simp [valsRel_length ht]

theorem eval_sim {φ : Addr → Option Addr} {env env' : List PVal} (he : ValsRel φ env env') :
    ∀ (e : DExpr), e.eval env = e.eval env'
  | .const c => rfl
  | .reg r => by
    simp only [DExpr.eval]
    rcases valsRel_get he r with ⟨h1, h2⟩ | ⟨v, w, h1, h2, hv⟩
    · rw [h1, h2]
    · rw [h1, h2]; cases hv <;> rfl
  | .add a b => by simp only [DExpr.eval, eval_sim he a, eval_sim he b]
  | .mul a b => by simp only [DExpr.eval, eval_sim he a, eval_sim he b]
  | .lt a b => by simp only [DExpr.eval, eval_sim he a, eval_sim he b]

/-! ### the joint relation of the two heaps -/

/-- `φ` relates every object of the inner heap `G` to exactly one object of the caller's heap `h` -/
structure Rel (φ : Addr → Option Addr) (h G : Heap) : Prop where
  inj : ∀ (a b c : Nat), φ a = some c → φ b = some c → a = b
  obj : ∀ (a b : Nat), φ a = some b → ∃ o o', h[a]? = some o ∧ G[b]? = some o' ∧ ObjSim φ o o'
  onto : ∀ (b : Nat), b < G.length → ∃ (a : Nat), φ a = some b

theorem Rel.dom {φ : Addr → Option Addr} {h G : Heap} (R : Rel φ h G) {a b : Nat} (hab : φ a = some b) :
    a < h.length ∧ b < G.length := by
  obtain ⟨o, o', h1, h2, _⟩ := R.obj a b hab
  exact ⟨(List.getElem?_eq_some_iff.mp h1).1, (List.getElem?_eq_some_iff.mp h2).1⟩

/-- overwriting a related pair of objects by related objects -/
theorem Rel.write {φ : Addr → Option Addr} {h G : Heap} (R : Rel φ h G) {a b : Nat} (hab : φ a = some b)
    {o o' : Obj} (hs : ObjSim φ o o') : Rel φ (write h a o) (write G b o') := by
  have hd := R.dom hab
  refine ⟨R.inj, ?_, fun b' hb' => R.onto b' (by simpa [write_length] using hb')⟩
  intro a2 b2 h2
  by_cases e : a2 = a
  · subst e
    have : b2 = b := by rw [hab] at h2; exact (Option.some.inj h2).symm
    subst this
    exact ⟨o, o', write_get _ _ _ hd.1, write_get _ _ _ hd.2, hs⟩
  · have hne : b2 ≠ b := fun eb => e (R.inj a2 a b (eb ▸ h2) hab)
    obtain ⟨o2, o2', g1, g2, g3⟩ := R.obj a2 b2 h2
    exact ⟨o2, o2', by rw [write_frame _ _ _ _ e]; exact g1, by rw [write_frame _ _ _ _ hne]; exact g2, g3⟩

/-- the address map extended by one pair of new objects -/
def extend (φ : Addr → Option Addr) (a b : Nat) : Addr → Option Addr := fun x => if x = a then some b else φ x

theorem extend_le {φ : Addr → Option Addr} {h G : Heap} (R : Rel φ h G) : PhiLe φ (extend φ h.length G.length) := by
  intro a b hab
  have := (R.dom hab).1
  simp only [extend]
  rw [if_neg (Nat.ne_of_lt this)]; exact hab

theorem extend_old {φ : Addr → Option Addr} (h G : Heap) (a : Nat) (ha : a < h.length) :
    extend φ h.length G.length a = φ a := by
  simp only [extend]; rw [if_neg (Nat.ne_of_lt ha)]

/-- allocating a related pair of new objects on both sides -/
theorem Rel.alloc {φ : Addr → Option Addr} {h G : Heap} (R : Rel φ h G) {o o' : Obj}
    (hs : ObjSim (extend φ h.length G.length) o o') :
    Rel (extend φ h.length G.length) (h ++ [o]) (G ++ [o']) := by
  refine ⟨?_, ?_, ?_⟩
  · intro a b c h1 h2
    simp only [extend] at h1 h2
    split at h1 <;> split at h2
    · next e1 e2 => exact e1.trans e2.symm
    · have e : G.length = c := Option.some.inj h1
      have := (R.dom h2).2; omega
    · have e : G.length = c := Option.some.inj h2
      have := (R.dom h1).2; omega
    · exact R.inj a b c h1 h2
  · intro a b hab
    simp only [extend] at hab
    split at hab
    · next e =>
      have : G.length = b := Option.some.inj hab
      subst this; subst e
      exact ⟨o, o', by simp, by simp, hs⟩
    · obtain ⟨o2, o2', g1, g2, g3⟩ := R.obj a b hab
      have hd := R.dom hab
      exact ⟨o2, o2', by rw [List.getElem?_append_left hd.1]; exact g1, by rw [List.getElem?_append_left hd.2]; exact g2,
        objSim_mono (extend_le R) g3⟩
  · intro b hb
    simp only [List.length_append, List.length_singleton] at hb
    by_cases e : b = G.length
    · exact ⟨h.length, by simp [extend, e]⟩
    · obtain ⟨a, ha⟩ := R.onto b (by omega)
      exact ⟨a, extend_le R a b ha⟩

/-- what a register holds, on both sides -/
theorem reg_cases {φ : Addr → Option Addr} {h G : Heap} {env env' : List PVal} (R : Rel φ h G)
    (he : ValsRel φ env env') (r : Nat) :
    (env[r]? = Option.none ∧ env'[r]? = Option.none) ∨
    (∃ v w, env[r]? = some v ∧ env'[r]? = some w ∧ ValRel φ v w ∧ (∀ a, v ≠ .ref a)) ∨
    (∃ (a b : Nat) (cls : String) (A A' : List (Key × PVal)), env[r]? = some (.ref a) ∧ env'[r]? = some (.ref b) ∧ φ a = some b ∧
        h[a]? = some (.node cls A) ∧ G[b]? = some (.node cls A') ∧ AttrsSim φ A A') ∨
    (∃ (a b : Nat) (ty : VType) (v : Data) (md : Meta), env[r]? = some (.ref a) ∧ env'[r]? = some (.ref b) ∧ φ a = some b ∧
        h[a]? = some (.var ty v md) ∧ G[b]? = some (.var ty v md)) := by
  rcases valsRel_get he r with h0 | ⟨v, w, h1, h2, hv⟩
  · exact Or.inl h0
  · cases hv with
    | static s => exact Or.inr (Or.inl ⟨_, _, h1, h2, .static s, by simp⟩)
    | array d => exact Or.inr (Or.inl ⟨_, _, h1, h2, .array d, by simp⟩)
    | none => exact Or.inr (Or.inl ⟨_, _, h1, h2, .none, by simp⟩)
    | seq hs => exact Or.inr (Or.inl ⟨_, _, h1, h2, .seq hs, by simp⟩)
    | dict hd => exact Or.inr (Or.inl ⟨_, _, h1, h2, .dict hd, by simp⟩)
    | ref hab =>
      rename_i a b
      obtain ⟨o, o', g1, g2, g3⟩ := R.obj a b hab
      cases g3 with
      | node hA => exact Or.inr (Or.inr (Or.inl ⟨a, b, _, _, _, h1, h2, hab, g1, g2, hA⟩))
      | var ty v md => exact Or.inr (Or.inr (Or.inr ⟨a, b, ty, v, md, h1, h2, hab, g1, g2⟩))

/-- the outcome of one step on both sides -/
def StepSim (φ : Addr → Option Addr) (h G : Heap) (x y : Except Err (Heap × List PVal)) : Prop :=
  (∃ e, x = .error e ∧ y = .error e) ∨
  ∃ h1 env1 G1 env1' φ', x = .ok (h1, env1) ∧ y = .ok (G1, env1') ∧ Rel φ' h1 G1 ∧ ValsRel φ' env1 env1' ∧
    PhiLe φ φ' ∧ (∀ (a : Nat), a < h.length → φ' a = φ a) ∧
    (∀ (a b : Nat), h.length ≤ a → φ' a = some b → G.length ≤ b) ∧ h.length ≤ h1.length

theorem stepSim_same {φ : Addr → Option Addr} {h G h1 G1 : Heap} {env1 env1' : List PVal}
    (R : Rel φ h1 G1) (he : ValsRel φ env1 env1') (hl : h.length ≤ h1.length)
    (hnew : ∀ (a b : Nat), h.length ≤ a → φ a = some b → G.length ≤ b) :
    StepSim φ h G (.ok (h1, env1)) (.ok (G1, env1')) :=
  Or.inr ⟨h1, env1, G1, env1', φ, rfl, rfl, R, he, PhiLe.refl φ, fun _ _ => rfl, hnew, hl⟩

/-- **one statement cannot tell the two heaps apart** -/
theorem runOp_sim {φ : Addr → Option Addr} {h G : Heap} {env env' : List PVal} (R : Rel φ h G)
    (he : ValsRel φ env env') (op : Op) : StepSim φ h G (runOp h env op) (runOp G env' op) := by
  have hnew0 : ∀ (a b : Nat), h.length ≤ a → φ a = some b → G.length ≤ b := fun a b ha hab => by
    have := (R.dom hab).1; omega
  cases op with
  | getAttr r k =>
    simp only [runOp]
    rcases reg_cases R he r with ⟨h1, h2⟩ | ⟨v, w, h1, h2, hv, hnr⟩ | ⟨a, b, cls, A, A', h1, h2, hab, g1, g2, hA⟩ |
        ⟨a, b, ty, v, md, h1, h2, hab, g1, g2⟩
    · exact Or.inl ⟨.badReg, by simp [h1], by simp [h2]⟩
    · rw [h1, h2]; cases hv <;> first | exact Or.inl ⟨.typeError, rfl, rfl⟩ | exact absurd rfl (hnr _)
    · simp only [h1, h2, g1, g2]
      rcases hA k with ⟨e1, e2⟩ | ⟨v, w, e1, e2, hv⟩
      · exact Or.inl ⟨.attrError, by simp [e1], by simp [e2]⟩
      · simp only [e1, e2]
        exact stepSim_same R (valsRel_append he (.cons hv .nil)) (Nat.le_refl _) hnew0
    · exact Or.inl ⟨.typeError, by simp [h1, g1], by simp [h2, g2]⟩
  | readVar r =>
    simp only [runOp]
    rcases reg_cases R he r with ⟨h1, h2⟩ | ⟨v, w, h1, h2, hv, hnr⟩ | ⟨a, b, cls, A, A', h1, h2, hab, g1, g2, hA⟩ |
        ⟨a, b, ty, v, md, h1, h2, hab, g1, g2⟩
    · exact Or.inl ⟨.badReg, by simp [h1], by simp [h2]⟩
    · rw [h1, h2]; cases hv <;> first | exact Or.inl ⟨.typeError, rfl, rfl⟩ | exact absurd rfl (hnr _)
    · exact Or.inl ⟨.typeError, by simp [h1, g1], by simp [h2, g2]⟩
    · simp only [h1, h2, g1, g2]
      exact stepSim_same R (valsRel_append he (.cons (.array v) .nil)) (Nat.le_refl _) hnew0
  | setVar r e =>
    simp only [runOp]
    rcases reg_cases R he r with ⟨h1, h2⟩ | ⟨v, w, h1, h2, hv, hnr⟩ | ⟨a, b, cls, A, A', h1, h2, hab, g1, g2, hA⟩ |
        ⟨a, b, ty, v, md, h1, h2, hab, g1, g2⟩
    · exact Or.inl ⟨.badReg, by simp [h1], by simp [h2]⟩
    · rw [h1, h2]; cases hv <;> first | exact Or.inl ⟨.typeError, rfl, rfl⟩ | exact absurd rfl (hnr _)
    · exact Or.inl ⟨.typeError, by simp [h1, g1], by simp [h2, g2]⟩
    · simp only [h1, h2, g1, g2, ← eval_sim he e]
      cases hev : e.eval env with
      | error er => exact Or.inl ⟨er, rfl, rfl⟩
      | ok d =>
        exact stepSim_same (R.write hab (.var ty d md)) he (by simp [write_length]) hnew0
  | setAttr r k src =>
    simp only [runOp]
    rcases reg_cases R he r with ⟨h1, h2⟩ | ⟨v, w, h1, h2, hv, hnr⟩ | ⟨a, b, cls, A, A', h1, h2, hab, g1, g2, hA⟩ |
        ⟨a, b, ty, v, md, h1, h2, hab, g1, g2⟩
    · exact Or.inl ⟨.badReg, by simp [h1], by simp [h2]⟩
    · rcases valsRel_get he src with ⟨s1, s2⟩ | ⟨sv, sw, s1, s2, hsv⟩
      · rw [h1, h2, s1, s2]; exact Or.inl ⟨.badReg, by cases hv <;> rfl, by cases hv <;> rfl⟩
      · rw [h1, h2, s1, s2]; cases hv <;> first | exact Or.inl ⟨.typeError, rfl, rfl⟩ | exact absurd rfl (hnr _)
    · rcases valsRel_get he src with ⟨s1, s2⟩ | ⟨sv, sw, s1, s2, hsv⟩
      · exact Or.inl ⟨.badReg, by simp [h1, s1], by simp [h2, s2]⟩
      · simp only [h1, h2, s1, s2, g1, g2]
        exact stepSim_same (R.write hab (.node (attrsSim_put hA k hsv))) he (by simp [write_length]) hnew0
    · rcases valsRel_get he src with ⟨s1, s2⟩ | ⟨sv, sw, s1, s2, hsv⟩
      · exact Or.inl ⟨.badReg, by simp [h1, s1], by simp [h2, s2]⟩
      · exact Or.inl ⟨.typeError, by simp [h1, s1, g1], by simp [h2, s2, g2]⟩
  | delAttr r k =>
    simp only [runOp]
    rcases reg_cases R he r with ⟨h1, h2⟩ | ⟨v, w, h1, h2, hv, hnr⟩ | ⟨a, b, cls, A, A', h1, h2, hab, g1, g2, hA⟩ |
        ⟨a, b, ty, v, md, h1, h2, hab, g1, g2⟩
    · exact Or.inl ⟨.badReg, by simp [h1], by simp [h2]⟩
    · rw [h1, h2]; cases hv <;> first | exact Or.inl ⟨.typeError, rfl, rfl⟩ | exact absurd rfl (hnr _)
    · simp only [h1, h2, g1, g2]
      rcases hA k with ⟨e1, e2⟩ | ⟨v, w, e1, e2, hv⟩
      · exact Or.inl ⟨.attrError, by simp [e1], by simp [e2]⟩
      · simp only [e1, e2, Option.isSome_some, if_true]
        exact stepSim_same (R.write hab (.node (attrsSim_erase hA k))) he (by simp [write_length]) hnew0
    · exact Or.inl ⟨.typeError, by simp [h1, g1], by simp [h2, g2]⟩
  | newNode cls =>
    simp only [runOp]
    refine Or.inr ⟨_, _, _, _, extend φ h.length G.length, rfl, rfl,
      R.alloc (.node (fun k => Or.inl ⟨rfl, rfl⟩)), ?_, extend_le R, fun a ha => extend_old h G a ha, ?_, by simp⟩
    · exact valsRel_append (ValsRel.mono (extend_le R) he) (.cons (.ref (by simp [extend])) .nil)
    · intro a b ha hab
      simp only [extend] at hab
      split at hab
      · have : G.length = b := Option.some.inj hab
        omega
      · exact hnew0 a b ha hab
  | newVar ty e md =>
    simp only [runOp, ← eval_sim he e]
    cases hev : e.eval env with
    | error er => exact Or.inl ⟨er, rfl, rfl⟩
    | ok d =>
      refine Or.inr ⟨_, _, _, _, extend φ h.length G.length, rfl, rfl,
        R.alloc (.var ty d md), ?_, extend_le R, fun a ha => extend_old h G a ha, ?_, by simp⟩
      · exact valsRel_append (ValsRel.mono (extend_le R) he) (.cons (.ref (by simp [extend])) .nil)
      · intro a b ha hab
        simp only [extend] at hab
        split at hab
        · have : G.length = b := Option.some.inj hab
          omega
        · exact hnew0 a b ha hab
  | litStatic s =>
    exact stepSim_same R (valsRel_append he (.cons (.static s) .nil)) (Nat.le_refl _) hnew0
  | litNone =>
    exact stepSim_same R (valsRel_append he (.cons .none .nil)) (Nat.le_refl _) hnew0
  | data e =>
    simp only [runOp, ← eval_sim he e]
    cases hev : e.eval env with
    | error er => exact Or.inl ⟨er, rfl, rfl⟩
    | ok d => exact stepSim_same R (valsRel_append he (.cons (.array d) .nil)) (Nat.le_refl _) hnew0

/-- **a whole body cannot tell the two heaps apart** -/
theorem runOps_sim : ∀ (ops : List Op) {φ : Addr → Option Addr} {h G : Heap} {env env' : List PVal},
    Rel φ h G → ValsRel φ env env' → StepSim φ h G (runOps ops h env) (runOps ops G env')
  | [], φ, h, G, env, env', R, he =>
    stepSim_same R he (Nat.le_refl _) (fun a b ha hab => by have := (R.dom hab).1; omega)
  | op :: rest, φ, h, G, env, env', R, he => by
    simp only [runOps]
    rcases runOp_sim R he op with ⟨e, h1, h2⟩ | ⟨h1, env1, G1, env1', φ1, e1, e2, R1, he1, le1, old1, new1, len1⟩
    · rw [h1, h2]; exact Or.inl ⟨e, rfl, rfl⟩
    · rw [e1, e2]
      rcases runOps_sim rest R1 he1 with ⟨e, g1, g2⟩ | ⟨h2, env2, G2, env2', φ2, f1, f2, R2, he2, le2, old2, new2, len2⟩
      · exact Or.inl ⟨e, g1, g2⟩
      · refine Or.inr ⟨h2, env2, G2, env2', φ2, f1, f2, R2, he2, le1.trans le2, ?_, ?_, by omega⟩
        · intro a ha; rw [old2 a (by omega), old1 a ha]
        · intro a b ha hab
          by_cases hlt : a < h1.length
          · rw [old2 a hlt] at hab
            exact new1 a b ha hab
          · have := new2 a b (by omega) hab
            -- the inner heap only grows
            have hG : G.length ≤ G1.length := by
              by_cases hg : G.length ≤ G1.length
              · exact hg
              · exfalso
                obtain ⟨a0, ha0⟩ := R.onto G1.length (by omega)
                have := (R1.dom (le1 a0 _ ha0)).2
                omega
            omega

theorem getRegs_sim {φ : Addr → Option Addr} {env env' : List PVal} (he : ValsRel φ env env') : ∀ (rs : List Nat),
    (∃ e, getRegs env rs = .error e ∧ getRegs env' rs = .error e) ∨
      ∃ vs vs', getRegs env rs = .ok vs ∧ getRegs env' rs = .ok vs' ∧ ValsRel φ vs vs'
  | [] => Or.inr ⟨[], [], rfl, rfl, .nil⟩
  | r :: rs => by
    simp only [getRegs]
    rcases valsRel_get he r with ⟨h1, h2⟩ | ⟨v, w, h1, h2, hv⟩
    · rw [h1, h2]; exact Or.inl ⟨.badReg, rfl, rfl⟩
    · rw [h1, h2]
      rcases getRegs_sim he rs with ⟨e, g1, g2⟩ | ⟨vs, vs', g1, g2, hvs⟩
      · rw [g1, g2]; exact Or.inl ⟨e, rfl, rfl⟩
      · rw [g1, g2]; exact Or.inr ⟨_, _, rfl, rfl, .cons hv hvs⟩

/-- the outcome of a call `f(*args)` on both sides -/
def CallSim (φ : Addr → Option Addr) (h G : Heap) (x y : Except Err (List PVal × Heap)) : Prop :=
  (∃ e, x = .error e ∧ y = .error e) ∨
  ∃ rets h1 rets' G1 φ', x = .ok (rets, h1) ∧ y = .ok (rets', G1) ∧ Rel φ' h1 G1 ∧ ValsRel φ' rets rets' ∧
    PhiLe φ φ' ∧ (∀ (a : Nat), a < h.length → φ' a = φ a) ∧
    (∀ (a b : Nat), h.length ≤ a → φ' a = some b → G.length ≤ b) ∧ h.length ≤ h1.length

/-- **a function call cannot tell the two heaps apart** -/
theorem runFn_sim (f : Fn) {φ : Addr → Option Addr} {h G : Heap} {args args' : List PVal}
    (R : Rel φ h G) (ha : ValsRel φ args args') : CallSim φ h G (runFn f h args) (runFn f G args') := by
  unfold runFn
  rcases runOps_sim f.body R ha with ⟨e, h1, h2⟩ | ⟨h1, env1, G1, env1', φ1, e1, e2, R1, he1, le1, old1, new1, len1⟩
  · rw [h1, h2]; exact Or.inl ⟨e, rfl, rfl⟩
  · rw [e1, e2]
    rcases getRegs_sim he1 f.ret with ⟨e, g1, g2⟩ | ⟨vs, vs', g1, g2, hvs⟩
    · simp only [g1, g2]; exact Or.inl ⟨e, rfl, rfl⟩
    · simp only [g1, g2]
      exact Or.inr ⟨vs, h1, vs', G1, φ1, rfl, rfl, R1, hvs, le1, old1, new1, len1⟩

/-! ### kinds never change -/

/-- what no statement can change about an object -/
inductive Kind where
  | node (cls : String)
  | var (ty : VType) (md : Meta)
  deriving DecidableEq

def kindOf : Obj → Kind
  | .node cls _ => .node cls
  | .var ty _ md => .var ty md

/-- every object of `h` is still there in `h'`, with the same class / Variable type and metadata -/
def KindPres (h h' : Heap) : Prop :=
  h.length ≤ h'.length ∧ ∀ (a : Nat), a < h.length → (h'[a]?).map kindOf = (h[a]?).map kindOf

theorem KindPres.refl (h : Heap) : KindPres h h := ⟨Nat.le_refl _, fun _ _ => rfl⟩

theorem KindPres.trans {a b c : Heap} (h1 : KindPres a b) (h2 : KindPres b c) : KindPres a c :=
  ⟨Nat.le_trans h1.1 h2.1, fun x hx => by rw [h2.2 x (by have := h1.1; omega), h1.2 x hx]⟩

theorem kindPres_write {h : Heap} {a : Nat} {o0 o : Obj} (h0 : h[a]? = some o0) (hk : kindOf o = kindOf o0) :
    KindPres h (write h a o) := by
  refine ⟨by simp [write_length], fun x hx => ?_⟩
  by_cases e : x = a
  · subst e
    rw [write_get _ _ _ hx, h0]; simp [hk]
  · rw [write_frame _ _ _ _ e]

theorem kindPres_append (h : Heap) (o : Obj) : KindPres h (h ++ [o]) :=
  ⟨by simp, fun x hx => by rw [List.getElem?_append_left hx]⟩

theorem runOp_kind {h : Heap} {env : List PVal} {op : Op} {h1 : Heap} {env1 : List PVal}
    (hr : runOp h env op = .ok (h1, env1)) : KindPres h h1 := by
  cases op with
  | getAttr r k =>
    simp only [runOp] at hr
    split at hr <;> try cases hr
    split at hr <;> try cases hr
    split at hr <;> try cases hr
    exact KindPres.refl _
  | readVar r =>
    simp only [runOp] at hr
    split at hr <;> try cases hr
    split at hr <;> try cases hr
    exact KindPres.refl _
  | setVar r e =>
    simp only [runOp] at hr
    split at hr <;> try cases hr
    split at hr <;> try cases hr
    next a _ ty v md hg =>
    split at hr <;> try cases hr
    exact kindPres_write hg rfl
  | setAttr r k src =>
    simp only [runOp] at hr
    split at hr <;> try cases hr
    split at hr <;> try cases hr
    next cls attrs hg => exact kindPres_write hg rfl
  | delAttr r k =>
    simp only [runOp] at hr
    split at hr <;> try cases hr
    split at hr <;> try cases hr
    next cls attrs hg =>
    split at hr <;> try cases hr
    exact kindPres_write hg rfl
  | newNode cls =>
    simp only [runOp] at hr; cases hr
    exact kindPres_append _ _
  | newVar ty e md =>
    simp only [runOp] at hr
    split at hr <;> try cases hr
    exact kindPres_append _ _
  | litStatic s => simp only [runOp] at hr; cases hr; exact KindPres.refl _
  | litNone => simp only [runOp] at hr; cases hr; exact KindPres.refl _
  | data e =>
    simp only [runOp] at hr
    split at hr <;> try cases hr
    exact KindPres.refl _

theorem runOps_kind : ∀ (ops : List Op) {h : Heap} {env : List PVal} {h1 : Heap} {env1 : List PVal},
    runOps ops h env = .ok (h1, env1) → KindPres h h1
  | [], h, env, h1, env1, hr => by simp [runOps] at hr; rw [hr.1]; exact KindPres.refl _
  | op :: rest, h, env, h1, env1, hr => by
    simp only [runOps] at hr
    split at hr
    · cases hr
    · next h2 env2 he => exact (runOp_kind he).trans (runOps_kind rest hr)

theorem runFn_kind {f : Fn} {h : Heap} {args rets : List PVal} {h1 : Heap} (hr : runFn f h args = .ok (rets, h1)) :
    KindPres h h1 := by
  unfold runFn at hr
  split at hr
  · cases hr
  · next h2 env2 he =>
    split at hr
    · cases hr
    · simp at hr; rw [← hr.2]; exact runOps_kind _ he


/-! ### `vars(obj)` keeps distinct keys -/

/-- every attribute dictionary in the heap has pairwise distinct keys (a fact about Python dicts) -/
def AttrsNodup (h : Heap) : Prop :=
  ∀ (a : Nat) (cls : String) (attrs : List (Key × PVal)), h[a]? = some (.node cls attrs) → keysNodup attrs

theorem lookupKV_isSome_iff {k : Key} : ∀ {l : List (Key × PVal)}, (lookupKV k l).isSome = true ↔ k ∈ l.map (·.1)
  | [] => by simp [lookupKV]
  | (k0, v0) :: rest => by
    simp only [lookupKV, List.map_cons, List.mem_cons]
    by_cases e : k0 = k
    · simp [e]
    · simp only [e, if_false, lookupKV_isSome_iff (l := rest)]
      constructor
      · exact Or.inr
      · rintro (h | h)
        · exact absurd h.symm e
        · exact h

theorem map_fst_setKV (k : Key) (v : PVal) : ∀ (l : List (Key × PVal)), (setKV k v l).map (·.1) = l.map (·.1)
  | [] => rfl
  | (k0, v0) :: rest => by
    simp only [setKV]
    by_cases e : k0 = k
    · simp [e]
    · simp [e, map_fst_setKV k v rest]

theorem keysNodup_putKV {k : Key} {v : PVal} {l : List (Key × PVal)} (h : keysNodup l) : keysNodup (putKV k v l) := by
  unfold putKV keysNodup at *
  by_cases hs : (lookupKV k l).isSome
  · simp only [hs, if_true, map_fst_setKV]; exact h
  · simp only [hs, Bool.false_eq_true, if_false, List.map_append, List.map_cons, List.map_nil]
    have : k ∉ l.map (·.1) := fun hm => hs (lookupKV_isSome_iff.mpr hm)
    exact List.nodup_append.mpr ⟨h, by simp, by intro x hx y hy; simp at hy; subst hy; exact fun e => this (e ▸ hx)⟩

theorem keysNodup_eraseKV {k : Key} {l : List (Key × PVal)} (h : keysNodup l) : keysNodup (eraseKV k l) := by
  unfold eraseKV keysNodup at *
  exact List.Nodup.sublist (List.Sublist.map _ List.filter_sublist) h

theorem attrsNodup_write {h : Heap} (n : AttrsNodup h) {a : Nat} {o : Obj}
    (ho : ∀ cls attrs, o = .node cls attrs → keysNodup attrs) : AttrsNodup (write h a o) := by
  intro b cls attrs hb
  by_cases e : b = a
  · subst e
    by_cases hlt : b < h.length
    · rw [write_get _ _ _ hlt] at hb
      exact ho cls attrs (Option.some.inj hb)
    · simp [write, List.getElem?_eq_none (show (h.set b o).length ≤ b by simp; omega)] at hb
  · rw [write_frame _ _ _ _ e] at hb
    exact n b cls attrs hb

theorem attrsNodup_append {h : Heap} (n : AttrsNodup h) {o : Obj}
    (ho : ∀ cls attrs, o = .node cls attrs → keysNodup attrs) : AttrsNodup (h ++ [o]) := by
  intro b cls attrs hb
  by_cases hlt : b < h.length
  · rw [List.getElem?_append_left hlt] at hb; exact n b cls attrs hb
  · by_cases e : b = h.length
    · subst e; simp at hb; exact ho cls attrs hb
    · rw [List.getElem?_eq_none (by simp; omega)] at hb; cases hb

theorem runOp_nodup {h : Heap} {env : List PVal} {op : Op} {h1 : Heap} {env1 : List PVal} (n : AttrsNodup h)
    (hr : runOp h env op = .ok (h1, env1)) : AttrsNodup h1 := by
  cases op with
  | getAttr r k =>
    simp only [runOp] at hr
    split at hr <;> try cases hr
    split at hr <;> try cases hr
    split at hr <;> try cases hr
    exact n
  | readVar r =>
    simp only [runOp] at hr
    split at hr <;> try cases hr
    split at hr <;> try cases hr
    exact n
  | setVar r e =>
    simp only [runOp] at hr
    split at hr <;> try cases hr
    split at hr <;> try cases hr
    split at hr <;> try cases hr
    exact attrsNodup_write n (fun cls attrs he => by cases he)
  | setAttr r k src =>
    simp only [runOp] at hr
    split at hr <;> try cases hr
    split at hr <;> try cases hr
    next cls attrs hg =>
    exact attrsNodup_write n (fun cls' attrs' he => by
      cases he; exact keysNodup_putKV (n _ _ _ hg))
  | delAttr r k =>
    simp only [runOp] at hr
    split at hr <;> try cases hr
    split at hr <;> try cases hr
    next cls attrs hg =>
    split at hr <;> try cases hr
    exact attrsNodup_write n (fun cls' attrs' he => by
      cases he; exact keysNodup_eraseKV (n _ _ _ hg))
  | newNode cls =>
    simp only [runOp] at hr; cases hr
    exact attrsNodup_append n (fun cls' attrs' he => by cases he; simp [keysNodup])
  | newVar ty e md =>
    simp only [runOp] at hr
    split at hr <;> try cases hr
    exact attrsNodup_append n (fun cls' attrs' he => by cases he)
  | litStatic s => simp only [runOp] at hr; cases hr; exact n
  | litNone => simp only [runOp] at hr; cases hr; exact n
  | data e =>
    simp only [runOp] at hr
    split at hr <;> try cases hr
    exact n

theorem runOps_nodup : ∀ (ops : List Op) {h : Heap} {env : List PVal} {h1 : Heap} {env1 : List PVal},
    AttrsNodup h → runOps ops h env = .ok (h1, env1) → AttrsNodup h1
  | [], h, env, h1, env1, n, hr => by simp [runOps] at hr; rw [← hr.1]; exact n
  | op :: rest, h, env, h1, env1, n, hr => by
    simp only [runOps] at hr
    split at hr
    · cases hr
    · next h2 env2 he => exact runOps_nodup rest (runOp_nodup n he) hr

theorem runFn_nodup {f : Fn} {h : Heap} {args rets : List PVal} {h1 : Heap} (n : AttrsNodup h)
    (hr : runFn f h args = .ok (rets, h1)) : AttrsNodup h1 := by
  unfold runFn at hr
  split at hr
  · cases hr
  · next h2 env2 he =>
    split at hr
    · cases hr
    · simp at hr; rw [← hr.2]; exact runOps_nodup _ n he

end Flax.Nnx
