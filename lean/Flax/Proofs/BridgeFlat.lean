/-
Helper lemmas for C18: flatten / unflatten / flat merge / recursive merge, in terms of `leafAtF`.
-/
import Flax.Proofs.Bridge

namespace Flax.Bridge
variable {β γ : Type}

/-! ## unflatten -/

/-- no path of the flat dict is a proper prefix of another one -/
def PrefixFree (l : List (Path × β)) : Prop :=
  ∀ pb ∈ l, ∀ pb' ∈ l, pb.1 <+: pb'.1 → pb.1 = pb'.1

/-- a path has one value -/
def Functional (l : List (Path × β)) : Prop :=
  ∀ pb ∈ l, ∀ pb' ∈ l, pb.1 = pb'.1 → pb.2 = pb'.2

theorem foldInsert_spec : ∀ (flat : List (Path × β)) (g0 : Forest β),
    (∀ pb ∈ flat, pb.1 ≠ []) → PrefixFree flat → Functional flat →
    (∀ pb ∈ flat, ∀ q, leafAtF g0 q ≠ none → (q <+: pb.1 ∨ pb.1 <+: q) → q = pb.1) →
    ∃ g, flat.foldlM (fun f pb => insertF f pb.1 pb.2) g0 = .ok g ∧
      (∀ pb ∈ flat, leafAtF g pb.1 = some pb.2) ∧
      (∀ q, (∀ pb ∈ flat, pb.1 ≠ q) → leafAtF g q = leafAtF g0 q) ∧
      (WFF g0 → WFF g) ∧ (NoEmptyF g0 → NoEmptyF g) := by
  intro flat
  induction flat with
  | nil => intro g0 _ _ _ _; exact ⟨g0, rfl, by simp, by simp, id, id⟩
  | cons hd rest ih =>
    intro g0 hne hpf hfun hcomp
    obtain ⟨p, b⟩ := hd
    have hpne : p ≠ [] := hne (p, b) (by simp)
    obtain ⟨g1, hins, hat, hbelow, hother, hwf1, hne1, _⟩ := insertF_spec p g0 b hpne (by
      intro q hq hqne
      by_cases h : leafAtF g0 q = none
      · exact h
      · exact absurd (hcomp (p, b) (by simp) q h (Or.inl hq)) hqne)
    have hpf' : PrefixFree rest := fun a ha a' ha' => hpf a (by simp [ha]) a' (by simp [ha'])
    have hfun' : Functional rest := fun a ha a' ha' => hfun a (by simp [ha]) a' (by simp [ha'])
    obtain ⟨g, hfold, hmem, hnot, hwf, hne2⟩ := ih g1 (fun pb h => hne pb (by simp [h])) hpf' hfun' (by
      intro pb hpb q hq hcmp
      by_cases hpq : p <+: q
      · by_cases hqp : q = p
        · subst hqp
          rcases hcmp with h | h
          · exact hpf (q, b) (by simp) pb (by simp [hpb]) h
          · exact (hpf pb (by simp [hpb]) (q, b) (by simp) h).symm
        · exact absurd (hbelow q hpq hqp) hq
      · rw [hother q hpq] at hq
        exact hcomp pb (by simp [hpb]) q hq hcmp)
    refine ⟨g, ?_, ?_, ?_, fun h => hwf (hwf1 h), fun h => hne2 (hne1 h)⟩
    · simp only [List.foldlM_cons, hins]; exact hfold
    · intro pb hpb
      rcases List.mem_cons.mp hpb with rfl | hpb
      · by_cases hex : ∃ pb' ∈ rest, pb'.1 = p
        · obtain ⟨pb', hpb', he⟩ := hex
          have := hmem pb' hpb'
          rw [he] at this
          rw [this, hfun pb' (by simp [hpb']) (p, b) (by simp) he]
        · have hall : ∀ pb' ∈ rest, pb'.1 ≠ p := fun pb' h e => hex ⟨pb', h, e⟩
          show leafAtF g p = some b
          rw [hnot p hall, hat]
      · exact hmem pb hpb
    · intro q hq
      rw [hnot q (fun pb h => hq pb (by simp [h]))]
      have hqp : q ≠ p := fun e => hq (p, b) (by simp) e.symm
      by_cases hpq : p <+: q
      · rw [hbelow q hpq hqp]
        by_cases h0 : leafAtF g0 q = none
        · exact h0.symm
        · exact absurd (hcomp (p, b) (by simp) q h0 (Or.inr hpq)) hqp
      · exact hother q hpq

/-- `unflatten_mapping` of a flat dict with non-empty, prefix-free paths: succeeds, and the result
has exactly the leaves of the flat dict -/
theorem unflatten_spec (flat : List (Path × β)) (hne : ∀ pb ∈ flat, pb.1 ≠ []) (hpf : PrefixFree flat)
    (hfun : Functional flat) :
    ∃ g, unflatten flat = .ok g ∧ (∀ q b, leafAtF g q = some b ↔ (q, b) ∈ flat) ∧ WFF g ∧ NoEmptyF g := by
  obtain ⟨g, h1, h2, h3, h4, h5⟩ := foldInsert_spec flat [] hne hpf hfun (by simp)
  refine ⟨g, h1, ?_, h4 (by simp [WFF]), h5 (by simp [NoEmptyF])⟩
  intro q b
  constructor
  · intro h
    by_cases hex : ∃ pb ∈ flat, pb.1 = q
    · obtain ⟨pb, hpb, rfl⟩ := hex
      have := h2 pb hpb
      rw [h] at this
      cases this
      exact hpb
    · rw [h3 q (fun pb hp e => hex ⟨pb, hp, e⟩)] at h
      simp at h
  · intro h; exact h2 (q, b) h

/-! ## flatten -/

mutual
  theorem Tree.flatten_sound : ∀ (t : Tree β) (q : Path) (b : β), (q, b) ∈ t.flatten → t.WF → t.leafAt q = some b
    | .leaf b0, q, b, h, _ => by
      simp only [Tree.flatten, List.mem_singleton, Prod.mk.injEq] at h
      obtain ⟨rfl, rfl⟩ := h; rfl
    | .node f, q, b, h, hw => by
      simp only [Tree.flatten] at h
      exact flattenF_sound f q b h (by simpa [Tree.WF] using hw)
  theorem flattenF_sound : ∀ (f : Forest β) (q : Path) (b : β), (q, b) ∈ flattenF f → WFF f → leafAtF f q = some b
    | [], q, b, h, _ => by simp [flattenF] at h
    | (k, t) :: r, q, b, h, hw => by
      simp only [WFF] at hw
      simp only [flattenF, List.mem_append, List.mem_map] at h
      rcases h with ⟨⟨q', b'⟩, hm, he⟩ | h
      · simp only [Prod.mk.injEq] at he
        obtain ⟨rfl, rfl⟩ := he
        have := Tree.flatten_sound t q' b' hm hw.2.1
        simp [leafAtF_cons, dget_cons, this]
      · have ih := flattenF_sound r q b h hw.2.2
        cases q with
        | nil => simp at ih
        | cons k' q' =>
          have hk : k' ≠ k := by
            intro e; subst e
            rw [leafAtF_cons] at ih
            have : dget r k' = none := (dget_eq_none_iff r k').mpr hw.1
            rw [this] at ih; simp at ih
          rw [leafAtF_cons, dget_cons]
          simp only [hk, ↓reduceIte]
          rw [← leafAtF_cons]; exact ih
end

mutual
  theorem Tree.flatten_complete : ∀ (t : Tree β) (q : Path) (b : β), t.leafAt q = some b → (q, b) ∈ t.flatten
    | .leaf b0, q, b, h => by
      rw [Tree.leafAt_leaf] at h
      split at h
      · rename_i hq; subst hq; cases h; simp [Tree.flatten]
      · simp at h
    | .node f, q, b, h => by
      simp only [Tree.flatten]
      exact flattenF_complete f q b (by simpa using h)
  theorem flattenF_complete : ∀ (f : Forest β) (q : Path) (b : β), leafAtF f q = some b → (q, b) ∈ flattenF f
    | [], q, b, h => by simp at h
    | (k, t) :: r, q, b, h => by
      cases q with
      | nil => simp at h
      | cons k' q' =>
        rw [leafAtF_cons, dget_cons] at h
        simp only [flattenF, List.mem_append, List.mem_map]
        by_cases hk : k' = k
        · subst hk
          simp only [↓reduceIte] at h
          exact Or.inl ⟨(q', b), Tree.flatten_complete t q' b h, rfl⟩
        · simp only [hk, ↓reduceIte] at h
          rw [← leafAtF_cons] at h
          exact Or.inr (flattenF_complete r (k' :: q') b h)
end

/-- the flat dict of a nested dict lists exactly its leaves -/
theorem flattenF_mem (f : Forest β) (hf : WFF f) (q : Path) (b : β) :
    (q, b) ∈ flattenF f ↔ leafAtF f q = some b :=
  ⟨fun h => flattenF_sound f q b h hf, flattenF_complete f q b⟩

theorem flattenF_path_ne_nil (f : Forest β) : ∀ pb ∈ flattenF f, pb.1 ≠ [] := by
  induction f with
  | nil => simp [flattenF]
  | cons kt r ih =>
    obtain ⟨k, t⟩ := kt
    intro pb h
    simp only [flattenF, List.mem_append, List.mem_map] at h
    rcases h with ⟨pb', _, rfl⟩ | h
    · simp
    · exact ih pb h

theorem flattenF_head_mem (f : Forest β) : ∀ pb ∈ flattenF f, ∃ k q, pb.1 = k :: q ∧ k ∈ dkeys f := by
  induction f with
  | nil => simp [flattenF]
  | cons kt r ih =>
    obtain ⟨k, t⟩ := kt
    intro pb h
    simp only [flattenF, List.mem_append, List.mem_map] at h
    rcases h with ⟨pb', _, rfl⟩ | h
    · exact ⟨k, pb'.1, rfl, by simp⟩
    · obtain ⟨k', q, h1, h2⟩ := ih pb h
      exact ⟨k', q, h1, by simp [h2]⟩

mutual
  theorem Tree.flatten_nodup : ∀ (t : Tree β), t.WF → (paths t.flatten).Nodup
    | .leaf b0, _ => by simp [Tree.flatten, paths]
    | .node f, hw => by
      simp only [Tree.flatten]
      exact flattenF_nodup f (by simpa [Tree.WF] using hw)
  theorem flattenF_nodup : ∀ (f : Forest β), WFF f → (paths (flattenF f)).Nodup
    | [], _ => by simp [flattenF, paths]
    | (k, t) :: r, hw => by
      simp only [WFF] at hw
      have h1 := Tree.flatten_nodup t hw.2.1
      have h2 := flattenF_nodup r hw.2.2
      simp only [flattenF, paths, List.map_append, List.map_map]
      rw [List.nodup_append]
      refine ⟨?_, h2, ?_⟩
      · have : (List.map (Prod.fst ∘ fun pb : Path × β => (k :: pb.1, pb.2)) t.flatten)
            = (paths t.flatten).map (fun q => k :: q) := by
          simp [paths, List.map_map, Function.comp_def]
        rw [this]
        exact List.Pairwise.map (fun q => k :: q) (fun a b h => by simpa using h) h1
      · intro a ha b hb
        simp only [List.mem_map, Function.comp_apply] at ha
        obtain ⟨pa, _, rfl⟩ := ha
        obtain ⟨pb, hpb, rfl⟩ := List.mem_map.mp hb
        obtain ⟨k', q, h3, h4⟩ := flattenF_head_mem r pb hpb
        intro e
        rw [h3] at e
        simp only [List.cons.injEq] at e
        exact hw.1 (e.1 ▸ h4)
end

theorem functional_of_nodup (l : List (Path × β)) (h : (paths l).Nodup) : Functional l := by
  induction l with
  | nil => intro pb h; simp at h
  | cons hd r ih =>
    simp only [paths, List.map_cons, List.nodup_cons] at h
    intro pb hpb pb' hpb' e
    rcases List.mem_cons.mp hpb with rfl | h1 <;> rcases List.mem_cons.mp hpb' with rfl | h2
    · rfl
    · exact absurd (List.mem_map.mpr ⟨pb', h2, e.symm⟩) h.1
    · exact absurd (List.mem_map.mpr ⟨pb, h1, e⟩) h.1
    · exact ih h.2 pb h1 pb' h2 e

theorem flattenF_prefixFree (f : Forest β) (hf : WFF f) : PrefixFree (flattenF f) := by
  intro pb hpb pb' hpb' hp
  have h1 := flattenF_sound f pb.1 pb.2 hpb hf
  have h2 := flattenF_sound f pb'.1 pb'.2 hpb' hf
  exact leafAtF_prefix_eq f _ _ (by simp [h1]) (by simp [h2]) hp

/-- `unflatten_mapping(flatten_mapping(f))` has the leaves of `f` -/
theorem unflatten_flatten (f : Forest β) (hf : WFF f) :
    ∃ g, unflatten (flattenF f) = .ok g ∧ Equiv g f ∧ WFF g ∧ NoEmptyF g := by
  obtain ⟨g, h1, h2, h3, h4⟩ := unflatten_spec (flattenF f) (flattenF_path_ne_nil f)
    (flattenF_prefixFree f hf) (functional_of_nodup _ (flattenF_nodup f hf))
  refine ⟨g, h1, ?_, h3, h4⟩
  intro q
  cases h : leafAtF f q with
  | some b => exact (h2 q b).mpr ((flattenF_mem f hf q b).mpr h)
  | none =>
    cases h' : leafAtF g q with
    | none => rfl
    | some b => rw [← h, (flattenF_mem f hf q b).mp ((h2 q b).mp h')]

/-! ## flat merge (`dict.update`) -/

theorem paths_setFlat (a : List (Path × β)) (p : Path) (w : β) :
    paths (setFlat a p w) = if p ∈ paths a then paths a else paths a ++ [p] := by
  induction a with
  | nil => simp [setFlat, paths]
  | cons hd r ih =>
    obtain ⟨q, v⟩ := hd
    unfold setFlat
    by_cases h : p = q
    · subst h; simp [paths]
    · simp only [h, ↓reduceIte]
      simp only [paths, List.map_cons, List.mem_cons, h, false_or] at ih ⊢
      rw [ih]; split <;> simp [*]

theorem nodup_setFlat (a : List (Path × β)) (p : Path) (w : β) (h : (paths a).Nodup) :
    (paths (setFlat a p w)).Nodup := by
  rw [paths_setFlat]
  split
  · exact h
  · rename_i hp
    rw [List.nodup_append]
    exact ⟨h, by simp, by intro x hx y hy; simp at hy; subst hy; intro e; exact hp (e ▸ hx)⟩

theorem mem_setFlat (a : List (Path × β)) (p : Path) (w : β) (h : (paths a).Nodup) (q : Path) (v : β) :
    (q, v) ∈ setFlat a p w ↔ (q = p ∧ v = w) ∨ (q ≠ p ∧ (q, v) ∈ a) := by
  induction a with
  | nil => simp [setFlat]
  | cons hd r ih =>
    obtain ⟨q0, v0⟩ := hd
    simp only [paths, List.map_cons, List.nodup_cons] at h
    unfold setFlat
    by_cases hp : p = q0
    · subst hp
      simp only [↓reduceIte, List.mem_cons, Prod.mk.injEq]
      constructor
      · rintro (⟨rfl, rfl⟩ | hm)
        · exact Or.inl ⟨rfl, rfl⟩
        · refine Or.inr ⟨?_, Or.inr hm⟩
          intro e; subst e
          exact h.1 (List.mem_map.mpr ⟨(q, v), hm, rfl⟩)
      · rintro (⟨rfl, rfl⟩ | ⟨hne, (⟨rfl, _⟩ | hm)⟩)
        · exact Or.inl ⟨rfl, rfl⟩
        · exact absurd rfl hne
        · exact Or.inr hm
    · simp only [hp, ↓reduceIte, List.mem_cons, Prod.mk.injEq, ih h.2]
      constructor
      · rintro (⟨rfl, rfl⟩ | (hh | hh))
        · exact Or.inr ⟨fun e => hp e.symm, Or.inl ⟨rfl, rfl⟩⟩
        · exact Or.inl hh
        · exact Or.inr ⟨hh.1, Or.inr hh.2⟩
      · rintro (hh | ⟨hne, (hh | hh)⟩)
        · exact Or.inr (Or.inl hh)
        · exact Or.inl hh
        · exact Or.inr (Or.inr ⟨hne, hh⟩)

theorem mergeFlat_spec : ∀ (b a : List (Path × β)), (paths a).Nodup → (paths b).Nodup →
    (paths (mergeFlat a b)).Nodup ∧
    ∀ q v, (q, v) ∈ mergeFlat a b ↔ (q, v) ∈ b ∨ ((q, v) ∈ a ∧ q ∉ paths b) := by
  intro b
  induction b with
  | nil => intro a ha _; exact ⟨by simpa [mergeFlat] using ha, by simp [mergeFlat, paths]⟩
  | cons hd r ih =>
    intro a ha hb
    obtain ⟨p, w⟩ := hd
    simp only [paths, List.map_cons, List.nodup_cons] at hb
    have := ih (setFlat a p w) (nodup_setFlat a p w ha) hb.2
    simp only [mergeFlat, List.foldl_cons] at this ⊢
    refine ⟨this.1, ?_⟩
    intro q v
    rw [this.2 q v, mem_setFlat a p w ha]
    simp only [List.mem_cons, Prod.mk.injEq, paths, List.map_cons, not_or]
    constructor
    · rintro (h | ⟨(⟨rfl, rfl⟩ | ⟨hne, hm⟩), hn⟩)
      · exact Or.inl (Or.inr h)
      · exact Or.inl (Or.inl ⟨rfl, rfl⟩)
      · exact Or.inr ⟨hm, hne, hn⟩
    · rintro ((⟨rfl, rfl⟩ | h) | ⟨hm, hne, hn⟩)
      · exact Or.inr ⟨Or.inl ⟨rfl, rfl⟩, hb.1⟩
      · exact Or.inl h
      · exact Or.inr ⟨Or.inr ⟨hne, hm⟩, hn⟩

/-! ## recursive merge -/

theorem mem_paths_flattenF (f : Forest β) (hf : WFF f) (q : Path) :
    q ∈ paths (flattenF f) ↔ leafAtF f q ≠ none := by
  constructor
  · intro h
    obtain ⟨pb, hpb, rfl⟩ := List.mem_map.mp h
    rw [flattenF_sound f pb.1 pb.2 hpb hf]; simp
  · intro h
    cases hq : leafAtF f q with
    | none => exact absurd hq h
    | some b => exact List.mem_map.mpr ⟨(q, b), flattenF_complete f q b hq, rfl⟩

/-- **`_recursive_merge(a, b)`**: for dicts whose leaf paths do not nest, it succeeds and the result has,
at every path, `b`'s leaf when `b` has one and `a`'s leaf otherwise -/
theorem recursiveMerge_spec (a b : Forest β) (ha : WFF a) (hb : WFF b) (hc : Compat a b) :
    ∃ g, recursiveMerge a b = .ok g ∧ (∀ q, leafAtF g q = (leafAtF b q).or (leafAtF a q)) ∧
      WFF g ∧ NoEmptyF g := by
  have hm := mergeFlat_spec (flattenF b) (flattenF a) (flattenF_nodup a ha) (flattenF_nodup b hb)
  have hmem : ∀ q v, (q, v) ∈ mergeFlat (flattenF a) (flattenF b) ↔
      leafAtF b q = some v ∨ (leafAtF a q = some v ∧ leafAtF b q = none) := by
    intro q v
    rw [hm.2 q v, flattenF_mem b hb, flattenF_mem a ha, mem_paths_flattenF b hb]
    simp
  obtain ⟨g, h1, h2, h3, h4⟩ := unflatten_spec (mergeFlat (flattenF a) (flattenF b))
    (by
      intro pb hpb
      rcases (hm.2 pb.1 pb.2).mp hpb with h | h
      · exact flattenF_path_ne_nil b _ h
      · exact flattenF_path_ne_nil a _ h.1)
    (by
      intro pb hpb pb' hpb' hp
      have e1 := (hmem pb.1 pb.2).mp hpb
      have e2 := (hmem pb'.1 pb'.2).mp hpb'
      rcases e1 with e1 | e1 <;> rcases e2 with e2 | e2
      · exact leafAtF_prefix_eq b _ _ (by simp [e1]) (by simp [e2]) hp
      · exact (hc _ _ (by simp [e2.1]) (by simp [e1]) (Or.inr hp)).symm
      · exact hc _ _ (by simp [e1.1]) (by simp [e2]) (Or.inl hp)
      · exact leafAtF_prefix_eq a _ _ (by simp [e1.1]) (by simp [e2.1]) hp)
    (functional_of_nodup _ hm.1)
  refine ⟨g, h1, ?_, h3, h4⟩
  intro q
  cases hbq : leafAtF b q with
  | some v => simp only [Option.some_or]; exact (h2 q v).mpr ((hmem q v).mpr (Or.inl hbq))
  | none =>
    simp only [Option.none_or]
    cases haq : leafAtF a q with
    | some v => exact (h2 q v).mpr ((hmem q v).mpr (Or.inr ⟨haq, hbq⟩))
    | none =>
      cases hg : leafAtF g q with
      | none => rfl
      | some v =>
        rcases (hmem q v).mp ((h2 q v).mp hg) with h | h
        · rw [hbq] at h; cases h
        · rw [haq] at h; cases h.1

end Flax.Bridge
