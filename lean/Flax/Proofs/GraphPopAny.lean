/- C03 helper lemmas: `pop` with arbitrary (also path-dependent) filters -/
import Flax.Proofs.GraphPopOut
set_option linter.unusedSimpArgs false
set_option linter.unusedVariables false
namespace Flax.Graph
open Flax.Heap
open Flax.Filter (NFilter)

/-! ### `pop` with arbitrary filters (path-dependent ones included)

For a filter that looks at the path, "selected" is not a property of the Variable but of the *encounter*:
`_graph_pop` evaluates the predicates at each encounter `(path, Variable)` inside the attribute loop of a
node it visits (each node once, reached by its first path), pops the Variable at the FIRST such encounter
where some predicate matches, keeps the references it met earlier without a match, and (repaired code)
removes every reference it meets afterwards, whatever the predicates say there. -/

section PopAny
variable (preds : List NFilter) (h0 : Heap) (root0 : PVal)

/-- `v` is a reference to a Variable that has been popped so far -/
def IsPoppedRef (st : PopSt) (v : PVal) : Prop := ∃ (b : Nat), v = .ref b ∧ b ∈ st.visited ∧ ∃ ty val md, h0[b]? = some (.var ty val md)

structure GInv2 (st : PopSt) : Prop where
  shape0 : PShape h0 st.heap
  keeps : ∀ (a : Nat) cls attrs0, h0[a]? = some (.node cls attrs0) →
    ∃ live, st.heap[a]? = some (.node cls live) ∧ ∀ kv ∈ attrs0, ¬ IsPoppedRef h0 st kv.2 → kv ∈ live
  erased : ∀ (a : Nat) cls attrs0 live, h0[a]? = some (.node cls attrs0) → st.heap[a]? = some (.node cls live) →
    ∀ kv ∈ attrs0, kv ∉ live → IsPoppedRef h0 st kv.2
  out : OutInv preds h0 root0 st

variable {preds h0 root0}

theorem IsPoppedRef.mono {st st' : PopSt} (hs : ∀ x, x ∈ st.visited → x ∈ st'.visited) {v : PVal}
    (h : IsPoppedRef h0 st v) : IsPoppedRef h0 st' v := by
  obtain ⟨b, e, hb, hv⟩ := h
  exact ⟨b, e, hs b hb, hv⟩

/-- erasing the key `k` (a reference to the popped Variable `b`) from the owner `a` -/
theorem ginv2_erase {st : PopSt} (g : GInv2 preds h0 root0 st) {a : Nat} {cls : String} {attrs0 : List (Key × PVal)}
    {k : Key} {b : Nat} {ty val md} (hg0 : h0[a]? = some (.node cls attrs0)) (hmem : (k, PVal.ref b) ∈ attrs0)
    (hnd : keysNodup attrs0) (hb0 : h0[b]? = some (.var ty val md))
    (st1 : PopSt) (hheap : st1.heap = eraseAttr st.heap a k) (hvis : ∀ x, x ∈ st.visited → x ∈ st1.visited)
    (hb : b ∈ st1.visited) (hout : OutInv preds h0 root0 st1) : GInv2 preds h0 root0 st1 := by
  obtain ⟨live, hlive, hkeep⟩ := g.keeps a cls attrs0 hg0
  have herase := eraseAttr_self k hlive
  have hpop : IsPoppedRef h0 st1 (.ref b) := ⟨b, rfl, hb, ty, val, md, hb0⟩
  refine ⟨by rw [hheap]; exact g.shape0.trans (eraseAttr_shape _ _ _), ?_, ?_, hout⟩
  · intro a' cls' attrs' hg'
    rw [hheap]
    by_cases e : a' = a
    · subst e
      rw [hg0] at hg'; cases hg'
      refine ⟨eraseKV k live, herase, ?_⟩
      intro kv hkv hns
      refine mem_eraseKV.mpr ⟨hkeep kv hkv (fun hp => hns (hp.mono hvis)), ?_⟩
      intro hk
      have : kv = (k, PVal.ref b) := keysNodup_unique hnd hkv hmem hk
      exact hns (by rw [this]; exact hpop)
    · obtain ⟨live', hl', hk'⟩ := g.keeps a' cls' attrs' hg'
      exact ⟨live', by rw [eraseAttr_other _ _ _ _ e]; exact hl', fun kv hkv hns => hk' kv hkv (fun hp => hns (hp.mono hvis))⟩
  · intro a' cls' attrs' live' hg' hl' kv hkv hnl
    rw [hheap] at hl'
    by_cases e : a' = a
    · subst e
      rw [hg0] at hg'; cases hg'
      rw [herase] at hl'; cases hl'
      by_cases hin : kv ∈ live
      · have hk : kv.1 = k := by
          apply Classical.byContradiction
          intro hne
          exact hnl (mem_eraseKV.mpr ⟨hin, hne⟩)
        have : kv = (k, PVal.ref b) := keysNodup_unique hnd hkv hmem hk
        rw [this]; exact hpop
      · exact (g.erased a' cls attrs0 live hg0 hlive kv hkv hin).mono hvis
    · rw [eraseAttr_other _ _ _ _ e] at hl'
      exact (g.erased a' cls' attrs' live' hg' hl' kv hkv hnl).mono hvis

theorem outInv_push {st : PopSt} (o : OutInv preds h0 root0 st) {b : Nat} {p : Path} {ty : VType} {val : Data} {md : Meta}
    (hb0 : h0[b]? = some (.var ty val md)) (hlt : bucketOf preds (p, Leaf.vstate ty val md) < preds.length)
    (hnb : b ∉ st.visited) (hres : resolve h0 root0 p = some (.ref b)) (hp : Heap) :
    OutInv preds h0 root0 (PopSt.mk hp (st.visited ++ [b])
      (pushOut st.out (bucketOf preds (p, Leaf.vstate ty val md)) (p, Leaf.vstate ty val md))) := by
  have hi : bucketOf preds (p, Leaf.vstate ty val md) < st.out.length := by rw [o.len]; exact hlt
  have hmemb : ∀ j it, it ∈ (pushOut st.out (bucketOf preds (p, Leaf.vstate ty val md)) (p, Leaf.vstate ty val md)).getD j [] ↔
      (it ∈ st.out.getD j [] ∨ (j = bucketOf preds (p, Leaf.vstate ty val md) ∧ it = (p, Leaf.vstate ty val md))) := by
    intro j it
    rw [pushOut_getD]
    by_cases e : j = bucketOf preds (p, Leaf.vstate ty val md)
    · subst e; simp [hi]
    · simp [e]
  have hold : ∀ j it, it ∈ st.out.getD j [] → resolve h0 root0 it.1 ≠ some (.ref b) := by
    intro j it hit hr
    obtain ⟨b', _, _, _, _, _, hr', _, _, hb'⟩ := o.sound j it hit
    rw [hr] at hr'; cases hr'
    exact hnb hb'
  refine ⟨by rw [pushOut_length]; exact o.len, ?_, ?_, ?_, ?_⟩
  · intro j it hit
    rcases (hmemb j it).mp hit with h1 | ⟨ej, eit⟩
    · obtain ⟨b', ty', val', md', e1, e2, e3, e4, e5, e6⟩ := o.sound j it h1
      exact ⟨b', ty', val', md', e1, e2, e3, e4, e5, List.mem_append_left _ e6⟩
    · subst eit
      exact ⟨b, ty, val, md, rfl, hb0, hres, ej.symm, ej ▸ hlt, by simp⟩
  · intro j
    rw [pushOut_getD]
    by_cases e : j = bucketOf preds (p, Leaf.vstate ty val md)
    · subst e
      simp only [hi, and_self, if_true]
      refine List.nodup_append.mpr ⟨o.nodup _, by simp, ?_⟩
      intro x hx y hy
      simp at hy; subst hy
      intro exy; subst exy
      exact hold _ _ hx hres
    · simp only [e, false_and, if_false]; exact o.nodup j
  · intro i j it it' b' hit hit' hr hr'
    rcases (hmemb i it).mp hit with h1 | ⟨ei, eit⟩ <;> rcases (hmemb j it').mp hit' with h2 | ⟨ej, eit'⟩
    · exact o.once i j it it' b' h1 h2 hr hr'
    · subst eit'
      rw [hres] at hr'; cases hr'
      exact absurd hr (hold i it h1)
    · subst eit
      rw [hres] at hr; cases hr
      exact absurd hr' (hold j it' h2)
    · subst eit; subst eit'
      exact ⟨rfl, ei.trans ej.symm⟩
  · intro x hx ty' val' md' hx0
    rcases List.mem_append.mp hx with h1 | h1
    · obtain ⟨i, q, hq, hrq⟩ := o.complete x h1 ty' val' md' hx0
      exact ⟨i, q, (hmemb i _).mpr (Or.inl hq), hrq⟩
    · simp at h1; subst h1
      rw [hb0] at hx0; cases hx0
      exact ⟨_, p, (hmemb _ _).mpr (Or.inr ⟨rfl, rfl⟩), hres⟩

theorem outInv_heap {st : PopSt} (o : OutInv preds h0 root0 st) (hp : Heap) :
    OutInv preds h0 root0 { st with heap := hp } :=
  ⟨o.len, o.sound, o.nodup, o.once, o.complete⟩

theorem ginv2_reg {st : PopSt} (g : GInv2 preds h0 root0 st) {a : Nat} {cls : String} {attrs : List (Key × PVal)}
    (hget : st.heap[a]? = some (.node cls attrs)) : GInv2 preds h0 root0 { st with visited := st.visited ++ [a] } := by
  have hnv : ∀ ty val md, h0[a]? ≠ some (.var ty val md) := by
    intro ty val md hv
    have := (g.shape0.var a ty val md).mp hv
    rw [hget] at this; cases this
  have hsub : ∀ x, x ∈ st.visited → x ∈ st.visited ++ [a] := fun x hx => List.mem_append_left _ hx
  refine ⟨g.shape0, ?_, ?_, ⟨g.out.len, ?_, g.out.nodup, g.out.once, ?_⟩⟩
  · intro a' cls' attrs' hg'
    obtain ⟨live, hl, hk⟩ := g.keeps a' cls' attrs' hg'
    refine ⟨live, hl, fun kv hkv hns => hk kv hkv (fun hp => hns (hp.mono hsub))⟩
  · intro a' cls' attrs' live hg' hl' kv hkv hnl
    exact (g.erased a' cls' attrs' live hg' hl' kv hkv hnl).mono hsub
  · intro j it hit
    obtain ⟨b', ty', val', md', e1, e2, e3, e4, e5, e6⟩ := g.out.sound j it hit
    exact ⟨b', ty', val', md', e1, e2, e3, e4, e5, List.mem_append_left _ e6⟩
  · intro x hx ty val md hx0
    rcases List.mem_append.mp hx with h1 | h1
    · exact g.out.complete x h1 ty val md hx0
    · simp at h1; subst h1; exact absurd hx0 (hnv ty val md)

theorem node_h0' {hp : Heap} (s0 : PShape h0 hp) {a : Nat} {cls : String} {live : List (Key × PVal)}
    (hget : hp[a]? = some (.node cls live)) : ∃ attrs0, h0[a]? = some (.node cls attrs0) ∧ ∀ kv ∈ live, kv ∈ attrs0 := by
  have hlt : a < h0.length := by rw [s0.len]; exact (List.getElem?_eq_some_iff.mp hget).1
  obtain ⟨o, ho⟩ : ∃ o, h0[a]? = some o := ⟨h0[a], List.getElem?_eq_getElem hlt⟩
  cases o with
  | var ty val md =>
    have := (s0.var a ty val md).mp ho
    rw [hget] at this; cases this
  | node cls0 attrs0 =>
    obtain ⟨live', hl', hsub⟩ := s0.node a cls0 attrs0 ho
    rw [hget] at hl'; cases hl'
    exact ⟨attrs0, ho, hsub⟩

theorem ginv2_popItem (hw0 : Heap.wf h0 = true) (fuel : Nat)
    (ihNode : ∀ path v st st', GInv2 preds h0 root0 st → v.wf = true → resolve h0 root0 path = some v →
      popNode true preds fuel path v st = .ok st' → GInv2 preds h0 root0 st')
    (path : Path) (owner : Option Addr) (k : Key) (v : PVal) (st st1 : PopSt) (g : GInv2 preds h0 root0 st)
    (hwf : v.wf = true) (hres : resolve h0 root0 (path ++ [k]) = some v)
    (hown : ∀ a, owner = some a → ∃ cls attrs0, h0[a]? = some (.node cls attrs0) ∧ (k, v) ∈ attrs0)
    (h : popItem preds fuel path owner k v st = .ok st1) : GInv2 preds h0 root0 st1 := by
  cases v with
  | static s => simp [popItem] at h; subst h; exact g
  | array d => simp [popItem] at h; subst h; exact g
  | none => simp only [popItem] at h; exact ihNode _ _ st st1 g hwf hres h
  | seq t xs => simp only [popItem] at h; exact ihNode _ _ st st1 g hwf hres h
  | dict kvs => simp only [popItem] at h; exact ihNode _ _ st st1 g hwf hres h
  | ref b =>
    simp only [popItem] at h
    split at h
    · cases h
    · exact ihNode _ _ st st1 g hwf hres h
    · next ty val md hget =>
      have hb0 : h0[b]? = some (.var ty val md) := (g.shape0.var b ty val md).mpr hget
      split at h
      · next hvis =>
        cases owner with
        | none => cases h
        | some a =>
          simp at h; subst h
          obtain ⟨cls, attrs0, hg0, hmem⟩ := hown a rfl
          exact ginv2_erase g hg0 hmem (heap_wf_node hw0 hg0).1 hb0 _ rfl (fun _ hx => hx) hvis (outInv_heap g.out _)
      · next hnvis =>
        split at h
        · next hlt =>
          cases owner with
          | none => cases h
          | some a =>
            simp at h; subst h
            obtain ⟨cls, attrs0, hg0, hmem⟩ := hown a rfl
            exact ginv2_erase g hg0 hmem (heap_wf_node hw0 hg0).1 hb0 _ rfl
              (fun x hx => List.mem_append_left _ hx) (by simp) (outInv_push g.out hb0 hlt hnvis hres _)
        · simp at h; subst h; exact g

theorem ginv2_pop (hw0 : Heap.wf h0 = true) : ∀ fuel : Nat,
    (∀ path v st st', GInv2 preds h0 root0 st → v.wf = true → resolve h0 root0 path = some v →
      popNode true preds fuel path v st = .ok st' → GInv2 preds h0 root0 st') ∧
    (∀ path owner items st st', GInv2 preds h0 root0 st →
      (∀ kv ∈ items, kv.2.wf = true ∧ resolve h0 root0 (path ++ [kv.1]) = some kv.2) →
      (∀ a, owner = some a → ∃ cls attrs0, h0[a]? = some (.node cls attrs0) ∧ ∀ kv ∈ items, kv ∈ attrs0) →
      popItems true preds fuel path owner items st = .ok st' → GInv2 preds h0 root0 st') := by
  intro fuel
  induction fuel with
  | zero =>
    constructor
    · intro path v st st' _ _ _ h; simp [popNode] at h
    · intro path owner items st st' _ _ _ h; simp [popItems] at h
  | succ fuel ih =>
    constructor
    · intro path v st st' g hwf hres h
      cases v with
      | static s => simp [popNode] at h
      | array d => simp [popNode] at h
      | none => simp [popNode] at h; subst h; exact g
      | seq t xs =>
        simp only [popNode] at h
        simp only [PVal.wf] at hwf
        refine ih.2 path Option.none _ st st' g ?_ (fun a ha => by cases ha) h
        intro kv hkv
        refine ⟨wfList_mem xs hwf _ (enumFrom_mem_snd 0 xs kv hkv), ?_⟩
        rw [resolve_snoc, hres]
        simp only [Option.bind, step]
        exact lookupKV_of_mem (enumFrom_keysNodup 0 xs) hkv
      | dict kvs =>
        simp only [popNode] at h
        simp only [PVal.wf, Bool.and_eq_true, decide_eq_true_eq] at hwf
        refine ih.2 path Option.none _ st st' g ?_ (fun a ha => by cases ha) h
        intro kv hkv
        have hm := mem_sortKV.mp hkv
        refine ⟨wfKVs_mem kvs hwf.2 kv hm, ?_⟩
        rw [resolve_snoc, hres]
        simp only [Option.bind, step]
        exact lookupKV_of_mem hwf.1 hm
      | ref a =>
        simp only [popNode] at h
        split at h
        · cases h
        · cases h
        · next cls live hget =>
          split at h
          · simp at h; subst h; exact g
          · obtain ⟨attrs0, hg0, hsub⟩ := node_h0' g.shape0 hget
            have hwn := heap_wf_node hw0 hg0
            refine ih.2 path (some a) _ _ st' (ginv2_reg g hget) ?_ ?_ h
            · intro kv hkv
              have hm := hsub kv (mem_sortKV.mp hkv)
              refine ⟨hwn.2 kv hm, ?_⟩
              rw [resolve_snoc, hres]
              simp only [Option.bind, step, hg0]
              exact lookupKV_of_mem hwn.1 hm
            · intro a' ha'
              cases ha'
              exact ⟨cls, attrs0, hg0, fun kv hkv => hsub kv (mem_sortKV.mp hkv)⟩
    · intro path owner items st st' g hit hown h
      cases items with
      | nil => simp [popItems] at h; subst h; exact g
      | cons kv rest =>
        obtain ⟨k, v⟩ := kv
        rw [popItems_cons] at h
        split at h
        · cases h
        · next st1 hitem =>
          have hkv := hit (k, v) (by simp)
          have g1 := ginv2_popItem hw0 fuel ih.1 path owner k v st st1 g hkv.1 hkv.2
            (fun a ha => by
              obtain ⟨cls, attrs0, hg0, hall⟩ := hown a ha
              exact ⟨cls, attrs0, hg0, hall (k, v) (by simp)⟩) hitem
          exact ih.2 path owner rest st1 st' g1 (fun kv' hkv' => hit kv' (by simp [hkv']))
            (fun a ha => by
              obtain ⟨cls, attrs0, hg0, hall⟩ := hown a ha
              exact ⟨cls, attrs0, hg0, fun kv' hkv' => hall kv' (by simp [hkv'])⟩) h

/-- what `pop` does for ARBITRARY filters (repaired definition) -/
structure PopAny (preds : List NFilter) (h : Heap) (root : PVal) (h' : Heap) (outs : List FlatState) : Prop where
  len : outs.length = preds.length
  /-- every returned entry is a Variable of the graph under a path that reaches it, and its state is the
  first filter matching *that* (path, Variable) pair -/
  sound : ∀ i, ∀ it ∈ outs.getD i [], ∃ (b : Nat), ∃ ty val md, it.2 = .vstate ty val md ∧ h[b]? = some (.var ty val md) ∧
    resolve h root it.1 = some (.ref b) ∧ bucketOf preds it = i ∧ i < preds.length
  /-- no Variable is returned twice -/
  once : (∀ i, (outs.getD i []).Nodup) ∧ ∀ i j it it' (b : Nat), it ∈ outs.getD i [] → it' ∈ outs.getD j [] →
    resolve h root it.1 = some (.ref b) → resolve h root it'.1 = some (.ref b) → it = it' ∧ i = j
  shape : PShape h h'
  /-- every removed attribute was a reference to a returned Variable -/
  removed : ∀ (a : Nat) cls attrs0 live, h[a]? = some (.node cls attrs0) → h'[a]? = some (.node cls live) →
    ∀ kv ∈ attrs0, kv ∉ live → ∃ (b : Nat), kv.2 = .ref b ∧
      ∃ i p ty val md, (p, Leaf.vstate ty val md) ∈ outs.getD i [] ∧ resolve h root p = some (.ref b)

theorem pop_any_aux (h : Heap) (root : PVal) (hw : Heap.wf h = true) (hrw : root.wf = true)
    (h' : Heap) (outs : List FlatState) (hp : pop true h root preds = .ok (h', outs)) : PopAny preds h root h' outs := by
  unfold pop at hp
  split at hp
  · cases hp
  · split at hp
    · cases hp
    · next st' hrun =>
      simp at hp; obtain ⟨rfl, rfl⟩ := hp
      have g0 : GInv2 preds h root { heap := h, visited := [], out := preds.map (fun _ => []) } := by
        refine ⟨PShape.refl h, fun a cls attrs0 hg => ⟨attrs0, hg, fun _ hk _ => hk⟩, ?_, (ginv_init (preds := preds) h root).out⟩
        intro a cls attrs0 live hg hl kv hkv hnl
        simp only at hl
        rw [hg] at hl; cases hl
        exact absurd hkv hnl
      have g := (ginv2_pop (preds := preds) (h0 := h) (root0 := root) hw _).1 [] root _ st' g0 hrw rfl hrun
      refine ⟨g.out.len, ?_, ⟨g.out.nodup, g.out.once⟩, g.shape0, ?_⟩
      · intro i it hit
        obtain ⟨b, ty, val, md, e1, e2, e3, e4, e5, _⟩ := g.out.sound i it hit
        exact ⟨b, ty, val, md, e1, e2, e3, e4, e5⟩
      · intro a cls attrs0 live hg hl kv hkv hnl
        obtain ⟨b, e, hb, ty, val, md, hb0⟩ := g.erased a cls attrs0 live hg hl kv hkv hnl
        obtain ⟨i, p, hp', hrp⟩ := g.out.complete b hb ty val md hb0
        exact ⟨b, e, i, p, ty, val, md, hp', hrp⟩

end PopAny
end Flax.Graph
