/-
Helper lemmas for C11 (checkpoint directory model): sorted association lists, deletion folds,
the effect of the step sequences of a save.  Core Lean only.
-/
import Flax.Model.Ckpt

namespace Flax.Ckpt

/-- natural_sort order without ties: strictly ascending step values -/
def Files.Sorted (f : Files) : Prop := f.Pairwise (fun a b => a.1 < b.1)

namespace Files

theorem mem_del {f : Files} {s : Int} {e : Int × Content} : e ∈ f.del s ↔ e ∈ f ∧ e.1 ≠ s := by
  simp [del, List.mem_filter]

theorem sorted_del {f : Files} (s : Int) (h : f.Sorted) : (f.del s).Sorted :=
  List.Pairwise.filter _ h

theorem sorted_nil : Files.Sorted [] := List.Pairwise.nil

theorem steps_put (s : Int) (c : Content) (f : Files) : (f.put s c).steps = insertStep s f.steps := by
  induction f with
  | nil => simp [put, steps, insertStep]
  | cons a r ih =>
    obtain ⟨x, cx⟩ := a
    simp only [put, steps, List.map_cons, insertStep]
    by_cases h1 : s < x
    · simp [h1]
    · by_cases h2 : s = x
      · subst h2; simp
      · simp only [h1, h2, if_false, List.map_cons]
        simp only [steps] at ih
        rw [ih]

theorem mem_put_of_sorted {f : Files} {s : Int} {c : Content} (h : f.Sorted) (e : Int × Content) :
    e ∈ f.put s c ↔ e = (s, c) ∨ (e ∈ f ∧ e.1 ≠ s) := by
  induction f with
  | nil => simp [put]
  | cons a r ih =>
    obtain ⟨x, cx⟩ := a
    have hr : Files.Sorted r := (List.pairwise_cons.mp h).2
    have hx : ∀ y ∈ r, x < y.1 := (List.pairwise_cons.mp h).1
    simp only [put]
    by_cases h1 : s < x
    · simp only [h1, if_true, List.mem_cons]
      constructor
      · rintro (h | h | h)
        · exact Or.inl h
        · subst h; exact Or.inr ⟨Or.inl rfl, by simp; omega⟩
        · exact Or.inr ⟨Or.inr h, by have := hx e h; omega⟩
      · rintro (h | ⟨h | h, _⟩)
        · exact Or.inl h
        · exact Or.inr (Or.inl h)
        · exact Or.inr (Or.inr h)
    · by_cases h2 : s = x
      · subst h2
        simp only [Int.lt_irrefl, if_false, if_true, List.mem_cons]
        constructor
        · rintro (h | h)
          · exact Or.inl h
          · exact Or.inr ⟨Or.inr h, by have := hx e h; omega⟩
        · rintro (h | ⟨h | h, hne⟩)
          · exact Or.inl h
          · subst h; simp at hne
          · exact Or.inr h
      · simp only [h1, h2, if_false, List.mem_cons, ih hr]
        constructor
        · rintro (h | h | ⟨h, hne⟩)
          · subst h; exact Or.inr ⟨Or.inl rfl, by simp; omega⟩
          · exact Or.inl h
          · exact Or.inr ⟨Or.inr h, hne⟩
        · rintro (h | ⟨h | h, hne⟩)
          · exact Or.inr (Or.inl h)
          · exact Or.inl h
          · exact Or.inr (Or.inr ⟨h, hne⟩)

theorem sorted_put {f : Files} (s : Int) (c : Content) (h : f.Sorted) : (f.put s c).Sorted := by
  induction f with
  | nil => simp [put, Sorted]
  | cons a r ih =>
    obtain ⟨x, cx⟩ := a
    have hr : Files.Sorted r := (List.pairwise_cons.mp h).2
    have hx : ∀ y ∈ r, x < y.1 := (List.pairwise_cons.mp h).1
    simp only [put]
    by_cases h1 : s < x
    · simp only [h1, if_true]
      refine List.pairwise_cons.mpr ⟨?_, h⟩
      intro y hy
      rcases List.mem_cons.mp hy with h | h
      · subst h; exact h1
      · have := hx y h; simp only; omega
    · by_cases h2 : s = x
      · subst h2
        simp only [Int.lt_irrefl, if_false, if_true]
        exact List.pairwise_cons.mpr ⟨fun y hy => hx y hy, hr⟩
      · simp only [h1, h2, if_false]
        refine List.pairwise_cons.mpr ⟨?_, ih hr⟩
        intro y hy
        rcases (mem_put_of_sorted hr y).mp hy with h | ⟨h, _⟩
        · subst h; simp only; omega
        · exact hx y h

theorem get_eq_some_iff {f : Files} (h : f.Sorted) (s : Int) (c : Content) :
    f.get s = some c ↔ (s, c) ∈ f := by
  induction f with
  | nil => simp [get]
  | cons a r ih =>
    obtain ⟨x, cx⟩ := a
    have hr : Files.Sorted r := (List.pairwise_cons.mp h).2
    have hx : ∀ y ∈ r, x < y.1 := (List.pairwise_cons.mp h).1
    simp only [get, List.mem_cons]
    by_cases h1 : x = s
    · subst h1
      simp only [if_true, Option.some.injEq, Prod.mk.injEq, true_and]
      constructor
      · intro h; exact Or.inl h.symm
      · rintro (h | h)
        · exact h.symm
        · have := hx _ h; simp at this
    · simp only [h1, if_false, ih hr, Prod.mk.injEq]
      constructor
      · intro h; exact Or.inr h
      · rintro (⟨h, _⟩ | h)
        · exact absurd h.symm h1
        · exact h

theorem get_isSome_iff (f : Files) (s : Int) : (f.get s).isSome ↔ s ∈ f.steps := by
  induction f with
  | nil => simp [get, steps]
  | cons a r ih =>
    obtain ⟨x, cx⟩ := a
    simp only [get, steps, List.map_cons, List.mem_cons]
    by_cases h1 : x = s
    · simp [h1]
    · simp only [h1, if_false]
      simp only [steps] at ih
      rw [ih]
      constructor
      · intro h; exact Or.inr h
      · rintro (h | h)
        · exact absurd h.symm h1
        · exact h

theorem steps_del (f : Files) (s : Int) : (f.del s).steps = f.steps.filter (fun x => decide (x ≠ s)) := by
  simp only [del, steps, List.filter_map]
  rfl

end Files


/-! ### ascending lists of step values -/

abbrev Asc (l : List Int) : Prop := l.Pairwise (· < ·)

theorem Files.sorted_iff_steps (f : Files) : f.Sorted ↔ Asc f.steps := by
  simp [Files.Sorted, Asc, Files.steps, List.pairwise_map]

theorem asc_ext {l1 l2 : List Int} (h1 : Asc l1) (h2 : Asc l2) (h : ∀ x, x ∈ l1 ↔ x ∈ l2) : l1 = l2 := by
  induction l1 generalizing l2 with
  | nil =>
    cases l2 with
    | nil => rfl
    | cons b r => exact absurd ((h b).mpr (List.mem_cons_self)) (by simp)
  | cons a r ih =>
    cases l2 with
    | nil => exact absurd ((h a).mp (List.mem_cons_self)) (by simp)
    | cons b r2 =>
      have ha := List.pairwise_cons.mp h1
      have hb := List.pairwise_cons.mp h2
      have hab : a = b := by
        have m1 : a ∈ b :: r2 := (h a).mp List.mem_cons_self
        have m2 : b ∈ a :: r := (h b).mpr List.mem_cons_self
        rcases List.mem_cons.mp m1 with e | e
        · exact e
        · rcases List.mem_cons.mp m2 with e2 | e2
          · exact e2.symm
          · have := ha.1 b e2; have := hb.1 a e; omega
      subst hab
      congr 1
      apply ih ha.2 hb.2
      intro x
      constructor
      · intro hx
        have := (h x).mp (List.mem_cons_of_mem _ hx)
        rcases List.mem_cons.mp this with e | e
        · subst e; have := ha.1 x hx; omega
        · exact e
      · intro hx
        have := (h x).mpr (List.mem_cons_of_mem _ hx)
        rcases List.mem_cons.mp this with e | e
        · subst e; have := hb.1 x hx; omega
        · exact e

theorem asc_take_lt_drop {l : List Int} (h : Asc l) (n : Nat) {x y : Int}
    (hx : x ∈ l.take n) (hy : y ∈ l.drop n) : x < y := by
  have h' : Asc (l.take n ++ l.drop n) := by rw [List.take_append_drop]; exact h
  exact (List.pairwise_append.mp h').2.2 x hx y hy

theorem asc_nodup {l : List Int} (h : Asc l) : l.Nodup :=
  List.Pairwise.imp (fun {a b} (hab : a < b) => by omega) h

theorem mem_insertStep (s : Int) (l : List Int) (x : Int) : x ∈ insertStep s l ↔ x = s ∨ x ∈ l := by
  induction l with
  | nil => simp [insertStep]
  | cons a r ih =>
    simp only [insertStep]
    by_cases h1 : s < a
    · simp [h1]
    · by_cases h2 : s = a
      · subst h2; simp
      · simp only [h1, h2, if_false, List.mem_cons, ih]
        constructor
        · rintro (h | h | h)
          · exact Or.inr (Or.inl h)
          · exact Or.inl h
          · exact Or.inr (Or.inr h)
        · rintro (h | h | h)
          · exact Or.inr (Or.inl h)
          · exact Or.inl h
          · exact Or.inr (Or.inr h)

theorem asc_insertStep (s : Int) {l : List Int} (h : Asc l) : Asc (insertStep s l) := by
  induction l with
  | nil => simp [insertStep, Asc]
  | cons a r ih =>
    have ha := List.pairwise_cons.mp h
    simp only [insertStep]
    by_cases h1 : s < a
    · simp only [h1, if_true]
      refine List.pairwise_cons.mpr ⟨?_, h⟩
      intro y hy
      rcases List.mem_cons.mp hy with e | e
      · subst e; exact h1
      · have := ha.1 y e; omega
    · by_cases h2 : s = a
      · subst h2; simpa using h
      · simp only [h1, h2, if_false]
        refine List.pairwise_cons.mpr ⟨?_, ih ha.2⟩
        intro y hy
        rcases (mem_insertStep s r y).mp hy with e | e
        · subst e; omega
        · exact ha.1 y e

/-- the last element of an ascending list is its maximum -/
theorem asc_getLast_max {l : List Int} (h : Asc l) {m : Int} (hm : l.getLast? = some m) :
    ∀ x ∈ l, x ≤ m := by
  induction l with
  | nil => simp
  | cons a r ih =>
    have ha := List.pairwise_cons.mp h
    cases r with
    | nil =>
      simp at hm
      intro x hx
      simp at hx
      omega
    | cons b r2 =>
      have hm' : (b :: r2).getLast? = some m := by simpa [List.getLast?_cons_cons] using hm
      intro x hx
      rcases List.mem_cons.mp hx with e | e
      · subst e
        have hb : b ≤ m := ih ha.2 hm' b List.mem_cons_self
        have := ha.1 b List.mem_cons_self
        omega
      · exact ih ha.2 hm' x e

theorem getLast?_mem {α} {l : List α} {m : α} (hm : l.getLast? = some m) : m ∈ l :=
  List.mem_of_getLast? hm

/-- in an ascending list, a member that bounds every member is the last element -/
theorem asc_getLast_of_max {l : List Int} (h : Asc l) {m : Int} (hm : m ∈ l) (hmax : ∀ x ∈ l, x ≤ m) :
    l.getLast? = some m := by
  cases hl : l.getLast? with
  | none =>
    have : l = [] := List.getLast?_eq_none_iff.mp hl
    subst this; simp at hm
  | some m' =>
    have h1 := asc_getLast_max h hl m hm
    have h2 := hmax m' (getLast?_mem hl)
    have : m = m' := by omega
    subst this; rfl

/-! ### deleting several steps -/

def Files.delAll (L : List Int) (f : Files) : Files := L.foldl (fun f x => f.del x) f

theorem Files.mem_delAll {L : List Int} {f : Files} {e : Int × Content} :
    e ∈ Files.delAll L f ↔ e ∈ f ∧ e.1 ∉ L := by
  induction L generalizing f with
  | nil => simp [Files.delAll]
  | cons x r ih =>
    simp only [Files.delAll, List.foldl_cons] at ih ⊢
    rw [ih, Files.mem_del]
    simp only [List.mem_cons, not_or]
    constructor
    · rintro ⟨⟨h1, h2⟩, h3⟩; exact ⟨h1, h2, h3⟩
    · rintro ⟨h1, h2, h3⟩; exact ⟨⟨h1, h2⟩, h3⟩

theorem Files.sorted_delAll (L : List Int) {f : Files} (h : f.Sorted) : (Files.delAll L f).Sorted := by
  induction L generalizing f with
  | nil => simpa [Files.delAll] using h
  | cons x r ih =>
    simp only [Files.delAll, List.foldl_cons] at ih ⊢
    exact ih (Files.sorted_del x h)

theorem Files.steps_delAll (L : List Int) (f : Files) :
    (Files.delAll L f).steps = f.steps.filter (fun x => decide (x ∉ L)) := by
  induction L generalizing f with
  | nil =>
    simp only [Files.delAll, List.foldl_nil, List.not_mem_nil, not_false_eq_true, decide_true]
    exact (List.filter_eq_self.mpr (fun _ _ => rfl)).symm
  | cons x r ih =>
    simp only [Files.delAll, List.foldl_cons] at ih ⊢
    rw [ih, Files.steps_del, List.filter_filter]
    congr 1
    funext y
    by_cases h1 : y = x <;> by_cases h2 : y ∈ r <;> simp [h1, h2]


/-! ### latest on sorted files -/

theorem Files.eq_of_key_eq {f : Files} (h : f.Sorted) {e e' : Int × Content} (he : e ∈ f) (he' : e' ∈ f)
    (hk : e.1 = e'.1) : e = e' := by
  induction f with
  | nil => simp at he
  | cons a r ih =>
    have ha := List.pairwise_cons.mp h
    rcases List.mem_cons.mp he with h1 | h1 <;> rcases List.mem_cons.mp he' with h2 | h2
    · rw [h1, h2]
    · subst h1; have := ha.1 e' h2; omega
    · subst h2; have := ha.1 e h1; omega
    · exact ih ha.2 h1 h2

theorem Files.getLast_max {f : Files} (h : f.Sorted) {e : Int × Content} (hm : f.getLast? = some e) :
    ∀ x ∈ f, x.1 ≤ e.1 := by
  induction f with
  | nil => simp
  | cons a r ih =>
    have ha := List.pairwise_cons.mp h
    cases r with
    | nil =>
      simp at hm
      intro x hx
      simp at hx
      subst hx; subst hm; exact Int.le_refl _
    | cons b r2 =>
      have hm' : (b :: r2).getLast? = some e := by simpa [List.getLast?_cons_cons] using hm
      intro x hx
      rcases List.mem_cons.mp hx with e1 | e1
      · subst e1
        have hb : b.1 ≤ e.1 := ih ha.2 hm' b List.mem_cons_self
        have := ha.1 b List.mem_cons_self
        omega
      · exact ih ha.2 hm' x e1

theorem Files.getLast_of_max {f : Files} (h : f.Sorted) {e : Int × Content} (he : e ∈ f)
    (hmax : ∀ x ∈ f, x.1 ≤ e.1) : f.getLast? = some e := by
  cases hl : f.getLast? with
  | none =>
    have : f = [] := List.getLast?_eq_none_iff.mp hl
    subst this; simp at he
  | some m =>
    have h1 := Files.getLast_max h hl e he
    have h2 := hmax m (getLast?_mem hl)
    have : e = m := Files.eq_of_key_eq h he (getLast?_mem hl) (by omega)
    subst this; rfl

/-- after `put`, the latest entry is the new one or the old latest (which then lies above the new step) -/
theorem Files.latest_put {F : Files} (hS : F.Sorted) (s : Int) (c : Content) :
    (F.put s c).getLast? = some (s, c) ∨
      ((F.put s c).getLast? = F.getLast? ∧ ∃ m, F.getLast? = some m ∧ s < m.1) := by
  have hS1 := Files.sorted_put s c hS
  by_cases hex : ∃ x ∈ F, s < x.1
  · right
    obtain ⟨x, hx, hsx⟩ := hex
    cases hl : F.getLast? with
    | none =>
      have : F = [] := List.getLast?_eq_none_iff.mp hl
      subst this; simp at hx
    | some m =>
      have hmF := getLast?_mem hl
      have hmax := Files.getLast_max hS hl
      have hsm : s < m.1 := by have := hmax x hx; omega
      refine ⟨?_, m, rfl, hsm⟩
      apply Files.getLast_of_max hS1
      · exact (Files.mem_put_of_sorted hS m).mpr (Or.inr ⟨hmF, by omega⟩)
      · intro y hy
        rcases (Files.mem_put_of_sorted hS y).mp hy with e | ⟨e, _⟩
        · subst e; simp only; omega
        · exact hmax y e
  · left
    apply Files.getLast_of_max hS1
    · exact (Files.mem_put_of_sorted hS _).mpr (Or.inl rfl)
    · intro y hy
      rcases (Files.mem_put_of_sorted hS y).mp hy with e | ⟨e, _⟩
      · subst e; exact Int.le_refl _
      · have : ¬ s < y.1 := fun h => hex ⟨y, e, h⟩
        simp only; omega

/-! ### `_remove_invalid_ckpts`: structure of the removed names -/

theorem greedyRemove_subset (n : Int) (last : Option Int) (xs : List Int) :
    ∀ x ∈ greedyRemove n last xs, x ∈ xs := by
  induction xs generalizing last with
  | nil => simp [greedyRemove]
  | cons a r ih =>
    intro x hx
    simp only [greedyRemove] at hx
    by_cases hc : keepCond n last a = true
    · simp only [hc, if_true] at hx
      exact List.mem_cons_of_mem _ (ih _ x hx)
    · have hc' : keepCond n last a = false := by simpa using hc
      simp only [hc', Bool.false_eq_true, if_false] at hx
      rcases List.mem_cons.mp hx with e | e
      · subst e; exact List.mem_cons_self
      · exact List.mem_cons_of_mem _ (ih _ x e)

theorem greedyKeep_sublist (n : Int) (last : Option Int) (xs : List Int) :
    (greedyKeep n last xs).Sublist xs := by
  induction xs generalizing last with
  | nil => simp [greedyKeep]
  | cons a r ih =>
    simp only [greedyKeep]
    by_cases hc : keepCond n last a = true
    · simp only [hc, if_true]
      exact List.Sublist.cons_cons _ (ih _)
    · have hc' : keepCond n last a = false := by simpa using hc
      simp only [hc', Bool.false_eq_true, if_false]
      exact List.Sublist.cons _ (ih _)

theorem greedy_partition (n : Int) (last : Option Int) {xs : List Int} (hnd : xs.Nodup) :
    ∀ x ∈ xs, (x ∈ greedyKeep n last xs ↔ x ∉ greedyRemove n last xs) := by
  induction xs generalizing last with
  | nil => simp
  | cons a r ih =>
    have hn := List.nodup_cons.mp hnd
    intro x hx
    simp only [greedyKeep, greedyRemove]
    by_cases hc : keepCond n last a = true
    · simp only [hc, if_true]
      rcases List.mem_cons.mp hx with e | e
      · subst e
        constructor
        · intro _ h; exact hn.1 (greedyRemove_subset _ _ _ _ h)
        · intro _; exact List.mem_cons_self
      · have hxa : x ≠ a := fun h => hn.1 (h ▸ e)
        simp only [List.mem_cons, hxa, false_or]
        exact ih _ hn.2 x e
    · have hc' : keepCond n last a = false := by simpa using hc
      simp only [hc', Bool.false_eq_true, if_false]
      rcases List.mem_cons.mp hx with e | e
      · subst e
        constructor
        · intro h; exact absurd ((greedyKeep_sublist _ _ _).subset h) hn.1
        · intro h; exact absurd List.mem_cons_self h
      · have hxa : x ≠ a := fun h => hn.1 (h ▸ e)
        rw [ih _ hn.2 x e]
        constructor
        · intro h h2
          rcases List.mem_cons.mp h2 with e2 | e2
          · exact hxa e2
          · exact h e2
        · intro h h2
          exact h (List.mem_cons_of_mem _ h2)

/-- every name removed as "old" lies strictly below some remaining candidate -/
theorem old_lt {U : List Int} (hU : Asc U) (keep : Nat) (n : Int) (last : Option Int) :
    ∀ x ∈ greedyRemove n last (oldOf keep U), ∃ y ∈ U, x < y := by
  intro x hx
  have hx' := greedyRemove_subset _ _ _ x hx
  unfold oldOf at hx'
  split at hx'
  · rename_i hlen
    split at hx'
    · simp at hx'
    · rename_i hk
      have hdrop : U.drop (U.length - keep) ≠ [] := by
        intro h
        have := List.drop_eq_nil_iff.mp h
        omega
      obtain ⟨y, hy⟩ := List.exists_mem_of_ne_nil _ hdrop
      exact ⟨y, List.mem_of_mem_drop hy, asc_take_lt_drop hU _ hx' hy⟩
  · simp at hx'

theorem newerOf_of_mem {ovw : Bool} {s : Int} {l : List Int} (hs : s ∈ l) :
    newerOf ovw s l = if ovw then l.filter (fun x => decide (s < x)) else [] := by
  unfold newerOf
  have : l.contains s = true := by simpa using hs
  rw [this]
  cases ovw <;> simp

theorem uptoOf_of_mem {ovw : Bool} {s : Int} {l : List Int} (hs : s ∈ l) :
    uptoOf ovw s l = if ovw then l.filter (fun x => decide (x ≤ s)) else l := by
  unfold uptoOf
  have : l.contains s = true := by simpa using hs
  rw [this]
  cases ovw <;> simp

theorem asc_filter {l : List Int} (h : Asc l) (p : Int → Bool) : Asc (l.filter p) :=
  List.Pairwise.filter _ h

theorem uptoOf_asc {ovw : Bool} {s : Int} {l : List Int} (h : Asc l) : Asc (uptoOf ovw s l) := by
  unfold uptoOf
  split
  · exact asc_filter h _
  · exact h

theorem uptoOf_subset {ovw : Bool} {s : Int} {l : List Int} : ∀ x ∈ uptoOf ovw s l, x ∈ l := by
  intro x hx
  unfold uptoOf at hx
  split at hx
  · exact (List.mem_filter.mp hx).1
  · exact hx

/-- the names removed as old are never the largest candidate, and with `overwrite` they are below `s` -/
theorem old_not_top {l : List Int} (hl : Asc l) {s : Int} (hs : s ∈ l) (keep : Nat) (n : Int) (ovw : Bool) :
    ∀ x ∈ greedyRemove n none (oldOf keep (uptoOf ovw s l)),
      (∃ y ∈ l, x < y) ∧ (ovw = true → x < s) := by
  intro x hx
  obtain ⟨y, hy, hxy⟩ := old_lt (uptoOf_asc hl) keep n none x hx
  refine ⟨⟨y, uptoOf_subset y hy, hxy⟩, ?_⟩
  intro ho
  rw [uptoOf_of_mem hs, ho] at hy
  simp only [if_true, List.mem_filter, decide_eq_true_eq] at hy
  omega


/-! ### the directory while `_remove_invalid_ckpts` is under way -/

def Files.AllComplete (f : Files) : Prop := ∀ e ∈ f, e.2 ≠ Content.torn

theorem Files.mem_steps {f : Files} {x : Int} : x ∈ f.steps ↔ ∃ e ∈ f, e.1 = x := by
  simp [Files.steps]

theorem Files.mem_steps_put (F : Files) (s : Int) (c : Content) : s ∈ (F.put s c).steps := by
  rw [Files.steps_put]; exact (mem_insertStep s _ s).mpr (Or.inl rfl)

/-- After the commit, whatever prefix of the removal list has been carried out, the latest checkpoint is the
one that was latest before the save or the one just committed. -/
theorem partial_cleanup_latest {F : Files} (hS : F.Sorted) (s : Int) (c : Content)
    (keep : Nat) (n : Int) (ovw : Bool) (j : Nat) :
    (Files.delAll ((removals keep n ovw s (F.put s c).steps).take j) (F.put s c)).getLast? = F.getLast? ∨
    (Files.delAll ((removals keep n ovw s (F.put s c).steps).take j) (F.put s c)).getLast? = some (s, c) := by
  have hS1 := Files.sorted_put s c hS
  have hl : Asc (F.put s c).steps := (Files.sorted_iff_steps _).mp hS1
  have hs : s ∈ (F.put s c).steps := Files.mem_steps_put F s c
  have hnew : (s, c) ∈ F.put s c := (Files.mem_put_of_sorted hS _).mpr (Or.inl rfl)
  obtain ⟨M, hM⟩ : ∃ M, (F.put s c).getLast? = some M := by
    cases h : (F.put s c).getLast? with
    | none => rw [List.getLast?_eq_none_iff.mp h] at hnew; simp at hnew
    | some M => exact ⟨M, rfl⟩
  have hMmem := getLast?_mem hM
  have hMmax := Files.getLast_max hS1 hM
  have hkey : ∀ y ∈ (F.put s c).steps, y ≤ M.1 := by
    intro y hy
    obtain ⟨e, he, rfl⟩ := Files.mem_steps.mp hy
    exact hMmax e he
  have hold := old_not_top hl hs keep n ovw
  unfold removals
  rw [newerOf_of_mem hs]
  cases ovw with
  | false =>
    simp only [Bool.false_eq_true, if_false, List.nil_append]
    have hMnot : M.1 ∉ (greedyRemove n none (oldOf keep (uptoOf false s (F.put s c).steps))).take j := by
      intro h
      obtain ⟨⟨y, hy, hlt⟩, _⟩ := hold _ (List.mem_of_mem_take h)
      have := hkey y hy
      omega
    have hG : (Files.delAll ((greedyRemove n none (oldOf keep (uptoOf false s (F.put s c).steps))).take j)
        (F.put s c)).getLast? = some M := by
      apply Files.getLast_of_max (Files.sorted_delAll _ hS1)
      · exact Files.mem_delAll.mpr ⟨hMmem, hMnot⟩
      · intro x hx; exact hMmax x (Files.mem_delAll.mp hx).1
    rw [hG, ← hM]
    rcases Files.latest_put hS s c with h | ⟨h, _⟩
    · exact Or.inr h
    · exact Or.inl h
  | true =>
    simp only [if_true]
    by_cases hj : j < ((F.put s c).steps.filter (fun x => decide (s < x))).length
    · left
      rw [List.take_append_of_le_length (Nat.le_of_lt hj)]
      have hNasc : Asc ((F.put s c).steps.filter (fun x => decide (s < x))) := asc_filter hl _
      have hNne : (F.put s c).steps.filter (fun x => decide (s < x)) ≠ [] := by
        intro h; rw [h] at hj; simp at hj
      obtain ⟨y, hy⟩ := List.exists_mem_of_ne_nil _ hNne
      have hy' := List.mem_filter.mp hy
      have hsM : s < M.1 := by
        have := hkey y hy'.1
        have := of_decide_eq_true hy'.2
        omega
      have hMN : M.1 ∈ (F.put s c).steps.filter (fun x => decide (s < x)) :=
        List.mem_filter.mpr ⟨Files.mem_steps.mpr ⟨M, hMmem, rfl⟩, by simpa using hsM⟩
      have hNlast : ((F.put s c).steps.filter (fun x => decide (s < x))).getLast? = some M.1 :=
        asc_getLast_of_max hNasc hMN (fun x hx => hkey x (List.mem_filter.mp hx).1)
      have hMnot : M.1 ∉ ((F.put s c).steps.filter (fun x => decide (s < x))).take j := by
        intro h
        have hd : M.1 ∈ ((F.put s c).steps.filter (fun x => decide (s < x))).drop j := by
          apply getLast?_mem
          rw [List.getLast?_drop, if_neg (by omega)]
          exact hNlast
        have := asc_take_lt_drop hNasc j h hd
        omega
      have hG : (Files.delAll (((F.put s c).steps.filter (fun x => decide (s < x))).take j)
          (F.put s c)).getLast? = some M := by
        apply Files.getLast_of_max (Files.sorted_delAll _ hS1)
        · exact Files.mem_delAll.mpr ⟨hMmem, hMnot⟩
        · intro x hx; exact hMmax x (Files.mem_delAll.mp hx).1
      rw [hG]
      symm
      have hMF : M ∈ F := by
        rcases (Files.mem_put_of_sorted hS M).mp hMmem with e | ⟨e, _⟩
        · subst e; simp at hsM
        · exact e
      apply Files.getLast_of_max hS hMF
      intro x hx
      by_cases hxs : x.1 = s
      · omega
      · exact hMmax x ((Files.mem_put_of_sorted hS x).mpr (Or.inr ⟨hx, hxs⟩))
    · right
      have hj' : ((F.put s c).steps.filter (fun x => decide (s < x))).length ≤ j := by omega
      rw [List.take_append, List.take_of_length_le hj']
      apply Files.getLast_of_max (Files.sorted_delAll _ hS1)
      · apply Files.mem_delAll.mpr
        refine ⟨hnew, ?_⟩
        intro h
        rcases List.mem_append.mp h with h1 | h1
        · have := (List.mem_filter.mp h1).2
          simp at this
        · have := (hold _ (List.mem_of_mem_take h1)).2 rfl
          simp at this
      · intro x hx
        obtain ⟨hx1, hx2⟩ := Files.mem_delAll.mp hx
        have hxl : x.1 ∈ (F.put s c).steps := Files.mem_steps.mpr ⟨x, hx1, rfl⟩
        have : x.1 ∉ (F.put s c).steps.filter (fun x => decide (s < x)) :=
          fun h => hx2 (List.mem_append.mpr (Or.inl h))
        have : ¬ s < x.1 := fun h => this (List.mem_filter.mpr ⟨hxl, by simpa using h⟩)
        simp only
        omega


/-! ### effect of step sequences on the directory -/

def Files.damage (x : Int) (f : Files) : Files := if (f.get x).isSome then f.put x Content.torn else f

theorem Files.del_cons_ne {a : Int × Content} {s : Int} (h : a.1 ≠ s) (r : Files) :
    Files.del s (a :: r) = a :: Files.del s r := by
  simp [Files.del, List.filter_cons, h]

theorem Files.del_cons_eq {a : Int × Content} {s : Int} (h : a.1 = s) (r : Files) :
    Files.del s (a :: r) = Files.del s r := by
  simp [Files.del, List.filter_cons, h]

theorem Files.del_put_self (f : Files) (s : Int) (c : Content) : (f.put s c).del s = f.del s := by
  induction f with
  | nil => simp [Files.put, Files.del]
  | cons a r ih =>
    obtain ⟨y, cy⟩ := a
    simp only [Files.put]
    by_cases h1 : s < y
    · simp only [h1, if_true]
      rw [Files.del_cons_eq (a := (s, c)) rfl]
    · by_cases h2 : s = y
      · subst h2
        simp only [Int.lt_irrefl, if_false, if_true]
        rw [Files.del_cons_eq (a := (s, c)) rfl, Files.del_cons_eq (a := (s, cy)) rfl]
      · have h3 : y ≠ s := fun h => h2 h.symm
        simp only [h1, h2, if_false]
        rw [Files.del_cons_ne (a := (y, cy)) h3, Files.del_cons_ne (a := (y, cy)) h3, ih]

theorem Files.del_damage (f : Files) (x : Int) : (f.damage x).del x = f.del x := by
  unfold Files.damage
  split
  · exact Files.del_put_self f x _
  · rfl

theorem Files.get_put_self (f : Files) (s : Int) (c : Content) : (f.put s c).get s = some c := by
  induction f with
  | nil => simp [Files.put, Files.get]
  | cons a r ih =>
    obtain ⟨y, cy⟩ := a
    simp only [Files.put]
    by_cases h1 : s < y
    · simp [h1, Files.get]
    · by_cases h2 : s = y
      · subst h2; simp [Files.get]
      · have h3 : y ≠ s := fun h => h2 h.symm
        simp [h1, h2, Files.get, h3, ih]

theorem Files.del_eq_self_of_lt {r : Files} {s : Int} (h : ∀ e ∈ r, s < e.1) : Files.del s r = r := by
  simp only [Files.del]
  apply List.filter_eq_self.mpr
  intro e he
  have := h e he
  simp only [decide_eq_true_eq]; omega

theorem Files.put_del_self {f : Files} (h : f.Sorted) (s : Int) (c : Content) :
    (f.del s).put s c = f.put s c := by
  induction f with
  | nil => simp [Files.del, Files.put]
  | cons a r ih =>
    obtain ⟨y, cy⟩ := a
    have ha := List.pairwise_cons.mp h
    by_cases h1 : s < y
    · have hy : y ≠ s := by omega
      rw [Files.del_cons_ne (a := (y, cy)) hy, Files.del_eq_self_of_lt (fun e he => by have := ha.1 e he; simp only at this; omega)]
    · by_cases h2 : s = y
      · subst h2
        rw [Files.del_cons_eq (a := (s, cy)) rfl, Files.del_eq_self_of_lt (fun e he => ha.1 e he)]
        simp only [Files.put, Int.lt_irrefl, if_false, if_true]
        cases r with
        | nil => simp [Files.put]
        | cons b r2 =>
          obtain ⟨z, cz⟩ := b
          have : s < z := ha.1 (z, cz) List.mem_cons_self
          simp [Files.put, this]
      · have hy : y ≠ s := fun h => h2 h.symm
        rw [Files.del_cons_ne (a := (y, cy)) hy]
        simp only [Files.put, h1, h2, if_false]
        congr 1
        exact ih ha.2

theorem delAll_nil (f : Files) : Files.delAll [] f = f := rfl
theorem delAll_cons (x : Int) (r : List Int) (f : Files) :
    Files.delAll (x :: r) f = Files.delAll r (f.del x) := rfl

theorem apply_remove_ckpt (d : Dir) (x : Int) :
    apply (.remove (.ckpt x)) d = { d with ckpts := d.ckpts.del x } := rfl

theorem apply_damage_ckpt (d : Dir) (x : Int) :
    apply (.damage (.ckpt x)) d = { d with ckpts := d.ckpts.damage x } := by
  simp only [apply, Dir.get, Dir.put, Files.damage]
  by_cases h : (Files.get x d.ckpts).isSome = true
  · simp [h]
  · simp [h]

theorem run_nil (d : Dir) : run [] d = d := rfl
theorem run_cons (a : FsStep) (r : List FsStep) (d : Dir) : run (a :: r) d = run r (apply a d) := rfl
theorem run_append (a b : List FsStep) (d : Dir) : run (a ++ b) d = run b (run a d) := by
  simp [run, List.foldl_append]

/-- the whole clean-up removes exactly the listed names (both back-ends) -/
theorem run_cleanup_all (b : Backend) (L : List Int) (d : Dir) :
    run (L.flatMap (rmSteps b)) d = { d with ckpts := Files.delAll L d.ckpts } := by
  induction L generalizing d with
  | nil => simp [run_nil, delAll_nil]
  | cons x r ih =>
    cases b with
    | legacy =>
      simp only [List.flatMap_cons, rmSteps, List.cons_append, List.nil_append, run_cons,
        apply_remove_ckpt, ih, delAll_cons]
    | orbax =>
      simp only [List.flatMap_cons, rmSteps, List.cons_append, List.nil_append, run_cons,
        apply_remove_ckpt, apply_damage_ckpt, ih, delAll_cons, Files.del_damage]

/-- a prefix of the clean-up has removed a prefix of the listed names and, on the Orbax back-end, may have
half-deleted the next one -/
theorem run_cleanup_prefix (b : Backend) (L : List Int) (d : Dir) (k : Nat) :
    ∃ j, run ((L.flatMap (rmSteps b)).take k) d = { d with ckpts := Files.delAll (L.take j) d.ckpts } ∨
      (b = .orbax ∧ ∃ x, L[j]? = some x ∧
        run ((L.flatMap (rmSteps b)).take k) d =
          { d with ckpts := (Files.delAll (L.take j) d.ckpts).damage x }) := by
  induction L generalizing d k with
  | nil => exact ⟨0, Or.inl (by simp [run_nil, delAll_nil])⟩
  | cons x r ih =>
    cases b with
    | legacy =>
      cases k with
      | zero => exact ⟨0, Or.inl (by simp [run_nil, delAll_nil])⟩
      | succ k' =>
        obtain ⟨j, hj⟩ := ih (d := { d with ckpts := d.ckpts.del x }) (k := k')
        refine ⟨j + 1, ?_⟩
        simp only [List.flatMap_cons, rmSteps, List.cons_append, List.nil_append, List.take_succ_cons,
          run_cons, apply_remove_ckpt, delAll_cons]
        rcases hj with h | ⟨h, _⟩
        · exact Or.inl h
        · cases h
    | orbax =>
      cases k with
      | zero => exact ⟨0, Or.inl (by simp [run_nil, delAll_nil])⟩
      | succ k1 =>
        cases k1 with
        | zero =>
          refine ⟨0, Or.inr ⟨rfl, x, by simp, ?_⟩⟩
          simp [rmSteps, run_cons, run_nil, apply_damage_ckpt, delAll_nil]
        | succ k' =>
          obtain ⟨j, hj⟩ := ih (d := { d with ckpts := d.ckpts.del x }) (k := k')
          refine ⟨j + 1, ?_⟩
          simp only [List.flatMap_cons, rmSteps, List.cons_append, List.nil_append, List.take_succ_cons,
            run_cons, apply_remove_ckpt, apply_damage_ckpt, delAll_cons, Files.del_damage,
            List.getElem?_cons_succ]
          simpa using hj


/-! ### the steps before the commit -/

/-- steps that cannot change a final-named checkpoint -/
def FsStep.offCkpt : FsStep → Bool
  | .mkdir => true
  | .create (.ckpt _) => false
  | .create _ => true
  | .writeAll (.ckpt _) _ => false
  | .writeAll _ _ => true
  | .rename _ _ => false
  | .remove (.ckpt _) => false
  | .remove _ => true
  | .damage (.ckpt _) => false
  | .damage _ => true

theorem apply_offCkpt {st : FsStep} (h : st.offCkpt = true) (d : Dir) : (apply st d).ckpts = d.ckpts := by
  cases st with
  | mkdir => rfl
  | create n => cases n <;> simp_all [FsStep.offCkpt, apply, Dir.put]
  | writeAll n p =>
    cases n with
    | ckpt x => simp [FsStep.offCkpt] at h
    | tmp =>
      show (if (d.get .tmp).isSome then d.put .tmp (.complete p) else d).ckpts = d.ckpts
      by_cases hh : (d.get .tmp).isSome = true
      · rw [if_pos hh]; rfl
      · rw [if_neg hh]
    | otmp x =>
      show (if (d.get (.otmp x)).isSome then d.put (.otmp x) (.complete p) else d).ckpts = d.ckpts
      by_cases hh : (d.get (.otmp x)).isSome = true
      · rw [if_pos hh]; rfl
      · rw [if_neg hh]
  | rename a b => simp [FsStep.offCkpt] at h
  | remove n => cases n <;> simp_all [FsStep.offCkpt, apply, Dir.del]
  | damage n =>
    cases n with
    | ckpt x => simp [FsStep.offCkpt] at h
    | tmp =>
      show (if (d.get .tmp).isSome then d.put .tmp .torn else d).ckpts = d.ckpts
      by_cases hh : (d.get .tmp).isSome = true
      · rw [if_pos hh]; rfl
      · rw [if_neg hh]
    | otmp x =>
      show (if (d.get (.otmp x)).isSome then d.put (.otmp x) .torn else d).ckpts = d.ckpts
      by_cases hh : (d.get (.otmp x)).isSome = true
      · rw [if_pos hh]; rfl
      · rw [if_neg hh]

theorem run_offCkpt {sts : List FsStep} (h : ∀ x ∈ sts, x.offCkpt = true) (d : Dir) :
    (run sts d).ckpts = d.ckpts := by
  induction sts generalizing d with
  | nil => rfl
  | cons a r ih =>
    rw [run_cons, ih (fun x hx => h x (List.mem_cons_of_mem _ hx)), apply_offCkpt (h a List.mem_cons_self)]

/-- nothing at or above the saved step has to be deleted in place -/
def InPlaceFree (cfg : Cfg) (d : Dir) : Prop :=
  ¬ (cfg.overwrite = true ∧ ∃ x ∈ listing d, cfg.step ≤ x)

theorem prepare_offCkpt {cfg : Cfg} {d : Dir} (h : cfg.backend = .orbax → InPlaceFree cfg d) :
    ∀ x ∈ prepare cfg d, x.offCkpt = true := by
  intro x hx
  unfold prepare at hx
  cases hb : cfg.backend with
  | legacy =>
    simp only [hb, List.mem_cons, List.not_mem_nil, or_false] at hx
    rcases hx with e | e | e <;> subst e <;> rfl
  | orbax =>
    have hf := h hb
    simp only [hb] at hx
    have hA : (cfg.overwrite && (Files.get cfg.step d.ckpts).isSome) = false := by
      cases ho : cfg.overwrite with
      | false => simp
      | true =>
        cases hg : (Files.get cfg.step d.ckpts).isSome with
        | false => simp
        | true =>
          exfalso
          apply hf
          refine ⟨ho, cfg.step, ?_, Int.le_refl _⟩
          exact (Files.get_isSome_iff _ _).mp hg
    simp only [hA, Bool.false_eq_true, if_false, List.nil_append] at hx
    rcases List.mem_append.mp hx with e | e
    · split at e
      · simp only [List.mem_cons, List.not_mem_nil, or_false] at e
        rcases e with e | e <;> subst e <;> rfl
      · simp at e
    · simp only [List.mem_cons, List.not_mem_nil, or_false] at e
      rcases e with e | e <;> subst e <;> rfl

/-- the directory right after the commit: the new checkpoint is in place under its final name -/
theorem run_commit_ckpts {cfg : Cfg} {d : Dir} (hS : d.ckpts.Sorted) :
    (run (prepare cfg d ++ [commit cfg]) d).ckpts = d.ckpts.put cfg.step (.complete cfg.payload) := by
  cases hb : cfg.backend with
  | legacy =>
    simp [prepare, commit, tmpName, hb, run, apply, Dir.get, Dir.put, Dir.del]
  | orbax =>
    -- the part of `prepare` that deletes the destination in place
    have key : ∀ (d0 : Dir) (pre : List FsStep), (∀ x ∈ pre, x.offCkpt = true) →
        (run (pre ++ [.create (.otmp cfg.step), .writeAll (.otmp cfg.step) cfg.payload,
          .rename (.otmp cfg.step) (.ckpt cfg.step)]) d0).ckpts =
          d0.ckpts.put cfg.step (.complete cfg.payload) := by
      intro d0 pre hpre
      rw [run_append]
      have h0 := run_offCkpt hpre d0
      generalize run pre d0 = d1 at h0
      simp only [run, List.foldl_cons, List.foldl_nil, apply, Dir.get, Dir.put, Dir.del,
        Files.get_put_self, Option.isSome_some, if_true]
      rw [h0]
    unfold prepare commit tmpName
    simp only [hb]
    by_cases hA : (cfg.overwrite && (Files.get cfg.step d.ckpts).isSome) = true
    · simp only [hA, if_true, rmSteps, List.cons_append, List.nil_append, List.append_assoc, run_cons,
        apply_damage_ckpt, apply_remove_ckpt, Files.del_damage]
      have := key { d with ckpts := d.ckpts.del cfg.step }
        (if (Files.get cfg.step d.otmps).isSome = true then
          [FsStep.damage (Name.otmp cfg.step), FsStep.remove (Name.otmp cfg.step)] else [])
        (by intro x hx; split at hx
            · simp only [List.mem_cons, List.not_mem_nil, or_false] at hx
              rcases hx with e | e <;> subst e <;> rfl
            · simp at hx)
      simp only [List.append_assoc, List.cons_append, List.nil_append] at this
      rw [this]
      exact Files.put_del_self hS _ _
    · have hA' : (cfg.overwrite && (Files.get cfg.step d.ckpts).isSome) = false := by simpa using hA
      simp only [hA', Bool.false_eq_true, if_false, List.nil_append, List.append_assoc]
      have := key d
        (if (Files.get cfg.step d.otmps).isSome = true then
          [FsStep.damage (Name.otmp cfg.step), FsStep.remove (Name.otmp cfg.step)] else [])
        (by intro x hx; split at hx
            · simp only [List.mem_cons, List.not_mem_nil, or_false] at hx
              rcases hx with e | e <;> subst e <;> rfl
            · simp at hx)
      first
        | exact this
        | (simp only [List.append_assoc, List.cons_append, List.nil_append]; exact this)


/-! ### shape of every crash state -/

theorem saveSteps_ok {cfg : Cfg} {d : Dir} (hc : check cfg d = .ok ()) :
    saveSteps cfg d = .ok ((prepare cfg d ++ [commit cfg]) ++
      cleanup cfg (run (prepare cfg d ++ [commit cfg]) d)) := by
  simp [saveSteps, hc]

theorem saveSteps_err {cfg : Cfg} {d : Dir} {e : Err} (hc : check cfg d = .error e) :
    saveSteps cfg d = .error e := by
  simp [saveSteps, hc]

theorem listing_after_commit {cfg : Cfg} {d : Dir} (hS : d.ckpts.Sorted) :
    listing (run (prepare cfg d ++ [commit cfg]) d) =
      (d.ckpts.put cfg.step (.complete cfg.payload)).steps := by
  simp [listing, run_commit_ckpts hS]

/-- Every crash state of a save either still has the checkpoints it had (the crash came before the commit)
or has the new checkpoint committed and a prefix of the removal list carried out (on Orbax the next
directory of that list may be half deleted). -/
theorem crashed_shape {cfg : Cfg} {d : Dir} (hS : d.ckpts.Sorted) (hc : check cfg d = .ok ())
    (hf : cfg.backend = .orbax → InPlaceFree cfg d) (k : Nat) :
    (crashed cfg d k).ckpts = d.ckpts ∨
    ∃ j,
      (crashed cfg d k).ckpts =
        Files.delAll ((removals cfg.keep cfg.everyN cfg.overwrite cfg.step
          (d.ckpts.put cfg.step (.complete cfg.payload)).steps).take j)
          (d.ckpts.put cfg.step (.complete cfg.payload)) ∨
      (cfg.backend = .orbax ∧ ∃ x,
        (removals cfg.keep cfg.everyN cfg.overwrite cfg.step
          (d.ckpts.put cfg.step (.complete cfg.payload)).steps)[j]? = some x ∧
        (crashed cfg d k).ckpts =
          (Files.delAll ((removals cfg.keep cfg.everyN cfg.overwrite cfg.step
            (d.ckpts.put cfg.step (.complete cfg.payload)).steps).take j)
            (d.ckpts.put cfg.step (.complete cfg.payload))).damage x) := by
  unfold crashed
  rw [saveSteps_ok hc]
  simp only
  by_cases hk : k ≤ (prepare cfg d).length
  · left
    rw [List.take_append_of_le_length (by simp; omega), List.take_append_of_le_length hk]
    apply run_offCkpt
    intro x hx
    exact prepare_offCkpt hf x (List.mem_of_mem_take hx)
  · right
    have hlen : (prepare cfg d ++ [commit cfg]).length ≤ k := by simp; omega
    rw [List.take_append, List.take_of_length_le hlen, run_append]
    unfold cleanup
    rw [listing_after_commit hS]
    obtain ⟨j, hj⟩ := run_cleanup_prefix cfg.backend
      (removals cfg.keep cfg.everyN cfg.overwrite cfg.step (d.ckpts.put cfg.step (.complete cfg.payload)).steps)
      (run (prepare cfg d ++ [commit cfg]) d) (k - (prepare cfg d ++ [commit cfg]).length)
    refine ⟨j, ?_⟩
    rcases hj with h | ⟨hb, x, hx, h⟩
    · left
      rw [h]
      simp only [run_commit_ckpts hS]
    · right
      refine ⟨hb, x, hx, ?_⟩
      rw [h]
      simp only [run_commit_ckpts hS]

/-- a completed save: the directory after the commit with every listed removal carried out -/
theorem save_ok_ckpts {cfg : Cfg} {d d' : Dir} (hS : d.ckpts.Sorted) (h : save cfg d = .ok d') :
    d'.ckpts = Files.delAll (removals cfg.keep cfg.everyN cfg.overwrite cfg.step
      (d.ckpts.put cfg.step (.complete cfg.payload)).steps) (d.ckpts.put cfg.step (.complete cfg.payload)) := by
  unfold save at h
  cases hc : check cfg d with
  | error e => rw [saveSteps_err hc] at h; cases h
  | ok u =>
    cases u
    rw [saveSteps_ok hc] at h
    simp only [Except.ok.injEq] at h
    subst h
    rw [run_append]
    unfold cleanup
    rw [listing_after_commit hS, run_cleanup_all]
    simp only [run_commit_ckpts hS]


/-! ### the retention policy -/

/-- what stays of the candidates `U` (already cut at `s` when `overwrite`) -/
def keptOf (keep : Nat) (n : Int) (U : List Int) : List Int :=
  if keep = 0 then U
  else greedyKeep n none (U.take (U.length - keep)) ++ U.drop (U.length - keep)

theorem keptOf_sublist (keep : Nat) (n : Int) (U : List Int) : (keptOf keep n U).Sublist U := by
  unfold keptOf
  split
  · exact List.Sublist.refl _
  · have h := List.Sublist.append (greedyKeep_sublist n none (U.take (U.length - keep)))
      (List.Sublist.refl (U.drop (U.length - keep)))
    rwa [List.take_append_drop] at h

theorem mem_keptOf {U : List Int} (hU : Asc U) (keep : Nat) (n : Int) (x : Int) :
    x ∈ keptOf keep n U ↔ (x ∈ U ∧ x ∉ greedyRemove n none (oldOf keep U)) := by
  unfold keptOf oldOf
  by_cases hk0 : keep = 0
  · subst hk0
    simp [greedyRemove]
  · simp only [hk0, if_false]
    by_cases hlen : keep < U.length
    · simp only [hlen, if_true, List.mem_append]
      have hnd : (U.take (U.length - keep)).Nodup := asc_nodup (List.Pairwise.sublist (List.take_sublist _ _) hU)
      constructor
      · rintro (h | h)
        · have hx := (greedyKeep_sublist _ _ _).subset h
          exact ⟨List.mem_of_mem_take hx, (greedy_partition n none hnd x hx).mp h⟩
        · refine ⟨List.mem_of_mem_drop h, ?_⟩
          intro hr
          have := asc_take_lt_drop hU _ (greedyRemove_subset _ _ _ x hr) h
          omega
      · rintro ⟨hxU, hnr⟩
        rw [← List.take_append_drop (U.length - keep) U] at hxU
        rcases List.mem_append.mp hxU with h | h
        · exact Or.inl ((greedy_partition n none hnd x h).mpr hnr)
        · exact Or.inr h
    · have : U.length - keep = 0 := by omega
      simp [hlen, this, greedyKeep, greedyRemove]

theorem policy_eq_keptOf (keep : Nat) (n : Int) (ovw : Bool) (s : Int) (before : List Int) :
    policy keep n ovw s before = keptOf keep n (uptoOf ovw s (insertStep s before)) := by
  have hs : s ∈ insertStep s before := (mem_insertStep s before s).mpr (Or.inl rfl)
  unfold policy keptOf
  rw [uptoOf_of_mem hs]

/-- the listing after carrying out every removal is what the policy states -/
theorem filter_removals_eq_policy {before : List Int} (hb : Asc before) (keep : Nat) (n : Int) (ovw : Bool)
    (s : Int) :
    (insertStep s before).filter (fun x => decide (x ∉ removals keep n ovw s (insertStep s before))) =
      policy keep n ovw s before := by
  have hl : Asc (insertStep s before) := asc_insertStep s hb
  have hs : s ∈ insertStep s before := (mem_insertStep s before s).mpr (Or.inl rfl)
  rw [policy_eq_keptOf]
  apply asc_ext (asc_filter hl _)
    (List.Pairwise.sublist (keptOf_sublist _ _ _) (uptoOf_asc hl))
  intro x
  rw [mem_keptOf (uptoOf_asc hl)]
  simp only [List.mem_filter, decide_eq_true_eq]
  unfold removals
  rw [newerOf_of_mem hs, uptoOf_of_mem hs]
  cases ovw with
  | false => simp
  | true =>
    simp only [if_true, List.mem_append, List.mem_filter, decide_eq_true_eq, not_or, not_and]
    constructor
    · rintro ⟨h1, h2, h3⟩
      exact ⟨⟨h1, by have := h2 h1; omega⟩, h3⟩
    · rintro ⟨⟨h1, h2⟩, h3⟩
      exact ⟨h1, fun _ => by omega, h3⟩


/-! ### when nothing above the new step has to go -/

theorem newerOf_nil_of_free {cfg : Cfg} {d : Dir} (hf : InPlaceFree cfg d) (c : Content) :
    newerOf cfg.overwrite cfg.step (d.ckpts.put cfg.step c).steps = [] := by
  unfold newerOf
  cases ho : cfg.overwrite with
  | false => simp
  | true =>
    simp only [Bool.true_and]
    split
    · apply List.filter_eq_nil_iff.mpr
      intro x hx
      simp only [decide_eq_true_eq]
      intro hlt
      rw [Files.steps_put] at hx
      rcases (mem_insertStep _ _ _).mp hx with e | e
      · omega
      · exact hf ⟨ho, x, e, by omega⟩
    · rfl

theorem removals_lt_top {F : Files} (hS : F.Sorted) (s : Int) (c : Content) (keep : Nat) (n : Int) (ovw : Bool)
    (hN : newerOf ovw s (F.put s c).steps = []) {M : Int × Content} (hM : (F.put s c).getLast? = some M) :
    ∀ x ∈ removals keep n ovw s (F.put s c).steps, x < M.1 := by
  intro x hx
  have hS1 := Files.sorted_put s c hS
  have hl : Asc (F.put s c).steps := (Files.sorted_iff_steps _).mp hS1
  have hs : s ∈ (F.put s c).steps := Files.mem_steps_put F s c
  unfold removals at hx
  rw [hN, List.nil_append] at hx
  obtain ⟨⟨y, hy, hlt⟩, _⟩ := old_not_top hl hs keep n ovw x hx
  obtain ⟨e, he, rfl⟩ := Files.mem_steps.mp hy
  have := Files.getLast_max hS1 hM e he
  omega

theorem partial_cleanup_top {F : Files} (hS : F.Sorted) (s : Int) (c : Content) (keep : Nat) (n : Int) (ovw : Bool)
    (hN : newerOf ovw s (F.put s c).steps = []) (j : Nat) :
    (Files.delAll ((removals keep n ovw s (F.put s c).steps).take j) (F.put s c)).getLast? =
      (F.put s c).getLast? := by
  have hS1 := Files.sorted_put s c hS
  have hnew : (s, c) ∈ F.put s c := (Files.mem_put_of_sorted hS _).mpr (Or.inl rfl)
  obtain ⟨M, hM⟩ : ∃ M, (F.put s c).getLast? = some M := by
    cases h : (F.put s c).getLast? with
    | none => rw [List.getLast?_eq_none_iff.mp h] at hnew; simp at hnew
    | some M => exact ⟨M, rfl⟩
  rw [hM]
  apply Files.getLast_of_max (Files.sorted_delAll _ hS1)
  · apply Files.mem_delAll.mpr
    refine ⟨getLast?_mem hM, ?_⟩
    intro h
    have := removals_lt_top hS s c keep n ovw hN hM _ (List.mem_of_mem_take h)
    omega
  · intro x hx
    exact Files.getLast_max hS1 hM x (Files.mem_delAll.mp hx).1

/-- when the new step is above everything listed, it survives the clean-up at every stage -/
theorem new_survives_if_top {F : Files} (hS : F.Sorted) (s : Int) (c : Content) (keep : Nat) (n : Int) (ovw : Bool)
    (htop : ∀ x ∈ F, x.1 < s) (j : Nat) :
    (s, c) ∈ Files.delAll ((removals keep n ovw s (F.put s c).steps).take j) (F.put s c) := by
  have hS1 := Files.sorted_put s c hS
  have hl : Asc (F.put s c).steps := (Files.sorted_iff_steps _).mp hS1
  have hs : s ∈ (F.put s c).steps := Files.mem_steps_put F s c
  apply Files.mem_delAll.mpr
  refine ⟨(Files.mem_put_of_sorted hS _).mpr (Or.inl rfl), ?_⟩
  intro h
  have h' := List.mem_of_mem_take h
  unfold removals at h'
  rcases List.mem_append.mp h' with h1 | h1
  · rw [newerOf_of_mem hs] at h1
    split at h1
    · have := (List.mem_filter.mp h1).2
      simp at this
    · simp at h1
  · obtain ⟨⟨y, hy, hlt⟩, _⟩ := old_not_top hl hs keep n ovw s h1
    rw [Files.steps_put] at hy
    rcases (mem_insertStep _ _ _).mp hy with e | e
    · omega
    · obtain ⟨e', he', rfl⟩ := Files.mem_steps.mp e
      have := htop e' he'
      omega

/-! ### a half-deleted directory -/

theorem Files.damage_of_not_mem {f : Files} {x : Int} (h : x ∉ f.steps) : f.damage x = f := by
  unfold Files.damage
  have : (f.get x).isSome = false := by
    cases hg : (f.get x).isSome with
    | false => rfl
    | true => exact absurd ((Files.get_isSome_iff f x).mp hg) h
  simp [this]

theorem Files.damage_of_mem {f : Files} {x : Int} (h : x ∈ f.steps) : f.damage x = f.put x Content.torn := by
  unfold Files.damage
  simp [(Files.get_isSome_iff f x).mpr h]

theorem Files.sorted_damage {f : Files} (hS : f.Sorted) (x : Int) : (f.damage x).Sorted := by
  unfold Files.damage
  split
  · exact Files.sorted_put _ _ hS
  · exact hS

theorem Files.mem_damage {f : Files} (hS : f.Sorted) (x : Int) (e : Int × Content) :
    e ∈ f.damage x → (e = (x, Content.torn) ∧ x ∈ f.steps) ∨ (e ∈ f ∧ e.1 ≠ x) := by
  by_cases hx : x ∈ f.steps
  · rw [Files.damage_of_mem hx]
    intro he
    rcases (Files.mem_put_of_sorted hS e).mp he with h | h
    · exact Or.inl ⟨h, hx⟩
    · exact Or.inr h
  · rw [Files.damage_of_not_mem hx]
    intro he
    exact Or.inr ⟨he, fun h => hx (Files.mem_steps.mpr ⟨e, he, h⟩)⟩

theorem Files.damage_getLast {f : Files} (hS : f.Sorted) (x : Int)
    (hx : ∀ m, f.getLast? = some m → x < m.1) : (f.damage x).getLast? = f.getLast? := by
  by_cases hxm : x ∈ f.steps
  · rw [Files.damage_of_mem hxm]
    cases hl : f.getLast? with
    | none =>
      have : f = [] := List.getLast?_eq_none_iff.mp hl
      subst this; simp [Files.steps] at hxm
    | some m =>
      have hlt := hx m hl
      apply Files.getLast_of_max (Files.sorted_put _ _ hS)
      · exact (Files.mem_put_of_sorted hS m).mpr (Or.inr ⟨getLast?_mem hl, by omega⟩)
      · intro y hy
        rcases (Files.mem_put_of_sorted hS y).mp hy with e | ⟨e, _⟩
        · subst e; simp only; omega
        · exact Files.getLast_max hS hl y e
  · rw [Files.damage_of_not_mem hxm]


/-- a crash that comes no later than the last step before the commit rename leaves the final names untouched -/
theorem crashed_before_commit {cfg : Cfg} {d : Dir} (hc : check cfg d = .ok ())
    (hf : cfg.backend = .orbax → InPlaceFree cfg d) {k : Nat} (hk : k ≤ (prepare cfg d).length) :
    (crashed cfg d k).ckpts = d.ckpts := by
  unfold crashed
  rw [saveSteps_ok hc]
  simp only
  rw [List.take_append_of_le_length (by simp; omega), List.take_append_of_le_length hk]
  apply run_offCkpt
  intro x hx
  exact prepare_offCkpt hf x (List.mem_of_mem_take hx)

end Flax.Ckpt
