/-
Simulation between a module program and the same program with its observers (`sow`,
`capture_intermediates`) removed: the two runs agree on everything outside the observation
collections `S`.  Used by C01 (`observe_noninterference`).
-/
import Flax.Proofs.ScopeLemmas

namespace Flax.ObsSim
open Flax.Filter (LFilter inFilter)
open Flax.Scope Flax.ModuleTree Flax.ScopeLemmas

/-! ### key-only predicates and `upsert` -/

theorem any_upsert_key (P : Path → Bool) (q : Path) (v : Val) (l : List (Path × Val)) :
    (upsert q v l).any (fun kv => P kv.1) = (l.any (fun kv => P kv.1) || P q) := by
  induction l with
  | nil => simp [upsert]
  | cons kv rest ih =>
    obtain ⟨k, w⟩ := kv
    by_cases hk : k = q
    · subst hk
      simp only [upsert, if_true, List.any_cons]
      cases P k <;> simp
    · simp only [upsert, hk, if_false, List.any_cons, ih, Bool.or_assoc]

theorem properPrefix_cons_ne (a b : String) (as bs : Path) (h : a ≠ b) :
    properPrefix (a :: as) (b :: bs) = false := by
  simp [properPrefix, List.isPrefixOf, h]

/-! ### the store relation -/

/-- `s` (program with observers) and `t` (observers removed) agree outside the collections `S` -/
structure Sim (S : List String) (s t : Store) : Prop where
  rngs_eq : t.rngs = s.rngs
  mut_eq : ∀ c, c ∉ S → inFilter t.mutable c = inFilter s.mutable c
  vars_eq : ∀ c rest, c ∉ S → lookupP (c :: rest) t.vars = lookupP (c :: rest) s.vars
  hascol_eq : ∀ c, c ∉ S → hasCol t c = hasCol s c
  empty_eq : ∀ c, c ∉ S → colEmpty t c = colEmpty s c
  conflict_eq : ∀ c rest, c ∉ S → conflict t.vars (c :: rest) = conflict s.vars (c :: rest)

variable {S : List String}

theorem Sim.getVar_eq {s t : Store} (h : Sim S s t) {c : String} (hc : c ∉ S) (π : Path) (n : String) :
    getVar t π c n = getVar s π c n := h.vars_eq c _ hc

theorem Sim.hasVar_eq {s t : Store} (h : Sim S s t) {c : String} (hc : c ∉ S) (π : Path) (n : String) :
    hasVar t π c n = hasVar s π c n := by unfold hasVar; rw [h.getVar_eq hc]

theorem Sim.isMutable_eq {s t : Store} (h : Sim S s t) {c : String} (hc : c ∉ S) :
    isMutable t c = isMutable s c := h.mut_eq c hc

theorem hasCol_put (s : Store) (col c : String) (vars : List (Path × Val)) (d : Bool) (i : Nat) :
    hasCol { s with cols := if hasCol s col then s.cols else s.cols ++ [(col, true)], vars := vars,
                    dirty := d, inits := i } c
      = (hasCol s c || decide (col = c)) := by
  unfold hasCol
  by_cases hh : (s.cols.any fun c => decide (c.1 = col)) = true
  · simp only [hh, if_true]
    by_cases hcc : col = c
    · subst hcc; simp [hh]
    · simp [hcc]
  · simp only [hh, Bool.false_eq_true, if_false, List.any_append, List.any_cons, List.any_nil, Bool.or_false]

theorem colEmpty_upsert (s : Store) (q : Path) (v : Val) (c : String) (cols : List (String × Bool)) (d : Bool) :
    colEmpty { s with cols := cols, vars := upsert q v s.vars, dirty := d } c
      = (colEmpty s c && !decide (q.head? = some c)) := by
  unfold colEmpty
  simp only [any_upsert_key (fun k => decide (k.head? = some c)), Bool.not_or]

/-- a write outside `S` performed by both runs keeps them related and has the same outcome -/
theorem putVar_both {s t : Store} (hsim : Sim S s t) {col : String} (hc : col ∉ S) (π : Path) (n : String)
    (v : Val) : (putVar π col n v t).1 = (putVar π col n v s).1 ∧
      Sim S (putVar π col n v s).2 (putVar π col n v t).2 := by
  unfold putVar
  rw [hsim.isMutable_eq hc]
  by_cases hm : isMutable s col = true
  · simp only [hm, Bool.not_true, Bool.false_eq_true, if_false]
    have hcf : conflict t.vars (fullPath col π n) = conflict s.vars (fullPath col π n) :=
      hsim.conflict_eq col _ hc
    rw [hcf]
    by_cases hcc : conflict s.vars (fullPath col π n) = true
    · simp only [hcc, if_true]; exact ⟨trivial, hsim⟩
    · simp only [hcc, Bool.false_eq_true, if_false]
      refine ⟨trivial, ?_⟩
      refine ⟨hsim.rngs_eq, hsim.mut_eq, ?_, ?_, ?_, ?_⟩
      · intro c rest hcS
        by_cases hq : (c :: rest) = fullPath col π n
        · simp only [hq, lookupP_upsert_self]
        · simp only [lookupP_upsert_ne _ _ _ _ hq]; exact hsim.vars_eq c rest hcS
      · intro c hcS
        rw [hasCol_put, hasCol_put, hsim.hascol_eq c hcS]
      · intro c hcS
        rw [colEmpty_upsert, colEmpty_upsert, hsim.empty_eq c hcS]
      · intro c rest hcS
        unfold conflict
        rw [any_upsert_key (fun k => properPrefix k (c :: rest) || properPrefix (c :: rest) k),
            any_upsert_key (fun k => properPrefix k (c :: rest) || properPrefix (c :: rest) k)]
        have := hsim.conflict_eq c rest hcS
        unfold conflict at this
        rw [this]
  · simp only [hm, Bool.not_false, if_true]; exact ⟨trivial, hsim⟩

/-- a write into `S` performed only by the run with observers keeps the runs related -/
theorem putVar_left {s t : Store} (hsim : Sim S s t) {col : String} (hc : col ∈ S) (π : Path) (n : String)
    (v : Val) : Sim S (putVar π col n v s).2 t := by
  unfold putVar
  by_cases hm : isMutable s col = true
  · simp only [hm, Bool.not_true, Bool.false_eq_true, if_false]
    by_cases hcc : conflict s.vars (fullPath col π n) = true
    · simp only [hcc, if_true]; exact hsim
    · simp only [hcc, Bool.false_eq_true, if_false]
      refine ⟨hsim.rngs_eq, hsim.mut_eq, ?_, ?_, ?_, ?_⟩
      · intro c rest hcS
        have hq : (c :: rest) ≠ fullPath col π n := by
          intro heq; unfold fullPath at heq
          have : c = col := by injection heq
          rw [this] at hcS; exact hcS hc
        simp only [lookupP_upsert_ne _ _ _ _ hq]; exact hsim.vars_eq c rest hcS
      · intro c hcS
        rw [hasCol_put, hsim.hascol_eq c hcS]
        have : col ≠ c := fun h => hcS (h ▸ hc)
        simp [this]
      · intro c hcS
        rw [colEmpty_upsert, hsim.empty_eq c hcS]
        have : col ≠ c := fun h => hcS (h ▸ hc)
        simp [fullPath, this]
      · intro c rest hcS
        unfold conflict
        rw [any_upsert_key (fun k => properPrefix k (c :: rest) || properPrefix (c :: rest) k)]
        have := hsim.conflict_eq c rest hcS
        unfold conflict at this
        rw [this]
        have hne : col ≠ c := fun h => hcS (h ▸ hc)
        simp [fullPath, properPrefix_cons_ne _ _ _ _ hne, properPrefix_cons_ne _ _ _ _ hne.symm]
  · simp only [hm, Bool.not_false, if_true]; exact hsim


/-! ### reservations: the run without observers reserves fewer names -/

def ResSub (r' r : Res) : Prop := ∀ e ∈ r', e ∈ r

theorem ResSub.refl (r : Res) : ResSub r r := fun _ h => h

theorem nameReserved_mono {r' r : Res} (h : ResSub r' r) (n : String) (c : Option String)
    (hn : nameReserved r' n c = true) : nameReserved r n c = true := by
  unfold nameReserved at hn ⊢
  rw [List.any_eq_true] at hn ⊢
  obtain ⟨e, he, hp⟩ := hn
  exact ⟨e, h e he, hp⟩

theorem reserve_sim {r' r r1 : Res} (h : ResSub r' r) {n : String} {c : Option String}
    (hr : reserve r n c = .ok r1) : ∃ r1', reserve r' n c = .ok r1' ∧ ResSub r1' r1 := by
  unfold reserve at hr ⊢
  split at hr
  · exact absurd hr (by simp)
  · rename_i hnr
    injection hr with hr
    subst hr
    have : nameReserved r' n c = false := by
      cases hh : nameReserved r' n c with
      | false => rfl
      | true => exact absurd (nameReserved_mono h n c hh) hnr
    refine ⟨(n, c) :: r', by simp [this], ?_⟩
    intro e he
    rcases List.mem_cons.mp he with h1 | h1
    · subst h1; exact List.mem_cons_self
    · exact List.mem_cons_of_mem _ (h e h1)

theorem ResSub.cons_right {r' r : Res} (h : ResSub r' r) (e : String × Option String) : ResSub r' (e :: r) :=
  fun x hx => List.mem_cons_of_mem _ (h x hx)

theorem reserve_ok_eq {r r1 : Res} {n : String} {c : Option String} (hr : reserve r n c = .ok r1) :
    r1 = (n, c) :: r := by
  unfold reserve at hr
  split at hr
  · exact absurd hr (by simp)
  · injection hr with hr; exact hr.symm

theorem Sim.bump {s t : Store} (h : Sim S s t) :
    Sim S { s with inits := s.inits + 1 } { t with inits := t.inits + 1 } :=
  ⟨h.rngs_eq, h.mut_eq, h.vars_eq, h.hascol_eq, h.empty_eq, h.conflict_eq⟩

/-! ### operations on collections outside `S` -/

theorem scopeParam_sim {s t s1 : Store} {r r' r1 : Res} (hS : "params" ∉ S) (hsim : Sim S s t)
    (hres : ResSub r' r) {π : Path} {n : String} {shape : List Nat} {init : Int} {v : Val}
    (h : scopeParam π n shape init r s = (.ok (v, r1), s1)) :
    ∃ r1' t1, scopeParam π n shape init r' t = (.ok (v, r1'), t1) ∧ ResSub r1' r1 ∧ Sim S s1 t1 := by
  unfold scopeParam at h ⊢
  cases hr : reserve r n (some "params") with
  | error e => simp [hr] at h
  | ok r2 =>
    obtain ⟨r2', hr', hsub⟩ := reserve_sim hres hr
    simp only [hr] at h
    simp only [hr', hsim.getVar_eq hS, hsim.isMutable_eq hS, hsim.empty_eq _ hS]
    cases hg : getVar s π "params" n with
    | some v0 =>
      simp only [hg] at h ⊢
      cases hl : v0.leafShapes with
      | nil =>
        simp only [hl] at h ⊢
        simp only [Prod.mk.injEq, Except.ok.injEq] at h
        obtain ⟨⟨rfl, rfl⟩, rfl⟩ := h
        exact ⟨r2', t, rfl, hsub, hsim⟩
      | cons sh rest =>
        simp only [hl] at h ⊢
        by_cases hsh : sh = shape
        · simp only [hsh, if_true] at h ⊢
          simp only [Prod.mk.injEq, Except.ok.injEq] at h
          obtain ⟨⟨rfl, rfl⟩, rfl⟩ := h
          exact ⟨r2', t, rfl, hsub, hsim⟩
        · simp [hsh] at h
    | none =>
      simp only [hg] at h ⊢
      by_cases hm : isMutable s "params" = true
      · simp only [hm, Bool.not_true, Bool.false_eq_true, if_false] at h ⊢
        by_cases hrng : "params" ∈ s.rngs
        · have hrng' : "params" ∈ t.rngs := by rw [hsim.rngs_eq]; exact hrng
          simp only [hrng, hrng', decide_true, Bool.not_true, Bool.false_eq_true, if_false] at h ⊢
          have hb := putVar_both (hsim.bump) hS π n (Val.full shape init)
          cases hp : putVar π "params" n (Val.full shape init) { s with inits := s.inits + 1 } with
          | mk res s2 =>
            rw [hp] at h hb
            cases res with
            | error e => simp at h
            | ok u =>
              simp only [Prod.mk.injEq, Except.ok.injEq] at h
              obtain ⟨⟨rfl, rfl⟩, rfl⟩ := h
              cases hp' : putVar π "params" n (Val.full shape init) { t with inits := t.inits + 1 } with
              | mk res' t2 =>
                rw [hp'] at hb
                simp only at hb
                obtain ⟨hb1, hb2⟩ := hb
                subst hb1
                exact ⟨r2', t2, rfl, hsub, hb2⟩
        · simp [hrng] at h
      · simp only [hm, Bool.not_false, if_true] at h
        split at h <;> simp at h

theorem scopeVariable_sim {s t s1 : Store} {r r' r1 : Res} {col : String} (hS : col ∉ S) (hsim : Sim S s t)
    (hres : ResSub r' r) {π : Path} {n : String} {iv : Val}
    (h : scopeVariable π col n iv r s = (.ok r1, s1)) :
    ∃ r1' t1, scopeVariable π col n iv r' t = (.ok r1', t1) ∧ ResSub r1' r1 ∧ Sim S s1 t1 := by
  unfold scopeVariable at h ⊢
  cases hr : reserve r n (some col) with
  | error e => simp [hr] at h
  | ok r2 =>
    obtain ⟨r2', hr', hsub⟩ := reserve_sim hres hr
    simp only [hr] at h
    simp only [hr', hsim.hasVar_eq hS, hsim.isMutable_eq hS, hsim.empty_eq _ hS]
    by_cases hv : hasVar s π col n = true
    · simp only [hv, if_true] at h ⊢
      simp only [Prod.mk.injEq, Except.ok.injEq] at h
      obtain ⟨rfl, rfl⟩ := h
      exact ⟨r2', t, rfl, hsub, hsim⟩
    · simp only [hv, Bool.false_eq_true, if_false] at h ⊢
      by_cases hm : isMutable s col = true
      · simp only [hm, Bool.not_true, Bool.false_eq_true, if_false] at h ⊢
        have hb := putVar_both hsim hS π n iv
        cases hp : putVar π col n iv s with
        | mk res s2 =>
          rw [hp] at h hb
          cases res with
          | error e => simp at h
          | ok u =>
            simp only [Prod.mk.injEq, Except.ok.injEq] at h
            obtain ⟨rfl, rfl⟩ := h
            cases hp' : putVar π col n iv t with
            | mk res' t2 =>
              rw [hp'] at hb
              simp only at hb
              obtain ⟨hb1, hb2⟩ := hb
              subst hb1
              exact ⟨r2', t2, rfl, hsub, hb2⟩
      · simp only [hm, Bool.not_false, if_true] at h
        split at h <;> simp at h

theorem putVar_sim {s t s1 : Store} {col : String} (hS : col ∉ S) (hsim : Sim S s t) {π : Path} {n : String}
    {v : Val} (h : putVar π col n v s = (.ok (), s1)) :
    ∃ t1, putVar π col n v t = (.ok (), t1) ∧ Sim S s1 t1 := by
  have hb := putVar_both hsim hS π n v
  rw [h] at hb
  cases hp' : putVar π col n v t with
  | mk res' t2 =>
    rw [hp'] at hb
    simp only at hb
    obtain ⟨hb1, hb2⟩ := hb
    subst hb1
    exact ⟨t2, rfl, hb2⟩

theorem modulePerturb_sim {s t s1 : Store} {r r' r1 : Res} {col : String} (hS : col ∉ S) (hsim : Sim S s t)
    (hres : ResSub r' r) {π : Path} {n : String} {e y : Int}
    (h : modulePerturb π col n e r s = (.ok (y, r1), s1)) :
    ∃ r1' t1, modulePerturb π col n e r' t = (.ok (y, r1'), t1) ∧ ResSub r1' r1 ∧ Sim S s1 t1 := by
  unfold modulePerturb at h ⊢
  simp only [hsim.hasVar_eq hS, hsim.isMutable_eq hS]
  -- second half, common to both branches of the first
  have second : ∀ (s2 t2 : Store) (q q' : Res), Sim S s2 t2 → ResSub q' q →
      (if hasCol s2 col then
        match getVar s2 π col n with
        | some (.tensor _ d) => ((.ok (e * (d.length : Int) + sumInt d, q) : Except Err (Int × Res)), s2)
        | some (.tup _) => (.error .unsupported, s2)
        | none => (.error .perturbMissing, s2)
       else (.ok (e, q), s2)) = (.ok (y, r1), s1) →
      ∃ r1' t1, (if hasCol t2 col then
        match getVar t2 π col n with
        | some (.tensor _ d) => ((.ok (e * (d.length : Int) + sumInt d, q') : Except Err (Int × Res)), t2)
        | some (.tup _) => (.error .unsupported, t2)
        | none => (.error .perturbMissing, t2)
       else (.ok (e, q'), t2)) = (.ok (y, r1'), t1) ∧ ResSub r1' r1 ∧ Sim S s1 t1 := by
    intro s2 t2 q q' hs2 hq hh
    rw [hs2.hascol_eq col hS, hs2.getVar_eq hS]
    by_cases hc : hasCol s2 col = true
    · simp only [hc, if_true] at hh ⊢
      cases hg : getVar s2 π col n with
      | none => simp [hg] at hh
      | some v0 =>
        cases v0 with
        | tup xs => simp [hg] at hh
        | tensor sh d =>
          simp only [hg] at hh ⊢
          simp only [Prod.mk.injEq, Except.ok.injEq] at hh
          obtain ⟨⟨rfl, rfl⟩, rfl⟩ := hh
          exact ⟨q', t2, rfl, hq, hs2⟩
    · simp only [hc, Bool.false_eq_true, if_false] at hh ⊢
      simp only [Prod.mk.injEq, Except.ok.injEq] at hh
      obtain ⟨⟨rfl, rfl⟩, rfl⟩ := hh
      exact ⟨q', t2, rfl, hq, hs2⟩
  by_cases hcond : (isMutable s col && !hasVar s π col n) = true
  · simp only [hcond, if_true] at h ⊢
    cases hr : reserve r n (some col) with
    | error err => simp [hr] at h
    | ok r2 =>
      obtain ⟨r2', hr', hsub⟩ := reserve_sim hres hr
      simp only [hr] at h
      simp only [hr']
      have hb := putVar_both hsim hS π n (.tensor [] [0])
      cases hp : putVar π col n (.tensor [] [0]) s with
      | mk res s2 =>
        rw [hp] at h hb
        cases res with
        | error err => simp at h
        | ok u =>
          cases hp' : putVar π col n (.tensor [] [0]) t with
          | mk res' t2 =>
            rw [hp'] at hb
            simp only at hb
            obtain ⟨hb1, hb2⟩ := hb
            subst hb1
            simp only at h ⊢
            exact second s2 t2 r2 r2' hb2 hsub h
  · simp only [hcond, Bool.false_eq_true, if_false] at h ⊢
    exact second s t r r' hsim hres h

/-! ### observers: only the run with observers acts -/

theorem moduleSow_left {s t s1 : Store} {r r' r1 : Res} {col : String} (hS : col ∈ S) (hsim : Sim S s t)
    (hres : ResSub r' r) {π : Path} {n : String} {e : Int}
    (h : moduleSow π col n e r s = (.ok r1, s1)) : ResSub r' r1 ∧ Sim S s1 t := by
  unfold moduleSow at h
  split at h
  · simp only [Prod.mk.injEq, Except.ok.injEq] at h
    obtain ⟨rfl, rfl⟩ := h
    exact ⟨hres, hsim⟩
  · split at h
    · rename_i xs _
      have hl := putVar_left hsim hS π n (.tup (xs ++ [([], [e])]))
      split at h
      · rename_i heq
        rw [heq] at hl
        simp only [Prod.mk.injEq, Except.ok.injEq] at h
        obtain ⟨rfl, rfl⟩ := h
        exact ⟨hres, hl⟩
      · simp at h
    · simp at h
    · split at h
      · simp at h
      · rename_i r2 hr
        have hl := putVar_left hsim hS π n (.tup [([], [e])])
        split at h
        · rename_i heq
          rw [heq] at hl
          simp only [Prod.mk.injEq, Except.ok.injEq] at h
          obtain ⟨rfl, rfl⟩ := h
          rw [reserve_ok_eq hr]
          exact ⟨hres.cons_right _, hl⟩
        · simp at h


/-! ### programs -/

/-- the configuration of the run without observers -/
def quiet (cfg : Cfg) : Cfg := { cfg with capture := false }

/-- `S` covers everything the program observes into and nothing it otherwise uses -/
def Covers (S : List String) (p : SProg) : Prop :=
  (∀ c ∈ sowCols p, c ∈ S) ∧ (∀ c ∈ otherCols p, c ∉ S)

structure LocalSim (S : List String) (l l' : Local) : Prop where
  env_eq : l'.env = l.env
  out_eq : l'.out = l.out
  cursors_eq : l'.cursors = l.cursors
  kids_eq : l'.kids = l.kids.map (fun k => ⟨k.name, eraseSow k.body⟩)
  res_sub : ResSub l'.res l.res
  kids_ok : ∀ k ∈ l.kids, Covers S k.body

theorem LocalSim.empty (S : List String) : LocalSim S {} {} :=
  ⟨rfl, rfl, rfl, rfl, fun _ h => h, fun _ h => absurd h (by simp)⟩

theorem autoName_sim {cfg : Cfg} (hst : cfg.style ≠ .core) {l l' : Local} (h : LocalSim S l l') (cls : String) :
    autoName (quiet cfg) cls l' = autoName cfg cls l := by
  unfold autoName quiet
  cases hs : cfg.style with
  | core => exact absurd hs hst
  | compact => simp only [h.cursors_eq]; rfl
  | setup => simp only [h.cursors_eq, h.kids_eq, List.length_map]

theorem finishCall_left {cfg : Cfg} (hcap : cfg.capture = true → "intermediates" ∈ S) {π : Path} {l l1 l' : Local}
    {s s1 t : Store} (hl : LocalSim S l l') (hsim : Sim S s t) (h : finishCall cfg π l s = (.ok l1, s1)) :
    finishCall (quiet cfg) π l' t = (.ok l', t) ∧ LocalSim S l1 l' ∧ Sim S s1 t := by
  refine ⟨by simp [finishCall, quiet], ?_⟩
  unfold finishCall at h
  by_cases hc : cfg.capture = true
  · simp only [hc, if_true] at h
    cases hsow : moduleSow π "intermediates" "__call__" l.out l.res s with
    | mk res s2 =>
      rw [hsow] at h
      cases res with
      | error e => simp at h
      | ok r2 =>
        simp only [Prod.mk.injEq, Except.ok.injEq] at h
        obtain ⟨rfl, rfl⟩ := h
        obtain ⟨h1, h2⟩ := moduleSow_left (hcap hc) hsim hl.res_sub hsow
        exact ⟨⟨hl.env_eq, hl.out_eq, hl.cursors_eq, hl.kids_eq, h1, hl.kids_ok⟩, h2⟩
  · simp only [hc, Bool.false_eq_true, if_false] at h
    simp only [Prod.mk.injEq, Except.ok.injEq] at h
    obtain ⟨rfl, rfl⟩ := h
    exact ⟨hl, hsim⟩

theorem covers_seq {a b : SProg} (h : Covers S (.seq a b)) : Covers S a ∧ Covers S b := by
  obtain ⟨h1, h2⟩ := h
  simp only [sowCols, otherCols, List.mem_append] at h1 h2
  exact ⟨⟨fun c hc => h1 c (Or.inl hc), fun c hc => h2 c (Or.inl hc)⟩,
         ⟨fun c hc => h1 c (Or.inr hc), fun c hc => h2 c (Or.inr hc)⟩⟩

/-- **Simulation**: if the program with observers runs to completion, so does the program without
them, from any related state, with the same locals (hence the same output), ending in related states. -/
theorem eval_sim {cfg : Cfg} (hst : cfg.style ≠ .core) (hcap : cfg.capture = true → "intermediates" ∈ S) :
    ∀ (fuel : Nat) (p : SProg) (π : Path) (x : Int) (l l' l1 : Local) (s t s1 : Store),
      Covers S p → LocalSim S l l' → Sim S s t →
      eval cfg fuel p π x l s = (.ok l1, s1) →
      ∃ l1' t1, eval (quiet cfg) fuel (eraseSow p) π x l' t = (.ok l1', t1) ∧ LocalSim S l1 l1' ∧ Sim S s1 t1 := by
  intro fuel
  induction fuel with
  | zero => intro p π x l l' l1 s t s1 _ _ _ h; simp [eval] at h
  | succ fuel ih =>
    intro p π x l l' l1 s t s1 hcov hl hsim h
    cases p with
    | skip =>
      simp only [eval, Prod.mk.injEq, Except.ok.injEq] at h
      obtain ⟨rfl, rfl⟩ := h
      exact ⟨l', t, by simp [eval, eraseSow], hl, hsim⟩
    | seq a b =>
      obtain ⟨hca, hcb⟩ := covers_seq hcov
      simp only [eval] at h
      cases ha : eval cfg fuel a π x l s with
      | mk res s2 =>
        rw [ha] at h
        cases res with
        | error e => simp at h
        | ok l2 =>
          obtain ⟨l2', t2, e1, hl2, hs2⟩ := ih a π x l l' l2 s t s2 hca hl hsim ha
          obtain ⟨l3', t3, e2, hl3, hs3⟩ := ih b π x l2 l2' l1 s2 t2 s1 hcb hl2 hs2 h
          exact ⟨l3', t3, by simp only [eval, eraseSow, e1]; exact e2, hl3, hs3⟩
    | bind e =>
      simp only [eval] at h
      cases he : evalE x l.env e with
      | error err => simp [he] at h
      | ok v =>
        simp only [he, Prod.mk.injEq, Except.ok.injEq] at h
        obtain ⟨rfl, rfl⟩ := h
        refine ⟨push l' v, t, by simp [eval, eraseSow, hl.env_eq, he], ?_, hsim⟩
        exact ⟨by simp [push, hl.env_eq], hl.out_eq, hl.cursors_eq, hl.kids_eq, hl.res_sub, hl.kids_ok⟩
    | ret e =>
      simp only [eval] at h
      cases he : evalE x l.env e with
      | error err => simp [he] at h
      | ok v =>
        simp only [he, Prod.mk.injEq, Except.ok.injEq] at h
        obtain ⟨rfl, rfl⟩ := h
        refine ⟨{ l' with out := v }, t, by simp [eval, eraseSow, hl.env_eq, he], ?_, hsim⟩
        exact ⟨hl.env_eq, rfl, hl.cursors_eq, hl.kids_eq, hl.res_sub, hl.kids_ok⟩
    | param n shape init =>
      have hS : "params" ∉ S := hcov.2 "params" (by simp [otherCols])
      simp only [eval] at h
      cases hp : scopeParam π n (resolveDims shape) init l.res s with
      | mk res s2 =>
        rw [hp] at h
        cases res with
        | error e => simp at h
        | ok vr =>
          obtain ⟨v, r⟩ := vr
          simp only [Prod.mk.injEq, Except.ok.injEq] at h
          obtain ⟨rfl, rfl⟩ := h
          obtain ⟨r1', t1, e1, hsub, hs1⟩ := scopeParam_sim hS hsim hl.res_sub hp
          refine ⟨{ push l' v.total with res := r1' }, t1, by simp [eval, eraseSow, e1], ?_, hs1⟩
          exact ⟨by simp [push, hl.env_eq], hl.out_eq, hl.cursors_eq, hl.kids_eq, hsub, hl.kids_ok⟩
    | var col n shape init =>
      have hS : col ∉ S := hcov.2 col (by simp [otherCols])
      simp only [eval] at h
      cases he : evalE x l.env init with
      | error err => simp [he] at h
      | ok iv =>
        simp only [he] at h
        cases hp : scopeVariable π col n (Val.full shape iv) l.res s with
        | mk res s2 =>
          rw [hp] at h
          cases res with
          | error e => simp at h
          | ok r =>
            simp only at h
            obtain ⟨r1', t1, e1, hsub, hs1⟩ := scopeVariable_sim hS hsim hl.res_sub hp
            cases hg : getVar s2 π col n with
            | none => simp [hg] at h
            | some v =>
              simp only [hg, Prod.mk.injEq, Except.ok.injEq] at h
              obtain ⟨rfl, rfl⟩ := h
              refine ⟨{ push l' v.total with res := r1' }, t1,
                by simp [eval, eraseSow, hl.env_eq, he, e1, hs1.getVar_eq hS, hg], ?_, hs1⟩
              exact ⟨by simp [push, hl.env_eq], hl.out_eq, hl.cursors_eq, hl.kids_eq, hsub, hl.kids_ok⟩
    | get col n =>
      have hS : col ∉ S := hcov.2 col (by simp [otherCols])
      simp only [eval] at h
      cases hg : getVar s π col n with
      | none =>
        simp only [hg, Prod.mk.injEq, Except.ok.injEq] at h
        obtain ⟨rfl, rfl⟩ := h
        refine ⟨push l' 0, t, by simp [eval, eraseSow, hsim.getVar_eq hS, hg], ?_, hsim⟩
        exact ⟨by simp [push, hl.env_eq], hl.out_eq, hl.cursors_eq, hl.kids_eq, hl.res_sub, hl.kids_ok⟩
      | some v =>
        simp only [hg, Prod.mk.injEq, Except.ok.injEq] at h
        obtain ⟨rfl, rfl⟩ := h
        refine ⟨push l' v.total, t, by simp [eval, eraseSow, hsim.getVar_eq hS, hg], ?_, hsim⟩
        exact ⟨by simp [push, hl.env_eq], hl.out_eq, hl.cursors_eq, hl.kids_eq, hl.res_sub, hl.kids_ok⟩
    | put col rel n e =>
      have hS : col ∉ S := hcov.2 col (by simp [otherCols])
      simp only [eval] at h
      cases he : evalE x l.env e with
      | error err => simp [he] at h
      | ok v =>
        simp only [he] at h
        cases hp : putVar (π ++ rel) col n (.tensor [] [v]) s with
        | mk res s2 =>
          rw [hp] at h
          cases res with
          | error e => simp at h
          | ok u =>
            simp only [Prod.mk.injEq, Except.ok.injEq] at h
            obtain ⟨rfl, rfl⟩ := h
            obtain ⟨t1, e1, hs1⟩ := putVar_sim hS hsim hp
            exact ⟨l', t1, by simp [eval, eraseSow, hl.env_eq, he, e1], hl, hs1⟩
    | sow col n e =>
      have hS : col ∈ S := hcov.1 col (by simp [sowCols])
      simp only [eval] at h
      cases he : evalE x l.env e with
      | error err => simp [he] at h
      | ok v =>
        simp only [he] at h
        cases hp : moduleSow π col n v l.res s with
        | mk res s2 =>
          rw [hp] at h
          cases res with
          | error e => simp at h
          | ok r =>
            simp only [Prod.mk.injEq, Except.ok.injEq] at h
            obtain ⟨rfl, rfl⟩ := h
            obtain ⟨h1, h2⟩ := moduleSow_left hS hsim hl.res_sub hp
            refine ⟨l', t, by simp [eval, eraseSow], ?_, h2⟩
            exact ⟨hl.env_eq, hl.out_eq, hl.cursors_eq, hl.kids_eq, h1, hl.kids_ok⟩
    | perturb col n e =>
      have hS : col ∉ S := hcov.2 col (by simp [otherCols])
      simp only [eval] at h
      cases he : evalE x l.env e with
      | error err => simp [he] at h
      | ok v =>
        simp only [he] at h
        cases hp : modulePerturb π col n v l.res s with
        | mk res s2 =>
          rw [hp] at h
          cases res with
          | error e => simp at h
          | ok yr =>
            obtain ⟨y, r⟩ := yr
            simp only [Prod.mk.injEq, Except.ok.injEq] at h
            obtain ⟨rfl, rfl⟩ := h
            obtain ⟨r1', t1, e1, hsub, hs1⟩ := modulePerturb_sim hS hsim hl.res_sub hp
            refine ⟨{ push l' y with res := r1' }, t1, by simp [eval, eraseSow, hl.env_eq, he, e1], ?_, hs1⟩
            exact ⟨by simp [push, hl.env_eq], hl.out_eq, hl.cursors_eq, hl.kids_eq, hsub, hl.kids_ok⟩
    | child cls name body =>
      have hcb : Covers S body := ⟨fun c hc => hcov.1 c (by simpa [sowCols] using hc),
                                   fun c hc => hcov.2 c (by simpa [otherCols] using hc)⟩
      simp only [eval] at h
      have hname : childName (quiet cfg) cls name l' = childName cfg cls name l := by
        cases name with
        | some nm => simp [childName, hl.cursors_eq]
        | none => exact autoName_sim hst hl cls
      cases hn : childName cfg cls name l with
      | none => rw [hn] at h; simp at h
      | some nc =>
        obtain ⟨nm, cs⟩ := nc
        rw [hn] at h
        simp only at h
        cases hr : reserve l.res nm none with
        | error e => simp [hr] at h
        | ok r =>
          simp only [hr, Prod.mk.injEq, Except.ok.injEq] at h
          obtain ⟨rfl, rfl⟩ := h
          obtain ⟨r', hr', hsub⟩ := reserve_sim hl.res_sub hr
          refine ⟨{ l' with res := r', cursors := cs, kids := l'.kids ++ [⟨nm, eraseSow body⟩] }, t, ?_, ?_, hsim⟩
          · simp only [eval, eraseSow]
            rw [hname, hn]
            simp only [hr']
          · refine ⟨hl.env_eq, hl.out_eq, rfl, by simp [hl.kids_eq], hsub, ?_⟩
            intro k hk
            rcases List.mem_append.mp hk with h1 | h1
            · exact hl.kids_ok k h1
            · simp only [List.mem_singleton] at h1; subst h1; exact hcb
    | call slot a w =>
      simp only [eval] at h
      cases hk : l.kids[slot]? with
      | none => simp [hk] at h
      | some k =>
        simp only [hk] at h
        have hk' : l'.kids[slot]? = some ⟨k.name, eraseSow k.body⟩ := by
          rw [hl.kids_eq, List.getElem?_map, hk]; rfl
        have hkc : Covers S (bindArg w k.body) := by
          have := hl.kids_ok k (List.mem_of_getElem? hk)
          unfold Covers at this ⊢
          rw [sowCols_bindArg, otherCols_bindArg]; exact this
        cases he : evalE x l.env a with
        | error err => simp [he] at h
        | ok av =>
          simp only [he] at h
          cases hb : eval cfg fuel (bindArg w k.body) (π ++ [k.name]) av {} s with
          | mk res s2 =>
            rw [hb] at h
            cases res with
            | error e => simp at h
            | ok lk =>
              simp only at h
              obtain ⟨lk', t2, e1, hlk, hs2⟩ :=
                ih (bindArg w k.body) (π ++ [k.name]) av {} {} lk s t s2 hkc (LocalSim.empty S) hsim hb
              cases hf : finishCall cfg (π ++ [k.name]) lk s2 with
              | mk res2 s3 =>
                rw [hf] at h
                cases res2 with
                | error e => simp at h
                | ok lk2 =>
                  simp only [Prod.mk.injEq, Except.ok.injEq] at h
                  obtain ⟨rfl, rfl⟩ := h
                  obtain ⟨f1, hlk2, hs3⟩ := finishCall_left hcap hlk hs2 hf
                  refine ⟨push l' lk'.out, t2, ?_, ?_, hs3⟩
                  · rw [eraseSow_bindArg] at e1
                    simp only [eval, eraseSow, hk', hl.env_eq, he, e1, f1]
                  · exact ⟨by simp [push, hl.env_eq, hlk2.out_eq], hl.out_eq, hl.cursors_eq, hl.kids_eq,
                            hl.res_sub, hl.kids_ok⟩
    | nested body m V a =>
      -- a nested apply runs under `capture := false` whatever the enclosing setting is, on its own store
      simp only [eval] at h
      cases he : evalE x l.env a with
      | error err => simp [he] at h
      | ok av =>
        simp only [he] at h
        by_cases hbs : badStructure V = true
        · simp [hbs] at h
        · simp only [hbs, Bool.false_eq_true, if_false] at h
          have hq : nestedCfg (quiet cfg) = nestedCfg cfg := rfl
          cases hb : eval (nestedCfg cfg) fuel body [] av {} (Scope.bind m V ["params"]) with
          | mk res si =>
            rw [hb] at h
            cases res with
            | error e => simp at h
            | ok li =>
              simp only [Prod.mk.injEq, Except.ok.injEq] at h
              obtain ⟨rfl, rfl⟩ := h
              refine ⟨push (push l' li.out) (digest (mutableVariables si)), t, ?_, ?_, hsim⟩
              · simp only [eval, eraseSow, hl.env_eq, he, hbs, Bool.false_eq_true, if_false, hq, hb]
              · exact ⟨by simp [push, hl.env_eq], hl.out_eq, hl.cursors_eq, hl.kids_eq, hl.res_sub, hl.kids_ok⟩

end Flax.ObsSim
