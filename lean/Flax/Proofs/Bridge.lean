/-
Helper lemmas for C18 (Linen <-> NNX bridge): nested dicts, flatten / unflatten, flat merge.
Specification-level definitions (`WFF`, `NoEmptyF`, `Compat`, `Equiv`) live here too.
-/
import Flax.Model.Bridge

namespace Flax.Bridge
variable {β γ : Type}

/-! ## representation invariant and spec notions -/

mutual
  /-- keys are distinct at every level (true of every Python dict) -/
  def Tree.WF : Tree β → Prop
    | .leaf _ => True
    | .node f => WFF f
  def WFF : Forest β → Prop
    | [] => True
    | (k, t) :: r => k ∉ dkeys r ∧ t.WF ∧ WFF r
end

mutual
  /-- no empty sub-dict anywhere below -/
  def Tree.NoEmpty : Tree β → Prop
    | .leaf _ => True
    | .node f => f ≠ [] ∧ NoEmptyF f
  def NoEmptyF : Forest β → Prop
    | [] => True
    | (_, t) :: r => t.NoEmpty ∧ NoEmptyF r
end

/-- the leaf paths of two dicts never nest properly (a leaf of one is never strictly above or below
a leaf of the other); equal paths are allowed -/
def Compat (a : Forest β) (b : Forest γ) : Prop :=
  ∀ q q', leafAtF a q ≠ none → leafAtF b q' ≠ none → (q <+: q' ∨ q' <+: q) → q = q'

/-- no leaf path in common and none nested -/
def Disjoint (a : Forest β) (b : Forest γ) : Prop :=
  ∀ q q', leafAtF a q ≠ none → leafAtF b q' ≠ none → ¬ (q <+: q' ∨ q' <+: q)

/-- same leaves at the same paths: equality of Python dicts up to empty sub-dicts (dict equality
ignores insertion order) -/
def Equiv (a b : Forest β) : Prop := ∀ q, leafAtF a q = leafAtF b q

def paths (l : List (Path × β)) : List Path := l.map Prod.fst

/-! ## association-list basics -/

@[simp] theorem dget_nil (k : String) : dget ([] : Forest β) k = none := rfl

theorem dget_cons (k : String) (t : Tree β) (r : Forest β) (k' : String) :
    dget ((k, t) :: r) k' = if k' = k then some t else dget r k' := rfl

@[simp] theorem dkeys_nil : dkeys ([] : Forest β) = [] := rfl
@[simp] theorem dkeys_cons (k : String) (t : Tree β) (r : Forest β) : dkeys ((k, t) :: r) = k :: dkeys r := rfl

theorem dget_dset (f : Forest β) (k : String) (t : Tree β) (k' : String) :
    dget (dset f k t) k' = if k' = k then some t else dget f k' := by
  induction f with
  | nil => simp [dset, dget_cons]
  | cons kt r ih =>
    obtain ⟨k0, t0⟩ := kt
    unfold dset
    by_cases h : k = k0
    · subst h; simp only [↓reduceIte, dget_cons]; split <;> rfl
    · simp only [h, ↓reduceIte, dget_cons, ih]
      by_cases h1 : k' = k0
      · have : k' ≠ k := by intro e; exact h (e ▸ h1)
        subst h1
        simp [this]
      · simp [h1]

theorem dkeys_dset (f : Forest β) (k : String) (t : Tree β) :
    dkeys (dset f k t) = if k ∈ dkeys f then dkeys f else dkeys f ++ [k] := by
  induction f with
  | nil => simp [dset]
  | cons kt r ih =>
    obtain ⟨k0, t0⟩ := kt
    unfold dset
    by_cases h : k = k0
    · subst h; simp
    · simp only [h, ↓reduceIte, dkeys_cons, ih, List.mem_cons, false_or]
      split <;> simp

theorem dget_eq_none_iff (f : Forest β) (k : String) : dget f k = none ↔ k ∉ dkeys f := by
  induction f with
  | nil => simp
  | cons kt r ih =>
    obtain ⟨k0, t0⟩ := kt
    simp only [dget_cons, dkeys_cons, List.mem_cons, not_or]
    by_cases h : k = k0
    · simp [h]
    · simp [h, ih]

theorem dget_mem (f : Forest β) (k : String) (t : Tree β) (h : dget f k = some t) : (k, t) ∈ f := by
  induction f with
  | nil => simp at h
  | cons kt r ih =>
    obtain ⟨k0, t0⟩ := kt
    rw [dget_cons] at h
    split at h
    · cases h; rename_i hk; subst hk; simp
    · exact List.mem_cons_of_mem _ (ih h)

theorem WFF_dset (f : Forest β) (k : String) (t : Tree β) (hf : WFF f) (ht : t.WF) : WFF (dset f k t) := by
  induction f with
  | nil => simp [dset, WFF, ht]
  | cons kt r ih =>
    obtain ⟨k0, t0⟩ := kt
    simp only [WFF] at hf
    unfold dset
    by_cases h : k = k0
    · simp only [h, ↓reduceIte, WFF]; exact ⟨hf.1, ht, hf.2.2⟩
    · simp only [h, ↓reduceIte, WFF]
      refine ⟨?_, hf.2.1, ih hf.2.2⟩
      rw [dkeys_dset]
      split
      · exact hf.1
      · simp only [List.mem_append, List.mem_singleton, not_or]
        exact ⟨hf.1, fun e => h e.symm⟩

theorem WF_of_mem (f : Forest β) (hf : WFF f) : ∀ kt ∈ f, kt.2.WF := by
  induction f with
  | nil => simp
  | cons kt r ih =>
    obtain ⟨k0, t0⟩ := kt
    simp only [WFF] at hf
    intro kt' hm
    rcases List.mem_cons.mp hm with rfl | hm
    · exact hf.2.1
    · exact ih hf.2.2 kt' hm

theorem WF_dget (f : Forest β) (k : String) (t : Tree β) (hf : WFF f) (h : dget f k = some t) : t.WF :=
  WF_of_mem f hf _ (dget_mem f k t h)

theorem WFF_nodup (f : Forest β) (hf : WFF f) : (dkeys f).Nodup := by
  induction f with
  | nil => simp
  | cons kt r ih =>
    obtain ⟨k0, t0⟩ := kt
    simp only [WFF] at hf
    simp only [dkeys_cons, List.nodup_cons]
    exact ⟨hf.1, ih hf.2.2⟩

theorem WFF_iff (f : Forest β) : WFF f ↔ (dkeys f).Nodup ∧ ∀ kt ∈ f, kt.2.WF := by
  induction f with
  | nil => simp [WFF]
  | cons kt r ih =>
    obtain ⟨k0, t0⟩ := kt
    simp only [WFF, ih, dkeys_cons, List.nodup_cons, List.mem_cons, forall_eq_or_imp]
    constructor
    · rintro ⟨h1, h2, h3, h4⟩; exact ⟨⟨h1, h3⟩, h2, h4⟩
    · rintro ⟨⟨h1, h3⟩, h2, h4⟩; exact ⟨h1, h2, h3, h4⟩

theorem dget_of_mem (f : Forest β) (hf : WFF f) (k : String) (t : Tree β) (h : (k, t) ∈ f) :
    dget f k = some t := by
  induction f with
  | nil => simp at h
  | cons kt r ih =>
    obtain ⟨k0, t0⟩ := kt
    simp only [WFF] at hf
    rw [dget_cons]
    rcases List.mem_cons.mp h with h1 | h2
    · cases h1; simp
    · have : k ≠ k0 := by
        intro e; subst e
        exact hf.1 (List.mem_map.mpr ⟨(k, t), h2, rfl⟩)
      simp [this, ih hf.2.2 h2]

theorem NoEmptyF_dset (f : Forest β) (k : String) (t : Tree β) (hf : NoEmptyF f) (ht : t.NoEmpty) :
    NoEmptyF (dset f k t) := by
  induction f with
  | nil => simp [dset, NoEmptyF, ht]
  | cons kt r ih =>
    obtain ⟨k0, t0⟩ := kt
    simp only [NoEmptyF] at hf
    unfold dset
    by_cases h : k = k0
    · simp only [h, ↓reduceIte, NoEmptyF]; exact ⟨ht, hf.2⟩
    · simp only [h, ↓reduceIte, NoEmptyF]; exact ⟨hf.1, ih hf.2⟩

theorem NoEmpty_dget (f : Forest β) (k : String) (t : Tree β) (hf : NoEmptyF f) (h : dget f k = some t) :
    t.NoEmpty := by
  induction f with
  | nil => simp at h
  | cons kt r ih =>
    obtain ⟨k0, t0⟩ := kt
    simp only [NoEmptyF] at hf
    rw [dget_cons] at h
    split at h
    · cases h; exact hf.1
    · exact ih hf.2 h

theorem dset_ne_nil (f : Forest β) (k : String) (t : Tree β) : dset f k t ≠ [] := by
  cases f with
  | nil => simp [dset]
  | cons kt r => obtain ⟨k0, t0⟩ := kt; unfold dset; split <;> simp

/-! ## leafAt -/

@[simp] theorem leafAtF_nil_path (f : Forest β) : leafAtF f [] = none := rfl

theorem leafAtF_cons (f : Forest β) (k : String) (p : Path) :
    leafAtF f (k :: p) = match dget f k with | some t => t.leafAt p | none => none := rfl

@[simp] theorem leafAtF_nil (p : Path) : leafAtF ([] : Forest β) p = none := by
  cases p <;> rfl

@[simp] theorem Tree.leafAt_node (f : Forest β) (p : Path) : (Tree.node f).leafAt p = leafAtF f p := rfl

theorem Tree.leafAt_leaf (b : β) (p : Path) : (Tree.leaf b).leafAt p = if p = [] then some b else none := by
  cases p <;> rfl

theorem leafAtF_dset (f : Forest β) (k : String) (t : Tree β) (k' : String) (p : Path) :
    leafAtF (dset f k t) (k' :: p) = if k' = k then t.leafAt p else leafAtF f (k' :: p) := by
  rw [leafAtF_cons, dget_dset]
  by_cases h : k' = k
  · simp [h]
  · simp [h, leafAtF_cons]

/-- a leaf has nothing below it and nothing above it is a leaf -/
theorem Tree.leafAt_prefix (t : Tree β) : ∀ (q q' : Path) (b : β), t.leafAt q = some b → q <+: q' → q' ≠ q →
    t.leafAt q' = none := by
  intro q
  induction q generalizing t with
  | nil =>
    intro q' b h _ hne
    cases t with
    | leaf b0 => cases q' with
      | nil => exact absurd rfl hne
      | cons _ _ => rfl
    | node f => simp [Tree.leafAt] at h
  | cons k q1 ih =>
    intro q' b h hp hne
    cases t with
    | leaf b0 => simp [Tree.leafAt] at h
    | node f =>
      cases q' with
      | nil => simp at hp
      | cons k' q1' =>
        rw [List.cons_prefix_cons] at hp
        obtain ⟨rfl, hp⟩ := hp
        simp only [Tree.leafAt_node, leafAtF_cons] at h ⊢
        cases hf : dget f k with
        | none => rfl
        | some t1 =>
          rw [hf] at h
          exact ih t1 q1' b h hp (fun e => hne (by rw [e]))

theorem leafAtF_prefix (f : Forest β) (q q' : Path) (b : β) (h : leafAtF f q = some b)
    (hp : q <+: q') (hne : q' ≠ q) : leafAtF f q' = none :=
  Tree.leafAt_prefix (.node f) q q' b h hp hne

/-- the leaf paths of one dict never nest -/
theorem leafAtF_prefix_eq (f : Forest β) (q q' : Path) (h : leafAtF f q ≠ none) (h' : leafAtF f q' ≠ none)
    (hp : q <+: q') : q = q' := by
  cases hq : leafAtF f q with
  | none => exact absurd hq h
  | some b =>
    by_cases e : q' = q
    · exact e.symm
    · exact absurd (leafAtF_prefix f q q' b hq hp e) h'

/-! ## insert (one step of unflatten) -/

theorem insertF_spec : ∀ (p : Path) (f : Forest β) (b : β), p ≠ [] →
    (∀ q, q <+: p → q ≠ p → leafAtF f q = none) →
    ∃ g, insertF f p b = .ok g ∧ leafAtF g p = some b ∧
      (∀ q, p <+: q → q ≠ p → leafAtF g q = none) ∧
      (∀ q, ¬ p <+: q → leafAtF g q = leafAtF f q) ∧
      (WFF f → WFF g) ∧ (NoEmptyF f → NoEmptyF g) ∧ g ≠ [] := by
  intro p
  induction p with
  | nil => intro f b h; exact absurd rfl h
  | cons k ks ih =>
    intro f b _ hpre
    cases ks with
    | nil =>
      refine ⟨dset f k (.leaf b), rfl, ?_, ?_, ?_, ?_, ?_, dset_ne_nil _ _ _⟩
      · simp [leafAtF_dset, Tree.leafAt_leaf]
      · intro q hq hne
        cases q with
        | nil => simp at hq
        | cons k' q' =>
          rw [List.cons_prefix_cons] at hq
          obtain ⟨rfl, _⟩ := hq
          have : q' ≠ [] := fun e => hne (by rw [e])
          simp [leafAtF_dset, Tree.leafAt_leaf, this]
      · intro q hq
        cases q with
        | nil => rfl
        | cons k' q' =>
          have : k' ≠ k := by
            intro e; apply hq; rw [e, List.cons_prefix_cons]; exact ⟨rfl, List.nil_prefix⟩
          simp [leafAtF_dset, this]
      · intro hf; exact WFF_dset f k _ hf (by simp [Tree.WF])
      · intro hf; exact NoEmptyF_dset f k _ hf (by simp [Tree.NoEmpty])
    | cons k2 ks2 =>
      -- the sub-dict to descend into
      have hsub : ∃ sub : Forest β, (dget f k = none ∧ sub = [] ∨ dget f k = some (.node sub)) := by
        cases hf : dget f k with
        | none => exact ⟨[], Or.inl ⟨rfl, rfl⟩⟩
        | some t =>
          cases t with
          | node sub => exact ⟨sub, Or.inr rfl⟩
          | leaf b0 =>
            have h1 := hpre [k] (by rw [List.cons_prefix_cons]; exact ⟨rfl, List.nil_prefix⟩) (by simp)
            simp [leafAtF_cons, hf, Tree.leafAt] at h1
      obtain ⟨sub, hsub⟩ := hsub
      have hsubleaf : ∀ q, leafAtF sub q = leafAtF f (k :: q) := by
        intro q
        rcases hsub with ⟨h1, rfl⟩ | h1
        · simp [leafAtF_cons, h1]
        · simp [leafAtF_cons, h1]
      obtain ⟨sub', hins, hat, hbelow, hother, hwf, hne, hnn⟩ := ih sub b (by simp) (by
        intro q hq hne
        rw [hsubleaf]
        exact hpre (k :: q) (by rw [List.cons_prefix_cons]; exact ⟨rfl, hq⟩) (by simpa using hne))
      have hins' : insertF f (k :: k2 :: ks2) b = .ok (dset f k (.node sub')) := by
        rcases hsub with ⟨h1, rfl⟩ | h1
        · simp only [insertF, h1]; rw [hins]; rfl
        · simp only [insertF, h1]; rw [hins]; rfl
      refine ⟨dset f k (.node sub'), hins', ?_, ?_, ?_, ?_, ?_, dset_ne_nil _ _ _⟩
      · simp [leafAtF_dset, hat]
      · intro q hq hne'
        cases q with
        | nil => simp at hq
        | cons k' q' =>
          rw [List.cons_prefix_cons] at hq
          obtain ⟨rfl, hq⟩ := hq
          simp only [leafAtF_dset, ↓reduceIte, Tree.leafAt_node]
          exact hbelow q' hq (fun e => hne' (by rw [e]))
      · intro q hq
        cases q with
        | nil => rfl
        | cons k' q' =>
          simp only [leafAtF_dset, Tree.leafAt_node]
          split
          · rename_i hk; subst hk
            rw [hother q' (fun hp => hq (by rw [List.cons_prefix_cons]; exact ⟨rfl, hp⟩)), hsubleaf]
          · rfl
      · intro hf
        apply WFF_dset f k _ hf
        simp only [Tree.WF]
        apply hwf
        rcases hsub with ⟨_, rfl⟩ | h1
        · simp [WFF]
        · have := WF_dget f k _ hf h1; simpa [Tree.WF] using this
      · intro hf
        apply NoEmptyF_dset f k _ hf
        simp only [Tree.NoEmpty]
        refine ⟨hnn, hne ?_⟩
        rcases hsub with ⟨_, rfl⟩ | h1
        · simp [NoEmptyF]
        · have := NoEmpty_dget f k _ hf h1; simp only [Tree.NoEmpty] at this; exact this.2

end Flax.Bridge
