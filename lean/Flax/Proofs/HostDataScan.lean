/-
Helper lemmas for the `scan_in_dim` part of C20: permutation algebra of `_invert_perm` and of the
permutation `axis + delete(arange(ndim), axis)`, NumPy transposes, nested scans.
(Core Lean only.)
-/
import Flax.Model.HostData

namespace Flax.HostData

/-! ## `_invert_perm` -/

/-- a permutation of `0 .. n-1` written as a list -/
structure IsPerm (p : List Nat) : Prop where
  nodup : p.Nodup
  lt : ∀ j ∈ p, j < p.length
  surj : ∀ m, m < p.length → m ∈ p

theorem invertLoop_spec : ∀ (rest : List Nat) (i : Nat) (inv : List Nat), rest.Nodup →
    (∀ j ∈ rest, j < inv.length) →
    (invertLoop rest i inv).length = inv.length ∧
    (∀ k (hk : k < rest.length), (invertLoop rest i inv)[rest[k]]? = some (i + k)) ∧
    (∀ j, j ∉ rest → (invertLoop rest i inv)[j]? = inv[j]?) := by
  intro rest
  induction rest with
  | nil => intro i inv _ _; simp [invertLoop]
  | cons j rest ih =>
    intro i inv hnd hlt
    have hnd' : rest.Nodup := (List.nodup_cons.mp hnd).2
    have hj : j ∉ rest := (List.nodup_cons.mp hnd).1
    have hjl : j < inv.length := hlt j (by simp)
    obtain ⟨h1, h2, h3⟩ := ih (i + 1) (inv.set j i) hnd' (by
      intro a ha; simp; exact hlt a (List.mem_cons_of_mem _ ha))
    simp only [invertLoop]
    refine ⟨by simpa using h1, ?_, ?_⟩
    · intro k hk
      cases k with
      | zero =>
        simp only [List.getElem_cons_zero, Nat.add_zero]
        rw [h3 j hj, List.getElem?_set]; simp [hjl]
      | succ k =>
        simp only [List.getElem_cons_succ]
        rw [h2 k (by simpa using hk)]; congr 1; omega
    · intro a ha
      simp only [List.mem_cons, not_or] at ha
      rw [h3 a ha.2, List.getElem?_set]
      have : ¬ j = a := fun h => ha.1 h.symm
      simp [this]

theorem invertPerm_length (p : List Nat) (hp : IsPerm p) : (invertPerm p).length = p.length := by
  have := (invertLoop_spec p 0 (List.replicate p.length 0) hp.nodup (by simpa using hp.lt)).1
  simpa [invertPerm] using this

/-- left inverse: `inv[p[k]] = k` -/
theorem invertPerm_left (p : List Nat) (hp : IsPerm p) (k : Nat) (hk : k < p.length) :
    (invertPerm p)[p[k]]? = some k := by
  have := (invertLoop_spec p 0 (List.replicate p.length 0) hp.nodup (by simpa using hp.lt)).2.1 k hk
  simpa [invertPerm] using this

/-- right inverse: `p[inv[m]] = m` -/
theorem invertPerm_right (p : List Nat) (hp : IsPerm p) (m : Nat) (hm : m < p.length) :
    ∃ k, k < p.length ∧ (invertPerm p)[m]? = some k ∧ p[k]? = some m := by
  obtain ⟨k, hk, hpk⟩ := List.mem_iff_getElem.mp (hp.surj m hm)
  refine ⟨k, hk, ?_, ?_⟩
  · have := invertPerm_left p hp k hk; rw [hpk] at this; exact this
  · rw [List.getElem?_eq_getElem hk, hpk]

theorem invertPerm_isPerm (p : List Nat) (hp : IsPerm p) : IsPerm (invertPerm p) := by
  have hlen := invertPerm_length p hp
  refine ⟨?_, ?_, ?_⟩
  · rw [List.nodup_iff_pairwise_ne, List.pairwise_iff_getElem]
    intro i j hi hj hij heq
    rw [hlen] at hi hj
    obtain ⟨a, ha, hia, hpa⟩ := invertPerm_right p hp i hi
    obtain ⟨b, hb, hjb, hpb⟩ := invertPerm_right p hp j hj
    rw [List.getElem?_eq_getElem (by omega)] at hia hjb
    have e1 : (invertPerm p)[i] = a := by simpa using hia
    have e2 : (invertPerm p)[j] = b := by simpa using hjb
    have hab : a = b := by rw [← e1, ← e2]; exact heq
    subst hab
    rw [hpa] at hpb
    have : i = j := by simpa using hpb
    omega
  · intro k hk
    obtain ⟨m, hm, hmk⟩ := List.mem_iff_getElem.mp hk
    rw [hlen] at hm ⊢
    obtain ⟨a, ha, hia, _⟩ := invertPerm_right p hp m hm
    rw [List.getElem?_eq_getElem (by omega)] at hia
    have : (invertPerm p)[m] = a := by simpa using hia
    omega
  · intro m hm
    rw [hlen] at hm
    have := invertPerm_left p hp m hm
    have hlt : p[m] < (invertPerm p).length := by rw [hlen]; exact hp.lt _ (List.getElem_mem _)
    rw [List.getElem?_eq_getElem hlt] at this
    have e : (invertPerm p)[p[m]] = m := by simpa using this
    rw [← e]; exact List.getElem_mem _

/-- position of `k` in the inverse permutation is `p[k]` -/
theorem idxOf_invertPerm (p : List Nat) (hp : IsPerm p) (k : Nat) (hk : k < p.length) :
    (invertPerm p).idxOf k = p[k] := by
  have hq := invertPerm_isPerm p hp
  have hlen := invertPerm_length p hp
  have hlt : p[k] < (invertPerm p).length := by rw [hlen]; exact hp.lt _ (List.getElem_mem _)
  have := invertPerm_left p hp k hk
  rw [List.getElem?_eq_getElem hlt] at this
  have e : (invertPerm p)[p[k]] = k := by simpa using this
  have := hq.nodup.idxOf_getElem p[k] hlt
  rw [e] at this; exact this

/-- position of `m` in `p` is `inv[m]` -/
theorem idxOf_perm (p : List Nat) (hp : IsPerm p) (m : Nat) (hm : m < p.length) :
    (invertPerm p)[m]? = some (p.idxOf m) := by
  obtain ⟨k, hk, hik, hpk⟩ := invertPerm_right p hp m hm
  rw [List.getElem?_eq_getElem hk] at hpk
  have e : p[k] = m := by simpa using hpk
  have := hp.nodup.idxOf_getElem k hk
  rw [e] at this; rw [this]; exact hik

/-! ## the permutation built by `scan_in_dim` -/

/-- `axis` is a tuple of distinct axes of an array of rank `n` -/
structure ValidAxes (axis : List Nat) (n : Nat) : Prop where
  nodup : axis.Nodup
  lt : ∀ a ∈ axis, a < n

/-- the non-scanned axes, in increasing order -/
def restAxes (axis : List Nat) (n : Nat) : List Nat := (List.range n).filter (fun a => !decide (a ∈ axis))

theorem scanPerm_eq (axis : List Nat) (n : Nat) : scanPerm axis n = axis ++ restAxes axis n := rfl

theorem scanPerm_perm (axis : List Nat) (n : Nat) (h : ValidAxes axis n) :
    (scanPerm axis n).Perm (List.range n) := by
  have h1 := List.filter_append_perm (fun a => decide (a ∈ axis)) (List.range n)
  have h2 : ((List.range n).filter (fun a => decide (a ∈ axis))).Perm axis := by
    rw [List.perm_ext_iff_of_nodup (List.Nodup.sublist List.filter_sublist List.nodup_range) h.nodup]
    intro a
    simp only [List.mem_filter, List.mem_range, decide_eq_true_eq]
    constructor
    · exact fun h => h.2
    · exact fun ha => ⟨h.lt a ha, ha⟩
  exact (List.Perm.append_right _ h2.symm).trans h1

theorem scanPerm_isPerm (axis : List Nat) (n : Nat) (h : ValidAxes axis n) : IsPerm (scanPerm axis n) := by
  have hp := scanPerm_perm axis n h
  have hlen : (scanPerm axis n).length = n := by simpa using hp.length_eq
  refine ⟨hp.nodup_iff.mpr List.nodup_range, ?_, ?_⟩
  · intro j hj; rw [hlen]; simpa using hp.mem_iff.mp hj
  · intro m hm; rw [hlen] at hm; exact hp.mem_iff.mpr (by simpa using hm)

theorem scanPerm_length (axis : List Nat) (n : Nat) (h : ValidAxes axis n) : (scanPerm axis n).length = n := by
  simpa using (scanPerm_perm axis n h).length_eq

theorem restAxes_length (axis : List Nat) (n : Nat) (h : ValidAxes axis n) :
    (restAxes axis n).length = n - axis.length := by
  have := scanPerm_length axis n h
  rw [scanPerm_eq, List.length_append] at this; omega

theorem axis_length_le (axis : List Nat) (n : Nat) (h : ValidAxes axis n) : axis.length ≤ n := by
  have := scanPerm_length axis n h
  rw [scanPerm_eq, List.length_append] at this; omega

/-! ## gather and NumPy transpose -/

theorem gather_length (p v : List Nat) : (gather p v).length = p.length := by simp [gather]

theorem gather_getElem? (p v : List Nat) (k : Nat) (hk : k < p.length) :
    (gather p v)[k]? = some (v.getD p[k] 0) := by
  simp [gather, List.getElem?_map, List.getElem?_eq_getElem hk]

/-- gathering by `p` and then by its inverse is the identity (on lists of the right length) -/
theorem gather_invert_gather (p v : List Nat) (hp : IsPerm p) (hv : v.length = p.length) :
    gather (invertPerm p) (gather p v) = v := by
  have hlen := invertPerm_length p hp
  apply List.ext_getElem?
  intro m
  by_cases hm : m < p.length
  · obtain ⟨k, hk, hik, hpk⟩ := invertPerm_right p hp m hm
    rw [gather_getElem? _ _ m (by omega)]
    rw [List.getElem?_eq_getElem (by omega)] at hik
    have e1 : (invertPerm p)[m] = k := by simpa using hik
    rw [e1, List.getD_eq_getElem?_getD, gather_getElem? p v k hk]
    rw [List.getElem?_eq_getElem hk] at hpk
    have e2 : p[k] = m := by simpa using hpk
    rw [e2]
    simp [List.getElem?_eq_getElem (by omega : m < v.length)]
  · rw [List.getElem?_eq_none (by rw [gather_length]; omega), List.getElem?_eq_none (by omega)]

/-- the index read by `x.transpose(perm)` at `idx` -/
def srcIdx (n : Nat) (perm idx : List Nat) : List Nat :=
  (List.range n).map (fun m => idx.getD (perm.idxOf m) 0)

theorem transpose_get {α : Type} (perm : List Nat) (x : Arr α) (idx : List Nat) :
    (x.transpose perm).get idx = x.get (srcIdx x.shape.length perm idx) := rfl

/-- `srcIdx` through the inverse permutation is `gather p` -/
theorem srcIdx_invert (p idx : List Nat) (hp : IsPerm p) :
    srcIdx p.length (invertPerm p) idx = gather p idx := by
  apply List.ext_getElem?
  intro k
  by_cases hk : k < p.length
  · simp only [srcIdx, gather, List.getElem?_map, List.getElem?_range hk, Option.map_some,
      List.getElem?_eq_getElem hk, idxOf_invertPerm p hp k hk]
  · simp [srcIdx, gather, List.getElem?_eq_none (by simpa using hk : p.length ≤ k)]
    omega

/-- `srcIdx` through `p` is `gather (invertPerm p)` -/
theorem srcIdx_perm (p idx : List Nat) (hp : IsPerm p) :
    srcIdx p.length p idx = gather (invertPerm p) idx := by
  have hlen := invertPerm_length p hp
  apply List.ext_getElem?
  intro m
  by_cases hm : m < p.length
  · have h1 := idxOf_perm p hp m hm
    rw [List.getElem?_eq_getElem (by omega)] at h1
    have e : (invertPerm p)[m] = p.idxOf m := by simpa using h1
    simp only [srcIdx, gather, List.getElem?_map, List.getElem?_range hm, Option.map_some,
      List.getElem?_eq_getElem (by omega : m < (invertPerm p).length), e]
  · simp [srcIdx, gather, List.getElem?_eq_none (by omega : (invertPerm p).length ≤ m)]
    omega

/-- gathering by the inverse and then by `p` is the identity as well -/
theorem gather_gather_invert (p w : List Nat) (hp : IsPerm p) (hw : w.length = p.length) :
    gather p (gather (invertPerm p) w) = w := by
  have hlen := invertPerm_length p hp
  apply List.ext_getElem?
  intro k
  by_cases hk : k < p.length
  · rw [gather_getElem? _ _ k hk, List.getD_eq_getElem?_getD]
    have hlt : p[k] < (invertPerm p).length := by rw [hlen]; exact hp.lt _ (List.getElem_mem _)
    rw [gather_getElem? _ _ p[k] hlt]
    have := invertPerm_left p hp k hk
    rw [List.getElem?_eq_getElem hlt] at this
    have e : (invertPerm p)[p[k]] = k := by simpa using this
    rw [e]
    simp [List.getElem?_eq_getElem (by omega : k < w.length)]
  · rw [List.getElem?_eq_none (by rw [gather_length]; omega), List.getElem?_eq_none (by omega)]

theorem gather_append (a b v : List Nat) : gather (a ++ b) v = gather a v ++ gather b v := by
  simp [gather]

/-! ## `transpose_out ∘ transpose_in = id` -/

theorem transposeIn_shape {α : Type} (axis : List Nat) (x : Arr α) :
    (transposeIn axis x).shape = gather (scanPerm axis x.shape.length) x.shape := rfl

theorem transposeIn_rank {α : Type} (axis : List Nat) (x : Arr α) (h : ValidAxes axis x.shape.length) :
    (transposeIn axis x).shape.length = x.shape.length := by
  rw [transposeIn_shape, gather_length, scanPerm_length axis _ h]

theorem transposeOut_transposeIn_shape {α : Type} (axis : List Nat) (x : Arr α)
    (h : ValidAxes axis x.shape.length) : (transposeOut axis (transposeIn axis x)).shape = x.shape := by
  have hr := transposeIn_rank axis x h
  show gather (invertPerm (scanPerm axis (transposeIn axis x).shape.length)) (transposeIn axis x).shape = x.shape
  rw [hr, transposeIn_shape]
  exact gather_invert_gather _ _ (scanPerm_isPerm axis _ h) (by rw [scanPerm_length axis _ h])

theorem transposeOut_transposeIn_get {α : Type} (axis : List Nat) (x : Arr α)
    (h : ValidAxes axis x.shape.length) (idx : List Nat) (hidx : idx.length = x.shape.length) :
    (transposeOut axis (transposeIn axis x)).get idx = x.get idx := by
  have hr := transposeIn_rank axis x h
  have hp := scanPerm_isPerm axis _ h
  have hpl := scanPerm_length axis _ h
  show (transposeIn axis x).get (srcIdx (transposeIn axis x).shape.length
      (invertPerm (scanPerm axis (transposeIn axis x).shape.length)) idx) = x.get idx
  rw [hr]
  show x.get (srcIdx x.shape.length (scanPerm axis x.shape.length)
      (srcIdx x.shape.length (invertPerm (scanPerm axis x.shape.length)) idx)) = x.get idx
  congr 1
  have e1 := srcIdx_invert (scanPerm axis x.shape.length) idx hp
  rw [hpl] at e1
  rw [e1]
  have e2 := srcIdx_perm (scanPerm axis x.shape.length) (gather (scanPerm axis x.shape.length) idx) hp
  rw [hpl] at e2
  rw [e2]
  exact gather_invert_gather _ _ hp (by rw [hpl]; exact hidx)

/-! ## the nested Python loop as a specification, and `_scan_nd` -/

/-- `x[m0, m1, …]`: index the leading axes -/
def Arr.sliceAt {α : Type} (x : Arr α) (m : List Nat) : Arr α :=
  { shape := x.shape.drop m.length, get := fun r => x.get (m ++ r) }

/-- the Python loop `for m in ms: c, y = f(c, m); out.append((m, y))` -/
def runLoop {β γ : Type} (f : γ → List Nat → γ × Arr β) : List (List Nat) → γ → γ × List (List Nat × Arr β)
  | [], c => (c, [])
  | m :: ms, c => ((runLoop f ms (f c m).1).1, (m, (f c m).2) :: (runLoop f ms (f c m).1).2)

theorem runLoop_append {β γ : Type} (f : γ → List Nat → γ × Arr β) :
    ∀ (a b : List (List Nat)) (c : γ),
      runLoop f (a ++ b) c =
        ((runLoop f b (runLoop f a c).1).1, (runLoop f a c).2 ++ (runLoop f b (runLoop f a c).1).2) := by
  intro a
  induction a with
  | nil => intro b c; simp [runLoop]
  | cons m ms ih => intro b c; simp [runLoop, ih]

theorem runLoop_map_cons {β γ : Type} (f : γ → List Nat → γ × Arr β) (i : Nat) :
    ∀ (ms : List (List Nat)) (c : γ),
      runLoop f (ms.map (fun m => i :: m)) c =
        ((runLoop (fun c m => f c (i :: m)) ms c).1,
         (runLoop (fun c m => f c (i :: m)) ms c).2.map (fun e => (i :: e.1, e.2))) := by
  intro ms
  induction ms with
  | nil => intro c; simp [runLoop]
  | cons m ms ih => intro c; simp [runLoop, ih]

theorem runLoop_congr {β γ : Type} (f g : γ → List Nat → γ × Arr β) :
    ∀ (ms : List (List Nat)), (∀ m ∈ ms, ∀ c, f c m = g c m) → ∀ c, runLoop f ms c = runLoop g ms c := by
  intro ms
  induction ms with
  | nil => intro _ c; rfl
  | cons m ms ih =>
    intro h c
    have hm := h m (by simp)
    simp only [runLoop, hm, ih (fun m' hm' => h m' (List.mem_cons_of_mem _ hm'))]

theorem allIdx_length : ∀ (dims : List Nat) (m : List Nat), m ∈ allIdx dims → m.length = dims.length := by
  intro dims
  induction dims with
  | nil => intro m hm; simp [allIdx] at hm; simp [hm]
  | cons d ds ih =>
    intro m hm
    simp only [allIdx, List.mem_flatMap, List.mem_map] at hm
    obtain ⟨i, _, r, hr, rfl⟩ := hm
    simp [ih r hr]

theorem sliceAt_slice0 {α : Type} (x : Arr α) (i : Nat) (m : List Nat) :
    (x.slice0 i).sliceAt m = x.sliceAt (i :: m) := by
  simp only [Arr.sliceAt, Arr.slice0, List.length_cons, List.cons_append]
  congr 1
  cases x.shape <;> simp

theorem sliceAt_singleton {α : Type} (x : Arr α) (i : Nat) : x.sliceAt [i] = x.slice0 i := by
  simp only [Arr.sliceAt, Arr.slice0, List.length_cons, List.length_nil, List.cons_append, List.nil_append]
  congr 1
  cases x.shape <;> simp

/-- rows of the loop nest: carry after `i` complete rows -/
def rowCarry {β γ : Type} (f : γ → List Nat → γ × Arr β) (inner : List (List Nat)) (init : γ) : Nat → γ
  | 0 => init
  | i + 1 => (runLoop (fun c m => f c (i :: m)) inner (rowCarry f inner init i)).1

theorem runLoop_rows {β γ : Type} (f : γ → List Nat → γ × Arr β) (inner : List (List Nat)) (init : γ) :
    ∀ (n : Nat),
      (runLoop f ((List.range n).flatMap (fun i => inner.map (fun r => i :: r))) init).1 = rowCarry f inner init n ∧
      ∀ e, e ∈ (runLoop f ((List.range n).flatMap (fun i => inner.map (fun r => i :: r))) init).2 →
        ∃ i m, i < n ∧ e.1 = i :: m ∧
          (m, e.2) ∈ (runLoop (fun c m => f c (i :: m)) inner (rowCarry f inner init i)).2 := by
  intro n
  induction n with
  | zero => simp [runLoop, rowCarry]
  | succ n ih =>
    obtain ⟨ih1, ih2⟩ := ih
    rw [List.range_succ, List.flatMap_append, runLoop_append]
    simp only [List.flatMap_cons, List.flatMap_nil, List.append_nil, runLoop_map_cons, ih1]
    refine ⟨rfl, ?_⟩
    intro e he
    simp only [List.mem_append, List.mem_map] at he
    rcases he with he | ⟨e', he', rfl⟩
    · obtain ⟨i, m, hi, h1, h2⟩ := ih2 e he
      exact ⟨i, m, by omega, h1, h2⟩
    · exact ⟨n, e'.1, by omega, rfl, he'⟩

theorem scanNd_runLoop {α β γ : Type} (body : γ → Arr α → γ × Arr β) :
    ∀ (k : Nat) (init : γ) (x : Arr α), k + 1 ≤ x.shape.length →
      (scanNd body k init x).1
          = (runLoop (fun c m => body c (x.sliceAt m)) (allIdx (x.shape.take (k + 1))) init).1 ∧
      ∀ m y, (m, y) ∈ (runLoop (fun c m => body c (x.sliceAt m)) (allIdx (x.shape.take (k + 1))) init).2 →
        ∀ r, (scanNd body k init x).2.get (m ++ r) = y.get r := by
  intro k
  induction k with
  | zero =>
    intro init x hr
    obtain ⟨n, tl, hx⟩ : ∃ n tl, x.shape = n :: tl := by
      cases hs : x.shape with
      | nil => simp [hs] at hr
      | cons n tl => exact ⟨n, tl, rfl⟩
    have hidx : allIdx (x.shape.take 1) = (List.range n).flatMap (fun i => [[]].map (fun r => i :: r)) := by
      simp [hx, allIdx]
    obtain ⟨r1, r2⟩ := runLoop_rows (fun c m => body c (x.sliceAt m)) [[]] init n
    have hcar : ∀ i, rowCarry (fun c m => body c (x.sliceAt m)) [[]] init i = carryAt body init (fun i => x.slice0 i) i := by
      intro i
      induction i with
      | zero => rfl
      | succ i ihi =>
        simp only [rowCarry, runLoop, carryAt, ihi]
        have : x.sliceAt [i] = x.slice0 i := sliceAt_singleton x i
        rw [this]
    simp only [Nat.zero_add, hidx]
    refine ⟨?_, ?_⟩
    · rw [r1, hcar]; simp [scanNd, scan1, hx]
    · intro m y hmy r
      obtain ⟨i, m', hi, h1, h2⟩ := r2 (m, y) hmy
      simp only [runLoop, List.mem_singleton, Prod.mk.injEq] at h2
      obtain ⟨hm', hy⟩ := h2
      simp only at h1
      subst h1 hm'
      rw [hcar] at hy
      have : x.sliceAt [i] = x.slice0 i := sliceAt_singleton x i
      rw [this] at hy
      subst hy
      simp [scanNd, scan1]
  | succ k ih =>
    intro init x hr
    obtain ⟨n, tl, hx⟩ : ∃ n tl, x.shape = n :: tl := by
      cases hs : x.shape with
      | nil => simp [hs] at hr
      | cons n tl => exact ⟨n, tl, rfl⟩
    have htl : k + 1 ≤ tl.length := by rw [hx] at hr; simpa using hr
    have hidx : allIdx (x.shape.take (k + 1 + 1))
        = (List.range n).flatMap (fun i => (allIdx (tl.take (k + 1))).map (fun r => i :: r)) := by
      simp [hx, allIdx]
    obtain ⟨r1, r2⟩ := runLoop_rows (fun c m => body c (x.sliceAt m)) (allIdx (tl.take (k + 1))) init n
    have hsl : ∀ i, (x.slice0 i).shape = tl := by intro i; simp [Arr.slice0, hx]
    have hcar : ∀ i, rowCarry (fun c m => body c (x.sliceAt m)) (allIdx (tl.take (k + 1))) init i
        = carryAt (fun c s => scanNd body k c s) init (fun i => x.slice0 i) i := by
      intro i
      induction i with
      | zero => rfl
      | succ i ihi =>
        simp only [rowCarry, carryAt, ihi]
        have := (ih (carryAt (fun c s => scanNd body k c s) init (fun i => x.slice0 i) i) (x.slice0 i)
          (by rw [hsl]; exact htl)).1
        rw [this, hsl]
        simp only [sliceAt_slice0]
    rw [hidx]
    refine ⟨?_, ?_⟩
    · rw [r1, hcar]; simp [scanNd, scan1, hx]
    · intro m y hmy r
      obtain ⟨i, m', hi, h1, h2⟩ := r2 (m, y) hmy
      simp only at h1 h2
      subst h1
      rw [hcar] at h2
      have := (ih (carryAt (fun c s => scanNd body k c s) init (fun i => x.slice0 i) i) (x.slice0 i)
        (by rw [hsl]; exact htl)).2 m' y (by
          rw [hsl]; simp only [sliceAt_slice0]; exact h2) r
      simp only [scanNd, scan1, List.cons_append]
      exact this

/-- shape of the stacked result of `_scan_nd`: the scanned extents, then the shape of the body's
output at the first slice (JAX obtains it by tracing) -/
theorem scanNd_shape {α β γ : Type} (body : γ → Arr α → γ × Arr β) :
    ∀ (k : Nat) (init : γ) (x : Arr α), k + 1 ≤ x.shape.length →
      (scanNd body k init x).2.shape
        = x.shape.take (k + 1) ++ (body init (x.sliceAt (List.replicate (k + 1) 0))).2.shape := by
  intro k
  induction k with
  | zero =>
    intro init x hr
    obtain ⟨n, tl, hx⟩ : ∃ n tl, x.shape = n :: tl := by
      cases hs : x.shape with
      | nil => simp [hs] at hr
      | cons n tl => exact ⟨n, tl, rfl⟩
    have : x.sliceAt [0] = x.slice0 0 := sliceAt_singleton x 0
    simp [scanNd, scan1, hx, List.replicate, this]
  | succ k ih =>
    intro init x hr
    obtain ⟨n, tl, hx⟩ : ∃ n tl, x.shape = n :: tl := by
      cases hs : x.shape with
      | nil => simp [hs] at hr
      | cons n tl => exact ⟨n, tl, rfl⟩
    have htl : k + 1 ≤ tl.length := by rw [hx] at hr; simpa using hr
    have hsl : (x.slice0 0).shape = tl := by simp [Arr.slice0, hx]
    have := ih init (x.slice0 0) (by rw [hsl]; exact htl)
    simp only [scanNd, scan1, hx, List.headD_cons]
    rw [this, hsl, sliceAt_slice0]
    simp [List.replicate_succ]

/-! ## negative axis entries: the `Int` definitions coincide with the `Nat` ones on normalised axes -/

theorem normAxis_ofNat (n a : Nat) : normAxis n (Int.ofNat a) = a := by
  have h : ¬ (Int.ofNat a < 0) := by simp
  simp only [normAxis, h, if_false]
  rfl

theorem invertLoopI_eq : ∀ (perm : List Int) (i : Nat) (inv : List Nat),
    invertLoopI perm i inv = invertLoop (perm.map (normAxis inv.length)) i inv := by
  intro perm
  induction perm with
  | nil => intro i inv; rfl
  | cons j rest ih =>
    intro i inv
    simp only [invertLoopI, List.map_cons, invertLoop]
    rw [ih]; simp

theorem invertPermI_eq (perm : List Int) :
    invertPermI perm = invertPerm (perm.map (normAxis perm.length)) := by
  simp [invertPermI, invertPerm, invertLoopI_eq]

theorem scanPermI_norm (axis : List Int) (n : Nat) :
    (scanPermI axis n).map (normAxis n) = scanPerm (axis.map (normAxis n)) n := by
  simp only [scanPermI, scanPerm, List.map_append, List.map_map]
  congr 1
  have : (normAxis n ∘ Int.ofNat) = id := by funext a; exact normAxis_ofNat n a
  rw [this]; simp

theorem scanPermI_length (axis : List Int) (n : Nat) :
    (scanPermI axis n).length = (scanPerm (axis.map (normAxis n)) n).length := by
  rw [← scanPermI_norm, List.length_map]

theorem transposeInI_eq {α : Type} (axis : List Int) (x : Arr α) :
    transposeInI axis x = transposeIn (axis.map (normAxis x.shape.length)) x := by
  simp only [transposeInI, Arr.transposeI, transposeIn, scanPermI_norm]

theorem transposeOutI_eq {α : Type} (axis : List Int) (x : Arr α)
    (h : ValidAxes (axis.map (normAxis x.shape.length)) x.shape.length) :
    transposeOutI axis x = transposeOut (axis.map (normAxis x.shape.length)) x := by
  simp only [transposeOutI, transposeOut, invertPermI_eq]
  rw [scanPermI_length, scanPerm_length _ _ h, scanPermI_norm]

/-! congruence of scans in the body (only the slices actually visited matter) -/

theorem scan1_congr {α β γ : Type} (B1 B2 : γ → Arr α → γ × Arr β) (init : γ) (x : Arr α)
    (h : ∀ c i, B1 c (x.slice0 i) = B2 c (x.slice0 i)) : scan1 B1 init x = scan1 B2 init x := by
  have hc : ∀ i, carryAt B1 init (fun i => x.slice0 i) i = carryAt B2 init (fun i => x.slice0 i) i := by
    intro i
    induction i with
    | zero => rfl
    | succ i ih => simp only [carryAt, ih, h]
  simp only [scan1, hc, h]

theorem scanNd_congr {α β γ : Type} (B1 B2 : γ → Arr α → γ × Arr β) :
    ∀ (k : Nat) (init : γ) (x : Arr α), k + 1 ≤ x.shape.length →
      (∀ c s, s.shape.length + (k + 1) = x.shape.length → B1 c s = B2 c s) →
      scanNd B1 k init x = scanNd B2 k init x := by
  intro k
  induction k with
  | zero =>
    intro init x hr h
    simp only [scanNd]
    apply scan1_congr
    intro c i
    apply h
    simp only [Arr.slice0, List.length_tail]; omega
  | succ k ih =>
    intro init x hr h
    simp only [scanNd]
    apply scan1_congr
    intro c i
    have hl : (x.slice0 i).shape.length + 1 = x.shape.length := by
      simp only [Arr.slice0, List.length_tail]; omega
    apply ih c (x.slice0 i) (by omega)
    intro c' s hs
    apply h
    omega

theorem scanNd_result_rank {α β γ : Type} (body : γ → Arr α → γ × Arr β) (k : Nat) (init : γ) (x : Arr α)
    (hr : k + 1 ≤ x.shape.length) :
    (scanNd body k init x).2.shape.length
      = (k + 1) + (body init (x.sliceAt (List.replicate (k + 1) 0))).2.shape.length := by
  rw [scanNd_shape body k init x hr, List.length_append, List.length_take, Nat.min_eq_left hr]

end Flax.HostData
