/- C06: `remat_scan` = ONE flat loop, for configurations that lift no axis and no broadcast collections
   (carried collections, carry and rng streams only) -/
import Flax.Proofs.LiftLoopRemat
import Flax.Proofs.LiftLoopFlat
import Flax.Proofs.LiftLoopDict

set_option linter.unusedSimpArgs false
set_option linter.unusedSectionVars false

namespace Flax.LiftLoop
open Flax.Filter
variable {α : Type} [Inhabited α]

/-- the filters of every level: `[variable_broadcast, variable_carry]` (no `variable_axes` entries) -/
def RematCfg.fs2 (rc : RematCfg) : List LFilter := [rc.bcast, rc.carry]

theorem scanCfg_inFs (rc : RematCfg) (hax : rc.axes = []) (l : Nat) : (rc.scanCfg l).inFs = rc.fs2 := by
  simp [RematCfg.scanCfg, ScanCfg.inFs, ScanCfg.inAx, hax, RematCfg.fs2]

theorem scanCfg_outFs (rc : RematCfg) (hax : rc.axes = []) (l : Nat) : (rc.scanCfg l).outFs = rc.fs2 := by
  simp [RematCfg.scanCfg, ScanCfg.outFs, ScanCfg.outAx, hax, RematCfg.fs2]

theorem roleGroup_ff_zero {β : Type} (d : List (String × β)) (f : LFilter) : roleGroup d [.ff, f] 0 = [] := by
  simp [roleGroup, firstIdx, inFilter]

theorem roleGroup_idem {β : Type} (d : List (String × β)) (fs : List LFilter) (g : Nat) :
    roleGroup (roleGroup d fs g) fs g = roleGroup d fs g := by
  simp [roleGroup, List.filter_filter]

/-- one level of the nest, when nothing but carried collections is lifted: the broadcast pass is redundant (there
is no broadcast collection), there is nothing to slice or stack, and the level is a threaded loop of `l`
iterations over `(carried collections, carry)` whose result is written back -/
def levelStep (rc : RematCfg) (B : Body α) (mutF : LFilter) (r : Rngs) (l : Nat)
    (st : Vars α × List (Arr α)) (i : Nat) : Option ((Vars α × List (Arr α)) × (List (Arr α) × List (Vars α))) :=
  (opt (B mutF (mergeGroups ([] :: st.1 :: [])) (mergeGroups (iterRngGroups rc.splitRngs r l i)) st.2 [])).map
    (fun o => ((roleGroup (o.1.filter (fun kv => inFilter mutF kv.1)) rc.fs2 1, o.2.1), (o.2.2, [])))

theorem rngDims_all (sr : List (LFilter × Bool)) (rngs : Rngs) (l : Nat) :
    ∀ d ∈ ((List.range sr.length).zip sr).flatMap (fun p =>
      if p.2.2 then (roleGroup rngs (sr.map (·.1)) p.1).map (fun _ => l) else []), d = l := by
  intro d hd
  simp only [List.mem_flatMap] at hd
  obtain ⟨p, _, hp⟩ := hd
  split at hp
  · simp only [List.mem_map] at hp; obtain ⟨_, _, rfl⟩ := hp; rfl
  · cases hp

theorem loopStep_carryOnly (rc : RematCfg) (hax : rc.axes = []) (hb : rc.bcast = .ff) (B : Body α)
    (mutF : LFilter) (V : Vars α) (r : Rngs) (l : Nat) (b : Vars α) (st : Vars α × List (Arr α)) (i : Nat)
    (hbn : b = []) :
    loopStep (rc.scanCfg l) mutF B V r [] [] l b st i =
      (opt (B mutF (mergeGroups ([] :: st.1 :: [])) (mergeGroups (iterRngGroups rc.splitRngs r l i)) st.2 [])).map
        (fun o => ([], (roleGroup (o.1.filter (fun kv => inFilter mutF kv.1)) rc.fs2 1, o.2.1), (o.2.2, []))) := by
  subst hbn
  unfold loopStep iterArgs
  have h1 : (rc.scanCfg l).inAx = [] := by simp [RematCfg.scanCfg, ScanCfg.inAx, hax]
  have h2 : (rc.scanCfg l).outAx = [] := by simp [RematCfg.scanCfg, ScanCfg.outAx, hax]
  have h3 : (rc.scanCfg l).splitRngs = rc.splitRngs := rfl
  simp only [h1, h2, h3, scanCfg_outFs rc hax, List.map_nil, List.length_nil, axisGroups, List.range_zero,
    List.zip_nil_left, mapE, opt_ok, Option.bind_some]
  cases B mutF (mergeGroups ([] :: st.1 :: [])) (mergeGroups (iterRngGroups rc.splitRngs r l i)) st.2 [] with
  | error e => rfl
  | ok o =>
    simp only [opt_ok, Option.bind_some, Option.map_some]
    have : roleGroup (o.1.filter (fun kv => inFilter mutF kv.1)) rc.fs2 0 = [] := by
      unfold RematCfg.fs2; rw [hb]; exact roleGroup_ff_zero _ _
    simp [this, reinject]


theorem jaxLength_some_all {l : Nat} {dims : List Nat} (h : ∀ d ∈ dims, d = l) : jaxLength (some l) dims = .ok l := by
  unfold jaxLength
  have : dims.all (fun d => decide (d = l)) = true := by
    rw [List.all_eq_true]; intro d hd; simpa using h d hd
  simp [this]

theorem loopDims_carryOnly (rc : RematCfg) (hax : rc.axes = []) (V : Vars α) (r : Rngs) (l : Nat) :
    ∃ dims, loopDims (rc.scanCfg l) V r [] [] l = some dims ∧ ∀ d ∈ dims, d = l := by
  have h1 : (rc.scanCfg l).inAx = [] := by simp [RematCfg.scanCfg, ScanCfg.inAx, hax]
  have h3 : (rc.scanCfg l).splitRngs = rc.splitRngs := rfl
  refine ⟨((List.range rc.splitRngs.length).zip rc.splitRngs).flatMap (fun p =>
      if p.2.2 then (roleGroup r (rc.splitRngs.map (·.1)) p.1).map (fun _ => l) else []), ?_, ?_⟩
  · unfold loopDims
    simp only [h1, h3, List.map_nil, List.length_nil, axisGroups, List.range_zero, List.zip_nil_left, mapE, opt_ok,
      Option.bind_some, List.flatten_nil, List.nil_append, List.append_nil]
  · exact rngDims_all rc.splitRngs r l

/-- **one level** of a carry-only nest is a threaded loop of `l` iterations over `(carried collections, carry)`;
the result is written back into the scope -/
theorem level_carryOnly (rc : RematCfg) (hax : rc.axes = []) (hb : rc.bcast = .ff) (B : Body α)
    (hys : ∀ mf v rg c xs o, B mf v rg c xs = .ok o → o.2.2 = []) (m : LFilter) (V : Vars α) (r : Rngs)
    (c : List (Arr α)) (l : Nat) (hl : l ≠ 0) :
    loopSpec (rc.scanCfg l) true B m V r c [] =
      (loopRun (levelStep rc B (innerMutable m rc.fs2) r l) sameStruct (roleGroup V rc.fs2 1, c) (List.range l)).map
        (fun res => { vars := publish m V ([] :: res.1.1 :: []), carry := res.1.2, ys := [] }) := by
  obtain ⟨dims, hdims, hall⟩ := loopDims_carryOnly rc hax V r l
  have hstep : ∀ b, b = [] → (fun st i => (loopStep (rc.scanCfg l) (innerMutable m rc.fs2) B V r [] [] l b st i).map
      (fun x => (x.2.1, x.2.2))) = levelStep rc B (innerMutable m rc.fs2) r l := by
    intro b hb0
    funext st i
    rw [loopStep_carryOnly rc hax hb B _ V r l b st i hb0]
    unfold levelStep
    cases B (innerMutable m rc.fs2) (mergeGroups ([] :: st.1 :: [])) (mergeGroups (iterRngGroups rc.splitRngs r l i)) st.2 [] <;> rfl
  unfold loopSpec
  have ha : argSizes (rc.scanCfg l).inAxes ([] : List (Arr α)) = .ok [] := rfl
  have hd : decideLength (rc.scanCfg l).length [] = .ok l := rfl
  have he : (rc.scanCfg l).inAxes.expand ([] : List (Arr α)).length = .ok [] := rfl
  simp only [ha, hd, he, opt_ok, Option.bind_some, scanCfg_outFs rc hax]
  unfold loopCore
  have hcc : (rc.scanCfg l).checkConst = true := rfl
  simp only [hcc, if_true]
  unfold loopCoreChecked
  have hlen : (rc.scanCfg l).length = some l := rfl
  simp only [hdims, Option.bind_some, hlen, jaxLength_some_all hall, opt_ok, hl, if_false, scanCfg_inFs rc hax]
  have hrev : (rc.scanCfg l).reverse = false := rfl
  simp only [hrev, Bool.false_eq_true, if_false, Bool.not_true]
  have hb0 : roleGroup V rc.fs2 0 = [] := by unfold RematCfg.fs2; rw [hb]; exact roleGroup_ff_zero _ _
  rw [hb0, loopStep_carryOnly rc hax hb B _ V r l [] _ 0 rfl]
  -- the first iteration of the loop is the broadcast pass again
  obtain ⟨l', rfl⟩ : ∃ l', l = l' + 1 := ⟨l - 1, by omega⟩
  cases hB : B (innerMutable m rc.fs2) (mergeGroups ([] :: (roleGroup V rc.fs2 1, c).1 :: []))
      (mergeGroups (iterRngGroups rc.splitRngs r (l' + 1) 0)) (roleGroup V rc.fs2 1, c).2 [] with
  | error e =>
    simp only [opt_error, Option.map_none, Option.bind_none]
    have : loopRun (levelStep rc B (innerMutable m rc.fs2) r (l' + 1)) sameStruct (roleGroup V rc.fs2 1, c)
        (List.range (l' + 1)) = none := by
      rw [List.range_succ_eq_map]
      simp [loopRun, levelStep, hB]
    rw [this]; rfl
  | ok o =>
    simp only [opt_ok, Option.map_some, Option.bind_some, hys _ _ _ _ _ _ hB, List.length_nil]
    have hexp : (rc.scanCfg (l' + 1)).outAxes.expand 0 = .ok [] := rfl
    simp only [hexp, opt_ok, Option.bind_some, hstep [] rfl]
    cases hrun : loopRun (levelStep rc B (innerMutable m rc.fs2) r (l' + 1)) sameStruct (roleGroup V rc.fs2 1, c)
        (List.range (l' + 1)) with
    | none => rfl
    | some res =>
      have hk := loopRun_keys _ _ _ _ _ hrun
      simp only [Option.bind_some, byIndex_fwd _ _ hk, Option.map_some]
      have h2 : (rc.scanCfg (l' + 1)).outAx = [] := by simp [RematCfg.scanCfg, ScanCfg.outAx, hax]
      simp [h2, collectOuts, mapE, bind, Except.bind, pure, Except.pure]


/-! ### generic facts about threaded loops -/

theorem runG_state_congr {ι σ ω1 ω2 : Type} (step1 : σ → ι → Option (σ × ω1)) (step2 : σ → ι → Option (σ × ω2))
    (same : σ → σ → Bool) (Inv : σ → Prop)
    (hstep : ∀ s i, Inv s → (step1 s i).map (·.1) = (step2 s i).map (·.1))
    (hpres : ∀ s i r, Inv s → step2 s i = some r → same s r.1 = true → Inv r.1) :
    ∀ (l : List ι) (s : σ), Inv s → (runG step1 same s l).map (·.1) = (runG step2 same s l).map (·.1) := by
  intro l
  induction l with
  | nil => intro s _; rfl
  | cons i is ih =>
    intro s hs
    have h := hstep s i hs
    simp only [runG]
    cases h1 : step1 s i with
    | none =>
      rw [h1] at h
      cases h2 : step2 s i with
      | none => rfl
      | some r2 => rw [h2] at h; cases h
    | some r1 =>
      rw [h1] at h
      cases h2 : step2 s i with
      | none => rw [h2] at h; cases h
      | some r2 =>
        rw [h2] at h
        simp only [Option.map_some, Option.some.injEq] at h
        simp only []
        rw [h]
        by_cases hsm : same s r2.1 = true
        · simp only [hsm, if_true]
          have := ih r2.1 (hpres s i r2 hs h2 hsm)
          rw [← h] at this ⊢
          cases ha : runG step1 same r1.1 is with
          | none =>
            rw [ha] at this
            cases hb : runG step2 same r1.1 is with
            | none => rfl
            | some y => rw [hb] at this; cases this
          | some x =>
            rw [ha] at this
            cases hb : runG step2 same r1.1 is with
            | none => rw [hb] at this; cases this
            | some y => rw [hb] at this; simpa using this
        · simp [hsm]

theorem runG_map_state {ι κ σ ω : Type} (step : σ → ι → Option (σ × ω)) (same : σ → σ → Bool) (f : κ → ι) :
    ∀ (l : List κ) (s : σ),
    (runG step same s (l.map f)).map (·.1) = (runG (fun s k => step s (f k)) same s l).map (·.1) := by
  intro l
  induction l with
  | nil => intro s; rfl
  | cons k ks ih =>
    intro s
    simp only [List.map_cons, runG]
    cases step s (f k) with
    | none => rfl
    | some r =>
      simp only []
      by_cases hsm : same s r.1 = true
      · simp only [hsm, if_true]
        have := ih r.1
        cases ha : runG step same r.1 (ks.map f) with
        | none =>
          rw [ha] at this
          cases hb : runG (fun s k => step s (f k)) same r.1 ks with
          | none => rfl
          | some y => rw [hb] at this; cases this
        | some x =>
          rw [ha] at this
          cases hb : runG (fun s k => step s (f k)) same r.1 ks with
          | none => rw [hb] at this; cases this
          | some y => rw [hb] at this; simpa using this
      · simp [hsm]

/-- the final state of a non-empty successful run is the state some step returned -/
theorem runG_last_step {ι σ ω : Type} (step : σ → ι → Option (σ × ω)) (same : σ → σ → Bool) :
    ∀ (l : List ι) (s : σ) (r : σ × List (ι × ω)), l ≠ [] → runG step same s l = some r →
    ∃ s' i y, step s' i = some (r.1, y) := by
  intro l
  induction l with
  | nil => intro s r h; exact absurd rfl h
  | cons i is ih =>
    intro s r _ h
    simp only [runG] at h
    cases hs : step s i with
    | none => simp [hs] at h
    | some r1 =>
      simp only [hs] at h
      by_cases hsm : same s r1.1 = true
      · simp only [hsm, if_true] at h
        cases hr : runG step same r1.1 is with
        | none => simp [hr] at h
        | some rest =>
          simp [hr] at h
          subst h
          cases is with
          | nil => simp [runG] at hr; subst hr; exact ⟨s, i, r1.2, by simpa using hs⟩
          | cons j js => exact ih r1.1 rest (by simp) hr
      · simp [hsm] at h

theorem allIdx_ne_nil : ∀ (lengths : List Nat), (∀ l ∈ lengths, l ≠ 0) → allIdx lengths ≠ [] := by
  intro lengths
  induction lengths with
  | nil => intro _; simp [allIdx]
  | cons l ls ih =>
    intro h hnil
    have hl : l ≠ 0 := h l (by simp)
    obtain ⟨l', rfl⟩ : ∃ l', l = l' + 1 := ⟨l - 1, by omega⟩
    have hls := ih (fun x hx => h x (by simp [hx]))
    cases hA : allIdx ls with
    | nil => exact hls hA
    | cons t ts =>
      simp [allIdx, hA, List.range_succ_eq_map] at hnil


/-! ### the carry-only nest -/

/-- mutability filter handed to the body at nesting depth `k` -/
def mAt (rc : RematCfg) (m : LFilter) : Nat → LFilter
  | 0 => m
  | k + 1 => innerMutable (mAt rc m k) rc.fs2

/-- the rngs at the end of a path of `(length, index)` pairs: every level regroups and splits them once more -/
def rngsAt (rc : RematCfg) : Rngs → List (Nat × Nat) → Rngs
  | r, [] => r
  | r, (l, i) :: rest => rngsAt rc (mergeGroups (iterRngGroups rc.splitRngs r l i)) rest

theorem rngsAt_append (rc : RematCfg) : ∀ (p q : List (Nat × Nat)) (r : Rngs),
    rngsAt rc r (p ++ q) = rngsAt rc (rngsAt rc r p) q := by
  intro p
  induction p with
  | nil => intro q r; rfl
  | cons x xs ih => intro q r; obtain ⟨l, i⟩ := x; simp [rngsAt, ih]

theorem mAt_mono (rc : RematCfg) (m : LFilter) (c : String) : ∀ (j i : Nat), i ≤ j →
    inFilter (mAt rc m j) c = true → inFilter (mAt rc m i) c = true := by
  intro j
  induction j with
  | zero => intro i hi h; have : i = 0 := by omega
            subst this; exact h
  | succ j ih =>
    intro i hi h
    by_cases he : i = j + 1
    · subst he; exact h
    · apply ih i (by omega)
      simp only [mAt, in_innerMutable, Bool.and_eq_true] at h
      exact h.1

/-- dict well-formedness of the carried collections, and: they are carried collections -/
def InvC (rc : RematCfg) (cv : Vars α) : Prop :=
  (cv.map (·.1)).Nodup ∧ (∀ cc ∈ cv, (cc.2.map (·.1)).Nodup) ∧ (∀ cc ∈ cv, firstIdx rc.fs2 cc.1 = some 1)

/-- every collection of the state is mutable at depth `k` -/
def GoodC (rc : RematCfg) (m : LFilter) (k : Nat) (cv : Vars α) : Prop :=
  ∀ cc ∈ cv, inFilter (mAt rc m k) cc.1 = true

theorem names_of_sameStruct {a b : Vars α × List (Arr α)} (h : sameStruct a b = true) :
    a.1.map (fun cc => (cc.1, cc.2.map (·.1))) = b.1.map (fun cc => (cc.1, cc.2.map (·.1))) := by
  simp only [sameStruct, Bool.and_eq_true, decide_eq_true_eq] at h
  have := congrArg (List.map (fun (p : String × List (String × List Nat)) => (p.1, p.2.map (·.1)))) h.1
  rw [List.map_map, List.map_map] at this
  have e : ((fun (p : String × List (String × List Nat)) => (p.1, p.2.map (·.1))) ∘
      fun (cc : String × Col α) => (cc.1, cc.2.map (fun nv => (nv.1, nv.2.shape)))) =
      fun cc => (cc.1, cc.2.map (·.1)) := by
    funext cc; simp [Function.comp, List.map_map]
  rw [e] at this
  exact this

theorem invC_of_sameStruct (rc : RematCfg) {a b : Vars α × List (Arr α)} (h : sameStruct a b = true)
    (ha : InvC rc a.1) : InvC rc b.1 := by
  have hn := names_of_sameStruct h
  have hk : a.1.map (·.1) = b.1.map (·.1) := by
    have := congrArg (List.map (·.1)) hn
    rw [List.map_map, List.map_map] at this
    exact this
  obtain ⟨h1, h2, h3⟩ := ha
  refine ⟨hk ▸ h1, ?_, ?_⟩
  · intro cc hcc
    have : (cc.1, cc.2.map (·.1)) ∈ b.1.map (fun cc => (cc.1, cc.2.map (·.1))) := List.mem_map_of_mem hcc
    rw [← hn] at this
    obtain ⟨cc', hcc', he⟩ := List.mem_map.1 this
    have := h2 cc' hcc'
    injection he with _ he2
    rw [← he2]; exact this
  · intro cc hcc
    have : cc.1 ∈ b.1.map (·.1) := List.mem_map_of_mem hcc
    rw [← hk] at this
    obtain ⟨cc', hcc', he⟩ := List.mem_map.1 this
    rw [← he]; exact h3 cc' hcc'

theorem roleGroup_self_of_inv (rc : RematCfg) {cv : Vars α} (h : InvC rc cv) : roleGroup cv rc.fs2 1 = cv := by
  unfold roleGroup
  apply List.filter_eq_self.2
  intro cc hcc
  simp [h.2.2 cc hcc]

theorem merge_self_of_inv (rc : RematCfg) {cv : Vars α} (h : InvC rc cv) : mergeGroups ([] :: cv :: []) = cv := by
  rw [mergeGroups_flatten]
  · simp
  · simpa using h.1

theorem regroup_good (rc : RematCfg) (m : LFilter) (k : Nat) {cv : Vars α} (hi : InvC rc cv)
    (hg : ∀ cc ∈ cv, inFilter (mAt rc m k) cc.1 = true) :
    roleGroup (cv.filter (fun kv => inFilter (mAt rc m k) kv.1)) rc.fs2 1 = cv := by
  have : cv.filter (fun kv => inFilter (mAt rc m k) kv.1) = cv := List.filter_eq_self.2 hg
  rw [this, roleGroup_self_of_inv rc hi]

/-- the loop body at the full multi-index `idx` of the flat loop over `L` -/
def flatStep (rc : RematCfg) (body : Body α) (m : LFilter) (r : Rngs) (L : List Nat)
    (st : Vars α × List (Arr α)) (idx : Ix) : Option ((Vars α × List (Arr α)) × Unit) :=
  (opt (body (mAt rc m L.length) st.1 (rngsAt rc r (L.zip idx)) st.2 [])).map
    (fun o => ((roleGroup (o.1.filter (fun kv => inFilter (mAt rc m L.length) kv.1)) rc.fs2 1, o.2.1), ()))

theorem flatStep_good (rc : RematCfg) (body : Body α) (m : LFilter) (r : Rngs) (L : List Nat)
    {st : Vars α × List (Arr α)} {idx : Ix} {res : (Vars α × List (Arr α)) × Unit}
    (h : flatStep rc body m r L st idx = some res) : GoodC rc m L.length res.1.1 := by
  unfold flatStep at h
  cases hb : opt (body (mAt rc m L.length) st.1 (rngsAt rc r (L.zip idx)) st.2 []) with
  | none => simp [hb] at h
  | some o =>
    simp [hb] at h
    subst h
    intro cc hcc
    simp only [roleGroup, List.mem_filter] at hcc
    exact hcc.1.2


theorem sameStruct_refl (s : Vars α × List (Arr α)) : sameStruct s s = true := by simp [sameStruct]

theorem sameStruct_trans (a b c : Vars α × List (Arr α)) (h1 : sameStruct a b = true) (h2 : sameStruct b c = true) :
    sameStruct a c = true := by
  simp only [sameStruct, Bool.and_eq_true, decide_eq_true_eq] at h1 h2 ⊢
  exact ⟨h1.1.trans h2.1, h1.2.trans h2.2⟩

/-- writing the final carried collections of a level back into the level's scope (which holds exactly the
carried collections) gives them back -/
theorem publish_back (rc : RematCfg) (mL : LFilter) (cv : Vars α) (c : List (Arr α)) (res : Vars α × List (Arr α))
    (hs : sameStruct (cv, c) res = true) (hi : InvC rc cv) (hg : ∀ cc ∈ res.1, inFilter mL cc.1 = true) :
    publish mL cv ([] :: res.1 :: []) = res.1 := by
  have hi' := invC_of_sameStruct rc hs hi
  have hn := names_of_sameStruct hs
  simp only [publish, List.foldl_cons, List.foldl_nil]
  exact publish_same_structure mL cv res.1 hn hi'.1 hi'.2.1 hg

theorem zip_snoc (pl : List Nat) (pre : Ix) (l i : Nat) (h : pl.length = pre.length) :
    (pl ++ [l]).zip (pre ++ [i]) = pl.zip pre ++ [(l, i)] := by
  rw [List.zip_append h]; rfl

theorem allIdx_cons_map (l : Nat) (rest : List Nat) (pre : Ix) :
    (allIdx (l :: rest)).map (fun t => pre ++ t) =
      (List.range l).flatMap (fun i => (allIdx rest).map (fun t => (pre ++ [i]) ++ t)) := by
  simp only [allIdx, List.map_flatMap, List.map_map]
  congr 1
  funext i
  apply List.map_congr_left
  intro t _
  simp

/-- the result of one level: the carried collections written back, the carry -/
def levelRes (mL : LFilter) (V : Vars α) {ω : Type} (res : (Vars α × List (Arr α)) × ω) : Result α :=
  { vars := publish mL V ([] :: res.1.1 :: []), carry := res.1.2, ys := [] }

/-- **a carry-only nest of explicit loops is ONE flat loop** over the multi-indices in row-major order -/
theorem nested_eq_flat_carryOnly (rc : RematCfg) (hax : rc.axes = []) (hb : rc.bcast = .ff) (body : Body α)
    (m : LFilter) (r : Rngs) (L : List Nat) :
    ∀ (ls pl : List Nat) (pre : Ix), pl ++ ls = L → pl.length = pre.length → ls ≠ [] → (∀ l ∈ ls, l ≠ 0) →
    ∀ (cv : Vars α) (c : List (Arr α)), InvC rc cv →
    nestedLoops rc true body ls (mAt rc m pl.length) cv (rngsAt rc r (pl.zip pre)) c =
      (runG (flatStep rc body m r L) sameStruct (cv, c) ((allIdx ls).map (fun t => pre ++ t))).map (·.1) := by
  intro ls
  induction ls with
  | nil => intro pl pre _ _ h; exact absurd rfl h
  | cons l ls ih =>
    intro pl pre hL hlen _ hnz cv c hinv
    have hl : l ≠ 0 := hnz l (by simp)
    -- facts shared by both cases
    have hmut : innerMutable (mAt rc m pl.length) rc.fs2 = mAt rc m (pl.length + 1) := rfl
    have hrng : ∀ i, mergeGroups (iterRngGroups rc.splitRngs (rngsAt rc r (pl.zip pre)) l i) =
        rngsAt rc r ((pl ++ [l]).zip (pre ++ [i])) := by
      intro i; rw [zip_snoc pl pre l i hlen, rngsAt_append]; rfl
    have hpres : ∀ {ω : Type} (step : Vars α × List (Arr α) → Nat → Option ((Vars α × List (Arr α)) × ω))
        (s : Vars α × List (Arr α)) (i : Nat) (x : (Vars α × List (Arr α)) × ω), InvC rc s.1 → step s i = some x →
        sameStruct s x.1 = true → InvC rc x.1.1 := fun _ s _ x hs _ hsm => invC_of_sameStruct rc hsm hs
    -- the final write-back, given the state-level equality with the flat loop
    have hfinish : ∀ (κ ω1 ω2 : Type) (X : Option ((Vars α × List (Arr α)) × List (Nat × ω1)))
        (Y : Option ((Vars α × List (Arr α)) × List (κ × ω2))), X.map (·.1) = Y.map (·.1) →
        (∀ y, Y = some y → sameStruct (cv, c) y.1 = true ∧ GoodC rc m L.length y.1.1) →
        (X.map (levelRes (mAt rc m pl.length) cv)).map (fun res => (res.vars, res.carry)) = Y.map (·.1) := by
      intro κ ω1 ω2 X Y hXY hY
      cases hx : X with
      | none => rw [hx] at hXY; cases hy : Y with
        | none => rfl
        | some y => rw [hy] at hXY; cases hXY
      | some x =>
        rw [hx] at hXY
        cases hy : Y with
        | none => rw [hy] at hXY; cases hXY
        | some y =>
          rw [hy] at hXY
          simp only [Option.map_some, Option.some.injEq, levelRes] at hXY ⊢
          obtain ⟨hs, hg⟩ := hY y hy
          rw [hXY]
          have hle : pl.length ≤ L.length := by rw [← hL]; simp
          rw [publish_back rc _ cv c y.1 hs hinv (fun cc hcc => mAt_mono rc m cc.1 _ _ hle (hg cc hcc))]
    cases ls with
    | nil =>
      -- innermost level: the body itself
      have hLlen : L.length = pl.length + 1 := by rw [← hL]; simp
      simp only [nestedLoops]
      rw [level_carryOnly rc hax hb _ (by
        intro mf v rg c' xs o ho
        cases hbd : body mf v rg c' xs with
        | error e => simp [hbd] at ho
        | ok o' => simp [hbd] at ho; subst ho; rfl) _ cv _ c l hl]
      rw [roleGroup_self_of_inv rc hinv, loopRun_eq_runG]
      have hidx : (allIdx [l]).map (fun t => pre ++ t) = (List.range l).map (fun i => pre ++ [i]) := by
        simp [allIdx, List.flatMap_map, List.map_flatMap]
        induction (List.range l) with
        | nil => rfl
        | cons a as iha => simp [List.flatMap_cons, iha]
      rw [hidx, runG_map_state]
      have hstep : ∀ (s : Vars α × List (Arr α)) (i : Nat), InvC rc s.1 →
          (levelStep rc (fun m v r c xs => match body m v r c xs with
              | .error e => .error e
              | .ok o => .ok (o.1, o.2.1, [])) (innerMutable (mAt rc m pl.length) rc.fs2)
            (rngsAt rc r (pl.zip pre)) l s i).map (·.1) =
          (flatStep rc body m r L s (pre ++ [i])).map (·.1) := by
        intro s i hs
        unfold levelStep flatStep
        rw [merge_self_of_inv rc hs, hrng i, hmut, hLlen, ← hL]
        cases hbd : body (mAt rc m (pl.length + 1)) s.1 (rngsAt rc r ((pl ++ [l]).zip (pre ++ [i]))) s.2 [] with
        | error e => simp [hbd]
        | ok o => simp [hbd]
      have hXY := runG_state_congr _ (fun s i => flatStep rc body m r L s (pre ++ [i])) sameStruct
        (fun s => InvC rc s.1) hstep (fun s i x hs _ hsm => invC_of_sameStruct rc hsm hs) (List.range l) (cv, c) hinv
      refine hfinish _ _ _ _ _ hXY ?_
      intro y hy
      refine ⟨runG_same _ _ sameStruct_refl sameStruct_trans _ _ _ hy, ?_⟩
      obtain ⟨s', i, u, hsi⟩ := runG_last_step _ _ _ _ _ (by
        intro h; have : l = 0 := by simpa using h
        exact hl this) hy
      exact flatStep_good rc body m r L hsi
    | cons l' ls' =>
      have hnz' : ∀ x ∈ l' :: ls', x ≠ 0 := fun x hx => hnz x (by simp [hx])
      have hL' : (pl ++ [l]) ++ (l' :: ls') = L := by rw [← hL]; simp
      simp only [nestedLoops]
      rw [level_carryOnly rc hax hb _ (by
        intro mf v rg c' xs o ho
        unfold bodyOfSpec at ho
        cases hbd : nestedLoops rc true body (l' :: ls') mf v rg c' with
        | none => simp [hbd] at ho
        | some o' => simp [hbd] at ho; subst ho; rfl) _ cv _ c l hl]
      rw [roleGroup_self_of_inv rc hinv, loopRun_eq_runG]
      have hblk := allIdx_cons_map l (l' :: ls') pre
      rw [hblk, runG_flatMap _ _ sameStruct_refl sameStruct_trans]
      have hstep : ∀ (s : Vars α × List (Arr α)) (i : Nat), InvC rc s.1 →
          (levelStep rc (bodyOfSpec (nestedLoops rc true body (l' :: ls'))) (innerMutable (mAt rc m pl.length) rc.fs2)
            (rngsAt rc r (pl.zip pre)) l s i).map (·.1) =
          (runG (flatStep rc body m r L) sameStruct s
            ((allIdx (l' :: ls')).map (fun t => (pre ++ [i]) ++ t))).map (·.1) := by
        intro s i hs
        have hih := ih (pl ++ [l]) (pre ++ [i]) hL' (by simp [hlen]) (by simp) hnz' s.1 s.2 hs
        simp only [List.length_append, List.length_cons, List.length_nil] at hih
        unfold levelStep bodyOfSpec
        rw [merge_self_of_inv rc hs, hrng i, hmut, hih]
        cases hy : runG (flatStep rc body m r L) sameStruct (s.1, s.2)
            ((allIdx (l' :: ls')).map (fun t => (pre ++ [i]) ++ t)) with
        | none => rfl
        | some y =>
          have hsm := runG_same _ _ sameStruct_refl sameStruct_trans _ _ _ hy
          have hiy := invC_of_sameStruct rc hsm hs
          obtain ⟨s', j, u, hsj⟩ := runG_last_step _ _ _ _ _ (by
            intro h
            have := List.map_eq_nil_iff.1 h
            exact allIdx_ne_nil _ hnz' this) hy
          have hg := flatStep_good rc body m r L hsj
          have hle : pl.length + 1 ≤ L.length := by rw [← hL']; simp
          simp only [Option.map_some, opt_ok]
          congr 1
          have := regroup_good rc m (pl.length + 1) hiy (fun cc hcc => mAt_mono rc m cc.1 _ _ hle (hg cc hcc))
          exact Prod.ext this rfl
      have hXY := runG_state_congr _ (fun s i => runG (flatStep rc body m r L) sameStruct s
          ((allIdx (l' :: ls')).map (fun t => (pre ++ [i]) ++ t))) sameStruct
        (fun s => InvC rc s.1) hstep (fun s i x hs _ hsm => invC_of_sameStruct rc hsm hs) (List.range l) (cv, c) hinv
      have hZ : ∀ (Z : Option ((Vars α × List (Arr α)) × List (Nat × List (Ix × Unit)))),
          (Z.map (fun r => (r.1, r.2.flatMap (·.2)))).map (·.1) = Z.map (·.1) := by
        intro Z; cases Z <;> rfl
      rw [hZ]
      refine hfinish _ _ _ _ _ hXY ?_
      intro y hy
      refine ⟨runG_same _ _ sameStruct_refl sameStruct_trans _ _ _ hy, ?_⟩
      obtain ⟨s', i, u, hsi⟩ := runG_last_step _ _ _ _ _ (by
        intro h; have : l = 0 := by simpa using h
        exact hl this) hy
      -- the last outer iteration ended with an inner flat run, whose last step is a body call
      obtain ⟨s'', j, u', hsj⟩ := runG_last_step _ _ _ _ _ (by
        intro h
        have := List.map_eq_nil_iff.1 h
        exact allIdx_ne_nil _ hnz' this) hsi
      exact flatStep_good rc body m r L hsj

end Flax.LiftLoop
