/- helper lemmas for C12: the two variance routes of `_compute_stats` over `Rat` -/
import Flax.Model.Layers
import Mathlib.Tactic.Ring
import Mathlib.Tactic.Linarith
import Mathlib.Tactic.FieldSimp

namespace Flax.Layers

theorem sum_sq_dev (vs : List Rat) (c : Rat) :
    (vs.map (fun v => (v - c) * (v - c))).sum
      = (vs.map (fun v => v * v)).sum - 2 * c * vs.sum + (vs.length : Rat) * (c * c) := by
  induction vs with
  | nil => simp
  | cons a as ih =>
    simp only [List.map_cons, List.sum_cons, List.length_cons, ih]
    push_cast
    ring

theorem sum_sq_nonneg (vs : List Rat) (c : Rat) : 0 ≤ (vs.map (fun v => (v - c) * (v - c))).sum := by
  induction vs with
  | nil => simp
  | cons a as ih =>
    simp only [List.map_cons, List.sum_cons]
    have := mul_self_nonneg (a - c)
    linarith

/-- slow route = E[x²] − E[x]² -/
theorem slow_var_eq (vs : List Rat) (h : vs ≠ []) :
    ratMean (vs.map (fun v => (v - ratMean vs) * (v - ratMean vs)))
      = ratMean (vs.map (fun v => v * v)) - ratMean vs * ratMean vs := by
  have hn : (vs.length : Rat) ≠ 0 := by
    have : vs.length ≠ 0 := by simpa using h
    exact_mod_cast this
  simp only [ratMean, List.length_map, sum_sq_dev]
  field_simp
  ring

theorem slow_var_nonneg (vs : List Rat) :
    0 ≤ ratMean (vs.map (fun v => (v - ratMean vs) * (v - ratMean vs))) := by
  simp only [ratMean, List.length_map]
  apply div_nonneg (sum_sq_nonneg vs _)
  exact_mod_cast Nat.zero_le _

end Flax.Layers
