/- C03 helper lemmas: the frame of `update` -/
import Flax.Proofs.GraphUpdate
set_option linter.unusedSimpArgs false
set_option linter.unusedVariables false

namespace Flax.Graph
open Flax.Heap

/-! ### the frame of `update`: objects no state path leads to are untouched -/

mutual
  /-- paths (relative to the updated value) at which the state tree has a leaf -/
  def leafPaths : STree → List Path
    | .leaf _ => [[]]
    | .node items => leafPathsItems items
  def leafPathsItems : List (Key × STree) → List Path
    | [] => []
    | (k, s) :: r => (leafPaths s).map (k :: ·) ++ leafPathsItems r
end

/-- equal, or both array leaves -/
def ValSim (v w : PVal) : Prop := v = w ∨ ∃ d d', v = .array d ∧ w = .array d'

def OptSim : Option PVal → Option PVal → Prop
  | some v, some w => ValSim v w
  | Option.none, Option.none => True
  | _, _ => False

theorem Forall2.symm_slot : ∀ {l l' : List (Key × PVal)}, Forall2 SlotShape l l' → Forall2 SlotShape l' l
  | _, _, .nil => .nil
  | _, _, .cons h t => .cons ⟨h.1.symm, by
      rcases h.2 with e | ⟨d, d', e1, e2⟩
      · exact Or.inl e.symm
      · exact Or.inr ⟨d', d, e2, e1⟩⟩ (Forall2.symm_slot t)

theorem lookup_slotShape_none {k : Key} : ∀ {l l' : List (Key × PVal)}, Forall2 SlotShape l l' →
    lookupKV k l = Option.none → lookupKV k l' = Option.none
  | _, _, .nil, _ => rfl
  | _, _, .cons (a := a) (b := b) hab t, h => by
    obtain ⟨ka, va⟩ := a
    obtain ⟨kb, vb⟩ := b
    have hk : ka = kb := hab.1
    subst hk
    simp only [lookupKV] at h ⊢
    by_cases e : ka = k
    · simp [e] at h
    · simp only [e, if_false] at h ⊢
      exact lookup_slotShape_none t h

theorem step_sim {h h' : Heap} (ss : SameShape h h') (v : PVal) (k : Key) : OptSim (step h v k) (step h' v k) := by
  have refl : ∀ x : Option PVal, OptSim x x := by
    intro x; cases x with
    | none => trivial
    | some v => exact Or.inl rfl
  cases v with
  | ref a =>
    simp only [step]
    cases hg : h[a]? with
    | none =>
      have : h'[a]? = Option.none := by
        apply List.getElem?_eq_none
        rw [← ss.1]
        exact Nat.le_of_not_lt (fun hlt => by rw [List.getElem?_eq_getElem hlt] at hg; cases hg)
      simp [this]; trivial
    | some o =>
      obtain ⟨o', ho', hs⟩ := ss.2 a o hg
      simp only [ho']
      cases o with
      | var ty val md =>
        cases o' with
        | var _ _ _ => trivial
        | node _ _ => simp [ObjShape] at hs
      | node cls attrs =>
        cases o' with
        | var _ _ _ => simp [ObjShape] at hs
        | node cls' attrs' =>
          simp only [ObjShape] at hs
          simp only
          cases hl : lookupKV k attrs with
          | none => rw [lookup_slotShape_none hs.2 hl]; trivial
          | some w =>
            obtain ⟨w', hw', hrel⟩ := lookup_slotShape hs.2 hl
            rw [hw']; exact hrel
  | seq t xs => exact refl _
  | dict kvs => exact refl _
  | static s => exact refl _
  | array d => exact refl _
  | none => exact refl _

/-- resolution of a path to a *reference* does not depend on array payloads -/
theorem resolve_sim {h h' : Heap} (ss : SameShape h h') : ∀ (p : Path) (v w : PVal), ValSim v w →
    OptSim (resolve h v p) (resolve h' w p)
  | [], v, w, hvw => hvw
  | k :: p, v, w, hvw => by
    rcases hvw with e | ⟨d, d', e1, e2⟩
    · subst e
      simp only [resolve]
      have hs := step_sim ss v k
      cases h1 : step h v k with
      | none =>
        rw [h1] at hs
        cases h2 : step h' v k with
        | none => trivial
        | some _ => rw [h2] at hs; cases hs
      | some v1 =>
        rw [h1] at hs
        cases h2 : step h' v k with
        | none => rw [h2] at hs; cases hs
        | some w1 => rw [h2] at hs; exact resolve_sim ss p v1 w1 hs
    · subst e1; subst e2
      simp [resolve, step]; trivial

theorem resolve_ref_iff {h h' : Heap} (ss : SameShape h h') (p : Path) (v : PVal) (a : Addr) :
    resolve h v p = some (.ref a) → resolve h' v p = some (.ref a) := by
  intro hr
  have := resolve_sim ss p v v (Or.inl rfl)
  rw [hr] at this
  cases h2 : resolve h' v p with
  | none => rw [h2] at this; cases this
  | some w =>
    rw [h2] at this
    rcases this with e | ⟨d, d', e1, _⟩
    · rw [← e]
    · cases e1

theorem ObjShape.symm {o o' : Obj} (h : ObjShape o o') : ObjShape o' o := by
  cases o <;> cases o' <;> simp only [ObjShape] at h ⊢
  · exact ⟨h.1.symm, Forall2.symm_slot h.2⟩
  · exact h.symm

theorem SameShape.symm {h h' : Heap} (ss : SameShape h h') : SameShape h' h := by
  refine ⟨ss.1.symm, ?_⟩
  intro a o' ho'
  have hlt : a < h.length := by rw [ss.1]; exact (List.getElem?_eq_some_iff.mp ho').1
  obtain ⟨o'', ho'', hs⟩ := ss.2 a h[a] (List.getElem?_eq_getElem hlt)
  rw [ho'] at ho''; cases ho''
  exact ⟨h[a], List.getElem?_eq_getElem hlt, hs.symm⟩

/-- no path of `paths` (nor the parent of one) leads from `v` to the object `a` -/
def Untouched (a : Addr) (h : Heap) (v : PVal) (paths : List Path) : Prop :=
  ∀ p ∈ paths, resolve h v p ≠ some (.ref a) ∧ ∀ q k, p = q ++ [k] → resolve h v q ≠ some (.ref a)

theorem Untouched.shape {a : Addr} {h h1 : Heap} {v : PVal} {paths : List Path} (u : Untouched a h v paths)
    (ss : SameShape h h1) : Untouched a h1 v paths := by
  intro p hp
  obtain ⟨u1, u2⟩ := u p hp
  exact ⟨fun hr => u1 (resolve_ref_iff ss.symm p v a hr), fun q k e hr => u2 q k e (resolve_ref_iff ss.symm q v a hr)⟩

/-- descending one step -/
theorem Untouched.child {a : Addr} {h : Heap} {v cur : PVal} {k : Key} {s : STree} {items : List (Key × STree)}
    (u : Untouched a h v (leafPathsItems items)) (hmem : (k, s) ∈ items) (hstep : step h v k = some cur) :
    Untouched a h cur (leafPaths s) := by
  have hin : ∀ p' ∈ leafPaths s, (k :: p') ∈ leafPathsItems items := by
    intro p' hp'
    induction items with
    | nil => cases hmem
    | cons x r ih =>
      obtain ⟨k0, s0⟩ := x
      simp only [leafPathsItems, List.mem_append, List.mem_map]
      rcases List.mem_cons.mp hmem with e | hm
      · cases e; exact Or.inl ⟨p', hp', rfl⟩
      · exact Or.inr (ih (fun p hp => u p (by simp only [leafPathsItems, List.mem_append]; exact Or.inr hp)) hm)
  intro p' hp'
  obtain ⟨u1, u2⟩ := u (k :: p') (hin p' hp')
  refine ⟨?_, ?_⟩
  · intro hr; apply u1; simp only [resolve, hstep]; exact hr
  · intro q k' e hr
    apply u2 (k :: q) k' (by rw [e]; rfl)
    simp only [resolve, hstep]; exact hr

theorem mem_leafPathsItems_nil {k : Key} {s : STree} : ∀ {items : List (Key × STree)}, (k, s) ∈ items → [] ∈ leafPaths s →
    [k] ∈ leafPathsItems items
  | [], h, _ => by cases h
  | (k0, s0) :: r, h, hn => by
    simp only [leafPathsItems, List.mem_append, List.mem_map]
    rcases List.mem_cons.mp h with e | hm
    · cases e; exact Or.inl ⟨[], hn, rfl⟩
    · exact Or.inr (mem_leafPathsItems_nil hm hn)

theorem ValSim.trans {a b c : PVal} (h1 : ValSim a b) (h2 : ValSim b c) : ValSim a c := by
  rcases h1 with e | ⟨d, d', e1, e2⟩
  · subst e; exact h2
  · rcases h2 with e | ⟨d2, d2', e3, e4⟩
    · subst e; exact Or.inr ⟨d, d', e1, e2⟩
    · exact Or.inr ⟨d, d2', e1, e4⟩

theorem ValSim.symm {a b : PVal} (h : ValSim a b) : ValSim b a := by
  rcases h with e | ⟨d, d', e1, e2⟩
  · exact Or.inl e.symm
  · exact Or.inr ⟨d', d, e2, e1⟩

theorem OptSim.trans : ∀ {a b c : Option PVal}, OptSim a b → OptSim b c → OptSim a c
  | some _, some _, some _, h1, h2 => ValSim.trans h1 h2
  | Option.none, Option.none, Option.none, _, _ => trivial
  | some _, Option.none, _, h1, _ => by cases h1
  | Option.none, some _, _, h1, _ => by cases h1
  | some _, some _, Option.none, _, h2 => by cases h2
  | Option.none, Option.none, some _, _, h2 => by cases h2

theorem OptSim.symm : ∀ {a b : Option PVal}, OptSim a b → OptSim b a
  | some _, some _, h => ValSim.symm h
  | Option.none, Option.none, _ => trivial
  | some _, Option.none, h => by cases h
  | Option.none, some _, h => by cases h

theorem Untouched.sim {a : Addr} {h : Heap} {v w : PVal} {paths : List Path} (u : Untouched a h v paths)
    (hvw : ValSim v w) : Untouched a h w paths := by
  have key : ∀ p, resolve h w p = some (.ref a) → resolve h v p = some (.ref a) := by
    intro p hr
    have := resolve_sim (SameShape.refl h) p w v hvw.symm
    rw [hr] at this
    cases h2 : resolve h v p with
    | none => rw [h2] at this; cases this
    | some x =>
      rw [h2] at this
      rcases this with e | ⟨d, d', e1, _⟩
      · rw [← e]
      · cases e1
  intro p hp
  obtain ⟨u1, u2⟩ := u p hp
  exact ⟨fun hr => u1 (key p hr), fun q k e hr => u2 q k e (key q hr)⟩

theorem Untouched.tail {a : Addr} {h : Heap} {v : PVal} {k : Key} {s : STree} {rest : List (Key × STree)}
    (u : Untouched a h v (leafPathsItems ((k, s) :: rest))) : Untouched a h v (leafPathsItems rest) :=
  fun p hp => u p (by simp only [leafPathsItems, List.mem_append]; exact Or.inr hp)

mutual
  /-- an object that no state path (and no parent of a state path) leads to is not written by `update` -/
  theorem updateVal_frame : ∀ (s : STree) (h : Heap) (v : PVal) (h' : Heap), updateVal s h v = .ok h' →
      ∀ (a : Nat), Untouched a h v (leafPaths s) → h'[a]? = h[a]?
    | s, h, .static _, h', hu, _, _ => by simp [updateVal] at hu
    | s, h, .array _, h', hu, _, _ => by simp [updateVal] at hu
    | .leaf _, h, .none, h', hu, _, _ => by simp [updateVal] at hu
    | .node items, h, .none, h', hu, a, ut => by
      simp only [updateVal] at hu
      exact updateItems_frame items h Option.none [] h' PVal.none a (fun _ => trivial) (fun a0 ha0 => by cases ha0)
        (fun a0 ha0 => by cases ha0) ut hu
    | .leaf _, h, .seq _ _, h', hu, _, _ => by simp [updateVal] at hu
    | .node items, h, .seq t xs, h', hu, a, ut => by
      simp only [updateVal] at hu
      exact updateItems_frame items h Option.none _ h' (.seq t xs) a
        (fun k => by simp only [step]; cases lookupKV k (enumFrom 0 xs) <;> first | trivial | exact Or.inl rfl)
        (fun a0 ha0 => by cases ha0) (fun a0 ha0 => by cases ha0) ut hu
    | .leaf _, h, .dict _, h', hu, _, _ => by simp [updateVal] at hu
    | .node items, h, .dict kvs, h', hu, a, ut => by
      simp only [updateVal] at hu
      exact updateItems_frame items h Option.none _ h' (.dict kvs) a
        (fun k => by simp only [step]; cases lookupKV k kvs <;> first | trivial | exact Or.inl rfl)
        (fun a0 ha0 => by cases ha0) (fun a0 ha0 => by cases ha0) ut hu
    | .leaf l, h, .ref a0, h', hu, a, ut => by
      simp only [updateVal] at hu
      have hne : a ≠ a0 := by
        intro e
        have := (ut [] (by simp [leafPaths])).1
        simp [resolve, e] at this
      split at hu
      · cases hu
      · cases l with
        | vstate ty' val' md' => simp at hu; subst hu; exact write_frame _ _ _ _ hne
        | arr d => simp at hu; subst hu; exact write_frame _ _ _ _ hne
      · cases hu
    | .node items, h, .ref a0, h', hu, a, ut => by
      simp only [updateVal] at hu
      split at hu
      · cases hu
      · cases items with
        | nil => simp at hu; subst hu; rfl
        | cons _ _ => cases hu
      · next cls attrs hget =>
        exact updateItems_frame items h (some a0) attrs h' (.ref a0) a
          (fun k => by simp only [step, hget]; cases lookupKV k attrs <;> first | trivial | exact Or.inl rfl)
          (fun a0' ha0' => by cases ha0'; rfl)
          (fun a' ha' => by cases ha'; exact ⟨cls, attrs, hget, forall₂_refl SlotShape.refl attrs⟩) ut hu
  /-- loop version: `v` is the value whose children are being updated, `attrs` its `node_dict` snapshot -/
  theorem updateItems_frame : ∀ (items : List (Key × STree)) (h : Heap) (owner : Option Addr)
      (attrs : List (Key × PVal)) (h' : Heap) (v : PVal) (a : Nat),
      (∀ k, OptSim (step h v k) (lookupKV k attrs)) → (∀ a0, owner = some a0 → v = .ref a0) →
      OwnerOk h owner attrs → Untouched a h v (leafPathsItems items) →
      updateItems items h owner attrs = .ok h' → h'[a]? = h[a]?
    | [], h, _, _, h', _, _, _, _, _, _, hu => by simp [updateItems] at hu; subst hu; rfl
    | (k, s) :: rest, h, owner, attrs, h', v, a, hstep, hov, ok, ut, hu => by
      -- the first item alone
      have hsplit : ∃ h1, updateItems [(k, s)] h owner attrs = .ok h1 ∧ updateItems rest h1 owner attrs = .ok h' := by
        simp only [updateItems] at hu ⊢
        split at hu
        · cases hu
        · next cur hcur =>
          split at hu
          · cases hu
          · next h1 hr => exact ⟨h1, by simp only [hr], hu⟩
      obtain ⟨h1, hfirst, hrest⟩ := hsplit
      have ss1 : SameShape h h1 := updateItems_shape [(k, s)] h owner attrs h1 ok hfirst
      have f1 : h1[a]? = h[a]? := by
        simp only [updateItems] at hfirst
        split at hfirst
        · cases hfirst
        · next cur hcur =>
          -- the live child is the snapshot child up to an array payload
          have hs := hstep k
          rw [hcur] at hs
          cases hst : step h v k with
          | none => rw [hst] at hs; cases hs
          | some cur' =>
            rw [hst] at hs
            have utc : Untouched a h cur (leafPaths s) := (ut.child (by simp) hst).sim hs
            split at hfirst
            · cases hfirst
            · next h1' hr =>
              simp [updateItems] at hfirst; subst hfirst
              cases cur with
              | static _ => cases hr
              | array d0 =>
                cases owner with
                | none => cases hr
                | some a0 =>
                  simp only at hr
                  split at hr
                  · next d =>
                    cases hr
                    have hv : v = .ref a0 := hov a0 rfl
                    have hne : a ≠ a0 := by
                      intro e
                      have := (ut [k] (mem_leafPathsItems_nil (k := k) (s := .leaf (.arr d)) (by simp) (by simp [leafPaths]))).2 [] k rfl
                      simp [resolve, hv, e] at this
                    unfold setAttr
                    split
                    · exact write_frame _ _ _ _ hne
                    · rfl
                  · cases hr
              | ref b =>
                simp only at hr
                split at hr
                · cases hr
                · exact updateVal_frame s h _ _ hr a utc
                · split at hr
                  · cases hr
                  · exact updateVal_frame s h _ _ hr a utc
              | none =>
                simp only at hr
                split at hr
                · cases hr
                · exact updateVal_frame s h _ _ hr a utc
              | seq t xs =>
                simp only at hr
                split at hr
                · cases hr
                · exact updateVal_frame s h _ _ hr a utc
              | dict kvs =>
                simp only at hr
                split at hr
                · cases hr
                · exact updateVal_frame s h _ _ hr a utc
      have f2 := updateItems_frame rest h1 owner attrs h' v a
        (fun k' => (step_sim ss1.symm v k').trans (hstep k')) hov (ok.step ss1) (ut.tail.shape ss1) hrest
      rw [f2, f1]
end

/-- the state tree with a single leaf at path `p` -/
def chain : Path → Leaf → STree
  | [], l => .leaf l
  | k :: p, l => .node [(k, chain p l)]

theorem chain_not_vleaf (k : Key) (p : Path) (l : Leaf) : isVStateLeaf (chain (k :: p) l) = false := rfl

/-- **the Variable at the state's path takes the new value and metadata, in place** -/
theorem update_chain (h : Heap) (ty' : VType) (val' : Data) (md' : Meta) : ∀ (p : Path) (root : PVal) (a : Addr) ty val md,
    resolve h root p = some (.ref a) → h[a]? = some (.var ty val md) →
    updateVal (chain p (.vstate ty' val' md')) h root = .ok (write h a (.var ty val' md'))
  | [], root, a, ty, val, md, hr, hg => by
    simp [resolve] at hr; subst hr
    simp [chain, updateVal, hg]
  | k :: p, root, a, ty, val, md, hr, hg => by
    simp only [resolve] at hr
    split at hr
    · next cur hstep =>
      -- the child is updated by the tail of the chain
      have hchild : (if isVStateLeaf (chain p (.vstate ty' val' md')) then (Except.error Err.updExpectedSubgraph : Except Err Heap)
            else updateVal (chain p (.vstate ty' val' md')) h cur) = .ok (write h a (.var ty val' md')) ∨
          (p = [] ∧ cur = .ref a) := by
        cases p with
        | nil => right; simp [resolve] at hr; exact ⟨rfl, hr⟩
        | cons k2 p2 =>
          left
          rw [chain_not_vleaf]
          simp only [Bool.false_eq_true, if_false]
          exact update_chain h ty' val' md' (k2 :: p2) cur a ty val md hr hg
      have hrec := update_chain h ty' val' md' p cur a ty val md hr hg
      -- one iteration of the loop over the single item
      have loop : ∀ (owner : Option Addr) (attrs : List (Key × PVal)), lookupKV k attrs = some cur →
          updateItems [(k, chain p (.vstate ty' val' md'))] h owner attrs = .ok (write h a (.var ty val' md')) := by
        intro owner attrs hl
        simp only [updateItems, hl]
        cases cur with
        | static s =>
          cases p with
          | nil => simp [resolve] at hr
          | cons k2 p2 => simp [resolve, step] at hr
        | array d =>
          cases p with
          | nil => simp [resolve] at hr
          | cons k2 p2 => simp [resolve, step] at hr
        | ref b =>
          simp only
          cases hb : h[b]? with
          | none =>
            cases p with
            | nil => simp [resolve] at hr; subst hr; rw [hg] at hb; cases hb
            | cons k2 p2 => simp [resolve, step, hb] at hr
          | some o =>
            cases o with
            | var _ _ _ => simp only [hrec, updateItems]
            | node cls2 attrs2 =>
              rcases hchild with hc | ⟨_, e⟩
              · simp only [hc, updateItems]
              · cases e; rw [hg] at hb; cases hb
        | none =>
          rcases hchild with hc | ⟨_, e⟩
          · simp only [hc, updateItems]
          · cases e
        | seq t xs =>
          rcases hchild with hc | ⟨_, e⟩
          · simp only [hc, updateItems]
          · cases e
        | dict kvs =>
          rcases hchild with hc | ⟨_, e⟩
          · simp only [hc, updateItems]
          · cases e
      cases root with
      | static s => simp [step] at hstep
      | array d => simp [step] at hstep
      | none => simp [step] at hstep
      | seq t xs => simp only [chain, updateVal]; exact loop _ _ (by simpa [step] using hstep)
      | dict kvs => simp only [chain, updateVal]; exact loop _ _ (by simpa [step] using hstep)
      | ref a0 =>
        simp only [step] at hstep
        split at hstep
        · next cls attrs hget => simp only [chain, updateVal, hget]; exact loop _ _ hstep
        · cases hstep
    · cases hr

/-! ### a raw leaf at an array attribute rewrites exactly that attribute -/

theorem setKV_keys {α : Type} (k : Key) (v : α) : ∀ l : List (Key × α), (setKV k v l).map (·.1) = l.map (·.1)
  | [] => rfl
  | (k', v') :: r => by
    simp only [setKV]
    by_cases e : k' = k
    · simp [e]
    · simp [e, setKV_keys k v r]

theorem lookupKV_setKV {α : Type} (k k' : Key) (v : α) : ∀ l : List (Key × α),
    lookupKV k' (setKV k v l) = if k' = k then (lookupKV k l).map (fun _ => v) else lookupKV k' l
  | [] => by simp [setKV, lookupKV]
  | (k0, v0) :: r => by
    simp only [setKV]
    by_cases e : k0 = k
    · subst e
      by_cases e' : k' = k0
      · subst e'; simp [lookupKV]
      · have : k0 ≠ k' := fun x => e' x.symm
        simp [lookupKV, e', this]
    · simp only [e, if_false, lookupKV]
      by_cases e2 : k0 = k'
      · subst e2; simp [e]
      · simp only [e2, if_false]; exact lookupKV_setKV k k' v r

/-- `setAttr` touches one object, and in it one slot -/
theorem setAttr_spec {h : Heap} {a : Addr} {cls : String} {attrs : List (Key × PVal)} (k : Key) (v : PVal)
    (hg : h[a]? = some (.node cls attrs)) :
    (setAttr h a k v).length = h.length ∧ (setAttr h a k v)[a]? = some (.node cls (setKV k v attrs)) ∧
    ∀ (b : Nat), b ≠ a → (setAttr h a k v)[b]? = h[b]? := by
  have hlt : a < h.length := (List.getElem?_eq_some_iff.mp hg).1
  simp only [setAttr, hg]
  exact ⟨write_length _ _ _, write_get _ _ _ hlt, fun b hb => write_frame _ _ _ _ hb⟩

theorem chain_snoc_not_vleaf : ∀ (p : Path) (k : Key) (l : Leaf), isVStateLeaf (chain (p ++ [k]) l) = false
  | [], _, _ => rfl
  | _ :: _, _, _ => rfl

/-- **a raw leaf at the path of an array attribute rewrites exactly that attribute** -/
theorem update_array_chain (h : Heap) (k : Key) (d : Data) : ∀ (p : Path) (root : PVal) (a0 : Addr) cls attrs d0,
    resolve h root p = some (.ref a0) → h[a0]? = some (.node cls attrs) → lookupKV k attrs = some (.array d0) →
    updateVal (chain (p ++ [k]) (.arr d)) h root = .ok (setAttr h a0 k (.array d))
  | [], root, a0, cls, attrs, d0, hr, hg, hl => by
    simp [resolve] at hr; subst hr
    simp [chain, updateVal, hg, updateItems, hl]
  | k1 :: p, root, a0, cls, attrs, d0, hr, hg, hl => by
    simp only [resolve] at hr
    split at hr
    · next cur hstep =>
      have hrec := update_array_chain h k d p cur a0 cls attrs d0 hr hg hl
      have loop : ∀ (owner : Option Addr) (attrs1 : List (Key × PVal)), lookupKV k1 attrs1 = some cur →
          updateItems [(k1, chain (p ++ [k]) (.arr d))] h owner attrs1 = .ok (setAttr h a0 k (.array d)) := by
        intro owner attrs1 hl1
        simp only [updateItems, hl1]
        cases cur with
        | static s =>
          cases p with
          | nil => simp [resolve] at hr
          | cons k2 p2 => simp [resolve, step] at hr
        | array dd =>
          cases p with
          | nil => simp [resolve] at hr
          | cons k2 p2 => simp [resolve, step] at hr
        | ref b =>
          simp only
          cases hb : h[b]? with
          | none =>
            cases p with
            | nil => simp [resolve] at hr; subst hr; rw [hg] at hb; cases hb
            | cons k2 p2 => simp [resolve, step, hb] at hr
          | some o =>
            cases o with
            | var _ _ _ =>
              cases p with
              | nil => simp [resolve] at hr; subst hr; rw [hg] at hb; cases hb
              | cons k2 p2 => simp [resolve, step, hb] at hr
            | node cls2 attrs2 =>
              simp only [chain_snoc_not_vleaf, Bool.false_eq_true, if_false, hrec, updateItems]
        | none => simp only [chain_snoc_not_vleaf, Bool.false_eq_true, if_false, hrec, updateItems]
        | seq t xs => simp only [chain_snoc_not_vleaf, Bool.false_eq_true, if_false, hrec, updateItems]
        | dict kvs => simp only [chain_snoc_not_vleaf, Bool.false_eq_true, if_false, hrec, updateItems]
      cases root with
      | static s => simp [step] at hstep
      | array dd => simp [step] at hstep
      | none => simp [step] at hstep
      | seq t xs => simp only [List.cons_append, chain, updateVal]; exact loop _ _ (by simpa [step] using hstep)
      | dict kvs => simp only [List.cons_append, chain, updateVal]; exact loop _ _ (by simpa [step] using hstep)
      | ref a1 =>
        simp only [step] at hstep
        split at hstep
        · next cls1 attrs1 hget => simp only [List.cons_append, chain, updateVal, hget]; exact loop _ _ hstep
        · cases hstep
    · cases hr

end Flax.Graph
