/- helper lemmas for C12: the composite convolution layer -/
import Flax.Proofs.Layers

namespace Flax.Layers

theorem mapM_id_some_iff {α : Type} : ∀ (l : List (Option α)) (s : List α), l.mapM id = some s ↔ l = s.map some
  | [], s => by cases s <;> simp
  | none :: l, s => by cases s <;> simp
  | some a :: l, s => by
    cases s with
    | nil =>
      cases hl : l.mapM id <;> simp [hl]
    | cons b t =>
      have ih := mapM_id_some_iff l t
      simp only [List.mapM_cons, id, List.map_cons, List.cons.injEq, Option.some.injEq]
      constructor
      · intro h
        cases hl : l.mapM id with
        | none => simp [hl] at h
        | some u =>
          simp [hl] at h
          exact ⟨h.1, (mapM_id_some_iff l t).mp (by rw [hl, h.2])⟩
      · rintro ⟨rfl, h⟩
        rw [(mapM_id_some_iff l t).mpr h]; rfl

theorem mapM_id_map_some {α : Type} (s : List α) : (s.map some).mapM id = some s :=
  (mapM_id_some_iff _ _).mpr rfl

theorem mapM_id_cons_append {α : Type} (q ch : α) (L : List (Option α)) :
    (some q :: (L ++ [some ch])).mapM id = (L.mapM id).map (fun s => q :: (s ++ [ch])) := by
  cases hL : L.mapM id with
  | some s =>
    have := (mapM_id_some_iff L s).mp hL
    subst this
    have : some q :: (s.map some ++ [some ch]) = (q :: (s ++ [ch])).map some := by simp
    rw [this, mapM_id_map_some]; rfl
  | none =>
    cases h : (some q :: (L ++ [some ch])).mapM id with
    | none => rfl
    | some t =>
      have e := (mapM_id_some_iff _ t).mp h
      cases t with
      | nil => simp at e
      | cons t0 t' =>
        simp only [List.map_cons, List.cons.injEq] at e
        have hlen : L = (t'.take L.length).map some := by
          have := congrArg (List.take L.length) e.2
          simpa [List.take_append_of_le_length] using this
        rw [hlen, mapM_id_map_some] at hL
        exact absurd hL (by simp)

section
variable {R : Type} [Zero R] [Add R] [Mul R]

omit [Add R] [Mul R] in
theorem padTensor_conv_get (xf : Tensor R) (B C : Nat) (insp : List Nat) (sp : List (PadMode × Nat × Nat))
    (hx : xf.shape = B :: (insp ++ [C])) (hsp : sp.length = insp.length)
    (q ch : Nat) (p : List Nat) (hq : q < B) (hch : ch < C) (hp : inBounds (paddedSpatial insp sp) p = true) :
    (padTensor xf ([(PadMode.zeros, 0, 0)] ++ sp ++ [(PadMode.zeros, 0, 0)])).get (q :: (p ++ [ch])) =
      match padIdx insp sp p with
      | some s => xf.get (q :: (s ++ [ch]))
      | none => 0 := by
  have hpl : p.length = insp.length := by
    have := inBounds_length hp
    simpa [paddedSpatial, hsp] using this
  have hshape : List.zipWith (fun n (p : PadMode × Nat × Nat) => p.2.1 + n + p.2.2) xf.shape
      ([(PadMode.zeros, 0, 0)] ++ sp ++ [(PadMode.zeros, 0, 0)]) = B :: (paddedSpatial insp sp ++ [C]) := by
    rw [hx]
    simp only [List.singleton_append, List.cons_append, List.zipWith_cons_cons]
    rw [List.zipWith_append (by simp [hsp])]
    simp [paddedSpatial]
  have hib : inBounds (B :: (paddedSpatial insp sp ++ [C])) (q :: (p ++ [ch])) = true := by
    simp only [inBounds, hq, decide_true, Bool.true_and]
    exact inBounds_append _ _ [C] [ch] hp (by simp [inBounds, hch])
  simp only [padTensor]
  rw [get_ofFn _ _ (by rw [hshape]; exact hib)]
  have hzip : List.zipWith (fun (np : Nat × (PadMode × Nat × Nat)) i => padSrc np.2.1 np.1 np.2.2.1 i)
      (xf.shape.zip ([(PadMode.zeros, 0, 0)] ++ sp ++ [(PadMode.zeros, 0, 0)])) (q :: (p ++ [ch]))
      = some q :: (List.zipWith (fun (np : Nat × (PadMode × Nat × Nat)) i => padSrc np.2.1 np.1 np.2.2.1 i) (insp.zip sp) p ++ [some ch]) := by
    rw [hx]
    simp only [List.singleton_append, List.cons_append, List.zip_cons_cons, List.zipWith_cons_cons]
    rw [List.zip_append (by simp [hsp]), List.zipWith_append (by simp [hsp, hpl])]
    simp [padSrc, hq, hch]
  rw [hzip, mapM_id_cons_append]
  simp only [padIdx]
  cases (List.zipWith (fun (np : Nat × (PadMode × Nat × Nat)) i => padSrc np.2.1 np.1 np.2.2.1 i) (insp.zip sp) p).mapM id <;> rfl
end

theorem axisSrc_lt (n ld : Nat) (lo p : Int) (v : Nat) (h : axisSrc n ld lo p = some v) : v < n := by
  simp only [axisSrc] at h
  split at h
  · rename_i hc
    injection h with h
    have hnn : 0 ≤ (p - lo) / (ld : Int) := Int.ediv_nonneg hc.1 (Int.natCast_nonneg ld)
    omega
  · exact absurd h (by simp)

theorem inBounds_of_pointwise (sh p : List Nat) (hl : p.length = sh.length)
    (h : ∀ j, j < sh.length → nth p j 0 < nth sh j) : inBounds sh p = true := by
  rw [eq_map_range_nth sh 1, eq_map_range_nth p 0, hl]
  apply inBounds_map
  intro a ha
  exact h a (List.mem_range.mp ha)

theorem convSrc_inBounds (g : ConvGeom) (inSp o k p : List Nat) (h : convSrc g inSp o k = some p) :
    inBounds inSp p = true := by
  simp only [convSrc] at h
  have e := (mapM_id_some_iff _ _).mp h
  have hl : p.length = inSp.length := by
    have := congrArg List.length e
    simpa using this.symm
  apply inBounds_of_pointwise _ _ hl
  intro j hj
  have hj' : j < p.length := by omega
  have := congrArg (fun l => l[j]?) e
  simp only [List.getElem?_map, List.getElem?_range hj, Option.map_some, List.getElem?_eq_getElem hj'] at this
  have hv := axisSrc_lt _ _ _ _ _ (Option.some.inj this)
  simpa [nth, List.getD, hj'] using hv

section
variable {R : Type} [Zero R] [Add R] [Mul R]

theorem convSpec_get_aux (g : ConvGeom) (x k : Tensor R) (bi fi : Nat) (o : List Nat) (ho : o.length = x.rank - 2)
    (hb : inBounds (x.shape.headD 0 :: convOutSpatial g ((x.shape.drop 1).take (x.rank - 2)) (k.shape.take (x.rank - 2))
            ++ [nth k.shape (x.rank - 2 + 1)]) (bi :: o ++ [fi]) = true) :
    (convSpec g x k).get (bi :: o ++ [fi]) =
      sumOver (indices (k.shape.take (x.rank - 2))) (fun kk =>
        match convSrc g ((x.shape.drop 1).take (x.rank - 2)) o kk with
        | none => 0
        | some src =>
          sumOver (List.range (nth k.shape (x.rank - 2))) (fun c =>
            x.get (bi :: src ++ [(if nth k.shape (x.rank - 2 + 1) / g.groups = 0 then 0
                                   else fi / (nth k.shape (x.rank - 2 + 1) / g.groups)) * nth k.shape (x.rank - 2) + c])
              * k.get (kk ++ [c, fi]))) := by
  simp only [convSpec]
  rw [get_ofFn _ _ hb]
  have e1 : (List.drop 1 (bi :: o ++ [fi])).take (x.rank - 2) = o := by
    simp [← ho]
  have e2 : (bi :: o ++ [fi]).getD (x.rank - 2 + 1) 0 = fi := by
    simp [← ho, List.getD]
  simp only [List.cons_append] at e1 e2 ⊢
  simp only [e1, e2, List.headD_cons]
  rfl

theorem inBounds_append_right : ∀ (bs b rs r : List Nat), b.length = bs.length →
    inBounds (bs ++ rs) (b ++ r) = true → inBounds rs r = true
  | [], [], _, _, _, h => by simpa using h
  | [], _ :: _, _, _, h, _ => by simp at h
  | _ :: _, [], _, _, h, _ => by simp at h
  | d :: ds, i :: is, rs, r, hl, h => by
    simp [inBounds] at h
    exact inBounds_append_right ds is rs r (by simpa using hl) h.2

theorem convPlan_length (c : ConvCfg) (insp : List Nat) :
    (convPlan c insp).1.length = c.kernelSize.length := by
  simp only [convPlan]
  cases hp : c.padding <;> simp [hp]

omit [Zero R] [Add R] in
theorem mulMaskCore_shape (k : Tensor R) (mask : Option (Tensor R)) : (mulMaskCore k mask).shape = k.shape := by
  cases mask <;> rfl
end

section
variable {R : Type} [Zero R] [Add R] [Mul R]

theorem convCore_get (c : ConvCfg) (x k : Tensor R) (bias mask : Option (Tensor R)) (bs insp : List Nat) (cin : Nat)
    (hx : x.shape = bs ++ (insp ++ [cin])) (hinsp : insp.length = c.kernelSize.length)
    (hbias : ∀ bb, bias = some bb → bb.rank = 1)
    (b o : List Nat) (fi : Nat) (hb : inBounds bs b = true) (ho : o.length = c.kernelSize.length)
    (hbound : inBounds (convCore c x k bias mask).shape (b ++ (o ++ [fi])) = true)
    (hch : ∀ ch, ch < nth k.shape c.kernelSize.length →
      (if nth k.shape (c.kernelSize.length + 1) / c.groups = 0 then 0 else fi / (nth k.shape (c.kernelSize.length + 1) / c.groups))
        * nth k.shape c.kernelSize.length + ch < cin) :
    (convCore c x k bias mask).get (b ++ (o ++ [fi])) =
      bias.elim (convElem c x (mulMaskCore k mask) insp b o fi)
        (fun bb => convElem c x (mulMaskCore k mask) insp b o fi + bb.get [fi]) := by
  set nsp := c.kernelSize.length with hnsp
  have hbl := inBounds_length hb
  have hrank : x.rank - (nsp + 1) = bs.length := by simp [Tensor.rank, hx, hinsp]
  have hq := ravel_lt hb
  -- flattened input
  have hxf : (flattenBatch nsp x).2.shape = prod bs :: (insp ++ [cin]) := by
    simp [flattenBatch, Tensor.reshape, hrank, hx]
  have hfb1 : (flattenBatch nsp x).1 = bs := by simp [flattenBatch, hrank, hx]
  have hxfget : ∀ r, (flattenBatch nsp x).2.get (ravel bs b :: r) = x.get (b ++ r) := by
    intro r
    simp [flattenBatch, Tensor.reshape, Tensor.get, Tensor.getD, hrank, hx, ravel_append bs b _ r hbl, ravel]
  have hinsp' : ((flattenBatch nsp x).2.shape.drop 1).take nsp = insp := by
    rw [hxf]; simp [← hinsp]
  have hpl : (convPlan c insp).1.length = insp.length := by rw [convPlan_length, hinsp]
  -- padded input
  have hpp : convPrePadded c (flattenBatch nsp x).2
      = (padTensor (flattenBatch nsp x).2 ([(PadMode.zeros, 0, 0)] ++ (convPlan c insp).1 ++ [(PadMode.zeros, 0, 0)]), (convPlan c insp).2) := by
    simp only [convPrePadded, ← hnsp, hinsp']
  have hxp : (convPrePadded c (flattenBatch nsp x).2).1.shape = prod bs :: (paddedSpatial insp (convPlan c insp).1 ++ [cin]) := by
    rw [hpp]
    simp only [padTensor, Tensor.ofFn, hxf]
    simp only [List.singleton_append, List.cons_append, List.zipWith_cons_cons]
    rw [List.zipWith_append (by simp [hpl])]
    simp [paddedSpatial]
  have hpp2 : (convPrePadded c (flattenBatch nsp x).2).2 = (convPlan c insp).2 := by rw [hpp]
  have hpsl : (paddedSpatial insp (convPlan c insp).1).length = nsp := by simp [paddedSpatial, hpl, hinsp]
  have hxprank : (convPrePadded c (flattenBatch nsp x).2).1.rank - 2 = nsp := by
    simp [Tensor.rank, hxp, hpsl]
  set xp := (convPrePadded c (flattenBatch nsp x).2).1 with hxpdef
  have hxpe : xp = padTensor (flattenBatch nsp x).2 ([(PadMode.zeros, 0, 0)] ++ (convPlan c insp).1 ++ [(PadMode.zeros, 0, 0)]) := by
    rw [hxpdef, hpp]
  set k' := mulMaskCore k mask with hk'
  have hk's : k'.shape = k.shape := mulMaskCore_shape k mask
  set g : ConvGeom := ⟨c.strides, (convPlan c insp).2, c.inputDil, c.kernelDil, c.groups⟩ with hg
  -- the convolution output and its shape
  have hys : (convSpec g xp k').shape
      = prod bs :: (convOutSpatial g (paddedSpatial insp (convPlan c insp).1) (k.shape.take nsp) ++ [nth k.shape (nsp + 1)]) := by
    simp only [convSpec, Tensor.ofFn, hxprank, hxp, hk's]
    simp [← hpsl]
  have hYs : (addBiasSuffix (convSpec g xp k') bias).shape = (convSpec g xp k').shape := by
    cases bias <;> rfl
  have hcore : convCore c x k bias mask = unflattenBatch bs (addBiasSuffix (convSpec g xp k') bias) := by
    simp only [convCore, ← hnsp, hfb1, hpp2]
    rfl
  rw [hcore] at hbound ⊢
  have hbound' : inBounds (convOutSpatial g (paddedSpatial insp (convPlan c insp).1) (k.shape.take nsp) ++ [nth k.shape (nsp + 1)]) (o ++ [fi]) = true := by
    have : (unflattenBatch bs (addBiasSuffix (convSpec g xp k') bias)).shape
        = bs ++ (convOutSpatial g (paddedSpatial insp (convPlan c insp).1) (k.shape.take nsp) ++ [nth k.shape (nsp + 1)]) := by
      simp [unflattenBatch, Tensor.reshape, hYs, hys]
    rw [this] at hbound
    exact inBounds_append_right bs b _ _ hbl hbound
  have hyb : inBounds (convSpec g xp k').shape (ravel bs b :: (o ++ [fi])) = true := by
    rw [hys]; simp only [inBounds, hq, decide_true, Bool.true_and]; exact hbound'
  have e1 : (unflattenBatch bs (addBiasSuffix (convSpec g xp k') bias)).get (b ++ (o ++ [fi]))
      = (addBiasSuffix (convSpec g xp k') bias).get (ravel bs b :: (o ++ [fi])) := by
    simp [unflattenBatch, Tensor.reshape, Tensor.get, Tensor.getD, hYs, hys, ravel_append bs b _ (o ++ [fi]) hbl, ravel]
  rw [e1]
  -- the convolution element
  have hconv : (convSpec g xp k').get (ravel bs b :: (o ++ [fi])) = convElem c x k' insp b o fi := by
    have hb2 : inBounds (xp.shape.headD 0 :: convOutSpatial g ((xp.shape.drop 1).take (xp.rank - 2)) (k'.shape.take (xp.rank - 2))
            ++ [nth k'.shape (xp.rank - 2 + 1)]) (ravel bs b :: o ++ [fi]) = true := by
      have := hyb
      simp only [convSpec, Tensor.ofFn] at this
      exact this
    rw [show ravel bs b :: (o ++ [fi]) = ravel bs b :: o ++ [fi] from rfl,
      convSpec_get_aux g xp k' (ravel bs b) fi o (by rw [hxprank]; exact ho) hb2]
    simp only [hxprank, hxp, hk's, convElem, ← hnsp, ← hg]
    have hdt : (List.drop 1 (prod bs :: (paddedSpatial insp (convPlan c insp).1 ++ [cin]))).take nsp = paddedSpatial insp (convPlan c insp).1 := by
      simp [← hpsl]
    rw [hdt]
    apply sumOver_congr
    intro kk _
    cases hsrc : convSrc g (paddedSpatial insp (convPlan c insp).1) o kk with
    | none => rfl
    | some p =>
      simp only []
      apply sumOver_congr
      intro ch hchm
      have hchl : ch < nth k.shape nsp := List.mem_range.mp hchm
      have hpb := convSrc_inBounds g _ o kk p hsrc
      refine congrArg (fun t => t * k'.get (kk ++ [ch, fi])) ?_
      have hgg : g.groups = c.groups := rfl
      simp only [hgg, List.cons_append]
      have := padTensor_conv_get (flattenBatch nsp x).2 (prod bs) cin insp (convPlan c insp).1 hxf hpl (ravel bs b)
        ((if nth k.shape (nsp + 1) / c.groups = 0 then 0 else fi / (nth k.shape (nsp + 1) / c.groups)) * nth k.shape nsp + ch)
        p hq (hch ch hchl) hpb
      rw [hxpe, this]
      cases padIdx insp (convPlan c insp).1 p with
      | none => rfl
      | some s => simp only [hxfget]
  cases bias with
  | none => simpa [addBiasSuffix] using hconv
  | some bb =>
    have hbr := hbias bb rfl
    simp only [addBiasSuffix]
    have hskip : (convSpec g xp k').rank - bb.rank = o.length + 1 := by
      have : (convSpec g xp k').shape.length = nsp + 2 := by
        rw [hys]; simp [convOutSpatial, hpsl]
      simp only [Tensor.rank] at hbr ⊢
      omega
    have hdrop : (ravel bs b :: (o ++ [fi])).drop (o.length + 1) = [fi] := by simp
    rw [get_ofFn _ _ hyb, hconv, hskip, hdrop]
    rfl
end

end Flax.Layers
