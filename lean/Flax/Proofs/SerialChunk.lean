/-
Lemmas about the chunking of large arrays (`_chunk` / `_unchunk` / `*_array_leaves_in_place`) in
`Flax/Model/Serial.lean`.
-/
import Flax.Proofs.Serial

namespace Flax.Serial
open Flax.Msgpack

/-! ### hypotheses of the chunk round trip -/

mutual
  /-- no dict of the state uses the reserved key `__msgpack_chunked_array__` -/
  def STree.noMarker : STree → Bool
    | .leaf _ => true
    | .dict kvs => !decide (marker ∈ keys kvs) && nmKvs kvs
  def nmKvs : List (String × STree) → Bool
    | [] => true
    | (_, v) :: r => v.noMarker && nmKvs r
end

/-- NumPy's invariant for one array: positive item size, `len(tobytes()) = itemsize * size` -/
def NdArray.ok (isz : String → Nat) (a : NdArray) : Prop :=
  1 ≤ isz a.dtype ∧ a.data.length = isz a.dtype * prod a.shape

mutual
  /-- every array leaf of the state satisfies NumPy's invariant -/
  def STree.arraysOk (isz : String → Nat) : STree → Prop
    | .leaf (.ndarray a) => a.ok isz
    | .leaf _ => True
    | .dict kvs => aokKvs isz kvs
  def aokKvs (isz : String → Nat) : List (String × STree) → Prop
    | [] => True
    | (_, v) :: r => v.arraysOk isz ∧ aokKvs isz r
end

/-! ### splitting and re-joining the byte string -/

theorem splitEvery_flatten (n : Nat) (hn : 1 ≤ n) : ∀ (fuel : Nat) (l : Bytes), l.length ≤ fuel →
    (splitEvery n fuel l).flatten = l
  | 0, l, h => by
    have : l = [] := List.eq_nil_of_length_eq_zero (by omega)
    simp [splitEvery, this]
  | fuel + 1, l, h => by
    simp only [splitEvery]
    split
    · next he => simp at he; simp [he]
    · next he =>
      have hpos : 0 < l.length := by
        cases l with
        | nil => simp at he
        | cons a l => simp
      simp only [List.flatten_cons]
      rw [splitEvery_flatten n hn fuel (l.drop n) (by simp; omega)]
      exact List.take_append_drop n l

/-- the element counts of the pieces add up to the element count of the array -/
theorem splitEvery_counts (c z : Nat) (hc : 1 ≤ c) (hz : 1 ≤ z) : ∀ (fuel : Nat) (l : Bytes) (m : Nat),
    l.length ≤ fuel → l.length = m * z →
    ((splitEvery (c * z) fuel l).map (fun p => p.length / z)).sum = m
  | 0, l, m, h, hm => by
    have h0 : l.length = 0 := by omega
    have : m = 0 := by
      rcases Nat.eq_zero_or_pos m with h | h
      · exact h
      · have : 0 < m * z := Nat.mul_pos h (by omega)
        omega
    simp [splitEvery, this]
  | fuel + 1, l, m, h, hm => by
    simp only [splitEvery]
    split
    · next he =>
      simp at he
      subst he
      have : m = 0 := by
        rcases Nat.eq_zero_or_pos m with h | h
        · exact h
        · have : 0 < m * z := Nat.mul_pos h (by omega)
          simp at hm
          omega
      simp [this]
    · next he =>
      have hpos : 0 < l.length := by
        cases l with
        | nil => simp at he
        | cons a l => simp
      have hcz : 1 ≤ c * z := Nat.mul_pos (by omega) (by omega)
      simp only [List.map_cons, List.sum_cons, List.length_take]
      by_cases hcm : c ≤ m
      · have hle : c * z ≤ l.length := by rw [hm]; exact Nat.mul_le_mul_right z hcm
        have hdrop : (l.drop (c * z)).length = (m - c) * z := by
          simp only [List.length_drop, hm, Nat.sub_mul]
        have ih := splitEvery_counts c z hc hz fuel (l.drop (c * z)) (m - c)
          (by simp; omega) hdrop
        rw [ih, Nat.min_eq_left hle, Nat.mul_div_cancel _ (by omega)]
        omega
      · have hlt : l.length ≤ c * z := by
          rw [hm]; exact Nat.mul_le_mul_right z (by omega)
        have hdrop : (l.drop (c * z)).length = 0 * z := by
          simp only [List.length_drop]; omega
        have ih := splitEvery_counts c z hc hz fuel (l.drop (c * z)) 0 (by simp; omega) hdrop
        rw [ih, Nat.min_eq_right hlt, hm, Nat.mul_div_cancel _ (by omega)]
        omega

theorem splitEvery_ne_nil (n : Nat) (fuel : Nat) (l : Bytes) (h : 0 < l.length) (hf : l.length ≤ fuel) :
    splitEvery n fuel l ≠ [] := by
  cases fuel with
  | zero => omega
  | succ fuel =>
    simp only [splitEvery]
    split
    · next he => simp at he; simp [he] at h
    · simp

/-! ### `_tuple_to_dict` / `_dict_to_tuple` -/

theorem enumDict_eq : ∀ (xs : List STree) (i : Nat), enumDict i xs = enumL i xs
  | [], _ => rfl
  | x :: r, i => by simp [enumDict, enumL, enumDict_eq r (i + 1)]

theorem length_enumL {α} : ∀ (xs : List α) (i : Nat), (enumL i xs).length = xs.length
  | [], _ => rfl
  | x :: r, i => by simp [enumL, length_enumL r (i + 1)]

theorem dictToTuple_go (xs : List STree) : ∀ (n i : Nat), i + n = xs.length →
    dictToTuple.go (enumL 0 xs) n i = .ok (xs.drop i)
  | 0, i, h => by
    simp only [dictToTuple.go]
    rw [List.drop_eq_nil_of_le (by omega)]
  | n + 1, i, h => by
    have hlk : lookup (idx i) (enumL 0 xs) = xs[i]? := by
      have := lookup_enumL xs 0 i
      simpa using this
    have hi : i < xs.length := by omega
    simp only [dictToTuple.go, hlk, List.getElem?_eq_getElem hi]
    rw [dictToTuple_go xs n (i + 1) (by omega), List.drop_eq_getElem_cons hi]

theorem dictToTuple_enumDict (xs : List STree) : dictToTuple (.dict (enumDict 0 xs)) = .ok xs := by
  simp only [dictToTuple, enumDict_eq, length_enumL]
  rw [dictToTuple_go xs xs.length 0 (by omega)]
  simp

theorem allSome_map {α β γ} (f : α → Option β) (g : γ → α) (h : γ → β) (hg : ∀ c, f (g c) = some (h c)) :
    ∀ (cs : List γ), allSome f (cs.map g) = some (cs.map h)
  | [] => rfl
  | c :: r => by simp [allSome, hg c, allSome_map f g h hg r]

/-! ### `_unchunk ∘ _chunk` -/

theorem unchunk_chunk (T : Nat) (isz : String → Nat) (a : NdArray) (hok : a.ok isz)
    (hbig : oversize T isz a = true) :
    ∃ kvs, chunk T isz a = .dict kvs ∧ marker ∈ keys kvs ∧ unchunk kvs = .ok a := by
  obtain ⟨hz, hlen⟩ := hok
  simp only [oversize, decide_eq_true_eq] at hbig
  have hdata : 0 < a.data.length := by
    rw [hlen]
    rcases Nat.eq_zero_or_pos (prod a.shape) with h0 | hp
    · simp [h0] at hbig
    · exact Nat.mul_pos (by omega) hp
  refine ⟨_, rfl, by simp [keys], ?_⟩
  have hcs : 1 ≤ max 1 (T / isz a.dtype) := Nat.le_max_left _ _
  have hn : 1 ≤ max 1 (T / isz a.dtype) * isz a.dtype := Nat.mul_pos (by omega) (by omega)
  -- the pieces
  cases hp : splitEvery (max 1 (T / isz a.dtype) * isz a.dtype) a.data.length a.data with
  | nil => exact absurd hp (splitEvery_ne_nil _ _ _ hdata (Nat.le_refl _))
  | cons p0 ps =>
    have hflat := splitEvery_flatten _ hn a.data.length a.data (Nat.le_refl _)
    have hcnt := splitEvery_counts (max 1 (T / isz a.dtype)) (isz a.dtype) hcs hz a.data.length a.data
      (prod a.shape) (Nat.le_refl _) (by rw [hlen, Nat.mul_comm])
    rw [hp] at hflat hcnt
    have hmk : marker ≠ "shape" ∧ marker ≠ "chunks" := by decide
    have hsc : ("shape" : String) ≠ "chunks" := by decide
    simp only [unchunk, lookup, hmk.1, hmk.2, hsc, ↓reduceIte, dictToTuple_enumDict]
    rw [allSome_map asDim (fun (d : Nat) => STree.leaf (.int (d : Int))) id (by intro b; simp [asDim])]
    rw [allSome_map asArray
      (fun (p : Bytes) => STree.leaf (.ndarray { dtype := a.dtype, shape := [p.length / isz a.dtype], data := p }))
      (fun (p : Bytes) => ({ dtype := a.dtype, shape := [p.length / isz a.dtype], data := p } : NdArray))
      (by intro b; simp [asArray])]
    simp only [List.map_cons, List.map_map, List.map_id]
    have hsum : prod a.shape =
        (prod [p0.length / isz a.dtype] ::
          List.map ((fun (p : NdArray) => prod p.shape) ∘
            fun (p : Bytes) => ({ dtype := a.dtype, shape := [p.length / isz a.dtype], data := p } : NdArray)) ps).sum := by
      simp only [List.map_cons, List.sum_cons] at hcnt
      rw [← hcnt]
      simp only [prod, List.foldr, Nat.mul_one, List.sum_cons]
      congr 1
      congr 1
      apply List.map_congr_left
      intro p _
      simp [prod]
    have hall : (({ dtype := a.dtype, shape := [p0.length / isz a.dtype], data := p0 } : NdArray) ::
        List.map (fun (p : Bytes) => ({ dtype := a.dtype, shape := [p.length / isz a.dtype], data := p } : NdArray)) ps).all
        (fun p => decide (p.dtype = a.dtype)) = true := by
      simp [List.all_cons, List.all_map]
    simp only [hall, ← hsum, decide_true, Bool.and_self, ↓reduceIte]
    have hd : (p0 :: List.map ((fun (x : NdArray) => x.data) ∘
        fun (p : Bytes) => ({ dtype := a.dtype, shape := [p.length / isz a.dtype], data := p } : NdArray)) ps).flatten
        = a.data := by
      rw [← hflat]
      simp only [List.flatten_cons]
      congr 1
      congr 1
      rw [List.map_congr_left (g := id) (by intro p _; rfl)]
      simp
    rw [hd]

theorem keys_chunkKvs (T : Nat) (isz : String → Nat) : ∀ (kvs : List (String × STree)),
    keys (chunkKvs T isz kvs) = keys kvs
  | [] => rfl
  | (k, v) :: r => by
    have := keys_chunkKvs T isz r
    simp only [keys] at this
    simp [chunkKvs, keys, this]

mutual
  theorem unchunk_chunk_tree (T : Nat) (isz : String → Nat) : ∀ (s : STree),
      s.noMarker = true → s.arraysOk isz → unchunkLeaves (chunkLeaves T isz s) = .ok s
    | .leaf v, _, hok => by
      cases v with
      | ndarray a =>
        simp only [STree.arraysOk] at hok
        simp only [chunkLeaves]
        split
        · next hbig =>
          obtain ⟨kvs, h1, h2, h3⟩ := unchunk_chunk T isz a hok hbig
          rw [h1]
          simp [unchunkLeaves, h2, h3]
        · simp [unchunkLeaves]
      | _ => simp [chunkLeaves, unchunkLeaves]
    | .dict kvs, hnm, hok => by
      simp only [STree.noMarker, Bool.and_eq_true, Bool.not_eq_true', decide_eq_false_iff_not] at hnm
      simp only [STree.arraysOk] at hok
      have := unchunk_chunk_kvs T isz kvs hnm.2 hok
      simp [chunkLeaves, unchunkLeaves, keys_chunkKvs, hnm.1, this]
  theorem unchunk_chunk_kvs (T : Nat) (isz : String → Nat) : ∀ (kvs : List (String × STree)),
      nmKvs kvs = true → aokKvs isz kvs → unchunkKvs (chunkKvs T isz kvs) = .ok kvs
    | [], _, _ => by simp [chunkKvs, unchunkKvs]
    | (k, v) :: r, hnm, hok => by
      simp only [nmKvs, Bool.and_eq_true] at hnm
      simp only [aokKvs] at hok
      simp [chunkKvs, unchunkKvs, unchunk_chunk_tree T isz v hnm.1 hok.1,
        unchunk_chunk_kvs T isz r hnm.2 hok.2]
end

end Flax.Serial
