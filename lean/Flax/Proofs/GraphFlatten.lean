/-
Helper lemmas about `flatten` (C03): the leaves come out in strictly increasing path order.
-/
import Flax.Model.Graph
import Flax.Proofs.GraphOrder
namespace Flax.Graph
open Flax.Heap

theorem wfKVs_mem : ∀ (l : List (Key × PVal)), PVal.wfKVs l = true → ∀ kv ∈ l, kv.2.wf = true
  | [], _, kv, h => by cases h
  | (k, v) :: rest, hw, kv, h => by
    simp only [PVal.wfKVs, Bool.and_eq_true] at hw
    rcases List.mem_cons.mp h with e | h'
    · subst e; exact hw.1
    · exact wfKVs_mem rest hw.2 kv h'

theorem wfList_mem : ∀ (l : List PVal), PVal.wfList l = true → ∀ v ∈ l, v.wf = true
  | [], _, v, h => by cases h
  | x :: rest, hw, v, h => by
    simp only [PVal.wfList, Bool.and_eq_true] at hw
    rcases List.mem_cons.mp h with e | h'
    · subst e; exact hw.1
    · exact wfList_mem rest hw.2 v h'

theorem enumFrom_mem_snd {α : Type} : ∀ (n : Nat) (xs : List α) (kv : Key × α), kv ∈ enumFrom n xs → kv.2 ∈ xs
  | _, [], kv, h => by simp [enumFrom] at h
  | n, x :: xs, kv, h => by
    simp only [enumFrom, List.mem_cons] at h
    rcases h with e | h
    · subst e; simp
    · exact List.mem_cons_of_mem _ (enumFrom_mem_snd (n+1) xs kv h)

theorem heap_wf_node {h : Heap} (hw : Heap.wf h = true) {a : Addr} {cls : String} {attrs : List (Key × PVal)}
    (ha : h[a]? = some (.node cls attrs)) : keysNodup attrs ∧ ∀ kv ∈ attrs, kv.2.wf = true := by
  have hm : Obj.node cls attrs ∈ h := List.mem_of_getElem? ha
  have := List.all_eq_true.mp hw _ hm
  simp only [Obj.wf, Bool.and_eq_true, decide_eq_true_eq] at this
  exact ⟨this.1, wfKVs_mem attrs this.2⟩

/-- leaves emitted below `path`: strictly increasing paths, all extending `path` -/
def Under (path : Path) (ls : FlatState) : Prop :=
  SSorted Path.lt ls ∧ ∀ it ∈ ls, ∃ s, it.1 = path ++ s

/-- leaves emitted by the items loop: strictly increasing, each below one of the item keys -/
def UnderItems (path : Path) (items : List (Key × PVal)) (ls : FlatState) : Prop :=
  SSorted Path.lt ls ∧ ∀ it ∈ ls, ∃ kv ∈ items, ∃ s, it.1 = path ++ kv.1 :: s

theorem flatten_sorted_aux (h : Heap) (hw : Heap.wf h = true) : ∀ fuel : Nat,
    (∀ path v idx gd ls idx', v.wf = true → flattenVal fuel h path v idx = .ok (gd, ls, idx') → Under path ls) ∧
    (∀ path items idx gs ls idx', SSorted Key.lt items → (∀ kv ∈ items, kv.2.wf = true) →
        flattenItems fuel h path items idx = .ok (gs, ls, idx') → UnderItems path items ls) := by
  intro fuel
  induction fuel with
  | zero =>
    constructor
    · intro path v idx gd ls idx' _ hh; simp [flattenVal] at hh
    · intro path items idx gs ls idx' _ _ hh; simp [flattenItems] at hh
  | succ fuel ih =>
    have items_to_val : ∀ {path items ls}, UnderItems path items ls → Under path ls := by
      intro path items ls hu
      refine ⟨hu.1, ?_⟩
      intro it hit
      obtain ⟨kv, _, s, e⟩ := hu.2 it hit
      exact ⟨kv.1 :: s, e⟩
    constructor
    · intro path v idx gd ls idx' hv hh
      cases v with
      | static s => simp [flattenVal] at hh; obtain ⟨_, rfl, _⟩ := hh; simp [Under, SSorted]
      | array d =>
        simp [flattenVal] at hh; obtain ⟨_, rfl, _⟩ := hh
        refine ⟨by simp [SSorted], ?_⟩
        intro it hit; simp at hit; subst hit; exact ⟨[], by simp⟩
      | none => simp [flattenVal] at hh; obtain ⟨_, rfl, _⟩ := hh; simp [Under, SSorted]
      | seq t xs =>
        simp only [flattenVal] at hh
        split at hh
        · cases hh
        · next as ls1 idx1 heq =>
          simp at hh; obtain ⟨_, rfl, _⟩ := hh
          simp only [PVal.wf] at hv
          exact items_to_val (ih.2 path _ idx as ls1 idx1 (enumFrom_ssorted 0 xs)
            (fun kv hkv => wfList_mem xs hv _ (enumFrom_mem_snd 0 xs kv hkv)) heq)
      | dict kvs =>
        simp only [flattenVal] at hh
        split at hh
        · cases hh
        · next as ls1 idx1 heq =>
          simp at hh; obtain ⟨_, rfl, _⟩ := hh
          simp only [PVal.wf, Bool.and_eq_true, decide_eq_true_eq] at hv
          exact items_to_val (ih.2 path _ idx as ls1 idx1 (sortKV_ssorted hv.1)
            (fun kv hkv => wfKVs_mem kvs hv.2 kv (mem_sortKV.mp hkv)) heq)
      | ref a =>
        simp only [flattenVal] at hh
        split at hh
        · simp at hh; obtain ⟨_, rfl, _⟩ := hh; simp [Under, SSorted]
        · split at hh
          · cases hh
          · simp at hh; obtain ⟨_, rfl, _⟩ := hh
            refine ⟨by simp [SSorted], ?_⟩
            intro it hit; simp at hit; subst hit; exact ⟨[], by simp⟩
          · next cls attrs hget =>
            split at hh
            · cases hh
            · next as ls1 idx1 heq =>
              simp at hh; obtain ⟨_, rfl, _⟩ := hh
              have hn := heap_wf_node hw hget
              exact items_to_val (ih.2 path _ _ as ls1 idx1 (sortKV_ssorted hn.1)
                (fun kv hkv => hn.2 kv (mem_sortKV.mp hkv)) heq)
    · intro path items idx gs ls idx' hs hwf hh
      cases items with
      | nil => simp [flattenItems] at hh; obtain ⟨_, rfl, _⟩ := hh; simp [UnderItems, SSorted]
      | cons kv rest =>
        obtain ⟨k, v⟩ := kv
        simp only [flattenItems] at hh
        split at hh
        · cases hh
        · next g ls1 idx1 heq1 =>
          split at hh
          · cases hh
          · next gs2 ls2 idx2 heq2 =>
            simp at hh; obtain ⟨_, rfl, _⟩ := hh
            have hs' := List.pairwise_cons.mp hs
            have u1 := ih.1 (path ++ [k]) v idx g ls1 idx1 (hwf (k, v) (by simp)) heq1
            have u2 := ih.2 path rest idx1 gs2 ls2 idx2 hs'.2 (fun kv hkv => hwf kv (by simp [hkv])) heq2
            refine ⟨?_, ?_⟩
            · refine List.pairwise_append.mpr ⟨u1.1, u2.1, ?_⟩
              intro x hx y hy
              obtain ⟨s, e1⟩ := u1.2 x hx
              obtain ⟨kv', hkv', s', e2⟩ := u2.2 y hy
              rw [e1, e2]
              have : Key.lt k kv'.1 = true := hs'.1 kv' hkv'
              simpa using Path.lt_of_diverge path s s' this
            · intro it hit
              rcases List.mem_append.mp hit with h1 | h2
              · obtain ⟨s, e⟩ := u1.2 it h1
                exact ⟨(k, v), by simp, s, by simp [e]⟩
              · obtain ⟨kv', hkv', s', e⟩ := u2.2 it h2
                exact ⟨kv', by simp [hkv'], s', e⟩

end Flax.Graph
