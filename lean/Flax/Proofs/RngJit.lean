/-
C09 / finding F11: soundness of the per-function counter-delta cache of `lift.jit`.
-/
import Flax.Proofs.Rng

namespace Flax.Rng

/-- the caches agree: a (function, fingerprint) pair has a delta iff it was traced, and the delta is the body's -/
def JitInv (d : Nat → Nat) (w : JitWorld) : Prop :=
  (∀ fn fp, w.traced.contains (fn, fp) = (find? (fn, fp) w.deltas).isSome) ∧
  (∀ fn fp dl, find? (fn, fp) w.deltas = some dl → dl = d fn)

theorem jitCall_sound (d : Nat → Nat) (w : JitWorld) (hinv : JitInv d w) (fn fp c : Nat) :
    (jitCall false w fn fp (d fn) c).2 = c + d fn ∧ JitInv d (jitCall false w fn fp (d fn) c).1 := by
  obtain ⟨h1, h2⟩ := hinv
  unfold jitCall
  simp only [Bool.false_eq_true, if_false]
  cases hf : find? (fn, fp) w.deltas with
  | some dl =>
    have ht : w.traced.contains (fn, fp) = true := by rw [h1, hf]; rfl
    have hd := h2 fn fp dl hf
    subst hd
    simp only [ht, Bool.not_true, Bool.false_eq_true, if_false]
    exact ⟨trivial, h1, h2⟩
  | none =>
    have ht : w.traced.contains (fn, fp) = false := by rw [h1, hf]; rfl
    simp only [ht, Bool.not_false, if_true]
    refine ⟨trivial, ?_, ?_⟩
    · intro fn' fp'
      by_cases he : (fn', fp') = (fn, fp)
      · rw [he, find?_append_new _ _ _ hf]
        simp
      · rw [find?_append_ne _ _ _ _ he, ← h1 fn' fp']
        simp only [List.contains_eq_mem, List.mem_append, List.mem_singleton, he, or_false]
    · intro fn' fp' dl hdl
      by_cases he : (fn', fp') = (fn, fp)
      · rw [he, find?_append_new _ _ _ hf] at hdl
        have := (Prod.mk.inj he).1
        subst this
        simp at hdl
        omega
      · rw [find?_append_ne _ _ _ _ he] at hdl
        exact h2 fn' fp' dl hdl

theorem jitRun_sound (d : Nat → Nat) : ∀ (calls : List (Nat × Nat × Nat)) (w : JitWorld), JitInv d w →
    jitRun false d w calls = calls.map (fun x => x.2.2 + d x.1) := by
  intro calls
  induction calls with
  | nil => intro w _; rfl
  | cons x rest ih =>
    intro w hinv
    obtain ⟨fn, fp, c⟩ := x
    obtain ⟨h1, h2⟩ := jitCall_sound d w hinv fn fp c
    simp only [jitRun, List.map_cons]
    rw [h1, ih _ h2]

theorem jitInv_empty (d : Nat → Nat) : JitInv d { traced := [], deltas := [] } :=
  ⟨by intro fn fp; rfl, by intro fn fp dl h; simp at h⟩

end Flax.Rng
