/- C08 proofs: `nnx.vmap` — exactly when it returns -/
import Flax.Proofs.NnxLoopVmapCompleteOut

namespace Flax.NnxLoop
open Flax.Filter Flax.LiftLoop

section iff
variable {α : Type} [Inhabited α]

theorem expand_hasCarry {t : AxesSpec} {k : Nat} {ps : List Prefix} (h : t.hasCarry = false)
    (he : t.expand k = .ok ps) : ∀ p ∈ ps, p.hasCarry = false := by
  cases t with
  | uniform p =>
    simp only [AxesSpec.expand] at he
    injection he with he
    subst he
    intro q hq
    rw [List.eq_of_mem_replicate hq]; exact h
  | perArg qs =>
    simp only [AxesSpec.expand] at he
    split at he
    · injection he with he
      subst he
      intro q hq
      simp only [AxesSpec.hasCarry, List.any_eq_false] at h
      simpa using h q hq
    · cases he

theorem vmapCall_ok {body : Body α} {store : Store α} {pas : List (Prefix × Arg α)} {i : Nat}
    {c : Store α × List (Out α)} (h : vmapCall body store pas i = .ok c) :
    ∃ ins arrs, mapX (sliceEntry store i) (ownedAll pas []) = .ok ins ∧ mapX (sliceArr i) (arrArgs pas) = .ok arrs ∧
      body ins arrs = .ok c := by
  simp only [vmapCall, bindX] at h
  cases h1 : mapX (sliceEntry store i) (ownedAll pas []) with
  | error e => simp [h1] at h
  | ok ins =>
    simp only [h1] at h
    cases h2 : mapX (sliceArr i) (arrArgs pas) with
    | error e => simp [h2] at h
    | ok arrs => simp only [h2] at h; exact ⟨ins, arrs, rfl, rfl, h⟩

theorem jaxLength_of_all {L : Option Nat} {dims : List Nat} {n : Nat} (hall : ∀ d ∈ dims, d = n)
    (h1 : ∀ m, L = some m → m = n) (h2 : L = none → dims ≠ []) : jaxLength L dims = .ok n := by
  cases L with
  | some m =>
    have := h1 m rfl
    subst this
    simp only [jaxLength]
    have : dims.all (fun d => decide (d = m)) = true := by
      simp only [List.all_eq_true, decide_eq_true_eq]; exact hall
    simp [this]
  | none =>
    cases dims with
    | nil => exact absurd rfl (h2 rfl)
    | cons d ds =>
      have hd := hall d (by simp)
      subst hd
      simp only [jaxLength]
      have : ds.all (fun d' => decide (d' = d)) = true := by
        simp only [List.all_eq_true, decide_eq_true_eq]; exact fun x hx => hall x (by simp [hx])
      simp [this]

/-- what a single trace guarantees about the results over the indices -/
def TraceUniform (calls : List (Store α × List (Out α))) : Prop :=
  (∀ c ∈ calls, ∀ c' ∈ calls, c.2.length = c'.2.length) ∧
  ∀ k col, column k (calls.map (·.2)) = .ok col → OutColWF col

/-- **the converse**: when the aliasing is consistent, every mapped leaf has size `n` along its axis (and `axis_size`,
if given, is `n`; if not, something is mapped), jax's unbatchedness verdict is positive and the per-index reference
`vmapSpecN n` is defined, the model of `nnx.vmap` returns. -/
theorem nnxVmap_complete {inAxes outAxes : AxesSpec} {axisSize : Option Nat} {body : Body α} {args : List (Arg α)}
    {store : Store α} {ps : List Prefix} {npF : NodePrefixes} {n : Nat} {res : Store α × List (Out α)}
    (hok : (inAxes.isBareStateAxes || inAxes.hasCarry || outAxes.hasCarry) = false)
    (hps : inAxes.expand args.length = .ok ps) (hal : allPrefixes (ps.zip args) [] = .ok npF)
    (hcons : consistent npF = true) (hwf : WFArgs (ps.zip args))
    (hsz1 : ∀ ep ∈ ownedAll (ps.zip args) [], ∀ k, ep.2.at ep.1 = .ok (.axis k) →
      ∃ v, store.lookup ep.1.id = some v ∧ dimAt k v = .ok n)
    (hsz2 : ∀ pa ∈ arrArgs (ps.zip args), ∀ k, pa.1 = .ax (.axis k) → dimAt k pa.2 = .ok n)
    (hsz3 : ∀ m, axisSize = some m → m = n) (hsz4 : axisSize = none → HasMapped (ps.zip args) [])
    (hspec : vmapSpecN n outAxes body (ps.zip args) store = .ok res)
    (huni : ∀ calls, mapX (vmapCall body store (ps.zip args)) (List.range n) = .ok calls → TraceUniform calls) :
    ∃ res', nnxVmap inAxes outAxes axisSize true body args store = .ok res' := by
  have hin : inAxes.isBareStateAxes = false ∧ inAxes.hasCarry = false ∧ outAxes.hasCarry = false := by
    cases h1 : inAxes.isBareStateAxes <;> cases h2 : inAxes.hasCarry <;> cases h3 : outAxes.hasCarry <;> simp_all
  obtain ⟨_, hic, hoc⟩ := hin
  -- unfold the reference
  simp only [vmapSpecN, bindX] at hspec
  cases hcalls : mapX (vmapCall body store (ps.zip args)) (List.range n) with
  | error e => simp [hcalls] at hspec
  | ok calls =>
  simp only [hcalls] at hspec
  cases calls with
  | nil => simp at hspec
  | cons c0 ct =>
  simp only [List.map_cons] at hspec
  cases hvals : mapX (collectEntry (c0.1 :: ct.map (·.1))) (ownedAll (ps.zip args) []) with
  | error e => simp [hvals] at hspec
  | ok vals =>
  simp only [hvals] at hspec
  cases hbare : (outAxes.isBareStateAxes && decide (c0.2.length ≠ 1)) with
  | true => rw [if_pos hbare] at hspec; cases hspec
  | false =>
  rw [if_neg (by rw [hbare]; simp)] at hspec
  cases hqs : outAxes.expand c0.2.length with
  | error e => simp [hqs] at hspec
  | ok qs =>
  simp only [hqs] at hspec
  cases houtsS : mapX (collectOutAt (c0.2 :: ct.map (·.2))) ((List.range qs.length).zip qs) with
  | error e => simp [houtsS] at hspec
  | ok outs =>
  have hlenC : (c0 :: ct).length = n := by have := mapX_length hcalls; simpa using this
  obtain ⟨huL, huW⟩ := huni _ hcalls
  obtain ⟨hql, hqe⟩ := expand_entry hqs
  have hnpos : 0 < n := by rw [← hlenC]; simp
  -- index 0 is a call: the store holds every Variable and array prefixes are axes
  have hc0 : vmapCall body store (ps.zip args) 0 = .ok c0 := by
    have := mapX_ok_getElem hcalls 0 (by simpa using hnpos) (by simp)
    simpa using this
  obtain ⟨ins0, arrs0, hi0, ha0, _⟩ := vmapCall_ok hc0
  have hstore : ∀ ep ∈ ownedAll (ps.zip args) [], (store.lookup ep.1.id).isSome := by
    intro ep hep
    obtain ⟨y, hy, _⟩ := mapX_ok_mem hi0 ep hep
    simp only [sliceEntry] at hy
    cases hat : ep.2.at ep.1 with
    | error e => simp [hat] at hy
    | ok a =>
      simp only [hat] at hy
      cases hl : store.lookup ep.1.id with
      | none => simp [hl] at hy
      | some v => rfl
  obtain ⟨pure, hpure⟩ := toTree_complete' store (ps.zip args) [] [] npF hal hcons hstore
  have hnc : ∀ pa ∈ ps.zip args, pa.1.hasCarry = false :=
    fun pa hpa => expand_hasCarry hic hps pa.1 (List.of_mem_zip hpa).1
  have harrP : ∀ pa ∈ arrArgs (ps.zip args),
      (∃ k, pa.1 = .ax (.axis k) ∧ dimAt k pa.2 = .ok n) ∨ pa.1 = .ax .bcast := by
    intro pa hpa
    obtain ⟨y, hy, _⟩ := mapX_ok_mem ha0 pa hpa
    simp only [sliceArr] at hy
    cases hp : pa.1 with
    | sa s => simp [hp] at hy
    | ax a =>
      cases a with
      | carry => simp [hp, sliceVal] at hy
      | bcast => exact Or.inr rfl
      | axis k => exact Or.inl ⟨k, rfl, hsz2 pa hpa k hp⟩
  obtain ⟨dims, hdims, hdall⟩ := vmapDims_complete store n (ps.zip args) [] [] pure hpure hnc hsz1 harrP
  have hjl : jaxLength axisSize dims = .ok n := by
    apply jaxLength_of_all hdall hsz3
    intro hnone hde
    subst hde
    rcases hsz4 hnone with ⟨ep, hep, k, hk⟩ | ⟨pa, hpa, k, hk⟩
    · obtain ⟨_, d, _, _, hd⟩ := (vmapDims_mem store (ps.zip args) [] [] pure [] hpure hdims).1 ep hep k hk
      cases hd
    · obtain ⟨d, _, hd⟩ := (vmapDims_mem store (ps.zip args) [] [] pure [] hpure hdims).2 pa hpa k hk
      cases hd
  -- every call left a value in every Variable
  have hafter : ∀ c ∈ c0 :: ct, ∀ ep ∈ ownedAll (ps.zip args) [], (c.1.lookup ep.1.id).isSome := by
    intro c hc ep hep
    obtain ⟨y, hy, _⟩ := mapX_ok_mem hvals ep hep
    simp only [collectEntry] at hy
    cases hat : ep.2.at ep.1 with
    | error e => simp [hat] at hy
    | ok a =>
      simp only [hat] at hy
      cases hg : mapX (fun (st : Store α) => st.getX ep.1.id) (c0.1 :: ct.map (·.1)) with
      | error e => simp [hg] at hy
      | ok vs =>
        have hcm : c.1 ∈ c0.1 :: ct.map (·.1) := by
          have := List.mem_map_of_mem (f := fun (x : Store α × List (Out α)) => x.1) hc
          simpa using this
        obtain ⟨v, hv, _⟩ := mapX_ok_mem hg c.1 hcm
        simp only [Store.getX] at hv
        cases hl : c.1.lookup ep.1.id with
        | none => simp [hl] at hv
        | some v' => rfl
  -- the results of every call can go through the inner to_tree
  have hsplit : ∀ c ∈ c0 :: ct, ∃ pouts, mapX splitOut (qs.zip c.2) = .ok pouts := by
    intro c hc
    apply mapX_ok_of_forall
    intro qo hqo
    obtain ⟨q, o⟩ := qo
    obtain ⟨k, hk1, hk2⟩ := mem_zip_iff.1 hqo
    have hkl : k < qs.length := (List.getElem?_eq_some_iff.1 hk1).1
    have hz : (k, q) ∈ (List.range qs.length).zip qs := mem_zip_iff.2 ⟨k, List.getElem?_range hkl, hk1⟩
    obtain ⟨out, hout, _⟩ := mapX_ok_mem houtsS _ hz
    simp only [collectOutAt, bindX] at hout
    cases hcol : column k (c0.2 :: ct.map (·.2)) with
    | error e => simp [hcol] at hout
    | ok ocol =>
      simp only [hcol] at hout
      have hcol' : column k ((c0 :: ct).map (·.2)) = .ok ocol := by simpa using hcol
      obtain ⟨hcl, hce⟩ := column_ok hcol'
      obtain ⟨j, hj, hcj⟩ := List.getElem_of_mem hc
      have hmem : o ∈ ocol := by
        have := hce j (by simpa using hj) (by rw [hcl]; simpa using hj)
        simp only [List.getElem_map, hcj, hk2, Option.some.injEq] at this
        rw [this]; exact List.getElem_mem _
      cases ocol with
      | nil => cases hmem
      | cons o0 orest => exact collectOut_splitOut hout (huW k _ hcol') o hmem
  -- the calls made by the implementation
  have hcalli : ∀ i ∈ List.range n, ∃ r, (match mapX (sliceArg i) pure with
      | .error e => Except.error e
      | .ok sl => vmapFn body outAxes sl) = .ok r := by
    intro i hi
    have hil : i < n := by simpa using hi
    have hci : vmapCall body store (ps.zip args) i = .ok ((c0 :: ct)[i]'(by rw [hlenC]; exact hil)) := by
      have := mapX_ok_getElem hcalls i (by simpa using hil) (by rw [hlenC]; exact hil)
      simpa using this
    obtain ⟨ins, arrs, hi1, hi2, hb⟩ := vmapCall_ok hci
    obtain ⟨sl, hsl⟩ := sliceArg_complete store i (ps.zip args) [] [] pure ins arrs hpure hi1 hi2
    obtain ⟨ins', e1, e2, e3⟩ := vmap_call_sees_slices store i (ps.zip args) [] [] pure sl [] hwf hpure hsl rfl
    rw [hi1] at e1; injection e1 with e1
    rw [hi2] at e3; injection e3 with e3
    have hcm : (c0 :: ct)[i]'(by rw [hlenC]; exact hil) ∈ c0 :: ct := List.getElem_mem _
    generalize hcg : (c0 :: ct)[i]'(by rw [hlenC]; exact hil) = c at hb hcm
    obtain ⟨argsOut, hao⟩ := splitArgOut_complete store c.1 (ps.zip args) [] [] pure hpure (hafter c hcm)
    rw [← sliceArg_skeleton c.1 hsl] at hao
    obtain ⟨pouts, hpo⟩ := hsplit c hcm
    have hlen : c.2.length = c0.2.length := huL c hcm c0 (by simp)
    refine ⟨(argsOut, pouts), ?_⟩
    simp only [hsl, vmapFn, e2, List.nil_append, ← e1, ← e3, hb, hao, hlen, hbare, hqs, hpo]
    rfl
  obtain ⟨rs, hrs⟩ := mapX_ok_of_forall _ hcalli
  -- relate them to the reference calls (as in the soundness proof)
  obtain ⟨cs, hcs, hrel⟩ := mapX_factor (C := vmapCall body store (ps.zip args))
    (R := CallRel outAxes pure) hrs (by
      intro i _ r hr
      cases hsl : mapX (sliceArg i) pure with
      | error e => simp [hsl] at hr
      | ok sl =>
        simp only [hsl] at hr
        obtain ⟨ins, h1, h2, h3⟩ := vmap_call_sees_slices store i (ps.zip args) [] [] pure sl [] hwf hpure hsl rfl
        obtain ⟨inner, inner', outsI, ops, e1, e2, e3, e4, e5, e6⟩ := vmapFn_ok hr
        rw [h2] at e1
        injection e1 with e1
        simp only [List.nil_append] at e1
        subst e1
        refine ⟨(inner', outsI), ?_, ?_, e4, ops, e5, e6⟩
        · simp only [vmapCall, h1, h3, bindX, e2]
        · rw [← sliceArg_skeleton inner' hsl]; exact e3)
  rw [hcalls] at hcs
  injection hcs with hcs
  subst hcs
  cases rs with
  | nil => cases hrel
  | cons r0 rt =>
  -- write-back
  have hrows : mapX (fun st => mapX (splitArgOut st) pure) ((c0 :: ct).map (·.1)) = .ok ((r0 :: rt).map (·.1)) := by
    rw [mapX_map]
    exact forall2_mapX (G := fun (c : Store α × List (Out α)) => mapX (splitArgOut c.1) pure)
      (proj := fun (r : List (List (State α)) × List (PureOut α)) => r.1) (all2_mono (fun _ _ hR => hR.1) hrel)
  obtain ⟨store', hwb⟩ := vmapWriteBack_complete store (ps.zip args) [] [] pure hwf hpure hnc c0.1 (ct.map (·.1))
    ((r0 :: rt).map (·.1)) vals (by simpa using hrows) hvals store
  -- results
  have hR0 : CallRel outAxes pure c0 r0 := by cases hrel with | cons h _ => exact h
  obtain ⟨_, _, ops0, hops0, hsp0⟩ := hR0
  rw [hqs] at hops0
  injection hops0 with hops0
  subst hops0
  have hr0l : r0.2.length = qs.length := by
    have := mapX_length hsp0
    simp [List.length_zip, hql] at this
    omega
  have houtsI : ∃ outs', mapX (fun q => match column q.1 ((r0 :: rt).map (·.2)) with
      | .error e => Except.error e
      | .ok col => vmapCollectOut q.2 col) ((List.range r0.2.length).zip r0.2) = .ok outs' := by
    apply mapX_ok_of_forall
    intro kp hkp
    obtain ⟨k, p0⟩ := kp
    obtain ⟨j, hj1, hj2⟩ := mem_zip_iff.1 hkp
    have hjl : j < r0.2.length := (List.getElem?_eq_some_iff.1 hj2).1
    have hkj : k = j := by rw [List.getElem?_range hjl] at hj1; exact (Option.some.inj hj1).symm
    subst hkj
    have hkq : k < qs.length := by omega
    have hz : (k, qs[k]) ∈ (List.range qs.length).zip qs :=
      mem_zip_iff.2 ⟨k, List.getElem?_range hkq, List.getElem?_eq_getElem hkq⟩
    obtain ⟨out, hout, _⟩ := mapX_ok_mem houtsS _ hz
    simp only [collectOutAt, bindX] at hout
    cases hcol0 : column k (c0.2 :: ct.map (·.2)) with
    | error e => simp [hcol0] at hout
    | ok ocol =>
      simp only [hcol0] at hout
      have hcol : column k ((c0 :: ct).map (·.2)) = .ok ocol := by simpa using hcol0
      -- the implementation's column
      have hq : outAxes.entry k = some qs[k] := by
        rw [← hqe k (by omega), List.getElem?_eq_getElem hkq]
      have hcolI : ∃ col, column k ((r0 :: rt).map (·.2)) = .ok col := by
        simp only [column]
        apply mapX_ok_of_forall
        intro row hrow
        obtain ⟨r, hr, rfl⟩ := List.mem_map.1 hrow
        -- every row has qs.length results
        have : r.2.length = qs.length := by
          clear hwb hrows houtsS hout hcol
          have key : ∀ {cs : List (Store α × List (Out α))} {rs : List (List (List (State α)) × List (PureOut α))},
              All2 (CallRel outAxes pure) cs rs → (∀ c ∈ cs, c.2.length = c0.2.length) → ∀ r ∈ rs, r.2.length = qs.length := by
            intro cs rs h
            induction h with
            | nil => intro _ r hr; cases hr
            | @cons c r' cs' rs' hR _ ih =>
              intro hl r hr
              rcases List.mem_cons.1 hr with h1 | h1
              · subst h1
                obtain ⟨_, _, ops, hops, hsp⟩ := hR
                rw [hl c (by simp), hqs] at hops
                injection hops with hops
                subst hops
                have := mapX_length hsp
                simp [List.length_zip, hql, hl c (by simp)] at this
                omega
              · exact ih (fun c hc => hl c (by simp [hc])) r h1
          exact key hrel (fun c hc => huL c hc c0 (by simp)) r hr
        exact ⟨r.2[k]'(by omega), by simp [pickX, List.getElem?_eq_getElem (by omega : k < r.2.length)]⟩
      obtain ⟨col, hcolI⟩ := hcolI
      obtain ⟨ocol', ho1, ho2⟩ := column_outs hq hrel col hcolI
      rw [hcol] at ho1
      injection ho1 with ho1
      subst ho1
      obtain ⟨hcl, hce⟩ := column_ok hcolI
      cases col with
      | nil => simp at hcl
      | cons pc prest =>
        have hp0 : p0 = pc := by
          have := hce 0 (by simp) (by simp)
          simp only [List.map_cons, List.getElem_cons_zero, hj2, Option.some.injEq] at this
          exact this
        subst hp0
        cases ocol with
        | nil => simp [mapX] at ho2
        | cons o0 orest =>
          have hqc : (qs[k]).hasCarry = false := expand_hasCarry hoc hqs _ (List.getElem_mem _)
          obtain ⟨out', hout'⟩ := vmap_collect_out_complete hqc ho2 (huW k _ hcol) hout
          exact ⟨out', by simp only [hcolI, hout']⟩
  obtain ⟨outs', houts'⟩ := houtsI
  refine ⟨(store', outs'), ?_⟩
  simp only [nnxVmap, hok, hps, hpure, hdims, hjl, liftL]
  generalize hgen : mapX _ (List.range n) = mrs
  have hm1 : mrs = .ok (r0 :: rt) := hgen.symm.trans hrs
  subst hm1
  simp only [Bool.not_true, Bool.false_eq_true, if_false, hwb]
  generalize hgen2 : mapX _ ((List.range r0.2.length).zip r0.2) = mo
  have hm2 : mo = .ok outs' := hgen2.symm.trans houts'
  subst hm2
  rfl

end iff

end Flax.NnxLoop

namespace Flax.NnxLoop
open Flax.Filter Flax.LiftLoop

section iff2
variable {α : Type} [Inhabited α]

/-- the stages of `nnx.vmap` that come before the calls -/
theorem nnxVmap_ok_pre {inAxes outAxes : AxesSpec} {axisSize : Option Nat} {verdict : Bool} {body : Body α}
    {args : List (Arg α)} {store : Store α} {res : Store α × List (Out α)}
    (h : nnxVmap inAxes outAxes axisSize verdict body args store = .ok res) :
    (inAxes.isBareStateAxes || inAxes.hasCarry || outAxes.hasCarry) = false ∧
    ∃ ps pure dims n0, inAxes.expand args.length = .ok ps ∧ toTree store (ps.zip args) [] [] = .ok pure ∧
      vmapDims pure = .ok dims ∧ jaxLength axisSize dims = .ok n0 := by
  simp only [nnxVmap] at h
  cases hbad : (inAxes.isBareStateAxes || inAxes.hasCarry || outAxes.hasCarry) with
  | true => simp [hbad] at h
  | false =>
  simp only [hbad] at h
  cases hps : inAxes.expand args.length with
  | error e => simp [hps] at h
  | ok ps =>
  simp only [hps] at h
  cases hpure : toTree store (ps.zip args) [] [] with
  | error e => simp [hpure] at h
  | ok pure =>
  simp only [hpure] at h
  cases hdims : vmapDims pure with
  | error e => simp [hdims] at h
  | ok dims =>
  simp only [hdims] at h
  cases hn : liftL (jaxLength axisSize dims) with
  | error e => simp [hn] at h
  | ok n => exact ⟨rfl, ps, pure, dims, n, rfl, hpure, hdims, liftL_ok.1 hn⟩

/-- **when `nnx.vmap` accepts**: no `Carry` / bare `StateAxes` in the axes, a positive unbatchedness verdict, prefixes
that give every occurrence of every Variable an axis and the same one, every mapped leaf of one size `n` along its axis
(`axis_size = n` if given, something mapped if not), and the per-index reference defined over `n` indices (the function
total on the slices and leaving every Variable a value, results matching `out_axes`, `jnp.stack` accepting the
per-index values) -/
def VmapAccepts (inAxes outAxes : AxesSpec) (axisSize : Option Nat) (verdict : Bool) (body : Body α)
    (args : List (Arg α)) (store : Store α) : Prop :=
  (inAxes.isBareStateAxes || inAxes.hasCarry || outAxes.hasCarry) = false ∧ verdict = true ∧
  ∃ ps npF n, inAxes.expand args.length = .ok ps ∧
    allPrefixes (ps.zip args) [] = .ok npF ∧ consistent npF = true ∧
    (∀ ep ∈ ownedAll (ps.zip args) [], ∀ k, ep.2.at ep.1 = .ok (.axis k) →
      ∃ v, store.lookup ep.1.id = some v ∧ dimAt k v = .ok n) ∧
    (∀ pa ∈ arrArgs (ps.zip args), ∀ k, pa.1 = .ax (.axis k) → dimAt k pa.2 = .ok n) ∧
    (∀ m, axisSize = some m → m = n) ∧ (axisSize = none → HasMapped (ps.zip args) []) ∧
    ∃ res, vmapSpecN n outAxes body (ps.zip args) store = .ok res

/-- **`nnx.vmap` returns exactly when `VmapAccepts`** -/
theorem nnxVmap_accepts_iff {inAxes outAxes : AxesSpec} {axisSize : Option Nat} {verdict : Bool} {body : Body α}
    {args : List (Arg α)} {store : Store α}
    (hwf : ∀ ps, inAxes.expand args.length = .ok ps → WFArgs (ps.zip args))
    (huni : ∀ ps n calls, inAxes.expand args.length = .ok ps →
      mapX (vmapCall body store (ps.zip args)) (List.range n) = .ok calls → TraceUniform calls) :
    (∃ res, nnxVmap inAxes outAxes axisSize verdict body args store = .ok res) ↔
      VmapAccepts inAxes outAxes axisSize verdict body args store := by
  constructor
  · rintro ⟨res, h⟩
    obtain ⟨hbad, ps0, pure, dims, n0, hps0, hpure, hdims, hjl⟩ := nnxVmap_ok_pre h
    obtain ⟨ps, n, hps, _, hv, _, _, ⟨s1, s2, s3⟩, hspec⟩ := nnxVmap_sound h hwf
      (fun ps n calls hp hc => (huni ps n calls hp hc).2)
    rw [hps0] at hps
    injection hps with hps
    subst hps
    obtain ⟨npF, hal, hcons⟩ := toTree_ok_consistent store _ [] [] pure rfl hpure
    refine ⟨hbad, hv, ps0, npF, n, hps0, hal, hcons, s1, s2, s3, ?_, res, hspec⟩
    intro hnone
    subst hnone
    apply vmapDims_nonempty_mapped store _ [] [] pure dims hpure hdims
    intro hd
    subst hd
    simp [jaxLength] at hjl
  · rintro ⟨hbad, hv, ps, npF, n, hps, hal, hcons, s1, s2, s3, s4, res, hspec⟩
    subst hv
    exact nnxVmap_complete hbad hps hal hcons (hwf ps hps) s1 s2 s3 s4 hspec (fun calls hc => huni ps n calls hps hc)

/-- **`nnx.vmap` rejects exactly when not `VmapAccepts`** -/
theorem nnxVmap_rejects_iff {inAxes outAxes : AxesSpec} {axisSize : Option Nat} {verdict : Bool} {body : Body α}
    {args : List (Arg α)} {store : Store α}
    (hwf : ∀ ps, inAxes.expand args.length = .ok ps → WFArgs (ps.zip args))
    (huni : ∀ ps n calls, inAxes.expand args.length = .ok ps →
      mapX (vmapCall body store (ps.zip args)) (List.range n) = .ok calls → TraceUniform calls) :
    (∃ e, nnxVmap inAxes outAxes axisSize verdict body args store = .error e) ↔
      ¬ VmapAccepts inAxes outAxes axisSize verdict body args store := by
  rw [← nnxVmap_accepts_iff hwf huni]
  cases nnxVmap inAxes outAxes axisSize verdict body args store with
  | ok r => simp
  | error e => simp

end iff2

end Flax.NnxLoop
