/- C08 proofs: `nnx.vmap` — the results of the mapped function, put together -/
import Flax.Proofs.NnxLoopVmap

namespace Flax.NnxLoop
open Flax.Filter Flax.LiftLoop

/-- push a pointwise relation through a successful traversal -/
theorem mapX_through {β γ δ : Type} {F : β → Except Err γ} {G : γ → Except Err δ} {H : β → Except Err δ} :
    ∀ {l : List β} {m : List γ}, mapX F l = .ok m → (∀ x ∈ l, ∀ y, F x = .ok y → G y = H x) →
    mapX G m = mapX H l := by
  intro l
  induction l with
  | nil => intro m h _; simp [mapX] at h; subst h; rfl
  | cons x xs ih =>
    intro m h hp
    obtain ⟨y, ys, hx, hr, rfl⟩ := mapX_cons_ok h
    simp only [mapX, hp x (by simp) y hx, ih hr (fun z hz => hp z (by simp [hz]))]

theorem splitOut_arr {α : Type} {q : Prefix} {o : Out α} {po : PureOut α} (h : splitOut (q, o) = .ok po) :
    outArr po = Out.arr? o := by
  cases o with
  | arr a => simp only [splitOut] at h; injection h with h; subst h; rfl
  | argRef k => simp [splitOut] at h
  | node vs =>
    simp only [splitOut] at h
    cases h1 : mapX (fun x => q.at ⟨x.1, 0, x.2.1⟩) vs with
    | error e => simp [h1] at h
    | ok l =>
      simp only [h1] at h
      cases h2 : splitFlat q vs with
      | error e => simp [h2] at h
      | ok sts => simp only [h2] at h; injection h with h; subst h; rfl

/-- a fresh node after the inner `to_tree`: every Variable got an axis, the states are the split of the node -/
theorem splitOut_node {α : Type} {q : Prefix} {o : Out α} {po : PureOut α} (h : splitOut (q, o) = .ok po) :
    ∀ sts, outStates po = .ok sts → ∃ n, o = .node n ∧ splitFlat q n = .ok sts ∧
      po = .node q (n.map (fun x => (x.1, x.2.1))) sts ∧ ∀ x ∈ n, ∃ a, q.at ⟨x.1, 0, x.2.1⟩ = .ok a := by
  intro sts hs
  cases o with
  | arr a => simp only [splitOut] at h; injection h with h; subst h; simp [outStates] at hs
  | argRef k => simp [splitOut] at h
  | node vs =>
    simp only [splitOut] at h
    cases h1 : mapX (fun x => q.at ⟨x.1, 0, x.2.1⟩) vs with
    | error e => simp [h1] at h
    | ok l =>
      simp only [h1] at h
      cases h2 : splitFlat q vs with
      | error e => simp [h2] at h
      | ok sts' =>
        simp only [h2] at h
        injection h with h
        subst h
        simp only [outStates] at hs
        injection hs with hs
        subst hs
        refine ⟨vs, rfl, h2, rfl, ?_⟩
        intro x hx
        obtain ⟨a, ha, _⟩ := mapX_ok_mem h1 x hx
        exact ⟨a, ha⟩

/-- the node results of all indices and their states -/
theorem nodes_of_col {α : Type} {q : Prefix} : ∀ {ocol : List (Out α)} {col : List (PureOut α)}
    {rows : List (List (State α))},
    mapX (fun o => splitOut (q, o)) ocol = .ok col → mapX outStates col = .ok rows →
    ∃ nodes, mapX Out.node? ocol = .ok nodes ∧ mapX (splitFlat q) nodes = .ok rows ∧
      (∀ o ∈ ocol, ∃ n, o = .node n) := by
  intro ocol
  induction ocol with
  | nil =>
    intro col rows h1 h2
    simp [mapX] at h1; subst h1
    simp [mapX] at h2; subst h2
    exact ⟨[], rfl, rfl, by simp⟩
  | cons o os ih =>
    intro col rows h1 h2
    obtain ⟨po, pos, hpo, hpos, rfl⟩ := mapX_cons_ok h1
    obtain ⟨st, sts, hst, hsts, rfl⟩ := mapX_cons_ok h2
    obtain ⟨n, rfl, hsp, _, _⟩ := splitOut_node hpo st hst
    obtain ⟨nodes, e1, e2, e3⟩ := ih hpos hsts
    refine ⟨n :: nodes, mapX_cons_of_ok rfl e1, mapX_cons_of_ok hsp e2, ?_⟩
    intro o ho
    rcases List.mem_cons.1 ho with h | h
    · exact ⟨n, h⟩
    · exact e3 o h

/-- **Result `k` of `nnx.vmap` is the per-index results put together under the out prefix**: arrays stacked along the
out axis (the unbatched value for `None`), fresh graph nodes Variable by Variable along the axis the out prefix gives
each of them (first matching filter). -/
theorem vmap_collect_out {α : Type} [Inhabited α] {q : Prefix} {o0 : Out α} {orest : List (Out α)}
    {p0 : PureOut α} {prest : List (PureOut α)} {out : Out α}
    (hsp : mapX (fun o => splitOut (q, o)) (o0 :: orest) = .ok (p0 :: prest))
    (hwf : OutColWF (o0 :: orest))
    (hc : vmapCollectOut p0 (p0 :: prest) = .ok out) : collectOut q (o0 :: orest) = .ok out := by
  have harr : mapX outArr (p0 :: prest) = mapX Out.arr? (o0 :: orest) :=
    mapX_through hsp (fun x _ y hy => splitOut_arr hy)
  obtain ⟨y, ys, hp0, _, heq⟩ := mapX_cons_ok hsp
  injection heq with heq1 heq2
  subst heq1
  cases o0 with
  | argRef k => simp [splitOut] at hp0
  | arr a0 =>
    simp only [splitOut] at hp0
    injection hp0 with hp0
    subst hp0
    cases q with
    | sa s => simp [vmapCollectOut] at hc
    | ax a =>
      cases a with
      | carry => simp [vmapCollectOut] at hc
      | bcast =>
        simp only [vmapCollectOut, harr] at hc
        cases hm : mapX Out.arr? (Out.arr a0 :: orest) with
        | error e => simp [hm] at hc
        | ok vs =>
          simp only [hm] at hc
          injection hc with hc
          obtain ⟨v0, vt, h0, _, rfl⟩ := mapX_cons_ok hm
          simp only [Out.arr?] at h0
          injection h0 with h0
          subst h0
          subst hc
          simp [collectOut, hm, collectVal]
      | axis k =>
        simp only [vmapCollectOut, harr] at hc
        cases hm : mapX Out.arr? (Out.arr a0 :: orest) with
        | error e => simp [hm] at hc
        | ok vs =>
          simp only [hm] at hc
          obtain ⟨v0, vt, h0, _, rfl⟩ := mapX_cons_ok hm
          simp only [Out.arr?] at h0
          injection h0 with h0
          subst h0
          cases hst : liftL (stackAt k a0.shape (a0 :: vt)) with
          | error e => simp [hst] at hc
          | ok v =>
            simp only [hst] at hc
            injection hc with hc
            subst hc
            simp [collectOut, hm, collectVal, hst]
  | node n0 =>
    -- the index-0 result after the inner to_tree
    cases hos : outStates p0 with
    | error e =>
      -- p0 is a node: outStates succeeds
      simp only [splitOut] at hp0
      cases h1 : mapX (fun x => q.at ⟨x.1, 0, x.2.1⟩) n0 with
      | error e => simp [h1] at hp0
      | ok l =>
        simp only [h1] at hp0
        cases h2 : splitFlat q n0 with
        | error e => simp [h2] at hp0
        | ok sts => simp only [h2] at hp0; injection hp0 with hp0; subst hp0; simp [outStates] at hos
    | ok sts0 =>
      obtain ⟨n, hn, hsp0, hp0', hat0⟩ := splitOut_node hp0 sts0 hos
      injection hn with hn
      subst hn
      subst hp0'
      simp only [vmapCollectOut] at hc
      cases hrows : mapX outStates (PureOut.node q (n0.map (fun x => (x.1, x.2.1))) sts0 :: prest) with
      | error e => simp [hrows] at hc
      | ok rows =>
        simp only [hrows] at hc
        cases hcs : vmapCollectStates q.axes rows with
        | error e => simp [hcs] at hc
        | ok sts =>
          simp only [hcs] at hc
          cases hrb : rebuildNode (n0.map (fun x => (x.1, x.2.1))) sts with
          | error e => simp [hrb] at hc
          | ok fl =>
            simp only [hrb] at hc
            injection hc with hc
            obtain ⟨nodes, hnodes, hrows', hall⟩ := nodes_of_col hsp hrows
            obtain ⟨nd0, ndr, hnd0, _, rfl⟩ := mapX_cons_ok hnodes
            simp only [Out.node?] at hnd0
            injection hnd0 with hnd0
            subst hnd0
            obtain ⟨hnd, hk⟩ := hwf
            have hkeys : ∀ fl ∈ n0 :: ndr, fl.map (fun x => (x.1, x.2.1)) = n0.map (fun x => (x.1, x.2.1)) := by
              intro fl' hfl'
              obtain ⟨o, ho, hof⟩ := mapX_ok_mem_rev hnodes fl' hfl'
              cases o with
              | node n' =>
                simp only [Out.node?] at hof
                injection hof with hof
                subst hof
                exact hk _ ho _ rfl
              | arr a => simp [Out.node?] at hof
              | argRef k => simp [Out.node?] at hof
            have hlk := vmap_collect_lookup hnd hkeys hrows' hcs
            simp only [collectOut, hnodes]
            have : collectNode q (n0 :: ndr) = .ok fl := by
              simp only [collectNode]
              rw [← hrb, rebuildNode, mapX_map]
              apply mapX_congr
              intro x hx
              obtain ⟨a, vs, v, ha, hvs, hv, hl⟩ := hlk x hx
              have hat : q.at ⟨x.1, 0, x.2.1⟩ = .ok a := (prefix_at_eq_axAt q ⟨x.1, 0, x.2.1⟩ a).2 ha
              simp only [hat, hvs, hv, hl]
            subst hc
            simp [this]

end Flax.NnxLoop
