/- C08 proofs: `nnx.scan` — what every iteration is called on (`_scan_split_in` → lax.scan slice → `_scan_merge_in`) -/
import Flax.Proofs.NnxLoopScanRoute

namespace Flax.NnxLoop
open Flax.Filter Flax.LiftLoop

section iter
variable {α : Type} [Inhabited α]

/-! ### inversion of `scanSplitIn` -/

theorem scanSplitIn_arr_ok {store : Store α} {p : Prefix} {a : Arr α} {rest : List (Prefix × Arg α)}
    {np : NodePrefixes} {seen : List VarId} {si : ScanIn α}
    (h : scanSplitIn store ((p, .arr a) :: rest) np seen = .ok si) :
    ∃ ax r, p = .ax ax ∧ scanSplitIn store rest np seen = .ok r ∧
      match ax with
      | .carry => si = { r with pure := .arrCarry a :: r.pure }
      | .bcast => si = { r with pure := .hole :: r.pure, bcastArrays := a :: r.bcastArrays }
      | .axis k => ∃ a', Arr.toFront k a = .ok a' ∧ si = { r with pure := .arrX k a' :: r.pure } := by
  simp only [scanSplitIn] at h
  cases p with
  | sa s => simp at h
  | ax ax =>
    simp only [] at h
    cases hr : scanSplitIn store rest np seen with
    | error e => simp [hr] at h
    | ok r =>
      simp only [hr] at h
      refine ⟨ax, r, rfl, rfl, ?_⟩
      cases ax with
      | carry => simp only [] at h ⊢; injection h with h; exact h.symm
      | bcast => simp only [] at h ⊢; injection h with h; exact h.symm
      | axis k =>
        simp only [] at h ⊢
        cases ht : liftL (Arr.toFront k a) with
        | error e => simp [ht] at h
        | ok a' =>
          simp only [ht] at h
          injection h with h
          exact ⟨a', liftL_ok.1 ht, h.symm⟩

theorem scanSplitIn_node_ok {store : Store α} {p : Prefix} {es : List Entry} {rest : List (Prefix × Arg α)}
    {np : NodePrefixes} {seen : List VarId} {si : ScanIn α}
    (h : scanSplitIn store ((p, .node es) :: rest) np seen = .ok si) :
    ∃ np' flat sts vec car bc r, checkAliasing p es np = .ok np' ∧
      flatOf (ownedOf es (markOwn es seen).1) store = .ok flat ∧ splitFlat p flat = .ok sts ∧
      routeStates true (p.axes.zip sts) = .ok (vec, car, bc) ∧
      scanSplitIn store rest np' (markOwn es seen).2 = .ok r ∧
      si = { pure := .node ⟨es, (markOwn es seen).1⟩ p vec :: r.pure, carryDeque := car :: r.carryDeque,
             bcastDeque := bc :: r.bcastDeque, bcastArrays := r.bcastArrays } := by
  simp only [scanSplitIn] at h
  cases h1 : checkAliasing p es np with
  | error e => simp [h1] at h
  | ok np' =>
    simp only [h1] at h
    cases h2 : flatOf (ownedOf es (markOwn es seen).1) store with
    | error e => simp [h2] at h
    | ok flat =>
      simp only [h2] at h
      cases h3 : splitFlat p flat with
      | error e => simp [h3] at h
      | ok sts =>
        simp only [h3] at h
        cases h4 : routeStates true (p.axes.zip sts) with
        | error e => simp [h4] at h
        | ok vcb =>
          obtain ⟨vec, car, bc⟩ := vcb
          simp only [h4] at h
          cases h5 : scanSplitIn store rest np' (markOwn es seen).2 with
          | error e => simp [h5] at h
          | ok r =>
            simp only [h5] at h
            injection h with h
            exact ⟨np', flat, sts, vec, car, bc, r, rfl, rfl, h3, h4, h5, h.symm⟩

theorem scanSplitArgOut_node_ok {cur : Store α} {g : GraphDef} {p : Prefix} {vec : List (State α)}
    {y : Option (List (State α) × List (State α))} (h : scanSplitArgOut cur (.node g p vec) = .ok y) :
    ∃ flat sts vec' car' bc', flatOf g.owned cur = .ok flat ∧ splitFlat p flat = .ok sts ∧
      routeStates false (p.axes.zip sts) = .ok (vec', car', bc') ∧ y = some (vec', car') := by
  simp only [scanSplitArgOut] at h
  cases h1 : flatOf g.owned cur with
  | error e => simp [h1] at h
  | ok flat =>
    simp only [h1] at h
    cases h2 : splitFlat p flat with
    | error e => simp [h2] at h
    | ok sts =>
      simp only [h2] at h
      cases h3 : routeStates false (p.axes.zip sts) with
      | error e => simp [h3] at h
      | ok vcb =>
        obtain ⟨vec', car', bc'⟩ := vcb
        simp only [h3] at h
        injection h with h
        exact ⟨flat, sts, vec', car', bc', rfl, h2, h3, h.symm⟩

/-! ### S1 -/

/-- **Every iteration is called on the per-Variable values of the Python loop.**  `si` is what `_scan_split_in` made
of the arguments (from the original values `store`), the carry deque is the carry route of the values `cur` the
previous iteration left (`_scan_split_out`), `xs` is slice `i` of the scanned inputs.  `_scan_merge_in` then hands the
traced function, for every reachable Variable once in first-occurrence order: `take(original, i, axis)` if its prefix
gives an axis (`moveaxis(x, axis, 0)` before the loop, leading-axis slice inside: C06 `take_front_eq`), the value the
previous iteration left if `Carry`, the original value if `None`; and the array arguments: slice / carry / broadcast. -/
theorem scan_iteration_sees (store cur : Store α) (i : Nat) (carr : Option (Arr α)) :
    ∀ (pas : List (Prefix × Arg α)) (np : NodePrefixes) (seen : List VarId) (si : ScanIn α) (xs : List (SPure α))
      (parts : List (Option (List (State α) × List (State α)))) (inner : Store α),
      WFArgs pas → scanSplitIn store pas np seen = .ok si → mapX (spureAt i) si.pure = .ok xs →
      mapX (scanSplitArgOut cur) si.pure = .ok parts → inner.map (·.1) = seen →
      ∃ ins arrs, mapX (scanEntryIn store cur i) (ownedAll pas seen) = .ok ins ∧
        mapX (scanArrIn carr i) (arrArgs pas) = .ok arrs ∧
        scanMergeIn xs ((parts.filterMap id).map (·.2)) si.bcastDeque si.bcastArrays carr inner =
          .ok (inner ++ ins, arrs) := by
  intro pas
  induction pas with
  | nil =>
    intro np seen si xs parts inner _ hs hx hp _
    simp only [scanSplitIn] at hs
    injection hs with hs
    subst hs
    simp only [mapX] at hx hp
    injection hx with hx
    injection hp with hp
    subst hx; subst hp
    exact ⟨[], [], rfl, rfl, by simp [scanMergeIn]⟩
  | cons pa rest ih =>
    intro np seen si xs parts inner hwf hs hx hp hinv
    obtain ⟨p, arg⟩ := pa
    cases arg with
    | arr a =>
      obtain ⟨ax, r, rfl, hr, hsi⟩ := scanSplitIn_arr_ok hs
      cases ax with
      | carry =>
        simp only [] at hsi
        subst hsi
        obtain ⟨x, xs', hx0, hxs, rfl⟩ := mapX_cons_ok hx
        obtain ⟨y, ys, hy0, hys, rfl⟩ := mapX_cons_ok hp
        simp only [spureAt] at hx0
        injection hx0 with hx0
        subst hx0
        simp only [scanSplitArgOut] at hy0
        injection hy0 with hy0
        subst hy0
        obtain ⟨ins, arrs, h1, h2, h3⟩ := ih np seen r xs' ys inner (WFArgs_tail hwf) hr hxs hys hinv
        refine ⟨ins, carr.getD a :: arrs, by simpa [ownedAll] using h1, ?_, ?_⟩
        · simp only [arrArgs]
          exact mapX_cons_of_ok (by simp [scanArrIn]) h2
        · simp only [List.filterMap_cons, id, scanMergeIn]
          rw [h3]
      | bcast =>
        simp only [] at hsi
        subst hsi
        obtain ⟨x, xs', hx0, hxs, rfl⟩ := mapX_cons_ok hx
        obtain ⟨y, ys, hy0, hys, rfl⟩ := mapX_cons_ok hp
        simp only [spureAt] at hx0
        injection hx0 with hx0
        subst hx0
        simp only [scanSplitArgOut] at hy0
        injection hy0 with hy0
        subst hy0
        obtain ⟨ins, arrs, h1, h2, h3⟩ := ih np seen r xs' ys inner (WFArgs_tail hwf) hr hxs hys hinv
        refine ⟨ins, a :: arrs, by simpa [ownedAll] using h1, ?_, ?_⟩
        · simp only [arrArgs]
          exact mapX_cons_of_ok (by simp [scanArrIn]) h2
        · simp only [List.filterMap_cons, id, scanMergeIn]
          rw [h3]
      | axis k =>
        simp only [] at hsi
        obtain ⟨a', ha', hsi⟩ := hsi
        subst hsi
        obtain ⟨x, xs', hx0, hxs, rfl⟩ := mapX_cons_ok hx
        obtain ⟨y, ys, hy0, hys, rfl⟩ := mapX_cons_ok hp
        simp only [spureAt] at hx0
        cases htk : liftL (a'.take 0 i) with
        | error e => simp [htk] at hx0
        | ok v =>
          simp only [htk] at hx0
          injection hx0 with hx0
          subst hx0
          simp only [scanSplitArgOut] at hy0
          injection hy0 with hy0
          subst hy0
          obtain ⟨ins, arrs, h1, h2, h3⟩ := ih np seen r xs' ys inner (WFArgs_tail hwf) hr hxs hys hinv
          refine ⟨ins, v :: arrs, by simpa [ownedAll] using h1, ?_, ?_⟩
          · simp only [arrArgs]
            refine mapX_cons_of_ok ?_ h2
            simp only [scanArrIn]
            rw [← take_front_eq a a' k ha' i]
            exact htk
          · simp only [List.filterMap_cons, id, scanMergeIn]
            rw [h3]
    | node es =>
      obtain ⟨np', flatS, stsS, vec, car, bc, r, hca, hflS, hspS, hrS, hr, rfl⟩ := scanSplitIn_node_ok hs
      obtain ⟨x, xs', hx0, hxs, rfl⟩ := mapX_cons_ok hx
      obtain ⟨y, ys, hy0, hys, rfl⟩ := mapX_cons_ok hp
      obtain ⟨flatC, stsC, vec', car', bc', hflC, hspC, hrC, rfl⟩ := scanSplitArgOut_node_ok hy0
      simp only [spureAt] at hx0
      cases hv : mapX (take0State i) vec with
      | error e => simp [hv] at hx0
      | ok veci =>
        simp only [hv] at hx0
        injection hx0 with hx0
        subst hx0
        have hes : (es.map (·.path)).Nodup := hwf (p, .node es) (by simp) es rfl
        have hnd := owned_paths_nodup (markOwn es seen).1 hes
        simp only [GraphDef.owned] at hflC
        have hlk := scan_node_lookup hnd hflS hflC hspS hspC hrS hrC hv
        let w : Entry → Arr α := fun e =>
          match scanEntryIn store cur i (e, p) with
          | .ok iv => iv.2
          | .error _ => default
        have hown : ∀ e ∈ ownedOf es (markOwn es seen).1,
            scanEntryIn store cur i (e, p) = .ok (e.id, w e) ∧
            (veci.flatten ++ car'.flatten ++ bc.flatten).lookup e.path = some (w e) := by
          intro e he
          obtain ⟨a, v, hat, hval, hl⟩ := hlk e he
          have hse : scanEntryIn store cur i (e, p) = .ok (e.id, v) := by
            simp only [scanEntryIn, hat, hval, bindX]
          have hw : w e = v := by simp only [w, hse]
          exact ⟨by rw [hw]; exact hse, by rw [hw]; exact hl⟩
        have hmerge := mergeEntries_markOwn w (veci.flatten ++ car'.flatten ++ bc.flatten) es seen inner hinv
          (fun e he => (hown e he).2)
        have hinv' : (inner ++ (ownedOf es (markOwn es seen).1).map (fun e => (e.id, w e))).map (·.1)
            = (markOwn es seen).2 := by
          rw [markOwn_seen, List.map_append, hinv, List.map_map]; rfl
        obtain ⟨ins, arrs, h1, h2, h3⟩ := ih np' (markOwn es seen).2 r xs' ys _ (WFArgs_tail hwf) hr hxs hys hinv'
        refine ⟨(ownedOf es (markOwn es seen).1).map (fun e => (e.id, w e)) ++ ins, arrs, ?_, ?_, ?_⟩
        · simp only [ownedAll]
          apply mapX_append_of_ok _ h1
          rw [mapX_map]
          exact mapX_eq_map _ (fun e he => (hown e he).1)
        · simpa [arrArgs] using h2
        · simp only [List.filterMap_cons, id, List.map_cons, scanMergeIn, hmerge]
          rw [h3, List.append_assoc]

end iter

end Flax.NnxLoop
