/- C08 proofs: `nnx.vmap` — the converse for the results of the mapped function -/
import Flax.Proofs.NnxLoopVmapComplete

namespace Flax.NnxLoop
open Flax.Filter Flax.LiftLoop

section compout
variable {α : Type} [Inhabited α]

/-- what `collectNode` being defined says about the first node -/
theorem collectNode_item {q : Prefix} {n0 : Flat α} {rest : List (Flat α)} {fl : Flat α}
    (h : collectNode q (n0 :: rest) = .ok fl) :
    ∀ x ∈ n0, ∃ a vs v, q.at ⟨x.1, 0, x.2.1⟩ = .ok a ∧ mapX (fun f => valAt f x.1) (n0 :: rest) = .ok vs ∧
      collectVal a vs = .ok v := by
  intro x hx
  simp only [collectNode] at h
  obtain ⟨y, hy, _⟩ := mapX_ok_mem h x hx
  cases hat : q.at ⟨x.1, 0, x.2.1⟩ with
  | error e => simp [hat] at hy
  | ok a =>
    simp only [hat] at hy
    cases hv : mapX (fun f => valAt f x.1) (n0 :: rest) with
    | error e => simp [hv] at hy
    | ok vs =>
      simp only [hv] at hy
      cases hc : collectVal a vs with
      | error e => simp [hc] at hy
      | ok v => exact ⟨a, vs, v, rfl, rfl, hc⟩

theorem splitOut_node_of {q : Prefix} {n : Flat α} {l : List Ax} {sts : List (State α)}
    (hl : mapX (fun (x : Path × VarInfo × Arr α) => q.at ⟨x.1, 0, x.2.1⟩) n = .ok l) (hs : splitFlat q n = .ok sts) :
    splitOut (q, .node n) = .ok (.node q (n.map (fun x => (x.1, x.2.1))) sts) := by
  simp only [splitOut]
  rw [hl]
  simp only []
  rw [hs]

/-- **the inner `to_tree` of the results does not reject** when the reference can put the results together -/
theorem collectOut_splitOut {q : Prefix} {o0 : Out α} {orest : List (Out α)} {out : Out α}
    (h : collectOut q (o0 :: orest) = .ok out) (hwf : OutColWF (o0 :: orest)) :
    ∀ o ∈ o0 :: orest, ∃ po, splitOut (q, o) = .ok po := by
  cases o0 with
  | argRef k => simp [collectOut] at h
  | arr a0 =>
    simp only [collectOut] at h
    cases q with
    | sa s => simp at h
    | ax a =>
      simp only [] at h
      cases hm : mapX Out.arr? (Out.arr a0 :: orest) with
      | error e => simp [hm] at h
      | ok vs =>
        intro o ho
        obtain ⟨v, hv, _⟩ := mapX_ok_mem hm o ho
        cases o with
        | arr a' => exact ⟨_, rfl⟩
        | node n => simp [Out.arr?] at hv
        | argRef k => simp [Out.arr?] at hv
  | node n0 =>
    simp only [collectOut] at h
    cases hm : mapX Out.node? (Out.node n0 :: orest) with
    | error e => simp [hm] at h
    | ok nodes =>
      simp only [hm] at h
      cases hc : collectNode q nodes with
      | error e => simp [hc] at h
      | ok fl =>
        obtain ⟨nd0, ndr, hnd0, _, rfl⟩ := mapX_cons_ok hm
        simp only [Out.node?] at hnd0
        injection hnd0 with hnd0
        subst hnd0
        have hitem := collectNode_item hc
        obtain ⟨hnd, hk⟩ := hwf
        intro o ho
        obtain ⟨n, hn, _⟩ := mapX_ok_mem hm o ho
        cases o with
        | arr a' => simp [Out.node?] at hn
        | argRef k => simp [Out.node?] at hn
        | node n' =>
          have hkeys := hk _ ho n' rfl
          have hat : ∀ x' ∈ n', ∃ a, q.at ⟨x'.1, 0, x'.2.1⟩ = .ok a := by
            intro x' hx'
            obtain ⟨x, hx, h1, h2⟩ := mem_of_keys (fl := n0) (fl0 := n') hkeys.symm hx'
            obtain ⟨a, _, _, ha, _, _⟩ := hitem x hx
            exact ⟨a, by rw [← h1, ← h2]; exact ha⟩
          obtain ⟨l, hl⟩ := mapX_ok_of_forall (f := fun (x : Path × VarInfo × Arr α) => q.at ⟨x.1, 0, x.2.1⟩) n' hat
          obtain ⟨sts, hsts⟩ := splitFlat_ok_of_at q n' hat
          exact ⟨_, splitOut_node_of hl hsts⟩

/-- **putting result `k` together does not reject** when the reference can -/
theorem vmap_collect_out_complete {q : Prefix} (hqc : q.hasCarry = false) {o0 : Out α} {orest : List (Out α)}
    {p0 : PureOut α} {prest : List (PureOut α)} {out : Out α}
    (hsp : mapX (fun o => splitOut (q, o)) (o0 :: orest) = .ok (p0 :: prest))
    (hwf : OutColWF (o0 :: orest)) (h : collectOut q (o0 :: orest) = .ok out) :
    ∃ out', vmapCollectOut p0 (p0 :: prest) = .ok out' := by
  have harr : mapX outArr (p0 :: prest) = mapX Out.arr? (o0 :: orest) :=
    mapX_through hsp (fun x _ y hy => splitOut_arr hy)
  obtain ⟨y, ys, hp0, _, heq⟩ := mapX_cons_ok hsp
  injection heq with heq1 heq2
  subst heq1
  cases o0 with
  | argRef k => simp [splitOut] at hp0
  | arr a0 =>
    simp only [splitOut] at hp0
    injection hp0 with hp0
    subst hp0
    simp only [collectOut] at h
    cases q with
    | sa s => simp at h
    | ax a =>
      simp only [] at h
      cases hm : mapX Out.arr? (Out.arr a0 :: orest) with
      | error e => simp [hm] at h
      | ok vs =>
        simp only [hm] at h
        obtain ⟨v0, vt, h0, _, rfl⟩ := mapX_cons_ok hm
        simp only [Out.arr?] at h0
        injection h0 with h0
        subst h0
        cases a with
        | carry => simp [collectVal] at h
        | bcast => exact ⟨.arr a0, by simp only [vmapCollectOut, harr, hm]⟩
        | axis k =>
          cases hc : collectVal (.axis k) (a0 :: vt) with
          | error e => simp [hc] at h
          | ok v =>
            simp only [collectVal] at hc
            exact ⟨.arr v, by simp only [vmapCollectOut, harr, hm, hc]⟩
  | node n0 =>
    simp only [collectOut] at h
    cases hm : mapX Out.node? (Out.node n0 :: orest) with
    | error e => simp [hm] at h
    | ok nodes =>
      simp only [hm] at h
      cases hc : collectNode q nodes with
      | error e => simp [hc] at h
      | ok fl =>
        obtain ⟨nd0, ndr, hnd0, _, rfl⟩ := mapX_cons_ok hm
        simp only [Out.node?] at hnd0
        injection hnd0 with hnd0
        subst hnd0
        obtain ⟨hnd, hk⟩ := hwf
        -- every element of the column is a node after to_tree
        have hst : ∀ po ∈ p0 :: prest, ∃ sts, outStates po = .ok sts := by
          intro po hpo
          obtain ⟨o, ho, hso⟩ := mapX_ok_mem_rev hsp po hpo
          obtain ⟨n, hn, _⟩ := mapX_ok_mem hm o ho
          cases o with
          | arr a' => simp [Out.node?] at hn
          | argRef k => simp [Out.node?] at hn
          | node n' =>
            simp only [splitOut] at hso
            cases h1 : mapX (fun x => q.at ⟨x.1, 0, x.2.1⟩) n' with
            | error e => simp [h1] at hso
            | ok l =>
              simp only [h1] at hso
              cases h2 : splitFlat q n' with
              | error e => simp [h2] at hso
              | ok sts => simp only [h2] at hso; injection hso with hso; subst hso; exact ⟨sts, rfl⟩
        obtain ⟨rows, hrows⟩ := mapX_ok_of_forall (f := outStates) (p0 :: prest) hst
        obtain ⟨nodes', hnodes', hrows', _⟩ := nodes_of_col hsp hrows
        rw [hm] at hnodes'
        injection hnodes' with hnodes'
        subst hnodes'
        have hkeys : ∀ fl' ∈ n0 :: ndr, fl'.map (fun x => (x.1, x.2.1)) = n0.map (fun x => (x.1, x.2.1)) := by
          intro fl' hfl'
          obtain ⟨o, ho, hof⟩ := mapX_ok_mem_rev hm fl' hfl'
          cases o with
          | node n' =>
            simp only [Out.node?] at hof
            injection hof with hof
            subst hof
            exact hk _ ho _ rfl
          | arr a => simp [Out.node?] at hof
          | argRef k => simp [Out.node?] at hof
        have hitem : ∀ x ∈ n0, ∃ a vs v, axAt q x.1 x.2.1 = some a ∧
            mapX (fun f => valAt f x.1) (n0 :: ndr) = .ok vs ∧ collectVal a vs = .ok v := by
          intro x hx
          obtain ⟨a, vs, v, ha, hvs, hv⟩ := collectNode_item hc x hx
          exact ⟨a, vs, v, (prefix_at_eq_axAt q ⟨x.1, 0, x.2.1⟩ a).1 ha, hvs, hv⟩
        obtain ⟨cs, hcs⟩ := vmapCollectStates_complete (no_carry_axes hqc) hnd hkeys hrows' hitem
        have hlk := vmap_collect_lookup hnd hkeys hrows' hcs
        -- p0 is the node with n0's keys
        obtain ⟨sts0, hsts0⟩ := hst p0 (by simp)
        obtain ⟨n, hn, _, hp0', _⟩ := splitOut_node hp0 sts0 hsts0
        injection hn with hn
        subst hn
        subst hp0'
        have hrb : ∃ fl', rebuildNode (n0.map (fun x => (x.1, x.2.1))) cs = .ok fl' := by
          simp only [rebuildNode, mapX_map]
          apply mapX_ok_of_forall
          intro x hx
          obtain ⟨_, _, v, _, _, _, hl⟩ := hlk x hx
          exact ⟨(x.1, x.2.1, v), by simp only [hl]⟩
        obtain ⟨fl', hfl'⟩ := hrb
        exact ⟨.node fl', by simp only [vmapCollectOut, hrows, hcs, hfl']⟩

end compout

end Flax.NnxLoop
