/-
Helper lemmas for C18: ToLinen simulates plain NNX use of the wrapped module over call histories.
-/
import Flax.Proofs.BridgeHier

namespace Flax.Bridge
variable {α ι ο γ : Type}

/-! ## the reference: an NNX user -/

/-- plain NNX use: the user holds graph definition and state -/
structure NnxUser (α γ : Type) where
  gdef : γ
  state : Forest (NVar α)

/-- the collection a Variable belongs to is mutable -/
def mutableVar (r : Reg) (isMutable : String → Bool) (v : NVar α) : Bool :=
  match r.nameOf v.vtype with
  | some c => isMutable c
  | none => false

/-- the state a Linen-style caller ends up with when only some collections are mutable: Variables of
mutable collections take their new value, the others keep the old one -/
def keepMutable (r : Reg) (isMutable : String → Bool) (S S' : Forest (NVar α)) : Except Err (Forest (NVar α)) := do
  let f ← unflatten ((flattenF S').filter fun pv => mutableVar r isMutable pv.2)
  recursiveMerge S f

def NnxUser.step (m : NnxMod α ι ο γ) (r : Reg) (scopePath : Path) (u : NnxUser α γ) (rngs : Keys)
    (isMutable : String → Bool) (x : ι) : Except Err (ο × NnxUser α γ) := do
  let (out, g', S') ← m.call u.gdef (m.reseed u.state (linenRngsDict scopePath rngs)) x
  let S2 ← keepMutable r isMutable u.state S'
  pure (out, ⟨if isMutable "nnx" then g' else u.gdef, S2⟩)

/-- no Variable type is named `nnx` (that collection holds the graph definition) -/
def NoNnx (r : Reg) (S : Forest (NVar α)) : Prop :=
  ∀ q v, leafAtF S q = some v → r.nameOf v.vtype ≠ some "nnx"

/-- what the refinement needs from the abstract NNX module -/
structure NModOk (m : NnxMod α ι ο γ) : Prop where
  /-- reseed-and-call reads the state through look-ups only: on states with the same Variables it fails
  or succeeds alike, with the same output and graph definition and new states with the same Variables -/
  ext : ∀ g S S' ks x, WFF S → WFF S' → Equiv S S' →
    ∀ o g' T', m.call g (m.reseed S' ks) x = .ok (o, g', T') →
      ∃ T, m.call g (m.reseed S ks) x = .ok (o, g', T) ∧ Equiv T T'
  /-- a call keeps the set of Variables and their types (new structure would need a mutable `nnx`
  collection *and* shows up as a new graph definition; values and graph definition are free) -/
  shape : ∀ r g S ks x o g' S', AttrsOk r S → m.call g (m.reseed S ks) x = .ok (o, g', S') →
    AttrsOk r S' ∧ ∀ q, (leafAtF S' q).map (·.vtype) = (leafAtF S q).map (·.vtype)

/-- the Linen collections `V` expose the NNX state `S`: at `c :: q` sits the Linen form of the Variable
at `q` whose type is named `c`, and nothing else -/
structure Exposes (r : Reg) (V : Forest (LBox α)) (S : Forest (NVar α)) : Prop where
  wf : WFF V
  ne : NoEmptyF V
  leaf : ∀ p x, leafAtF V p = some x ↔
    ∃ c q v, p = c :: q ∧ leafAtF S q = some v ∧ r.nameOf v.vtype = some c ∧ toLinenVar v = .ok x

/-- the Linen caller and the NNX user are in step -/
structure LSim (r : Reg) (lv : LinenVars α γ) (u : NnxUser α γ) : Prop where
  inj : r.Inj
  bounded : r.Bounded
  gdef : lv.gdef = some u.gdef
  attrs : AttrsOk r u.state
  nonnx : NoNnx r u.state
  exposes : Exposes r lv.vars u.state

theorem conv_of_attrs (r : Reg) (S : Forest (NVar α)) (hS : AttrsOk r S) (q : Path) (v : NVar α)
    (hl : leafAtF S q = some v) :
    ∃ n x, r.nameOf v.vtype = some n ∧ toLinenVar v = .ok x ∧ toNnxVarWith v.vtype x = .ok v := by
  obtain ⟨n, hn⟩ := hS.named q v hl
  obtain ⟨x, hx, _, hback⟩ := var_roundtrip_aux v (hS.canon q v hl)
  exact ⟨n, x, hn, hx, hback⟩

/-- the apply path rebuilds, from collections that expose `S`, a state with the Variables of `S` -/
theorem decode_of_exposes (r : Reg) (hi : r.Inj) (hb : r.Bounded) (V : Forest (LBox α)) (S : Forest (NVar α))
    (hS : AttrsOk r S) (hnn : NoNnx r S) (hE : Exposes r V S) :
    ∃ S0, decodeVars r V = .ok (r, S0) ∧ WFF S0 ∧ Equiv S0 S := by
  obtain ⟨hVok, hreg⟩ := varsOk_of_attrs r hi S hS V hE.wf hE.ne hE.leaf
  obtain ⟨r', S0, hdec, _, _, _, hsame, hw0, hleaf0⟩ := decodeVars_spec r hi hb V hVok
  have hr : r' = r := hsame hreg
  subst hr
  refine ⟨S0, hdec, hw0, ?_⟩
  intro q
  cases hq : leafAtF S q with
  | some v =>
    obtain ⟨n, x, hn, hx, hback⟩ := conv_of_attrs r' S hS q v hq
    exact (hleaf0 q v).mpr ⟨n, x, v.vtype, fun e => hnn q v hq (e ▸ hn),
      (hE.leaf _ x).mpr ⟨n, q, v, rfl, hq, hn, hx⟩, Reg.typeOf_of_nameOf r' hi n _ hn, hback⟩
  | none =>
    cases hq' : leafAtF S0 q with
    | none => rfl
    | some v' =>
      obtain ⟨c, x, t, _, hl, _, _⟩ := (hleaf0 q v').mp hq'
      obtain ⟨c', q', v, hp, hl', _⟩ := (hE.leaf _ x).mp hl
      simp only [List.cons.injEq] at hp
      rw [← hp.2, hq] at hl'; cases hl'

theorem sameTypes_some (S S' : Forest (NVar α))
    (h : ∀ q, (leafAtF S' q).map (·.vtype) = (leafAtF S q).map (·.vtype)) (q : Path) :
    (∀ v', leafAtF S' q = some v' → ∃ v, leafAtF S q = some v ∧ v.vtype = v'.vtype) ∧
    (leafAtF S' q = none → leafAtF S q = none) ∧ (leafAtF S q = none → leafAtF S' q = none) := by
  have := h q
  refine ⟨?_, ?_, ?_⟩
  · intro v' hv'
    rw [hv'] at this
    cases hs : leafAtF S q with
    | none => rw [hs] at this; simp at this
    | some v => rw [hs] at this; simp at this; exact ⟨v, rfl, this.symm⟩
  · intro hn; rw [hn] at this
    cases hs : leafAtF S q with
    | none => rfl
    | some v => rw [hs] at this; simp at this
  · intro hn; rw [hn] at this
    cases hs : leafAtF S' q with
    | none => rfl
    | some v => rw [hs] at this; simp at this

/-- `keepMutable`, leaf by leaf -/
theorem keepMutable_spec (r : Reg) (isMutable : String → Bool) (S S' : Forest (NVar α)) (hw : WFF S) (hw' : WFF S')
    (hsame : ∀ q, (leafAtF S' q).map (·.vtype) = (leafAtF S q).map (·.vtype)) :
    ∃ S2, keepMutable r isMutable S S' = .ok S2 ∧ WFF S2 ∧
      ∀ q, leafAtF S2 q = match leafAtF S' q with
        | some v' => if mutableVar r isMutable v' then some v' else leafAtF S q
        | none => leafAtF S q := by
  obtain ⟨fl, hfl⟩ : ∃ fl, fl = (flattenF S').filter fun pv => mutableVar r isMutable pv.2 := ⟨_, rfl⟩
  have hmem : ∀ q v, (q, v) ∈ fl ↔ leafAtF S' q = some v ∧ mutableVar r isMutable v = true := by
    intro q v; rw [hfl, List.mem_filter, flattenF_mem S' hw']
  obtain ⟨F, hF, hFleaf, hFw, _⟩ := unflatten_spec fl
    (by intro pb hpb; exact flattenF_path_ne_nil S' pb (by rw [hfl] at hpb; exact (List.mem_filter.mp hpb).1))
    (by
      intro pb hpb pb' hpb' hp
      rw [hfl] at hpb hpb'
      exact flattenF_prefixFree S' hw' pb (List.mem_filter.mp hpb).1 pb' (List.mem_filter.mp hpb').1 hp)
    (functional_of_nodup _ (List.Pairwise.sublist (List.Sublist.map _ (hfl ▸ List.filter_sublist))
      (flattenF_nodup S' hw')))
  obtain ⟨S2, hS2, hleaf2, hw2, _⟩ := recursiveMerge_spec S F hw hFw (by
    intro q q' h1 h2 hp
    cases hq' : leafAtF F q' with
    | none => exact absurd hq' h2
    | some v' =>
      have h' := ((hFleaf q' v').mp hq' |> (hmem q' v').mp).1
      obtain ⟨v, hv, _⟩ := (sameTypes_some S S' hsame q').1 v' h'
      rcases hp with hp | hp
      · exact leafAtF_prefix_eq S q q' h1 (by simp [hv]) hp
      · exact (leafAtF_prefix_eq S q' q (by simp [hv]) h1 hp).symm)
  refine ⟨S2, ?_, hw2, ?_⟩
  · simp only [keepMutable, ← hfl, hF, bind, Except.bind]; exact hS2
  · intro q
    rw [hleaf2 q]
    cases hq' : leafAtF S' q with
    | none =>
      have : leafAtF F q = none := by
        cases hf : leafAtF F q with
        | none => rfl
        | some w => have := ((hmem q w).mp ((hFleaf q w).mp hf)).1; rw [hq'] at this; cases this
      simp [this]
    | some v' =>
      by_cases hm : mutableVar r isMutable v' = true
      · have : leafAtF F q = some v' := (hFleaf q v').mpr ((hmem q v').mpr ⟨hq', hm⟩)
        simp [this, hm]
      · have : leafAtF F q = none := by
          cases hf : leafAtF F q with
          | none => rfl
          | some w =>
            have h1 := (hmem q w).mp ((hFleaf q w).mp hf)
            rw [hq'] at h1; cases h1.1; exact absurd h1.2 hm
        simp [this, hm]

/-- **one `apply` + fold of the Linen caller against one call of the NNX user** -/
theorem lstep_sim (m : NnxMod α ι ο γ) (hm : NModOk m) (r : Reg) (scopePath : Path) (lv : LinenVars α γ)
    (u : NnxUser α γ) (hsim : LSim r lv u) (rngs : Keys) (isMutable : String → Bool) (x : ι) (o : ο)
    (u' : NnxUser α γ) (h : u.step m r scopePath rngs isMutable x = .ok (o, u')) :
    ∃ lv', lv.step m r scopePath rngs isMutable x = .ok (o, r, lv') ∧ LSim r lv' u' := by
  have hS := hsim.attrs
  obtain ⟨S0, hdec, hw0, hequiv⟩ := decode_of_exposes r hsim.inj hsim.bounded lv.vars u.state hS hsim.nonnx hsim.exposes
  simp only [NnxUser.step, bind_ok] at h
  obtain ⟨⟨o1, g', S'⟩, hcall, S2, hkeep, h⟩ := h
  simp only [pure, Except.pure, Except.ok.injEq, Prod.mk.injEq] at h
  obtain ⟨rfl, rfl⟩ := h
  obtain ⟨T0, hcall0, hT⟩ := hm.ext u.gdef S0 u.state _ x hw0 hS.wf hequiv o1 g' S' hcall
  have hS0 : AttrsOk r S0 :=
    ⟨hw0, fun q v hl => hS.canon q v (by rw [← hequiv q]; exact hl),
      fun q v hl => hS.named q v (by rw [← hequiv q]; exact hl)⟩
  obtain ⟨hT0, _⟩ := hm.shape r u.gdef S0 _ x o1 g' T0 hS0 hcall0
  obtain ⟨hS', hsame⟩ := hm.shape r u.gdef u.state _ x o1 g' S' hS hcall
  -- what `_update_variables` writes
  obtain ⟨upd, hupd, hwupd, _, hleafupd0⟩ := encodeState_spec r isMutable T0 hT0.wf (by
    intro q v hl
    obtain ⟨n, x', hn, hx, _⟩ := conv_of_attrs r T0 hT0 q v hl
    exact ⟨n, x', hn, hx⟩)
  have hleafupd : ∀ p x', leafAtF upd p = some x' ↔
      ∃ c q v, p = c :: q ∧ leafAtF S' q = some v ∧ r.nameOf v.vtype = some c ∧ toLinenVar v = .ok x' ∧
        isMutable c = true := by
    intro p x'
    rw [hleafupd0]
    constructor
    · rintro ⟨c, q, v, a, b, c'⟩; exact ⟨c, q, v, a, by rw [← hT q]; exact b, c'⟩
    · rintro ⟨c, q, v, a, b, c'⟩; exact ⟨c, q, v, a, by rw [hT q]; exact b, c'⟩
  -- the reference state
  obtain ⟨S2', hkeep', hw2, hleaf2⟩ := keepMutable_spec r isMutable u.state S' hS.wf hS'.wf hsame
  rw [hkeep] at hkeep'; cases hkeep'
  -- the caller's fold
  obtain ⟨V2, hV2, hleafV2, hwV2, hnV2⟩ := recursiveMerge_spec lv.vars upd hsim.exposes.wf hwupd (by
    intro p p' h1 h2 hp
    cases hp1 : leafAtF lv.vars p with
    | none => exact absurd hp1 h1
    | some x1 =>
      cases hp2 : leafAtF upd p' with
      | none => exact absurd hp2 h2
      | some x2 =>
        obtain ⟨c, q, v, rfl, hl, _⟩ := (hsim.exposes.leaf p x1).mp hp1
        obtain ⟨c', q', v', rfl, hl', _⟩ := (hleafupd p' x2).mp hp2
        obtain ⟨w, hw, _⟩ := (sameTypes_some u.state S' hsame q').1 v' hl'
        rcases hp with hp | hp <;> rw [List.cons_prefix_cons] at hp
        · rw [hp.1, leafAtF_prefix_eq u.state q q' (by simp [hl]) (by simp [hw]) hp.2]
        · rw [hp.1, leafAtF_prefix_eq u.state q' q (by simp [hw]) (by simp [hl]) hp.2])
  refine ⟨⟨if isMutable "nnx" then some g' else lv.gdef, V2⟩, ?_, ?_⟩
  · simp only [LinenVars.step, toLinenApply, hsim.gdef, hdec, hcall0, hupd, hV2, bind, Except.bind, pure, Except.pure]
    by_cases hnn : isMutable "nnx" = true <;> simp [hnn]
  · have hS2 : AttrsOk r S2 := by
      refine ⟨hw2, ?_, ?_⟩
      · intro q v hl
        rw [hleaf2 q] at hl
        cases hq' : leafAtF S' q with
        | none => rw [hq'] at hl; exact hS.canon q v hl
        | some v' =>
          rw [hq'] at hl
          by_cases hmm : mutableVar r isMutable v' = true
          · simp only [hmm, ↓reduceIte, Option.some.injEq] at hl; subst hl; exact hS'.canon q _ hq'
          · simp only [hmm, Bool.false_eq_true, ↓reduceIte] at hl; exact hS.canon q v hl
      · intro q v hl
        rw [hleaf2 q] at hl
        cases hq' : leafAtF S' q with
        | none => rw [hq'] at hl; exact hS.named q v hl
        | some v' =>
          rw [hq'] at hl
          by_cases hmm : mutableVar r isMutable v' = true
          · simp only [hmm, ↓reduceIte, Option.some.injEq] at hl; subst hl; exact hS'.named q _ hq'
          · simp only [hmm, Bool.false_eq_true, ↓reduceIte] at hl; exact hS.named q v hl
    have hnn2 : NoNnx r S2 := by
      intro q v hl
      rw [hleaf2 q] at hl
      cases hq' : leafAtF S' q with
      | none => rw [hq'] at hl; exact hsim.nonnx q v hl
      | some v' =>
        rw [hq'] at hl
        by_cases hmm : mutableVar r isMutable v' = true
        · simp only [hmm, ↓reduceIte, Option.some.injEq] at hl; subst hl
          obtain ⟨w, hw, ht⟩ := (sameTypes_some u.state S' hsame q).1 _ hq'
          rw [← ht]; exact hsim.nonnx q w hw
        · simp only [hmm, Bool.false_eq_true, ↓reduceIte] at hl; exact hsim.nonnx q v hl
    refine ⟨hsim.inj, hsim.bounded, ?_, hS2, hnn2, hwV2, hnV2, ?_⟩
    · by_cases hnn : isMutable "nnx" = true <;> simp [hnn, hsim.gdef]
    · intro p x'
      rw [hleafV2 p]
      cases p with
      | nil =>
        constructor
        · intro h; simp at h
        · rintro ⟨c, q, v, hp, _⟩; cases hp
      | cons c q =>
        -- the Variable at q, before and after
        cases hq' : leafAtF S' q with
        | none =>
          have hq : leafAtF u.state q = none := (sameTypes_some u.state S' hsame q).2.1 hq'
          have h1 : leafAtF upd (c :: q) = none := by
            cases hu : leafAtF upd (c :: q) with
            | none => rfl
            | some y =>
              obtain ⟨c', q', v', hp, hl', _⟩ := (hleafupd _ y).mp hu
              simp only [List.cons.injEq] at hp
              rw [← hp.2, hq'] at hl'; cases hl'
          have h2 : leafAtF lv.vars (c :: q) = none := by
            cases hu : leafAtF lv.vars (c :: q) with
            | none => rfl
            | some y =>
              obtain ⟨c', q', v', hp, hl', _⟩ := (hsim.exposes.leaf _ y).mp hu
              simp only [List.cons.injEq] at hp
              rw [← hp.2, hq] at hl'; cases hl'
          rw [h1, h2]
          constructor
          · intro h; simp at h
          · rintro ⟨c', q', v, hp, hl, _⟩
            simp only [List.cons.injEq] at hp
            rw [← hp.2, hleaf2 q, hq', hq] at hl; cases hl
        | some v' =>
          obtain ⟨v, hv, ht⟩ := (sameTypes_some u.state S' hsame q).1 v' hq'
          obtain ⟨n, y, hn, hy, _⟩ := conv_of_attrs r u.state hS q v hv
          obtain ⟨n', y', hn', hy', _⟩ := conv_of_attrs r S' hS' q v' hq'
          have hnn' : n' = n := by rw [← ht, hn] at hn'; exact (Option.some.inj hn').symm
          subst hnn'
          have hmv : mutableVar r isMutable v' = isMutable n' := by simp [mutableVar, hn']
          have hS2q : leafAtF S2 q = if isMutable n' then some v' else some v := by
            simp only [hleaf2 q, hq', hmv, hv]
          by_cases hm : isMutable n' = true
          · -- the collection is mutable: the update wins
            rw [hm] at hS2q; simp only [↓reduceIte] at hS2q
            by_cases hc : c = n'
            · subst hc
              have : leafAtF upd (c :: q) = some y' := (hleafupd _ y').mpr ⟨c, q, v', rfl, hq', hn', hy', hm⟩
              rw [this]; simp only [Option.some_or, Option.some.injEq]
              constructor
              · intro e; exact ⟨c, q, v', rfl, hS2q, hn', e ▸ hy'⟩
              · rintro ⟨c', q', w, hp, hl, _, hx⟩
                simp only [List.cons.injEq] at hp
                rw [← hp.2, hS2q] at hl; cases hl
                rw [hy'] at hx; exact Except.ok.inj hx
            · have h1 : leafAtF upd (c :: q) = none := by
                cases hu : leafAtF upd (c :: q) with
                | none => rfl
                | some z =>
                  obtain ⟨c', q', w, hp, hl', hnw, _⟩ := (hleafupd _ z).mp hu
                  simp only [List.cons.injEq] at hp
                  rw [← hp.2, hq'] at hl'; cases hl'
                  rw [hn'] at hnw; exact absurd (hp.1.trans (Option.some.inj hnw).symm) hc
              have h2 : leafAtF lv.vars (c :: q) = none := by
                cases hu : leafAtF lv.vars (c :: q) with
                | none => rfl
                | some z =>
                  obtain ⟨c', q', w, hp, hl', hnw, _⟩ := (hsim.exposes.leaf _ z).mp hu
                  simp only [List.cons.injEq] at hp
                  rw [← hp.2, hv] at hl'; cases hl'
                  rw [hn] at hnw; exact absurd (hp.1.trans (Option.some.inj hnw).symm) hc
              rw [h1, h2]
              constructor
              · intro h; simp at h
              · rintro ⟨c', q', w, hp, hl, hnw, _⟩
                simp only [List.cons.injEq] at hp
                rw [← hp.2, hS2q] at hl; cases hl
                rw [hn'] at hnw; exact absurd (hp.1.trans (Option.some.inj hnw).symm) hc
          · -- not mutable: nothing is written at q, the old exposure stays
            have hm' : isMutable n' = false := by simpa using hm
            rw [hm'] at hS2q; simp only [Bool.false_eq_true, ↓reduceIte] at hS2q
            have h1 : leafAtF upd (c :: q) = none := by
              cases hu : leafAtF upd (c :: q) with
              | none => rfl
              | some z =>
                obtain ⟨c', q', w, hp, hl', hnw, _, hmw⟩ := (hleafupd _ z).mp hu
                simp only [List.cons.injEq] at hp
                rw [← hp.2, hq'] at hl'; cases hl'
                rw [hn'] at hnw; rw [← Option.some.inj hnw] at hmw; exact absurd hmw hm
            rw [h1]; simp only [Option.none_or]
            rw [hsim.exposes.leaf]
            constructor
            · rintro ⟨c', q', w, hp, hl, hnw, hx⟩
              simp only [List.cons.injEq] at hp
              obtain ⟨rfl, rfl⟩ := hp
              rw [hv] at hl; cases hl
              exact ⟨_, _, _, rfl, hS2q, hnw, hx⟩
            · rintro ⟨c', q', w, hp, hl, hnw, hx⟩
              simp only [List.cons.injEq] at hp
              obtain ⟨rfl, rfl⟩ := hp
              rw [hS2q] at hl; cases hl
              exact ⟨_, _, _, rfl, hv, hnw, hx⟩

/-! ### histories -/

abbrev LCall (ι : Type) := Keys × (String → Bool) × ι

def runLinenCaller (m : NnxMod α ι ο γ) (r : Reg) (scopePath : Path) :
    LinenVars α γ → List (LCall ι) → Except Err (List ο × LinenVars α γ)
  | lv, [] => .ok ([], lv)
  | lv, (rngs, mu, x) :: rest => do
      let (o, _, lv') ← lv.step m r scopePath rngs mu x
      let (os, lv'') ← runLinenCaller m r scopePath lv' rest
      pure (o :: os, lv'')

def runNnxUser (m : NnxMod α ι ο γ) (r : Reg) (scopePath : Path) :
    NnxUser α γ → List (LCall ι) → Except Err (List ο × NnxUser α γ)
  | u, [] => .ok ([], u)
  | u, (rngs, mu, x) :: rest => do
      let (o, u') ← u.step m r scopePath rngs mu x
      let (os, u'') ← runNnxUser m r scopePath u' rest
      pure (o :: os, u'')

theorem lrun_sim (m : NnxMod α ι ο γ) (hm : NModOk m) (r : Reg) (scopePath : Path) :
    ∀ (hist : List (LCall ι)) (lv : LinenVars α γ) (u : NnxUser α γ), LSim r lv u →
    ∀ outs u', runNnxUser m r scopePath u hist = .ok (outs, u') →
    ∃ lv', runLinenCaller m r scopePath lv hist = .ok (outs, lv') ∧ LSim r lv' u' := by
  intro hist
  induction hist with
  | nil =>
    intro lv u hsim outs u' h
    simp only [runNnxUser, Except.ok.injEq, Prod.mk.injEq] at h
    obtain ⟨rfl, rfl⟩ := h
    exact ⟨lv, rfl, hsim⟩
  | cons hd rest ih =>
    intro lv u hsim outs u' h
    obtain ⟨rngs, mu, x⟩ := hd
    simp only [runNnxUser, bind_ok, pure, Except.pure, Except.ok.injEq, Prod.mk.injEq] at h
    obtain ⟨⟨o, u1⟩, hstep, ⟨os, u2⟩, hrest, rfl, rfl⟩ := h
    obtain ⟨lv1, hlv1, hsim1⟩ := lstep_sim m hm r scopePath lv u hsim rngs mu x o u1 hstep
    obtain ⟨lv2, hlv2, hsim2⟩ := ih lv1 u1 hsim1 os u2 hrest
    exact ⟨lv2, by simp [runLinenCaller, hlv1, hlv2, bind, Except.bind, pure, Except.pure], hsim2⟩

/-- **`init`** of a ToLinen module: returns what the freshly constructed NNX module returns, and leaves
the caller in step with an NNX user who holds the freshly constructed module -/
theorem linit_sim (m : NnxMod α ι ο γ) (r : Reg) (hi : r.Inj) (hb : r.Bounded) (scopePath : Path) (rngs : Keys)
    (x : ι) (g : γ) (S : Forest (NVar α)) (hc : m.construct (linenRngsDict scopePath rngs) = .ok (g, S))
    (hS : AttrsOk r S) (hnn : NoNnx r S) (o : ο) (g' : γ) (S' : Forest (NVar α))
    (hcall : m.call g S x = .ok (o, g', S')) :
    ∃ lv, toLinenInit m r scopePath rngs x = .ok (o, r, lv) ∧ LSim r lv ⟨g, S⟩ := by
  obtain ⟨V, hV, hwV, hnV, hleafV⟩ := encodeState_spec r (fun _ => true) S hS.wf (by
    intro q v hl
    obtain ⟨n, x', hn, hx, _⟩ := conv_of_attrs r S hS q v hl
    exact ⟨n, x', hn, hx⟩)
  refine ⟨⟨some g, V⟩, ?_, hi, hb, rfl, hS, hnn, hwV, hnV, ?_⟩
  · simp only [toLinenInit, hc, hV, hcall, bind, Except.bind, pure, Except.pure]
  · intro p x'; rw [hleafV]; simp

end Flax.Bridge
