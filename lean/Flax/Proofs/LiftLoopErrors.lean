/- C06: where the errors of the scan / vmap model come from.  flax's own errors (inconsistent lengths, length
   unspecified, broadcast data dependency, unmapped output variables) are raised at fixed places; everything
   else is JAX's (A-SCAN / A-VMAP / A-CONV), a structure check of the model, or the body's. -/
import Flax.Proofs.LiftLoopGroup

set_option linter.unusedSimpArgs false
set_option linter.unusedSectionVars false

namespace Flax.LiftLoop
open Flax.Filter
variable {α : Type} [Inhabited α]

/-- not one of the errors that flax's lift.scan / lift.vmap / pack raise themselves -/
def Err.foreign : Err → Bool
  | .inconsistentLengths => false
  | .lengthUnspecified => false
  | .broadcastDependency => false
  | .unmappedOutput => false
  | .broadcastOutUnsupported => false
  | _ => true

/-- the body raises only its own errors (flax's `ModifyScopeVariableError`, `ScopeCollectionNotFound`, … are
`.body tag` here), never one of the transform's -/
def BodyForeign (body : Body α) : Prop :=
  ∀ m v r c xs e, body m v r c xs = .error e → e.foreign = true

theorem bind_err {β γ : Type} {x : Except Err β} {f : β → Except Err γ} {e : Err} (h : (x >>= f) = .error e) :
    x = .error e ∨ ∃ v, x = .ok v ∧ f v = .error e := by
  cases x with
  | error e' => left; simpa [bind, Except.bind] using h
  | ok v => right; exact ⟨v, rfl, by simpa [bind, Except.bind] using h⟩

theorem map_err {β γ : Type} {x : Except Err β} {f : β → γ} {e : Err} (h : x.map f = .error e) :
    x = .error e := by
  cases x with
  | error e' => simpa [Except.map] using h
  | ok v => simp [Except.map] at h

theorem mapE_err {β γ : Type} {f : β → Except Err γ} (P : Err → Prop) (hf : ∀ x e, f x = .error e → P e) :
    ∀ (l : List β) (e : Err), mapE f l = .error e → P e := by
  intro l
  induction l with
  | nil => intro e h; simp [mapE] at h
  | cons x xs ih =>
    intro e h
    simp only [mapE] at h
    cases hx : f x with
    | error e' => rw [hx] at h; injection h with h; subst h; exact hf x e' hx
    | ok y =>
      rw [hx] at h
      cases hr : mapE f xs with
      | error e' => rw [hr] at h; injection h with h; subst h; exact ih e' hr
      | ok ys => rw [hr] at h; cases h

theorem foldE_err {β σ : Type} {f : σ → β → Except Err σ} (P : Err → Prop) (hf : ∀ s x e, f s x = .error e → P e) :
    ∀ (l : List β) (s : σ) (e : Err), foldE f s l = .error e → P e := by
  intro l
  induction l with
  | nil => intro s e h; simp [foldE] at h
  | cons x xs ih =>
    intro s e h
    simp only [foldE] at h
    cases hx : f s x with
    | error e' => rw [hx] at h; injection h with h; subst h; exact hf s x e' hx
    | ok s' => rw [hx] at h; exact ih s' e h

abbrev F (e : Err) : Prop := e.foreign = true

theorem canonPerm_err {r : Nat} {p : List Int} {e : Err} (h : canonPerm r p = .error e) : F e := by
  unfold canonPerm at h
  split at h
  · injection h with h; subst h; rfl
  · split at h
    · cases h
    · injection h with h; subst h; rfl

theorem toFront_err {a : Arr α} {ax : Int} {e : Err} (h : a.toFront ax = .error e) : F e := by
  unfold Arr.toFront at h
  split at h
  · cases h
  · rcases bind_err h with h1 | ⟨p, _, h2⟩
    · unfold toFrontPerm at h1
      split at h1
      · injection h1 with h1; subst h1; rfl
      · cases h1
    · rcases bind_err h2 with h3 | ⟨q, _, h4⟩
      · exact canonPerm_err h3
      · cases h4

theorem fromFront_err {a : Arr α} {ax : Int} {e : Err} (h : a.fromFront ax = .error e) : F e := by
  unfold Arr.fromFront at h
  split at h
  · cases h
  · rcases bind_err h with h1 | ⟨p, _, h2⟩
    · unfold fromFrontPerm at h1
      simp only at h1
      by_cases hc : (if ax < 0 then (a.rank : Int) + ax else ax) < (a.rank : Int)
      · rw [if_pos hc] at h1; cases h1
      · rw [if_neg hc] at h1; injection h1 with h1; subst h1; rfl
    · rcases bind_err h2 with h3 | ⟨q, _, h4⟩
      · exact canonPerm_err h3
      · cases h4

theorem take_err {a : Arr α} {n i : Nat} {e : Err} (h : a.take n i = .error e) : F e := by
  unfold Arr.take at h
  split at h
  · injection h with h; subst h; rfl
  · split at h
    · cases h
    · injection h with h; subst h; rfl

theorem stack_err {sh : List Nat} {n : Nat} {ls : List (Arr α)} {e : Err} (h : Arr.stack sh n ls = .error e) :
    F e := by
  unfold Arr.stack at h
  split at h
  · cases h
  · injection h with h; subst h; rfl

theorem stackFront_err {ax : Int} {sh : List Nat} {ls : List (Arr α)} {e : Err}
    (h : stackFront ax sh ls = .error e) : F e := by
  unfold stackFront at h
  rcases bind_err h with h1 | ⟨S, _, h2⟩
  · exact stack_err h1
  · exact fromFront_err h2

theorem stackAt_err {ax : Int} {sh : List Nat} {ls : List (Arr α)} {e : Err}
    (h : stackAt ax sh ls = .error e) : F e := by
  unfold stackAt at h
  split at h
  · exact stack_err h
  · injection h with h; subst h; rfl

theorem takeAt_err {ax : Int} {i : Nat} {a : Arr α} {e : Err} (h : takeAt ax i a = .error e) : F e := by
  unfold takeAt at h
  split at h
  · exact take_err h
  · injection h with h; subst h; rfl

theorem leadDim_err {a : Arr α} {e : Err} (h : leadDim a = .error e) : F e := by
  unfold leadDim at h
  split at h
  · injection h with h; subst h; rfl
  · cases h

theorem shapeAt_err {a : Arr α} {ax : Int} {e : Err} (h : shapeAt a ax = .error e) : F e := by
  unfold shapeAt at h
  split at h
  · injection h with h; subst h; rfl
  · cases h

theorem onSnd_err {κ β γ : Type} {f : β → Except Err γ} (hf : ∀ x e, f x = .error e → F e) {p : κ × β} {e : Err}
    (h : onSnd f p = .error e) : F e := by
  unfold onSnd at h
  cases hx : f p.2 with
  | error e' => rw [hx] at h; injection h with h; subst h; exact hf _ _ hx
  | ok b => rw [hx] at h; cases h

theorem Vars.mapE_err {f : Arr α → Except Err (Arr α)} (hf : ∀ x e, f x = .error e → F e) {v : Vars α} {e : Err}
    (h : Vars.mapE f v = .error e) : F e :=
  LiftLoop.mapE_err F (fun _ _ hp => onSnd_err (fun c e' hc => LiftLoop.mapE_err F (fun _ _ hq => onSnd_err hf hq) c e' hc) hp) v e h

theorem rngAt_err {i : Nat} {g : RngG} {e : Err} (h : RngG.at i g = .error e) : F e := by
  cases g with
  | whole g => cases h
  | rows g =>
    refine mapE_err F ?_ g e h
    intro sk e' hs
    split at hs
    · cases hs
    · injection hs with hs; subst hs; rfl

theorem jaxLength_err {L : Option Nat} {dims : List Nat} {e : Err} (h : jaxLength L dims = .error e) : F e := by
  unfold jaxLength at h
  split at h
  · split at h
    · cases h
    · injection h with h; subst h; rfl
  · split at h
    · injection h with h; subst h; rfl
    · split at h
      · cases h
      · injection h with h; subst h; rfl

theorem expand_err {t : AxesTree} {k : Nat} {e : Err} (h : t.expand k = .error e) : F e := by
  unfold AxesTree.expand at h
  split at h
  · cases h
  · split at h
    · cases h
    · injection h with h; subst h; rfl

theorem pick_err {β : Type} {k : Nat} {o : List β} {e : Err} (h : pick k o = .error e) : F e := by
  unfold pick at h
  split at h
  · cases h
  · injection h with h; subst h; rfl

theorem pickKey_err {β : Type} {k : String} {d : List (String × β)} {e : Err} (h : pickKey k d = .error e) : F e := by
  unfold pickKey at h
  split at h
  · cases h
  · injection h with h; subst h; rfl

theorem stackList_err {stk : List Nat → List (Arr α) → Except Err (Arr α)}
    (hs : ∀ sh ls e, stk sh ls = .error e → F e) {k : Nat} {outs : List (List (Arr α))} {e : Err}
    (h : stackList stk k outs = .error e) : F e := by
  unfold stackList at h
  split at h
  · injection h with h; subst h; rfl
  · rcases bind_err h with h1 | ⟨a0, _, h2⟩
    · exact pick_err h1
    · rcases bind_err h2 with h3 | ⟨ls, _, h4⟩
      · exact mapE_err F (fun _ _ hp => pick_err hp) _ _ h3
      · exact hs _ _ _ h4

theorem stackCols_err {stk : List Nat → List (Arr α) → Except Err (Arr α)}
    (hs : ∀ sh ls e, stk sh ls = .error e → F e) {cs : List (Col α)} {e : Err}
    (h : stackCols stk cs = .error e) : F e := by
  unfold stackCols at h
  split at h
  · injection h with h; subst h; rfl
  · split at h
    · refine mapE_err F ?_ _ _ h
      intro nv e' hn
      rcases bind_err hn with h1 | ⟨ls, _, h2⟩
      · exact mapE_err F (fun _ _ hp => pickKey_err hp) _ _ h1
      · rcases bind_err h2 with h3 | ⟨a, _, h4⟩
        · exact hs _ _ _ h3
        · cases h4
    · injection h with h; subst h; rfl

theorem stackVars_err {stk : List Nat → List (Arr α) → Except Err (Arr α)}
    (hs : ∀ sh ls e, stk sh ls = .error e → F e) {vs : List (Vars α)} {e : Err}
    (h : stackVars stk vs = .error e) : F e := by
  unfold stackVars at h
  split at h
  · injection h with h; subst h; rfl
  · split at h
    · refine mapE_err F ?_ _ _ h
      intro cc e' hn
      rcases bind_err hn with h1 | ⟨cs, _, h2⟩
      · exact mapE_err F (fun _ _ hp => pickKey_err hp) _ _ h1
      · rcases bind_err h2 with h3 | ⟨c, _, h4⟩
        · exact stackCols_err hs h3
        · cases h4
    · injection h with h; subst h; rfl

theorem collectOuts_err {stk : Int → List Nat → List (Arr α) → Except Err (Arr α)}
    (hs : ∀ ax sh ls e, stk ax sh ls = .error e → F e) {oy : List (Option Int)} {ov : List Int}
    {consts : List (Arr α)} {outs : List (List (Arr α) × List (Vars α))} {e : Err}
    (h : collectOuts stk oy ov consts outs = .error e) : F e := by
  unfold collectOuts at h
  rcases bind_err h with h1 | ⟨ys, _, h2⟩
  · refine mapE_err F ?_ _ _ h1
    intro p e' hp
    unfold collectY at hp
    split at hp
    · exact stackList_err (hs _) hp
    · split at hp
      · cases hp
      · injection hp with hp; subst hp; rfl
  · rcases bind_err h2 with h3 | ⟨sv, _, h4⟩
    · exact mapE_err F (fun p e' hp => stackVars_err (hs _) hp) _ _ h3
    · cases h4

/-- a call of the lifted body fails only with the body's own error: `repack_fn` never finds unmapped
collections in a scope built with the inner mutability filter -/
theorem scanned_err (m : LFilter) (outFs : List LFilter) (body : Body α) (hb : BodyForeign body)
    {b : Vars α} {c : Vars α × List (Arr α)} {sv : List (Vars α)} {rg : List Rngs} {xs : List (Arr α)} {e : Err}
    (h : scanned (innerMutable m outFs) outFs body b c sv rg xs = .error e) : F e := by
  unfold scanned at h
  rcases bind_err h with h1 | ⟨r, _, h2⟩
  · exact hb _ _ _ _ _ _ h1
  · rw [repack_eq] at h2
    simp [bind, Except.bind, pure, Except.pure] at h2

theorem xsAt_err {xs : ScanXs α} {i : Nat} {e : Err} (h : xs.at i = .error e) : F e := by
  unfold ScanXs.at at h
  rcases bind_err h with h1 | ⟨sv, _, h2⟩
  · exact mapE_err F (fun v e' hv => Vars.mapE_err (fun a e'' ha => take_err ha) hv) _ _ h1
  · rcases bind_err h2 with h3 | ⟨rg, _, h4⟩
    · exact mapE_err F (fun g e' hg => rngAt_err hg) _ _ h3
    · rcases bind_err h4 with h5 | ⟨as, _, h6⟩
      · refine mapE_err F ?_ _ _ h5
        intro p e' hp
        unfold argTake0 at hp
        split at hp
        · exact take_err hp
        · cases hp
      · cases h6

theorem prepXs_err {iv : List Int} {ia : List (Option Int)} {svs : List (Vars α)} {rngs : List RngG}
    {args : List (Arr α)} {e : Err} (h : prepXs iv ia svs rngs args = .error e) : F e := by
  unfold prepXs at h
  rcases bind_err h with h1 | ⟨sv, _, h2⟩
  · exact mapE_err F (fun p e' hp => Vars.mapE_err (fun a e'' ha => toFront_err ha) hp) _ _ h1
  · rcases bind_err h2 with h3 | ⟨as, _, h4⟩
    · refine mapE_err F ?_ _ _ h3
      intro p e' hp
      unfold argToFront at hp
      split at hp
      · exact toFront_err (map_err hp)
      · cases hp
    · cases h4

theorem dims_err {xs : ScanXs α} {e : Err} (h : xs.dims = .error e) : F e := by
  unfold ScanXs.dims at h
  rcases bind_err h with h1 | ⟨d1, _, h2⟩
  · exact mapE_err F (fun g e' hg => mapE_err F (fun a e'' ha => leadDim_err ha) _ _ hg) _ _ h1
  · rcases bind_err h2 with h3 | ⟨d3, _, h4⟩
    · refine mapE_err F ?_ _ _ h3
      intro p e' hp
      unfold argLeadDim at hp
      split at hp
      · exact leadDim_err (map_err hp)
      · cases hp
    · cases h4

theorem laxScan_err {σ χ ω : Type} {n : Nat} {rev : Bool} {xsAt : Nat → Except Err χ}
    {f : σ → χ → Except Err (σ × ω)} {same : σ → σ → Bool} {init : σ}
    (hx : ∀ i e, xsAt i = .error e → F e) (hf : ∀ s x e, f s x = .error e → F e) {e : Err}
    (h : laxScan n rev xsAt f same init = .error e) : F e := by
  unfold laxScan at h
  rcases bind_err h with h1 | ⟨r, _, h2⟩
  · refine foldE_err F ?_ _ _ _ h1
    intro st i e' hs
    unfold laxStep at hs
    rcases bind_err hs with h3 | ⟨x, _, h4⟩
    · exact hx _ _ h3
    · rcases bind_err h4 with h5 | ⟨r, _, h6⟩
      · exact hf _ _ _ h5
      · split at h6
        · cases h6
        · injection h6 with h6; subst h6; rfl
  · cases h2


theorem axesLoop_err {rev : Bool} {oy : List (Option Int)} {ov : List Int} {xs : ScanXs α} {fn : ScanFn α}
    (hfn : ∀ b c sv rg as e, fn b c sv rg as = .error e → F e) {init : Vars α × List (Arr α)}
    {r0 : StepOut α} {n : Nat} {e : Err} (h : axesLoop rev oy ov xs fn init r0 n = .error e) : F e := by
  unfold axesLoop at h
  rcases bind_err h with h1 | ⟨res, _, h2⟩
  · refine laxScan_err (fun i e' hi => xsAt_err hi) ?_ h1
    intro s x e' hs
    unfold scanBody at hs
    rcases bind_err hs with h3 | ⟨r, _, h4⟩
    · exact hfn _ _ _ _ _ _ h3
    · cases h4
  · rcases bind_err h2 with h3 | ⟨out, _, h4⟩
    · exact collectOuts_err (fun ax sh ls e' hs => stackFront_err hs) h3
    · cases h4

/-- the only error of `axes_scan.scan` that is flax's own is the broadcast-dependency rejection, raised exactly
when the constancy check says no after the broadcast pass itself went through -/
theorem axesScanTail_err {rev verdict : Bool} {oA : AxesTree} {ov : List Int} {fn : ScanFn α}
    (hfn : ∀ b c sv rg as e, fn b c sv rg as = .error e → F e) {bIn : Vars α}
    {init : Vars α × List (Arr α)} {xs : ScanXs α} {nE : Except Err Nat} (hnE : ∀ e, nE = .error e → F e)
    {i0 : Nat} {e : Err} (h : axesScanTail rev verdict false oA ov fn bIn init xs nE i0 = .error e) :
    F e ∨ (e = .broadcastDependency ∧ verdict = false ∧
      ∃ r, axesScanTail rev verdict true oA ov fn bIn init xs nE i0 = .ok r) := by
  unfold axesScanTail at h ⊢
  rcases bind_err h with h1 | ⟨x0, hx0, h2⟩
  · exact Or.inl (xsAt_err h1)
  · rcases bind_err h2 with h3 | ⟨r0, hr0, h4⟩
    · exact Or.inl (hfn _ _ _ _ _ _ h3)
    · rcases bind_err h4 with h5 | ⟨oy, hoy, h6⟩
      · exact Or.inl (expand_err h5)
      · simp only [Bool.false_eq_true, if_false] at h6
        cases verdict with
        | false =>
          right
          simp [throw, throwThe, MonadExceptOf.throw] at h6
          refine ⟨h6.symm, rfl, ?_⟩
          simp [hx0, hr0, hoy, bind, Except.bind, pure, Except.pure]
        | true =>
          left
          simp only [Bool.not_true, Bool.false_eq_true, if_false] at h6
          rcases bind_err h6 with h7 | ⟨n, _, h8⟩
          · exact hnE _ h7
          · split at h8
            · simp [throw, throwThe, MonadExceptOf.throw] at h8; subst h8; rfl
            · exact axesLoop_err hfn h8

theorem axesScan_err {L : Option Nat} {rev verdict : Bool} {iv : List Int} {ia : List (Option Int)}
    {oA : AxesTree} {ov : List Int} {fn : ScanFn α}
    (hfn : ∀ b c sv rg as e, fn b c sv rg as = .error e → F e) {bIn : Vars α}
    {init : Vars α × List (Arr α)} {svs : List (Vars α)} {rngs : List RngG} {args : List (Arr α)} {e : Err}
    (h : axesScan true L rev verdict false iv ia oA ov fn bIn init svs rngs args = .error e) :
    F e ∨ (e = .broadcastDependency ∧ verdict = false ∧
      ∃ r, axesScan true L rev verdict true iv ia oA ov fn bIn init svs rngs args = .ok r) := by
  unfold axesScan at h ⊢
  simp only [Bool.not_true, Bool.false_eq_true, if_false] at h ⊢
  rcases bind_err h with h1 | ⟨xs, hxs, h2⟩
  · exact Or.inl (prepXs_err h1)
  · have hnE : ∀ e, (xs.dims >>= jaxLength L) = .error e → F e := by
      intro e' he
      rcases bind_err he with h3 | ⟨d, _, h4⟩
      · exact dims_err h3
      · exact jaxLength_err h4
    rcases axesScanTail_err hfn hnE h2 with hF | ⟨he, hv, r, hr⟩
    · exact Or.inl hF
    · exact Or.inr ⟨he, hv, r, by rw [hxs]; exact hr⟩

theorem argSizes_err {t : AxesTree} {args : List (Arr α)} {e : Err} (h : argSizes t args = .error e) : F e := by
  unfold argSizes at h
  split at h
  · cases h
  · split at h
    · cases h
    · exact shapeAt_err (map_err h)
  · split at h
    · refine mapE_err F ?_ _ _ (map_err h)
      intro p e' hp
      unfold argSizeOpt at hp
      split at hp
      · cases hp
      · exact shapeAt_err (map_err hp)
    · injection h with h; subst h; rfl

theorem decideLength_err {L : Option Nat} {sizes : List Nat} {e : Err} (h : decideLength L sizes = .error e) :
    e = .inconsistentLengths ∨ e = .lengthUnspecified := by
  unfold decideLength at h
  split at h
  · cases h
  · injection h with h; exact Or.inl h.symm
  · injection h with h; exact Or.inr h.symm
  · cases h

/-- **every error of `lift.scan`, classified**: either it is flax's own length error, raised before anything
else from the sizes read off the arguments; or flax's broadcast-dependency rejection, raised exactly when the
constancy check fails after a successful broadcast pass; or it is foreign (JAX's, a structure check's, the
body's).  `unmapped output variables` cannot occur. -/
theorem liftScan_err (cfg : ScanCfg) (hcc : cfg.checkConst = true) (verdict : Bool) (body : Body α)
    (hb : BodyForeign body) (m : LFilter)
    (outer : Vars α) (rngs : Rngs) (init args : List (Arr α)) (e : Err)
    (h : liftScan cfg verdict body m outer rngs init args = .error e) :
    (∃ sizes, argSizes cfg.inAxes args = .ok sizes ∧ decideLength cfg.length sizes = .error e ∧
        (e = .inconsistentLengths ∨ e = .lengthUnspecified)) ∨
    (e = .broadcastDependency ∧ verdict = false ∧
        ∃ r, liftScanCore cfg verdict true body m outer rngs init args = .ok r) ∨
    e.foreign = true := by
  unfold liftScan liftScanCore at h
  unfold liftScanCore
  rw [hcc] at h ⊢
  rcases bind_err h with h1 | ⟨sizes, hs, h2⟩
  · exact Or.inr (Or.inr (argSizes_err h1))
  · rcases bind_err h2 with h3 | ⟨d, hd, h4⟩
    · exact Or.inl ⟨sizes, hs, h3, decideLength_err h3⟩
    · rcases bind_err h4 with h5 | ⟨ia, hia, h6⟩
      · exact Or.inr (Or.inr (expand_err h5))
      · rcases bind_err h6 with h7 | ⟨r, _, h8⟩
        · rcases axesScan_err (fun b c sv rg as e' hf => scanned_err m cfg.outFs body hb hf) h7 with
            hF | ⟨he, hv, r, hr⟩
          · exact Or.inr (Or.inr hF)
          · refine Or.inr (Or.inl ⟨he, hv,
              { vars := publish m outer (r.1 :: r.2.1.1 :: r.2.2.2), carry := r.2.1.2, ys := r.2.2.1 }, ?_⟩)
            rw [hs]
            show (decideLength cfg.length sizes >>= _) = _
            rw [hd]
            show (cfg.inAxes.expand args.length >>= _) = _
            rw [hia]
            show (axesScan _ _ _ _ _ _ _ _ _ _ _ _ _ _ _ >>= _) = _
            rw [hr]
            rfl
        · cases h8


/-- a successful broadcast pass followed by a failing constancy check is the broadcast-dependency error -/
theorem axesScanTail_reject {rev : Bool} {oA : AxesTree} {ov : List Int} {fn : ScanFn α} {bIn : Vars α}
    {init : Vars α × List (Arr α)} {xs : ScanXs α} {nE : Except Err Nat} {i0 : Nat} {r : StepOut α}
    (h : axesScanTail rev false true oA ov fn bIn init xs nE i0 = .ok r) :
    axesScanTail rev false false oA ov fn bIn init xs nE i0 = .error .broadcastDependency := by
  unfold axesScanTail at h ⊢
  cases hx0 : xs.at i0 with
  | error e => simp [hx0, bind, Except.bind] at h
  | ok x0 =>
    cases hr0 : fn bIn init x0.1 x0.2.1 x0.2.2 with
    | error e => simp [hx0, hr0, bind, Except.bind] at h
    | ok r0 =>
      cases ho : oA.expand r0.2.2.1.length with
      | error e => simp [hx0, hr0, ho, bind, Except.bind] at h
      | ok oy => simp [hr0, ho, bind, Except.bind, throw, throwThe, MonadExceptOf.throw]

theorem bind_ok {β γ : Type} {x : Except Err β} {f : β → Except Err γ} {r : γ} (h : (x >>= f) = .ok r) :
    ∃ v, x = .ok v ∧ f v = .ok r := by
  cases x with
  | error e => simp [bind, Except.bind] at h
  | ok v => exact ⟨v, rfl, by simpa [bind, Except.bind] using h⟩

theorem axesScan_reject {L : Option Nat} {rev : Bool} {iv : List Int} {ia : List (Option Int)}
    {oA : AxesTree} {ov : List Int} {fn : ScanFn α} {bIn : Vars α} {init : Vars α × List (Arr α)}
    {svs : List (Vars α)} {rngs : List RngG} {args : List (Arr α)} {r : StepOut α}
    (h : axesScan true L rev false true iv ia oA ov fn bIn init svs rngs args = .ok r) :
    axesScan true L rev false false iv ia oA ov fn bIn init svs rngs args = .error .broadcastDependency := by
  unfold axesScan at h ⊢
  simp only [Bool.not_true, Bool.false_eq_true, if_false] at h ⊢
  obtain ⟨xs, hxs, ht⟩ := bind_ok h
  rw [hxs]
  exact axesScanTail_reject ht

theorem liftScan_reject (cfg : ScanCfg) (hcc : cfg.checkConst = true) (body : Body α) (m : LFilter) (outer : Vars α) (rngs : Rngs)
    (init args : List (Arr α)) (r : Result α)
    (h : liftScanCore cfg false true body m outer rngs init args = .ok r) :
    liftScan cfg false body m outer rngs init args = .error .broadcastDependency := by
  unfold liftScan
  unfold liftScanCore at h ⊢
  rw [hcc] at h ⊢
  obtain ⟨sizes, hs, h2⟩ := bind_ok h
  obtain ⟨d, hd, h3⟩ := bind_ok h2
  obtain ⟨ia, hia, h4⟩ := bind_ok h3
  obtain ⟨r', hr, _⟩ := bind_ok h4
  rw [hs]
  show (decideLength cfg.length sizes >>= _) = _
  rw [hd]
  show (cfg.inAxes.expand args.length >>= _) = _
  rw [hia]
  show (axesScan _ _ _ _ _ _ _ _ _ _ _ _ _ _ _ >>= _) = _
  rw [axesScan_reject hr]
  rfl

/-! ### vmap -/

theorem vmapCall_err (m : LFilter) (outFs : List LFilter) (body : Body α) (hb : BodyForeign body)
    {iv : List (Option Int)} {groups : List (Vars α)} {ra : List RngG} {ia : List (Option Int)}
    {args : List (Arr α)} {i : Nat} {e : Err}
    (h : vmapCall (innerMutable m outFs) outFs body iv groups ra ia args i = .error e) : F e := by
  unfold vmapCall at h
  rcases bind_err h with h1 | ⟨sv, _, h2⟩
  · refine mapE_err F ?_ _ _ h1
    intro p e' hp
    unfold groupTakeAt at hp
    split at hp
    · exact Vars.mapE_err (fun a e'' ha => takeAt_err ha) hp
    · cases hp
  · rcases bind_err h2 with h3 | ⟨rg, _, h4⟩
    · exact mapE_err F (fun g e' hg => rngAt_err hg) _ _ h3
    · rcases bind_err h4 with h5 | ⟨as, _, h6⟩
      · refine mapE_err F ?_ _ _ h5
        intro p e' hp
        unfold argTakeAt at hp
        split at hp
        · exact takeAt_err hp
        · cases hp
      · rcases bind_err h6 with h7 | ⟨r, _, h8⟩
        · exact hb _ _ _ _ _ _ h7
        · rw [repack_eq] at h8
          simp [bind, Except.bind, pure, Except.pure] at h8

theorem vmapSizes_err {iv : List (Option Int)} {groups : List (Vars α)} {t : AxesTree} {args : List (Arr α)}
    {e : Err} (h : vmapSizes iv groups t args = .error e) : F e := by
  unfold vmapSizes at h
  rcases bind_err h with h1 | ⟨l1, _, h2⟩
  · refine mapE_err F ?_ _ _ h1
    intro p e' hp
    unfold groupSizeOpt at hp
    split at hp
    · exact shapeAt_err (map_err hp)
    · cases hp
  · rcases bind_err h2 with h3 | ⟨l2, _, h4⟩
    · exact argSizes_err h3
    · cases h4

theorem vmapDims_err {iv : List (Option Int)} {groups : List (Vars α)} {ra : List RngG}
    {ia : List (Option Int)} {args : List (Arr α)} {e : Err} (h : vmapDims iv groups ra ia args = .error e) :
    F e := by
  unfold vmapDims at h
  rcases bind_err h with h1 | ⟨d1, _, h2⟩
  · refine mapE_err F ?_ _ _ h1
    intro p e' hp
    unfold groupDimAt at hp
    split at hp
    · exact mapE_err F (fun a e'' ha => shapeAt_err ha) _ _ hp
    · cases hp
  · rcases bind_err h2 with h3 | ⟨d3, _, h4⟩
    · refine mapE_err F ?_ _ _ h3
      intro p e' hp
      unfold argDimAt at hp
      split at hp
      · exact shapeAt_err (map_err hp)
      · cases hp
    · cases h4

/-- **every error of `lift.vmap`, classified**: flax's own ('Inconsistent batch axis sizes', 'axis_size should
be specified manually') come from the sizes `find_axis_size` reads, before anything else; all others are
foreign (JAX's in/out-axes checks including the unbatched-output check, a structure check's, the body's);
`unmapped output variables` cannot occur -/
theorem liftVmap_err (cfg : VmapCfg) (verdict : Bool) (body : Body α) (hb : BodyForeign body) (m : LFilter)
    (outer : Vars α) (rngs : Rngs) (args : List (Arr α)) (e : Err)
    (h : liftVmap cfg verdict body m outer rngs args = .error e) :
    (∃ sizes, vmapSizes (cfg.inAx.map (·.axis)) (groupDict outer (cfg.inAx.map (·.filter))) cfg.inAxes args
        = .ok sizes ∧ decideLength cfg.axisSize sizes = .error e ∧
        (e = .inconsistentLengths ∨ e = .lengthUnspecified)) ∨
    e.foreign = true := by
  unfold liftVmap at h
  rcases bind_err h with h1 | ⟨sizes, hs, h2⟩
  · exact Or.inr (vmapSizes_err h1)
  · rcases bind_err h2 with h3 | ⟨d, _, h4⟩
    · exact Or.inl ⟨sizes, hs, h3, decideLength_err h3⟩
    · right
      rcases bind_err h4 with h5 | ⟨ia, _, h6⟩
      · exact expand_err h5
      · rcases bind_err h6 with h7 | ⟨dims, _, h8⟩
        · exact vmapDims_err h7
        · rcases bind_err h8 with h9 | ⟨n, _, h10⟩
          · exact jaxLength_err h9
          · rcases bind_err h10 with h11 | ⟨outs, _, h12⟩
            · exact mapE_err F (fun i e' hi => vmapCall_err m _ body hb hi) _ _ h11
            · split at h12
              · simp [throw, throwThe, MonadExceptOf.throw] at h12; subst h12; rfl
              · rcases bind_err h12 with h13 | ⟨oy, _, h14⟩
                · exact expand_err h13
                · split at h14
                  · simp [throw, throwThe, MonadExceptOf.throw] at h14; subst h14; rfl
                  · rcases bind_err h14 with h15 | ⟨ys, _, h16⟩
                    · refine mapE_err F ?_ _ _ h15
                      intro p e' hp
                      unfold vmapY at hp
                      split at hp
                      · exact stackList_err (fun sh ls e'' hs' => stackAt_err hs') hp
                      · split at hp
                        · cases hp
                        · injection hp with hp; subst hp; rfl
                    · rcases bind_err h16 with h17 | ⟨sv, _, h18⟩
                      · refine mapE_err F ?_ _ _ h17
                        intro p e' hp
                        unfold vmapV at hp
                        split at hp
                        · exact stackVars_err (fun sh ls e'' hs' => stackAt_err hs') hp
                        · cases hp
                      · cases h18

end Flax.LiftLoop
