/-
C04 helper lemmas (7): loops.  One application of the traced body to the carried pure value corresponds to one
eager application of the body to the caller's objects: the carried leaves stay the flattening of the caller-side
heap, with the SAME graphdef and the SAME `ref_index` (that is what the structure check of `fori_loop` /
`while_loop` enforces).  By induction on the trip count the final carry is the flattening of the unrolled loop's
heap, and the outer merge writes it back into the caller's own objects.
-/
import Flax.Proofs.NnxCanon

namespace Flax.Nnx
open Flax.Heap Flax.Graph

theorem valsRel_arrays {φ : Addr → Option Addr} : ∀ {pre : List PVal}, (∀ v ∈ pre, ∃ d, v = PVal.array d) → ValsRel φ pre pre
  | [], _ => .nil
  | v :: rest, h => by
    obtain ⟨d, rfl⟩ := h v (by simp)
    exact .cons (.array d) (valsRel_arrays (fun w hw => h w (List.mem_cons_of_mem _ hw)))

/-- what a successful traced body application went through -/
theorem bodyPure_inv {f : Fn} {pre : List PVal} {gds : List GDef} {lss lss' : List (List Leaf)}
    (hb : bodyPure f pre gds lss = .ok lss') :
    ∃ args' G ir rets' G3 gds3 fss3 idx3,
      unflattenRootsO (fun _ => Option.none) (gds.map (stampWith (fun _ => Option.none))) lss [] [] = .ok (args', G, ir) ∧
      runFn f G (pre ++ args') = .ok (rets', G3) ∧
      flattenRoots G3 rets' [] = .ok (gds3, fss3, idx3) ∧
      gds3.map (stampWith (tblOf idx3 ir)) = gds.map (stampWith (fun i => some i)) ∧
      lss' = fss3.map (convLeaves false) := by
  unfold bodyPure at hb
  split at hb
  · cases hb
  · next gdsO lssO hpr =>
    split at hb
    · next hchk =>
      simp at hb; subst hb
      unfold pureRun at hpr
      split at hpr
      · cases hpr
      · next args' G ir hu =>
        split at hpr
        · cases hpr
        · next rets' G3 hrun =>
          simp only [Bool.false_eq_true, if_false, List.nil_append] at hpr
          split at hpr
          · cases hpr
          · next gds3 fss3 idx3 hf3 =>
            simp at hpr
            obtain ⟨rfl, rfl⟩ := hpr
            exact ⟨args', G, ir, rets', G3, gds3, fss3, idx3, hu, hrun, hf3, hchk, rfl⟩
    · cases hb

/-- **one iteration**: the traced body on the carried pure value is the eager body on the caller-side heap -/
theorem body_step {f : Fn} {pre : List PVal} (hpre : ∀ v ∈ pre, ∃ d, v = PVal.array d)
    {h : Heap} {vals : List PVal} {gds : List GDef} {fss : List FlatState} {idx1 : RefIndex}
    (hf : FlatRoots h vals [] gds fss idx1) (nh : AttrsNodup h)
    {rets : List PVal} {h2 : Heap} (he : runFn f h (pre ++ vals) = .ok (rets, h2))
    {lss' : List (List Leaf)} (hb : bodyPure f pre gds (fss.map (convLeaves false)) = .ok lss') :
    ∃ fss', FlatRoots h2 rets [] gds fss' idx1 ∧ lss' = fss'.map (convLeaves false) ∧ AttrsNodup h2 ∧ KindPres h h2 := by
  obtain ⟨args', G, ir, rets', G3, gds3, fss3, idx3, hu, hrun, hf3, hchk, rfl⟩ := bodyPure_inv hb
  obtain ⟨args'', G', ir', hu', Gd2, R2, hargs, hlt1, hnG⟩ := inner_copyF false hf
  rw [hu] at hu'
  simp at hu'
  obtain ⟨rfl, rfl, rfl⟩ := hu'
  have hcs := runFn_sim f R2 (valsRel_append (valsRel_arrays hpre) hargs)
  rw [he, hrun] at hcs
  rcases hcs with ⟨e, h1, _⟩ | ⟨rets0, h20, rets0', G30, φ', e1, e2, R3, hrets, hle, hold, hnew, hlen⟩
  · cases h1
  simp at e1 e2
  obtain ⟨rfl, rfl⟩ := e1
  obtain ⟨rfl, rfl⟩ := e2
  have nh2 := runFn_nodup nh he
  have nG3 := runFn_nodup (hnG nh) hrun
  -- the structure check pins the graphdef and the stamps
  have hgd : gds3 = gds := stamp_inj_defs hchk
  subst hgd
  have hF3 := flatRoots_of_flattenRoots G3 rets' [] gds3 fss3 idx3 hf3
  have hstamp := stampRoots_eq_on gds3 hchk
  obtain ⟨_, hd3⟩ := flatRoots_defIdx hF3
  obtain ⟨_, hd1⟩ := flatRoots_defIdx hf
  simp only [List.length_nil, Nat.sub_zero] at hd3 hd1
  have hlen31 : idx3.length = idx1.length := by
    have := congrArg List.length (hd3.symm.trans hd1)
    simpa using this
  -- the caller-side heap flattens to the same pure value
  obtain ⟨idxE, hFE, hrel⟩ := flatRoots_iso R3 nh2 nG3 hF3 hrets .nil
  have hidx : idxE = idx1 := by
    apply List.ext_getElem?
    intro i
    by_cases hi : i < idx1.length
    · have hiE : i < idxE.length := by rw [idxRel_length hrel, hlen31]; exact hi
      obtain ⟨b, hb3, hab⟩ := idxRel_get hrel i idxE[i] (List.getElem?_eq_getElem hiE)
      have hmem : i ∈ defIdxRoots gds3 := by rw [hd3]; simp [List.mem_range']; omega
      have ht := hstamp i hmem
      simp only [tblOf, hb3, Option.bind_some] at ht
      have hlook := (irInv_some ht).1
      have hphi : phi idx1 ir idx1[i] = some b := by
        simp only [phi, indexOf?_of_getElem? Gd2.nodup (List.getElem?_eq_getElem hi), hlook]
      have := R3.inj idxE[i] idx1[i] b hab (hle _ _ hphi)
      rw [List.getElem?_eq_getElem hiE, List.getElem?_eq_getElem hi, this]
    · have hiE : ¬ i < idxE.length := by rw [idxRel_length hrel, hlen31]; exact hi
      rw [List.getElem?_eq_none (by omega), List.getElem?_eq_none (by omega)]
  subst hidx
  exact ⟨fss3, hFE, rfl, nh2, runFn_kind he⟩

/-- **fori_loop, by induction on the trip count**: the carried leaves after `n` iterations are the flattening of
the heap of the `n` times unrolled Python loop, with unchanged graphdef and `ref_index` -/
theorem fori_invariant (f : Fn) (gds : List GDef) (idx1 : RefIndex) : ∀ (n : Nat) (i : Int) (h : Heap) (vals : List PVal)
    (fss : List FlatState) (lssN : List (List Leaf)) (valsE : List PVal) (hE : Heap),
    FlatRoots h vals [] gds fss idx1 → AttrsNodup h →
    foriIter f gds n i (fss.map (convLeaves false)) = .ok lssN → foriEager f n i h vals = .ok (valsE, hE) →
    ∃ fssE, FlatRoots hE valsE [] gds fssE idx1 ∧ lssN = fssE.map (convLeaves false) ∧ AttrsNodup hE ∧ KindPres h hE
  | 0, i, h, vals, fss, lssN, valsE, hE, hf, nh, hi, he => by
    simp [foriIter] at hi; simp [foriEager] at he
    obtain ⟨rfl, rfl⟩ := he
    exact ⟨fss, hf, hi.symm, nh, KindPres.refl _⟩
  | n + 1, i, h, vals, fss, lssN, valsE, hE, hf, nh, hi, he => by
    simp only [foriIter] at hi
    simp only [foriEager] at he
    split at hi
    · cases hi
    · next lss1 hb =>
      split at he
      · cases he
      · next vals1 h1 hr =>
        obtain ⟨fss1, hf1, rfl, nh1, k1⟩ :=
          body_step (pre := [.array (wrap32 i)]) (fun v hv => ⟨_, by simpa using hv⟩) hf nh (by simpa using hr) hb
        obtain ⟨fssE, hfE, e, nhE, kE⟩ := fori_invariant f gds idx1 n (i + 1) h1 vals1 fss1 lssN valsE hE hf1 nh1 hi he
        exact ⟨fssE, hfE, e, nhE, k1.trans kE⟩

/-! ### the outer merge of a loop writes the final carry into the caller's own objects -/

/-- re-use for the final merge of a loop: every object registered by the outer split is its own target -/
def selfReuse (idx1 : RefIndex) : Addr → Option Addr := fun a => if a ∈ idx1 then some a else Option.none

/-- **final merge**: if the final carry is the flattening of the heap `hE` (same graphdef, same `ref_index` as the
outer split of `h`), then `step4` succeeds and rebuilds `hE`'s reachable part inside the caller's own objects:
the address map is the identity -/
theorem loop_final {h hE : Heap} {valsE : List PVal} {gds : List GDef} {fssE : List FlatState} {idx1 : RefIndex}
    (hlt : ∀ (a : Nat), a ∈ idx1 → a < h.length) (hk : KindPres h hE)
    (hfE : FlatRoots hE valsE [] gds fssE idx1) :
    ∃ roots h4 ir4, step4 h idx1 (gds.map (stampWith (fun i => some i))) (fssE.map (convLeaves false)) = .ok (roots, h4) ∧
      GoodO h (selfReuse idx1) idx1 ir4 h4 ∧ PostO hE [] [] h idx1 ir4 h4 ∧ ValsRel (phi idx1 ir4) valsE roots ∧
      ∀ (a c : Nat), phi idx1 ir4 a = some c → c = a := by
  have hR : Reuse hE h (selfReuse idx1) := by
    have key : ∀ (a c : Nat), selfReuse idx1 a = some c → c = a ∧ a ∈ idx1 := by
      intro a c hac
      unfold selfReuse at hac
      split at hac
      · next hm => exact ⟨(Option.some.inj hac).symm, hm⟩
      · cases hac
    refine ⟨?_, ?_, ?_, ?_⟩
    · intro a a' c h1 h2
      rw [(key a c h1).1] at h2
      exact ((key a' a h2).1)
    · intro a c h1
      obtain ⟨rfl, hm⟩ := key a c h1
      exact hlt c hm
    · intro a c cls attrs h1 hg
      obtain ⟨rfl, hm⟩ := key a c h1
      have := hk.2 c (hlt c hm)
      rw [hg] at this
      cases hc0 : h[c]? with
      | none => simp [hc0] at this
      | some o0 =>
        rw [hc0] at this
        cases o0 with
        | node cls0 A0 => simp [kindOf] at this; subst this; exact ⟨A0, rfl⟩
        | var ty0 v0 md0 => simp [kindOf] at this
    · intro a c ty v md h1 hg
      obtain ⟨rfl, hm⟩ := key a c h1
      have := hk.2 c (hlt c hm)
      rw [hg] at this
      cases hc0 : h[c]? with
      | none => simp [hc0] at this
      | some o0 =>
        rw [hc0] at this
        cases o0 with
        | node cls0 A0 => simp [kindOf] at this
        | var ty0 v0 md0 => simp [kindOf] at this; obtain ⟨rfl, rfl⟩ := this; exact ⟨v0, rfl⟩
  have hst : ∀ i a, idx1[i]? = some a → ((fun i => some i) i : Option Nat).bind (omapOf idx1) = selfReuse idx1 a := by
    intro i a hia
    simp [omapOf, selfReuse, hia, List.mem_of_getElem? hia]
  obtain ⟨roots, h4, ir4, hu, Gd, p, hv⟩ := simRootsF hR false (fun i => some i) (omapOf idx1) idx1 hst hfE ⟨[], by simp⟩
    h [] (GoodO.nil _ _)
  have hu' : unflattenRootsO (fun i => idx1[i]?) (gds.map (stampWith (fun i => some i))) (fssE.map (convLeaves false)) h [] =
      .ok (roots, h4, ir4) := hu
  refine ⟨roots, h4, ir4, by simp [step4, hu'], Gd, p, hv, ?_⟩
  intro a c hac
  rcases phi_tgt Gd hac with h1 | ⟨h1, _, _⟩
  · unfold selfReuse at h1
    split at h1
    · exact (Option.some.inj h1).symm
    · cases h1
  · have : a ∈ idx1 := phi_memO hac
    simp [selfReuse, this] at h1


/-! ### while_loop -/

/-- statements that cannot write the heap -/
def Op.readOnly : Op → Bool
  | .getAttr _ _ => true
  | .readVar _ => true
  | .litStatic _ => true
  | .litNone => true
  | .data _ => true
  | _ => false

/-- a predicate function of `while_loop` only reads -/
def Fn.readOnly (c : Fn) : Bool := c.body.all Op.readOnly

theorem runOp_readOnly {h : Heap} {env : List PVal} {op : Op} {h1 : Heap} {env1 : List PVal} (hro : op.readOnly = true)
    (hr : runOp h env op = .ok (h1, env1)) : h1 = h := by
  cases op with
  | getAttr r k =>
    simp only [runOp] at hr
    split at hr <;> try cases hr
    split at hr <;> try cases hr
    split at hr <;> try cases hr
    rfl
  | readVar r =>
    simp only [runOp] at hr
    split at hr <;> try cases hr
    split at hr <;> try cases hr
    rfl
  | litStatic s => simp only [runOp] at hr; cases hr; rfl
  | litNone => simp only [runOp] at hr; cases hr; rfl
  | data e =>
    simp only [runOp] at hr
    split at hr <;> try cases hr
    rfl
  | setVar r e => simp [Op.readOnly] at hro
  | setAttr r k src => simp [Op.readOnly] at hro
  | delAttr r k => simp [Op.readOnly] at hro
  | newNode cls => simp [Op.readOnly] at hro
  | newVar ty e md => simp [Op.readOnly] at hro

theorem runOps_readOnly : ∀ (ops : List Op) {h : Heap} {env : List PVal} {h1 : Heap} {env1 : List PVal},
    ops.all Op.readOnly = true → runOps ops h env = .ok (h1, env1) → h1 = h
  | [], h, env, h1, env1, _, hr => by simp [runOps] at hr; exact hr.1.symm
  | op :: rest, h, env, h1, env1, hro, hr => by
    simp only [List.all_cons, Bool.and_eq_true] at hro
    simp only [runOps] at hr
    split at hr
    · cases hr
    · next h2 env2 he =>
      have e1 := runOp_readOnly hro.1 he
      subst e1
      exact runOps_readOnly rest hro.2 hr

theorem runFn_readOnly {c : Fn} {h : Heap} {args rets : List PVal} {h1 : Heap} (hro : c.readOnly = true)
    (hr : runFn c h args = .ok (rets, h1)) : h1 = h := by
  unfold runFn at hr
  split at hr
  · cases hr
  · next h2 env2 he =>
    split at hr
    · cases hr
    · simp at hr; rw [← hr.2]; exact runOps_readOnly _ hro he

/-- the traced predicate on the carried pure value is the eager predicate on the caller-side heap -/
theorem cond_step {c : Fn} {h : Heap} {vals : List PVal} {gds : List GDef} {fss : List FlatState} {idx1 : RefIndex}
    (hf : FlatRoots h vals [] gds fss idx1) {b : Bool} (hc : condPure c gds (fss.map (convLeaves false)) = .ok b)
    {r : List PVal} {h0 : Heap} (he : runFn c h vals = .ok (r, h0)) : ∃ d, r = [.array d] ∧ b = decide (d ≠ 0) := by
  obtain ⟨args', G, ir, hu, Gd2, R2, hargs, _, _⟩ := inner_copyF false hf
  unfold condPure at hc
  rw [hu] at hc
  simp only at hc
  have hcs := runFn_sim c R2 hargs
  rw [he] at hcs
  rcases hcs with ⟨e, h1, _⟩ | ⟨rets0, h20, rets0', G30, φ', e1, e2, R3, hrets, _⟩
  · cases h1
  simp at e1
  obtain ⟨rfl, rfl⟩ := e1
  rw [e2] at hc
  split at hc
  · cases hc
  · next d G3' heq =>
    simp at heq
    obtain ⟨rfl, _⟩ := heq
    simp at hc
    cases hrets with
    | cons hv ht =>
      cases ht
      cases hv
      refine ⟨d, rfl, ?_⟩
      cases b <;> by_cases hd : d = 0 <;> simp_all
  · cases hc

/-- **while_loop, by induction on the budget**: as `fori_invariant` -/
theorem while_invariant (c f : Fn) (hro : c.readOnly = true) (gds : List GDef) (idx1 : RefIndex) :
    ∀ (fuel : Nat) (h : Heap) (vals : List PVal) (fss : List FlatState) (lssN : List (List Leaf)) (valsE : List PVal) (hE : Heap),
    FlatRoots h vals [] gds fss idx1 → AttrsNodup h →
    whileIter c f gds fuel (fss.map (convLeaves false)) = .ok lssN → whileEager c f fuel h vals = .ok (valsE, hE) →
    ∃ fssE, FlatRoots hE valsE [] gds fssE idx1 ∧ lssN = fssE.map (convLeaves false) ∧ AttrsNodup hE ∧ KindPres h hE
  | 0, h, vals, fss, lssN, valsE, hE, _, _, hi, _ => by simp [whileIter] at hi
  | fuel + 1, h, vals, fss, lssN, valsE, hE, hf, nh, hi, he => by
    simp only [whileIter] at hi
    simp only [whileEager] at he
    split at he
    · cases he
    · next d h0 hrc =>
      have h0eq := runFn_readOnly hro hrc
      subst h0eq
      split at hi
      · cases hi
      · next hcp =>
        -- predicate false
        obtain ⟨d', hd, hb⟩ := cond_step hf hcp hrc
        simp at hd; subst hd
        have hd0 : d = 0 := by simpa using hb
        simp [hd0] at he
        obtain ⟨rfl, rfl⟩ := he
        simp at hi
        exact ⟨fss, hf, hi.symm, nh, KindPres.refl _⟩
      · next hcp =>
        obtain ⟨d', hd, hb⟩ := cond_step hf hcp hrc
        simp at hd; subst hd
        have hd0 : d ≠ 0 := by simpa using hb
        simp only [hd0, ne_eq, not_false_eq_true, if_true] at he
        split at hi
        · cases hi
        · next lss1 hbp =>
          split at he
          · cases he
          · next vals1 h1 hr =>
            obtain ⟨fss1, hf1, rfl, nh1, k1⟩ := body_step (pre := []) (fun v hv => by simp at hv) hf nh (by simpa using hr) hbp
            obtain ⟨fssE, hfE, e, nhE, kE⟩ := while_invariant c f hro gds idx1 fuel h1 vals1 fss1 lssN valsE hE hf1 nh1 hi he
            exact ⟨fssE, hfE, e, nhE, k1.trans kE⟩
    · cases he


/-! ### the loop theorems -/

/-- the outcome of a loop: the final carry under the transform `(roots, h4)` against the unrolled Python loop
`(valsE, hE)`.  The address map is the IDENTITY: it is the caller's own objects that hold the final values. -/
structure LoopRefines (h : Heap) (valsE : List PVal) (hE : Heap) (roots : List PVal) (h4 : Heap) (χ : Addr → Option Addr) :
    Prop where
  iso : IsoM hE (.seq true valsE) h4 (.seq true roots) χ
  ident : ∀ (a c : Nat), χ a = some c → c = a ∧ a < h.length
  frame : ∀ (c : Nat), c < h.length → (∀ (a : Nat), χ a ≠ some c) → h4[c]? = h[c]?

theorem loop_assemble {h hE : Heap} {vals valsE : List PVal} {gds : List GDef} {fss fssE : List FlatState} {idx1 : RefIndex}
    (hf : flattenRoots h vals [] = .ok (gds, fss, idx1)) (hk : KindPres h hE)
    (hfE : FlatRoots hE valsE [] gds fssE idx1) {roots : List PVal} {h4 : Heap}
    (h4eq : step4 h idx1 (gds.map (stampWith (fun i => some i))) (fssE.map (convLeaves false)) = .ok (roots, h4)) :
    ∃ χ, LoopRefines h valsE hE roots h4 χ := by
  obtain ⟨_, _, _, _, _, _, _, hlt⟩ := inner_copy false hf
  obtain ⟨roots', h4', ir4, hs, Gd, p, hv, hid⟩ := loop_final hlt hk hfE
  rw [hs] at h4eq
  simp at h4eq
  obtain ⟨rfl, rfl⟩ := h4eq
  refine ⟨phi idx1 ir4, ⟨⟨.seq hv, fun a b c h1 h2 => phi_injO Gd h1 h2, ?_⟩, ?_, ?_⟩⟩
  · intro a b hab
    obtain ⟨o, o', b', ho, hphi, hH, hrel⟩ := p.obj a (phi_memO hab) (by simp)
    have : b' = b := by rw [hab] at hphi; exact (Option.some.inj hphi).symm
    subst this
    exact ⟨o, o', ho, hH, objRel_toSim hrel⟩
  · intro a c hac
    have := hid a c hac
    exact ⟨this, hlt a (phi_memO hac)⟩
  · intro c hc hn
    exact p.stable c hc (fun a _ _ hphi => hn a hphi)

/-- **`nnx.fori_loop` equals the unrolled Python loop** (induction on the trip count inside `fori_invariant`) -/
theorem fori_refines (f : Fn) (lower : Int) (n : Nat) (h : Heap) (vals : List PVal) (nh : AttrsNodup h)
    (roots : List PVal) (h4 : Heap) (hc : foriCall f lower n h vals = .ok (roots, h4))
    (valsE : List PVal) (hE : Heap) (he : foriEager f n lower h vals = .ok (valsE, hE)) :
    ∃ χ, LoopRefines h valsE hE roots h4 χ := by
  unfold foriCall step1 at hc
  split at hc
  · cases hc
  · next gds lss idx1 hs1 =>
    split at hs1
    · cases hs1
    · next gds' fss idx1' hf1 =>
      simp at hs1
      obtain ⟨rfl, rfl, rfl⟩ := hs1
      split at hc
      · cases hc
      · split at hc
        · cases hc
        · next lssN hit =>
          obtain ⟨fssE, hfE, rfl, _, hk⟩ := fori_invariant f gds' idx1' n lower h vals fss lssN valsE hE
            (flatRoots_of_flattenRoots h vals [] gds' fss idx1' hf1) nh hit he
          exact loop_assemble hf1 hk hfE hc

/-- **`nnx.while_loop` equals `while cond(val): val = body(val)`** for a predicate that only reads -/
theorem while_refines (c f : Fn) (hro : c.readOnly = true) (fuel : Nat) (h : Heap) (vals : List PVal) (nh : AttrsNodup h)
    (roots : List PVal) (h4 : Heap) (hc : whileCall c f fuel h vals = .ok (roots, h4))
    (valsE : List PVal) (hE : Heap) (he : whileEager c f fuel h vals = .ok (valsE, hE)) :
    ∃ χ, LoopRefines h valsE hE roots h4 χ := by
  unfold whileCall step1 at hc
  split at hc
  · cases hc
  · next gds lss idx1 hs1 =>
    split at hs1
    · cases hs1
    · next gds' fss idx1' hf1 =>
      simp at hs1
      obtain ⟨rfl, rfl, rfl⟩ := hs1
      split at hc
      · cases hc
      · cases hc
      · split at hc
        · cases hc
        · next lssN hit =>
          obtain ⟨fssE, hfE, rfl, _, hk⟩ := while_invariant c f hro gds' idx1' fuel h vals fss lssN valsE hE
            (flatRoots_of_flattenRoots h vals [] gds' fss idx1' hf1) nh hit he
          exact loop_assemble hf1 hk hfE hc


/-- a decidable check of `AttrsNodup` -/
def attrsNodupB (h : Heap) : Bool :=
  h.all (fun o => match o with | .node _ attrs => decide (keysNodup attrs) | .var _ _ _ => true)

theorem attrsNodup_of_check {h : Heap} (hb : attrsNodupB h = true) : AttrsNodup h := by
  intro a cls attrs ha
  have := List.all_eq_true.mp hb _ (List.mem_of_getElem? ha)
  simpa using this


/-- C03's well-formedness (`Heap.wf`: every `vars(obj)` and every dict has pairwise distinct keys -- Python dict
semantics) gives the distinct-keys invariant the loop theorems use; every DSL statement preserves it (`runOp_nodup`) -/
theorem attrsNodup_of_wf {h : Heap} (hw : Heap.wf h = true) : AttrsNodup h := by
  intro a cls attrs ha
  have := List.all_eq_true.mp hw _ (List.mem_of_getElem? ha)
  simp only [Obj.wf, Bool.and_eq_true, decide_eq_true_eq] at this
  exact this.1

end Flax.Nnx
